import QP.Proofs.C05Wf
/-!
# C05 helper lemmas: structural predicates on waveforms and the smart constructors
-/
namespace QP.C05
open QP.PT

/-! ## structural predicates -/

mutual
/-- no sequence / repetition waveform anywhere (what `build_waveform` of the atomic templates produces) -/
def noRep : Wf → Bool
  | .table _ _ => true
  | .const _ _ _ => true
  | .func _ _ _ _ => true
  | .multi subs => noRepList subs
  | .seq _ => false
  | .rep _ _ => false
  | .trafo i _ => noRep i
  | .arith l _ r => noRep l && noRep r
  | .neg i => noRep i
  | .reversed i => noRep i
def noRepList : List Wf → Bool
  | [] => true
  | w :: ws => noRep w && noRepList ws
end

mutual
/-- the waveforms that occur as leaves of compiled programs: sequences and repetitions only at the top (under
transformations / reversal), a repetition never repeats a constant body -/
def cst : Wf → Bool
  | .table _ _ => true
  | .const _ _ _ => true
  | .func _ _ _ _ => true
  | .multi subs => noRepList subs
  | .seq subs => !subs.isEmpty && cstList subs
  | .rep b _ => b.constDict.isNone && cst b
  | .trafo i _ => cst i
  | .arith l _ r => noRep l && noRep r
  | .neg i => noRep i
  | .reversed i => cst i
def cstList : List Wf → Bool
  | [] => true
  | w :: ws => cst w && cstList ws
end

mutual
/-- hypotheses on collapsed waveforms, for one channel `c`: the pieces of every sequence have non-negative
durations and agree on whether they define `c` -/
def tidy (c : Chan) : Wf → Bool
  | .table _ _ => true
  | .const _ _ _ => true
  | .func _ _ _ _ => true
  | .multi _ => true
  | .seq subs => tidyList c ((Wf.channelsFirst subs).contains c) subs
  | .rep b _ => tidy c b
  | .trafo i _ => tidy c i
  | .arith _ _ _ => true
  | .neg _ => true
  | .reversed i => tidy c i
def tidyList (c : Chan) (b : Bool) : List Wf → Bool
  | [] => true
  | w :: ws => tidy c w && decide (0 ≤ w.duration) && (w.channels.contains c == b) && tidyList c b ws
end

theorem noRep_cst : ∀ w : Wf, noRep w = true → cst w = true
  | .table _ _, _ => rfl
  | .const _ _ _, _ => rfl
  | .func _ _ _ _, _ => rfl
  | .multi subs, h => by simpa [noRep, cst] using h
  | .seq _, h => by simp [noRep] at h
  | .rep _ _, h => by simp [noRep] at h
  | .trafo i _, h => by
      have := noRep_cst i (by simpa [noRep] using h)
      simpa [cst] using this
  | .arith l _ r, h => by simpa [noRep, cst] using h
  | .neg i, h => by simpa [noRep, cst] using h
  | .reversed i, h => by
      have := noRep_cst i (by simpa [noRep] using h)
      simpa [cst] using this

/-! ## constants -/

/-- the channel-value function of a constant dictionary -/
def dictPV (cv : List (Chan × Rat)) (c : Chan) : Option (Option Rat) := (cv.lookup c).map some

mutual
theorem constOK_noRep : ∀ (w : Wf) (cv : List (Chan × Rat)), noRep w = true → w.constDict = some cv →
    ∀ c t, pv w c t = dictPV cv c
  | .table _ _, cv, _, h => by simp [Wf.constDict] at h
  | .const d ch v, cv, _, h => by
      intro c t
      simp only [Wf.constDict, Option.some.injEq] at h
      subst h
      simp only [pv, Wf.channels, Wf.sample, dictPV, List.contains_cons, List.contains_nil, Bool.or_false,
        List.lookup_cons, List.lookup_nil]
      by_cases hc : c == ch <;> simp [hc]
  | .func _ _ _ _, cv, _, h => by simp [Wf.constDict] at h
  | .multi subs, cv, hn, h => by
      intro c t
      have := constOK_noRepList subs cv (by simpa [noRep] using hn) (by simpa [Wf.constDict] using h) c t
      simpa [pv, Wf.channels, Wf.sample] using this
  | .seq _, cv, hn, _ => by simp [noRep] at hn
  | .rep _ _, cv, hn, _ => by simp [noRep] at hn
  | .trafo _ _, cv, _, h => by simp [Wf.constDict] at h
  | .arith _ _ _, cv, _, h => by simp [Wf.constDict] at h
  | .neg _, cv, _, h => by simp [Wf.constDict] at h
  | .reversed _, cv, _, h => by simp [Wf.constDict] at h
theorem constOK_noRepList : ∀ (ws : List Wf) (cv : List (Chan × Rat)), noRepList ws = true →
    Wf.constDictAll ws = some cv →
    ∀ c t, (if (Wf.channelsAll ws).contains c then some (Wf.sampleMulti ws c t) else none) = dictPV cv c
  | [], cv, _, h => by
      intro c t
      simp only [Wf.constDictAll, Option.some.injEq] at h
      subst h
      simp [Wf.channelsAll, dictPV]
  | w :: ws, cv, hn, h => by
      intro c t
      simp only [noRepList, Bool.and_eq_true] at hn
      simp only [Wf.constDictAll] at h
      cases ha : w.constDict with
      | none => simp [ha] at h
      | some a =>
        cases hb : Wf.constDictAll ws with
        | none => simp [ha, hb] at h
        | some b =>
          simp only [ha, hb, Option.some.injEq] at h
          subst h
          have h1 := constOK_noRep w a hn.1 ha c t
          have h2 := constOK_noRepList ws b hn.2 hb c t
          simp only [pv, dictPV] at h1 h2
          simp only [Wf.channelsAll, Wf.sampleMulti, List.contains_append, dictPV, lookup_append']
          by_cases hw : w.channels.contains c
          · simp only [hw, if_true] at h1
            simp only [hw, Bool.true_or, if_true]
            cases hl : List.lookup c a with
            | none => simp [hl] at h1
            | some v => simp [hl] at h1 ⊢; exact h1
          · simp only [hw, Bool.false_eq_true, if_false] at h1
            simp only [hw, Bool.false_or, Bool.false_eq_true, if_false]
            cases hl : List.lookup c a with
            | none => simpa [hl] using h2
            | some v => simp [hl] at h1
end

/-- a leaf waveform that reports constant values plays exactly them -/
theorem constOK : ∀ (w : Wf) (cv : List (Chan × Rat)), cst w = true → w.constDict = some cv →
    ∀ c t, pv w c t = dictPV cv c
  | .table _ _, cv, _, h => by simp [Wf.constDict] at h
  | .const d ch v, cv, _, h => constOK_noRep _ cv rfl h
  | .func _ _ _ _, cv, _, h => by simp [Wf.constDict] at h
  | .multi subs, cv, hn, h => constOK_noRep _ cv (by simpa [cst, noRep] using hn) h
  | .seq _, cv, _, h => by simp [Wf.constDict] at h
  | .rep b _, cv, hn, h => by
      simp only [cst, Bool.and_eq_true, Option.isNone_iff_eq_none] at hn
      simp [Wf.constDict, hn.1] at h
  | .trafo _ _, cv, _, h => by simp [Wf.constDict] at h
  | .arith _ _ _, cv, _, h => by simp [Wf.constDict] at h
  | .neg _, cv, _, h => by simp [Wf.constDict] at h
  | .reversed _, cv, _, h => by simp [Wf.constDict] at h

theorem constDictAll_consts (d : Rat) : ∀ cvs : List (Chan × Rat),
    Wf.constDictAll (cvs.map (fun (x : Chan × Rat) => Wf.const d x.1 x.2)) = some cvs
  | [] => rfl
  | (ch, v) :: r => by
      simp only [List.map_cons, Wf.constDictAll, Wf.constDict, constDictAll_consts d r]
      rfl

theorem noRepList_consts (d : Rat) : ∀ cvs : List (Chan × Rat),
    noRepList (cvs.map (fun (x : Chan × Rat) => Wf.const d x.1 x.2)) = true
  | [] => rfl
  | (ch, v) :: r => by simp [noRepList, noRep, noRepList_consts d r]

/-- `ConstantWaveform.from_mapping` -/
theorem constFromMapping_spec (d : Rat) (cvs : List (Chan × Rat)) (w : Wf)
    (h : constFromMapping d cvs = .ok w) :
    w.duration = d ∧ w.constDict = some cvs ∧ noRep w = true := by
  unfold constFromMapping at h
  split at h
  · cases h
  · simp only [Except.ok.injEq] at h
    subst h
    exact ⟨rfl, rfl, rfl⟩
  · rename_i h1 h2
    have hmap : (cvs.map (fun (x : Chan × Rat) => match x with | (ch, v) => Wf.const d ch v)) =
        cvs.map (fun (x : Chan × Rat) => Wf.const d x.1 x.2) := by
      apply List.map_congr_left
      intro x _
      rfl
    rw [hmap] at h
    unfold mkMulti at h
    cases cvs with
    | nil => exact absurd rfl h1
    | cons x r =>
      obtain ⟨ch, v⟩ := x
      simp only [List.map_cons] at h
      split at h
      · cases h
      · split at h
        · simp only [Except.ok.injEq] at h
          subst h
          refine ⟨by simp [Wf.duration, Wf.firstDuration], ?_, ?_⟩
          · have := constDictAll_consts d ((ch, v) :: r)
            simpa [Wf.constDict] using this
          · have := noRepList_consts d ((ch, v) :: r)
            simpa [noRep] using this
        · cases h

theorem constFromMapping_pv (d : Rat) (cvs : List (Chan × Rat)) (w : Wf)
    (h : constFromMapping d cvs = .ok w) (c : Chan) (t : Rat) : pv w c t = dictPV cvs c :=
  let ⟨_, h2, h3⟩ := constFromMapping_spec d cvs w h
  constOK_noRep w cvs h3 h2 c t

def allSome (data : List (Chan × Option Rat)) : Prop := ∀ p ∈ data, p.2.isSome = true

theorem Trafo.apply_allSome (T : Trafo) (data : List (Chan × Option Rat)) (h : allSome data) :
    allSome (T.apply data) := by
  cases T with
  | offset m =>
    intro p hp
    simp only [Trafo.apply, List.mem_map] at hp
    obtain ⟨q, hq, rfl⟩ := hp
    have := h q hq
    obtain ⟨a, b⟩ := q
    simp only at this ⊢
    split <;> simp_all
  | scaling m =>
    intro p hp
    simp only [Trafo.apply, List.mem_map] at hp
    obtain ⟨q, hq, rfl⟩ := hp
    have := h q hq
    obtain ⟨a, b⟩ := q
    simp only at this ⊢
    split <;> simp_all
  | parallel m =>
    intro p hp
    simp only [Trafo.apply, List.mem_append, List.mem_map] at hp
    rcases hp with ⟨q, hq, rfl⟩ | ⟨q, _, rfl⟩
    · have := h q hq
      obtain ⟨a, b⟩ := q
      simp only at this ⊢
      split <;> simp_all
    · obtain ⟨a, b⟩ := q
      rfl

theorem Chain.apply_allSome (T : Chain) (data : List (Chan × Option Rat)) (h : allSome data) :
    allSome (Chain.apply T data) := by
  induction T generalizing data with
  | nil => exact h
  | cons t ts ih =>
    simp only [Chain.apply, List.foldl_cons]
    exact ih _ (Trafo.apply_allSome t data h)

theorem lookup_filterMap_some (data : List (Chan × Option Rat)) (h : allSome data) (c : Chan) :
    dictPV (data.filterMap (fun (x : Chan × Option Rat) => x.2.map (fun v => (x.1, v)))) c = data.lookup c := by
  induction data with
  | nil => rfl
  | cons x xs ih =>
    obtain ⟨a, b⟩ := x
    have hb : b.isSome = true := h (a, b) (by simp)
    have hxs : allSome xs := fun p hp => h p (by simp [hp])
    cases b with
    | none => simp at hb
    | some v =>
      simp only [List.filterMap_cons, Option.map_some, dictPV, List.lookup_cons] at ih ⊢
      by_cases hc : c == a
      · simp [hc]
      · simp only [hc]
        exact ih hxs

theorem noRep_tidy (c : Chan) : ∀ w : Wf, noRep w = true → tidy c w = true
  | .table _ _, _ => rfl
  | .const _ _ _, _ => rfl
  | .func _ _ _ _, _ => rfl
  | .multi _, _ => rfl
  | .seq _, h => by simp [noRep] at h
  | .rep _ _, h => by simp [noRep] at h
  | .trafo i _, h => by
      have := noRep_tidy c i (by simpa [noRep] using h)
      simpa [tidy] using this
  | .arith _ _ _, _ => rfl
  | .neg _, _ => rfl
  | .reversed i, h => by
      have := noRep_tidy c i (by simpa [noRep] using h)
      simpa [tidy] using this

theorem fromTransformation_spec (w w' : Wf) (T : Chain) (hc : cst w = true)
    (h : fromTransformation w T = .ok w') :
    w'.duration = w.duration ∧ cst w' = true ∧ (∀ c t, pv w' c t = Chain.chanF T c (pv w c t)) ∧
      (∀ c, tidy c w = true → tidy c w' = true) := by
  unfold fromTransformation at h
  have trafoCase : w' = .trafo w T → (w'.duration = w.duration ∧ cst w' = true ∧
      (∀ c t, pv w' c t = Chain.chanF T c (pv w c t)) ∧ (∀ c, tidy c w = true → tidy c w' = true)) := fun e => by
    subst e
    exact ⟨duration_trafo w T, by simpa [cst] using hc, fun c t => pv_trafo w T c t, fun c ht => by simpa [tidy] using ht⟩
  split at h
  · rename_i cv hcv
    split at h
    · obtain ⟨h1, h2, h3⟩ := constFromMapping_spec _ _ _ h
      refine ⟨h1, noRep_cst _ h3, ?_, ?_⟩
      · intro c t
        rw [constFromMapping_pv _ _ _ h c t, constOK w cv hc hcv c t]
        have hmap : (cv.map (fun (x : Chan × Rat) => match x with | (c, v) => (c, some v))) =
            cv.map (fun (x : Chan × Rat) => (x.1, some x.2)) := List.map_congr_left (fun x _ => rfl)
        have hfm : (fun (x : Chan × Option Rat) => match x with | (c, v) => v.map (fun x => (c, x))) =
            (fun (x : Chan × Option Rat) => x.2.map (fun v => (x.1, v))) := by
          funext ⟨a, b⟩; rfl
        rw [hmap, hfm]
        have hall : allSome (cv.map (fun (x : Chan × Rat) => (x.1, some x.2))) := by
          intro p hp
          simp only [List.mem_map] at hp
          obtain ⟨q, _, rfl⟩ := hp
          rfl
        rw [lookup_filterMap_some _ (Chain.apply_allSome T _ hall), Chain.lookup_apply]
        congr 1
        exact lookup_map_gen cv _ (fun _ v => some v) (fun x => rfl) c
      · intro c _
        exact noRep_tidy c w' h3
    · simp only [Except.ok.injEq] at h
      exact trafoCase h.symm
  · simp only [Except.ok.injEq] at h
    exact trafoCase h.symm

theorem rat_le_div_iff {a b c : Rat} (hc : 0 < c) : a ≤ b / c ↔ a * c ≤ b := by
  rw [← Rat.not_lt, ← Rat.not_lt, Rat.div_lt_iff hc]

theorem floor_range (t d : Rat) (n : Nat) (hd : 0 < d) (h0 : 0 ≤ t) (h1 : t < d * n) :
    0 ≤ (t / d).floor ∧ (t / d).floor < (n : Int) ∧ 0 ≤ t - ((t / d).floor : Rat) * d ∧
      t - ((t / d).floor : Rat) * d < d := by
  have hk1 : ((t / d).floor : Rat) ≤ t / d := Rat.floor_le _
  have hk2 : t / d < (((t / d).floor + 1 : Int) : Rat) := Rat.lt_floor_add_one _
  have h3 : ((t / d).floor : Rat) * d ≤ t := (rat_le_div_iff hd).mp hk1
  have h4 : t < (((t / d).floor + 1 : Int) : Rat) * d := (Rat.div_lt_iff hd).mp hk2
  have h5 : (((t / d).floor + 1 : Int) : Rat) = ((t / d).floor : Rat) + 1 := by
    rw [Rat.intCast_add]; rfl
  rw [h5] at h4
  refine ⟨?_, ?_, ?_, ?_⟩
  · rw [Rat.le_floor_iff, rat_le_div_iff hd]
    show ((0 : Int) : Rat) * d ≤ t
    have : ((0 : Int) : Rat) = 0 := rfl
    rw [this]; grind
  · rw [Rat.floor_lt_iff, Rat.div_lt_iff hd]
    have : ((n : Int) : Rat) = (n : Rat) := rfl
    rw [this]; grind
  · grind
  · grind
/-! ## sampling a sequence of pieces -/

/-- right-open navigation through pieces `(duration, samples)` -/
def nav : List (Rat × (Rat → Option Rat)) → Rat → Option Rat
  | [], _ => none
  | (d, g) :: r, t => if t < d then g t else nav r (t - d)

def navDur : List (Rat × (Rat → Option Rat)) → Rat
  | [] => 0
  | (d, _) :: r => d + navDur r

theorem sampleSeq_lt (w : Wf) (ws : List Wf) (c : Chan) (t : Rat) (h : t < w.duration) :
    Wf.sampleSeq (w :: ws) c t = w.sample c t := by
  cases ws with
  | nil =>
    rw [Wf.sampleSeq]
    have : t ≤ w.duration := Rat.le_of_lt h
    simp [this]
  | cons w' ws' => rw [Wf.sampleSeq]; simp [h]

theorem sampleSeq_ge (w : Wf) (ws : List Wf) (c : Chan) (t : Rat) (hne : ws ≠ []) (h : ¬ t < w.duration) :
    Wf.sampleSeq (w :: ws) c t = Wf.sampleSeq ws c (t - w.duration) := by
  cases ws with
  | nil => exact absurd rfl hne
  | cons w' ws' => rw [Wf.sampleSeq]; simp [h]

/-- strictly inside `[0, total)` a sequence waveform is the right-open navigation through its pieces -/
theorem sampleSeq_nav (c : Chan) : ∀ (ws : List Wf) (t : Rat), t < Wf.sumDuration ws →
    Wf.sampleSeq ws c t = nav (ws.map (fun w => (w.duration, w.sample c))) t
  | [], t, _ => by simp [Wf.sampleSeq, nav]
  | [w], t, h => by
      have h' : t < w.duration := by simp only [Wf.sumDuration] at h; grind
      rw [sampleSeq_lt w [] c t h']
      simp [nav, h']
  | w :: w' :: ws, t, h => by
      by_cases h1 : t < w.duration
      · rw [sampleSeq_lt w _ c t h1]; simp [nav, h1]
      · rw [sampleSeq_ge w _ c t (by simp) h1]
        have : t - w.duration < Wf.sumDuration (w' :: ws) := by
          simp only [Wf.sumDuration] at h ⊢; grind
        rw [sampleSeq_nav c (w' :: ws) _ this]
        simp [nav, h1]

theorem nav_append (xs ys : List (Rat × (Rat → Option Rat))) (hx : ∀ p ∈ xs, 0 ≤ p.1) (t : Rat) (ht : 0 ≤ t) :
    nav (xs ++ ys) t = if t < navDur xs then nav xs t else nav ys (t - navDur xs) := by
  induction xs generalizing t with
  | nil =>
    have : ¬ t < 0 := by grind
    have h0 : t - 0 = t := by grind
    simp [navDur, this, h0]
  | cons p r ih =>
    obtain ⟨d, g⟩ := p
    have hd : 0 ≤ d := hx (d, g) (by simp)
    have hr : ∀ p ∈ r, 0 ≤ p.1 := fun p hp => hx p (by simp [hp])
    have hnd : ∀ l : List (Rat × (Rat → Option Rat)), (∀ p ∈ l, 0 ≤ p.1) → 0 ≤ navDur l := by
      intro l hl
      induction l with
      | nil => simp [navDur]
      | cons q l ihl =>
        obtain ⟨d', g'⟩ := q
        have h1 : 0 ≤ d' := hl (d', g') (by simp)
        have h2 := ihl (fun p hp => hl p (by simp [hp]))
        simp only [navDur]; grind
    have hrd := hnd r hr
    simp only [List.cons_append, nav, navDur]
    by_cases h1 : t < d
    · have : t < d + navDur r := by grind
      simp [h1, this]
    · simp only [h1, if_false]
      rw [ih hr (t - d) (by grind)]
      by_cases h2 : t - d < navDur r
      · have : t < d + navDur r := by grind
        simp [h2, this]
      · have : ¬ t < d + navDur r := by grind
        simp only [h2, this, if_false]
        congr 1
        grind

theorem pv_of_present (w : Wf) (c : Chan) (t : Rat) (h : w.channels.contains c = true) :
    pv w c t = some (w.sample c t) := by unfold pv; rw [if_pos h]

theorem pv_present_iff (w : Wf) (c : Chan) (t : Rat) (x : Option (Option Rat)) (h : pv w c t = x) :
    w.channels.contains c = x.isSome := by rw [← h, pv_isSome]

theorem sample_of_pv_eq (w w' : Wf) (c : Chan) (t t' : Rat) (h : pv w c t = pv w' c t') :
    w.channels.contains c = w'.channels.contains c ∧
      (w.channels.contains c = true → w.sample c t = w'.sample c t') := by
  have h1 : w.channels.contains c = w'.channels.contains c := by
    rw [← pv_isSome w c t, ← pv_isSome w' c t', h]
  refine ⟨h1, fun hp => ?_⟩
  rw [pv_of_present w c t hp, pv_of_present w' c t' (h1 ▸ hp)] at h
  exact Option.some.inj h

/-- a leaf waveform that reports constant values contains no sequence / repetition -/
theorem cst_const_noRep : ∀ (w : Wf) (cv : List (Chan × Rat)), cst w = true → w.constDict = some cv → noRep w = true
  | .table _ _, cv, _, h => by simp [Wf.constDict] at h
  | .const _ _ _, _, _, _ => rfl
  | .func _ _ _ _, cv, _, h => by simp [Wf.constDict] at h
  | .multi subs, _, hn, _ => by simpa [cst, noRep] using hn
  | .seq _, cv, _, h => by simp [Wf.constDict] at h
  | .rep b _, cv, hn, h => by
      simp only [cst, Bool.and_eq_true, Option.isNone_iff_eq_none] at hn
      simp [Wf.constDict, hn.1] at h
  | .trafo _ _, cv, _, h => by simp [Wf.constDict] at h
  | .arith _ _ _, cv, _, h => by simp [Wf.constDict] at h
  | .neg _, cv, _, h => by simp [Wf.constDict] at h
  | .reversed _, cv, _, h => by simp [Wf.constDict] at h

/-- `RepetitionWaveform.from_repetition_count` -/
theorem fromRepetitionCount_spec (body w : Wf) (n : Nat) (hb : cst body = true) (hn : 1 ≤ n)
    (h : fromRepetitionCount body n = .ok w) :
    w.duration = body.duration * n ∧ cst w = true ∧
    (∀ c, w.channels.contains c = body.channels.contains c) ∧
    (∀ c, tidy c w = true → tidy c body = true) ∧
    (∀ c t, 0 < body.duration → 0 ≤ t → t < body.duration * n → w.channels.contains c = true →
      w.sample c t = body.sample c (t - ((t / body.duration).floor : Rat) * body.duration)) := by
  unfold fromRepetitionCount at h
  split at h
  · rename_i cv hcv
    obtain ⟨h1, h2, h3⟩ := constFromMapping_spec _ _ _ h
    have hpv : ∀ c t t', pv w c t = pv body c t' := fun c t t' => by
      rw [constFromMapping_pv _ _ _ h c t, constOK body cv hb hcv c t']
    refine ⟨h1, noRep_cst _ h3, fun c => (sample_of_pv_eq _ _ c 0 0 (hpv c 0 0)).1,
      fun c _ => noRep_tidy c body (cst_const_noRep body cv hb hcv), ?_⟩
    intro c t _ _ _ hp
    exact (sample_of_pv_eq _ _ c _ _ (hpv c t _)).2 hp
  · rename_i hcv
    have : ¬ n < 1 := by omega
    simp only [this, if_false, Except.ok.injEq] at h
    subst h
    refine ⟨by simp [Wf.duration], by simp [cst, hcv, hb], fun c => by simp [Wf.channels],
      fun c ht => by simpa [tidy] using ht, ?_⟩
    intro c t hd h0 h1 _
    obtain ⟨k0, k1, _, _⟩ := floor_range t body.duration n hd h0 h1
    rw [Wf.sample]
    have hd' : ¬ body.duration ≤ 0 := by grind
    have hk0 : ¬ (t / body.duration).floor < 0 := by omega
    simp [hd', hk0, k1]


/-! ## `SequenceWaveform.from_sequence` -/

def flat1 (x : Wf) : List Wf := match x with | .seq subs => subs | _ => [x]

def dictEq (c c' : List (Chan × Rat)) : Bool :=
  c.length == c'.length && c.all (fun (k, v) => c'.lookup k == some v)

def cvStep (acc : Option (List (Chan × Rat))) (x : Wf) : Option (List (Chan × Rat)) :=
  match acc with
  | some c => if c.isEmpty then acc else
      (match x.constDict with
       | some c' => if dictEq c c' then acc else none
       | none => none)
  | none => none

def chanCheck (cs : List Chan) (flattened : List Wf) : Bool :=
  flattened.all (fun x => x.channels.length == cs.length && x.channels.all cs.contains)

theorem fromSequence_eq (w w' : Wf) (r : List Wf) :
    fromSequence (w :: w' :: r) =
      (match (w :: w' :: r).foldl cvStep w.constDict with
       | some c => if c.isEmpty then .ok (.seq ((w :: w' :: r).flatMap flat1))
           else constFromMapping (Wf.sumDuration ((w :: w' :: r).flatMap flat1)) c
       | none => if chanCheck w.channels ((w :: w' :: r).flatMap flat1) then .ok (.seq ((w :: w' :: r).flatMap flat1))
           else .error .valueError) := by
  rfl

theorem cvStep_fold (c0 : List (Chan × Rat)) (hne : c0.isEmpty = false) :
    ∀ (ws : List Wf) (acc : Option (List (Chan × Rat))), ws.foldl cvStep acc = some c0 →
      acc = some c0 ∧ ∀ x ∈ ws, ∃ c', x.constDict = some c' ∧ dictEq c0 c' = true
  | [], acc, h => ⟨h, fun x hx => by simp at hx⟩
  | x :: r, acc, h => by
      simp only [List.foldl_cons] at h
      obtain ⟨h1, h2⟩ := cvStep_fold c0 hne r (cvStep acc x) h
      cases acc with
      | none => simp [cvStep] at h1
      | some c =>
        simp only [cvStep] at h1
        by_cases he : c.isEmpty = true
        · simp only [he, if_true, Option.some.injEq] at h1
          subst h1
          simp [he] at hne
        · have he' : c.isEmpty = false := by simpa using he
          simp only [he', Bool.false_eq_true, if_false] at h1
          cases hx : x.constDict with
          | none => simp [hx] at h1
          | some c' =>
            simp only [hx] at h1
            by_cases hd : dictEq c c' = true
            · simp only [hd, if_true, Option.some.injEq] at h1
              subst h1
              refine ⟨rfl, fun y hy => ?_⟩
              rcases List.mem_cons.mp hy with rfl | hy
              · exact ⟨c', hx, hd⟩
              · exact h2 y hy
            · simp [hd] at h1

theorem dictEq_lookup (c c' : List (Chan × Rat)) (h : dictEq c c' = true) (k : Chan) (v : Rat)
    (hk : c.lookup k = some v) : c'.lookup k = some v := by
  simp only [dictEq, Bool.and_eq_true, List.all_eq_true] at h
  have hmem : ∃ k', (k', v) ∈ c ∧ (k == k') = true := by
    clear h
    induction c with
    | nil => simp at hk
    | cons p r ih =>
      obtain ⟨a, b⟩ := p
      simp only [List.lookup_cons] at hk
      by_cases hka : k == a
      · simp only [hka, Option.some.injEq] at hk
        subst hk
        exact ⟨a, by simp, hka⟩
      · simp only [hka] at hk
        obtain ⟨k', h1, h2⟩ := ih hk
        exact ⟨k', by simp [h1], h2⟩
  obtain ⟨k', h1, h2⟩ := hmem
  have := h.2 (k', v) h1
  have hkk : k = k' := by simpa using h2
  subst hkk
  simpa using this

theorem sumDuration_flat1 : ∀ ws : List Wf, Wf.sumDuration (ws.flatMap flat1) = Wf.sumDuration ws
  | [] => rfl
  | x :: r => by
      have hsum : ∀ a b : List Wf, Wf.sumDuration (a ++ b) = Wf.sumDuration a + Wf.sumDuration b := by
        intro a b
        induction a with
        | nil => simp only [List.nil_append, Wf.sumDuration]; grind
        | cons y ys ih => simp only [List.cons_append, Wf.sumDuration, ih]; grind
      simp only [List.flatMap_cons, hsum, sumDuration_flat1 r, Wf.sumDuration]
      congr 1
      cases x <;> simp only [flat1, Wf.sumDuration, Wf.duration] <;> grind

theorem tidyList_append (c : Chan) (b : Bool) : ∀ xs ys : List Wf,
    tidyList c b (xs ++ ys) = (tidyList c b xs && tidyList c b ys)
  | [], ys => by simp [tidyList]
  | x :: xs, ys => by simp [tidyList, tidyList_append c b xs ys, Bool.and_assoc]

theorem tidyList_mem (c : Chan) (b : Bool) : ∀ (xs : List Wf), tidyList c b xs = true → ∀ x ∈ xs,
    tidy c x = true ∧ 0 ≤ x.duration ∧ x.channels.contains c = b
  | [], _, x, hx => by simp at hx
  | y :: ys, h, x, hx => by
      simp only [tidyList, Bool.and_eq_true, decide_eq_true_eq, beq_iff_eq] at h
      rcases List.mem_cons.mp hx with rfl | hx
      · exact ⟨h.1.1.1, h.1.1.2, h.1.2⟩
      · exact tidyList_mem c b ys h.2 x hx

theorem cstList_append : ∀ xs ys : List Wf, cstList (xs ++ ys) = (cstList xs && cstList ys)
  | [], ys => by simp [cstList]
  | x :: xs, ys => by simp [cstList, cstList_append xs ys, Bool.and_assoc]

theorem cstList_flat1 : ∀ ws : List Wf, (∀ x ∈ ws, cst x = true) → cstList (ws.flatMap flat1) = true
  | [], _ => rfl
  | x :: r, h => by
      simp only [List.flatMap_cons, cstList_append, Bool.and_eq_true]
      refine ⟨?_, cstList_flat1 r (fun y hy => h y (by simp [hy]))⟩
      have hx := h x (by simp)
      cases x <;> simp_all [flat1, cst, cstList]

/-- navigation through the flattened pieces is navigation through the pieces -/
theorem nav_flat1 (c : Chan) : ∀ (ws : List Wf) (t : Rat), 0 ≤ t →
    (∀ y ∈ ws.flatMap flat1, 0 ≤ y.duration) →
    nav ((ws.flatMap flat1).map (fun w => (w.duration, w.sample c))) t =
      nav (ws.map (fun w => (w.duration, w.sample c))) t
  | [], t, _, _ => rfl
  | x :: r, t, ht, hnn => by
      simp only [List.flatMap_cons, List.map_append, List.map_cons]
      have hx : ∀ p ∈ (flat1 x).map (fun w => (w.duration, w.sample c)), 0 ≤ p.1 := by
        intro p hp
        simp only [List.mem_map] at hp
        obtain ⟨y, hy, rfl⟩ := hp
        exact hnn y (by simp [hy])
      have hr : ∀ y ∈ r.flatMap flat1, 0 ≤ y.duration := fun y hy => hnn y (by simp [hy])
      have hdur : navDur ((flat1 x).map (fun w => (w.duration, w.sample c))) = x.duration := by
        have : ∀ l : List Wf, navDur (l.map (fun w => (w.duration, w.sample c))) = Wf.sumDuration l := by
          intro l
          induction l with
          | nil => rfl
          | cons y ys ih => simp [navDur, Wf.sumDuration, ih]
        rw [this]
        cases x <;> simp only [flat1, Wf.sumDuration, Wf.duration] <;> grind
      rw [nav_append _ _ hx t ht, hdur]
      simp only [nav]
      by_cases h1 : t < x.duration
      · simp only [h1, if_true]
        cases x with
        | seq subs =>
          simp only [flat1]
          rw [Wf.sample]
          rw [sampleSeq_nav c subs t (by simpa [Wf.duration] using h1)]
        | _ => simp [flat1, nav, h1]
      · simp only [h1, if_false]
        exact nav_flat1 c r (t - x.duration) (by grind) hr


theorem navDur_map (c : Chan) : ∀ l : List Wf,
    navDur (l.map (fun w => (w.duration, w.sample c))) = Wf.sumDuration l
  | [] => rfl
  | y :: ys => by simp [navDur, Wf.sumDuration, navDur_map c ys]

theorem nav_const (c : Chan) (u : Option Rat) : ∀ (ws : List Wf) (t : Rat), 0 ≤ t →
    (∀ x ∈ ws, ∀ t', x.sample c t' = u) → t < Wf.sumDuration ws →
    nav (ws.map (fun w => (w.duration, w.sample c))) t = u
  | [], t, ht, _, h => by
      simp only [Wf.sumDuration] at h
      exact absurd h (by grind)
  | x :: r, t, ht, hx, h => by
      simp only [List.map_cons, nav]
      by_cases h1 : t < x.duration
      · simp [h1, hx x (by simp)]
      · simp only [h1, if_false]
        refine nav_const c u r _ (by grind) (fun y hy => hx y (by simp [hy])) ?_
        simp only [Wf.sumDuration] at h; grind

theorem tidyList_of_forall (c : Chan) (b : Bool) : ∀ xs : List Wf,
    (∀ x ∈ xs, tidy c x = true ∧ 0 ≤ x.duration ∧ x.channels.contains c = b) → tidyList c b xs = true
  | [], _ => rfl
  | y :: ys, h => by
      obtain ⟨h1, h2, h3⟩ := h y (by simp)
      simp only [tidyList, Bool.and_eq_true, decide_eq_true_eq, beq_iff_eq]
      exact ⟨⟨⟨h1, h2⟩, h3⟩, tidyList_of_forall c b ys (fun x hx => h x (by simp [hx]))⟩

/-- a piece of a tidy flattened sequence is tidy and defines `c` iff the sequence does -/
theorem piece_of_flat (c : Chan) (b : Bool) (flat : List Wf)
    (hf : ∀ y ∈ flat, tidy c y = true ∧ 0 ≤ y.duration ∧ y.channels.contains c = b)
    (x : Wf) (hx : cst x = true) (hsub : ∀ y ∈ flat1 x, y ∈ flat) :
    tidy c x = true ∧ x.channels.contains c = b := by
  cases x with
  | seq subs =>
    simp only [flat1] at hsub
    simp only [cst, Bool.and_eq_true, Bool.not_eq_true', List.isEmpty_eq_false_iff] at hx
    cases subs with
    | nil => exact absurd rfl hx.1
    | cons y ys =>
      have hy := hf y (hsub y (by simp))
      have hb : (Wf.channelsFirst (y :: ys)).contains c = b := by simpa [Wf.channelsFirst] using hy.2.2
      refine ⟨?_, by simpa [Wf.channels] using hb⟩
      simp only [tidy, hb]
      exact tidyList_of_forall c b _ (fun z hz => hf z (hsub z hz))
  | table _ _ => exact ⟨rfl, (hf _ (hsub _ (by simp [flat1]))).2.2⟩
  | const _ _ _ => exact ⟨rfl, (hf _ (hsub _ (by simp [flat1]))).2.2⟩
  | func _ _ _ _ => exact ⟨rfl, (hf _ (hsub _ (by simp [flat1]))).2.2⟩
  | multi _ => exact ⟨rfl, (hf _ (hsub _ (by simp [flat1]))).2.2⟩
  | rep bd n => exact ⟨(hf _ (hsub _ (by simp [flat1]))).1, (hf _ (hsub _ (by simp [flat1]))).2.2⟩
  | trafo i T => exact ⟨(hf _ (hsub _ (by simp [flat1]))).1, (hf _ (hsub _ (by simp [flat1]))).2.2⟩
  | arith _ _ _ => exact ⟨rfl, (hf _ (hsub _ (by simp [flat1]))).2.2⟩
  | neg _ => exact ⟨rfl, (hf _ (hsub _ (by simp [flat1]))).2.2⟩
  | reversed i => exact ⟨(hf _ (hsub _ (by simp [flat1]))).1, (hf _ (hsub _ (by simp [flat1]))).2.2⟩

theorem all_eq_of_forall {α} (p : α → Bool) (b : Bool) : ∀ (l : List α), l ≠ [] → (∀ x ∈ l, p x = b) → l.all p = b
  | [], h, _ => absurd rfl h
  | [x], _, h => by simp [h x (by simp)]
  | x :: y :: r, _, h => by
      have := all_eq_of_forall p b (y :: r) (by simp) (fun z hz => h z (by simp [hz]))
      rw [List.all_cons, this, h x (by simp)]
      cases b <;> rfl


/-- what the proofs need to know about a waveform assembled from the pieces `ws` -/
def SeqSpec (ws : List Wf) (s : Wf) : Prop :=
  s.duration = Wf.sumDuration ws ∧ cst s = true ∧
    ∀ c, tidy c s = true →
      (∀ x ∈ ws, tidy c x = true) ∧
      s.channels.contains c = ws.all (fun x => x.channels.contains c) ∧
      (s.channels.contains c = true → ∀ t, 0 ≤ t → t < Wf.sumDuration ws →
        s.sample c t = nav (ws.map (fun x => (x.duration, x.sample c))) t)

theorem seqSpec_flat (ws : List Wf) (hne : ws ≠ []) (hc : ∀ x ∈ ws, cst x = true) :
    SeqSpec ws (.seq (ws.flatMap flat1)) := by
  have hflatne : ws.flatMap flat1 ≠ [] := by
    cases ws with
    | nil => exact absurd rfl hne
    | cons x r =>
      have hx := hc x (by simp)
      cases x <;> simp_all [flat1, cst]
  refine ⟨?_, ?_, ?_⟩
  · simp only [Wf.duration]; exact sumDuration_flat1 ws
  · simp only [cst, Bool.and_eq_true, Bool.not_eq_true', List.isEmpty_eq_false_iff]
    exact ⟨hflatne, cstList_flat1 ws hc⟩
  · intro c ht
    simp only [tidy] at ht
    have hf := tidyList_mem c _ _ ht
    have hpiece : ∀ x ∈ ws, tidy c x = true ∧
        x.channels.contains c = (Wf.channelsFirst (ws.flatMap flat1)).contains c := fun x hx =>
      piece_of_flat c _ _ hf x (hc x hx) (fun y hy => List.mem_flatMap.mpr ⟨x, hx, hy⟩)
    refine ⟨fun x hx => (hpiece x hx).1, ?_, ?_⟩
    · simp only [Wf.channels]
      exact (all_eq_of_forall _ _ ws hne (fun x hx => (hpiece x hx).2)).symm
    · intro _ t h0 h1
      rw [Wf.sample, sampleSeq_nav c _ t (by rw [sumDuration_flat1]; exact h1)]
      exact nav_flat1 c ws t h0 (fun y hy => (hf y hy).2.1)

theorem seqSpec_const (ws : List Wf) (w : Wf) (hw : w ∈ ws) (c0 : List (Chan × Rat)) (hw0 : w.constDict = some c0)
    (hc : ∀ x ∈ ws, cst x = true)
    (hall : ∀ x ∈ ws, ∃ c', x.constDict = some c' ∧ dictEq c0 c' = true) (s : Wf) (d : Rat)
    (hd : d = Wf.sumDuration ws) (h : constFromMapping d c0 = .ok s) : SeqSpec ws s := by
  obtain ⟨h1, _, h3⟩ := constFromMapping_spec _ _ _ h
  refine ⟨by rw [h1, hd], noRep_cst _ h3, ?_⟩
  intro c _
  have hs : ∀ t, pv s c t = dictPV c0 c := fun t => constFromMapping_pv _ _ _ h c t
  have hx : ∀ x ∈ ws, ∀ c', x.constDict = some c' → ∀ t, pv x c t = dictPV c' c := fun x hx c' hc' t =>
    constOK x c' (hc x hx) hc' c t
  refine ⟨?_, ?_, ?_⟩
  · intro x hx'
    obtain ⟨c', h1', _⟩ := hall x hx'
    exact noRep_tidy c x (cst_const_noRep x c' (hc x hx') h1')
  · -- presence
    have hsp : s.channels.contains c = (c0.lookup c).isSome := by
      rw [pv_present_iff s c 0 _ (hs 0)]; simp [dictPV]
    cases hl : c0.lookup c with
    | none =>
      rw [hsp, hl]
      have hwp : w.channels.contains c = false := by
        rw [pv_present_iff w c 0 _ (hx w hw c0 hw0 0)]; simp [dictPV, hl]
      symm
      show (ws.all fun x => x.channels.contains c) = false
      rw [Bool.eq_false_iff]
      intro hall'
      rw [List.all_eq_true] at hall'
      have := hall' w hw
      rw [hwp] at this
      cases this
    | some v =>
      rw [hsp, hl]
      symm
      rw [Option.isSome_some, List.all_eq_true]
      intro x hx'
      obtain ⟨c', h1', h2'⟩ := hall x hx'
      rw [pv_present_iff x c 0 _ (hx x hx' c' h1' 0)]
      simp [dictPV, dictEq_lookup c0 c' h2' c v hl]
  · intro hp t h0 h1'
    have hsp : s.channels.contains c = (c0.lookup c).isSome := by
      rw [pv_present_iff s c 0 _ (hs 0)]; simp [dictPV]
    cases hl : c0.lookup c with
    | none => rw [hsp, hl] at hp; simp at hp
    | some v =>
      have hsv : s.sample c t = some v := by
        have := hs t
        rw [pv_of_present s c t hp] at this
        simpa [dictPV, hl] using this
      rw [hsv]
      symm
      apply nav_const c (some v) ws t h0 _ h1'
      intro x hx' t'
      obtain ⟨c', h1'', h2'⟩ := hall x hx'
      have hpx := hx x hx' c' h1'' t'
      have hxp : x.channels.contains c = true := by
        rw [pv_present_iff x c t' _ hpx]; simp [dictPV, dictEq_lookup c0 c' h2' c v hl]
      rw [pv_of_present x c t' hxp] at hpx
      simpa [dictPV, dictEq_lookup c0 c' h2' c v hl] using hpx

/-- `SequenceWaveform.from_sequence` on at least two pieces -/
theorem fromSequence_spec (w w' : Wf) (r : List Wf) (s : Wf)
    (hc : ∀ x ∈ w :: w' :: r, cst x = true)
    (h : fromSequence (w :: w' :: r) = .ok s) : SeqSpec (w :: w' :: r) s := by
  rw [fromSequence_eq] at h
  split at h
  · rename_i c0 hfold
    by_cases he : c0.isEmpty = true
    · simp only [he, if_true, Except.ok.injEq] at h
      subst h
      exact seqSpec_flat _ (by simp) hc
    · have he' : c0.isEmpty = false := by simpa using he
      simp only [he', Bool.false_eq_true, if_false] at h
      obtain ⟨h1, h2⟩ := cvStep_fold c0 he' _ _ hfold
      exact seqSpec_const _ w (by simp) c0 h1 hc h2 s _ (sumDuration_flat1 _) h
  · split at h
    · simp only [Except.ok.injEq] at h
      subst h
      exact seqSpec_flat _ (by simp) hc
    · cases h


end QP.C05
