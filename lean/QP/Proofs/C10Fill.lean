import QP.Proofs.C10Basic
/-! C10, class level: `fill (schema cls)` restores the attributes `get_serialization_data` wrote or omitted. -/
namespace QP.C10
set_option linter.unusedSimpArgs false
set_option linter.unusedVariables false

def specKeys (sps : List Spec) : List String := sps.map (·.key)
def itemKeys (its : List Item) : List String := its.map Item.key

theorem findItem_cons (k : String) (it : Item) (rest : List Item) :
    findItem k (it :: rest) = if it.key = k then some it else findItem k rest := rfl

theorem findItem_none_of_not_mem {k : String} {items : List Item} (h : k ∉ itemKeys items) :
    findItem k items = none := by
  induction items with
  | nil => rfl
  | cons it its ih =>
    simp only [itemKeys, List.map_cons, List.mem_cons, not_or] at h
    rw [findItem_cons, if_neg (fun e => h.1 e.symm)]
    exact ih h.2

theorem findItem_key {k : String} {items : List Item} {it : Item} (h : findItem k items = some it) :
    it.key = k ∧ it ∈ items := by
  induction items with
  | nil => simp [findItem] at h
  | cons x xs ih =>
    rw [findItem_cons] at h
    by_cases hx : x.key = k
    · simp [hx] at h; subst h; exact ⟨hx, List.mem_cons_self⟩
    · simp [hx] at h; exact ⟨(ih h).1, List.mem_cons_of_mem _ (ih h).2⟩

theorem findItem_of_mem_nodup {items : List Item} (hn : (itemKeys items).Nodup) {it : Item} (h : it ∈ items) :
    findItem it.key items = some it := by
  induction items with
  | nil => simp at h
  | cons x xs ih =>
    simp only [itemKeys, List.map_cons, List.nodup_cons] at hn
    rw [findItem_cons]
    rcases List.mem_cons.mp h with h | h
    · subst h; simp
    · have : x.key ≠ it.key := by
        intro e; exact hn.1 (e ▸ List.mem_map.mpr ⟨it, h, rfl⟩)
      rw [if_neg this]; exact ih hn.2 h

theorem findItem_filter (em : Item → Bool) (k : String) {items : List Item} (hn : (itemKeys items).Nodup) :
    findItem k (items.filter em) =
      (match findItem k items with | some it => if em it then some it else none | none => none) := by
  induction items with
  | nil => rfl
  | cons x xs ih =>
    simp only [itemKeys, List.map_cons, List.nodup_cons] at hn
    by_cases hx : x.key = k
    · rw [findItem_cons, if_pos hx]
      by_cases he : em x = true
      · simp [List.filter, he, findItem_cons, hx]
      · have he' : em x = false := by simpa using he
        simp only [List.filter, he', he]
        have : k ∉ itemKeys (xs.filter em) := by
          intro hm
          obtain ⟨y, hy, hyk⟩ := List.mem_map.mp hm
          exact hn.1 (hx ▸ hyk ▸ List.mem_map.mpr ⟨y, (List.mem_filter.mp hy).1, rfl⟩)
        rw [findItem_none_of_not_mem this]; simp
    · rw [findItem_cons, if_neg hx]
      by_cases he : em x = true
      · simp only [List.filter, he, findItem_cons, if_neg hx]; exact ih hn.2
      · have he' : em x = false := by simpa using he
        simp only [List.filter, he']; exact ih hn.2

theorem aligned_keys_subset : ∀ (sps : List Spec) (items : List Item), alignedB sps items = true →
    ∀ it ∈ items, it.key ∈ specKeys sps
  | [], [], _, it, hit => by simp at hit
  | [], _ :: _, h, _, _ => by simp [alignedB] at h
  | sp :: sps, [], _, it, hit => by simp at hit
  | sp :: sps, x :: xs, h, it, hit => by
    unfold alignedB at h
    by_cases hk : x.key = sp.key
    · simp only [hk, if_true, Bool.and_eq_true] at h
      rcases List.mem_cons.mp hit with e | e
      · subst e; simp [specKeys, hk]
      · have := aligned_keys_subset sps xs h.2 it e
        simp only [specKeys, List.map_cons, List.mem_cons]; exact Or.inr this
    · simp only [hk, if_false, Bool.and_eq_true] at h
      have := aligned_keys_subset sps (x :: xs) h.2 it hit
      simp only [specKeys, List.map_cons, List.mem_cons]; exact Or.inr this

theorem aligned_keys_nodup : ∀ (sps : List Spec) (items : List Item), (specKeys sps).Nodup →
    alignedB sps items = true → (itemKeys items).Nodup
  | [], [], _, _ => by simp [itemKeys]
  | [], _ :: _, _, h => by simp [alignedB] at h
  | sp :: sps, [], _, _ => by simp [itemKeys]
  | sp :: sps, x :: xs, hn, h => by
    simp only [specKeys, List.map_cons, List.nodup_cons] at hn
    unfold alignedB at h
    by_cases hk : x.key = sp.key
    · simp only [hk, if_true, Bool.and_eq_true] at h
      have ih := aligned_keys_nodup sps xs hn.2 h.2
      simp only [itemKeys, List.map_cons, List.nodup_cons]
      refine ⟨?_, ih⟩
      intro hm
      obtain ⟨y, hy, hyk⟩ := List.mem_map.mp hm
      have := aligned_keys_subset sps xs h.2 y hy
      rw [hyk, hk] at this
      exact hn.1 this
    · simp only [hk, if_false, Bool.and_eq_true] at h
      exact aligned_keys_nodup sps (x :: xs) hn.2 h.2

/-- `emitted`-style predicate `em` agrees with the kinds of `sps`: only an attribute that equals the
default of an `omitDefault` key is left out -/
def EmOk (em : Item → Bool) (sps : List Spec) : Prop :=
  ∀ sp ∈ sps, ∀ it : Item, it.key = sp.key → em it = false → ∃ d, sp.kind = .omitDefault d ∧ it = .data sp.key d

theorem fill_cons (sp : Spec) (sps : List Spec) (kw : List Item) :
    fill (sp :: sps) kw = (fill sps kw).bind fun rest =>
      match findItem sp.key kw with
      | some it => if shapeOk sp.shape it then pure (it :: rest) else throw .valueError
      | none =>
        match sp.kind with
        | .req => throw .valueError
        | .dflt d => pure (.data sp.key d :: rest)
        | .omitDefault d => pure (.data sp.key d :: rest)
        | .absent => pure rest := rfl

theorem fill_aligned (em : Item → Bool) (KW : List Item) :
    ∀ (sps : List Spec) (items : List Item), (specKeys sps).Nodup → EmOk em sps →
      alignedB sps items = true →
      (∀ sp ∈ sps, findItem sp.key KW =
        (match findItem sp.key items with | some it => if em it then some it else none | none => none)) →
      fill sps KW = .ok items
  | [], [], _, _, _, _ => rfl
  | [], _ :: _, _, _, hal, _ => by simp [alignedB] at hal
  | sp :: sps, [], hn, hem, hal, hc => by
    simp only [specKeys, List.map_cons, List.nodup_cons] at hn
    simp only [alignedB, Bool.and_eq_true] at hal
    have ih := fill_aligned em KW sps [] hn.2 (fun s hs => hem s (List.mem_cons_of_mem _ hs)) hal.2
      (fun s hs => by simpa [findItem] using hc s (List.mem_cons_of_mem _ hs))
    have hf : findItem sp.key KW = none := by simpa [findItem] using hc sp List.mem_cons_self
    rw [fill_cons, ih, hf]
    cases hk : sp.kind <;> simp [hk] at hal
    rfl
  | sp :: sps, x :: xs, hn, hem, hal, hc => by
    have hn' := hn
    simp only [specKeys, List.map_cons, List.nodup_cons] at hn
    unfold alignedB at hal
    by_cases hk : x.key = sp.key
    · simp only [hk, if_true, Bool.and_eq_true] at hal
      have hsub := aligned_keys_subset sps xs hal.2
      have ih := fill_aligned em KW sps xs hn.2 (fun s hs => hem s (List.mem_cons_of_mem _ hs)) hal.2
        (fun s hs => by
          have hne : x.key ≠ s.key := by
            intro e; apply hn.1; rw [← hk, e]; exact List.mem_map.mpr ⟨s, hs, rfl⟩
          have := hc s (List.mem_cons_of_mem _ hs)
          rwa [findItem_cons, if_neg hne] at this)
      have hf := hc sp List.mem_cons_self
      rw [findItem_cons, if_pos hk] at hf
      rw [fill_cons, ih]
      by_cases he : em x = true
      · simp only [he, if_true] at hf
        simp [Except.bind, hf, hal.1]; rfl
      · have he' : em x = false := by simpa using he
        simp only [he', Bool.false_eq_true, if_false] at hf
        obtain ⟨d, hd, hx⟩ := hem sp List.mem_cons_self x hk he'
        simp [Except.bind, hf, hd, hx]; rfl
    · simp only [hk, if_false, Bool.and_eq_true] at hal
      have hsub := aligned_keys_subset sps (x :: xs) hal.2
      have ih := fill_aligned em KW sps (x :: xs) hn.2 (fun s hs => hem s (List.mem_cons_of_mem _ hs)) hal.2
        (fun s hs => hc s (List.mem_cons_of_mem _ hs))
      have hnot : sp.key ∉ itemKeys (x :: xs) := by
        intro hm
        obtain ⟨y, hy, hyk⟩ := List.mem_map.mp hm
        have := hsub y hy
        rw [hyk] at this
        exact hn.1 this
      have hf := hc sp List.mem_cons_self
      rw [findItem_none_of_not_mem hnot] at hf
      rw [fill_cons, ih]
      simp only [Except.bind, hf]
      cases hkind : sp.kind <;> simp [hkind] at hal
      rfl

/-- the class-level round trip: what `get_serialization_data` writes, `__init__` reads back -/
theorem fill_filter (em : Item → Bool) (sps : List Spec) (items : List Item)
    (hn : (specKeys sps).Nodup) (hem : EmOk em sps) (hal : alignedB sps items = true) :
    fill sps (items.filter em) = .ok items :=
  fill_aligned em (items.filter em) sps items hn hem hal
    (fun sp _ => findItem_filter em sp.key (aligned_keys_nodup sps items hn hal))

end QP.C10
