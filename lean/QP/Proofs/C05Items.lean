import QP.Proofs.C05Loop
/-!
# C05 helper lemmas: the builder items (`Item`, `applyItems`, `guardRun`, `tryAppend`, `toProgram`)

`QP.PT.applyItems_*` / `guardRun_*` are stated for reuse by the other pulse-template properties.
-/
namespace QP.C05
open QP.PT

/-- the children a list of items appends -/
def itemsNodes : List Item → List Loop
  | [] => []
  | .measure _ :: r => itemsNodes r
  | .node l :: r => l :: itemsNodes r

/-- the windows a list of items adds to the loop it is applied to, `off` = body duration reached before -/
def itemsMeas : List Item → Rat → List Window
  | [], _ => []
  | .measure ms :: r, off => ms.map (shiftW off) ++ itemsMeas r off
  | .node l :: r, off => itemsMeas r (off + l.duration)

/-- all windows of a list of items relative to the loop it is applied to -/
def itemsWin (I : List Item) (off : Rat) : List Window :=
  itemsMeas I off ++ Loop.windowsList (itemsNodes I) off

def itemsDur (I : List Item) : Rat := Loop.durationList (itemsNodes I)

theorem itemsNodes_append : ∀ I J : List Item, itemsNodes (I ++ J) = itemsNodes I ++ itemsNodes J
  | [], J => rfl
  | .measure _ :: r, J => by simp [itemsNodes, itemsNodes_append r J]
  | .node l :: r, J => by simp [itemsNodes, itemsNodes_append r J]

theorem itemsMeas_append : ∀ (I J : List Item) (off : Rat),
    itemsMeas (I ++ J) off = itemsMeas I off ++ itemsMeas J (off + itemsDur I)
  | [], J, off => by
      have : off + itemsDur [] = off := by simp only [itemsDur, itemsNodes, Loop.durationList]; grind
      simp [itemsMeas, this]
  | .measure ms :: r, J, off => by
      have : itemsDur (.measure ms :: r) = itemsDur r := rfl
      simp [itemsMeas, itemsMeas_append r J off, this]
  | .node l :: r, J, off => by
      have : off + itemsDur (.node l :: r) = off + l.duration + itemsDur r := by
        simp only [itemsDur, itemsNodes, Loop.durationList]; grind
      simp [itemsMeas, itemsMeas_append r J (off + l.duration), this]

theorem itemsDur_append (I J : List Item) : itemsDur (I ++ J) = itemsDur I + itemsDur J := by
  simp [itemsDur, itemsNodes_append, durationList_append]

end QP.C05

namespace QP.PT
open QP.C05

/-- `Loop.applyItems` on a loop without own waveform: the measures go to the loop, the nodes to its children -/
theorem applyItems_eq (rep : Nat) : ∀ (I : List Item) (meas : List Window) (cs : List Loop),
    (Loop.mk rep none meas cs).applyItems I =
      Loop.mk rep none (meas ++ itemsMeas I (Loop.durationList cs)) (cs ++ itemsNodes I)
  | [], meas, cs => by simp [Loop.applyItems, itemsMeas, itemsNodes]
  | .measure ms :: r, meas, cs => by
      have ih := applyItems_eq rep r (meas ++ ms.map (shiftW (Loop.durationList cs))) cs
      simp only [Loop.applyItems, List.foldl_cons] at ih ⊢
      simp only [Loop.applyItem, Loop.rep, Loop.wf, Loop.meas, Loop.children, bodyDuration_none]
      rw [ih]
      simp [itemsMeas, itemsNodes]
  | .node l :: r, meas, cs => by
      have ih := applyItems_eq rep r meas (cs ++ [l])
      simp only [Loop.applyItems, List.foldl_cons] at ih ⊢
      simp only [Loop.applyItem, Loop.rep, Loop.wf, Loop.meas, Loop.children]
      rw [ih]
      have : Loop.durationList (cs ++ [l]) = Loop.durationList cs + l.duration := by
        rw [durationList_append]; simp only [Loop.durationList]; grind
      simp [itemsMeas, itemsNodes, this]

end QP.PT

namespace QP.C05
open QP.PT

/-- the root loop `LoopBuilder.to_program` returns for a list of items -/
def rootOf (I : List Item) : Loop := Loop.mk 1 none (itemsMeas I 0) (itemsNodes I)

theorem toProgram_eq (I : List Item) :
    toProgram I = if (itemsNodes I).isEmpty then none else some (rootOf I) := by
  unfold toProgram rootLoop
  rw [applyItems_eq]
  simp only [Loop.durationList, List.nil_append, Loop.isEmpty, Loop.wf, Loop.children, Option.isNone_none,
    Bool.true_and, rootOf]

theorem shiftW_zero (w : Window) : shiftW 0 w = w := by
  obtain ⟨a, b, c⟩ := w
  simp only [shiftW]
  congr 2
  grind

theorem shiftW_shiftW (a b : Rat) (w : Window) : shiftW a (shiftW b w) = shiftW (b + a) w := by
  obtain ⟨n, x, y⟩ := w
  simp only [shiftW]
  congr 2
  grind

theorem repeatWindows_one (ws : List Window) (d : Rat) : repeatWindows ws 1 d = ws := by
  simp only [repeatWindows, List.range_one, List.flatMap_cons, List.flatMap_nil, List.append_nil]
  have : ((0 : Nat) : Rat) * d = 0 := by
    have : ((0 : Nat) : Rat) = 0 := rfl
    rw [this]; grind
  rw [this]
  conv => rhs; rw [← List.map_id ws]
  apply List.map_congr_left
  intro w _
  exact shiftW_zero w

theorem rootOf_windows (I : List Item) : (rootOf I).windows = itemsWin I 0 := by
  simp only [rootOf, Loop.windows, repeatWindows_one, itemsWin]

theorem rootOf_duration (I : List Item) : (rootOf I).duration = itemsDur I := by
  simp only [rootOf, Loop.duration, bodyDuration_none, itemsDur]
  have : ((1 : Nat) : Rat) = 1 := rfl
  rw [this]; grind

theorem rootOf_sample (I : List Item) (c : Chan) (t : Rat) (h0 : 0 ≤ t) (h1 : t < itemsDur I) :
    (rootOf I).sample c t = Loop.sampleList (itemsNodes I) c t := by
  have h1' : t < (rootOf I).duration := by rw [rootOf_duration]; exact h1
  obtain ⟨s1, _, _, s4⟩ := sample_mk (rootOf I) c t h0 h1'
  have hbd : (rootOf I).bodyDuration = itemsDur I := by simp [rootOf, bodyDuration_none, itemsDur]
  rw [hbd] at s1 s4
  have h1'' : t < itemsDur I * ((1 : Nat) : Rat) := by
    have : ((1 : Nat) : Rat) = 1 := rfl
    rw [this]; grind
  obtain ⟨k0, k1, _, _⟩ := floor_range t (itemsDur I) 1 s1 h0 h1''
  have hk : (t / itemsDur I).floor = 0 := by omega
  rw [s4, hk]
  have : t - ((0 : Int) : Rat) * itemsDur I = t := by
    have : ((0 : Int) : Rat) = 0 := rfl
    rw [this]; grind
  rw [this]
  simp only [rootOf, bodySample]
  cases hn : itemsNodes I with
  | nil => simp [Loop.sampleList]
  | cons x r => rfl


theorem windowsList_shift : ∀ (cs : List Loop) (off : Rat),
    Loop.windowsList cs off = (Loop.windowsList cs 0).map (shiftW off)
  | [], off => by simp [Loop.windowsList]
  | x :: r, off => by
      rw [Loop.windowsList, Loop.windowsList, windowsList_shift r (off + x.duration),
        windowsList_shift r (0 + x.duration)]
      simp only [List.map_append, List.map_map]
      congr 1
      · apply List.map_congr_left
        intro w _
        simp only [Function.comp, shiftW_shiftW]
        congr 1; grind
      · apply List.map_congr_left
        intro w _
        simp only [Function.comp, shiftW_shiftW]
        congr 1; grind

theorem itemsMeas_shift : ∀ (I : List Item) (off : Rat),
    itemsMeas I off = (itemsMeas I 0).map (shiftW off)
  | [], off => by simp [itemsMeas]
  | .measure ms :: r, off => by
      rw [itemsMeas, itemsMeas, itemsMeas_shift r off]
      simp only [List.map_append, List.map_map]
      congr 1
      apply List.map_congr_left
      intro w _
      simp only [Function.comp, shiftW_shiftW]
      congr 1; grind
  | .node l :: r, off => by
      rw [itemsMeas, itemsMeas, itemsMeas_shift r (off + l.duration), itemsMeas_shift r (0 + l.duration)]
      simp only [List.map_map]
      apply List.map_congr_left
      intro w _
      simp only [Function.comp, shiftW_shiftW]
      congr 1; grind

theorem itemsWin_shift (I : List Item) (off : Rat) : itemsWin I off = (itemsWin I 0).map (shiftW off) := by
  simp only [itemsWin, List.map_append]
  rw [itemsMeas_shift I off, windowsList_shift (itemsNodes I) off]

theorem windowsList_append : ∀ (xs ys : List Loop) (off : Rat),
    Loop.windowsList (xs ++ ys) off = Loop.windowsList xs off ++ Loop.windowsList ys (off + Loop.durationList xs)
  | [], ys, off => by
      have : off + Loop.durationList [] = off := by simp only [Loop.durationList]; grind
      simp [Loop.windowsList, this]
  | x :: r, ys, off => by
      have : off + Loop.durationList (x :: r) = off + x.duration + Loop.durationList r := by
        simp only [Loop.durationList]; grind
      simp only [List.cons_append, Loop.windowsList, windowsList_append r ys, this, List.append_assoc]

theorem itemsWin_append (I J : List Item) (off : Rat) :
    (itemsWin (I ++ J) off).Perm (itemsWin I off ++ itemsWin J (off + itemsDur I)) := by
  simp only [itemsWin, itemsMeas_append, itemsNodes_append, windowsList_append, itemsDur]
  -- (a ++ b) ++ (c ++ d) ~ (a ++ c) ++ (b ++ d)
  generalize itemsMeas I off = a
  generalize itemsMeas J (off + Loop.durationList (itemsNodes I)) = b
  generalize Loop.windowsList (itemsNodes I) off = c
  generalize Loop.windowsList (itemsNodes J) (off + Loop.durationList (itemsNodes I)) = d
  have h1 : (b ++ (c ++ d)).Perm (c ++ (b ++ d)) := by
    rw [← List.append_assoc, ← List.append_assoc]
    exact List.Perm.append_right d List.perm_append_comm
  calc (a ++ b ++ (c ++ d)).Perm (a ++ (b ++ (c ++ d))) := by rw [List.append_assoc]
    _ |>.Perm (a ++ (c ++ (b ++ d))) := List.Perm.append_left a h1
    _ |>.Perm (a ++ c ++ (b ++ d)) := by rw [List.append_assoc]

theorem repeatWindows_perm (ws ws' : List Window) (h : ws.Perm ws') (n : Nat) (d : Rat) :
    (repeatWindows ws n d).Perm (repeatWindows ws' n d) := by
  simp only [repeatWindows]
  induction (List.range n) with
  | nil => simp
  | cons k r ih =>
    simp only [List.flatMap_cons]
    exact List.Perm.append (List.Perm.map _ h) ih


end QP.C05

namespace QP.C05
open QP.PT

/-! ## non-negative durations -/

def nonnegW (w : Wf) : Bool := decide (0 ≤ w.duration)

mutual
theorem duration_nonneg : ∀ l : Loop, allLeaves nonnegW l = true → 0 ≤ l.duration
  | .mk rep wf meas [], h => by
      rw [Loop.duration]
      have hr : (0 : Rat) ≤ (rep : Rat) := by exact_mod_cast Nat.zero_le rep
      cases wf with
      | none => simp only [Loop.bodyDuration]; exact Rat.mul_nonneg (by grind) hr
      | some w =>
        simp only [allLeaves, nonnegW, decide_eq_true_eq] at h
        simp only [Loop.bodyDuration]; exact Rat.mul_nonneg h hr
  | .mk rep wf meas (c :: cs), h => by
      rw [Loop.duration, bodyDuration_children]
      have hr : (0 : Rat) ≤ (rep : Rat) := by exact_mod_cast Nat.zero_le rep
      simp only [allLeaves] at h
      exact Rat.mul_nonneg (durationList_nonneg (c :: cs) h) hr
theorem durationList_nonneg : ∀ cs : List Loop, allLeavesList nonnegW cs = true → 0 ≤ Loop.durationList cs
  | [], _ => by simp only [Loop.durationList]; grind
  | c :: cs, h => by
      simp only [allLeavesList, Bool.and_eq_true] at h
      have h1 := duration_nonneg c h.1
      have h2 := durationList_nonneg cs h.2
      simp only [Loop.durationList]; grind
end

theorem allLeavesList_append (p : Wf → Bool) : ∀ xs ys : List Loop,
    allLeavesList p (xs ++ ys) = (allLeavesList p xs && allLeavesList p ys)
  | [], ys => by simp [allLeavesList]
  | x :: xs, ys => by simp [allLeavesList, allLeavesList_append p xs ys, Bool.and_assoc]

theorem allLeavesList_mem (p : Wf → Bool) : ∀ (xs : List Loop), allLeavesList p xs = true → ∀ x ∈ xs, allLeaves p x = true
  | [], _, x, hx => by simp at hx
  | y :: ys, h, x, hx => by
      simp only [allLeavesList, Bool.and_eq_true] at h
      rcases List.mem_cons.mp hx with rfl | hx
      · exact h.1
      · exact allLeavesList_mem p ys h.2 x hx

theorem sampleList_append (c : Chan) (xs ys : List Loop) (hx : allLeavesList nonnegW xs = true) (t : Rat) (ht : 0 ≤ t) :
    Loop.sampleList (xs ++ ys) c t =
      if t < Loop.durationList xs then Loop.sampleList xs c t else Loop.sampleList ys c (t - Loop.durationList xs) := by
  rw [sampleList_nav, sampleList_nav, sampleList_nav, List.map_append]
  have hd : ∀ l : List Loop, navDur (l.map (fun x => (x.duration, x.sample c))) = Loop.durationList l := by
    intro l
    induction l with
    | nil => simp [navDur, Loop.durationList]
    | cons y ys ih => simp [navDur, Loop.durationList, ih]
  rw [nav_append _ _ _ t ht, hd]
  intro p hp
  simp only [List.mem_map] at hp
  obtain ⟨x, hx', rfl⟩ := hp
  exact duration_nonneg x (allLeavesList_mem _ xs hx x hx')


/-! ## the relation between two lists of items: `I` plays `T` applied to what `I'` plays -/

def allPres (c : Chan) (I : List Item) : Bool :=
  allLeavesList (fun x => x.channels.contains c) (itemsNodes I)

structure Rel (c : Chan) (T : Chain) (I I' : List Item) : Prop where
  empty : (itemsNodes I = []) ↔ (itemsNodes I' = [])
  dur : itemsDur I = itemsDur I'
  win : (itemsWin I 0).Perm (itemsWin I' 0)
  pres : allPres c I = (allPres c I' || Chain.presF T c false)
  samp : allPres c I = true → ∀ t, 0 ≤ t → t < itemsDur I →
    some (Loop.sampleList (itemsNodes I) c t) =
      Chain.chanF T c (if allPres c I' then some (Loop.sampleList (itemsNodes I') c t) else none)

theorem Trafo.presF_or (T : Trafo) (c : Chan) (b : Bool) : Trafo.presF T c b = (b || Trafo.presF T c false) := by
  cases T <;> simp [Trafo.presF]

theorem Chain.presF_or (T : Chain) (c : Chan) (b : Bool) : Chain.presF T c b = (b || Chain.presF T c false) := by
  induction T generalizing b with
  | nil => simp [Chain.presF]
  | cons t ts ih =>
    simp only [Chain.presF, List.foldl_cons]
    have h1 := ih (Trafo.presF t c b)
    have h2 := ih (Trafo.presF t c false)
    simp only [Chain.presF] at h1 h2
    rw [h1, h2, Trafo.presF_or t c b]
    cases b <;> simp

theorem Chain.presF_append (T₁ T₂ : Chain) (c : Chan) (b : Bool) :
    Chain.presF (T₁ ++ T₂) c b = Chain.presF T₂ c (Chain.presF T₁ c b) := by
  simp [Chain.presF, List.foldl_append]

theorem Chain.chanF_none_of_not_pres (T : Chain) (c : Chan) (h : Chain.presF T c false = false) :
    Chain.chanF T c none = none := by
  have := Chain.chanF_isSome T c none
  simp only [Option.isSome_none, h] at this
  cases hx : Chain.chanF T c none with
  | none => rfl
  | some v => simp [hx] at this

theorem rel_refl (c : Chan) (I : List Item) : Rel c [] I I where
  empty := Iff.rfl
  dur := rfl
  win := List.Perm.refl _
  pres := by simp [Chain.presF]
  samp := by
    intro h t _ _
    simp [Chain.chanF, h]

/-- `A = (T₁ ++ T₂)·B` and `C = T₁·B` give `A = T₂·C` -/
theorem rel_div (c : Chan) (T₁ T₂ : Chain) (A B C : List Item)
    (h1 : Rel c (T₁ ++ T₂) A B) (h2 : Rel c T₁ C B) : Rel c T₂ A C where
  empty := h1.empty.trans h2.empty.symm
  dur := h1.dur.trans h2.dur.symm
  win := h1.win.trans h2.win.symm
  pres := by
    rw [h1.pres, h2.pres, Chain.presF_append, Chain.presF_or T₂ c (Chain.presF T₁ c false)]
    cases allPres c B <;> simp
  samp := by
    intro hA t h0 ht
    rw [h1.samp hA t h0 ht, Chain.chanF_append]
    by_cases hC : allPres c C = true
    · simp only [hC, if_true]
      rw [h2.samp hC t h0 (by rw [h2.dur, ← h1.dur]; exact ht)]
    · have hC' : allPres c C = false := by simpa using hC
      simp only [hC', Bool.false_eq_true, if_false]
      have hp := h2.pres
      rw [hC'] at hp
      have hB : allPres c B = false := by
        cases hb : allPres c B
        · rfl
        · rw [hb] at hp; simp at hp
      have hk : Chain.presF T₁ c false = false := by
        cases hk : Chain.presF T₁ c false
        · rfl
        · rw [hk] at hp; simp at hp
      simp only [hB, Bool.false_eq_true, if_false]
      rw [Chain.chanF_none_of_not_pres T₁ c hk]

theorem rel_trans_nil (c : Chan) (T : Chain) (A B B' : List Item)
    (h1 : Rel c T A B) (h2 : Rel c [] B B') : Rel c T A B' where
  empty := h1.empty.trans h2.empty
  dur := h1.dur.trans h2.dur
  win := h1.win.trans h2.win
  pres := by
    have := h2.pres
    simp only [Chain.presF, List.foldl_nil, Bool.or_false] at this
    rw [h1.pres, this]
  samp := by
    intro hA t h0 ht
    have hp := h2.pres
    simp only [Chain.presF, List.foldl_nil, Bool.or_false] at hp
    rw [h1.samp hA t h0 ht]
    by_cases hB : allPres c B = true
    · have := h2.samp hB t h0 (by rw [← h1.dur]; exact ht)
      simp only [Chain.chanF, List.foldl_nil] at this
      rw [hB, if_pos rfl, this]
    · have hB' : allPres c B = false := by simpa using hB
      rw [hB', ← hp, hB']
      simp


theorem Chain.chanF_const_of_pres (T : Chain) (c : Chan) (h : Chain.presF T c false = true)
    (x y : Option (Option Rat)) : Chain.chanF T c x = Chain.chanF T c y := by
  induction T generalizing x y with
  | nil => simp [Chain.presF] at h
  | cons t ts ih =>
    simp only [Chain.chanF, Chain.presF, List.foldl_cons] at h ⊢
    by_cases ht : Trafo.presF t c false = true
    · have : Trafo.chanF t c x = Trafo.chanF t c y := by
        cases t with
        | offset m => simp [Trafo.presF] at ht
        | scaling m => simp [Trafo.presF] at ht
        | parallel m =>
          simp only [Trafo.presF, Bool.false_or] at ht
          cases hm : m.lookup c with
          | none => simp [hm] at ht
          | some o => simp [Trafo.chanF, hm]
      rw [this]
    · have ht' : Trafo.presF t c false = false := by simpa using ht
      rw [ht'] at h
      have := ih h (Trafo.chanF t c x) (Trafo.chanF t c y)
      simpa [Chain.chanF] using this

theorem allPres_append (c : Chan) (I J : List Item) : allPres c (I ++ J) = (allPres c I && allPres c J) := by
  simp only [allPres, itemsNodes_append, allLeavesList_append]

/-! ## unary invariants of compiled items -/

/-- a list of items does not end with measurements (they would be lost by a `LoopGuard`) -/
def endsOk (I : List Item) : Bool :=
  match I.getLast? with
  | some (.measure _) => false
  | _ => true

structure Inv (I : List Item) : Prop where
  trail : endsOk I = true
  cst : allLeavesList QP.C05.cst (itemsNodes I) = true
  pos : posRepsList (itemsNodes I) = true
  nn : allLeavesList nonnegW (itemsNodes I) = true

theorem itemsNodes_ne_nil_of_mem : ∀ (I : List Item) (l : Loop), Item.node l ∈ I → itemsNodes I ≠ []
  | [], _, h => by simp at h
  | .measure _ :: r, l, h => by
      have : Item.node l ∈ r := by simpa using h
      simpa [itemsNodes] using itemsNodes_ne_nil_of_mem r l this
  | .node _ :: r, l, _ => by simp [itemsNodes]

theorem endsOk_nodes_nil (I : List Item) (h : endsOk I = true) (hn : itemsNodes I = []) : I = [] := by
  cases hl : I.getLast? with
  | none => exact List.getLast?_eq_none_iff.mp hl
  | some x =>
    cases x with
    | measure m => simp [endsOk, hl] at h
    | node l => exact absurd hn (itemsNodes_ne_nil_of_mem I l (List.mem_of_getLast? hl))

theorem endsOk_append (I J : List Item) (hi : endsOk I = true) (hj : endsOk J = true) : endsOk (I ++ J) = true := by
  cases J with
  | nil => simpa using hi
  | cons y ys =>
    simp only [endsOk] at hj ⊢
    rw [List.getLast?_append]
    cases hl : (y :: ys).getLast? with
    | none => simp at hl
    | some x => simpa [hl] using hj

theorem endsOk_cons_node (l : Loop) : endsOk [Item.measure ms, Item.node l] = true := by
  simp [endsOk]

theorem posRepsList_append : ∀ xs ys : List Loop,
    posRepsList (xs ++ ys) = (posRepsList xs && posRepsList ys)
  | [], ys => by simp [posRepsList]
  | x :: xs, ys => by simp [posRepsList, posRepsList_append xs ys, Bool.and_assoc]

theorem inv_nil : Inv [] := ⟨rfl, rfl, rfl, rfl⟩

theorem inv_append (I J : List Item) (hi : Inv I) (hj : Inv J) : Inv (I ++ J) where
  trail := endsOk_append I J hi.trail hj.trail
  cst := by rw [itemsNodes_append, allLeavesList_append, hi.cst, hj.cst]; rfl
  pos := by rw [itemsNodes_append, posRepsList_append, hi.pos, hj.pos]; rfl
  nn := by rw [itemsNodes_append, allLeavesList_append, hi.nn, hj.nn]; rfl

/-! ## concatenation -/

theorem rel_append (c : Chan) (T : Chain) (I J I' J' : List Item)
    (hnI : allLeavesList nonnegW (itemsNodes I) = true) (hnI' : allLeavesList nonnegW (itemsNodes I') = true)
    (h1 : Rel c T I I') (h2 : Rel c T J J') : Rel c T (I ++ J) (I' ++ J') where
  empty := by
    simp only [itemsNodes_append, List.append_eq_nil_iff]
    rw [h1.empty, h2.empty]
  dur := by rw [itemsDur_append, itemsDur_append, h1.dur, h2.dur]
  win := by
    refine (itemsWin_append I J 0).trans (List.Perm.trans ?_ (itemsWin_append I' J' 0).symm)
    rw [itemsWin_shift J, itemsWin_shift J', h1.dur]
    exact List.Perm.append h1.win (List.Perm.map _ h2.win)
  pres := by
    rw [allPres_append, allPres_append, h1.pres, h2.pres]
    cases allPres c I' <;> cases allPres c J' <;> cases Chain.presF T c false <;> rfl
  samp := by
    intro hA t h0 ht
    rw [allPres_append, Bool.and_eq_true] at hA
    simp only [itemsNodes_append]
    rw [sampleList_append c _ _ hnI t h0, sampleList_append c _ _ hnI' t h0]
    have hd : Loop.durationList (itemsNodes I) = Loop.durationList (itemsNodes I') := h1.dur
    rw [← hd, allPres_append]
    have pI := h1.pres
    have pJ := h2.pres
    by_cases hlt : t < Loop.durationList (itemsNodes I)
    · simp only [hlt, if_true]
      rw [h1.samp hA.1 t h0 hlt]
      cases hI' : allPres c I' with
      | false => simp
      | true =>
        cases hJ' : allPres c J' with
        | true => simp
        | false =>
          have hk : Chain.presF T c false = true := by
            rw [hJ', hA.2] at pJ; simpa using pJ.symm
          exact Chain.chanF_const_of_pres T c hk _ _
    · simp only [hlt, if_false]
      have hr : t - Loop.durationList (itemsNodes I) < itemsDur J := by
        rw [itemsDur_append] at ht
        simp only [itemsDur] at ht ⊢; grind
      rw [h2.samp hA.2 (t - Loop.durationList (itemsNodes I)) (by grind) hr]
      cases hJ' : allPres c J' with
      | false => simp
      | true =>
        cases hI' : allPres c I' with
        | true => simp
        | false =>
          have hk : Chain.presF T c false = true := by
            rw [hI', hA.1] at pI; simpa using pI.symm
          exact Chain.chanF_const_of_pres T c hk _ _


end QP.C05
