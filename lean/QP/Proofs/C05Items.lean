import QP.Proofs.C05Loop
/-!
# C05 helper lemmas: the builder items (`Item`, `applyItems`, `guardRun`, `tryAppend`, `toProgram`)

`QP.PT.applyItems_*` / `guardRun_*` are stated for reuse by the other pulse-template properties.
-/
namespace QP.C05
open QP.PT

/-- the children a list of items appends -/
def itemsNodes : List Item → List Loop
  | [] => []
  | .measure _ :: r => itemsNodes r
  | .node l :: r => l :: itemsNodes r

/-- the windows a list of items adds to the loop it is applied to, `off` = body duration reached before -/
def itemsMeas : List Item → Rat → List Window
  | [], _ => []
  | .measure ms :: r, off => ms.map (shiftW off) ++ itemsMeas r off
  | .node l :: r, off => itemsMeas r (off + l.duration)

/-- all windows of a list of items relative to the loop it is applied to -/
def itemsWin (I : List Item) (off : Rat) : List Window :=
  itemsMeas I off ++ Loop.windowsList (itemsNodes I) off

def itemsDur (I : List Item) : Rat := Loop.durationList (itemsNodes I)

theorem itemsNodes_append : ∀ I J : List Item, itemsNodes (I ++ J) = itemsNodes I ++ itemsNodes J
  | [], J => rfl
  | .measure _ :: r, J => by simp [itemsNodes, itemsNodes_append r J]
  | .node l :: r, J => by simp [itemsNodes, itemsNodes_append r J]

theorem itemsMeas_append : ∀ (I J : List Item) (off : Rat),
    itemsMeas (I ++ J) off = itemsMeas I off ++ itemsMeas J (off + itemsDur I)
  | [], J, off => by
      have : off + itemsDur [] = off := by simp only [itemsDur, itemsNodes, Loop.durationList]; grind
      simp [itemsMeas, this]
  | .measure ms :: r, J, off => by
      have : itemsDur (.measure ms :: r) = itemsDur r := rfl
      simp [itemsMeas, itemsMeas_append r J off, this]
  | .node l :: r, J, off => by
      have : off + itemsDur (.node l :: r) = off + l.duration + itemsDur r := by
        simp only [itemsDur, itemsNodes, Loop.durationList]; grind
      simp [itemsMeas, itemsMeas_append r J (off + l.duration), this]

theorem itemsDur_append (I J : List Item) : itemsDur (I ++ J) = itemsDur I + itemsDur J := by
  simp [itemsDur, itemsNodes_append, durationList_append]

end QP.C05

namespace QP.PT
open QP.C05

/-- `Loop.applyItems` on a loop without own waveform: the measures go to the loop, the nodes to its children -/
theorem applyItems_eqC (rep : Nat) : ∀ (I : List Item) (meas : List Window) (cs : List Loop),
    (Loop.mk rep none meas cs).applyItems I =
      Loop.mk rep none (meas ++ itemsMeas I (Loop.durationList cs)) (cs ++ itemsNodes I)
  | [], meas, cs => by simp [Loop.applyItems, itemsMeas, itemsNodes]
  | .measure ms :: r, meas, cs => by
      have ih := applyItems_eqC rep r (meas ++ ms.map (shiftW (Loop.durationList cs))) cs
      simp only [Loop.applyItems, List.foldl_cons] at ih ⊢
      simp only [Loop.applyItem, Loop.rep, Loop.wf, Loop.meas, Loop.children, bodyDuration_none]
      rw [ih]
      simp [itemsMeas, itemsNodes]
  | .node l :: r, meas, cs => by
      have ih := applyItems_eqC rep r meas (cs ++ [l])
      simp only [Loop.applyItems, List.foldl_cons] at ih ⊢
      simp only [Loop.applyItem, Loop.rep, Loop.wf, Loop.meas, Loop.children]
      rw [ih]
      have : Loop.durationList (cs ++ [l]) = Loop.durationList cs + l.duration := by
        rw [durationList_append]; simp only [Loop.durationList]; grind
      simp [itemsMeas, itemsNodes, this]

end QP.PT

namespace QP.C05
open QP.PT

/-- the root loop `LoopBuilder.to_program` returns for a list of items -/
def rootOf (I : List Item) : Loop := Loop.mk 1 none (itemsMeas I 0) (itemsNodes I)

theorem toProgram_eq (I : List Item) :
    toProgram I = if (itemsNodes I).isEmpty then none else some (rootOf I) := by
  unfold toProgram rootLoop
  rw [applyItems_eqC]
  simp only [Loop.durationList, List.nil_append, Loop.isEmpty, Loop.wf, Loop.children, Option.isNone_none,
    Bool.true_and, rootOf]

theorem shiftW_zero (w : Window) : shiftW 0 w = w := by
  obtain ⟨a, b, c⟩ := w
  simp only [shiftW]
  congr 2
  grind

theorem shiftW_shiftW (a b : Rat) (w : Window) : shiftW a (shiftW b w) = shiftW (b + a) w := by
  obtain ⟨n, x, y⟩ := w
  simp only [shiftW]
  congr 2
  grind

theorem repeatWindows_one (ws : List Window) (d : Rat) : repeatWindows ws 1 d = ws := by
  simp only [repeatWindows, List.range_one, List.flatMap_cons, List.flatMap_nil, List.append_nil]
  have : ((0 : Nat) : Rat) * d = 0 := by
    have : ((0 : Nat) : Rat) = 0 := rfl
    rw [this]; grind
  rw [this]
  conv => rhs; rw [← List.map_id ws]
  apply List.map_congr_left
  intro w _
  exact shiftW_zero w

theorem rootOf_windows (I : List Item) : (rootOf I).windows = itemsWin I 0 := by
  simp only [rootOf, Loop.windows, repeatWindows_one, itemsWin]

theorem rootOf_duration (I : List Item) : (rootOf I).duration = itemsDur I := by
  simp only [rootOf, Loop.duration, bodyDuration_none, itemsDur]
  have : ((1 : Nat) : Rat) = 1 := rfl
  rw [this]; grind

theorem rootOf_sample (I : List Item) (c : Chan) (t : Rat) (h0 : 0 ≤ t) (h1 : t < itemsDur I) :
    (rootOf I).sample c t = Loop.sampleList (itemsNodes I) c t := by
  have h1' : t < (rootOf I).duration := by rw [rootOf_duration]; exact h1
  obtain ⟨s1, _, _, s4⟩ := sample_mk (rootOf I) c t h0 h1'
  have hbd : (rootOf I).bodyDuration = itemsDur I := by simp [rootOf, bodyDuration_none, itemsDur]
  rw [hbd] at s1 s4
  have h1'' : t < itemsDur I * ((1 : Nat) : Rat) := by
    have : ((1 : Nat) : Rat) = 1 := rfl
    rw [this]; grind
  obtain ⟨k0, k1, _, _⟩ := floor_range t (itemsDur I) 1 s1 h0 h1''
  have hk : (t / itemsDur I).floor = 0 := by omega
  rw [s4, hk]
  have : t - ((0 : Int) : Rat) * itemsDur I = t := by
    have : ((0 : Int) : Rat) = 0 := rfl
    rw [this]; grind
  rw [this]
  simp only [rootOf, bodySample]
  cases hn : itemsNodes I with
  | nil => simp [Loop.sampleList]
  | cons x r => rfl


theorem windowsList_shift : ∀ (cs : List Loop) (off : Rat),
    Loop.windowsList cs off = (Loop.windowsList cs 0).map (shiftW off)
  | [], off => by simp [Loop.windowsList]
  | x :: r, off => by
      rw [Loop.windowsList, Loop.windowsList, windowsList_shift r (off + x.duration),
        windowsList_shift r (0 + x.duration)]
      simp only [List.map_append, List.map_map]
      congr 1
      · apply List.map_congr_left
        intro w _
        simp only [Function.comp, shiftW_shiftW]
        congr 1; grind
      · apply List.map_congr_left
        intro w _
        simp only [Function.comp, shiftW_shiftW]
        congr 1; grind

theorem itemsMeas_shift : ∀ (I : List Item) (off : Rat),
    itemsMeas I off = (itemsMeas I 0).map (shiftW off)
  | [], off => by simp [itemsMeas]
  | .measure ms :: r, off => by
      rw [itemsMeas, itemsMeas, itemsMeas_shift r off]
      simp only [List.map_append, List.map_map]
      congr 1
      apply List.map_congr_left
      intro w _
      simp only [Function.comp, shiftW_shiftW]
      congr 1; grind
  | .node l :: r, off => by
      rw [itemsMeas, itemsMeas, itemsMeas_shift r (off + l.duration), itemsMeas_shift r (0 + l.duration)]
      simp only [List.map_map]
      apply List.map_congr_left
      intro w _
      simp only [Function.comp, shiftW_shiftW]
      congr 1; grind

theorem itemsWin_shift (I : List Item) (off : Rat) : itemsWin I off = (itemsWin I 0).map (shiftW off) := by
  simp only [itemsWin, List.map_append]
  rw [itemsMeas_shift I off, windowsList_shift (itemsNodes I) off]

theorem windowsList_append : ∀ (xs ys : List Loop) (off : Rat),
    Loop.windowsList (xs ++ ys) off = Loop.windowsList xs off ++ Loop.windowsList ys (off + Loop.durationList xs)
  | [], ys, off => by
      have : off + Loop.durationList [] = off := by simp only [Loop.durationList]; grind
      simp [Loop.windowsList, this]
  | x :: r, ys, off => by
      have : off + Loop.durationList (x :: r) = off + x.duration + Loop.durationList r := by
        simp only [Loop.durationList]; grind
      simp only [List.cons_append, Loop.windowsList, windowsList_append r ys, this, List.append_assoc]

theorem itemsWin_append (I J : List Item) (off : Rat) :
    (itemsWin (I ++ J) off).Perm (itemsWin I off ++ itemsWin J (off + itemsDur I)) := by
  simp only [itemsWin, itemsMeas_append, itemsNodes_append, windowsList_append, itemsDur]
  -- (a ++ b) ++ (c ++ d) ~ (a ++ c) ++ (b ++ d)
  generalize itemsMeas I off = a
  generalize itemsMeas J (off + Loop.durationList (itemsNodes I)) = b
  generalize Loop.windowsList (itemsNodes I) off = c
  generalize Loop.windowsList (itemsNodes J) (off + Loop.durationList (itemsNodes I)) = d
  have h1 : (b ++ (c ++ d)).Perm (c ++ (b ++ d)) := by
    rw [← List.append_assoc, ← List.append_assoc]
    exact List.Perm.append_right d List.perm_append_comm
  calc (a ++ b ++ (c ++ d)).Perm (a ++ (b ++ (c ++ d))) := by rw [List.append_assoc]
    _ |>.Perm (a ++ (c ++ (b ++ d))) := List.Perm.append_left a h1
    _ |>.Perm (a ++ c ++ (b ++ d)) := by rw [List.append_assoc]

theorem repeatWindows_perm (ws ws' : List Window) (h : ws.Perm ws') (n : Nat) (d : Rat) :
    (repeatWindows ws n d).Perm (repeatWindows ws' n d) := by
  simp only [repeatWindows]
  induction (List.range n) with
  | nil => simp
  | cons k r ih =>
    simp only [List.flatMap_cons]
    exact List.Perm.append (List.Perm.map _ h) ih


end QP.C05

namespace QP.C05
open QP.PT

/-! ## non-negative durations -/

def nonnegW (w : Wf) : Bool := decide (0 ≤ w.duration)

mutual
theorem duration_nonneg : ∀ l : Loop, allLeaves nonnegW l = true → 0 ≤ l.duration
  | .mk rep wf meas [], h => by
      rw [Loop.duration]
      have hr : (0 : Rat) ≤ (rep : Rat) := by exact_mod_cast Nat.zero_le rep
      cases wf with
      | none => simp only [Loop.bodyDuration]; exact Rat.mul_nonneg (by grind) hr
      | some w =>
        simp only [allLeaves, nonnegW, decide_eq_true_eq] at h
        simp only [Loop.bodyDuration]; exact Rat.mul_nonneg h hr
  | .mk rep wf meas (c :: cs), h => by
      rw [Loop.duration, bodyDuration_children]
      have hr : (0 : Rat) ≤ (rep : Rat) := by exact_mod_cast Nat.zero_le rep
      simp only [allLeaves] at h
      exact Rat.mul_nonneg (durationList_nonneg (c :: cs) h) hr
theorem durationList_nonneg : ∀ cs : List Loop, allLeavesList nonnegW cs = true → 0 ≤ Loop.durationList cs
  | [], _ => by simp only [Loop.durationList]; grind
  | c :: cs, h => by
      simp only [allLeavesList, Bool.and_eq_true] at h
      have h1 := duration_nonneg c h.1
      have h2 := durationList_nonneg cs h.2
      simp only [Loop.durationList]; grind
end

theorem allLeavesList_append (p : Wf → Bool) : ∀ xs ys : List Loop,
    allLeavesList p (xs ++ ys) = (allLeavesList p xs && allLeavesList p ys)
  | [], ys => by simp [allLeavesList]
  | x :: xs, ys => by simp [allLeavesList, allLeavesList_append p xs ys, Bool.and_assoc]

theorem allLeavesList_mem (p : Wf → Bool) : ∀ (xs : List Loop), allLeavesList p xs = true → ∀ x ∈ xs, allLeaves p x = true
  | [], _, x, hx => by simp at hx
  | y :: ys, h, x, hx => by
      simp only [allLeavesList, Bool.and_eq_true] at h
      rcases List.mem_cons.mp hx with rfl | hx
      · exact h.1
      · exact allLeavesList_mem p ys h.2 x hx

theorem sampleList_append (c : Chan) (xs ys : List Loop) (hx : allLeavesList nonnegW xs = true) (t : Rat) (ht : 0 ≤ t) :
    Loop.sampleList (xs ++ ys) c t =
      if t < Loop.durationList xs then Loop.sampleList xs c t else Loop.sampleList ys c (t - Loop.durationList xs) := by
  rw [sampleList_nav, sampleList_nav, sampleList_nav, List.map_append]
  have hd : ∀ l : List Loop, navDur (l.map (fun x => (x.duration, x.sample c))) = Loop.durationList l := by
    intro l
    induction l with
    | nil => simp [navDur, Loop.durationList]
    | cons y ys ih => simp [navDur, Loop.durationList, ih]
  rw [nav_append _ _ _ t ht, hd]
  intro p hp
  simp only [List.mem_map] at hp
  obtain ⟨x, hx', rfl⟩ := hp
  exact duration_nonneg x (allLeavesList_mem _ xs hx x hx')


/-! ## the relation between two lists of items: `I` plays `T` applied to what `I'` plays -/

def allPres (c : Chan) (I : List Item) : Bool :=
  allLeavesList (fun x => x.channels.contains c) (itemsNodes I)

structure Rel (c : Chan) (T : Chain) (I I' : List Item) : Prop where
  empty : (itemsNodes I = []) ↔ (itemsNodes I' = [])
  dur : itemsDur I = itemsDur I'
  win : (itemsWin I 0).Perm (itemsWin I' 0)
  pres : allPres c I = (allPres c I' || Chain.presF T c false)
  samp : allPres c I = true → ∀ t, 0 ≤ t → t < itemsDur I →
    some (Loop.sampleList (itemsNodes I) c t) =
      Chain.chanF T c (if allPres c I' then some (Loop.sampleList (itemsNodes I') c t) else none)

theorem Trafo.presF_or (T : Trafo) (c : Chan) (b : Bool) : Trafo.presF T c b = (b || Trafo.presF T c false) := by
  cases T <;> simp [Trafo.presF]

theorem Chain.presF_or (T : Chain) (c : Chan) (b : Bool) : Chain.presF T c b = (b || Chain.presF T c false) := by
  induction T generalizing b with
  | nil => simp [Chain.presF]
  | cons t ts ih =>
    simp only [Chain.presF, List.foldl_cons]
    have h1 := ih (Trafo.presF t c b)
    have h2 := ih (Trafo.presF t c false)
    simp only [Chain.presF] at h1 h2
    rw [h1, h2, Trafo.presF_or t c b]
    cases b <;> simp

theorem Chain.presF_append (T₁ T₂ : Chain) (c : Chan) (b : Bool) :
    Chain.presF (T₁ ++ T₂) c b = Chain.presF T₂ c (Chain.presF T₁ c b) := by
  simp [Chain.presF, List.foldl_append]

theorem Chain.chanF_none_of_not_pres (T : Chain) (c : Chan) (h : Chain.presF T c false = false) :
    Chain.chanF T c none = none := by
  have := Chain.chanF_isSome T c none
  simp only [Option.isSome_none, h] at this
  cases hx : Chain.chanF T c none with
  | none => rfl
  | some v => simp [hx] at this

theorem rel_refl (c : Chan) (I : List Item) : Rel c [] I I where
  empty := Iff.rfl
  dur := rfl
  win := List.Perm.refl _
  pres := by simp [Chain.presF]
  samp := by
    intro h t _ _
    simp [Chain.chanF, h]

theorem rel_nil (c : Chan) (T : Chain) : Rel c T [] [] where
  empty := Iff.rfl
  dur := rfl
  win := List.Perm.refl _
  pres := by simp [allPres, itemsNodes, allLeavesList]
  samp := by
    intro _ t h0 ht
    simp [itemsDur, itemsNodes, Loop.durationList] at ht
    exact absurd ht (by grind)

/-- `A = (T₁ ++ T₂)·B` and `C = T₁·B` give `A = T₂·C` -/
theorem rel_div (c : Chan) (T₁ T₂ : Chain) (A B C : List Item)
    (h1 : Rel c (T₁ ++ T₂) A B) (h2 : Rel c T₁ C B) : Rel c T₂ A C where
  empty := h1.empty.trans h2.empty.symm
  dur := h1.dur.trans h2.dur.symm
  win := h1.win.trans h2.win.symm
  pres := by
    rw [h1.pres, h2.pres, Chain.presF_append, Chain.presF_or T₂ c (Chain.presF T₁ c false)]
    cases allPres c B <;> simp
  samp := by
    intro hA t h0 ht
    rw [h1.samp hA t h0 ht, Chain.chanF_append]
    by_cases hC : allPres c C = true
    · simp only [hC, if_true]
      rw [h2.samp hC t h0 (by rw [h2.dur, ← h1.dur]; exact ht)]
    · have hC' : allPres c C = false := by simpa using hC
      simp only [hC', Bool.false_eq_true, if_false]
      have hp := h2.pres
      rw [hC'] at hp
      have hB : allPres c B = false := by
        cases hb : allPres c B
        · rfl
        · rw [hb] at hp; simp at hp
      have hk : Chain.presF T₁ c false = false := by
        cases hk : Chain.presF T₁ c false
        · rfl
        · rw [hk] at hp; simp at hp
      simp only [hB, Bool.false_eq_true, if_false]
      rw [Chain.chanF_none_of_not_pres T₁ c hk]

theorem rel_trans_nil (c : Chan) (T : Chain) (A B B' : List Item)
    (h1 : Rel c T A B) (h2 : Rel c [] B B') : Rel c T A B' where
  empty := h1.empty.trans h2.empty
  dur := h1.dur.trans h2.dur
  win := h1.win.trans h2.win
  pres := by
    have := h2.pres
    simp only [Chain.presF, List.foldl_nil, Bool.or_false] at this
    rw [h1.pres, this]
  samp := by
    intro hA t h0 ht
    have hp := h2.pres
    simp only [Chain.presF, List.foldl_nil, Bool.or_false] at hp
    rw [h1.samp hA t h0 ht]
    by_cases hB : allPres c B = true
    · have := h2.samp hB t h0 (by rw [← h1.dur]; exact ht)
      simp only [Chain.chanF, List.foldl_nil] at this
      rw [hB, if_pos rfl, this]
    · have hB' : allPres c B = false := by simpa using hB
      rw [hB', ← hp, hB']
      simp


theorem Chain.chanF_const_of_pres (T : Chain) (c : Chan) (h : Chain.presF T c false = true)
    (x y : Option (Option Rat)) : Chain.chanF T c x = Chain.chanF T c y := by
  induction T generalizing x y with
  | nil => simp [Chain.presF] at h
  | cons t ts ih =>
    simp only [Chain.chanF, Chain.presF, List.foldl_cons] at h ⊢
    by_cases ht : Trafo.presF t c false = true
    · have : Trafo.chanF t c x = Trafo.chanF t c y := by
        cases t with
        | offset m => simp [Trafo.presF] at ht
        | scaling m => simp [Trafo.presF] at ht
        | parallel m =>
          simp only [Trafo.presF, Bool.false_or] at ht
          cases hm : m.lookup c with
          | none => simp [hm] at ht
          | some o => simp [Trafo.chanF, hm]
      rw [this]
    · have ht' : Trafo.presF t c false = false := by simpa using ht
      rw [ht'] at h
      have := ih h (Trafo.chanF t c x) (Trafo.chanF t c y)
      simpa [Chain.chanF] using this

theorem allPres_append (c : Chan) (I J : List Item) : allPres c (I ++ J) = (allPres c I && allPres c J) := by
  simp only [allPres, itemsNodes_append, allLeavesList_append]

/-! ## unary invariants of compiled items -/

/-- a list of items does not end with measurements (they would be lost by a `LoopGuard`) -/
def endsOk (I : List Item) : Bool :=
  match I.getLast? with
  | some (.measure _) => false
  | _ => true

structure Inv (I : List Item) : Prop where
  trail : endsOk I = true
  cst : allLeavesList QP.C05.cst (itemsNodes I) = true
  pos : posRepsList (itemsNodes I) = true
  nn : allLeavesList nonnegW (itemsNodes I) = true

theorem itemsNodes_ne_nil_of_mem : ∀ (I : List Item) (l : Loop), Item.node l ∈ I → itemsNodes I ≠ []
  | [], _, h => by simp at h
  | .measure _ :: r, l, h => by
      have : Item.node l ∈ r := by simpa using h
      simpa [itemsNodes] using itemsNodes_ne_nil_of_mem r l this
  | .node _ :: r, l, _ => by simp [itemsNodes]

theorem endsOk_nodes_nil (I : List Item) (h : endsOk I = true) (hn : itemsNodes I = []) : I = [] := by
  cases hl : I.getLast? with
  | none => exact List.getLast?_eq_none_iff.mp hl
  | some x =>
    cases x with
    | measure m => simp [endsOk, hl] at h
    | node l => exact absurd hn (itemsNodes_ne_nil_of_mem I l (List.mem_of_getLast? hl))

theorem endsOk_append (I J : List Item) (hi : endsOk I = true) (hj : endsOk J = true) : endsOk (I ++ J) = true := by
  cases J with
  | nil => simpa using hi
  | cons y ys =>
    simp only [endsOk] at hj ⊢
    rw [List.getLast?_append]
    cases hl : (y :: ys).getLast? with
    | none => simp at hl
    | some x => simpa [hl] using hj

theorem endsOk_cons_node (l : Loop) : endsOk [Item.measure ms, Item.node l] = true := by
  simp [endsOk]

theorem posRepsList_append : ∀ xs ys : List Loop,
    posRepsList (xs ++ ys) = (posRepsList xs && posRepsList ys)
  | [], ys => by simp [posRepsList]
  | x :: xs, ys => by simp [posRepsList, posRepsList_append xs ys, Bool.and_assoc]

theorem inv_nil : Inv [] := ⟨rfl, rfl, rfl, rfl⟩

theorem inv_append (I J : List Item) (hi : Inv I) (hj : Inv J) : Inv (I ++ J) where
  trail := endsOk_append I J hi.trail hj.trail
  cst := by rw [itemsNodes_append, allLeavesList_append, hi.cst, hj.cst]; rfl
  pos := by rw [itemsNodes_append, posRepsList_append, hi.pos, hj.pos]; rfl
  nn := by rw [itemsNodes_append, allLeavesList_append, hi.nn, hj.nn]; rfl

/-! ## concatenation -/

theorem rel_append (c : Chan) (T : Chain) (I J I' J' : List Item)
    (hnI : allLeavesList nonnegW (itemsNodes I) = true) (hnI' : allLeavesList nonnegW (itemsNodes I') = true)
    (h1 : Rel c T I I') (h2 : Rel c T J J') : Rel c T (I ++ J) (I' ++ J') where
  empty := by
    simp only [itemsNodes_append, List.append_eq_nil_iff]
    rw [h1.empty, h2.empty]
  dur := by rw [itemsDur_append, itemsDur_append, h1.dur, h2.dur]
  win := by
    refine (itemsWin_append I J 0).trans (List.Perm.trans ?_ (itemsWin_append I' J' 0).symm)
    rw [itemsWin_shift J, itemsWin_shift J', h1.dur]
    exact List.Perm.append h1.win (List.Perm.map _ h2.win)
  pres := by
    rw [allPres_append, allPres_append, h1.pres, h2.pres]
    cases allPres c I' <;> cases allPres c J' <;> cases Chain.presF T c false <;> rfl
  samp := by
    intro hA t h0 ht
    rw [allPres_append, Bool.and_eq_true] at hA
    simp only [itemsNodes_append]
    rw [sampleList_append c _ _ hnI t h0, sampleList_append c _ _ hnI' t h0]
    have hd : Loop.durationList (itemsNodes I) = Loop.durationList (itemsNodes I') := h1.dur
    rw [← hd, allPres_append]
    have pI := h1.pres
    have pJ := h2.pres
    by_cases hlt : t < Loop.durationList (itemsNodes I)
    · simp only [hlt, if_true]
      rw [h1.samp hA.1 t h0 hlt]
      cases hI' : allPres c I' with
      | false => simp
      | true =>
        cases hJ' : allPres c J' with
        | true => simp
        | false =>
          have hk : Chain.presF T c false = true := by
            rw [hJ', hA.2] at pJ; simpa using pJ.symm
          exact Chain.chanF_const_of_pres T c hk _ _
    · simp only [hlt, if_false]
      have hr : t - Loop.durationList (itemsNodes I) < itemsDur J := by
        rw [itemsDur_append] at ht
        simp only [itemsDur] at ht ⊢; grind
      rw [h2.samp hA.2 (t - Loop.durationList (itemsNodes I)) (by grind) hr]
      cases hJ' : allPres c J' with
      | false => simp
      | true =>
        cases hI' : allPres c I' with
        | true => simp
        | false =>
          have hk : Chain.presF T c false = true := by
            rw [hI', hA.1] at pI; simpa using pI.symm
          exact Chain.chanF_const_of_pres T c hk _ _


end QP.C05

namespace QP.C05
open QP.PT

/-! ## `LoopGuard` -/

theorem endsOk_tail_measure (m : List Window) (r : List Item) (h : endsOk (.measure m :: r) = true) :
    r ≠ [] ∧ endsOk r = true := by
  cases r with
  | nil => simp [endsOk] at h
  | cons y ys =>
    refine ⟨by simp, ?_⟩
    simp only [endsOk] at h ⊢
    rw [List.getLast?_cons_cons] at h
    exact h

theorem endsOk_tail_node (l : Loop) (r : List Item) (h : endsOk (.node l :: r) = true) : endsOk r = true := by
  cases r with
  | nil => rfl
  | cons y ys =>
    simp only [endsOk] at h ⊢
    rw [List.getLast?_cons_cons] at h
    exact h

theorem guardRun_nodes : ∀ (I : List Item) (p : List Window), itemsNodes (guardRun p I) = itemsNodes I
  | [], p => by simp [guardRun, itemsNodes]
  | .measure m :: r, p => by simp [guardRun, itemsNodes, guardRun_nodes r]
  | .node l :: r, p => by
      simp only [guardRun, itemsNodes_append, itemsNodes, guardRun_nodes r]
      split <;> simp [itemsNodes]

theorem guardRun_meas : ∀ (I : List Item) (p : List Window) (off : Rat), endsOk I = true →
    itemsMeas (guardRun p I) off =
      if itemsNodes I = [] then [] else p.map (shiftW off) ++ itemsMeas I off
  | [], p, off, _ => by simp [guardRun, itemsMeas, itemsNodes]
  | .measure m :: r, p, off, h => by
      obtain ⟨hne, hr⟩ := endsOk_tail_measure m r h
      have hn : itemsNodes r ≠ [] := fun hn => hne (endsOk_nodes_nil r hr hn)
      simp only [guardRun, itemsNodes, itemsMeas]
      rw [guardRun_meas r (p ++ m) off hr]
      simp [hn]
  | .node l :: r, p, off, h => by
      have hr := endsOk_tail_node l r h
      have hcons : ¬ (itemsNodes (Item.node l :: r) = []) := by simp [itemsNodes]
      simp only [hcons, if_false]
      have key : itemsMeas (Item.node l :: guardRun [] r) off = itemsMeas (Item.node l :: r) off := by
        simp only [itemsMeas]
        rw [guardRun_meas r [] _ hr]
        by_cases hn : itemsNodes r = []
        · have := endsOk_nodes_nil r hr hn
          subst this
          simp [itemsMeas, itemsNodes]
        · simp [hn]
      simp only [guardRun]
      by_cases hp : p.isEmpty = true
      · have : p = [] := List.isEmpty_iff.mp hp
        subst this
        simp only [List.isEmpty_nil, if_true, List.nil_append, List.map_nil]
        exact key
      · simp only [hp, if_false, List.cons_append, List.nil_append]
        show p.map (shiftW off) ++ itemsMeas (Item.node l :: guardRun [] r) off = _
        rw [key]

theorem endsOk_append_ne (I J : List Item) (hj : J ≠ []) : endsOk (I ++ J) = endsOk J := by
  simp only [endsOk]
  rw [List.getLast?_append]
  cases hl : J.getLast? with
  | none => exact absurd (List.getLast?_eq_none_iff.mp hl) hj
  | some x => simp

theorem guardRun_endsOk : ∀ (I : List Item) (p : List Window), endsOk I = true → endsOk (guardRun p I) = true
  | [], p, _ => by simp [guardRun, endsOk]
  | .measure m :: r, p, h => by
      simp only [guardRun]
      exact guardRun_endsOk r _ (endsOk_tail_measure m r h).2
  | .node l :: r, p, h => by
      simp only [guardRun]
      have ih := guardRun_endsOk r [] (endsOk_tail_node l r h)
      rw [endsOk_append_ne _ _ (by simp)]
      · cases hg : guardRun [] r with
        | nil => simp [endsOk]
        | cons y ys =>
          rw [hg] at ih
          simp only [endsOk] at ih ⊢
          rw [List.getLast?_cons_cons]
          exact ih

theorem inv_guardRun (I : List Item) (p : List Window) (h : Inv I) : Inv (guardRun p I) where
  trail := guardRun_endsOk I p h.trail
  cst := by rw [guardRun_nodes]; exact h.cst
  pos := by rw [guardRun_nodes]; exact h.pos
  nn := by rw [guardRun_nodes]; exact h.nn

theorem rel_guardRun (c : Chan) (T : Chain) (I I' : List Item) (p : List Window)
    (hI : endsOk I = true) (hI' : endsOk I' = true) (h : Rel c T I I') :
    Rel c T (guardRun p I) (guardRun p I') where
  empty := by rw [guardRun_nodes, guardRun_nodes]; exact h.empty
  dur := by simp only [itemsDur, guardRun_nodes]; exact h.dur
  win := by
    simp only [itemsWin, guardRun_nodes, guardRun_meas I p 0 hI, guardRun_meas I' p 0 hI']
    by_cases hn : itemsNodes I = []
    · have hn' := h.empty.mp hn
      simp [hn, hn', Loop.windowsList]
    · have hn' : itemsNodes I' ≠ [] := fun e => hn (h.empty.mpr e)
      simp only [hn, hn', if_false, List.append_assoc]
      exact List.Perm.append_left _ h.win
  pres := by simp only [allPres, guardRun_nodes]; exact h.pres
  samp := by
    simp only [allPres, itemsDur, guardRun_nodes]
    exact h.samp


end QP.C05

namespace QP.C05
open QP.PT

/-! ## observables of one appended loop -/

theorem rel_congr (c : Chan) (T : Chain) (I J I' J' : List Item)
    (hn : itemsNodes I = itemsNodes J) (hm : itemsMeas I 0 = itemsMeas J 0)
    (hn' : itemsNodes I' = itemsNodes J') (hm' : itemsMeas I' 0 = itemsMeas J' 0)
    (h : Rel c T I I') : Rel c T J J' where
  empty := by rw [← hn, ← hn']; exact h.empty
  dur := by simp only [itemsDur, ← hn, ← hn']; exact h.dur
  win := by simp only [itemsWin, ← hn, ← hn', ← hm, ← hm']; exact h.win
  pres := by simp only [allPres, ← hn, ← hn']; exact h.pres
  samp := by simp only [allPres, itemsDur, ← hn, ← hn']; exact h.samp

/-- the items `[measure ms, node l]` -/
theorem one_nodes (ms : List Window) (l : Loop) : itemsNodes [Item.measure ms, Item.node l] = [l] := rfl

theorem one_dur (ms : List Window) (l : Loop) : itemsDur [Item.measure ms, Item.node l] = l.duration := by
  simp only [itemsDur, itemsNodes, Loop.durationList]; grind

theorem one_win (ms : List Window) (l : Loop) : itemsWin [Item.measure ms, Item.node l] 0 = ms ++ l.windows := by
  simp only [itemsWin, itemsMeas, itemsNodes, Loop.windowsList, List.append_nil]
  congr 1
  · conv => rhs; rw [← List.map_id ms]
    exact List.map_congr_left (fun w _ => shiftW_zero w)
  · conv => rhs; rw [← List.map_id l.windows]
    exact List.map_congr_left (fun w _ => shiftW_zero w)

theorem one_pres (c : Chan) (ms : List Window) (l : Loop) :
    allPres c [Item.measure ms, Item.node l] = allLeaves (fun x => x.channels.contains c) l := by
  simp [allPres, itemsNodes, allLeavesList]

theorem one_sample (c : Chan) (l : Loop) (t : Rat) (h : t < l.duration) :
    Loop.sampleList [l] c t = l.sample c t := by
  simp [Loop.sampleList, h]

/-- relation between two single loops from their observables -/
theorem rel_one (c : Chan) (T : Chain) (ms : List Window) (l l' : Loop)
    (hd : l.duration = l'.duration) (hw : l.windows.Perm l'.windows)
    (hp : allLeaves (fun x => x.channels.contains c) l =
      (allLeaves (fun x => x.channels.contains c) l' || Chain.presF T c false))
    (hs : allLeaves (fun x => x.channels.contains c) l = true → ∀ t, 0 ≤ t → t < l.duration →
      some (l.sample c t) = Chain.chanF T c (if allLeaves (fun x => x.channels.contains c) l' then
        some (l'.sample c t) else none)) :
    Rel c T [Item.measure ms, Item.node l] [Item.measure ms, Item.node l'] where
  empty := by simp [itemsNodes]
  dur := by rw [one_dur, one_dur, hd]
  win := by rw [one_win, one_win]; exact List.Perm.append_left _ hw
  pres := by rw [one_pres, one_pres, hp]
  samp := by
    intro hA t h0 ht
    rw [one_pres] at hA
    rw [one_dur] at ht
    rw [one_pres, one_nodes, one_nodes, one_sample c l t ht, one_sample c l' t (hd ▸ ht)]
    exact hs hA t h0 ht

/-! ## repetition -/

/-- the loop `with_repetition` builds from the items of its body -/
def repLoop (n : Nat) (I : List Item) : Loop := Loop.mk n none (itemsMeas I 0) (itemsNodes I)

theorem applyItems_repLoop (n : Nat) (I : List Item) : (Loop.mk n none [] []).applyItems I = repLoop n I := by
  rw [applyItems_eqC]
  simp [repLoop, Loop.durationList]

theorem repLoop_isEmpty (n : Nat) (I : List Item) : (repLoop n I).isEmpty = (itemsNodes I).isEmpty := by
  simp [repLoop, Loop.isEmpty, Loop.wf, Loop.children]

theorem repLoop_duration (n : Nat) (I : List Item) : (repLoop n I).duration = itemsDur I * n := by
  simp only [repLoop, Loop.duration, bodyDuration_none, itemsDur]

theorem repLoop_windows (n : Nat) (I : List Item) :
    (repLoop n I).windows = repeatWindows (itemsWin I 0) n (itemsDur I) := by
  simp only [repLoop, Loop.windows, bodyDuration_none, itemsWin, itemsDur]

theorem allLeaves_none (p : Wf → Bool) (n : Nat) (m : List Window) (cs : List Loop) :
    allLeaves p (Loop.mk n none m cs) = allLeavesList p cs := by
  cases cs <;> simp [allLeaves, allLeavesList]

theorem repLoop_pres (c : Chan) (n : Nat) (I : List Item) :
    allLeaves (fun x => x.channels.contains c) (repLoop n I) = allPres c I := by
  simp only [repLoop, allLeaves_none, allPres]

theorem repLoop_sample (c : Chan) (n : Nat) (I : List Item) (t : Rat) (h0 : 0 ≤ t)
    (h1 : t < (repLoop n I).duration) :
    0 ≤ t - ((t / itemsDur I).floor : Rat) * itemsDur I ∧
    t - ((t / itemsDur I).floor : Rat) * itemsDur I < itemsDur I ∧
    (repLoop n I).sample c t =
      Loop.sampleList (itemsNodes I) c (t - ((t / itemsDur I).floor : Rat) * itemsDur I) := by
  obtain ⟨_, s2, s3, s4⟩ := sample_mk (repLoop n I) c t h0 h1
  have hbd : (repLoop n I).bodyDuration = itemsDur I := by simp [repLoop, bodyDuration_none, itemsDur]
  rw [hbd] at s2 s3 s4
  refine ⟨s2, s3, ?_⟩
  rw [s4]
  simp only [repLoop, bodySample]
  cases hn : itemsNodes I with
  | nil => simp [Loop.sampleList]
  | cons x r => rfl

theorem rel_rep (c : Chan) (T : Chain) (n : Nat) (ms : List Window) (I I' : List Item) (h : Rel c T I I') :
    Rel c T (tryAppend ((Loop.mk n none [] []).applyItems I) ms)
      (tryAppend ((Loop.mk n none [] []).applyItems I') ms) := by
  rw [applyItems_repLoop, applyItems_repLoop]
  unfold tryAppend
  rw [repLoop_isEmpty, repLoop_isEmpty]
  by_cases hn : itemsNodes I = []
  · have hn' := h.empty.mp hn
    simp only [hn, hn', List.isEmpty_nil, if_true]
    exact rel_nil c T
  · have hn' : itemsNodes I' ≠ [] := fun e => hn (h.empty.mpr e)
    have e1 : (itemsNodes I).isEmpty = false := by simpa using hn
    have e2 : (itemsNodes I').isEmpty = false := by simpa using hn'
    simp only [e1, e2, Bool.false_eq_true, if_false]
    apply rel_one
    · rw [repLoop_duration, repLoop_duration, h.dur]
    · rw [repLoop_windows, repLoop_windows, h.dur]
      exact repeatWindows_perm _ _ h.win n _
    · rw [repLoop_pres, repLoop_pres]; exact h.pres
    · intro hA t h0 ht
      rw [repLoop_pres] at hA
      rw [repLoop_pres]
      obtain ⟨a1, a2, a3⟩ := repLoop_sample c n I t h0 ht
      have ht' : t < (repLoop n I').duration := by
        rw [repLoop_duration, ← h.dur, ← repLoop_duration]; exact ht
      obtain ⟨_, _, b3⟩ := repLoop_sample c n I' t h0 ht'
      rw [a3, b3, ← h.dur]
      exact h.samp hA _ a1 a2


theorem inv_rep (n : Nat) (hn : 1 ≤ n) (ms : List Window) (I : List Item) (h : Inv I) :
    Inv (tryAppend ((Loop.mk n none [] []).applyItems I) ms) := by
  rw [applyItems_repLoop]
  unfold tryAppend
  rw [repLoop_isEmpty]
  by_cases he : itemsNodes I = []
  · simp only [he, List.isEmpty_nil, if_true]; exact inv_nil
  · have e1 : (itemsNodes I).isEmpty = false := by simpa using he
    simp only [e1, Bool.false_eq_true, if_false]
    refine ⟨by simp [endsOk], ?_, ?_, ?_⟩
    · simp only [itemsNodes, allLeavesList, Bool.and_true, repLoop, allLeaves_none]; exact h.cst
    · have hp := h.pos
      have : posReps (repLoop n I) = true := by
        unfold repLoop
        cases hc : itemsNodes I with
        | nil => exact absurd hc he
        | cons x r =>
          rw [hc] at hp
          rw [posReps]
          simp only [Bool.and_eq_true, decide_eq_true_eq]
          exact ⟨hn, hp⟩
      simp only [itemsNodes, posRepsList, this, Bool.and_self]
    · simp only [itemsNodes, allLeavesList, Bool.and_true, repLoop, allLeaves_none]; exact h.nn

/-! ## a single played waveform -/

theorem leaf_duration (w : Wf) : (leaf w).duration = w.duration := by
  simp only [leaf, Loop.duration, Loop.bodyDuration]
  have : ((1 : Nat) : Rat) = 1 := rfl
  rw [this]; grind

theorem leaf_windows (w : Wf) : (leaf w).windows = [] := by
  simp [leaf, Loop.windows, Loop.windowsList, repeatWindows_one]

theorem leaf_sample (w : Wf) (c : Chan) (t : Rat) (h0 : 0 ≤ t) (h1 : t < w.duration) :
    (leaf w).sample c t = w.sample c t := by
  have h1' : t < (leaf w).duration := by rw [leaf_duration]; exact h1
  obtain ⟨s1, _, _, s4⟩ := sample_mk (leaf w) c t h0 h1'
  have hbd : (leaf w).bodyDuration = w.duration := by simp [leaf, Loop.bodyDuration]
  rw [hbd] at s1 s4
  have h1'' : t < w.duration * ((1 : Nat) : Rat) := by
    have : ((1 : Nat) : Rat) = 1 := rfl
    rw [this]; grind
  obtain ⟨k0, k1, _, _⟩ := floor_range t w.duration 1 s1 h0 h1''
  have hk : (t / w.duration).floor = 0 := by omega
  rw [s4, hk]
  have : t - ((0 : Int) : Rat) * w.duration = t := by
    have : ((0 : Int) : Rat) = 0 := rfl
    rw [this]; grind
  rw [this]
  rfl

theorem leaf_allLeaves (p : Wf → Bool) (w : Wf) : allLeaves p (leaf w) = p w := by simp [leaf, allLeaves]

theorem inv_leaf (ms : List Window) (w : Wf) (hc : cst w = true) (hn : 0 ≤ w.duration) :
    Inv [Item.measure ms, Item.node (leaf w)] where
  trail := by simp [endsOk]
  cst := by simp [itemsNodes, allLeavesList, leaf_allLeaves, hc]
  pos := by simp [itemsNodes, posRepsList, posReps, leaf]
  nn := by simp [itemsNodes, allLeavesList, leaf_allLeaves, nonnegW, hn]

/-- two played waveforms related channel-wise by `T` -/
theorem rel_leaf (c : Chan) (T : Chain) (ms : List Window) (w w' : Wf) (hd : w.duration = w'.duration)
    (hpv : ∀ t, pv w c t = Chain.chanF T c (pv w' c t)) :
    Rel c T [Item.measure ms, Item.node (leaf w)] [Item.measure ms, Item.node (leaf w')] := by
  have hpres : w.channels.contains c = (w'.channels.contains c || Chain.presF T c false) := by
    have := congrArg Option.isSome (hpv 0)
    rw [pv_isSome, Chain.chanF_isSome, pv_isSome, Chain.presF_or] at this
    exact this
  apply rel_one
  · rw [leaf_duration, leaf_duration, hd]
  · rw [leaf_windows, leaf_windows]
  · rw [leaf_allLeaves, leaf_allLeaves]; exact hpres
  · intro hA t h0 ht
    rw [leaf_allLeaves] at hA
    rw [leaf_duration] at ht
    rw [leaf_allLeaves, leaf_sample w c t h0 ht, leaf_sample w' c t h0 (hd ▸ ht)]
    have := hpv t
    rw [pv_of_present w c t hA] at this
    rw [this]
    unfold pv
    rfl


/-! ## `new_subprogram`: a part collapsed into one waveform -/

theorem fromTransformation_tidy_inv (w w' : Wf) (T : Chain) (hc : cst w = true)
    (h : fromTransformation w T = .ok w') (c : Chan) (ht : tidy c w' = true) : tidy c w = true := by
  unfold fromTransformation at h
  split at h
  · rename_i cv hcv
    exact noRep_tidy c w (cst_const_noRep w cv hc hcv)
  · simp only [Except.ok.injEq] at h
    subst h
    simpa [tidy] using ht

/-- the waveform `new_subprogram` plays for the inner program and the global transformation `T` -/
def collapseWf (w0 : Wf) (T : Chain) : Except Err Wf :=
  if T.isEmpty then pure w0 else fromTransformation w0 T

theorem collapseWf_spec (w0 w : Wf) (T : Chain) (hc : cst w0 = true) (h : collapseWf w0 T = .ok w) :
    w.duration = w0.duration ∧ cst w = true ∧ (∀ c t, pv w c t = Chain.chanF T c (pv w0 c t)) ∧
      (∀ c, tidy c w = true → tidy c w0 = true) := by
  unfold collapseWf at h
  by_cases hT : T.isEmpty = true
  · have : T = [] := List.isEmpty_iff.mp hT
    subst this
    simp only [List.isEmpty_nil, if_true, pure, Except.pure, Except.ok.injEq] at h
    subst h
    exact ⟨rfl, hc, fun c t => rfl, fun c h => h⟩
  · simp only [hT, if_false] at h
    obtain ⟨a1, a2, a3, _⟩ := fromTransformation_spec w0 w T hc h
    exact ⟨a1, a2, a3, fun c ht => fromTransformation_tidy_inv w0 w T hc h c ht⟩

theorem rel_collapse (c : Chan) (T : Chain) (I0 : List Item) (root : Loop) (w0 w : Wf)
    (hinv : Inv I0) (hroot : toProgram I0 = some root) (hw0 : root.toWaveform = .ok w0)
    (hw : collapseWf w0 T = .ok w) :
    Inv [Item.measure root.windows, Item.node (leaf w)] ∧
    (tidy c w = true →
      Rel c T [Item.measure root.windows, Item.node (leaf w)] I0 ∧
      allLeavesList (tidy c) (itemsNodes I0) = true) := by
  rw [toProgram_eq] at hroot
  have hne : itemsNodes I0 ≠ [] := by
    intro e; simp [e] at hroot
  have he : (itemsNodes I0).isEmpty = false := by simpa using hne
  simp only [he, Bool.false_eq_true, if_false, Option.some.injEq] at hroot
  subst hroot
  have hpos : posReps (rootOf I0) = true := by
    unfold rootOf
    cases hc : itemsNodes I0 with
    | nil => exact absurd hc hne
    | cons x r =>
      have hp := hinv.pos
      rw [hc] at hp
      rw [posReps]
      simp only [Bool.and_eq_true, decide_eq_true_eq]
      exact ⟨Nat.le_refl 1, hp⟩
  have hcst : allLeaves QP.C05.cst (rootOf I0) = true := by
    simp only [rootOf, allLeaves_none]; exact hinv.cst
  have tw := toWaveform_TW (rootOf I0) w0 hw0 hpos hcst
  obtain ⟨b1, b2, b3, b4⟩ := collapseWf_spec w0 w T tw.cst hw
  have hdur : w.duration = itemsDur I0 := by rw [b1, tw.dur, rootOf_duration]
  have hnn : 0 ≤ w.duration := by rw [hdur]; exact durationList_nonneg _ hinv.nn
  refine ⟨inv_leaf _ w b2 hnn, fun ht => ?_⟩
  obtain ⟨r1, r2, r3⟩ := tw.rest c (b4 c ht)
  have hpres0 : w0.channels.contains c = allPres c I0 := by
    rw [r2]; simp only [rootOf, allLeaves_none, allPres]
  have hpres : w.channels.contains c = (allPres c I0 || Chain.presF T c false) := by
    have := congrArg Option.isSome (b3 c 0)
    rw [pv_isSome, Chain.chanF_isSome, pv_isSome, Chain.presF_or, hpres0] at this
    exact this
  refine ⟨⟨?_, ?_, ?_, ?_, ?_⟩, by simpa [rootOf, allLeaves_none] using r1⟩
  · simp [itemsNodes, hne]
  · rw [one_dur, leaf_duration, hdur]
  · rw [one_win, leaf_windows, List.append_nil, rootOf_windows]
  · rw [one_pres, leaf_allLeaves, hpres]
  · intro hA t h0 ht'
    rw [one_pres, leaf_allLeaves] at hA
    rw [one_dur, leaf_duration] at ht'
    rw [one_nodes, one_sample c _ t (by rw [leaf_duration]; exact ht'), leaf_sample w c t h0 ht']
    have hb := b3 c t
    rw [pv_of_present w c t hA] at hb
    rw [hb]
    unfold pv
    rw [hpres0]
    by_cases hp0 : allPres c I0 = true
    · simp only [hp0, if_true]
      rw [r3 (by rw [hpres0]; exact hp0) t h0 (by rw [rootOf_duration, ← hdur]; exact ht'),
        rootOf_sample I0 c t h0 (by rw [← hdur]; exact ht')]
    · have : allPres c I0 = false := by simpa using hp0
      simp [this]


end QP.C05
