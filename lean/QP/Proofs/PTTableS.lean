import QP.Model.PT
import QP.Proofs.PTTable
import QP.Proofs.PTSample
import Mathlib.Tactic.Linarith
import Mathlib.Tactic.FieldSimp
import Mathlib.Tactic.Ring
/-! Table waveforms: the entry de-duplication of `from_table` does not change any sample before the end of the
table, and a validated table samples like the piecewise linear function its entries denote.
(The de-duplication argument follows `QP/Proofs/C08d.lean`; here the sample time is strictly before the last
entry, so no assumption on the shape of the table's end is needed.) -/
namespace QP.PT

/-- what one pair of neighbouring entries writes at time `t` -/
def segStep (t : Rat) (acc : Option Rat) (e1 e2 : WEntry) : Option Rat :=
  if e1.t ≤ t ∧ t ≤ e2.t then some (interpAt e2.interp e1.t e1.v e2.t e2.v t) else acc

theorem tableSample_cons2 (t : Rat) (acc : Option Rat) (e1 e2 : WEntry) (rest : List WEntry) :
    tableSample (e1 :: e2 :: rest) t acc = tableSample (e2 :: rest) t (segStep t acc e1 e2) := by
  simp [tableSample, segStep]

theorem tableSample_single (t : Rat) (acc : Option Rat) (e : WEntry) : tableSample [e] t acc = acc := by
  simp [tableSample]

theorem tableSample_nil (t : Rat) (acc : Option Rat) : tableSample [] t acc = acc := by
  simp [tableSample]

/-- the segments of `A ++ [x]` are written first, then those of `x :: L` -/
theorem tableSample_split (t : Rat) : ∀ (A : List WEntry) (x : WEntry) (L : List WEntry) (acc : Option Rat),
    tableSample (A ++ x :: L) t acc = tableSample (x :: L) t (tableSample (A ++ [x]) t acc) := by
  intro A
  induction A with
  | nil => intro x L acc; simp [tableSample_single]
  | cons a A' ih =>
    intro x L acc
    cases A' with
    | nil =>
      simp only [List.cons_append, List.nil_append, tableSample_cons2, tableSample_single]
    | cons b B =>
      simp only [List.cons_append, tableSample_cons2]
      exact ih x L _

theorem interp_same_value (i : Interp) (t1 v t2 t : Rat) : interpAt i t1 v t2 v t = v := by
  cases i with
  | hold => simp [interpAt]
  | jump => simp [interpAt]
  | linear => simp [interpAt]

/-- dropping the middle one of three entries (same values, or same times) does not change a sample at a time
that is not the table's last time -/
theorem drop_middle (t : Rat) (acc : Option Rat) (p c n : WEntry) (r : List WEntry)
    (hpc : p.t ≤ c.t) (hcn : c.t ≤ n.t)
    (hdrop : ¬ ((p.t ≠ c.t ∨ c.t ≠ n.t) ∧ (p.v ≠ c.v ∨ c.v ≠ n.v)))
    (hr : ∀ r0 r', r = r0 :: r' → n.t ≤ r0.t)
    (hend : r = [] → t ≠ n.t) :
    tableSample (p :: c :: n :: r) t acc = tableSample (p :: n :: r) t acc := by
  simp only [tableSample_cons2]
  by_cases hv : p.v = c.v ∧ c.v = n.v
  · congr 1
    simp only [segStep]
    have e1 : c.v = p.v := hv.1.symm
    have e2 : n.v = p.v := by rw [← hv.2, ← hv.1]
    rw [e1, e2]
    simp only [interp_same_value]
    by_cases a : c.t ≤ t ∧ t ≤ n.t
    · have : p.t ≤ t ∧ t ≤ n.t := ⟨le_trans hpc a.1, a.2⟩
      rw [if_pos a, if_pos this]
    · by_cases b : p.t ≤ t ∧ t ≤ c.t
      · have : p.t ≤ t ∧ t ≤ n.t := ⟨b.1, le_trans b.2 hcn⟩
        rw [if_neg a, if_pos b, if_pos this]
      · have : ¬ (p.t ≤ t ∧ t ≤ n.t) := by
          intro h
          by_cases hc : t ≤ c.t
          · exact b ⟨h.1, hc⟩
          · exact a ⟨le_of_lt (not_le.mp hc), h.2⟩
        rw [if_neg a, if_neg b, if_neg this]
  · have ht : p.t = c.t ∧ c.t = n.t := by
      by_cases h1 : p.t = c.t
      · by_cases h2 : c.t = n.t
        · exact ⟨h1, h2⟩
        · exact absurd ⟨Or.inr h2, by
            by_cases a : p.v = c.v
            · by_cases b : c.v = n.v
              · exact absurd ⟨a, b⟩ hv
              · exact Or.inr b
            · exact Or.inl a⟩ hdrop
      · exact absurd ⟨Or.inl h1, by
            by_cases a : p.v = c.v
            · by_cases b : c.v = n.v
              · exact absurd ⟨a, b⟩ hv
              · exact Or.inr b
            · exact Or.inl a⟩ hdrop
    by_cases hT : t = n.t
    · subst hT
      cases r with
      | nil => exact absurd rfl (hend rfl)
      | cons r0 r' =>
        have hn := hr r0 r' rfl
        simp only [tableSample_cons2]
        congr 1
        simp [segStep, hn, le_refl]
    · have n1 : ¬ (p.t ≤ t ∧ t ≤ c.t) := by
        rw [ht.1, ht.2]; intro h; exact hT (le_antisymm h.2 h.1)
      have n2 : ¬ (c.t ≤ t ∧ t ≤ n.t) := by
        rw [ht.2]; intro h; exact hT (le_antisymm h.2 h.1)
      have n3 : ¬ (p.t ≤ t ∧ t ≤ n.t) := by
        rw [ht.1, ht.2]; intro h; exact hT (le_antisymm h.2 h.1)
      simp [segStep, n1, n2, n3]

/-- the loop of `_validate_input` keeps every sample at a time different from the last entry's time -/
theorem validateLoop_sound (t : Rat) : ∀ (rest : List WEntry) (prev cur : WEntry) (cv : Option Rat)
    (O : List WEntry) (last : WEntry) (cv' : Option Rat) (out' : List WEntry),
    validateLoop rest prev.t prev.v cur cv (O ++ [prev]) = .ok (last, cv', out') →
    prev.t ≤ cur.t → t ≠ lastT (cur :: rest) →
    ∀ acc, tableSample (O ++ prev :: cur :: rest) t acc = tableSample (out' ++ [last]) t acc := by
  intro rest
  induction rest with
  | nil =>
    intro prev cur cv O last cv' out' h _ _ acc
    simp only [validateLoop, Except.ok.injEq, Prod.mk.injEq] at h
    obtain ⟨h1, _, h3⟩ := h
    subst h1; subst h3
    simp
  | cons nx r ih =>
    intro prev cur cv O last cv' out' h hpc hne acc
    simp only [validateLoop] at h
    by_cases hlt : nx.t < cur.t
    · simp [hlt] at h
    · simp only [hlt, if_false] at h
      have hcn : cur.t ≤ nx.t := not_lt.mp hlt
      have hne' : t ≠ lastT (nx :: r) := by simpa [lastT] using hne
      by_cases hkeep : (prev.t ≠ cur.t ∨ cur.t ≠ nx.t) ∧ (prev.v ≠ cur.v ∨ cur.v ≠ nx.v)
      · simp only [hkeep, if_true] at h
        have := ih cur nx _ (O ++ [prev]) last cv' out' (by simpa using h) hcn hne' acc
        simpa using this
      · simp only [hkeep, if_false] at h
        have hIH := ih prev nx _ O last cv' out' h (le_trans hpc hcn) hne' acc
        rw [← hIH]
        rw [tableSample_split t O prev (cur :: nx :: r), tableSample_split t O prev (nx :: r)]
        apply drop_middle t _ prev cur nx r hpc hcn hkeep
        · intro r0 r' hr
          subst hr
          simp only [validateLoop] at h
          by_cases hlt2 : r0.t < nx.t
          · simp [hlt2] at h
          · exact not_lt.mp hlt2
        · intro hr
          subst hr
          simpa [lastT] using hne'

/-! ### a sorted table samples like the piecewise linear function of its entries -/

theorem sortedTimes_cons {e1 e2 : WEntry} {rest : List WEntry} :
    sortedTimes (e1 :: e2 :: rest) = true ↔ e1.t ≤ e2.t ∧ sortedTimes (e2 :: rest) = true := by
  simp [sortedTimes]

theorem sorted_head_le_last : ∀ (es : List WEntry) (e : WEntry), sortedTimes (e :: es) = true → e.t ≤ lastT (e :: es) := by
  intro es
  induction es with
  | nil => intro e _; simp [lastT]
  | cons x xs ih =>
    intro e h
    rw [sortedTimes_cons] at h
    have := ih x h.2
    simp only [lastT] at this ⊢
    linarith

/-- before its first entry a table writes nothing -/
theorem tableSample_before (t : Rat) : ∀ (es : List WEntry) (e : WEntry) (acc : Option Rat),
    sortedTimes (e :: es) = true → t < e.t → tableSample (e :: es) t acc = acc := by
  intro es
  induction es with
  | nil => intro e acc _ _; simp [tableSample]
  | cons x xs ih =>
    intro e acc h ht
    rw [sortedTimes_cons] at h
    rw [tableSample_cons2]
    have hn : ¬ (e.t ≤ t ∧ t ≤ x.t) := by intro hh; linarith [hh.1]
    simp only [segStep, hn, if_false]
    exact ih x acc h.2 (by linarith [h.1])

/-- the piece between two neighbouring entries -/
def segOf (e1 e2 : WEntry) : Seg :=
  match e2.interp with
  | .hold => { len := e2.t - e1.t, v0 := e1.v, v1 := e1.v }
  | .jump => { len := e2.t - e1.t, v0 := e2.v, v1 := e2.v }
  | .linear => { len := e2.t - e1.t, v0 := e1.v, v1 := e2.v }

theorem interp_valueAt (e1 e2 : WEntry) (t : Rat) (hlt : e1.t < e2.t) :
    interpAt e2.interp e1.t e1.v e2.t e2.v t = Seg.valueAt (segOf e1 e2) (t - e1.t) := by
  have hne : e2.t - e1.t ≠ 0 := by intro h; linarith
  unfold segOf
  cases e2.interp with
  | hold => simp [interpAt, Seg.valueAt]
  | jump => simp [interpAt, Seg.valueAt]
  | linear =>
    have hne2 : ¬ e2.t = e1.t := by intro h; linarith
    simp only [interpAt, hne2, if_false, Seg.valueAt]
    field_simp
    ring

theorem entriesToPL_cons2 (e1 e2 : WEntry) (rest : List WEntry) :
    entriesToPL (e1 :: e2 :: rest) =
      (if e1.t < e2.t then [segOf e1 e2] else []) ++ entriesToPL (e2 :: rest) := by
  unfold segOf
  cases h : e2.interp <;> simp [entriesToPL, h]

theorem seg_len (e1 e2 : WEntry) : (segOf e1 e2).len = e2.t - e1.t := by
  unfold segOf
  cases e2.interp <;> rfl

/-- **a sorted table and its piecewise linear function**: at every time from the first entry up to (excluding)
the last one, whatever was written before -/
theorem tableSample_eq_at (t : Rat) : ∀ (es : List WEntry) (e : WEntry) (acc : Option Rat),
    sortedTimes (e :: es) = true → e.t ≤ t → t < lastT (e :: es) →
    tableSample (e :: es) t acc = PL.at (entriesToPL (e :: es)) (t - e.t) := by
  intro es
  induction es with
  | nil => intro e acc _ h1 h2; simp [lastT] at h2; linarith
  | cons x xs ih =>
    intro e acc hs h1 h2
    rw [sortedTimes_cons] at hs
    rw [tableSample_cons2, entriesToPL_cons2]
    by_cases hx : t < x.t
    · -- the sample lies in the first (positive length) segment
      have hlt : e.t < x.t := by linarith
      have hcov : e.t ≤ t ∧ t ≤ x.t := ⟨h1, le_of_lt hx⟩
      simp only [segStep, hcov, and_self, if_true, hlt, List.singleton_append]
      rw [tableSample_before t xs x _ hs.2 hx]
      simp only [PL.at, seg_len]
      have : t - e.t < x.t - e.t := by linarith
      simp only [this, if_true]
      rw [interp_valueAt e x t hlt]
    · have hx' : x.t ≤ t := not_lt.mp hx
      have h2' : t < lastT (x :: xs) := by simpa [lastT] using h2
      rw [ih x _ hs.2 hx' h2']
      by_cases hlt : e.t < x.t
      · simp only [hlt, if_true, List.singleton_append, PL.at, seg_len]
        have : ¬ (t - e.t < x.t - e.t) := by intro h; linarith
        simp only [this, if_false]
        congr 1
        ring
      · have heq : e.t = x.t := le_antisymm hs.1 (not_lt.mp hlt)
        rw [if_neg hlt]
        simp only [List.nil_append]
        rw [heq]

theorem entriesToPL_pos : ∀ (es : List WEntry), PL.pos (entriesToPL es) := by
  intro es
  induction es with
  | nil => intro s hs; simp [entriesToPL] at hs
  | cons e1 rest ih =>
    cases rest with
    | nil => intro s hs; simp [entriesToPL] at hs
    | cons e2 r =>
      rw [entriesToPL_cons2]
      intro s hs
      rcases List.mem_append.mp hs with h | h
      · by_cases hlt : e1.t < e2.t
        · simp only [hlt, if_true, List.mem_singleton] at h
          subst h
          rw [seg_len]; linarith
        · simp [hlt] at h
      · exact ih s h

theorem entriesToPL_dur : ∀ (es : List WEntry) (e : WEntry), sortedTimes (e :: es) = true →
    PL.dur (entriesToPL (e :: es)) = lastT (e :: es) - e.t := by
  intro es
  induction es with
  | nil => intro e _; simp [entriesToPL, PL.dur, lastT]
  | cons x xs ih =>
    intro e hs
    rw [sortedTimes_cons] at hs
    rw [entriesToPL_cons2, PL.dur_append, ih x hs.2]
    by_cases hlt : e.t < x.t
    · simp only [hlt, if_true, PL.dur, seg_len, lastT]; ring
    · have heq : e.t = x.t := le_antisymm hs.1 (not_lt.mp hlt)
      rw [if_neg hlt]
      simp only [PL.dur, lastT]
      rw [heq]; ring

end QP.PT
