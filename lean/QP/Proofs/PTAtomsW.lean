import QP.Model.PT
import QP.Proofs.PTCompileW
/-! Atoms for the duration/window relation `RelW` (no positivity assumption). -/
namespace QP.PT

/-- the shape of what an atomic template appends -/
theorem atomItems_shape {pt : PT} {σ : Scope} {mm : List (MName × Option MName)} {cm : List (Chan × Option Chan)}
    {items : List Item} (h : atomItems pt (ctx0 σ mm cm) = .ok items) :
    (buildWaveform pt σ cm = .ok none ∧ items = []) ∨
    (∃ w ms w', buildWaveform pt σ cm = .ok (some w) ∧ atomicMeas pt σ mm = .ok ms ∧ w'.duration = w.duration ∧
      items = (if ms.isEmpty then [] else [Item.measure ms]) ++ [Item.node (leaf w')]) := by
  simp only [atomItems, ctx0, bind_ok] at h
  obtain ⟨w?, hw, h⟩ := h
  cases w? with
  | none =>
    simp only [pure_ok] at h
    exact Or.inl ⟨hw, h.symm⟩
  | some w =>
    right
    simp only [bind_ok] at h
    obtain ⟨ms, hms, h⟩ := h
    simp only [List.isEmpty_nil, if_true, pure_bind] at h
    cases hcd : w.constDict with
    | none =>
      simp only [hcd, pure_bind, pure_ok] at h
      exact ⟨w, ms, w, hw, hms, rfl, h.symm⟩
    | some cv =>
      simp only [hcd, bind_ok, pure_ok] at h
      obtain ⟨w', hw', h⟩ := h
      exact ⟨w, ms, w', hw, hms, (constFromMapping_spec hw').1, h.symm⟩

theorem relW_single_leaf (w : Wf) (ms : List Window) (d : Rat) (hw : w.duration = d)
    (chans : List (Chan × PL)) (hne : chans ≠ []) :
    RelW ((if ms.isEmpty then [] else [Item.measure ms]) ++ [Item.node (leaf w)])
      { dur := d, chans := chans, windows := ms } := by
  have hn : nodesOf (if ms.isEmpty then [] else [Item.measure ms]) = [] := by
    by_cases hm : ms.isEmpty <;> simp [hm, nodesOf]
  refine ⟨?_, ?_, ?_, ?_⟩
  · by_cases hm : ms.isEmpty
    · simp only [hm, if_true, List.nil_append]; exact Blocks.node _ Blocks.nil
    · simp only [hm]; exact Blocks.meas ms _ Blocks.nil
  · rw [nodesOf_append, hn]
    simp only [nodesOf, List.nil_append]
    constructor
    · intro h; simp at h
    · intro h; exact absurd h hne
  · rw [nodesOf_append, hn]
    simp [nodesOf, Loop.durationList, leaf_duration, hw]
  · rw [itemsWindows_append]
    by_cases hm : ms.isEmpty
    · have : ms = [] := by simpa using hm
      subst this
      simp [itemsWindows, nodesOf, leaf_windows]
    · simp [hm, itemsWindows, nodesOf, leaf_windows, map_shiftW_zero]

theorem atomOKW_const (id : Option String) (dur : Expr) (amps : List (Chan × Expr)) (meas : List MeasDecl) :
    AtomOKW (.const id dur amps meas) := by
  intro σ mm cm items P h1 h2
  have hshape := atomItems_shape h1
  simp only [buildWaveform, bind_ok] at hshape
  simp only [denote, bind_ok] at h2
  obtain ⟨d, hd, h2⟩ := h2
  by_cases hpos : d > 0
  · simp only [hpos, if_true, bind_ok] at h2
    obtain ⟨cvs, hcvs, h2⟩ := h2
    rcases Bool.eq_false_or_eq_true (dictOfList cvs).isEmpty with hemp | hemp
    · simp only [hemp, if_true, pure_ok] at h2
      subst h2
      rcases hshape with ⟨⟨d', hd', hb⟩, rfl⟩ | ⟨w, ms, w', ⟨d', hd', hb⟩, _, _, _⟩
      · exact RelW.nil
      · rw [hd] at hd'; cases hd'
        simp only [hpos, if_true, bind_ok] at hb
        obtain ⟨cvs', hcvs', hb⟩ := hb
        rw [hcvs] at hcvs'; cases hcvs'
        simp [hemp, pure, Except.pure] at hb
    · simp only [hemp, Bool.false_eq_true, if_false] at h2
      rcases Bool.eq_false_or_eq_true (hasDup ((dictOfList cvs).map (·.1))) with hdup | hdup
      · simp [hdup] at h2
      · simp only [hdup, Bool.false_eq_true, if_false, bind_ok, pure_ok] at h2
        obtain ⟨ms, hms, rfl⟩ := h2
        rcases hshape with ⟨⟨d', hd', hb⟩, _⟩ | ⟨w, ms', w', ⟨d', hd', hb⟩, hms', hdur, rfl⟩
        · rw [hd] at hd'; cases hd'
          simp only [hpos, if_true, bind_ok] at hb
          obtain ⟨cvs', hcvs', hb⟩ := hb
          rw [hcvs] at hcvs'; cases hcvs'
          simp only [hemp, Bool.false_eq_true, if_false, bind_ok, pure_ok] at hb
          obtain ⟨_, _, hb⟩ := hb
          cases hb
        · rw [hd] at hd'; cases hd'
          simp only [hpos, if_true, bind_ok] at hb
          obtain ⟨cvs', hcvs', hb⟩ := hb
          rw [hcvs] at hcvs'; cases hcvs'
          simp only [hemp, Bool.false_eq_true, if_false, bind_ok, pure_ok] at hb
          obtain ⟨w0, hw0, hb⟩ := hb
          cases hb
          rw [hms] at hms'; cases hms'
          apply relW_single_leaf w' ms d (by rw [hdur, (constFromMapping_spec hw0).1])
          have hne : dictOfList cvs ≠ [] := by simpa using hemp
          simpa using hne
  · simp only [hpos, if_false, pure_ok] at h2
    subst h2
    rcases hshape with ⟨_, rfl⟩ | ⟨w, ms, w', ⟨d', hd', hb⟩, _, _, _⟩
    · exact RelW.nil
    · rw [hd] at hd'; cases hd'
      simp [hpos, pure, Except.pure] at hb

theorem atomOKW_func (id : Option String) (ch : Chan) (dur e : Expr) (meas : List MeasDecl) (cons : List Expr) :
    AtomOKW (.func id ch dur e meas cons) := by
  intro σ mm cm items P h1 h2
  have hshape := atomItems_shape h1
  simp only [buildWaveform, bind_ok] at hshape
  simp only [denote, bind_ok] at h2
  obtain ⟨_, _, o, ho, h2⟩ := h2
  cases o with
  | none =>
    simp only [pure_ok] at h2
    subst h2
    rcases hshape with ⟨_, rfl⟩ | ⟨w, ms, w', ⟨_, _, o', ho', hb⟩, _, _, _⟩
    · exact RelW.nil
    · rw [ho] at ho'; cases ho'
      simp [pure, Except.pure] at hb
  | some oc =>
    simp only [bind_ok] at h2
    obtain ⟨d, hd, h2⟩ := h2
    rcases Bool.eq_false_or_eq_true (e.affineIn "t") with haff | haff
    · simp only [haff, Bool.not_true, Bool.false_eq_true, if_false, bind_ok, pure_ok] at h2
      obtain ⟨a, _, b, _, ms, hms, rfl⟩ := h2
      rcases hshape with ⟨⟨_, _, o', ho', hb⟩, _⟩ | ⟨w, ms', w', ⟨_, _, o', ho', hb⟩, hms', hdur, rfl⟩
      · rw [ho] at ho'; cases ho'
        simp only [bind_ok] at hb
        obtain ⟨_, _, d', _, env, _, hb⟩ := hb
        by_cases ht : e.vars.contains "t"
        · simp only [ht, if_true, pure_ok] at hb
          cases hb
        · simp only [ht, Bool.false_eq_true, if_false] at hb
          split at hb <;> simp [pure, Except.pure] at hb
      · rw [ho] at ho'; cases ho'
        simp only [bind_ok] at hb
        obtain ⟨_, _, d', hd', env, _, hb⟩ := hb
        rw [hd] at hd'; cases hd'
        rw [hms] at hms'; cases hms'
        have hwd : w.duration = d := by
          by_cases ht : e.vars.contains "t"
          · simp only [ht, if_true, pure_ok, Option.some.injEq] at hb
            subst hb; simp [Wf.duration]
          · simp only [ht, Bool.false_eq_true, if_false] at hb
            split at hb
            · simp only [pure_ok, Option.some.injEq] at hb
              subst hb; simp [Wf.duration]
            · simp at hb
        exact relW_single_leaf w' ms d (by rw [hdur, hwd]) _ (by simp)
    · simp [haff] at h2

end QP.PT
