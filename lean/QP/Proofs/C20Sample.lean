import QP.Proofs.C20Code
/-! Helper lemmas for C20: `get_sample_times`, `ProgramEntry._sample_waveforms`. -/
namespace QP.C20

theorem mapE_ok_cons {α β} {f : α → Except Err β} {a : α} {as : List α} {out : List β}
    (h : mapE f (a :: as) = .ok out) : ∃ b bs, f a = .ok b ∧ mapE f as = .ok bs ∧ out = b :: bs := by
  unfold mapE at h
  split at h
  · cases h
  · rename_i b hb
    split at h
    · cases h
    · rename_i bs hbs
      exact ⟨b, bs, hb, hbs, by cases h; rfl⟩

/-- a successful `mapE` is a `map` when every successful call is described by `g` -/
theorem mapE_eq_map {α β} {f : α → Except Err β} (g : α → β) :
    ∀ {l : List α} {out : List β}, (∀ a ∈ l, ∀ b, f a = .ok b → b = g a) → mapE f l = .ok out →
      out = l.map g
  | [], out, _, h => by simp [mapE] at h; simp [h]
  | a :: as, out, hg, h => by
    obtain ⟨b, bs, hb, hbs, rfl⟩ := mapE_ok_cons h
    have := mapE_eq_map g (fun a' ha' => hg a' (List.mem_cons_of_mem _ ha')) hbs
    simp [hg a (List.mem_cons_self) b hb, this]

/-- `mapE` succeeds when every call succeeds -/
theorem mapE_ok_of_forall {α β} {f : α → Except Err β} :
    ∀ {l : List α}, (∀ a ∈ l, ∃ b, f a = .ok b) → ∃ out, mapE f l = .ok out
  | [], _ => ⟨[], rfl⟩
  | a :: as, h => by
    obtain ⟨b, hb⟩ := h a List.mem_cons_self
    obtain ⟨bs, hbs⟩ := mapE_ok_of_forall (fun a' ha' => h a' (List.mem_cons_of_mem _ ha'))
    exact ⟨b :: bs, by simp [mapE, hb, hbs]⟩

theorem mapE_length {α β} {f : α → Except Err β} :
    ∀ {l : List α} {out : List β}, mapE f l = .ok out → out.length = l.length
  | [], out, h => by simp [mapE] at h; simp [h]
  | a :: as, out, h => by
    obtain ⟨b, bs, _, hbs, rfl⟩ := mapE_ok_cons h
    simp [mapE_length hbs]

theorem waveformLength_ok {sr tol dur : Rat} {n : Int} (h : waveformLength sr tol dur = .ok n) :
    n = rne (dur * sr) ∧ 0 < n ∧ rabs (dur * sr - (n : Rat)) ≤ tol := by
  unfold waveformLength at h
  simp only at h
  split at h
  · cases h
  · split at h
    · cases h
    · cases h
      refine ⟨rfl, by omega, ?_⟩
      rename_i h1 _
      exact Rat.not_lt.mp h1

theorem le_maxLen {n : Int} : ∀ {ns : List Int}, n ∈ ns → n ≤ maxLen ns
  | m :: ms, h => by
    rcases List.mem_cons.mp h with rfl | h
    · unfold maxLen; omega
    · have := le_maxLen h
      unfold maxLen; omega

theorem timeArray_length (sr : Rat) (n : Nat) : (timeArray sr n).length = n := by
  simp [timeArray]

theorem timeArray_getElem (sr : Rat) (n k : Nat) (h : k < (timeArray sr n).length) :
    (timeArray sr n)[k] = (k : Rat) / sr := by
  simp [timeArray]

/-- `time_array[:segment_length]` is the time array of the shorter waveform -/
theorem take_timeArray (sr : Rat) {n m : Nat} (h : n ≤ m) : (timeArray sr m).take n = timeArray sr n := by
  unfold timeArray
  rw [← List.map_take, List.take_range, Nat.min_eq_left h]

end QP.C20

namespace QP.C20

theorem mapE_zip {α β} {f : α → Except Err β} :
    ∀ {l : List α} {out : List β}, mapE f l = .ok out → ∀ p ∈ l.zip out, f p.1 = .ok p.2
  | [], out, _ => by simp
  | a :: as, out, h => by
    obtain ⟨b, bs, hb, hbs, rfl⟩ := mapE_ok_cons h
    intro p hp
    rw [List.zip_cons_cons] at hp
    rcases List.mem_cons.mp hp with rfl | hp
    · exact hb
    · exact mapE_zip hbs p hp

theorem getSampled_ok {w : Wf} {ch : Chan} {ts raw : List Rat} (h : w.getSampled ch ts = .ok raw) :
    raw = ts.map (w.val ch) := by
  unfold Wf.getSampled at h
  split at h
  · split at h
    · cases h
    · split at h
      · cases h
      · cases h; rfl
  · rename_i hn
    cases ts with
    | nil => cases h; rfl
    | cons t ts =>
      exfalso
      have := hn t ((t :: ts).getLast (by simp))
      simp [List.getLast?_eq_some_getLast] at this

theorem sampleChannel_ok {w : Wf} {sr : Rat} {n : Nat} {c : ChanCfg} {o : Option (List Rat)}
    (h : sampleChannel w (timeArray sr n) c = .ok o) :
    o = c.chan.map (fun ch => (List.range n).map (fun (k : Nat) =>
          (applyTrafo c.trafo (w.val ch ((k : Rat) / sr)) - c.off) / c.amp)) := by
  unfold sampleChannel at h
  split at h
  · rename_i hc; cases h; simp [hc]
  · rename_i ch hc
    split at h
    · cases h
    · rename_i raw hraw
      split at h
      · cases h
      · cases h
        rw [getSampled_ok hraw, hc]
        simp [timeArray, List.map_map, Function.comp_def]

theorem sampleMarker_ok {w : Wf} {sr : Rat} {n : Nat} {m : Option Chan} {o : Option (List Bool)}
    (h : sampleMarker w (timeArray sr n) m = .ok o) :
    o = m.map (fun ch => (List.range n).map (fun (k : Nat) => decide (w.val ch ((k : Rat) / sr) ≠ 0))) := by
  unfold sampleMarker at h
  split at h
  · cases h; rfl
  · rename_i ch
    split at h
    · cases h
    · rename_i raw hraw
      cases h
      rw [getSampled_ok hraw]
      simp [timeArray, List.map_map, Function.comp_def]

theorem sampleOne_ok {sr : Rat} {cfgs : List ChanCfg} {marks : List (Option Chan)} {times : List Rat}
    {w : Wf} {len : Int} {s : Sampled}
    (ht : times.take len.toNat = timeArray sr len.toNat) (hl : len = rne (w.dur * sr))
    (h : sampleOne cfgs marks times (w, len) = .ok s) : s = specOne sr cfgs marks w := by
  unfold sampleOne at h
  simp only [ht] at h
  split at h
  · cases h
  · rename_i chans hch
    split at h
    · cases h
    · rename_i ms hms
      cases h
      have e1 := mapE_eq_map _ (fun c _ o ho => sampleChannel_ok ho) hch
      have e2 := mapE_eq_map _ (fun c _ o ho => sampleMarker_ok ho) hms
      unfold specOne
      simp only [e1, e2, hl]

theorem sampleTimes_ok {sr tol : Rat} {durs ts : List Rat} {ns : List Int}
    (h : sampleTimes sr tol durs = .ok (ts, ns)) :
    durs ≠ [] ∧ mapE (waveformLength sr tol) durs = .ok ns ∧ ts = timeArray sr (maxLen ns).toNat := by
  unfold sampleTimes at h
  split at h
  · cases h
  · rename_i hne
    split at h
    · cases h
    · rename_i lens hl
      cases h
      refine ⟨?_, hl, rfl⟩
      intro he; simp [he] at hne

theorem sampleWaveforms_eq_spec {sr tol : Rat} {cfgs : List ChanCfg} {marks : List (Option Chan)}
    {wfs : List Wf} {out : List Sampled} (h : sampleWaveforms sr tol cfgs marks wfs = .ok out) :
    out = sampleSpec sr cfgs marks wfs := by
  unfold sampleWaveforms at h
  split at h
  · cases h
  · rename_i times lens hst
    obtain ⟨_, hl, rfl⟩ := sampleTimes_ok hst
    have hlen := mapE_length hl
    have hz := mapE_zip hl
    have key : ∀ wn ∈ wfs.zip lens, ∀ s, sampleOne cfgs marks (timeArray sr (maxLen lens).toNat) wn = .ok s →
        s = specOne sr cfgs marks wn.1 := by
      intro wn hwn s hs
      have hmem : (wn.1.dur, wn.2) ∈ (wfs.map (·.dur)).zip lens := by
        rw [List.zip_map_left]
        exact List.mem_map.mpr ⟨wn, hwn, rfl⟩
      have hw := waveformLength_ok (hz _ hmem)
      have hle : wn.2 ≤ maxLen lens := le_maxLen (List.of_mem_zip hwn).2
      have : wn.2.toNat ≤ (maxLen lens).toNat := by omega
      exact sampleOne_ok (w := wn.1) (len := wn.2) (take_timeArray sr this) hw.1 hs
    rw [mapE_eq_map _ key h]
    unfold sampleSpec
    have e : (wfs.zip lens).map (fun a => specOne sr cfgs marks a.1)
        = ((wfs.zip lens).map Prod.fst).map (specOne sr cfgs marks) := by
      rw [List.map_map]; rfl
    rw [e, List.map_fst_zip]
    simp at hlen; omega

end QP.C20

namespace QP.C20

theorem timeArray_head? (sr : Rat) (n : Nat) : (timeArray sr (n + 1)).head? = some 0 := by
  simp [timeArray, List.range_succ_eq_map]

theorem timeArray_getLast? (sr : Rat) (n : Nat) : (timeArray sr (n + 1)).getLast? = some ((n : Rat) / sr) := by
  simp [timeArray, List.range_succ]

theorem getSampled_timeArray {w : Wf} {ch : Chan} {sr : Rat} {n : Nat}
    (hlast : ((n : Rat) - 1) / sr ≤ w.dur) (hd : w.defined ch = true) :
    w.getSampled ch (timeArray sr n) = .ok ((timeArray sr n).map (w.val ch)) := by
  cases n with
  | zero => simp [Wf.getSampled, timeArray]
  | succ k =>
    unfold Wf.getSampled
    rw [timeArray_head?, timeArray_getLast?]
    have hk : (k : Rat) / sr ≤ w.dur := by
      push_cast at hlast
      have : ((k : Rat) + 1 - 1) = k := by ring
      rwa [this] at hlast
    simp [hd, hk]

/-- the last sample time lies inside the waveform -/
theorem last_time_le {sr tol dur : Rat} {n : Int} (hsr : 0 < sr) (htol : tol < 1)
    (h : waveformLength sr tol dur = .ok n) : ((n.toNat : Rat) - 1) / sr ≤ dur := by
  obtain ⟨_, hpos, habs⟩ := waveformLength_ok h
  rw [rabs_le_iff] at habs
  have hn : ((n.toNat : Nat) : Rat) = (n : Rat) := by
    have : ((n.toNat : Nat) : Int) = n := by omega
    exact_mod_cast this
  rw [hn, div_le_iff₀ hsr]
  linarith [habs.1, habs.2]

end QP.C20

namespace QP.C20

theorem sampleWaveforms_ok {sr tol : Rat} (hsr : 0 < sr) (htol : tol < 1)
    {cfgs : List ChanCfg} {marks : List (Option Chan)} {wfs : List Wf} {ts : List Rat} {ns : List Int}
    (hst : sampleTimes sr tol (wfs.map (·.dur)) = .ok (ts, ns))
    (hc : ∀ w ∈ wfs, ∀ c ∈ cfgs, ∀ ch, c.chan = some ch → w.defined ch = true ∧ c.amp ≠ 0)
    (hm : ∀ w ∈ wfs, ∀ ch, some ch ∈ marks → w.defined ch = true) :
    ∃ out, sampleWaveforms sr tol cfgs marks wfs = .ok out := by
  unfold sampleWaveforms
  rw [hst]
  obtain ⟨_, hl, rfl⟩ := sampleTimes_ok hst
  have hz := mapE_zip hl
  apply mapE_ok_of_forall
  intro wn hwn
  have hmem : (wn.1.dur, wn.2) ∈ (wfs.map (·.dur)).zip ns := by
    rw [List.zip_map_left]
    exact List.mem_map.mpr ⟨wn, hwn, rfl⟩
  have hwl := hz _ hmem
  have hlast := last_time_le hsr htol hwl
  have hle : wn.2 ≤ maxLen ns := le_maxLen (List.of_mem_zip hwn).2
  have hle' : wn.2.toNat ≤ (maxLen ns).toNat := by omega
  have hw : wn.1 ∈ wfs := (List.of_mem_zip hwn).1
  unfold sampleOne
  simp only [take_timeArray sr hle']
  obtain ⟨chans, hch⟩ : ∃ chans, mapE (sampleChannel wn.1 (timeArray sr wn.2.toNat)) cfgs = .ok chans := by
    apply mapE_ok_of_forall
    intro c hcm
    unfold sampleChannel
    split
    · exact ⟨_, rfl⟩
    · rename_i ch hch
      obtain ⟨hd, ha⟩ := hc _ hw c hcm ch hch
      rw [getSampled_timeArray hlast hd]
      simp [ha]
  obtain ⟨ms, hms⟩ : ∃ ms, mapE (sampleMarker wn.1 (timeArray sr wn.2.toNat)) marks = .ok ms := by
    apply mapE_ok_of_forall
    intro m hmm
    unfold sampleMarker
    split
    · exact ⟨_, rfl⟩
    · rename_i ch
      rw [getSampled_timeArray hlast (hm _ hw ch hmm)]
      exact ⟨_, rfl⟩
  rw [hch, hms]
  exact ⟨_, rfl⟩

end QP.C20
