import QP.Model.C07
/-!
# C07 helper lemmas: the arithmetic of Python's `range(start, stop, step)`

`pyRange` (model of `range`, defined with integer floor division), sympy's step count
`ceiling((stop - start)/step)` used by `ForLoopPulseTemplate.duration / integral`, and the index
`start + Max(floor((stop - start)/step) - 1, 0)*step` used by `ForLoopPulseTemplate.final_values` (PF-09).
-/
namespace QP.C07
open QP.PT

/-- number of elements of `range(a, b, s)` -/
def rangeLen (a b s : Int) : Nat :=
  if s > 0 then ((b - a + s - 1) / s).toNat
  else if s < 0 then ((a - b + (-s) - 1) / (-s)).toNat
  else 0

/-- sympy's `ceiling((stop - start)/step)` -/
def stepCount (a b s : Int) : Int := (((b - a : Int) : Rat) / (s : Rat)).ceil

/-- sympy's `floor((stop - start)/step)` (`(stop - start) // step`) -/
def floorCount (a b s : Int) : Int := (((b - a : Int) : Rat) / (s : Rat)).floor

/-- the loop index `ForLoopPulseTemplate.final_values` substitutes (PF-09) -/
def finalIndex (a b s : Int) : Int :=
  a + (if floorCount a b s - 1 ≤ 0 then 0 else floorCount a b s - 1) * s

theorem pyRange_eq_map (a b s : Int) :
    pyRange a b s = (List.range (rangeLen a b s)).map (fun (k : Nat) => a + s * (k : Int)) := by
  unfold pyRange rangeLen
  split
  · rfl
  · split
    · rfl
    · simp

theorem pyRange_length (a b s : Int) : (pyRange a b s).length = rangeLen a b s := by
  rw [pyRange_eq_map]; simp

private theorem lt_ceildiv_iff {x s : Int} (hs : 0 < s) (k : Int) : k < (x + s - 1) / s ↔ s * k < x := by
  have h := @Int.le_ediv_iff_mul_le (k+1) (x + s - 1) s hs
  have e : (k + 1) * s = s * k + s := by rw [Int.add_mul, Int.mul_comm]; omega
  rw [e] at h
  omega

/-- the defining property of `range` for a positive step: the `k`-th element exists iff it lies before `stop` -/
theorem lt_rangeLen_iff_pos {a b s : Int} (hs : 0 < s) (k : Nat) : k < rangeLen a b s ↔ a + s * (k : Int) < b := by
  unfold rangeLen
  rw [if_pos hs, Int.lt_toNat, lt_ceildiv_iff hs]
  omega

theorem lt_rangeLen_iff_neg {a b s : Int} (hs : s < 0) (k : Nat) : k < rangeLen a b s ↔ b < a + s * (k : Int) := by
  unfold rangeLen
  have hs' : 0 < -s := by omega
  rw [if_neg (by omega), if_pos hs, Int.lt_toNat, lt_ceildiv_iff hs']
  have : -s * (k : Int) = -(s * (k : Int)) := Int.neg_mul _ _
  omega

theorem lt_stepCount_iff_pos {a b s : Int} (hs : 0 < s) (k : Int) : k < stepCount a b s ↔ a + s * k < b := by
  unfold stepCount
  rw [Rat.lt_ceil_iff, Rat.lt_div_iff (Rat.intCast_pos.mpr hs), ← Rat.intCast_mul, Rat.intCast_lt_intCast]
  have : k * s = s * k := Int.mul_comm _ _
  omega

private theorem div_neg_neg (a b s : Int) :
    ((b - a : Int) : Rat) / (s : Rat) = ((a - b : Int) : Rat) / ((-s : Int) : Rat) := by
  simp only [Rat.intCast_sub, Rat.intCast_neg, Rat.div_def]
  grind

theorem lt_stepCount_iff_neg {a b s : Int} (hs : s < 0) (k : Int) : k < stepCount a b s ↔ b < a + s * k := by
  unfold stepCount
  have hs' : 0 < -s := by omega
  rw [div_neg_neg, Rat.lt_ceil_iff, Rat.lt_div_iff (Rat.intCast_pos.mpr hs'), ← Rat.intCast_mul,
    Rat.intCast_lt_intCast]
  have : k * -s = -(s * k) := by rw [Int.mul_neg, Int.mul_comm]
  omega

private theorem nat_eq_of_lt_iff {n m : Nat} (h : ∀ k : Nat, k < n ↔ k < m) : n = m := by
  apply Nat.le_antisymm
  · apply Nat.le_of_not_lt; intro hlt; have := (h m).mp hlt; omega
  · apply Nat.le_of_not_lt; intro hlt; have := (h n).mpr hlt; omega

/-- the number of iterations is sympy's step count where that is positive, 0 otherwise -/
theorem rangeLen_eq_stepCount {a b s : Int} (hs : s ≠ 0) : rangeLen a b s = (stepCount a b s).toNat := by
  apply nat_eq_of_lt_iff
  intro k
  rw [Int.lt_toNat]
  rcases Int.lt_or_gt_of_ne hs with h | h
  · rw [lt_rangeLen_iff_neg h, lt_stepCount_iff_neg h]
  · rw [lt_rangeLen_iff_pos h, lt_stepCount_iff_pos h]

theorem pyRange_getLast? (a b s : Int) :
    (pyRange a b s).getLast? =
      if rangeLen a b s = 0 then none else some (a + s * ((rangeLen a b s : Int) - 1)) := by
  rw [pyRange_eq_map]
  generalize rangeLen a b s = n
  cases n with
  | zero => simp
  | succ m =>
    rw [List.range_succ]
    simp

theorem pyRange_head? (a b s : Int) :
    (pyRange a b s).head? = if rangeLen a b s = 0 then none else some a := by
  rw [pyRange_eq_map]
  generalize rangeLen a b s = n
  cases n with
  | zero => simp
  | succ m =>
    rw [List.range_succ_eq_map]
    simp

private theorem le_floor_div_iff {X S : Int} (hS : 0 < S) (k : Int) :
    k ≤ ((X : Rat) / (S : Rat)).floor ↔ S * k ≤ X := by
  rw [← Int.not_lt, Rat.floor_lt_iff, Rat.div_lt_iff (Rat.intCast_pos.mpr hS), ← Rat.intCast_mul,
    Rat.intCast_lt_intCast]
  have : k * S = S * k := Int.mul_comm _ _
  omega

private theorem lt_ceil_div_iff {X S : Int} (hS : 0 < S) (k : Int) :
    k < ((X : Rat) / (S : Rat)).ceil ↔ S * k < X := by
  rw [Rat.lt_ceil_iff, Rat.lt_div_iff (Rat.intCast_pos.mpr hS), ← Rat.intCast_mul, Rat.intCast_lt_intCast]
  have : k * S = S * k := Int.mul_comm _ _
  omega

/-- floor and ceiling of `X/S` for `S > 0`: they coincide iff `S ∣ X`, otherwise they differ by one -/
private theorem floor_ceil_div {X S : Int} (hS : 0 < S) :
    let f := ((X : Rat) / (S : Rat)).floor
    let c := ((X : Rat) / (S : Rat)).ceil
    (c = f ∧ S ∣ X) ∨ (c = f + 1 ∧ ¬ S ∣ X) := by
  intro f c
  have hf1 : S * f ≤ X := (le_floor_div_iff hS f).mp (Int.le_refl _)
  have hf2 : ¬ S * (f + 1) ≤ X := fun h => by
    have := (le_floor_div_iff hS (f + 1)).mpr h
    omega
  have hc1 : S * (c - 1) < X := (lt_ceil_div_iff hS (c - 1)).mp (by omega)
  have hc2 : ¬ S * c < X := fun h => by
    have := (lt_ceil_div_iff hS c).mpr h
    omega
  have e1 : S * (f + 1) = S * f + S := by rw [Int.mul_add]; omega
  have e2 : S * (c - 1) = S * c - S := by rw [Int.mul_sub]; omega
  -- f ≤ c ≤ f + 1
  have h1 : c - 1 < f + 1 := by
    apply Int.lt_of_mul_lt_mul_left (a := S) _ (Int.le_of_lt hS)
    omega
  have h2 : f ≤ c := by
    apply Int.le_of_mul_le_mul_left (a := S) _ hS
    omega
  by_cases hcf : c = f
  · left
    refine ⟨hcf, ?_⟩
    rw [hcf] at hc2
    exact ⟨f, by omega⟩
  · right
    have hc : c = f + 1 := by omega
    refine ⟨hc, ?_⟩
    rintro ⟨m, hm⟩
    have hm1 : f ≤ m := by
      apply Int.le_of_mul_le_mul_left (a := S) _ hS
      omega
    have hm2 : m < f + 1 := by
      apply Int.lt_of_mul_lt_mul_left (a := S) _ (Int.le_of_lt hS)
      omega
    have : m = f := by omega
    subst this
    have hc1' : S * f < X := by
      have : c - 1 = f := by omega
      rw [this] at hc1
      exact hc1
    omega

private theorem floor_ceil_range {a b s : Int} (hs : s ≠ 0) :
    (stepCount a b s = floorCount a b s ∧ s ∣ (b - a)) ∨
    (stepCount a b s = floorCount a b s + 1 ∧ ¬ s ∣ (b - a)) := by
  unfold stepCount floorCount
  rcases Int.lt_or_gt_of_ne hs with h | h
  · rw [div_neg_neg]
    have := floor_ceil_div (X := a - b) (S := -s) (by omega)
    have d : (-s ∣ a - b) ↔ (s ∣ b - a) := by
      rw [Int.neg_dvd, ← Int.dvd_neg]
      have : -(a - b) = b - a := by omega
      rw [this]
    simpa [d] using this
  · exact floor_ceil_div (X := b - a) (S := s) h

/-- sympy's floor count never exceeds the step count -/
theorem floorCount_le_stepCount {a b s : Int} (hs : s ≠ 0) : floorCount a b s ≤ stepCount a b s := by
  rcases floor_ceil_range (a := a) (b := b) hs with h | h <;> omega

/-- PF-09, exactly: the index used by `final_values` is the last index of a non-empty range iff the step divides
`stop - start` or the range has a single element -/
theorem finalIndex_eq_last_iff {a b s : Int} (hs : s ≠ 0) (hn : 0 < rangeLen a b s) :
    finalIndex a b s = a + s * ((rangeLen a b s : Int) - 1) ↔ (s ∣ (b - a) ∨ rangeLen a b s = 1) := by
  have hlen := rangeLen_eq_stepCount (a := a) (b := b) hs
  have hc : stepCount a b s = (rangeLen a b s : Int) := by omega
  have hfc := floor_ceil_range (a := a) (b := b) hs
  unfold finalIndex
  generalize rangeLen a b s = n at *
  generalize floorCount a b s = f at *
  have key : ∀ m : Int, (a + m * s = a + s * ((n : Int) - 1)) ↔ m = (n : Int) - 1 := by
    intro m
    constructor
    · intro h
      have h' : s * m = s * ((n : Int) - 1) := by
        have : m * s = s * m := Int.mul_comm _ _
        omega
      exact Int.eq_of_mul_eq_mul_left hs h'
    · intro h; subst h; rw [Int.mul_comm]
  rw [key]
  rcases hfc with ⟨h1, h2⟩ | ⟨h1, h2⟩
  · have : f = (n : Int) := by omega
    constructor
    · intro _; exact Or.inl h2
    · intro _; split <;> omega
  · have : f + 1 = (n : Int) := by omega
    constructor
    · intro h; right; split at h <;> omega
    · rintro (h | h)
      · exact absurd h h2
      · split <;> omega

/-- membership in `range(a, b, s)`: exactly the `a + s*k` (`k = 0, 1, …`) before `stop` -/
theorem mem_pyRange_iff {a b s : Int} (hs : s ≠ 0) (x : Int) :
    x ∈ pyRange a b s ↔ ∃ k : Nat, x = a + s * (k : Int) ∧ (if 0 < s then x < b else b < x) := by
  rw [pyRange_eq_map]
  simp only [List.mem_map, List.mem_range]
  rcases Int.lt_or_gt_of_ne hs with h | h
  · have hn : ¬ 0 < s := by omega
    simp only [hn, if_false]
    constructor
    · rintro ⟨k, hk, rfl⟩; exact ⟨k, rfl, (lt_rangeLen_iff_neg h k).mp hk⟩
    · rintro ⟨k, rfl, hk⟩; exact ⟨k, (lt_rangeLen_iff_neg h k).mpr hk, rfl⟩
  · simp only [h, if_true]
    constructor
    · rintro ⟨k, hk, rfl⟩; exact ⟨k, rfl, (lt_rangeLen_iff_pos h k).mp hk⟩
    · rintro ⟨k, rfl, hk⟩; exact ⟨k, (lt_rangeLen_iff_pos h k).mpr hk, rfl⟩

theorem le_floorCount_iff_pos {a b s : Int} (hs : 0 < s) (k : Int) : k ≤ floorCount a b s ↔ s * k ≤ b - a := by
  unfold floorCount; exact le_floor_div_iff hs k

theorem le_floorCount_iff_neg {a b s : Int} (hs : s < 0) (k : Int) : k ≤ floorCount a b s ↔ b - a ≤ s * k := by
  unfold floorCount
  rw [div_neg_neg, le_floor_div_iff (by omega : 0 < -s)]
  have : -s * k = -(s * k) := Int.neg_mul _ _
  omega

end QP.C07
