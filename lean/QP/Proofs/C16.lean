import QP.Model.C16
/-! Helper lemmas for C16 (core Lean only). -/
namespace QP.C16

/-! ### `repeatL` -/

@[simp] theorem repeatL_zero {α} (xs : List α) : repeatL 0 xs = [] := by simp [repeatL]

theorem repeatL_succ {α} (n : Nat) (xs : List α) : repeatL (n + 1) xs = xs ++ repeatL n xs := by
  simp [repeatL, List.replicate_succ]

theorem repeatL_succ' {α} (n : Nat) (xs : List α) : repeatL (n + 1) xs = repeatL n xs ++ xs := by
  induction n with
  | zero => simp [repeatL]
  | succ k ih =>
    conv => lhs; rw [repeatL_succ, ih]
    rw [repeatL_succ k]; simp

@[simp] theorem repeatL_one {α} (xs : List α) : repeatL 1 xs = xs := by simp [repeatL]

theorem repeatL_flatMap {α β} (n : Nat) (xs : List α) (f : α → List β) :
    (repeatL n xs).flatMap f = repeatL n (xs.flatMap f) := by
  induction n with
  | zero => simp
  | succ k ih => simp [repeatL_succ, List.flatMap_append, ih]

theorem length_repeatL {α} (n : Nat) (xs : List α) : (repeatL n xs).length = n * xs.length := by
  induction n with
  | zero => simp
  | succ k ih => simp [repeatL_succ, ih, Nat.succ_mul]; omega

theorem repeatL_pred_append {α} (n : Nat) (xs : List α) (h : 0 < n) :
    repeatL (n - 1) xs ++ xs = repeatL n xs := by
  obtain ⟨k, rfl⟩ : ∃ k, n = k + 1 := ⟨n - 1, by omega⟩
  simp [repeatL_succ']

theorem append_repeatL_pred {α} (n : Nat) (xs : List α) (h : 0 < n) :
    xs ++ repeatL (n - 1) xs = repeatL n xs := by
  obtain ⟨k, rfl⟩ : ∃ k, n = k + 1 := ⟨n - 1, by omega⟩
  simp [repeatL_succ]

/-! ### play of entries and tables -/

@[simp] theorem playEntries_nil : playEntries [] = [] := rfl
@[simp] theorem playEntries_cons (e : Entry) (es : List Entry) :
    playEntries (e :: es) = e.play ++ playEntries es := by simp [playEntries]
@[simp] theorem playEntries_append (xs ys : List Entry) :
    playEntries (xs ++ ys) = playEntries xs ++ playEntries ys := by simp [playEntries]

@[simp] theorem playProg_nil : playProg [] = [] := rfl
@[simp] theorem playProg_cons (t : SeqTab) (p : Prog) : playProg (t :: p) = t.play ++ playProg p := by
  simp [playProg]
@[simp] theorem playProg_append (p q : Prog) : playProg (p ++ q) = playProg p ++ playProg q := by
  simp [playProg]

theorem playEntries_repeatL (n : Nat) (es : List Entry) :
    playEntries (repeatL n es) = repeatL n (playEntries es) := by
  simp [playEntries, repeatL_flatMap]

@[simp] theorem entrySum_nil : entrySum [] = 0 := rfl
@[simp] theorem entrySum_cons (e : Entry) (es : List Entry) : entrySum (e :: es) = e.rep + entrySum es := by
  simp [entrySum]
@[simp] theorem entrySum_append (xs ys : List Entry) : entrySum (xs ++ ys) = entrySum xs + entrySum ys := by
  simp [entrySum]

theorem entrySum_repeatL (n : Nat) (es : List Entry) : entrySum (repeatL n es) = n * entrySum es := by
  induction n with
  | zero => simp
  | succ k ih => simp [repeatL_succ, ih, Nat.succ_mul]; omega

/-- the unrolled table plays what the repeated table played -/
theorem unrollChildren_play (t : SeqTab) : (unrollChildren t).play = t.play := by
  simp [unrollChildren, SeqTab.play, playEntries_repeatL]

/-! ### `split_one_child` -/

theorem splitLast_spec (p : Entry → Bool) (hp : ∀ e, p e = true → 1 < e.rep) :
    ∀ es es', splitLast p es = some es' →
      playEntries es' = playEntries es ∧ es'.length = es.length + 1 ∧ entrySum es' = entrySum es := by
  intro es
  induction es with
  | nil => intro es' h; simp [splitLast] at h
  | cons e es ih =>
    intro es' h
    simp only [splitLast] at h
    split at h
    · rename_i es'' heq
      cases h
      obtain ⟨h1, h2, h3⟩ := ih es'' heq
      simp [h1, h2, h3]
    · split at h
      · rename_i hpe
        cases h
        have := hp e hpe
        refine ⟨?_, by simp, by simp; omega⟩
        simp only [playEntries_cons, Entry.play]
        rw [← List.append_assoc, List.replicate_append_replicate]
        congr 2; omega
      · cases h

theorem splitLast_none (p : Entry → Bool) : ∀ es, splitLast p es = none → ∀ e ∈ es, p e = false := by
  intro es
  induction es with
  | nil => intro _ e he; cases he
  | cons x xs ih =>
    intro h e he
    simp only [splitLast] at h
    split at h
    · cases h
    · rename_i hnone
      split at h
      · cases h
      · rename_i hpx
        cases he with
        | head => simpa using hpx
        | tail _ hmem => exact ih hnone e hmem

theorem splitOneChild_ok (es es' : List Entry) (h : splitOneChild es = .ok es') :
    playEntries es' = playEntries es ∧ es'.length = es.length + 1 ∧ entrySum es' = entrySum es := by
  simp only [splitOneChild] at h
  split at h
  · rename_i r heq
    cases h
    exact splitLast_spec _ (by intro e he; simp at he; exact he.1) _ _ heq
  · split at h
    · rename_i r heq
      cases h
      exact splitLast_spec _ (by intro e he; simpa using he) _ _ heq
    · cases h

/-- `split_one_child` raises only if every child has repetition count ≤ 1 -/
theorem splitOneChild_error (es : List Entry) (e : Err) (h : splitOneChild es = .error e) :
    e = .runtime ∧ ∀ x ∈ es, x.rep ≤ 1 := by
  simp only [splitOneChild] at h
  split at h
  · cases h
  · split at h
    · cases h
    · rename_i hn
      cases h
      refine ⟨rfl, ?_⟩
      intro x hx
      have := splitLast_none _ _ hn x hx
      simpa using this

theorem entrySum_le_length (es : List Entry) (h : ∀ x ∈ es, x.rep ≤ 1) : entrySum es ≤ es.length := by
  induction es with
  | nil => simp
  | cons x xs ih =>
    have h1 := h x (by simp)
    have h2 := ih (fun y hy => h y (by simp [hy]))
    simp; omega

theorem splitWhile_ok (min : Nat) : ∀ (fuel : Nat) (es es' : List Entry), splitWhile min fuel es = .ok es' →
    playEntries es' = playEntries es ∧ min ≤ es'.length ∧ entrySum es' = entrySum es ∧
      (min ≤ es.length → es' = es) := by
  intro fuel
  induction fuel with
  | zero =>
    intro es es' h
    simp only [splitWhile] at h
    split at h
    · cases h; simp [*]
    · cases h
  | succ f ih =>
    intro es es' h
    simp only [splitWhile] at h
    split at h
    · cases h; simp [*]
    · rename_i hlt
      split at h
      · cases h
      · rename_i es1 h1
        obtain ⟨a1, a2, a3⟩ := splitOneChild_ok _ _ h1
        obtain ⟨b1, b2, b3, _⟩ := ih es1 es' h
        exact ⟨by rw [b1, a1], b2, by rw [b3, a3], fun hh => absurd hh hlt⟩

/-- with `min - len ≤ fuel` the loop ends; it raises only if the counts do not add up to `min` -/
theorem splitWhile_error (min : Nat) : ∀ (fuel : Nat) (es : List Entry) (e : Err),
    min - es.length ≤ fuel → splitWhile min fuel es = .error e → e = .runtime ∧ entrySum es < min := by
  intro fuel
  induction fuel with
  | zero =>
    intro es e hf h
    simp only [splitWhile] at h
    split at h
    · cases h
    · omega
  | succ f ih =>
    intro es e hf h
    simp only [splitWhile] at h
    split at h
    · cases h
    · rename_i hlt
      split at h
      · rename_i e1 h1
        cases h
        obtain ⟨rfl, hall⟩ := splitOneChild_error _ _ h1
        exact ⟨rfl, by have := entrySum_le_length es hall; omega⟩
      · rename_i es1 h1
        obtain ⟨_, a2, a3⟩ := splitOneChild_ok _ _ h1
        obtain ⟨c1, c2⟩ := ih es1 e (by omega) h
        exact ⟨c1, by omega⟩

/-! ### `_check_partial_unroll` -/

theorem partialUnroll_some (L : Limits) (t t' : SeqTab) (h : partialUnroll L t = .ok (some t')) :
    t'.play = t.play ∧ L.min ≤ t'.entries.length ∧ (1 ≤ t.rep → t'.rep ≤ t.rep) := by
  simp only [partialUnroll] at h
  split at h
  · cases h
  · split at h
    · split at h
      · cases h
      · rename_i es hes
        cases h
        obtain ⟨h1, h2, _, _⟩ := splitWhile_ok _ _ _ _ hes
        refine ⟨?_, h2, ?_⟩
        · split
          · rename_i hlt
            simp only [hlt, if_true] at h1
            rw [← unrollChildren_play t]
            simp only [SeqTab.play, h1, unrollChildren]
          · rename_i hlt
            simp only [hlt, if_false] at h1
            simp only [SeqTab.play, h1]
        · intro hr
          split
          · simp [unrollChildren]; exact hr
          · exact Nat.le_refl _
    · cases h

/-- `_check_partial_unroll` never raises: the `RuntimeError` of `split_one_child` is unreachable -/
theorem partialUnroll_no_error (L : Limits) (t : SeqTab) (e : Err) : partialUnroll L t ≠ .error e := by
  intro h
  simp only [partialUnroll] at h
  split at h
  · cases h
  · split at h
    · rename_i hsum
      split at h
      · rename_i e' hes
        obtain ⟨_, hlt⟩ := splitWhile_error _ _ _ _ (by omega) hes
        split at hlt
        · simp only [unrollChildren, entrySum_repeatL] at hlt
          rw [Nat.mul_comm] at hlt
          omega
        · omega
      · cases h
    · cases h

/-! ### the neighbour operations -/

theorem mergeTabs_play (L : Limits) (a b : SeqTab) (h : mergeOk L a b = true) :
    (mergeTabs a b).play = a.play ++ b.play := by
  simp only [mergeOk, Bool.and_eq_true, beq_iff_eq, decide_eq_true_eq] at h
  obtain ⟨⟨ha, hb⟩, _⟩ := h
  simp [mergeTabs, SeqTab.play, ha, hb]

@[simp] theorem progWeight_nil : progWeight [] = 0 := rfl
@[simp] theorem progWeight_cons (t : SeqTab) (p : Prog) : progWeight (t :: p) = t.rep + progWeight p := by
  simp [progWeight]
@[simp] theorem progWeight_append (p q : Prog) : progWeight (p ++ q) = progWeight p + progWeight q := by
  simp [progWeight]
@[simp] theorem progWeight_reverse (p : Prog) : progWeight p.reverse = progWeight p := by
  induction p with
  | nil => rfl
  | cons t p ih => simp [ih]; omega

/-- what one successful iteration guarantees: same play order, every finished table is long enough,
the weight `Σ rep + tables ahead` drops -/
def StepPost (L : Limits) (d : List SeqTab) (c : SeqTab) (r : List SeqTab) (d' r' : List SeqTab) : Prop :=
  playProg (d'.reverse ++ r') = playProg (d.reverse ++ c :: r) ∧
  ((∀ t ∈ d, L.min ≤ t.entries.length) → ∀ t ∈ d', L.min ≤ t.entries.length) ∧
  progWeight d' + progWeight r' + r'.length < progWeight d + progWeight (c :: r) + (c :: r).length

theorem mergePrev_post (L : Limits) (d : List SeqTab) (c : SeqTab) (r d' : List SeqTab)
    (h : mergePrev L d c = some d') : StepPost L d c r d' r := by
  cases d with
  | nil => simp [mergePrev] at h
  | cons p d =>
    simp only [mergePrev] at h
    split at h
    · rename_i hok
      cases h
      have hp := mergeTabs_play L p c hok
      simp only [mergeOk, Bool.and_eq_true, beq_iff_eq, decide_eq_true_eq] at hok
      refine ⟨?_, ?_, ?_⟩
      · simp [hp]
      · intro hall t ht
        cases ht with
        | head => have := hall p (by simp); simp [mergeTabs]; omega
        | tail _ hm => exact hall t (List.mem_cons_of_mem _ hm)
      · simp [mergeTabs]; omega
    · cases h

theorem mergeNext_post (L : Limits) (d : List SeqTab) (c : SeqTab) (r r' : List SeqTab)
    (h : mergeNext L c r = some r') : StepPost L d c r d r' := by
  cases r with
  | nil => simp [mergeNext] at h
  | cons nx r =>
    simp only [mergeNext] at h
    split at h
    · rename_i hok
      cases h
      have hp := mergeTabs_play L c nx hok
      simp only [mergeOk, Bool.and_eq_true, beq_iff_eq, decide_eq_true_eq] at hok
      refine ⟨?_, fun hall => hall, ?_⟩
      · simp [hp]
      · simp [mergeTabs]; omega
    · cases h

theorem unrollPrev_post (L : Limits) (d : List SeqTab) (c : SeqTab) (r d' : List SeqTab) (c' : SeqTab)
    (hc : c.rep = 1) (h : unrollPrev L d c = some (d', c')) : StepPost L d c r d' (c' :: r) := by
  cases d with
  | nil => simp [unrollPrev] at h
  | cons p d =>
    simp only [unrollPrev] at h
    split at h
    · rename_i hok
      cases h
      refine ⟨?_, ?_, ?_⟩
      · simp only [List.reverse_cons, List.append_assoc, List.singleton_append, playProg_append,
          playProg_cons, SeqTab.play, hc, repeatL_one, playEntries_append]
        rw [← repeatL_pred_append p.rep _ (by omega)]
        simp
      · intro hall t ht
        cases ht with
        | head => exact hall p (by simp)
        | tail _ hm => exact hall t (List.mem_cons_of_mem _ hm)
      · simp; omega
    · cases h

theorem unrollNext_post (L : Limits) (d : List SeqTab) (c : SeqTab) (r r' : List SeqTab)
    (hc : c.rep = 1) (h : unrollNext L c r = some r') : StepPost L d c r d r' := by
  cases r with
  | nil => simp [unrollNext] at h
  | cons nx r =>
    simp only [unrollNext] at h
    split at h
    · rename_i hok
      cases h
      refine ⟨?_, fun hall => hall, ?_⟩
      · simp only [playProg_append, playProg_cons, SeqTab.play, hc, repeatL_one, playEntries_append]
        rw [← append_repeatL_pred nx.rep _ (by omega)]
        simp
      · simp; omega
    · cases h

theorem advance_post (L : Limits) (d : List SeqTab) (c c' : SeqTab) (r : List SeqTab)
    (hplay : c'.play = c.play) (hlen : L.min ≤ c'.entries.length) (hrep : c'.rep ≤ c.rep) :
    StepPost L d c r (c' :: d) r := by
  refine ⟨?_, ?_, ?_⟩
  · simp [hplay]
  · intro hall t ht
    cases ht with
    | head => exact hlen
    | tail _ hm => exact hall t hm
  · simp; omega

theorem step_post (L : Limits) (d : List SeqTab) (c : SeqTab) (r d' r' : List SeqTab)
    (h : step L d c r = .ok (d', r')) : StepPost L d c r d' r' := by
  simp only [step] at h
  split at h
  · cases h
  · split at h
    · split at h
      · cases h
      · rename_i hr0
        split at h
        · rename_i hr1
          split at h
          · rename_i d1 h1
            cases h
            exact mergePrev_post L d c r _ h1
          · split at h
            · rename_i r1 h2
              cases h
              exact mergeNext_post L d c r _ h2
            · split at h
              · cases h
              · rename_i c1 h3
                cases h
                obtain ⟨a1, a2, a3⟩ := partialUnroll_some L c c1 h3
                exact advance_post L d c c1 r a1 a2 (a3 (by omega))
              · split at h
                · rename_i d1 c1 h4
                  cases h
                  exact unrollPrev_post L d c r _ _ hr1 h4
                · split at h
                  · rename_i r1 h5
                    cases h
                    exact unrollNext_post L d c r _ hr1 h5
                  · cases h
        · split at h
          · cases h
          · rename_i c1 h3
            cases h
            obtain ⟨a1, a2, a3⟩ := partialUnroll_some L c c1 h3
            exact advance_post L d c c1 r a1 a2 (a3 (by omega))
          · cases h
    · rename_i h1 h2
      cases h
      exact advance_post L d c c r rfl (by omega) (Nat.le_refl _)

/-- the only exceptions an iteration can raise -/
theorem step_error (L : Limits) (d : List SeqTab) (c : SeqTab) (r : List SeqTab) (e : Err)
    (h : step L d c r = .error e) :
    (e = .tooLong ∧ L.max < c.entries.length) ∨
    (e = .tooShort ∧ c.entries.length < L.min) ∨
    (e = .assertion ∧ c.rep = 0) := by
  simp only [step] at h
  split at h
  · rename_i hl; cases h; exact .inl ⟨rfl, hl⟩
  · split at h
    · rename_i hs
      split at h
      · rename_i h0; cases h; exact .inr (.inr ⟨rfl, h0⟩)
      · split at h
        · split at h
          · cases h
          · split at h
            · cases h
            · split at h
              · rename_i e' he; exact absurd he (partialUnroll_no_error L c e')
              · cases h
              · split at h
                · cases h
                · split at h
                  · cases h
                  · cases h; exact .inr (.inl ⟨rfl, hs⟩)
        · split at h
          · rename_i e' he; exact absurd he (partialUnroll_no_error L c e')
          · cases h
          · cases h; exact .inr (.inl ⟨rfl, hs⟩)
    · cases h

/-! ### the loop -/

theorem prepareLoop_ok (L : Limits) : ∀ (n : Nat) (d r : List SeqTab) (p' : Prog),
    prepareLoop L n d r = .ok p' →
    playProg p' = playProg (d.reverse ++ r) ∧
    ((∀ t ∈ d, L.min ≤ t.entries.length) → ∀ t ∈ p', L.min ≤ t.entries.length) := by
  intro n
  induction n with
  | zero =>
    intro d r p' h
    cases r with
    | nil =>
      simp only [prepareLoop] at h; cases h
      exact ⟨by simp, fun hall t ht => hall t (by simpa using ht)⟩
    | cons c r => simp [prepareLoop] at h
  | succ n ih =>
    intro d r p' h
    cases r with
    | nil =>
      simp only [prepareLoop] at h; cases h
      exact ⟨by simp, fun hall t ht => hall t (by simpa using ht)⟩
    | cons c r =>
      simp only [prepareLoop] at h
      split at h
      · cases h
      · rename_i d1 r1 hs
        obtain ⟨s1, s2, _⟩ := step_post L d c r d1 r1 hs
        obtain ⟨i1, i2⟩ := ih d1 r1 p' h
        exact ⟨by rw [i1, s1], fun hall => i2 (s2 hall)⟩

theorem prepareLoop_error (L : Limits) : ∀ (n : Nat) (d r : List SeqTab) (e : Err) (p' : Prog),
    prepareLoop L n d r = .error (e, p') → playProg p' = playProg (d.reverse ++ r) := by
  intro n
  induction n with
  | zero =>
    intro d r e p' h
    cases r with
    | nil => simp [prepareLoop] at h
    | cons c r => simp only [prepareLoop] at h; cases h; rfl
  | succ n ih =>
    intro d r e p' h
    cases r with
    | nil => simp [prepareLoop] at h
    | cons c r =>
      simp only [prepareLoop] at h
      split at h
      · cases h; rfl
      · rename_i d1 r1 hs
        obtain ⟨s1, _, _⟩ := step_post L d c r d1 r1 hs
        rw [ih d1 r1 e p' h, s1]

/-- with fuel above the weight the loop ends by itself -/
theorem prepareLoop_fuel (L : Limits) : ∀ (n : Nat) (d r : List SeqTab) (p' : Prog),
    progWeight d + progWeight r + r.length < n → prepareLoop L n d r ≠ .error (.fuel, p') := by
  intro n
  induction n with
  | zero => intro d r p' h; omega
  | succ n ih =>
    intro d r p' hw h
    cases r with
    | nil => simp [prepareLoop] at h
    | cons c r =>
      simp only [prepareLoop] at h
      split at h
      · rename_i e he
        cases h
        rcases step_error L d c r _ he with ⟨h1, _⟩ | ⟨h1, _⟩ | ⟨h1, _⟩ <;> cases h1
      · rename_i d1 r1 hs
        obtain ⟨_, _, s3⟩ := step_post L d c r d1 r1 hs
        exact ih d1 r1 p' (by omega) h

/-- the error classes `prepare` can end with when it has enough fuel -/
theorem prepareLoop_error_class (L : Limits) : ∀ (n : Nat) (d r : List SeqTab) (e : Err) (p' : Prog),
    prepareLoop L n d r = .error (e, p') → e = .tooLong ∨ e = .tooShort ∨ e = .assertion ∨ e = .fuel := by
  intro n
  induction n with
  | zero =>
    intro d r e p' h
    cases r with
    | nil => simp [prepareLoop] at h
    | cons c r => simp only [prepareLoop] at h; cases h; simp
  | succ n ih =>
    intro d r e p' h
    cases r with
    | nil => simp [prepareLoop] at h
    | cons c r =>
      simp only [prepareLoop] at h
      split at h
      · rename_i e' he
        cases h
        rcases step_error L d c r _ he with ⟨h1, _⟩ | ⟨h1, _⟩ | ⟨h1, _⟩ <;> simp [h1]
      · exact ih _ _ e p' h

end QP.C16
