import QP.Model.PT
import QP.Proofs.PTSample
import Mathlib.Tactic.Ring
import Mathlib.Tactic.Linarith
import Mathlib.Data.List.Perm.Basic
/-! The relation between the items a template compiles to and the pulse it denotes, and its preservation
by the builder operations (sequence guard, repetition). -/
namespace QP.PT

/-! ### shape of item lists -/

/-- every `measure` item is immediately followed by a `node` item -/
inductive Blocks : List Item → Prop
  | nil : Blocks []
  | node (l : Loop) {rest : List Item} : Blocks rest → Blocks (.node l :: rest)
  | meas (ms : List Window) (l : Loop) {rest : List Item} : Blocks rest → Blocks (.measure ms :: .node l :: rest)

theorem Blocks.append {a b : List Item} (ha : Blocks a) (hb : Blocks b) : Blocks (a ++ b) := by
  induction ha with
  | nil => simpa using hb
  | node l _ ih => exact Blocks.node l ih
  | meas ms l _ ih => exact Blocks.meas ms l ih

theorem Blocks.eq_nil {a : List Item} (ha : Blocks a) (h : nodesOf a = []) : a = [] := by
  cases ha with
  | nil => rfl
  | node l _ => simp [nodesOf] at h
  | meas ms l _ => simp [nodesOf] at h

theorem nodesOf_guardRun (its : List Item) : ∀ pend, nodesOf (guardRun pend its) = nodesOf its := by
  induction its with
  | nil => intro pend; simp [guardRun, nodesOf]
  | cons x xs ih =>
    intro pend
    cases x with
    | measure m => simp [guardRun, nodesOf, ih]
    | node l =>
      by_cases hp : pend.isEmpty
      · simp [guardRun, nodesOf, ih, hp]
      · simp [guardRun, nodesOf, ih, hp]

theorem guardRun_blocks {its : List Item} (h : Blocks its) : ∀ pend, Blocks (guardRun pend its) := by
  induction h with
  | nil => intro pend; simp [guardRun]; exact Blocks.nil
  | node l _ ih =>
    intro pend
    by_cases hp : pend.isEmpty
    · simp only [guardRun, hp, if_true, List.nil_append]; exact Blocks.node l (ih [])
    · simp only [guardRun, hp]; exact Blocks.meas pend l (ih [])
  | meas ms l _ ih =>
    intro pend
    by_cases hp : (pend ++ ms).isEmpty
    · simp only [guardRun, hp, if_true, List.nil_append]; exact Blocks.node l (ih [])
    · simp only [guardRun, hp]; exact Blocks.meas (pend ++ ms) l (ih [])

theorem itemsWindows_guardRun_node (pend : List Window) (l : Loop) (rest : List Item) (off : Rat) :
    itemsWindows (guardRun pend (.node l :: rest)) off =
      pend.map (shiftW off) ++ (l.windows.map (shiftW off) ++ itemsWindows (guardRun [] rest) (off + l.duration)) := by
  by_cases hp : pend.isEmpty
  · have : pend = [] := by simpa using hp
    subst this
    simp [guardRun, itemsWindows]
  · simp [guardRun, itemsWindows, hp]

theorem itemsWindows_guardRun {its : List Item} (h : Blocks its) : ∀ (pend : List Window) (off : Rat),
    itemsWindows (guardRun pend its) off =
      (if its = [] then [] else pend.map (shiftW off)) ++ itemsWindows its off := by
  induction h with
  | nil => intro pend off; simp [guardRun, itemsWindows]
  | @node l rest _ ih =>
    intro pend off
    rw [itemsWindows_guardRun_node, ih [] (off + l.duration)]
    simp [itemsWindows]
  | @meas ms l rest _ ih =>
    intro pend off
    have : guardRun pend (.measure ms :: .node l :: rest) = guardRun (pend ++ ms) (.node l :: rest) := by
      simp [guardRun]
    rw [this, itemsWindows_guardRun_node, ih [] (off + l.duration)]
    simp [itemsWindows]

/-! ### the relation -/

structure Rel (items : List Item) (P : Pulse) : Prop where
  blocks : Blocks items
  empty : nodesOf items = [] ↔ P.chans = []
  dur : Loop.durationList (nodesOf items) = P.dur
  plDur : ∀ c pl, P.chans.lookup c = some pl → PL.dur pl = P.dur
  plPos : ∀ c pl, P.chans.lookup c = some pl → pl.pos
  sample : ∀ c pl, P.chans.lookup c = some pl → ∀ t, 0 ≤ t → t < P.dur →
    Loop.sampleList (nodesOf items) c t = PL.at pl t
  windows : (itemsWindows items 0).Perm P.windows
  chans : ∀ cs ∈ Loop.leafChannelsList (nodesOf items), ∀ x, x ∈ cs ↔ x ∈ P.chanNames

theorem leafChannelsList_append (a b : List Loop) :
    Loop.leafChannelsList (a ++ b) = Loop.leafChannelsList a ++ Loop.leafChannelsList b := by
  induction a with
  | nil => simp [Loop.leafChannelsList]
  | cons x xs ih => simp [Loop.leafChannelsList, ih]

theorem Rel.nil : Rel [] Pulse.empty where
  blocks := Blocks.nil
  empty := by simp [nodesOf, Pulse.empty]
  dur := by simp [nodesOf, Loop.durationList, Pulse.empty]
  plDur := by intro c pl h; simp [Pulse.empty] at h
  plPos := by intro c pl h; simp [Pulse.empty] at h
  sample := by intro c pl h; simp [Pulse.empty] at h
  windows := by simp [itemsWindows, Pulse.empty]
  chans := by intro cs h; simp [nodesOf, Loop.leafChannelsList] at h

theorem Rel.items_nil {items : List Item} {P : Pulse} (h : Rel items P) (he : P.chans = []) : items = [] :=
  h.blocks.eq_nil (h.empty.mpr he)

theorem lookup_map_snd {β γ : Type} (l : List (String × β)) (f : String → β → γ) (c : String) :
    (l.map (fun (x : String × β) => (x.1, f x.1 x.2))).lookup c = (l.lookup c).map (f c) := by
  induction l with
  | nil => simp
  | cons x xs ih =>
    obtain ⟨k, v⟩ := x
    simp only [List.map_cons, List.lookup_cons]
    by_cases hk : c == k
    · have : c = k := by simpa using hk
      subst this
      simp
    · simp [hk, ih]

theorem lookup_some_of_mem_keys {β : Type} (l : List (String × β)) (c : String)
    (h : c ∈ l.map (·.1)) : ∃ v, l.lookup c = some v := by
  induction l with
  | nil => simp at h
  | cons x xs ih =>
    obtain ⟨k, v⟩ := x
    simp only [List.lookup_cons]
    by_cases hk : c == k
    · exact ⟨v, by simp [hk]⟩
    · simp only [hk]
      apply ih
      simp only [List.map_cons, List.mem_cons] at h
      rcases h with h | h
      · subst h; simp at hk
      · exact h

theorem mem_keys_of_lookup {β : Type} (l : List (String × β)) (c : String) (v : β)
    (h : l.lookup c = some v) : c ∈ l.map (·.1) := by
  induction l with
  | nil => simp at h
  | cons x xs ih =>
    obtain ⟨k, w⟩ := x
    simp only [List.lookup_cons] at h
    by_cases hk : c == k
    · have : c = k := by simpa using hk
      simp [this]
    · simp only [hk] at h
      simp [ih h]

theorem Rel.append {a b : List Item} {Pa Pb P : Pulse} (ha : Rel a Pa) (hb : Rel b Pb)
    (hpos : Loop.allPosList (nodesOf a)) (hP : Pa.append Pb = .ok P) : Rel (a ++ b) P := by
  unfold Pulse.append at hP
  by_cases h1 : Pa.isEmpty
  · simp only [h1, if_true] at hP
    cases hP
    have : a = [] := ha.items_nil (by simpa [Pulse.isEmpty] using h1)
    subst this
    simpa using hb
  · simp only [h1] at hP
    by_cases h2 : Pb.isEmpty
    · simp only [h2, if_true] at hP
      cases hP
      have : b = [] := hb.items_nil (by simpa [Pulse.isEmpty] using h2)
      subst this
      simpa using ha
    · simp only [h2] at hP
      by_cases h3 : sameSet Pa.chanNames Pb.chanNames
      · simp only [h3] at hP
        simp only [Bool.not_true, Bool.false_eq_true, if_false] at hP
        cases hP
        have hne_a : Pa.chans ≠ [] := by simpa [Pulse.isEmpty] using h1
        have hlook : ∀ c, ((Pa.chans.map (fun (x : Chan × PL) => (x.1, x.2 ++ ((Pb.chans.lookup x.1).getD [])))).lookup c)
            = (Pa.chans.lookup c).map (fun pl => pl ++ ((Pb.chans.lookup c).getD [])) := by
          intro c
          exact lookup_map_snd Pa.chans (fun k pl => pl ++ ((Pb.chans.lookup k).getD [])) c
        have hb_of_a : ∀ c pla, Pa.chans.lookup c = some pla → ∃ plb, Pb.chans.lookup c = some plb := by
          intro c pla hc
          have hmem := mem_keys_of_lookup _ _ _ hc
          simp only [sameSet, Bool.and_eq_true, List.all_eq_true] at h3
          have := h3.1 c (by simpa [Pulse.chanNames] using hmem)
          apply lookup_some_of_mem_keys
          simpa [Pulse.chanNames] using this
        have hnn := allPosList_nonneg hpos
        refine ⟨ha.blocks.append hb.blocks, ?_, ?_, ?_, ?_, ?_, ?_, ?_⟩
        · simp only [nodesOf_append, List.append_eq_nil_iff, List.map_eq_nil_iff]
          constructor
          · intro h; exact absurd (ha.empty.mp h.1) hne_a
          · intro h; exact absurd h hne_a
        · simp only [nodesOf_append, durationList_append, ha.dur, hb.dur]
        · intro c pl hc
          simp only [hlook] at hc
          cases hca : Pa.chans.lookup c with
          | none => simp [hca] at hc
          | some pla =>
            obtain ⟨plb, hcb⟩ := hb_of_a c pla hca
            simp only [hca, hcb, Option.map_some, Option.getD_some, Option.some.injEq] at hc
            subst hc
            rw [PL.dur_append, ha.plDur c pla hca, hb.plDur c plb hcb]
        · intro c pl hc
          simp only [hlook] at hc
          cases hca : Pa.chans.lookup c with
          | none => simp [hca] at hc
          | some pla =>
            obtain ⟨plb, hcb⟩ := hb_of_a c pla hca
            simp only [hca, hcb, Option.map_some, Option.getD_some, Option.some.injEq] at hc
            subst hc
            exact PL.pos_append (ha.plPos c pla hca) (hb.plPos c plb hcb)
        · intro c pl hc t ht0 ht
          simp only [hlook] at hc
          cases hca : Pa.chans.lookup c with
          | none => simp [hca] at hc
          | some pla =>
            obtain ⟨plb, hcb⟩ := hb_of_a c pla hca
            simp only [hca, hcb, Option.map_some, Option.getD_some, Option.some.injEq] at hc
            subst hc
            rw [nodesOf_append]
            by_cases hlt : t < Pa.dur
            · rw [sampleList_append_left _ _ _ _ ht0 (by rw [ha.dur]; exact hlt)]
              rw [PL.at_append_left _ _ _ ht0 (by rw [ha.plDur c pla hca]; exact hlt)]
              exact ha.sample c pla hca t ht0 hlt
            · have hge : Pa.dur ≤ t := not_lt.mp hlt
              rw [sampleList_append_right _ _ _ _ hnn (by rw [ha.dur]; exact hge)]
              rw [PL.at_append_right _ _ _ (ha.plPos c pla hca) (by rw [ha.plDur c pla hca]; exact hge)]
              rw [ha.dur, ha.plDur c pla hca]
              exact hb.sample c plb hcb (t - Pa.dur) (by linarith) (by linarith)
        · rw [itemsWindows_append, itemsWindows_shift b, ha.dur]
          simp only [zero_add]
          exact List.Perm.append ha.windows (List.Perm.map _ hb.windows)
        · intro cs hcs x
          have hnames : ∀ y, y ∈ Pulse.chanNames
              { dur := Pa.dur + Pb.dur,
                chans := Pa.chans.map (fun (x : Chan × PL) => (x.1, x.2 ++ ((Pb.chans.lookup x.1).getD []))),
                windows := Pa.windows ++ Pb.windows.map (shiftW Pa.dur) } ↔ y ∈ Pa.chanNames := by
            intro y; simp [Pulse.chanNames, List.map_map, Function.comp_def]
          rw [hnames]
          rw [nodesOf_append, leafChannelsList_append, List.mem_append] at hcs
          rcases hcs with hcs | hcs
          · exact ha.chans cs hcs x
          · rw [hb.chans cs hcs x]
            simp only [sameSet, Bool.and_eq_true, List.all_eq_true] at h3
            constructor
            · intro hx; simpa using h3.2 x hx
            · intro hx; simpa using h3.1 x hx
      · simp [h3] at hP

theorem Rel.guard {its : List Item} {p : Pulse} (h : Rel its p) (ms : List Window) :
    Rel (guardRun ms its) (p.withOwn ms) := by
  unfold Pulse.withOwn
  by_cases he : p.isEmpty
  · simp only [he, if_true]
    have : its = [] := h.items_nil (by simpa [Pulse.isEmpty] using he)
    subst this
    simpa [guardRun] using h
  · simp only [he]
    have hne : its ≠ [] := by
      intro h0; subst h0
      have := h.empty.mp (by simp [nodesOf])
      simp [Pulse.isEmpty, this] at he
    refine ⟨guardRun_blocks h.blocks ms, ?_, ?_, ?_, ?_, ?_, ?_, ?_⟩
    · rw [nodesOf_guardRun]; exact h.empty
    · rw [nodesOf_guardRun]; exact h.dur
    · exact h.plDur
    · exact h.plPos
    · intro c pl hc t ht0 ht
      rw [nodesOf_guardRun]
      exact h.sample c pl hc t ht0 ht
    · rw [itemsWindows_guardRun h.blocks]
      simp only [hne, if_false, map_shiftW_zero]
      exact List.Perm.append_left _ h.windows
    · rw [nodesOf_guardRun]
      exact h.chans

theorem repeatWindows_perm {ws ws' : List Window} (h : ws.Perm ws') (n : Nat) (d : Rat) :
    (repeatWindows ws n d).Perm (repeatWindows ws' n d) := by
  unfold repeatWindows
  exact List.Perm.flatMap_left _ (fun k _ => List.Perm.map _ h)

theorem Rel.rep {its : List Item} {b : Pulse} (h : Rel its b) (hpos : Loop.allPosList (nodesOf its))
    (n : Nat) (ms : List Window) :
    Rel (tryAppend ((Loop.mk n none [] []).applyItems its) ms)
      (if b.isEmpty then Pulse.empty else
        { dur := b.dur * n, chans := b.chans.map (fun (x : Chan × PL) => (x.1, PL.replicate n x.2)),
          windows := ms ++ repeatWindows b.windows n b.dur }) := by
  rw [applyItems_eq]
  simp only [List.nil_append, Loop.durationList]
  by_cases he : b.isEmpty
  · simp only [he, if_true]
    have : its = [] := h.items_nil (by simpa [Pulse.isEmpty] using he)
    subst this
    simp [tryAppend, Loop.isEmpty, Loop.wf, Loop.children, nodesOf, Rel.nil]
  · simp only [he]
    have hne : nodesOf its ≠ [] := by
      intro h0
      have := h.empty.mp h0
      simp [Pulse.isEmpty, this] at he
    have hnotempty : (Loop.mk n none (measW its 0) (nodesOf its)).isEmpty = false := by
      simp [Loop.isEmpty, Loop.wf, Loop.children, hne]
    simp only [tryAppend, hnotempty, Bool.false_eq_true, if_false]
    have hd : 0 < b.dur := by rw [← h.dur]; exact Loop.allPosList_duration_pos _ hpos hne
    have hLdur : (Loop.mk n none (measW its 0) (nodesOf its)).duration = b.dur * n := by
      rw [duration_none, h.dur]
    have hlook : ∀ c, ((b.chans.map (fun (x : Chan × PL) => (x.1, PL.replicate n x.2))).lookup c)
        = (b.chans.lookup c).map (fun pl => PL.replicate n pl) := by
      intro c
      exact lookup_map_snd b.chans (fun _ pl => PL.replicate n pl) c
    refine ⟨Blocks.meas ms _ Blocks.nil, ?_, ?_, ?_, ?_, ?_, ?_, ?_⟩
    · simp only [nodesOf]
      constructor
      · intro h0; simp at h0
      · intro h0
        simp only [List.map_eq_nil_iff] at h0
        simp [Pulse.isEmpty, h0] at he
    · simp only [nodesOf, Loop.durationList, hLdur]; ring
    · intro c pl hc
      simp only [hlook] at hc
      cases hcb : b.chans.lookup c with
      | none => simp [hcb] at hc
      | some plb =>
        simp only [hcb, Option.map_some, Option.some.injEq] at hc
        subst hc
        rw [PL.dur_replicate, h.plDur c plb hcb]
    · intro c pl hc
      simp only [hlook] at hc
      cases hcb : b.chans.lookup c with
      | none => simp [hcb] at hc
      | some plb =>
        simp only [hcb, Option.map_some, Option.some.injEq] at hc
        subst hc
        exact PL.pos_replicate n (h.plPos c plb hcb)
    · intro c pl hc t ht0 ht
      simp only [hlook] at hc
      cases hcb : b.chans.lookup c with
      | none => simp [hcb] at hc
      | some plb =>
        simp only [hcb, Option.map_some, Option.some.injEq] at hc
        subst hc
        simp only at ht
        obtain ⟨k, hk, hk1, hk2⟩ := exists_period t b.dur n hd ht0 (by linarith)
        have hfl := floor_div_eq t b.dur k hd hk1 hk2
        simp only [nodesOf, Loop.sampleList, hLdur, ht, if_true]
        obtain ⟨c0, cs0, hcs⟩ := List.exists_cons_of_ne_nil hne
        rw [hcs]
        simp only [Loop.sample]
        rw [← hcs, bodyDuration_none, h.dur]
        have hnd : ¬ b.dur ≤ 0 := not_le.mpr hd
        simp only [hnd, if_false, hfl]
        have hkn : ¬ ((k : Int) < 0 ∨ (n : Int) ≤ (k : Int)) := by omega
        simp only [hkn, if_false]
        have hpl := h.plDur c plb hcb
        rw [PL.at_replicate n plb (h.plPos c plb hcb) k t hk (by rw [hpl]; exact hk1) (by rw [hpl]; exact hk2)]
        rw [hpl]
        have : t - ((k : Int) : Rat) * b.dur = t - b.dur * (k : Rat) := by push_cast; ring
        rw [this]
        exact h.sample c plb hcb (t - b.dur * k) (by linarith) (by linarith)
    · simp only [itemsWindows, map_shiftW_zero, List.append_nil]
      apply List.Perm.append_left
      simp only [Loop.windows]
      rw [bodyDuration_none, h.dur]
      apply repeatWindows_perm
      exact List.Perm.trans (measW_windowsList_perm its 0) h.windows
    · intro cs hcs x
      have hnames : ∀ y, y ∈ Pulse.chanNames
          { dur := b.dur * n, chans := b.chans.map (fun (x : Chan × PL) => (x.1, PL.replicate n x.2)),
            windows := ms ++ repeatWindows b.windows n b.dur } ↔ y ∈ b.chanNames := by
        intro y; simp [Pulse.chanNames, List.map_map, Function.comp_def]
      rw [hnames]
      obtain ⟨c0, cs0, hc0⟩ := List.exists_cons_of_ne_nil hne
      simp only [nodesOf, Loop.leafChannelsList, List.append_nil] at hcs
      rw [hc0] at hcs
      simp only [Loop.leafChannels] at hcs
      rw [← hc0] at hcs
      exact h.chans cs hcs x

end QP.PT
