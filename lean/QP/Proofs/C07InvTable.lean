import QP.Proofs.C07InvCases
/-!
# C07: the invariants `InvClaim` for table and point pulse templates
-/
namespace QP.C07
open QP.PT


theorem mapM_keys {α β} (f : String × α → Except Err (String × β)) (hf : ∀ x y, f x = .ok y → y.1 = x.1) :
    ∀ (l : List (String × α)) (r : List (String × β)), l.mapM f = .ok r → r.map (·.1) = l.map (·.1)
  | [], r, h => by simp only [List.mapM_nil, pure_ok_iff] at h; subst h; rfl
  | a :: as, r, h => by
    simp only [List.mapM_cons, bind_ok_iff, pure_ok_iff] at h
    obtain ⟨b, hb, bs, hbs, rfl⟩ := h
    simp only [List.map_cons, hf a b hb, mapM_keys f hf as bs hbs]

theorem lastT_append_singleton (ws : List WEntry) (p : WEntry) : lastT (ws ++ [p]) = p.t := by
  rw [lastT_eq, lastEntry?_eq_getLast?]
  simp

theorem lastT_backPad {d : Rat} {ws : List WEntry} (hne : ws ≠ []) (hle : lastT ws ≤ d) : lastT (backPad d ws) = d := by
  unfold backPad
  cases hl : lastEntry? ws with
  | none =>
    rw [lastEntry?_eq_getLast?] at hl
    exact absurd (List.getLast?_eq_none_iff.mp hl) hne
  | some e =>
    have ht : lastT ws = e.t := by rw [lastT_eq, hl]
    simp only
    split
    · rw [lastT_append_singleton]
    · rw [ht] at hle ⊢; grind

/-- the instantiated entry lists of a table: none for duration 0, otherwise one list per channel, all ending at the
same time, which is the value of the duration expression -/
theorem tableInstantiate_all {σ : Scope} {entries : List (Chan × List TEntry)} {inst : List (Chan × List WEntry)}
    (h : tableInstantiate σ entries = .ok inst) (id meas cons) :
    (inst = [] ∧ ∀ D, templateDuration (.table id entries meas cons) σ = .ok D → D = 0) ∨
    (∃ d, d ≠ 0 ∧ inst.map (·.1) = entries.map (·.1) ∧ (∀ x ∈ inst, lastT x.2 = d) ∧
      ∀ D, templateDuration (.table id entries meas cons) σ = .ok D → D = d) := by
  unfold tableInstantiate at h
  simp only [bind_ok_iff] at h
  obtain ⟨a, ha, h⟩ := h
  obtain ⟨_, i2, i3⟩ := inst0_spec entries a ha
  have hkeys : a.map (·.1) = entries.map (·.1) := by
    refine mapM_keys _ ?_ entries a ha
    intro x y hxy
    simp only [bind_ok_iff] at hxy
    obtain ⟨ws, _, hxy⟩ := hxy
    cases ws with
    | nil => cases hxy
    | cons w r => simp only [pure_ok_iff] at hxy; rw [← hxy]
  generalize hfold : List.foldl _ none a = dur at h
  have hdur : dur = listMax? (a.map (fun x => lastT x.2)) := by
    rw [← hfold]; exact fold_dur a i2
  have hD : ∀ D, templateDuration (.table id entries meas cons) σ = .ok D → listMax? (a.map (fun x => lastT x.2)) = some D := by
    intro D hD
    rw [templateDuration] at hD
    simp only [bind_ok_iff] at hD
    obtain ⟨ts, hts, hD⟩ := hD
    rw [← i3 ts hts]
    cases ts with
    | nil => cases hD
    | cons t rest => simp only [pure_ok_iff] at hD; simp only [listMax?, hD]
  rw [hdur] at h
  cases hm : listMax? (a.map (fun x => lastT x.2)) with
  | none =>
    rw [hm] at h
    simp only [pure_ok_iff] at h
    left
    refine ⟨h.symm, ?_⟩
    intro D hD'
    rw [hD D hD'] at hm; cases hm
  | some d =>
    rw [hm] at h
    simp only at h
    by_cases hd0 : d = 0
    · simp only [hd0, if_true, pure_ok_iff] at h
      left
      refine ⟨h.symm, ?_⟩
      intro D hD'
      rw [hD D hD'] at hm; cases hm; exact hd0
    · simp only [hd0, if_false, pure_ok_iff] at h
      right
      have hinst : inst = a.map (fun x => (x.1, backPad d x.2)) := by
        rw [← h]; exact backPad_map_eq d a
      refine ⟨d, hd0, ?_, ?_, ?_⟩
      · rw [hinst, ← hkeys]; simp
      · intro x hx
        rw [hinst] at hx
        obtain ⟨y, hy, rfl⟩ := List.mem_map.mp hx
        simp only
        apply lastT_backPad (i2 y hy)
        -- `d` is the maximum of the last times
        cases ha' : a.map (fun x => lastT x.2) with
        | nil => rw [ha'] at hm; cases hm
        | cons t rest =>
          rw [ha'] at hm
          simp only [listMax?, Option.some.injEq] at hm
          have hmem : lastT y.2 ∈ t :: rest := by rw [← ha']; exact List.mem_map.mpr ⟨y, hy, rfl⟩
          rw [← hm]
          rcases List.mem_cons.mp hmem with h1 | h1
          · rw [h1]; exact foldl_max_ge_init rest t
          · exact foldl_max_ge_mem rest t _ h1
      · intro D hD'
        rw [hD D hD'] at hm; cases hm; rfl

theorem filterMapM_kept2_rev (cm : List (Chan × Option Chan)) :
    ∀ (inst : List (Chan × List WEntry)) (mapped : List (Chan × List WEntry)),
    inst.filterMapM (fun x => do
        let o ← chanLookup cm x.1
        pure (o.map (fun o => (o, x.2)))) = .ok mapped →
    ∀ y ∈ mapped, ∃ x ∈ inst, cm.lookup x.1 = some (some y.1) ∧ x.2 = y.2
  | [], mapped, h => by
    simp only [List.filterMapM_nil, pure_ok_iff] at h; subst h
    intro y hy; cases hy
  | z :: rest, mapped, h => by
    rw [List.filterMapM_cons] at h
    simp only [bind_ok_iff, pure_ok_iff] at h
    obtain ⟨r, ⟨oo, hoo, rfl⟩, h⟩ := h
    rw [chanLookup_ok_iff] at hoo
    intro y hy
    cases oo with
    | none =>
      simp only [Option.map] at h
      obtain ⟨x, hx, hh⟩ := filterMapM_kept2_rev cm rest mapped h y hy
      exact ⟨x, List.mem_cons_of_mem _ hx, hh⟩
    | some o1 =>
      simp only [Option.map, bind_ok_iff, pure_ok_iff] at h
      obtain ⟨m', hm', rfl⟩ := h
      rcases List.mem_cons.mp hy with rfl | hy
      · exact ⟨z, List.mem_cons_self .., hoo, rfl⟩
      · obtain ⟨x, hx, hh⟩ := filterMapM_kept2_rev cm rest m' hm' y hy
        exact ⟨x, List.mem_cons_of_mem _ hx, hh⟩

theorem mapM_tablePL_rev : ∀ (mapped : List (Chan × List WEntry)) (chans : List (Chan × PL)),
    mapped.mapM (fun x => do let pl ← tablePL x.2; pure (x.1, pl)) = .ok chans →
    ∀ y ∈ chans, ∃ x ∈ mapped, tablePL x.2 = .ok y.2 ∧ y.1 = x.1
  | [], chans, h => by
    simp only [List.mapM_nil, pure_ok_iff] at h; subst h
    intro y hy; cases hy
  | z :: rest, chans, h => by
    simp only [List.mapM_cons, bind_ok_iff, pure_ok_iff] at h
    obtain ⟨w, ⟨pl, hpl, rfl⟩, cs, hcs, rfl⟩ := h
    intro y hy
    rcases List.mem_cons.mp hy with rfl | hy
    · exact ⟨z, List.mem_cons_self .., hpl, rfl⟩
    · obtain ⟨x, hx, hh⟩ := mapM_tablePL_rev rest cs hcs y hy
      exact ⟨x, List.mem_cons_of_mem _ hx, hh⟩

def firstT : List WEntry → Rat
  | w :: _ => w.t
  | [] => 0

theorem PL_dur_entriesToPL' (ws : List WEntry) (h : sortedTimes ws = true) :
    PL.dur (entriesToPL ws) = lastT ws - firstT ws := by
  have := PL_dur_entriesToPL ws h
  cases ws <;> exact this

theorem tablePL_first {ws : List WEntry} {pl : PL} (h : tablePL ws = .ok pl) : firstT ws = 0 := by
  unfold tablePL at h
  split at h
  · rfl
  · cases h
  · split at h
    · cases h
    · rename_i hz; simpa [firstT] using hz

/-- one channel of a denoted table / point pulse: positive pieces that add up to the last entry time -/
theorem tablePL_inv {ws : List WEntry} {pl : PL} (h : tablePL ws = .ok pl) : plPos pl ∧ PL.dur pl = lastT ws := by
  obtain ⟨e1, e2⟩ := tablePL_ok h
  have e3 := tablePL_first h
  subst e1
  refine ⟨plPos_entriesToPL ws, ?_⟩
  rw [PL_dur_entriesToPL' ws e2, e3]; grind

theorem inv_table (id entries meas cons) : InvClaim (.table id entries meas cons) := by
  intro σ mm cm P hden _
  rw [denote] at hden
  simp only [bind_ok_iff] at hden
  obtain ⟨_, _, inst, hinst, mapped, hmapped, hden⟩ := hden
  have hall := tableInstantiate_all hinst id meas cons
  split at hden
  · -- no channel is kept (or duration 0)
    rename_i hemp
    simp only [pure_ok_iff] at hden; subst hden
    refine ⟨pulseInv_empty, (fun o ho => absurd ho (not_mem_empty_chanNames o)), ?_⟩
    intro hkeep D hD
    rcases hall with ⟨_, h0⟩ | ⟨d, hd0, hkeys, _, hDd⟩
    · exact h0 D hD
    · exfalso
      simp only [keeps] at hkeep
      obtain ⟨c, hc, o, ho⟩ := keepsSome_spec hkeep
      rw [← hkeys] at hc
      obtain ⟨ws, hws⟩ := lookup_isSome_of_mem_keys inst c hc
      have := filterMapM_kept2 cm inst mapped hmapped (c, ws) (mem_of_lookup inst c ws hws) o ho
      have hm : mapped = [] := by simpa using hemp
      rw [hm] at this; cases this
  · rename_i hne
    simp only [bind_ok_iff] at hden
    obtain ⟨chans, hchans, hden⟩ := hden
    split at hden
    · cases hden
    · simp only [bind_ok_iff, pure_ok_iff] at hden
      obtain ⟨ms, _, rfl⟩ := hden
      rcases hall with ⟨h0, _⟩ | ⟨d, hd0, hkeys, hlast, hDd⟩
      · subst h0
        simp only [List.filterMapM_nil, pure_ok_iff] at hmapped
        subst hmapped
        simp at hne
      · -- every kept channel ends at `d`
        have hm : ∀ y ∈ mapped, lastT y.2 = d := by
          intro y hy
          obtain ⟨x, hx, _, hxy⟩ := filterMapM_kept2_rev cm inst mapped hmapped y hy
          rw [← hxy]; exact hlast x hx
        obtain ⟨y0, r0, hy0⟩ := List.exists_cons_of_ne_nil (show mapped ≠ [] by intro h0; rw [h0] at hne; simp at hne)
        have hy0d : lastT y0.2 = d := hm y0 (by rw [hy0]; exact List.mem_cons_self ..)
        have hch : ∀ y ∈ chans, plPos y.2 ∧ PL.dur y.2 = d := by
          intro y hy
          obtain ⟨x, hx, hpl, _⟩ := mapM_tablePL_rev mapped chans hchans y hy
          obtain ⟨h1, h2⟩ := tablePL_inv hpl
          exact ⟨h1, by rw [h2, hm x hx]⟩
        have hlen : chans.length = mapped.length := mapM_length _ _ _ hchans
        have hcne : chans ≠ [] := by
          intro h0; rw [h0] at hlen
          have : mapped = [] := List.eq_nil_of_length_eq_zero hlen.symm
          rw [this] at hne; simp at hne
        subst hy0
        obtain ⟨k0, w0⟩ := y0
        simp only at hy0d ⊢
        rw [hy0d]
        refine ⟨⟨?_, ?_, ?_⟩, ?_, ?_⟩
        · intro he; rw [isEmpty_iff] at he; exact absurd he hcne
        · obtain ⟨y, r, hyr⟩ := List.exists_cons_of_ne_nil hcne
          have := hch y (by rw [hyr]; exact List.mem_cons_self ..)
          simp only
          rw [← this.2]; exact PL_dur_nonneg this.1
        · intro y hy
          exact hch y hy
        · intro o ho
          simp only [Pulse.chanNames, List.mem_map] at ho
          obtain ⟨y, hy, rfl⟩ := ho
          obtain ⟨x, hx, _, hyx⟩ := mapM_tablePL_rev _ chans hchans y hy
          obtain ⟨z, hz, hzc, _⟩ := filterMapM_kept2_rev cm inst _ hmapped x hx
          refine ⟨z.1, ?_, by rw [hyx]; exact hzc⟩
          simp only [PT.definedChannels]
          rw [mem_dedup, ← hkeys]
          exact List.mem_map.mpr ⟨z, hz, rfl⟩
        · intro _ D hD
          exact hDd D hD

/-! ### point pulses -/

theorem mapM_getElem?_rev {α β} (f : α → Except Err β) : ∀ (l : List α) (r : List β), l.mapM f = .ok r →
    ∀ (i : Nat) (y : β), r[i]? = some y → ∃ x, l[i]? = some x ∧ f x = .ok y
  | [], r, h, i, y, hy => by
    simp only [List.mapM_nil, pure_ok_iff] at h; subst h; simp at hy
  | a :: as, r, h, i, y, hy => by
    simp only [List.mapM_cons, bind_ok_iff, pure_ok_iff] at h
    obtain ⟨b, hb, bs, hbs, rfl⟩ := h
    cases i with
    | zero => simp only [List.getElem?_cons_zero, Option.some.injEq] at hy; subst hy; exact ⟨a, by simp, hb⟩
    | succ j =>
      simp only [List.getElem?_cons_succ] at hy ⊢
      exact mapM_getElem?_rev f as bs hbs j y hy

/-- the column of channel `i` ends at the time of the last entry -/
theorem point_column_last {σ : Scope} {n i : Nat} (hi : i < n) :
    ∀ (entries : List PEntry) (inst : List (List WEntry)), entries.mapM (pointRow σ n) = .ok inst →
    ∀ e dur, entries.getLast? = some e → σ.eval e.t = .ok dur →
    lastT (inst.filterMap (fun row => row[i]?)) = dur ∧ inst.filterMap (fun row => row[i]?) ≠ []
  | [], inst, _, e, dur, he, _ => by simp at he
  | [x], inst, h, e, dur, he, hd => by
    simp only [List.mapM_cons, List.mapM_nil, bind_ok_iff, pure_ok_iff] at h
    obtain ⟨row, hrow, _, rfl, rfl⟩ := h
    simp only [List.getLast?_singleton, Option.some.injEq] at he
    subst he
    obtain ⟨t, ht, hlen, hts, _⟩ := pointRow_spec hrow
    rw [hd] at ht; cases ht
    have : ∃ w, row[i]? = some w := by
      rw [← hlen] at hi
      exact ⟨row[i], List.getElem?_eq_getElem hi⟩
    obtain ⟨w, hw⟩ := this
    have hwt : w.t = dur := hts w (List.mem_of_getElem? hw)
    simp [List.filterMap_cons, hw, lastT, hwt]
  | x :: y :: r, inst, h, e, dur, he, hd => by
    simp only [List.mapM_cons, bind_ok_iff, pure_ok_iff] at h
    obtain ⟨row, hrow, inst', ⟨row2, hrow2, inst'', hinst'', rfl⟩, rfl⟩ := h
    rw [List.getLast?_cons_cons] at he
    have hrec : (y :: r).mapM (pointRow σ n) = .ok (row2 :: inst'') := by
      simp only [List.mapM_cons, bind_ok_iff, pure_ok_iff]
      exact ⟨row2, hrow2, inst'', hinst'', rfl⟩
    obtain ⟨h1, h2⟩ := point_column_last hi (y :: r) (row2 :: inst'') hrec e dur he hd
    obtain ⟨t, _, hlen, _, _⟩ := pointRow_spec hrow
    have : ∃ w, row[i]? = some w := by
      rw [← hlen] at hi
      exact ⟨row[i], List.getElem?_eq_getElem hi⟩
    obtain ⟨w, hw⟩ := this
    have hcons : List.filterMap (fun (row : List WEntry) => row[i]?) (row :: row2 :: inst'') =
        w :: List.filterMap (fun (row : List WEntry) => row[i]?) (row2 :: inst'') := by
      rw [List.filterMap_cons, hw]
    rw [hcons]
    refine ⟨?_, by simp⟩
    generalize List.filterMap (fun (row : List WEntry) => row[i]?) (row2 :: inst'') = col at h1 h2
    cases col with
    | nil => exact absurd rfl h2
    | cons z zs => exact h1

theorem lastT_frontPad' (ws : List WEntry) :
    lastT (match ws with
      | w :: _ => if w.t > 0 then ({ t := 0, v := w.v, interp := Interp.hold } : WEntry) :: ws else ws
      | [] => ws) = lastT ws := by
  have := lastT_frontPad ws
  cases ws <;> exact this

theorem inv_point (id chans entries meas cons) : InvClaim (.point id chans entries meas cons) := by
  intro σ mm cm P hden _
  rw [denote] at hden
  simp only [bind_ok_iff] at hden
  obtain ⟨_, _, a, ha, hden⟩ := hden
  split at hden
  · rename_i hall
    simp only [pure_ok_iff] at hden; subst hden
    refine ⟨pulseInv_empty, (fun o ho => absurd ho (not_mem_empty_chanNames o)), ?_⟩
    intro hkeep
    exfalso
    simp only [keeps] at hkeep
    obtain ⟨c, hc, o, ho⟩ := keepsSome_spec hkeep
    obtain ⟨y, hy1, hy2⟩ := mapM_mem _ _ _ ha c ((mem_dedup _ _).mpr hc)
    rw [chanLookup_ok_iff, ho] at hy2
    cases hy2
    have := (List.all_eq_true.mp hall) _ hy1
    simp at this
  · rename_i hnone
    cases hlast : entries.getLast? with
    | none => rw [hlast] at hden; simp only [bind_ok_iff] at hden; obtain ⟨_, h, _⟩ := hden; cases h
    | some e =>
      rw [hlast] at hden
      simp only [bind_ok_iff] at hden
      obtain ⟨dur, hdur, hden⟩ := hden
      have hD : ∀ D, templateDuration (.point id chans entries meas cons) σ = .ok D → D = dur := by
        intro D hD
        rw [templateDuration] at hD
        simp only [hlast] at hD
        rw [hdur] at hD; cases hD; rfl
      split at hden
      · rename_i h0
        simp only [pure_ok_iff] at hden; subst hden
        refine ⟨pulseInv_empty, (fun o ho => absurd ho (not_mem_empty_chanNames o)), ?_⟩
        intro _ D hDD
        rw [hD D hDD]; exact h0
      · rename_i h0
        simp only [bind_ok_iff] at hden
        obtain ⟨mapped, hmapped, inst, hinst, cs, hcs, hden⟩ := hden
        have hinst' : entries.mapM (pointRow σ chans.length) = .ok inst := by
          rw [← hinst]; congr 1; funext e; unfold pointRow
          refine bind_congr (fun t => bind_congr (fun vs => ?_))
          by_cases hb : e.bcast = true
          · simp only [hb, if_true]
            rcases vs with _ | ⟨v, _ | ⟨v2, r⟩⟩ <;> rfl
          · simp only [hb]
            rfl
        split at hden
        · cases hden
        · simp only [bind_ok_iff, pure_ok_iff] at hden
          obtain ⟨ms, _, rfl⟩ := hden
          -- where an entry of the kept list comes from
          have hkept : ∀ y ∈ List.filterMap (fun (x : Option Chan × List WEntry) => Option.map (fun o => (o, x.snd)) x.fst)
              (mapped.zip (List.map (fun ws => match ws with
                  | w :: _ => if w.t > 0 then ({ t := 0, v := w.v, interp := Interp.hold } : WEntry) :: ws else ws
                  | [] => ws)
                (List.map (fun i => List.filterMap (fun row => row[i]?) inst) (List.range chans.length)))),
              lastT y.2 = dur ∧ ∃ c ∈ chans, cm.lookup c = some (some y.1) := by
            intro y hy
            obtain ⟨z, hz, hzy⟩ := List.mem_filterMap.mp hy
            obtain ⟨i, hi⟩ := List.mem_iff_getElem?.mp hz
            rw [List.getElem?_zip_eq_some] at hi
            obtain ⟨hi1, hi2⟩ := hi
            rw [List.getElem?_map] at hi2
            cases hr : (List.map (fun i => List.filterMap (fun row => row[i]?) inst) (List.range chans.length))[i]? with
            | none => rw [hr] at hi2; cases hi2
            | some col =>
              rw [hr] at hi2
              simp only [Option.map_some, Option.some.injEq] at hi2
              have hilt : i < chans.length := by
                have hlt := (List.getElem?_eq_some_iff.mp hr).1
                simpa using hlt
              rw [getElem?_range_map _ _ _ hilt] at hr
              cases hr
              obtain ⟨o, ho, rfl⟩ : ∃ o, z.1 = some o ∧ y = (o, z.2) := by
                cases hz1 : z.1 with
                | none => rw [hz1] at hzy; cases hzy
                | some o => rw [hz1] at hzy; simp only [Option.map_some, Option.some.injEq] at hzy; exact ⟨o, rfl, hzy.symm⟩
              obtain ⟨hl, _⟩ := point_column_last hilt entries inst hinst' e dur hlast hdur
              refine ⟨?_, ?_⟩
              · simp only; rw [← hi2, lastT_frontPad', hl]
              · rw [ho] at hi1
                obtain ⟨c, hc1, hc2⟩ := mapM_getElem?_rev _ _ _ hmapped i (some o) hi1
                exact ⟨c, List.mem_of_getElem? hc1, chanLookup_ok_iff.mp hc2⟩
          have hch : ∀ y ∈ cs, plPos y.2 ∧ PL.dur y.2 = dur := by
            intro y hy
            obtain ⟨x, hx, hpl, _⟩ := mapM_tablePL_rev _ cs hcs y hy
            obtain ⟨h1, h2⟩ := tablePL_inv hpl
            exact ⟨h1, by rw [h2, (hkept x hx).1]⟩
          -- some channel is kept
          have hcne : cs ≠ [] := by
            have hsome : ∃ y ∈ a, y.isSome = true := by
              apply Classical.byContradiction
              intro hno
              apply hnone
              apply List.all_eq_true.mpr
              intro y hy
              cases y with
              | none => rfl
              | some o => exact absurd ⟨some o, hy, rfl⟩ hno
            obtain ⟨y, hy, hys⟩ := hsome
            obtain ⟨c, hc, hcy⟩ := mapM_mem_rev _ _ _ ha y hy
            cases y with
            | none => cases hys
            | some o =>
              have hc' : c ∈ chans := (mem_dedup _ _).mp hc
              have hi : chans.idxOf c < chans.length := List.idxOf_lt_length_of_mem hc'
              have hci : chans[chans.idxOf c]? = some c := by
                rw [List.getElem?_eq_getElem hi]; simp
              obtain ⟨r, hr1, hr2⟩ := mapM_getElem? _ _ _ hmapped _ _ hci
              rw [hcy] at hr2; cases hr2
              intro h0
              have hlen := mapM_length _ _ _ hcs
              rw [h0] at hlen
              have hk0 := List.eq_nil_of_length_eq_zero hlen.symm
              have : ∃ ws, (o, ws) ∈ List.filterMap (fun (x : Option Chan × List WEntry) => Option.map (fun o => (o, x.snd)) x.fst)
                  (mapped.zip (List.map (fun ws => match ws with
                      | w :: _ => if w.t > 0 then ({ t := 0, v := w.v, interp := Interp.hold } : WEntry) :: ws else ws
                      | [] => ws)
                    (List.map (fun i => List.filterMap (fun row => row[i]?) inst) (List.range chans.length)))) := by
                refine ⟨frontPad (inst.filterMap (fun row => row[chans.idxOf c]?)),
                  List.mem_filterMap.mpr ⟨(some o, frontPad (inst.filterMap (fun row => row[chans.idxOf c]?))), ?_, rfl⟩⟩
                apply List.mem_iff_getElem?.mpr
                refine ⟨chans.idxOf c, ?_⟩
                rw [List.getElem?_zip_eq_some]
                refine ⟨hr1, ?_⟩
                rw [List.getElem?_map, getElem?_range_map _ _ _ hi]
                simp only [Option.map_some]
                exact congrArg some (frontPad_eq _)
              obtain ⟨ws, hws⟩ := this
              have h' : (o, ws) ∈ ([] : List (Chan × List WEntry)) := by rw [← hk0]; exact hws
              cases h'
          refine ⟨⟨?_, ?_, ?_⟩, ?_, ?_⟩
          · intro he; rw [isEmpty_iff] at he; exact absurd he hcne
          · obtain ⟨y, r, hyr⟩ := List.exists_cons_of_ne_nil hcne
            have := hch y (by rw [hyr]; exact List.mem_cons_self ..)
            simp only
            rw [← this.2]; exact PL_dur_nonneg this.1
          · intro y hy; exact hch y hy
          · intro o ho
            simp only [Pulse.chanNames, List.mem_map] at ho
            obtain ⟨y, hy, rfl⟩ := ho
            obtain ⟨x, hx, _, hyx⟩ := mapM_tablePL_rev _ cs hcs y hy
            obtain ⟨_, c, hc, hcl⟩ := hkept x hx
            refine ⟨c, ?_, by rw [hyx]; exact hcl⟩
            simp only [PT.definedChannels]
            exact (mem_dedup _ _).mpr hc
          · intro _ D hDD
            exact hD D hDD


end QP.C07
