import QP.Proofs.C07Main
/-!
# C07: point pulse templates

The rows `PointPulseTemplate` instantiates (one value per channel and entry), the column of one channel, which
column ends up on which channel of the denoted pulse, and the case of the induction.
-/
namespace QP.C07
open QP.PT


theorem mapM_length {α β} (f : α → Except Err β) : ∀ (l : List α) (r : List β), l.mapM f = .ok r → r.length = l.length
  | [], r, h => by simp only [List.mapM_nil, pure_ok_iff] at h; subst h; rfl
  | x :: xs, r, h => by
    simp only [List.mapM_cons, bind_ok_iff, pure_ok_iff] at h
    obtain ⟨y, _, ys, hys, rfl⟩ := h
    simp [mapM_length f xs ys hys]

theorem mapM_getElem? {α β} (f : α → Except Err β) : ∀ (l : List α) (r : List β), l.mapM f = .ok r →
    ∀ (i : Nat) (x : α), l[i]? = some x → ∃ y, r[i]? = some y ∧ f x = .ok y
  | [], r, h, i, x, hx => by simp at hx
  | a :: as, r, h, i, x, hx => by
    simp only [List.mapM_cons, bind_ok_iff, pure_ok_iff] at h
    obtain ⟨y, hy, ys, hys, rfl⟩ := h
    cases i with
    | zero => simp only [List.getElem?_cons_zero, Option.some.injEq] at hx; subst hx; exact ⟨y, by simp, hy⟩
    | succ j =>
      simp only [List.getElem?_cons_succ] at hx ⊢
      exact mapM_getElem? f as ys hys j x hx

theorem map_ok_iff {α β} {x : Except Err α} {f : α → β} {b : β} :
    (f <$> x) = .ok b ↔ ∃ a, x = .ok a ∧ f a = b := by
  cases x with
  | error e => simp [Functor.map, Except.map]
  | ok a => simp [Functor.map, Except.map]

/-- one row of `PointPulseTemplate` entries: the entry's value on every channel -/
def pointRow (σ : Scope) (n : Nat) (e : PEntry) : Except Err (List WEntry) := do
  let t ← σ.eval e.t
  let vs ← e.vs.mapM σ.eval
  let vs ← if e.bcast then (match vs with
      | [v] => pure (List.replicate n v)
      | _ => .error .unsupported)
    else if vs.length ≠ n then .error .valueError else pure vs
  pure (vs.map (fun v => ({ t := t, v := v, interp := e.interp } : WEntry)))

theorem pointRow_spec {σ : Scope} {n : Nat} {e : PEntry} {row : List WEntry} (h : pointRow σ n e = .ok row) :
    ∃ t, σ.eval e.t = .ok t ∧ row.length = n ∧ (∀ w ∈ row, w.t = t) ∧
      ∀ i v, i < n → pointValue σ e i = .ok v → row[i]? = some { t := t, v := v, interp := e.interp } := by
  unfold pointRow at h
  simp only [bind_ok_iff] at h
  obtain ⟨t, ht, vals, hvals, h⟩ := h
  refine ⟨t, ht, ?_⟩
  split at h
  · rename_i hb
    cases vals with
    | nil => simp [map_ok_iff] at h
    | cons v0 rest =>
      cases rest with
      | cons _ _ => simp [map_ok_iff] at h
      | nil =>
        simp only [ok_bind, pure, Except.pure, Except.ok.injEq] at h
        subst h
        have hlen := mapM_length σ.eval e.vs [v0] hvals
        refine ⟨by simp, ?_, ?_⟩
        · intro w hw
          simp only [List.map_replicate, List.mem_replicate] at hw
          rw [hw.2]
        · intro i v hi hpv
          unfold pointValue at hpv
          simp only [hb, if_true] at hpv
          cases hvs : e.vs with
          | nil => rw [hvs] at hlen; simp at hlen
          | cons x xs =>
            cases xs with
            | cons _ _ => rw [hvs] at hlen; simp at hlen
            | nil =>
              rw [hvs] at hpv hvals
              simp only [List.mapM_cons, List.mapM_nil, bind_ok_iff, pure_ok_iff] at hvals
              obtain ⟨y, hy, _, rfl, hyy⟩ := hvals
              simp only at hpv
              rw [hy] at hpv
              have e1 : y = v := by cases hpv; rfl
              have e2 : y = v0 := by simpa using hyy
              subst e1
              subst e2
              simp [List.getElem?_replicate, hi]
  · split at h
    · simp only [bind_ok_iff, map_ok_iff] at h
      obtain ⟨_, hh, _⟩ := h
      cases hh
    · rename_i hb hlen
      simp only [bind_ok_iff, pure_ok_iff, map_ok_iff] at h
      obtain ⟨vs', hvv, rfl⟩ := h
      subst hvv
      have hlen' : vals.length = n := by simpa using hlen
      refine ⟨by simp [hlen'], ?_, ?_⟩
      · intro w hw
        simp only [List.mem_map] at hw
        obtain ⟨_, _, rfl⟩ := hw; rfl
      · intro i v hi hpv
        unfold pointValue at hpv
        simp only [hb] at hpv
        cases hx : e.vs[i]? with
        | none => rw [hx] at hpv; simp at hpv
        | some x =>
          rw [hx] at hpv
          simp only at hpv
          obtain ⟨y, hy1, hy2⟩ := mapM_getElem? σ.eval e.vs vals hvals i x hx
          simp only [Bool.false_eq_true, if_false] at hpv
          rw [hpv] at hy2; cases hy2
          simp [List.getElem?_map, hy1]
theorem point_column {σ : Scope} {n i : Nat} (hi : i < n) :
    ∀ (entries : List PEntry) (inst : List (List WEntry)) (ws : List WEntry),
    entries.mapM (pointRow σ n) = .ok inst → instPoint σ i entries = .ok ws →
    inst.filterMap (fun row => row[i]?) = ws
  | [], inst, ws, h1, h2 => by
    simp only [List.mapM_nil, pure_ok_iff] at h1; subst h1
    simp only [instPoint, List.mapM_nil, pure_ok_iff] at h2; subst h2; rfl
  | e :: rest, inst, ws, h1, h2 => by
    simp only [List.mapM_cons, bind_ok_iff, pure_ok_iff] at h1
    obtain ⟨row, hrow, inst', hinst', rfl⟩ := h1
    simp only [instPoint, List.mapM_cons, bind_ok_iff, pure_ok_iff] at h2
    obtain ⟨w, ⟨t, ht, v, hv, rfl⟩, ws', hws', rfl⟩ := h2
    obtain ⟨t', ht', _, _, hidx⟩ := pointRow_spec hrow
    rw [ht] at ht'; cases ht'
    have := hidx i v hi hv
    simp only [List.filterMap_cons, this]
    congr 1
    exact point_column hi rest inst' ws' hinst' (by simp only [instPoint]; exact hws')

theorem getElem?_range_map {α} (f : Nat → α) (n i : Nat) (hi : i < n) : ((List.range n).map f)[i]? = some (f i) := by
  simp [List.getElem?_map, List.getElem?_range hi]

theorem mapM_mem {α β} (f : α → Except Err β) : ∀ (l : List α) (r : List β), l.mapM f = .ok r →
    ∀ x ∈ l, ∃ y ∈ r, f x = .ok y
  | [], r, h, x, hx => nomatch hx
  | a :: as, r, h, x, hx => by
    simp only [List.mapM_cons, bind_ok_iff, pure_ok_iff] at h
    obtain ⟨y, hy, ys, hys, rfl⟩ := h
    rcases List.mem_cons.mp hx with rfl | hx
    · exact ⟨y, List.mem_cons_self .., hy⟩
    · obtain ⟨y', h1, h2⟩ := mapM_mem f as ys hys x hx
      exact ⟨y', List.mem_cons_of_mem _ h1, h2⟩

theorem frontPad_eq (ws : List WEntry) :
    (match ws with
      | w :: _ => if w.t > 0 then ({ t := 0, v := w.v, interp := Interp.hold } : WEntry) :: ws else ws
      | [] => ws) = frontPad ws := by
  cases ws <;> rfl

/-- the pulse a point pulse template denotes on a kept channel -/
theorem point_chan {id chans entries meas cons} {σ : Scope} {mm cm} {P : Pulse}
    (hden : denote (.point id chans entries meas cons) σ mm cm = .ok P)
    {c o : Chan} (hc : c ∈ chans) (hcm : cm.lookup c = some (some o)) {ws : List WEntry}
    (hws : instPoint σ (chans.idxOf c) entries = .ok ws) :
    ∃ dur e, entries.getLast? = some e ∧ σ.eval e.t = .ok dur ∧ (dur = 0 → P = Pulse.empty) ∧
      (dur ≠ 0 → P.chans.lookup o = some (entriesToPL (frontPad ws)) ∧ sortedTimes (frontPad ws) = true) := by
  rw [denote] at hden
  simp only [bind_ok_iff] at hden
  obtain ⟨_, _, a, ha, hden⟩ := hden
  have hnone : ¬ (a.all Option.isNone = true) := by
    intro hall
    obtain ⟨y, hy1, hy2⟩ := mapM_mem _ _ _ ha c ((mem_dedup _ _).mpr hc)
    rw [chanLookup_ok_iff, hcm] at hy2
    cases hy2
    have := (List.all_eq_true.mp hall) _ hy1
    simp at this
  rw [if_neg hnone] at hden
  cases hlast : entries.getLast? with
  | none => rw [hlast] at hden; simp only [bind_ok_iff] at hden; obtain ⟨_, h, _⟩ := hden; cases h
  | some e =>
    rw [hlast] at hden
    simp only [bind_ok_iff] at hden
    obtain ⟨dur, hdur, hden⟩ := hden
    refine ⟨dur, e, rfl, hdur, ?_, ?_⟩
    · intro h0
      simp only [h0, if_true, pure_ok_iff] at hden
      exact hden.symm
    · intro h0
      rw [if_neg h0] at hden
      simp only [bind_ok_iff] at hden
      obtain ⟨mapped, hmapped, inst, hinst, cs, hcs, hden⟩ := hden
      have hinst' : entries.mapM (pointRow σ chans.length) = .ok inst := by
        rw [← hinst]; congr 1; funext e; unfold pointRow
        refine bind_congr (fun t => bind_congr (fun vs => ?_))
        by_cases hb : e.bcast = true
        · simp only [hb, if_true]
          rcases vs with _ | ⟨v, _ | ⟨v2, r⟩⟩ <;> rfl
        · simp only [hb]
          rfl
      have hi : chans.idxOf c < chans.length := List.idxOf_lt_length_of_mem hc
      have hci : chans[chans.idxOf c]? = some c := by
        rw [List.getElem?_eq_getElem hi]; simp
      obtain ⟨r, hr1, hr2⟩ := mapM_getElem? _ _ _ hmapped _ _ hci
      rw [chanLookup_ok_iff, hcm] at hr2; cases hr2
      have hcol := point_column hi entries inst ws hinst' hws
      -- the padded column of channel `c` in the list of kept channels
      have hkept : (o, frontPad ws) ∈ List.filterMap (fun (x : Option Chan × List WEntry) => Option.map (fun o => (o, x.snd)) x.fst)
          (mapped.zip (List.map (fun ws => match ws with
              | w :: _ => if w.t > 0 then ({ t := 0, v := w.v, interp := Interp.hold } : WEntry) :: ws else ws
              | [] => ws)
            (List.map (fun i => List.filterMap (fun row => row[i]?) inst) (List.range chans.length)))) := by
        apply List.mem_filterMap.mpr
        refine ⟨(some o, frontPad ws), ?_, rfl⟩
        apply List.mem_iff_getElem?.mpr
        refine ⟨chans.idxOf c, ?_⟩
        rw [List.getElem?_zip_eq_some]
        refine ⟨hr1, ?_⟩
        rw [List.getElem?_map, getElem?_range_map _ _ _ hi]
        simp only [Option.map_some, hcol]
        rw [frontPad_eq]
      obtain ⟨pl, hpl, hmem⟩ := mapM_tablePL _ cs hcs (o, frontPad ws) hkept
      split at hden
      · cases hden
      · rename_i hdup
        simp only [bind_ok_iff, pure_ok_iff] at hden
        obtain ⟨ms, _, rfl⟩ := hden
        have hdup' : hasDup (cs.map (·.1)) = false := by simpa using hdup
        obtain ⟨e1, e2⟩ := tablePL_ok hpl
        refine ⟨?_, e2⟩
        simp only
        rw [lookup_of_mem_nodup cs hdup' hmem, e1]

theorem point_pulseVal {id chans entries meas cons} {σ : Scope} {mm cm} {P : Pulse}
    (hden : denote (.point id chans entries meas cons) σ mm cm = .ok P)
    {c o : Chan} (hc : c ∈ chans) (hcm : cm.lookup c = some (some o)) {ws : List WEntry}
    (hws : instPoint σ (chans.idxOf c) entries = .ok ws) :
    ∃ dur e, entries.getLast? = some e ∧ σ.eval e.t = .ok dur ∧ (dur = 0 → P = Pulse.empty) ∧
      (dur ≠ 0 → pulseVal P o = entriesToPL (frontPad ws) ∧ sortedTimes (frontPad ws) = true) := by
  obtain ⟨dur, e, h1, h2, h3, h4⟩ := point_chan hden hc hcm hws
  refine ⟨dur, e, h1, h2, h3, ?_⟩
  intro h0
  obtain ⟨k1, k2⟩ := h4 h0
  exact ⟨by simp only [pulseVal, k1, Option.getD_some], k2⟩

theorem instPoint_last {σ : Scope} {i : Nat} : ∀ (es : List PEntry) (ws : List WEntry), instPoint σ i es = .ok ws →
    ∀ e, es.getLast? = some e → ∃ w, lastEntry? ws = some w ∧ σ.eval e.t = .ok w.t ∧ pointValue σ e i = .ok w.v
  | [], ws, h, e, he => by simp at he
  | [x], ws, h, e, he => by
    simp only [instPoint, List.mapM_cons, List.mapM_nil, bind_ok_iff, pure_ok_iff] at h
    obtain ⟨w, ⟨t, ht, v, hv, rfl⟩, _, rfl, rfl⟩ := h
    simp only [List.getLast?_singleton, Option.some.injEq] at he
    subst he
    exact ⟨_, rfl, ht, hv⟩
  | x :: y :: r, ws, h, e, he => by
    simp only [instPoint, List.mapM_cons, bind_ok_iff, pure_ok_iff] at h
    obtain ⟨w, _, ws', ⟨w2, hw2, ws'', hws'', rfl⟩, rfl⟩ := h
    rw [List.getLast?_cons_cons] at he
    have hrec : instPoint σ i (y :: r) = .ok (w2 :: ws'') := by
      simp only [instPoint, List.mapM_cons, bind_ok_iff, pure_ok_iff]
      exact ⟨w2, hw2, ws'', hws'', rfl⟩
    obtain ⟨w', h1, h2, h3⟩ := instPoint_last (y :: r) (w2 :: ws'') hrec e he
    exact ⟨w', by rw [lastEntry?_cons_cons]; exact h1, h2, h3⟩

theorem instPoint_first {σ : Scope} {i : Nat} (x : PEntry) (r : List PEntry) (ws : List WEntry)
    (h : instPoint σ i (x :: r) = .ok ws) :
    ∃ w rest, ws = w :: rest ∧ pointValue σ x i = .ok w.v ∧ σ.eval x.t = .ok w.t := by
  simp only [instPoint, List.mapM_cons, bind_ok_iff, pure_ok_iff] at h
  obtain ⟨w, ⟨t, ht, v, hv, rfl⟩, ws', _, rfl⟩ := h
  exact ⟨_, ws', rfl, hv, ht⟩

theorem regular_point_spec {id chans entries meas cons} {σ : Scope} (h : regular (.point id chans entries meas cons) σ = true)
    {i : Nat} (hi : i < chans.length) {ws : List WEntry} (hws : instPoint σ i entries = .ok ws) :
    sortedTimes ws = true ∧ ∀ w ∈ ws, 0 ≤ w.t := by
  rw [regular] at h
  have := (List.all_eq_true.mp h) i (List.mem_range.mpr hi)
  simp only [hws, Bool.and_eq_true, List.all_eq_true, decide_eq_true_eq] at this
  exact this

theorem claim_point (id chans entries meas cons) : Claim (.point id chans entries meas cons) := by
  intro σ mm cm P c o hden hreg hinj hc hcm _
  simp only [PT.definedChannels] at hc
  rw [mem_dedup] at hc
  have hi : chans.idxOf c < chans.length := List.idxOf_lt_length_of_mem hc
  have hcont : chans.contains c = true := by simpa using hc
  constructor
  · intro r hr
    rw [integralOf] at hr
    simp only [hcont, Bool.not_true, Bool.false_eq_true, if_false, bind_ok_iff] at hr
    obtain ⟨ws, hws, hr⟩ := hr
    obtain ⟨hsorted, hnonneg⟩ := regular_point_spec hreg hi hws
    obtain ⟨dur, e, hlast, hdur, h0, h1⟩ := point_pulseVal hden hc hcm hws
    cases ws with
    | nil => simp at hr
    | cons w rest =>
      simp only [pure_ok_iff] at hr
      subst hr
      rw [sequenceIntegral_frontPad w rest (hnonneg w (List.mem_cons_self ..))]
      by_cases hd0 : dur = 0
      · rw [h0 hd0, pulseVal_empty]
        obtain ⟨wl, hwl1, hwl2, _⟩ := instPoint_last entries (w :: rest) hws e hlast
        rw [hdur] at hwl2
        have hlt : lastT (w :: rest) = 0 := by
          rw [lastT_eq, hwl1]
          cases hwl2; exact hd0
        have hall : ∀ x ∈ w :: rest, x.t = 0 := by
          intro x hx
          have h1 := hnonneg x hx
          have h2 := sorted_le_lastT _ hsorted x hx
          rw [hlt] at h2
          grind
        have : sequenceIntegral (frontPad (w :: rest)) = 0 := by
          apply sequenceIntegral_zero
          intro x hx
          simp only [frontPad] at hx
          split at hx
          · rcases List.mem_cons.mp hx with rfl | hx
            · rfl
            · exact hall x hx
          · exact hall x hx
        rw [this]; rfl
      · obtain ⟨hv, hs⟩ := h1 hd0
        rw [hv, plIntegral_entriesToPL _ hs]
  · intro e htags v v' hv hv'
    rw [pathTags] at htags
    simp only [bind_ok_iff, pure_ok_iff] at htags
    obtain ⟨orig, horig, htags⟩ := htags
    obtain ⟨dur, el, hlast, hdur, h0, h1⟩ := point_pulseVal hden hc hcm horig
    by_cases hd0 : dur = 0
    · rw [h0 hd0, pulseVal_empty, plEnd_nil] at hv; cases hv
    · obtain ⟨hpv, _⟩ := h1 hd0
      rw [hpv] at hv
      have htags' : tableTags e (frontPad orig) orig = [] := by
        rw [← htags]; congr 1
      cases e with
      | first =>
        simp only [endOf, hcont, Bool.not_true, Bool.false_eq_true, if_false] at hv'
        cases entries with
        | nil => simp at hv'
        | cons x r =>
          simp only at hv'
          obtain ⟨w, rest, rfl, hwv, _⟩ := instPoint_first x r orig horig
          simp only [tableTags] at htags'
          split at htags'
          · rename_i hq
            have : plEnd .first (entriesToPL (frontPad (w :: rest))) = some w.v := by simpa using hq
            rw [this] at hv; cases hv
            rw [hwv] at hv'; cases hv'; rfl
          · cases htags'
      | last =>
        simp only [endOf, hcont, Bool.not_true, Bool.false_eq_true, if_false, hlast] at hv'
        obtain ⟨w, hw1, _, hw3⟩ := instPoint_last entries orig horig el hlast
        simp only [tableTags, hw1] at htags'
        split at htags'
        · rename_i hq
          have : plEnd .last (entriesToPL (frontPad orig)) = some w.v := by simpa using hq
          rw [this] at hv; cases hv
          rw [hw3] at hv'; cases hv'; rfl
        · cases htags'


end QP.C07
