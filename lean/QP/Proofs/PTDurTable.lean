import QP.Model.PT
import QP.Proofs.PTDurAtoms
import QP.Proofs.PTCompileT
/-! `DurAtom` for `TablePulseTemplate`: `duration` = the maximum over all channels of the last entry time, and
`get_entries_instantiated` pads every channel to exactly that time. -/
namespace QP.PT

theorem ptLastEntry_t : ∀ (ws : List WEntry), ws ≠ [] → ∃ e, lastEntry? ws = some e ∧ e.t = lastT ws
  | [], h => absurd rfl h
  | [e], _ => ⟨e, rfl, rfl⟩
  | _ :: y :: ys, _ => by
      obtain ⟨e, h1, h2⟩ := ptLastEntry_t (y :: ys) (by simp)
      exact ⟨e, by simpa [lastEntry?] using h1, by simpa [lastT] using h2⟩

theorem ptInst_last (σ : Scope) : ∀ (es : List TEntry) (ws : List WEntry) (e : TEntry) (t : Rat),
    instEntries σ es = .ok ws → es.getLast? = some e → σ.eval e.t = .ok t → ws ≠ [] ∧ lastT ws = t := by
  intro es
  induction es with
  | nil => intro ws e t _ h; simp at h
  | cons x xs ih =>
    intro ws e t h hl ht
    unfold instEntries at h
    simp only [List.mapM_cons, bind_ok, pure_ok] at h
    obtain ⟨w, ⟨t0, ht0, v0, _, rfl⟩, ws', hws', rfl⟩ := h
    refine ⟨by simp, ?_⟩
    cases xs with
    | nil =>
      simp only [List.mapM_nil, pure_ok] at hws'
      subst hws'
      simp only [List.getLast?_singleton, Option.some.injEq] at hl
      subst hl
      rw [ht] at ht0; cases ht0
      rfl
    | cons y ys =>
      rw [List.getLast?_cons_cons] at hl
      obtain ⟨hne, hlt⟩ := ih ws' e t (by unfold instEntries; exact hws') hl ht
      obtain ⟨a, as, ha⟩ := List.exists_cons_of_ne_nil hne
      rw [ha] at hlt ⊢
      simpa [lastT] using hlt

def ptMax (m x : Rat) : Rat := if m ≤ x then x else m

theorem ptFoldMax_ge : ∀ (rest : List Rat) (a : Rat), a ≤ rest.foldl ptMax a ∧ ∀ x ∈ rest, x ≤ rest.foldl ptMax a := by
  intro rest
  induction rest with
  | nil => intro a; simp
  | cons y ys ih =>
    intro a
    simp only [List.foldl_cons]
    obtain ⟨h1, h2⟩ := ih (ptMax a y)
    have ha : a ≤ ptMax a y := by unfold ptMax; split <;> linarith
    have hy : y ≤ ptMax a y := by unfold ptMax; split <;> linarith
    refine ⟨le_trans ha h1, ?_⟩
    intro x hx
    rcases List.mem_cons.mp hx with rfl | hx
    · exact le_trans hy h1
    · exact h2 x hx

/-- the optional running maximum of `get_entries_instantiated` -/
def ptOptMax (m : Option Rat) (t : Rat) : Option Rat :=
  match m with
  | some x => some (if x ≤ t then t else x)
  | none => some t

theorem ptOptMax_fold : ∀ (rest : List Rat) (a : Rat),
    rest.foldl ptOptMax (some a) = some (rest.foldl ptMax a) := by
  intro rest
  induction rest with
  | nil => intro a; rfl
  | cons y ys ih => intro a; simp only [List.foldl_cons, ptOptMax]; exact ih _

theorem ptInstFold : ∀ (inst : List (Chan × List WEntry)) (ts : List Rat),
    List.Forall₂ (fun (x : Chan × List WEntry) t => x.2 ≠ [] ∧ lastT x.2 = t) inst ts → ∀ m,
    inst.foldl (fun (m : Option Rat) (x : Chan × List WEntry) => match lastEntry? x.2, m with
      | some e, some x => some (if x ≤ e.t then e.t else x)
      | some e, none => some e.t
      | none, x => x) m = ts.foldl ptOptMax m := by
  intro inst ts h
  induction h with
  | nil => intro m; rfl
  | @cons x t xs ts' hx _ ih =>
    intro m
    simp only [List.foldl_cons]
    obtain ⟨e, he, het⟩ := ptLastEntry_t x.2 hx.1
    rw [← ih]
    congr 1
    rw [he]
    cases m with
    | none => simp [ptOptMax, het, hx.2]
    | some y => simp [ptOptMax, het, hx.2]

theorem ptInst0_fst (σ : Scope) : ∀ (entries : List (Chan × List TEntry)) (inst0 : List (Chan × List WEntry)),
    entries.mapM (fun (x : Chan × List TEntry) => match x with
      | (ch, es) => do
        let ws ← instEntries σ es
        match ws with
        | [] => (Except.error Err.valueError : Except Err (Chan × List WEntry))
        | w :: _ => pure (ch, if w.t > 0 then { t := 0, v := w.v, interp := .hold } :: ws else ws)) = .ok inst0 →
    inst0.map (·.1) = entries.map (·.1) := by
  intro entries
  induction entries with
  | nil => intro inst0 h; simp only [List.mapM_nil, pure_ok] at h; subst h; rfl
  | cons x xs ih =>
    intro inst0 h
    simp only [List.mapM_cons, bind_ok, pure_ok] at h
    obtain ⟨b, ⟨ws, _, hb⟩, bs, hbs, rfl⟩ := h
    have : b.1 = x.1 := by
      cases ws with
      | nil => cases hb
      | cons w ws' => simp only [pure_ok] at hb; subst hb; rfl
    simp only [List.map_cons, this]
    rw [ih bs hbs]

/-- padding of one channel to the duration `d` -/
def ptPad (d : Rat) (x : Chan × List WEntry) : Chan × List WEntry :=
  match x with
  | (ch, ws) => match lastEntry? ws with
    | some e => (ch, if e.t < d then ws ++ [({ t := d, v := e.v, interp := .hold } : WEntry)] else ws)
    | none => (ch, ws)

/-- `TablePT` that keeps a channel -/
theorem durAtom_table (id : Option String) (entries : List (Chan × List TEntry)) (meas : List MeasDecl)
    (cons : List Expr) (σ : Scope) (cm : List (Chan × Option Chan))
    (hkeep : ∃ ch es o, (ch, es) ∈ entries ∧ cm.lookup ch = some (some o)) :
    DurAtom (.table id entries meas cons) σ cm := by
  intro mm d P hd h2
  obtain ⟨kch, kes, ko, hkmem, hklook⟩ := hkeep
  have hcl : chanLookup cm kch = .ok (some ko) := by simp [chanLookup, hklook]
  simp only [templateDuration, bind_ok] at hd
  obtain ⟨ts, hts, hd⟩ := hd
  simp only [denote, bind_ok] at h2
  obtain ⟨_, _, inst, hinst, mapped, hmapped, h2⟩ := h2
  unfold tableInstantiate at hinst
  obtain ⟨inst0, hinst0, hinst⟩ := bind_ok.mp hinst
  -- channel by channel: the instantiated list ends at the evaluated last time
  have hfor : List.Forall₂ (fun (x : Chan × List WEntry) t => x.2 ≠ [] ∧ lastT x.2 = t) inst0 ts := by
    refine mapM_forall2 _ _ _ entries inst0 ts hinst0 hts ?_
    intro x _ b t hb ht
    obtain ⟨ch, es⟩ := x
    obtain ⟨ws, hws, hb⟩ := bind_ok.mp hb
    cases hgl : es.getLast? with
    | none => simp only [hgl] at ht; cases ht
    | some e =>
      simp only [hgl] at ht
      obtain ⟨hne, hl⟩ := ptInst_last σ es ws e t hws hgl ht
      obtain ⟨w, ws', hw⟩ := List.exists_cons_of_ne_nil hne
      subst hw
      simp only [pure_ok] at hb
      subst hb
      simp only
      split
      · exact ⟨by simp, by simpa [lastT] using hl⟩
      · exact ⟨by simp, hl⟩
  have hfst : inst0.map (·.1) = entries.map (·.1) := ptInst0_fst σ entries inst0 hinst0
  dsimp only at hinst
  change (match inst0.foldl (fun (m : Option Rat) (x : Chan × List WEntry) => match lastEntry? x.2, m with
      | some e, some x => some (if x ≤ e.t then e.t else x)
      | some e, none => some e.t
      | none, x => x) none with
    | none => pure []
    | some d => if d = 0 then pure [] else
      pure (inst0.map (ptPad d))) = Except.ok inst at hinst
  rw [ptInstFold inst0 ts hfor none] at hinst
  cases ts with
  | nil => cases hd
  | cons t0 rest =>
    simp only [pure_ok] at hd
    have hd' : d = rest.foldl ptMax t0 := by rw [← hd]; rfl
    simp only [List.foldl_cons, ptOptMax, ptOptMax_fold] at hinst
    rw [← hd'] at hinst
    by_cases hd0 : d = 0
    · simp only [hd0, if_true, pure_ok] at hinst
      subst hinst
      simp only [List.filterMapM_nil, pure_ok] at hmapped
      subst hmapped
      simp only [List.isEmpty_nil, if_true, pure_ok] at h2
      subst h2
      rw [hd0]; exact durFact_empty
    · simp only [hd0, if_false, pure_ok] at hinst
      subst hinst
      obtain ⟨hmax0, hmaxr⟩ := ptFoldMax_ge rest t0
      have hle : ∀ x ∈ inst0, lastT x.2 ≤ d := by
        intro x hx
        obtain ⟨i, hi, rfl⟩ := List.mem_iff_getElem.mp hx
        have hlen := hfor.length_eq
        have := List.forall₂_iff_get.mp hfor |>.2 i hi (by rw [← hlen]; exact hi)
        simp only [List.get_eq_getElem] at this
        rw [this.2, hd']
        have hm : (t0 :: rest)[i]'(by rw [← hlen]; exact hi) ∈ t0 :: rest := List.getElem_mem _
        rcases List.mem_cons.mp hm with h | h
        · rw [h]; exact hmax0
        · exact hmaxr _ h
      -- every padded channel ends at `d`
      have hpad : ∀ y ∈ inst0.map (ptPad d), lastT y.2 = d ∧ ∃ x ∈ inst0, y.1 = x.1 := by
        intro y hy
        obtain ⟨x, hx, rfl⟩ := List.mem_map.mp hy
        obtain ⟨ch, ws⟩ := x
        have hne : ws ≠ [] := by
          obtain ⟨i, hi, hxi⟩ := List.mem_iff_getElem.mp hx
          have hlen := hfor.length_eq
          have := List.forall₂_iff_get.mp hfor |>.2 i hi (by rw [← hlen]; exact hi)
          simp only [List.get_eq_getElem, hxi] at this
          exact this.1
        obtain ⟨e, he, het⟩ := ptLastEntry_t ws hne
        simp only [ptPad, he]
        refine ⟨?_, (ch, ws), hx, rfl⟩
        by_cases hlt : e.t < d
        · simp only [hlt, if_true]
          exact lastT_append_single ws _
        · simp only [hlt, if_false]
          have := hle (ch, ws) hx
          simp only at this
          rw [← het] at this ⊢
          linarith [not_lt.mp hlt]
      -- the kept channel is among the mapped ones
      have hmne : mapped ≠ [] := by
        have hkin : kch ∈ inst0.map (·.1) := by
          rw [hfst]; exact List.mem_map.mpr ⟨(kch, kes), hkmem, rfl⟩
        obtain ⟨x0, hx0, hx0k⟩ := List.mem_map.mp hkin
        have hyin := List.mem_map_of_mem (f := ptPad d) hx0
        obtain ⟨r, hr, hy⟩ := filterMapM_mem_conv _ _ mapped hmapped _ hyin
        have hk1 : (ptPad d x0).1 = kch := by
          obtain ⟨ch, ws⟩ := x0
          simp only at hx0k
          subst hx0k
          cases h : lastEntry? ws <;> simp [ptPad, h]
        obtain ⟨o', ho', hr⟩ := bind_ok.mp hr
        rw [hk1, hcl] at ho'
        cases ho'
        simp only [Option.map_some, pure_ok] at hr
        exact List.ne_nil_of_mem (hy _ hr.symm)
      have hemp : mapped.isEmpty = false := by simpa using hmne
      simp only [hemp, Bool.false_eq_true, if_false, bind_ok] at h2
      obtain ⟨chans, hchans, h2⟩ := h2
      split at h2
      · cases h2
      · simp only [bind_ok, pure_ok] at h2
        obtain ⟨ms, _, rfl⟩ := h2
        obtain ⟨m0, ms0, hm0⟩ := List.exists_cons_of_ne_nil hmne
        subst hm0
        obtain ⟨x, hx, hfx⟩ := filterMapM_mem _ _ _ hmapped m0 (by simp)
        obtain ⟨o', _, hfx⟩ := bind_ok.mp hfx
        have hm0ws : m0.2 = x.2 := by
          cases o' with
          | none => simp [pure_ok] at hfx
          | some oo =>
            simp only [Option.map_some, pure_ok, Option.some.injEq] at hfx
            rw [← hfx]
        refine ⟨?_, ?_⟩
        · obtain ⟨c0, w0⟩ := m0
          simp only at hm0ws ⊢
          rw [hm0ws]
          exact ((hpad x hx).1).symm
        · intro h0
          exfalso
          simp only at h0
          subst h0
          obtain ⟨hl, _⟩ := ptMapM_forall _ _ _ hchans
          simp at hl

end QP.PT

namespace QP.PT

/-- `ArithmeticAtomicPT` both of whose operands satisfy the statement and denote non-empty pulses -/
theorem durAtom_arithAtomic (id : Option String) (lhs : PT) (minus : Bool) (rhs : PT) (meas : List MeasDecl)
    (σ : Scope) (cm : List (Chan × Option Chan)) (hl : DurAtom lhs σ cm) (hr : DurAtom rhs σ cm)
    (hnl : ∀ mm P, denote lhs σ mm cm = .ok P → P.chans ≠ [])
    (hnr : ∀ mm P, denote rhs σ mm cm = .ok P → P.chans ≠ []) :
    DurAtom (.arithAtomic id lhs minus rhs meas) σ cm := by
  intro mm d P hd h2
  simp only [templateDuration, bind_ok, pure_ok] at hd
  obtain ⟨dl, hdl, dr, hdr, rfl⟩ := hd
  rw [denote] at h2
  obtain ⟨Pl, hPl, h2⟩ := bind_ok.mp h2
  obtain ⟨Pr, hPr, h2⟩ := bind_ok.mp h2
  have fl := hl mm dl Pl hdl hPl
  have fr := hr mm dr Pr hdr hPr
  have nl := hnl mm Pl hPl
  have nr := hnr mm Pr hPr
  have hel : Pl.isEmpty = false := by simpa [Pulse.isEmpty] using nl
  have her : Pr.isEmpty = false := by simpa [Pulse.isEmpty] using nr
  dsimp only at h2
  simp only [hel, her, Bool.false_and, Bool.false_eq_true, if_false] at h2
  obtain ⟨ms, _, h2⟩ := bind_ok.mp h2
  split at h2
  · cases h2
  · rename_i heq
    have heq' : Pl.dur = Pr.dur := by simpa using heq
    cases pure_ok.mp h2
    refine ⟨?_, ?_⟩
    · simp only
      rw [fl.1, fr.1, heq']
      simp
    · intro h0
      exfalso
      obtain ⟨x, xs, hx⟩ := List.exists_cons_of_ne_nil nl
      simp [hx] at h0

end QP.PT
