import QP.Model.PT
import QP.Proofs.PTArithAtomic2
import QP.Proofs.PTPoint
/-! The channel names of the pulse an atomic template denotes are distinct (`denote` checks it where the code
does). -/
namespace QP.PT

theorem hasDup_empty : hasDup Pulse.empty.chanNames = false := rfl

theorem denoteND_const (id : Option String) (dur : Expr) (amps : List (Chan × Expr)) (meas : List MeasDecl) :
    DenoteND (.const id dur amps meas) := by
  intro σ mm cm P h
  simp only [denote, bind_ok] at h
  obtain ⟨d, _, h⟩ := h
  split at h
  · obtain ⟨cvs, _, h⟩ := bind_ok.mp h
    split at h
    · cases pure_ok.mp h; rfl
    · split at h
      · cases h
      · rename_i hd
        obtain ⟨ms, _, h⟩ := bind_ok.mp h
        cases pure_ok.mp h
        simp only [Pulse.chanNames, List.map_map]
        have : (dictOfList cvs).map ((fun (x : Chan × PL) => x.1) ∘ fun (x : Chan × Rat) => match x with
            | (c, v) => (c, ([{ len := d, v0 := v, v1 := v }] : PL))) = (dictOfList cvs).map (·.1) := by
          apply List.map_congr_left; intro x _; rfl
        rw [this]
        simpa using hd
  · cases pure_ok.mp h; rfl

theorem denoteND_func (id : Option String) (ch : Chan) (dur e : Expr) (meas : List MeasDecl) (cons : List Expr) :
    DenoteND (.func id ch dur e meas cons) := by
  intro σ mm cm P h
  simp only [denote, bind_ok] at h
  obtain ⟨_, _, o, _, h⟩ := h
  cases o with
  | none => cases pure_ok.mp h; rfl
  | some oc =>
    simp only [bind_ok] at h
    obtain ⟨d, _, h⟩ := h
    split at h
    · cases h
    · simp only [bind_ok, pure_ok] at h
      obtain ⟨a, _, b, _, ms, _, rfl⟩ := h
      simp [Pulse.chanNames, hasDup]

theorem denoteND_table (id : Option String) (entries : List (Chan × List TEntry)) (meas : List MeasDecl)
    (cons : List Expr) : DenoteND (.table id entries meas cons) := by
  intro σ mm cm P h
  simp only [denote, bind_ok] at h
  obtain ⟨_, _, inst, _, mapped, _, h⟩ := h
  split at h
  · cases pure_ok.mp h; rfl
  · obtain ⟨chans, _, h⟩ := bind_ok.mp h
    split at h
    · cases h
    · rename_i hd
      obtain ⟨ms, _, h⟩ := bind_ok.mp h
      cases pure_ok.mp h
      simpa [Pulse.chanNames] using hd

theorem denoteND_atomicMulti (id : Option String) (subs : List PT) (dur : Option Expr) (meas : List MeasDecl)
    (cons : List Expr) : DenoteND (.atomicMulti id subs dur meas cons) := by
  intro σ mm cm P h
  simp only [denote, bind_ok] at h
  obtain ⟨_, _, parts, _, h⟩ := h
  split at h
  · cases pure_ok.mp h; rfl
  · split at h
    · cases h
    · rename_i hd
      split at h
      · cases h
      · have hP : P.chans = mergeChans (List.filter (fun p => !p.isEmpty) parts) := by
          cases dur with
          | none =>
            obtain ⟨ms, _, h⟩ := bind_ok.mp h
            cases pure_ok.mp h; rfl
          | some de =>
            obtain ⟨ex, _, h⟩ := bind_ok.mp h
            split at h
            · obtain ⟨_, h0, _⟩ := bind_ok.mp h
              cases h0
            · obtain ⟨ms, _, h⟩ := bind_ok.mp h
              cases pure_ok.mp h; rfl
        simp only [Pulse.chanNames, hP]
        simpa using hd

theorem denoteND_point (id : Option String) (chans : List Chan) (entries : List PEntry) (meas : List MeasDecl)
    (cons : List Expr) : DenoteND (.point id chans entries meas cons) := by
  intro σ mm cm P h2
  rw [denote] at h2
  obtain ⟨_, _, h2⟩ := bind_ok.mp h2
  obtain ⟨mappedAll, _, h2⟩ := bind_ok.mp h2
  split at h2
  · cases pure_ok.mp h2; rfl
  · cases hgl : entries.getLast? with
    | none => rw [hgl] at h2; cases h2
    | some elast =>
      rw [hgl] at h2
      obtain ⟨dur, _, h2⟩ := bind_ok.mp h2
      dsimp only at h2
      split at h2
      · cases pure_ok.mp h2; rfl
      · obtain ⟨mapped, _, h2⟩ := bind_ok.mp h2
        obtain ⟨inst, _, h2⟩ := bind_ok.mp h2
        obtain ⟨cs, _, h2⟩ := bind_ok.mp h2
        split at h2
        · cases h2
        · rename_i hd
          obtain ⟨ms, _, h2⟩ := bind_ok.mp h2
          cases pure_ok.mp h2
          simpa [Pulse.chanNames] using hd

theorem denoteND_arithAtomic (id : Option String) (lhs : PT) (minus : Bool) (rhs : PT) (meas : List MeasDecl)
    (hl : DenoteND lhs) (hr : DenoteND rhs) : DenoteND (.arithAtomic id lhs minus rhs meas) := by
  intro σ mm cm P h2
  rw [denote] at h2
  obtain ⟨Pl, hPl, h2⟩ := bind_ok.mp h2
  obtain ⟨Pr, hPr, h2⟩ := bind_ok.mp h2
  have il := hl σ mm cm Pl hPl
  have ir := hr σ mm cm Pr hPr
  dsimp only at h2
  split at h2
  · cases pure_ok.mp h2; rfl
  · obtain ⟨ms, _, h2⟩ := bind_ok.mp h2
    split at h2
    · cases pure_ok.mp h2; exact il
    · split at h2
      · cases pure_ok.mp h2
        have : Pulse.chanNames { dur := Pr.dur, chans := Pr.chans.map (fun (x : Chan × PL) => match x with
              | (c, pl) => (c, if minus = true then PL.mapV (fun v => -v) pl else pl)), windows := ms } = Pr.chanNames := by
          simp only [Pulse.chanNames, List.map_map]
          apply List.map_congr_left
          intro x _; rfl
        rw [this]; exact ir
      · split at h2
        · cases h2
        · have hP : P = { dur := Pl.dur, chans := aaChansP minus Pl Pr, windows := ms } := by
            rw [← pure_ok.mp h2]
            simp only [Pulse.mk.injEq, true_and, and_true]
            unfold aaChansP sgnP
            rw [← aaF_eq]
            congr 1
            apply List.map_congr_left
            intro x _
            cases Pr.chans.lookup x.1 <;> rfl
          subst hP
          exact hasDup_aa minus Pl Pr il ir

end QP.PT
