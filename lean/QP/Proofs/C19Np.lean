import QP.Model.C19
/-! Lemmas about the numpy primitives of the C19 model (no Mathlib needed). -/
namespace QP.C19

theorem mem_flatnonzero {m : List Bool} {i : Nat} : i ∈ flatnonzero m ↔ m[i]? = some true := by
  unfold flatnonzero
  simp only [List.mem_filter, List.mem_range, beq_iff_eq]
  constructor
  · intro h; exact h.2
  · intro h
    refine ⟨?_, h⟩
    by_cases hlt : i < m.length
    · exact hlt
    · simp [List.getElem?_eq_none (Nat.le_of_not_lt hlt)] at h

theorem flatnonzero_sorted (m : List Bool) : (flatnonzero m).Pairwise (· < ·) := by
  unfold flatnonzero
  exact List.Pairwise.filter _ List.pairwise_lt_range

theorem getLast?_max {l : List Nat} (h : l.Pairwise (· < ·)) {x : Nat} (hx : l.getLast? = some x) :
    ∀ y, y ∈ l → y ≤ x := by
  induction l with
  | nil => intro y hy; cases hy
  | cons a t ih =>
    intro y hy
    rw [List.pairwise_cons] at h
    cases t with
    | nil =>
      simp at hx hy
      omega
    | cons b t' =>
      have hx' : (b :: t').getLast? = some x := by simpa [List.getLast?_cons_cons] using hx
      have hmem : x ∈ b :: t' := List.mem_of_getLast? hx'
      rcases List.mem_cons.mp hy with rfl | hy'
      · exact Nat.le_of_lt (h.1 x hmem)
      · exact ih h.2 hx' y hy'

theorem firstFree_spec {refs : List Nat} {s r : Nat} (h : refs[s]? = some r) (hr : 0 < r) :
    s < firstFree refs := by
  unfold firstFree
  have hm : s ∈ flatnonzero (refs.map (fun r => decide (0 < r))) := by
    rw [mem_flatnonzero]; simp [h, hr]
  cases hl : (flatnonzero (refs.map (fun r => decide (0 < r)))).getLast? with
  | none =>
    rw [List.getLast?_eq_none_iff] at hl
    rw [hl] at hm; cases hm
  | some l =>
    have := getLast?_max (flatnonzero_sorted _) hl s hm
    simp only; omega

theorem firstFree_le (refs : List Nat) : firstFree refs ≤ refs.length := by
  unfold firstFree
  cases hl : (flatnonzero (refs.map (fun r => decide (0 < r)))).getLast? with
  | none => simp
  | some l =>
    have hm := List.mem_of_getLast? hl
    rw [mem_flatnonzero] at hm
    have : l < (refs.map (fun r => decide (0 < r))).length := by
      by_cases hlt : l < (refs.map (fun r => decide (0 < r))).length
      · exact hlt
      · simp [List.getElem?_eq_none (Nat.le_of_not_lt hlt)] at hm
    simp at this
    simp only; omega

theorem gather_mem {α} {xs : List α} {ks : List Nat} {r : List α} (h : gather xs ks = .ok r) :
    ∀ y, y ∈ r → y ∈ xs := by
  induction ks generalizing r with
  | nil => simp [gather] at h; subst h; intro y hy; cases hy
  | cons k ks ih =>
    unfold gather at h
    split at h
    · cases h
    · rename_i x hx
      split at h
      · cases h
      · rename_i r' hr'
        cases h
        intro y hy
        rcases List.mem_cons.mp hy with rfl | hy'
        · exact List.mem_of_getElem? hx
        · exact ih hr' y hy'

theorem updAt_spec {a : List Nat} {idx : List Int} {f : Nat → Nat} {a' : List Nat}
    (h : updAt a idx f = .ok a') :
    a'.length = a.length ∧
    ∀ s, a'[s]? = (a[s]?).map (fun r => if idx.any (fun k => normIdx a.length k == some s) then f r else r) := by
  unfold updAt at h
  split at h
  · cases h
    constructor
    · simp
    · intro s; simp [List.getElem?_mapIdx]
  · cases h

theorem normIdx_nonneg {n : Nat} {k : Int} {s : Nat} (hk : 0 ≤ k) (h : normIdx n k = some s) :
    s = k.toNat ∧ s < n := by
  unfold normIdx at h
  split at h
  · cases h; omega
  · split at h
    · omega
    · cases h

theorem normIdx_of_lt {n : Nat} {k : Int} (hk : 0 ≤ k) (h : k.toNat < n) : normIdx n k = some k.toNat := by
  unfold normIdx
  have : k < n := by omega
  simp [hk, this]

/-! ### find_positions -/

theorem takeWhile_length_getElem?_not {α} (p : α → Bool) (l : List α) {x : α}
    (h : l[(l.takeWhile p).length]? = some x) : p x = false := by
  induction l with
  | nil => simp at h
  | cons a t ih =>
    by_cases hp : p a
    · simp [hp] at h
      exact ih h
    · simp [hp] at h
      subst h; simpa using hp

theorem getElem?_lt_takeWhile_length {α} (p : α → Bool) (l : List α) {i : Nat} {x : α}
    (hi : i < (l.takeWhile p).length) (h : l[i]? = some x) : p x = true := by
  induction l generalizing i with
  | nil => simp at h
  | cons a t ih =>
    by_cases hp : p a
    · simp [hp] at hi
      cases i with
      | zero => simp at h; subst h; exact hp
      | succ j =>
        simp at h
        exact ih (by omega) h
    · simp [hp] at hi

theorem mem_insertSorted {α} (le : α → α → Bool) (x y : α) (l : List α) :
    y ∈ insertSorted le x l ↔ y = x ∨ y ∈ l := by
  induction l with
  | nil => simp [insertSorted]
  | cons a t ih =>
    unfold insertSorted
    split
    · simp
    · simp [ih]; constructor
      · rintro (h | h | h) <;> simp [h]
      · rintro (h | h | h) <;> simp [h]

theorem mem_stableSort {α} (le : α → α → Bool) (y : α) (l : List α) :
    y ∈ stableSort le l ↔ y ∈ l := by
  induction l with
  | nil => simp [stableSort]
  | cons a t ih =>
    have : stableSort le (a :: t) = insertSorted le a (stableSort le t) := rfl
    rw [this, mem_insertSorted, ih]; simp

theorem insertSorted_sorted {α} (le : α → α → Bool) (htot : ∀ a b, le a b = true ∨ le b a = true)
    (htr : ∀ a b c, le a b = true → le b c = true → le a c = true) (x : α) (l : List α)
    (h : l.Pairwise (fun a b => le a b = true)) : (insertSorted le x l).Pairwise (fun a b => le a b = true) := by
  induction l with
  | nil => simp [insertSorted]
  | cons a t ih =>
    rw [List.pairwise_cons] at h
    unfold insertSorted
    split
    · rename_i hxa
      rw [List.pairwise_cons]
      refine ⟨?_, List.pairwise_cons.mpr h⟩
      intro b hb
      rcases List.mem_cons.mp hb with rfl | hb'
      · exact hxa
      · exact htr _ _ _ hxa (h.1 b hb')
    · rename_i hxa
      rw [List.pairwise_cons]
      refine ⟨?_, ih h.2⟩
      intro b hb
      rw [mem_insertSorted] at hb
      rcases hb with rfl | hb'
      · rcases htot b a with h1 | h1
        · exact absurd h1 hxa
        · exact h1
      · exact h.1 b hb'

/-- the sort used for `argsort(kind='stable')` / `find_positions` yields a sorted permutation -/
theorem stableSort_sorted {α} (le : α → α → Bool) (htot : ∀ a b, le a b = true ∨ le b a = true)
    (htr : ∀ a b c, le a b = true → le b c = true → le a c = true) (l : List α) :
    (stableSort le l).Pairwise (fun a b => le a b = true) := by
  induction l with
  | nil => simp [stableSort]
  | cons a t ih =>
    have : stableSort le (a :: t) = insertSorted le a (stableSort le t) := rfl
    rw [this]; exact insertSorted_sorted le htot htr a _ ih

theorem mem_sortedPairs {data : List Int} {p : Int × Nat} (h : p ∈ sortedPairs data) :
    data[p.2]? = some p.1 := by
  unfold sortedPairs at h
  have hp : p ∈ data.zipIdx := (mem_stableSort _ _ _).mp h
  obtain ⟨v, i⟩ := p
  have := List.mem_zipIdx hp
  simp at this
  obtain ⟨hlt, hv⟩ := this
  simp [hv, hlt]

theorem findPosition_sound {data : List Int} {x v : Int} (h : findPosition data x = v) (hv : v ≠ -1) :
    0 ≤ v ∧ data[v.toNat]? = some x := by
  unfold findPosition at h
  simp only at h
  split at h
  · rename_i hlt
    split at h
    · rename_i p hp
      have hmem : p ∈ sortedPairs data := List.mem_of_getElem? hp
      have hd := mem_sortedPairs hmem
      have h1 := takeWhile_length_getElem?_not _ _ hp
      have h2 := getElem?_lt_takeWhile_length (fun p => decide (p.1 ≤ x)) _ hlt hp
      simp at h1 h2
      have : p.1 = x := by omega
      subst h
      constructor
      · omega
      · simpa [this] using hd
    · exact absurd h.symm hv
  · exact absurd h.symm hv

theorem findPosition_ge (data : List Int) (x : Int) : findPosition data x = -1 ∨ 0 ≤ findPosition data x := by
  by_cases h : findPosition data x = -1
  · exact Or.inl h
  · exact Or.inr (findPosition_sound rfl h).1

end QP.C19
