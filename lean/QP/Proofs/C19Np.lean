import QP.Model.C19
/-! Lemmas about the numpy primitives of the C19 model (no Mathlib needed). -/
namespace QP.C19

theorem getElem?_lt_of_some {α} {l : List α} {k : Nat} {x : α} (h : l[k]? = some x) : k < l.length := by
  by_cases hlt : k < l.length
  · exact hlt
  · simp [List.getElem?_eq_none (Nat.le_of_not_lt hlt)] at h


theorem mem_flatnonzero {m : List Bool} {i : Nat} : i ∈ flatnonzero m ↔ m[i]? = some true := by
  unfold flatnonzero
  simp only [List.mem_filter, List.mem_range, beq_iff_eq]
  constructor
  · intro h; exact h.2
  · intro h
    refine ⟨?_, h⟩
    by_cases hlt : i < m.length
    · exact hlt
    · simp [List.getElem?_eq_none (Nat.le_of_not_lt hlt)] at h

theorem flatnonzero_sorted (m : List Bool) : (flatnonzero m).Pairwise (· < ·) := by
  unfold flatnonzero
  exact List.Pairwise.filter _ List.pairwise_lt_range

theorem getLast?_max {l : List Nat} (h : l.Pairwise (· < ·)) {x : Nat} (hx : l.getLast? = some x) :
    ∀ y, y ∈ l → y ≤ x := by
  induction l with
  | nil => intro y hy; cases hy
  | cons a t ih =>
    intro y hy
    rw [List.pairwise_cons] at h
    cases t with
    | nil =>
      simp at hx hy
      omega
    | cons b t' =>
      have hx' : (b :: t').getLast? = some x := by simpa [List.getLast?_cons_cons] using hx
      have hmem : x ∈ b :: t' := List.mem_of_getLast? hx'
      rcases List.mem_cons.mp hy with rfl | hy'
      · exact Nat.le_of_lt (h.1 x hmem)
      · exact ih h.2 hx' y hy'

theorem firstFree_spec {refs : List Nat} {s r : Nat} (h : refs[s]? = some r) (hr : 0 < r) :
    s < firstFree refs := by
  unfold firstFree
  have hm : s ∈ flatnonzero (refs.map (fun r => decide (0 < r))) := by
    rw [mem_flatnonzero]; simp [h, hr]
  cases hl : (flatnonzero (refs.map (fun r => decide (0 < r)))).getLast? with
  | none =>
    rw [List.getLast?_eq_none_iff] at hl
    rw [hl] at hm; cases hm
  | some l =>
    have := getLast?_max (flatnonzero_sorted _) hl s hm
    simp only; omega

theorem firstFree_le (refs : List Nat) : firstFree refs ≤ refs.length := by
  unfold firstFree
  cases hl : (flatnonzero (refs.map (fun r => decide (0 < r)))).getLast? with
  | none => simp
  | some l =>
    have hm := List.mem_of_getLast? hl
    rw [mem_flatnonzero] at hm
    have : l < (refs.map (fun r => decide (0 < r))).length := by
      by_cases hlt : l < (refs.map (fun r => decide (0 < r))).length
      · exact hlt
      · simp [List.getElem?_eq_none (Nat.le_of_not_lt hlt)] at hm
    simp at this
    simp only; omega

theorem gather_mem {α} {xs : List α} {ks : List Nat} {r : List α} (h : gather xs ks = .ok r) :
    ∀ y, y ∈ r → y ∈ xs := by
  induction ks generalizing r with
  | nil => simp [gather] at h; subst h; intro y hy; cases hy
  | cons k ks ih =>
    unfold gather at h
    split at h
    · cases h
    · rename_i x hx
      split at h
      · cases h
      · rename_i r' hr'
        cases h
        intro y hy
        rcases List.mem_cons.mp hy with rfl | hy'
        · exact List.mem_of_getElem? hx
        · exact ih hr' y hy'

theorem updAt_spec {a : List Nat} {idx : List Int} {f : Nat → Nat} {a' : List Nat}
    (h : updAt a idx f = .ok a') :
    a'.length = a.length ∧
    ∀ s, a'[s]? = (a[s]?).map (fun r => if idx.any (fun k => normIdx a.length k == some s) then f r else r) := by
  unfold updAt at h
  split at h
  · cases h
    constructor
    · simp
    · intro s; simp [List.getElem?_mapIdx]
  · cases h

theorem normIdx_nonneg {n : Nat} {k : Int} {s : Nat} (hk : 0 ≤ k) (h : normIdx n k = some s) :
    s = k.toNat ∧ s < n := by
  unfold normIdx at h
  split at h
  · cases h; omega
  · split at h
    · omega
    · cases h

theorem normIdx_of_lt {n : Nat} {k : Int} (hk : 0 ≤ k) (h : k.toNat < n) : normIdx n k = some k.toNat := by
  unfold normIdx
  have : k < n := by omega
  simp [hk, this]

/-! ### find_positions -/

theorem takeWhile_length_getElem?_not {α} (p : α → Bool) (l : List α) {x : α}
    (h : l[(l.takeWhile p).length]? = some x) : p x = false := by
  induction l with
  | nil => simp at h
  | cons a t ih =>
    by_cases hp : p a
    · simp [hp] at h
      exact ih h
    · simp [hp] at h
      subst h; simpa using hp

theorem getElem?_lt_takeWhile_length {α} (p : α → Bool) (l : List α) {i : Nat} {x : α}
    (hi : i < (l.takeWhile p).length) (h : l[i]? = some x) : p x = true := by
  induction l generalizing i with
  | nil => simp at h
  | cons a t ih =>
    by_cases hp : p a
    · simp [hp] at hi
      cases i with
      | zero => simp at h; subst h; exact hp
      | succ j =>
        simp at h
        exact ih (by omega) h
    · simp [hp] at hi

theorem mem_insertSorted {α} (le : α → α → Bool) (x y : α) (l : List α) :
    y ∈ insertSorted le x l ↔ y = x ∨ y ∈ l := by
  induction l with
  | nil => simp [insertSorted]
  | cons a t ih =>
    unfold insertSorted
    split
    · simp
    · simp [ih]; constructor
      · rintro (h | h | h) <;> simp [h]
      · rintro (h | h | h) <;> simp [h]

theorem mem_stableSort {α} (le : α → α → Bool) (y : α) (l : List α) :
    y ∈ stableSort le l ↔ y ∈ l := by
  induction l with
  | nil => simp [stableSort]
  | cons a t ih =>
    have : stableSort le (a :: t) = insertSorted le a (stableSort le t) := rfl
    rw [this, mem_insertSorted, ih]; simp

theorem insertSorted_sorted {α} (le : α → α → Bool) (htot : ∀ a b, le a b = true ∨ le b a = true)
    (htr : ∀ a b c, le a b = true → le b c = true → le a c = true) (x : α) (l : List α)
    (h : l.Pairwise (fun a b => le a b = true)) : (insertSorted le x l).Pairwise (fun a b => le a b = true) := by
  induction l with
  | nil => simp [insertSorted]
  | cons a t ih =>
    rw [List.pairwise_cons] at h
    unfold insertSorted
    split
    · rename_i hxa
      rw [List.pairwise_cons]
      refine ⟨?_, List.pairwise_cons.mpr h⟩
      intro b hb
      rcases List.mem_cons.mp hb with rfl | hb'
      · exact hxa
      · exact htr _ _ _ hxa (h.1 b hb')
    · rename_i hxa
      rw [List.pairwise_cons]
      refine ⟨?_, ih h.2⟩
      intro b hb
      rw [mem_insertSorted] at hb
      rcases hb with rfl | hb'
      · rcases htot b a with h1 | h1
        · exact absurd h1 hxa
        · exact h1
      · exact h.1 b hb'

/-- the sort used for `argsort(kind='stable')` / `find_positions` yields a sorted permutation -/
theorem stableSort_sorted {α} (le : α → α → Bool) (htot : ∀ a b, le a b = true ∨ le b a = true)
    (htr : ∀ a b c, le a b = true → le b c = true → le a c = true) (l : List α) :
    (stableSort le l).Pairwise (fun a b => le a b = true) := by
  induction l with
  | nil => simp [stableSort]
  | cons a t ih =>
    have : stableSort le (a :: t) = insertSorted le a (stableSort le t) := rfl
    rw [this]; exact insertSorted_sorted le htot htr a _ ih

theorem mem_sortedPairs {data : List Int} {p : Int × Nat} (h : p ∈ sortedPairs data) :
    data[p.2]? = some p.1 := by
  unfold sortedPairs at h
  have hp : p ∈ data.zipIdx := (mem_stableSort _ _ _).mp h
  obtain ⟨v, i⟩ := p
  have := List.mem_zipIdx hp
  simp at this
  obtain ⟨hlt, hv⟩ := this
  simp [hv, hlt]

theorem findPosition_sound {data : List Int} {x v : Int} (h : findPosition data x = v) (hv : v ≠ -1) :
    0 ≤ v ∧ data[v.toNat]? = some x := by
  unfold findPosition at h
  simp only at h
  split at h
  · rename_i hlt
    split at h
    · rename_i p hp
      have hmem : p ∈ sortedPairs data := List.mem_of_getElem? hp
      have hd := mem_sortedPairs hmem
      have h1 := takeWhile_length_getElem?_not _ _ hp
      have h2 := getElem?_lt_takeWhile_length (fun p => decide (p.1 ≤ x)) _ hlt hp
      simp at h1 h2
      have : p.1 = x := by omega
      subst h
      constructor
      · omega
      · simpa [this] using hd
    · exact absurd h.symm hv
  · exact absurd h.symm hv

theorem findPosition_ge (data : List Int) (x : Int) : findPosition data x = -1 ∨ 0 ≤ findPosition data x := by
  by_cases h : findPosition data x = -1
  · exact Or.inl h
  · exact Or.inr (findPosition_sound rfl h).1

/-- order of `(value, index)` pairs: by value, ties by index -/
def LexLt (a b : Int × Nat) : Prop := a.1 < b.1 ∨ (a.1 = b.1 ∧ a.2 < b.2)

theorem insertSorted_lex (x : Int × Nat) (l : List (Int × Nat))
    (hx : ∀ y, y ∈ l → x.2 < y.2) (h : l.Pairwise LexLt) :
    (insertSorted (fun a b => decide (a.1 ≤ b.1)) x l).Pairwise LexLt := by
  induction l with
  | nil => simp [insertSorted]
  | cons a t ih =>
    rw [List.pairwise_cons] at h
    unfold insertSorted
    split
    · rename_i hxa
      simp at hxa
      rw [List.pairwise_cons]
      refine ⟨?_, List.pairwise_cons.mpr h⟩
      intro b hb
      have hxb := hx b hb
      rcases List.mem_cons.mp hb with rfl | hb'
      · unfold LexLt; omega
      · have := h.1 b hb'
        unfold LexLt at this ⊢; omega
    · rename_i hxa
      simp at hxa
      rw [List.pairwise_cons]
      refine ⟨?_, ih (fun y hy => hx y (List.mem_cons_of_mem _ hy)) h.2⟩
      intro b hb
      rw [mem_insertSorted] at hb
      rcases hb with rfl | hb'
      · unfold LexLt; omega
      · exact h.1 b hb'

theorem stableSort_zipIdx_lex (data : List Int) (k : Nat) :
    (stableSort (fun a b => decide (a.1 ≤ b.1)) (data.zipIdx k)).Pairwise LexLt := by
  induction data generalizing k with
  | nil => simp [stableSort]
  | cons a t ih =>
    have : stableSort (fun a b => decide (a.1 ≤ b.1)) ((a :: t).zipIdx k) =
        insertSorted (fun a b => decide (a.1 ≤ b.1)) (a, k)
          (stableSort (fun a b => decide (a.1 ≤ b.1)) (t.zipIdx (k + 1))) := by
      simp [List.zipIdx_cons, stableSort]
    rw [this]
    apply insertSorted_lex _ _ _ (ih (k + 1))
    intro y hy
    rw [mem_stableSort] at hy
    obtain ⟨v, i⟩ := y
    have := List.mem_zipIdx hy
    simp; omega

theorem sortedPairs_lex (data : List Int) : (sortedPairs data).Pairwise LexLt :=
  stableSort_zipIdx_lex data 0

theorem mem_sortedPairs_iff {data : List Int} {p : Int × Nat} :
    p ∈ sortedPairs data ↔ data[p.2]? = some p.1 := by
  constructor
  · exact mem_sortedPairs
  · intro h
    unfold sortedPairs
    rw [mem_stableSort]
    obtain ⟨v, i⟩ := p
    rw [List.mem_zipIdx_iff_getElem?]
    simpa using h

/-- in a list, an element that does not satisfy `p` sits at or behind the end of `takeWhile p` -/
theorem takeWhile_length_le_of_not {α} (p : α → Bool) (l : List α) {q : Nat} {x : α}
    (h : l[q]? = some x) (hp : p x = false) : (l.takeWhile p).length ≤ q := by
  induction l generalizing q with
  | nil => simp
  | cons a t ih =>
    by_cases hpa : p a
    · simp [hpa]
      cases q with
      | zero => simp at h; subst h; simp [hp] at hpa
      | succ q => simp at h; have := ih h; omega
    · simp [hpa]

/-- if all elements up to position `k` satisfy `p`, `takeWhile p` is longer than `k` -/
theorem lt_takeWhile_length {α} (p : α → Bool) (l : List α) {k : Nat} (hk : k < l.length)
    (h : ∀ (j : Nat) (x : α), j ≤ k → l[j]? = some x → p x = true) : k < (l.takeWhile p).length := by
  induction l generalizing k with
  | nil => simp at hk
  | cons a t ih =>
    have hpa : p a = true := h 0 a (by omega) (by simp)
    simp [hpa]
    cases k with
    | zero => omega
    | succ k =>
      simp at hk
      have := ih (k := k) hk (fun j x hj hx => h (j + 1) x (by omega) (by simpa using hx))
      omega

/-- **`find_positions` returns the index of the first occurrence, `-1` if there is none** -/
theorem findPosition_first (data : List Int) (x : Int) :
    (findPosition data x = -1 ∧ x ∉ data) ∨
    (∃ (i : Nat), findPosition data x = (i : Int) ∧ data[i]? = some x ∧
        ∀ (j : Nat), data[j]? = some x → i ≤ j) := by
  by_cases hx : x ∈ data
  · right
    obtain ⟨i0, hi0⟩ := List.getElem?_of_mem hx
    have hmem0 : (x, i0) ∈ sortedPairs data := mem_sortedPairs_iff.mpr hi0
    obtain ⟨q, hq⟩ := List.getElem?_of_mem hmem0
    have hlex := sortedPairs_lex data
    -- position of the first pair whose value is not below x
    have hLq : ((sortedPairs data).takeWhile (fun p => decide (p.1 < x))).length ≤ q :=
      takeWhile_length_le_of_not _ _ hq (by simp)
    have hLlt : ((sortedPairs data).takeWhile (fun p => decide (p.1 < x))).length < (sortedPairs data).length := by
      have := getElem?_lt_of_some hq; omega
    obtain ⟨p, hp⟩ : ∃ p, (sortedPairs data)[((sortedPairs data).takeWhile (fun p => decide (p.1 < x))).length]? = some p :=
      ⟨_, List.getElem?_eq_getElem hLlt⟩
    have hpge : ¬ p.1 < x := by
      have := takeWhile_length_getElem?_not _ _ hp; simpa using this
    -- every pair with value x sits at or behind that position, and `p` is lexicographically minimal among them
    have hmin : ∀ (j : Nat), data[j]? = some x → p.1 = x ∧ p.2 ≤ j := by
      intro j hj
      have hmemj : (x, j) ∈ sortedPairs data := mem_sortedPairs_iff.mpr hj
      obtain ⟨qj, hqj⟩ := List.getElem?_of_mem hmemj
      have hLqj := takeWhile_length_le_of_not (fun p => decide (p.1 < x)) _ hqj (by simp)
      rcases Nat.lt_or_ge ((sortedPairs data).takeWhile (fun p => decide (p.1 < x))).length qj with hlt | hge
      · have hrel : LexLt p (x, j) := by
          have hqjlt := getElem?_lt_of_some hqj
          have hpe : (sortedPairs data)[((sortedPairs data).takeWhile (fun p => decide (p.1 < x))).length]'hLlt = p := by
            have h1 := List.getElem?_eq_getElem hLlt
            rw [h1] at hp; exact Option.some.inj hp
          have hqe : (sortedPairs data)[qj]'hqjlt = (x, j) := by
            have h1 := List.getElem?_eq_getElem hqjlt
            rw [h1] at hqj; exact Option.some.inj hqj
          have := List.pairwise_iff_getElem.mp hlex _ qj hLlt hqjlt hlt
          rw [hpe, hqe] at this
          exact this
        unfold LexLt at hrel
        simp at hrel
        omega
      · have : qj = ((sortedPairs data).takeWhile (fun p => decide (p.1 < x))).length := by omega
        subst this
        rw [hp] at hqj; cases hqj
        exact ⟨rfl, Nat.le_refl _⟩
    have hpx : p.1 = x := (hmin i0 hi0).1
    have hR : ((sortedPairs data).takeWhile (fun p => decide (p.1 < x))).length <
        ((sortedPairs data).takeWhile (fun p => decide (p.1 ≤ x))).length := by
      apply lt_takeWhile_length _ _ hLlt
      intro j y hj hy
      rcases Nat.lt_or_ge j ((sortedPairs data).takeWhile (fun p => decide (p.1 < x))).length with hlt | hge
      · have := getElem?_lt_takeWhile_length (fun p => decide (p.1 < x)) _ hlt hy
        simp at this ⊢; omega
      · have : j = ((sortedPairs data).takeWhile (fun p => decide (p.1 < x))).length := by omega
        subst this
        rw [hp] at hy; cases hy
        simp; omega
    refine ⟨p.2, ?_, ?_, fun j hj => (hmin j hj).2⟩
    · unfold findPosition
      simp only [hR, if_true, hp]
    · have := mem_sortedPairs (List.mem_of_getElem? hp)
      rw [hpx] at this; exact this
  · left
    refine ⟨?_, hx⟩
    by_cases h : findPosition data x = -1
    · exact h
    · exfalso
      exact hx (List.mem_of_getElem? (findPosition_sound rfl h).2)


end QP.C19
