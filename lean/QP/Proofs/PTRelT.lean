import QP.Model.PT
import QP.Proofs.PTRel
import QP.Proofs.PTMulti
import QP.Proofs.C05Items
/-! The relation between compiled items and the denoted pulse **under a global transformation** `T` (the chain an
enclosing arithmetic / parallel-channel template pushed into the context): the program plays `T` applied, channel
by channel, to the pulse.  `RelT [] = Rel`.  Preservation by the builder operations as for `Rel`. -/
namespace QP.PT
open QP.C05 (Chain.chanF Chain.presF Trafo.chanF Trafo.presF)

/-- presence and value of channel `c` of a pulse at time `t` -/
def Pulse.val (P : Pulse) (c : Chan) (t : Rat) : Option (Option Rat) :=
  (P.chans.lookup c).map (fun pl => PL.at pl t)

structure RelT (T : Chain) (items : List Item) (P : Pulse) : Prop where
  blocks : Blocks items
  empty : nodesOf items = [] ↔ P.chans = []
  dur : Loop.durationList (nodesOf items) = P.dur
  plDur : ∀ c pl, P.chans.lookup c = some pl → PL.dur pl = P.dur
  plPos : ∀ c pl, P.chans.lookup c = some pl → pl.pos
  sample : ∀ c t, 0 ≤ t → t < P.dur → ∀ v, Chain.chanF T c (P.val c t) = some v →
    Loop.sampleList (nodesOf items) c t = v
  windows : (itemsWindows items 0).Perm P.windows
  chans : ∀ cs ∈ Loop.leafChannelsList (nodesOf items), ∀ x,
    x ∈ cs ↔ Chain.presF T x (P.chanNames.contains x) = true

theorem RelT.nil (T : Chain) : RelT T [] Pulse.empty where
  blocks := Blocks.nil
  empty := by simp [nodesOf, Pulse.empty]
  dur := by simp [nodesOf, Loop.durationList, Pulse.empty]
  plDur := by intro c pl h; simp [Pulse.empty] at h
  plPos := by intro c pl h; simp [Pulse.empty] at h
  sample := by intro c t h0 h1; simp only [Pulse.empty] at h1; linarith
  windows := by simp [itemsWindows, Pulse.empty]
  chans := by intro cs h; simp [nodesOf, Loop.leafChannelsList] at h

theorem RelT.items_nil {T : Chain} {items : List Item} {P : Pulse} (h : RelT T items P) (he : P.chans = []) :
    items = [] :=
  h.blocks.eq_nil (h.empty.mpr he)

theorem RelT.of_rel {items : List Item} {P : Pulse} (h : Rel items P) : RelT [] items P where
  blocks := h.blocks
  empty := h.empty
  dur := h.dur
  plDur := h.plDur
  plPos := h.plPos
  windows := h.windows
  sample := by
    intro c t h0 h1 v hv
    simp only [QP.C05.Chain.chanF_nil, Pulse.val] at hv
    cases hl : P.chans.lookup c with
    | none => simp [hl] at hv
    | some pl =>
      simp only [hl, Option.map_some, Option.some.injEq] at hv
      rw [← hv]
      exact h.sample c pl hl t h0 h1
  chans := by
    intro cs hcs x
    rw [h.chans cs hcs x]
    simp [Chain.presF]

theorem RelT.to_rel {items : List Item} {P : Pulse} (h : RelT [] items P) : Rel items P where
  blocks := h.blocks
  empty := h.empty
  dur := h.dur
  plDur := h.plDur
  plPos := h.plPos
  windows := h.windows
  sample := by
    intro c pl hl t h0 h1
    exact h.sample c t h0 h1 (PL.at pl t) (by simp [QP.C05.Chain.chanF_nil, Pulse.val, hl])
  chans := by
    intro cs hcs x
    rw [h.chans cs hcs x]
    simp [Chain.presF]

theorem sameSet_contains {a b : List String} (h : sameSet a b = true) (x : String) : a.contains x = b.contains x := by
  simp only [sameSet, Bool.and_eq_true, List.all_eq_true] at h
  rw [Bool.eq_iff_iff]
  constructor
  · intro hx; exact h.1 x (by simpa using hx)
  · intro hx; exact h.2 x (by simpa using hx)

theorem RelT.append {T : Chain} {a b : List Item} {Pa Pb P : Pulse} (ha : RelT T a Pa) (hb : RelT T b Pb)
    (hpos : Loop.allPosList (nodesOf a)) (hP : Pa.append Pb = .ok P) : RelT T (a ++ b) P := by
  unfold Pulse.append at hP
  by_cases h1 : Pa.isEmpty
  · simp only [h1, if_true] at hP
    cases hP
    have : a = [] := ha.items_nil (by simpa [Pulse.isEmpty] using h1)
    subst this
    simpa using hb
  · simp only [h1] at hP
    by_cases h2 : Pb.isEmpty
    · simp only [h2, if_true] at hP
      cases hP
      have : b = [] := hb.items_nil (by simpa [Pulse.isEmpty] using h2)
      subst this
      simpa using ha
    · simp only [h2] at hP
      by_cases h3 : sameSet Pa.chanNames Pb.chanNames
      · simp only [h3] at hP
        simp only [Bool.not_true, Bool.false_eq_true, if_false] at hP
        cases hP
        have hne_a : Pa.chans ≠ [] := by simpa [Pulse.isEmpty] using h1
        have hlook : ∀ c, ((Pa.chans.map (fun (x : Chan × PL) => (x.1, x.2 ++ ((Pb.chans.lookup x.1).getD [])))).lookup c)
            = (Pa.chans.lookup c).map (fun pl => pl ++ ((Pb.chans.lookup c).getD [])) := by
          intro c
          exact lookup_map_snd Pa.chans (fun k pl => pl ++ ((Pb.chans.lookup k).getD [])) c
        have hb_of_a : ∀ c pla, Pa.chans.lookup c = some pla → ∃ plb, Pb.chans.lookup c = some plb := by
          intro c pla hc
          have hmem := mem_keys_of_lookup _ _ _ hc
          have h3' := h3
          simp only [sameSet, Bool.and_eq_true, List.all_eq_true] at h3'
          have := h3'.1 c (by simpa [Pulse.chanNames] using hmem)
          apply lookup_some_of_mem_keys
          simpa [Pulse.chanNames] using this
        have hb_none : ∀ c, Pa.chans.lookup c = none → Pb.chans.lookup c = none := by
          intro c hc
          apply lookup_none_of_not_mem
          intro hmem
          have h3' := h3
          simp only [sameSet, Bool.and_eq_true, List.all_eq_true] at h3'
          have := h3'.2 c (by simpa [Pulse.chanNames] using hmem)
          have hx : c ∈ Pa.chans.map (·.1) := by simpa [Pulse.chanNames] using this
          obtain ⟨v, hv⟩ := lookup_some_of_mem_keys _ _ hx
          rw [hc] at hv; cases hv
        have hnn := allPosList_nonneg hpos
        refine ⟨ha.blocks.append hb.blocks, ?_, ?_, ?_, ?_, ?_, ?_, ?_⟩
        · simp only [nodesOf_append, List.append_eq_nil_iff, List.map_eq_nil_iff]
          constructor
          · intro h; exact absurd (ha.empty.mp h.1) hne_a
          · intro h; exact absurd h hne_a
        · simp only [nodesOf_append, durationList_append, ha.dur, hb.dur]
        · intro c pl hc
          simp only [hlook] at hc
          cases hca : Pa.chans.lookup c with
          | none => simp [hca] at hc
          | some pla =>
            obtain ⟨plb, hcb⟩ := hb_of_a c pla hca
            simp only [hca, hcb, Option.map_some, Option.getD_some, Option.some.injEq] at hc
            subst hc
            rw [PL.dur_append, ha.plDur c pla hca, hb.plDur c plb hcb]
        · intro c pl hc
          simp only [hlook] at hc
          cases hca : Pa.chans.lookup c with
          | none => simp [hca] at hc
          | some pla =>
            obtain ⟨plb, hcb⟩ := hb_of_a c pla hca
            simp only [hca, hcb, Option.map_some, Option.getD_some, Option.some.injEq] at hc
            subst hc
            exact PL.pos_append (ha.plPos c pla hca) (hb.plPos c plb hcb)
        · intro c t ht0 ht v hv
          simp only [Pulse.val, hlook] at hv
          simp only at ht
          rw [nodesOf_append]
          by_cases hlt : t < Pa.dur
          · rw [sampleList_append_left _ _ _ _ ht0 (by rw [ha.dur]; exact hlt)]
            apply ha.sample c t ht0 hlt v
            rw [← hv]
            congr 1
            simp only [Pulse.val]
            cases hca : Pa.chans.lookup c with
            | none => rfl
            | some pla =>
              simp only [Option.map_some, Option.some.injEq]
              rw [PL.at_append_left _ _ _ ht0 (by rw [ha.plDur c pla hca]; exact hlt)]
          · have hge : Pa.dur ≤ t := not_lt.mp hlt
            rw [sampleList_append_right _ _ _ _ hnn (by rw [ha.dur]; exact hge), ha.dur]
            apply hb.sample c (t - Pa.dur) (by linarith) (by linarith) v
            rw [← hv]
            congr 1
            simp only [Pulse.val]
            cases hca : Pa.chans.lookup c with
            | none => rw [hb_none c hca]; rfl
            | some pla =>
              obtain ⟨plb, hcb⟩ := hb_of_a c pla hca
              simp only [hcb, Option.map_some, Option.getD_some, Option.some.injEq]
              rw [PL.at_append_right _ _ _ (ha.plPos c pla hca) (by rw [ha.plDur c pla hca]; exact hge)]
              rw [ha.plDur c pla hca]
        · rw [itemsWindows_append, itemsWindows_shift b, ha.dur]
          simp only [zero_add]
          exact List.Perm.append ha.windows (List.Perm.map _ hb.windows)
        · intro cs hcs x
          have hnames : Pulse.chanNames
              { dur := Pa.dur + Pb.dur,
                chans := Pa.chans.map (fun (x : Chan × PL) => (x.1, x.2 ++ ((Pb.chans.lookup x.1).getD []))),
                windows := Pa.windows ++ Pb.windows.map (shiftW Pa.dur) } = Pa.chanNames := by
            simp [Pulse.chanNames, List.map_map, Function.comp_def]
          rw [hnames]
          rw [nodesOf_append, leafChannelsList_append, List.mem_append] at hcs
          rcases hcs with hcs | hcs
          · exact ha.chans cs hcs x
          · rw [hb.chans cs hcs x, sameSet_contains h3 x]
      · simp [h3] at hP

theorem RelT.guard {T : Chain} {its : List Item} {p : Pulse} (h : RelT T its p) (ms : List Window) :
    RelT T (guardRun ms its) (p.withOwn ms) := by
  unfold Pulse.withOwn
  by_cases he : p.isEmpty
  · simp only [he, if_true]
    have : its = [] := h.items_nil (by simpa [Pulse.isEmpty] using he)
    subst this
    simpa [guardRun] using h
  · simp only [he]
    have hne : its ≠ [] := by
      intro h0; subst h0
      have := h.empty.mp (by simp [nodesOf])
      simp [Pulse.isEmpty, this] at he
    refine ⟨guardRun_blocks h.blocks ms, ?_, ?_, ?_, ?_, ?_, ?_, ?_⟩
    · rw [nodesOf_guardRun]; exact h.empty
    · rw [nodesOf_guardRun]; exact h.dur
    · exact h.plDur
    · exact h.plPos
    · intro c t ht0 ht v hv
      rw [nodesOf_guardRun]
      exact h.sample c t ht0 ht v hv
    · rw [itemsWindows_guardRun h.blocks]
      simp only [hne, if_false, map_shiftW_zero]
      exact List.Perm.append_left _ h.windows
    · rw [nodesOf_guardRun]
      exact h.chans

theorem RelT.rep {T : Chain} {its : List Item} {b : Pulse} (h : RelT T its b) (hpos : Loop.allPosList (nodesOf its))
    (n : Nat) (ms : List Window) :
    RelT T (tryAppend ((Loop.mk n none [] []).applyItems its) ms)
      (if b.isEmpty then Pulse.empty else
        { dur := b.dur * n, chans := b.chans.map (fun (x : Chan × PL) => (x.1, PL.replicate n x.2)),
          windows := ms ++ repeatWindows b.windows n b.dur }) := by
  rw [applyItems_eq]
  simp only [List.nil_append, Loop.durationList]
  by_cases he : b.isEmpty
  · simp only [he, if_true]
    have : its = [] := h.items_nil (by simpa [Pulse.isEmpty] using he)
    subst this
    simp [tryAppend, Loop.isEmpty, Loop.wf, Loop.children, nodesOf, RelT.nil]
  · simp only [he]
    have hne : nodesOf its ≠ [] := by
      intro h0
      have := h.empty.mp h0
      simp [Pulse.isEmpty, this] at he
    have hnotempty : (Loop.mk n none (measW its 0) (nodesOf its)).isEmpty = false := by
      simp [Loop.isEmpty, Loop.wf, Loop.children, hne]
    simp only [tryAppend, hnotempty, Bool.false_eq_true, if_false]
    have hd : 0 < b.dur := by rw [← h.dur]; exact Loop.allPosList_duration_pos _ hpos hne
    have hLdur : (Loop.mk n none (measW its 0) (nodesOf its)).duration = b.dur * n := by
      rw [duration_none, h.dur]
    have hlook : ∀ c, ((b.chans.map (fun (x : Chan × PL) => (x.1, PL.replicate n x.2))).lookup c)
        = (b.chans.lookup c).map (fun pl => PL.replicate n pl) := by
      intro c
      exact lookup_map_snd b.chans (fun _ pl => PL.replicate n pl) c
    refine ⟨Blocks.meas ms _ Blocks.nil, ?_, ?_, ?_, ?_, ?_, ?_, ?_⟩
    · simp only [nodesOf]
      constructor
      · intro h0; simp at h0
      · intro h0
        simp only [List.map_eq_nil_iff] at h0
        simp [Pulse.isEmpty, h0] at he
    · simp only [nodesOf, Loop.durationList, hLdur]; ring
    · intro c pl hc
      simp only [hlook] at hc
      cases hcb : b.chans.lookup c with
      | none => simp [hcb] at hc
      | some plb =>
        simp only [hcb, Option.map_some, Option.some.injEq] at hc
        subst hc
        rw [PL.dur_replicate, h.plDur c plb hcb]
    · intro c pl hc
      simp only [hlook] at hc
      cases hcb : b.chans.lookup c with
      | none => simp [hcb] at hc
      | some plb =>
        simp only [hcb, Option.map_some, Option.some.injEq] at hc
        subst hc
        exact PL.pos_replicate n (h.plPos c plb hcb)
    · intro c t ht0 ht v hv
      simp only [Pulse.val, hlook] at hv
      simp only at ht
      obtain ⟨k, hk, hk1, hk2⟩ := exists_period t b.dur n hd ht0 (by linarith)
      have hfl := floor_div_eq t b.dur k hd hk1 hk2
      simp only [nodesOf, Loop.sampleList, hLdur, ht, if_true]
      obtain ⟨c0, cs0, hcs⟩ := List.exists_cons_of_ne_nil hne
      rw [hcs]
      simp only [Loop.sample]
      rw [← hcs, bodyDuration_none, h.dur]
      have hnd : ¬ b.dur ≤ 0 := not_le.mpr hd
      simp only [hnd, if_false, hfl]
      have hkn : ¬ ((k : Int) < 0 ∨ (n : Int) ≤ (k : Int)) := by omega
      simp only [hkn, if_false]
      have : t - ((k : Int) : Rat) * b.dur = t - b.dur * (k : Rat) := by push_cast; ring
      rw [this]
      apply h.sample c (t - b.dur * k) (by linarith) (by linarith) v
      rw [← hv]
      congr 1
      simp only [Pulse.val]
      cases hcb : b.chans.lookup c with
      | none => rfl
      | some plb =>
        simp only [Option.map_some, Option.some.injEq]
        have hpl := h.plDur c plb hcb
        rw [PL.at_replicate n plb (h.plPos c plb hcb) k t hk (by rw [hpl]; exact hk1) (by rw [hpl]; exact hk2)]
        rw [hpl]
    · simp only [itemsWindows, map_shiftW_zero, List.append_nil]
      apply List.Perm.append_left
      simp only [Loop.windows]
      rw [bodyDuration_none, h.dur]
      apply repeatWindows_perm
      exact List.Perm.trans (measW_windowsList_perm its 0) h.windows
    · intro cs hcs x
      have hnames : Pulse.chanNames
          { dur := b.dur * n, chans := b.chans.map (fun (x : Chan × PL) => (x.1, PL.replicate n x.2)),
            windows := ms ++ repeatWindows b.windows n b.dur } = b.chanNames := by
        simp [Pulse.chanNames, List.map_map, Function.comp_def]
      rw [hnames]
      obtain ⟨c0, cs0, hc0⟩ := List.exists_cons_of_ne_nil hne
      simp only [nodesOf, Loop.leafChannelsList, List.append_nil] at hcs
      rw [hc0] at hcs
      simp only [Loop.leafChannels] at hcs
      rw [← hc0] at hcs
      exact h.chans cs hcs x

end QP.PT
