import QP.Proofs.C17Hold
import QP.Proofs.C17Sweep
/-! The fragment theorem: for repetition-free, well-formed programs with faithful keys the structured
commands emitted by the translator play the staircase `stepsList`. -/
namespace QP.C17.Frag
open QP.C17 QP.C17.VMS QP.C17.Struct

/-! ### histories -/

/-- the VM history of playing `steps` from time `t` -/
def timed (t : Rat) (steps : List (Rat × List Rat)) : History := asHistory (withTimes t steps)

theorem totalDur_append (a b : List (Rat × List Rat)) : totalDur (a ++ b) = totalDur a + totalDur b := by
  induction a with
  | nil => simp only [List.nil_append, totalDur]; grind
  | cons x xs ih => obtain ⟨d, v⟩ := x; simp only [List.cons_append, totalDur, ih]; grind

theorem timed_append (t : Rat) (a b : List (Rat × List Rat)) :
    timed t (a ++ b) = timed t a ++ timed (t + totalDur a) b := by
  induction a generalizing t with
  | nil =>
    have : t + 0 = t := by grind
    simp [timed, withTimes, asHistory, totalDur, this]
  | cons x xs ih =>
    obtain ⟨d, v⟩ := x
    have := ih (t + d)
    simp only [timed, asHistory] at this ⊢
    simp only [List.cons_append, withTimes, List.map_cons, totalDur, this]
    have h : t + d + totalDur xs = t + (d + totalDur xs) := by grind
    rw [h]

/-! ### facts about the last-touch functions -/

/-- registers named by `lt` belong to `T`, carry their own key and (for depth `d`) factor length -/
def LtOK (res : Rat) (lt : LT) (T : List (Nat × List Rat)) (d : Nat) : Prop :=
  ∀ ch κ t, lt ch κ = some t → (ch, t.2.1) ∈ T ∧ depKey res t.2.1 = κ ∧ t.2.1.length = d + t.2.2.length

/-- every register of `T` is named by `lt` -/
def LtAll (res : Rat) (lt : LT) (T : List (Nat × List Rat)) : Prop :=
  ∀ p ∈ T, ∃ t, lt p.1 (depKey res p.2) = some t

def LpOK (lp : Nat → Option Rat) (P : List Nat) : Prop := ∀ ch v, lp ch = some v → ch ∈ P

theorem ltHold_ok (res : Rat) : ∀ (bs : List Rat) (fs : List (Option (List Rat))) (ch0 d : Nat),
    bs.length = fs.length → (∀ p ∈ touchesHold fs ch0, p.2.length = d) →
    LtOK res (ltHold res bs fs ch0) (touchesHold fs ch0) d
  | [], _, _, _, _, _ => by intro ch κ t h; simp [ltHold] at h
  | _ :: _, [], _, _, hl, _ => by simp at hl
  | _ :: bs, none :: fs, ch0, d, hl, hd => by
    intro ch κ t h
    simp only [ltHold] at h
    have := ltHold_ok res bs fs (ch0 + 1) d (by simpa using hl) (by intro p hp; exact hd p (by simpa [touchesHold] using hp)) ch κ t h
    simpa [touchesHold] using this
  | b :: bs, some facs :: fs, ch0, d, hl, hd => by
    intro ch κ t h
    simp only [ltHold] at h
    by_cases hx : ch = ch0 ∧ κ = depKey res facs
    · rw [if_pos hx] at h
      cases h
      obtain ⟨rfl, rfl⟩ := hx
      refine ⟨by simp [touchesHold], rfl, ?_⟩
      simpa using hd (ch, facs) (by simp [touchesHold])
    · rw [if_neg hx] at h
      have := ltHold_ok res bs fs (ch0 + 1) d (by simpa using hl)
        (by intro p hp; exact hd p (by simp [touchesHold, hp])) ch κ t h
      exact ⟨by simp [touchesHold, this.1], this.2⟩

theorem ltHold_all (res : Rat) : ∀ (bs : List Rat) (fs : List (Option (List Rat))) (ch0 : Nat),
    bs.length = fs.length → LtAll res (ltHold res bs fs ch0) (touchesHold fs ch0)
  | [], [], _, _ => by intro p hp; simp [touchesHold] at hp
  | [], _ :: _, _, hl => by simp at hl
  | _ :: _, [], _, hl => by simp at hl
  | _ :: bs, none :: fs, ch0, hl => by
    intro p hp
    simp only [touchesHold] at hp
    simp only [ltHold]
    exact ltHold_all res bs fs (ch0 + 1) (by simpa using hl) p hp
  | b :: bs, some facs :: fs, ch0, hl => by
    intro p hp
    simp only [touchesHold, List.mem_cons] at hp
    simp only [ltHold]
    by_cases hx : p.1 = ch0 ∧ depKey res p.2 = depKey res facs
    · rw [if_pos hx]; exact ⟨_, rfl⟩
    · rw [if_neg hx]
      rcases hp with rfl | hp
      · exact absurd ⟨rfl, rfl⟩ hx
      · exact ltHold_all res bs fs (ch0 + 1) (by simpa using hl) p hp

theorem lpHold_ok : ∀ (bs : List Rat) (fs : List (Option (List Rat))) (ch0 : Nat),
    LpOK (lpHold bs fs ch0) (plainsHold fs ch0)
  | [], _, _ => by intro ch v h; simp [lpHold] at h
  | _ :: _, [], _ => by intro ch v h; simp [lpHold] at h
  | b :: bs, none :: fs, ch0 => by
    intro ch v h
    simp only [lpHold] at h
    by_cases hx : ch = ch0
    · simp [plainsHold, hx]
    · rw [if_neg hx] at h
      have := lpHold_ok bs fs (ch0 + 1) ch v h
      simp [plainsHold, this]
  | _ :: bs, some _ :: fs, ch0 => by
    intro ch v h
    simp only [lpHold] at h
    simpa [plainsHold] using lpHold_ok bs fs (ch0 + 1) ch v h

theorem LtOK.mono {res : Rat} {lt : LT} {T T' : List (Nat × List Rat)} {d : Nat} (h : LtOK res lt T d)
    (hs : ∀ p ∈ T, p ∈ T') : LtOK res lt T' d :=
  fun ch κ t ht => ⟨hs _ (h ch κ t ht).1, (h ch κ t ht).2⟩

theorem wf_touches_len (nch : Nat) : ∀ (factors : List (Option (List Rat))) (d ch0 : Nat),
    factors.all (fun f => match f with | none => true | some fs => fs.length == d) = true →
    ∀ p ∈ touchesHold factors ch0, p.2.length = d
  | [], _, _, _, p, hp => by simp [touchesHold] at hp
  | none :: fs, d, ch0, h, p, hp => by
    simp only [List.all_cons, Bool.true_and] at h
    simp only [touchesHold] at hp
    exact wf_touches_len nch fs d (ch0 + 1) h p hp
  | some f :: fs, d, ch0, h, p, hp => by
    simp only [List.all_cons, Bool.and_eq_true, beq_iff_eq] at h
    simp only [touchesHold, List.mem_cons] at hp
    rcases hp with rfl | hp
    · exact h.1
    · exact wf_touches_len nch fs d (ch0 + 1) h.2 p hp

mutual
theorem lt1_ok (res : Rat) (nch : Nat) : (n : Node) → ∀ (d : Nat), wellFormed nch d n = true →
    LtOK res (lt1 res n) (touches n) d ∧ LtAll res (lt1 res n) (touches n) ∧ LpOK (lp1 n) (plains n)
  | .hold bases factors dur, d, hw => by
    simp only [wellFormed, Bool.and_eq_true, beq_iff_eq] at hw
    have hl : bases.length = factors.length := by rw [hw.1.1, hw.1.2]
    simp only [lt1, lp1, touches, plains]
    exact ⟨ltHold_ok res bases factors 0 d hl (wf_touches_len nch factors d 0 hw.2),
      ltHold_all res bases factors 0 hl, lpHold_ok bases factors 0⟩
  | .rep body count, d, hw => by
    simp only [wellFormed, Bool.and_eq_true, decide_eq_true_eq] at hw
    simpa only [lt1, lp1, touches, plains] using ltL_ok res nch body d hw.2
  | .iter body length, d, hw => by
    simp only [wellFormed, Bool.and_eq_true, decide_eq_true_eq] at hw
    obtain ⟨h1, h2, h3⟩ := ltL_ok res nch body (d + 1) hw.2
    simp only [lt1, lp1, touches, plains]
    refine ⟨?_, ?_, h3⟩
    · intro ch κ t ht
      simp only [shiftRel, Option.map_eq_some_iff] at ht
      obtain ⟨t0, ht0, rfl⟩ := ht
      have := h1 ch κ t0 ht0
      exact ⟨this.1, this.2.1, by simp only [List.length_cons]; omega⟩
    · intro p hp
      obtain ⟨t, ht⟩ := h2 p hp
      exact ⟨(t.1, t.2.1, lastIdx length :: t.2.2), by simp only [shiftRel, ht, Option.map_some]⟩
theorem ltL_ok (res : Rat) (nch : Nat) : (ns : List Node) → ∀ (d : Nat),
    wellFormedList nch d ns = true →
    LtOK res (ltL res ns) (touchesList ns) d ∧ LtAll res (ltL res ns) (touchesList ns) ∧ LpOK (lpL ns) (plainsList ns)
  | [], d, _ => by
    refine ⟨?_, ?_, ?_⟩
    · intro ch κ t h; simp [ltL] at h
    · intro p hp; simp [touchesList] at hp
    · intro ch v h; simp [lpL] at h
  | n :: ns, d, hw => by
    simp only [wellFormedList, Bool.and_eq_true] at hw
    obtain ⟨a1, a2, a3⟩ := lt1_ok res nch n d hw.1
    obtain ⟨b1, b2, b3⟩ := ltL_ok res nch ns d hw.2
    refine ⟨?_, ?_, ?_⟩
    · intro ch κ t h
      simp only [ltL] at h
      cases hb : ltL res ns ch κ with
      | some t' =>
        rw [hb] at h; simp only [ov_some, Option.some.injEq] at h; subst h
        have := b1 ch κ t' hb
        exact ⟨by simp [touchesList, this.1], this.2⟩
      | none =>
        rw [hb] at h; simp only [ov_none] at h
        have := a1 ch κ t h
        exact ⟨by simp [touchesList, this.1], this.2⟩
    · intro p hp
      simp only [touchesList, List.mem_append] at hp
      simp only [ltL]
      cases hb : ltL res ns p.1 (depKey res p.2) with
      | some t' => exact ⟨t', rfl⟩
      | none =>
        rcases hp with hp | hp
        · obtain ⟨t, ht⟩ := a2 p hp; exact ⟨t, by simp [ht]⟩
        · obtain ⟨t, ht⟩ := b2 p hp; rw [hb] at ht; cases ht
    · intro ch v h
      simp only [lpL] at h
      cases hb : lpL ns ch with
      | some v' => simp [plainsList, b3 ch v' hb]
      | none => rw [hb] at h; simp only [ov_none] at h; simp [plainsList, a3 ch v h]
end

/-! ### the global hypotheses -/

structure Global (res : Rat) (nch : Nat) (G : List (Nat × List Rat)) (PL : List Nat) : Prop where
  KI : ∀ ch fs fs', (ch, fs) ∈ G → (ch, fs') ∈ G → depKey res fs = depKey res fs' → fs = fs'
  SEP : ∀ ch fs, (ch, fs) ∈ G → depKey res fs = [] → ch ∉ PL

/-- registers after a node: postcondition and frame -/
def Post (lt : LT) (V : VM) (env : List Nat) : Prop :=
  ∀ ch κ t, lt ch κ = some t → V.regs ch κ = some (t.1 + dot t.2.1 (env ++ t.2.2))

def Frm (lt : LT) (lp : Nat → Option Rat) (V V' : VM) : Prop :=
  ∀ ch κ, lt ch κ = none → (κ = [] → lp ch = none) → V'.regs ch κ = V.regs ch κ

theorem inv_congr {nch : Nat} {PL : List Nat} {c c' : TS} {V : VM} (ha : ∀ ch, c'.activeDep ch = c.activeDep ch)
    (hp : ∀ ch, c'.plainVoltage ch = c.plainVoltage ch) (h : Inv nch PL c V) : Inv nch PL c' V :=
  ⟨fun ch κ hk => h.active ch κ (by rw [← ha]; exact hk), fun ch v hv => h.plain ch v (by rw [← hp]; exact hv),
   fun ch v hv => h.plainDom ch v (by rw [← hp]; exact hv), h.len⟩

/-- static readiness survives a node (registers the node touched are now from this pass) -/
theorem sready_advance {res : Rat} {nch : Nat} {G : List (Nat × List Rat)} {PL : List Nat}
    (glob : Global res nch G PL) {c c1 : TS} {lt : LT} {la : Nat → Option Key} {lp : Nat → Option Rat}
    (det : Det c c1 lt la lp) (hlt : LtOK res lt G c.iterations.length) {T : List (Nat × List Rat)}
    (hT : ∀ p ∈ T, p ∈ G) (hs : SReady res c T) : SReady res c1 T := by
  intro p hp
  rw [det.dep, det.its]
  cases h : lt p.1 (depKey res p.2) with
  | none => simp only [Option.map_none, ov_none]; exact hs p hp
  | some t =>
    simp only [Option.map_some, ov_some, toDep]
    obtain ⟨h1, h2, h3⟩ := hlt _ _ t h
    have : t.2.1 = p.2 := glob.KI p.1 _ _ h1 (hT p hp) h2
    refine ⟨?_, fresh_self_prefix _ _⟩
    rw [← this, h3]; simp

/-- dynamic readiness survives a node -/
theorem dready_advance {res : Rat} {nch : Nat} {G : List (Nat × List Rat)} {PL : List Nat}
    (glob : Global res nch G PL) {c c1 : TS} {lt : LT} {la : Nat → Option Key} {lp : Nat → Option Rat}
    (det : Det c c1 lt la lp) (hlt : LtOK res lt G c.iterations.length) (hlp : LpOK lp PL)
    {T : List (Nat × List Rat)} (hT : ∀ p ∈ T, p ∈ G) {V V1 : VM} {env : List Nat}
    (hc : Compat c.iterations env) (hd : DReady res c V env T) (hpost : Post lt V1 env) (hfrm : Frm lt lp V V1) :
    DReady res c1 V1 env T := by
  intro p hp ds hds
  rw [det.dep] at hds
  rw [det.its]
  cases h : lt p.1 (depKey res p.2) with
  | none =>
    rw [h] at hds
    simp only [Option.map_none, ov_none] at hds
    rw [hfrm _ _ h]
    · exact hd p hp ds hds
    · intro hk
      cases hl : lp p.1 with
      | none => rfl
      | some v => exact absurd (hlp _ v hl) (glob.SEP p.1 p.2 (hT p hp) hk)
  | some t =>
    rw [h] at hds
    simp only [Option.map_some, ov_some, Option.some.injEq] at hds
    subst hds
    obtain ⟨h1, h2, h3⟩ := hlt _ _ t h
    have : t.2.1 = p.2 := glob.KI p.1 _ _ h1 (hT p hp) h2
    rw [hpost _ _ t h]
    simp only [val, toDep, actual_self_prefix _ _ _ (compat_length hc), this]

end QP.C17.Frag

namespace QP.C17.Frag
open QP.C17 QP.C17.VMS QP.C17.Struct

/-! ### entering an iteration -/

theorem sready_enter {res : Rat} {c : TS} {T : List (Nat × List Rat)} (hs : SReady res c T) :
    SReady res { c with iterations := c.iterations ++ [0] } T := by
  intro p hp
  have := hs p hp
  show match c.depStates p.1 (depKey res p.2) with
    | none => ∀ i ∈ c.iterations ++ [0], i = 0
    | some ds => ds.its.length = p.2.length ∧ Fresh ds.its (c.iterations ++ [0])
  cases h : c.depStates p.1 (depKey res p.2) with
  | none =>
    rw [h] at this
    simp only at this ⊢
    intro i hi
    simp only [List.mem_append, List.mem_singleton] at hi
    rcases hi with hi | hi
    · exact this i hi
    · exact hi
  | some ds =>
    rw [h] at this
    simp only at this ⊢
    exact ⟨this.1, fresh_enter _ _ this.2⟩

theorem dready_enter {res : Rat} {c : TS} {T : List (Nat × List Rat)} {V : VM} {env : List Nat}
    (hc : Compat c.iterations env) (hs : SReady res c T) (hd : DReady res c V env T)
    (hlen : ∀ p ∈ T, c.iterations.length < p.2.length) :
    DReady res { c with iterations := c.iterations ++ [0] } V (env ++ [0]) T := by
  intro p hp ds hds
  have h1 := hd p hp ds hds
  have h2 := hs p hp
  rw [show c.depStates p.1 (depKey res p.2) = some ds from hds] at h2
  simp only at h2
  rw [h1]
  show some (val ds p.2 c.iterations env) = some (val ds p.2 (c.iterations ++ [0]) (env ++ [0]))
  simp only [val]
  rw [actual_enter _ _ _ (compat_length hc) (by rw [h2.1]; exact hlen p hp)]

/-- the second pass of an iteration is ready after any earlier pass -/
theorem ready_pass2 {res : Rat} {nch : Nat} {G : List (Nat × List Rat)} {PL : List Nat}
    (glob : Global res nch G PL) {c0 c1 c1' : TS} {lt : LT} {la : Nat → Option Key} {lp : Nat → Option Rat}
    {cur : List Nat} {l : Nat} (hl : l ≠ 0)
    (det : Det c0 c1 lt la lp) (hc0 : c0.iterations = cur ++ [0])
    (hlt : LtOK res lt G (cur.length + 1)) {T : List (Nat × List Rat)} (hall : LtAll res lt T)
    (hT : ∀ p ∈ T, p ∈ G) (hdep : c1'.depStates = c1.depStates) (hits : c1'.iterations = cur ++ [l]) :
    SReady res c1' T ∧
    ∀ (V : VM) (env : List Nat) (j : Nat), cur.length = env.length → Post lt V (env ++ [j]) →
      DReady res c1' V (env ++ [j + 1]) T := by
  have key : ∀ p ∈ T, ∃ t, lt p.1 (depKey res p.2) = some t ∧ t.2.1 = p.2 ∧
      c1'.depStates p.1 (depKey res p.2) = some ⟨t.1, cur ++ 0 :: t.2.2⟩ ∧
      p.2.length = (cur ++ 0 :: t.2.2).length := by
    intro p hp
    obtain ⟨t, ht⟩ := hall p hp
    obtain ⟨h1, h2, h3⟩ := hlt _ _ t ht
    have : t.2.1 = p.2 := glob.KI p.1 _ _ h1 (hT p hp) h2
    refine ⟨t, ht, this, ?_, ?_⟩
    · rw [hdep, det.dep, ht, hc0]
      simp [toDep]
    · rw [← this, h3]; simp; omega
  refine ⟨?_, ?_⟩
  · intro p hp
    obtain ⟨t, _, _, hd, hlen⟩ := key p hp
    rw [hd, hits]
    exact ⟨hlen.symm, fresh_pass2 _ _ _⟩
  · intro V env j hlen hpost p hp ds hds
    obtain ⟨t, ht, hfs, hd, _⟩ := key p hp
    rw [hd] at hds
    cases hds
    rw [hpost _ _ t ht, hits]
    simp only [val, actual_pass2 _ _ _ _ _ hlen hl, hfs, List.append_assoc, List.singleton_append]

/-! ### unrolled iterations -/

def rangeApp {α} (F : Nat → List α) : Nat → Nat → List α
  | _, 0 => []
  | a, k + 1 => F a ++ rangeApp F (a + 1) k

theorem rangeApp_snoc {α} (F : Nat → List α) : ∀ (a k : Nat), rangeApp F a (k + 1) = rangeApp F a k ++ F (a + k)
  | a, 0 => by simp [rangeApp]
  | a, k + 1 => by
    rw [rangeApp, rangeApp_snoc F (a + 1) k, rangeApp]
    simp only [List.append_assoc]
    rw [show a + 1 + k = a + (k + 1) by omega]

theorem iterApp_eq_rangeApp {α} (F : Nat → List α) : ∀ n, iterApp F n = rangeApp F 0 n
  | 0 => rfl
  | n + 1 => by rw [iterApp, iterApp_eq_rangeApp F n, rangeApp_snoc, Nat.zero_add]

/-- what one node guarantees: the translation succeeds and, from every VM state that is ready,
the emitted commands play the node's steps and leave the registers as the last touches say -/
def Good (res : Rat) (nch : Nat) (PL : List Nat) (c : TS) (T : List (Nat × List Rat)) (lt : LT)
    (lp : Nat → Option Rat) (stp : List Nat → List (Rat × List Rat)) (r : Except Err (List SCmd × TS)) : Prop :=
  ∃ s c', r = .ok (s, c') ∧
    ∀ V env, Compat c.iterations env → DReady res c V env T → Inv nch PL c V →
      ∃ V', execL s V = .ok V' ∧ Inv nch PL c' V' ∧ V'.hist = V.hist ++ timed V.time (stp env) ∧
        V'.time = V.time + totalDur (stp env) ∧ Post lt V' env ∧ Frm lt lp V V'

/-- executing the loop body `k` more times -/
theorem loop_passes {res : Rat} {nch : Nat} {PL : List Nat} {c1' c2 : TS} {T : List (Nat × List Rat)}
    {lt : LT} {lp : Nat → Option Rat} {s2 : List SCmd} {env : List Nat}
    (F : Nat → List (Rat × List Rat))
    (hready : ∀ (V : VM) (j : Nat), Post lt V (env ++ [j]) → DReady res c1' V (env ++ [j + 1]) T)
    (hinv21 : ∀ V, Inv nch PL c2 V → Inv nch PL c1' V)
    (hbody : ∀ V m, DReady res c1' V (env ++ [m + 1]) T → Inv nch PL c1' V →
      ∃ V', execL s2 V = .ok V' ∧ Inv nch PL c2 V' ∧ V'.hist = V.hist ++ timed V.time (F (m + 1)) ∧
        V'.time = V.time + totalDur (F (m + 1)) ∧ Post lt V' (env ++ [m + 1]) ∧ Frm lt lp V V') :
    ∀ (k j : Nat) (Vj : VM), Inv nch PL c1' Vj → Post lt Vj (env ++ [j]) →
      ∃ V', iterN (fun v => execL s2 v) k Vj = .ok V' ∧ Inv nch PL c1' V' ∧
        V'.hist = Vj.hist ++ timed Vj.time (rangeApp F (j + 1) k) ∧
        V'.time = Vj.time + totalDur (rangeApp F (j + 1) k) ∧ Post lt V' (env ++ [j + k]) ∧ Frm lt lp Vj V' := by
  intro k
  induction k with
  | zero =>
    intro j Vj hinv hpost
    refine ⟨Vj, rfl, hinv, ?_, ?_, hpost, fun _ _ _ _ => rfl⟩
    · simp [rangeApp, timed, withTimes, asHistory]
    · simp only [rangeApp, totalDur]; grind
  | succ k ih =>
    intro j Vj hinv hpost
    obtain ⟨V1, he, hinv1, hh, ht, hp1, hf1⟩ := hbody Vj j (hready Vj j hpost) hinv
    obtain ⟨V', he', hinv', hh', ht', hp', hf'⟩ := ih (j + 1) V1 (hinv21 V1 hinv1) hp1
    refine ⟨V', ?_, hinv', ?_, ?_, ?_, ?_⟩
    · simp only [iterN, he]; exact he'
    · rw [hh', hh, ht, rangeApp, timed_append, List.append_assoc]
    · rw [ht', ht, rangeApp, totalDur_append]; grind
    · rw [show j + (k + 1) = j + 1 + k by omega]; exact hp'
    · intro ch κ h1 h2
      rw [hf' ch κ h1 h2, hf1 ch κ h1 h2]

end QP.C17.Frag

namespace QP.C17.Frag
open QP.C17 QP.C17.VMS QP.C17.Struct

theorem ov_eq_none {α} {a b : Option α} (h : ov a b = none) : a = none ∧ b = none := by
  cases a with
  | none => exact ⟨rfl, by simpa using h⟩
  | some x => simp at h

theorem ov_idem {α} (a b : Option α) : ov a (ov a b) = ov a b := by cases a <;> rfl

mutual
theorem wf_depth1 (nch : Nat) : (n : Node) → ∀ (d : Nat), wellFormed nch d n = true →
    ∀ p ∈ touches n, d ≤ p.2.length
  | .hold bases factors dur, d, hw, p, hp => by
    simp only [wellFormed, Bool.and_eq_true] at hw
    simp only [touches] at hp
    exact Nat.le_of_eq (wf_touches_len nch factors d 0 hw.2 p hp).symm
  | .rep body count, d, hw, p, hp => by
    simp only [wellFormed, Bool.and_eq_true] at hw
    simp only [touches] at hp
    exact wf_depthL nch body d hw.2 p hp
  | .iter body length, d, hw, p, hp => by
    simp only [wellFormed, Bool.and_eq_true] at hw
    simp only [touches] at hp
    have := wf_depthL nch body (d + 1) hw.2 p hp
    omega
theorem wf_depthL (nch : Nat) : (ns : List Node) → ∀ (d : Nat),
    wellFormedList nch d ns = true → ∀ p ∈ touchesList ns, d ≤ p.2.length
  | [], _, _, p, hp => by simp [touchesList] at hp
  | n :: ns, d, hw, p, hp => by
    simp only [wellFormedList, Bool.and_eq_true] at hw
    simp only [touchesList, List.mem_append] at hp
    rcases hp with hp | hp
    · exact wf_depth1 nch n d hw.1 p hp
    · exact wf_depthL nch ns d hw.2 p hp
end

/-! ### channels named by the last-touch functions are real channels -/

theorem laHold_lt (res : Rat) : ∀ (bs : List Rat) (fs : List (Option (List Rat))) (ch0 ch : Nat) (κ : Key),
    laHold res bs fs ch0 ch = some κ → ch < ch0 + bs.length
  | [], _, _, _, _, h => by simp [laHold] at h
  | _ :: _, [], _, _, _, h => by simp [laHold] at h
  | _ :: bs, none :: fs, ch0, ch, κ, h => by
    simp only [laHold] at h
    by_cases hx : ch = ch0
    · simp only [List.length_cons]; omega
    · rw [if_neg hx] at h
      have := laHold_lt res bs fs (ch0 + 1) ch κ h
      simp only [List.length_cons]; omega
  | _ :: bs, some _ :: fs, ch0, ch, κ, h => by
    simp only [laHold] at h
    by_cases hx : ch = ch0
    · simp only [List.length_cons]; omega
    · rw [if_neg hx] at h
      have := laHold_lt res bs fs (ch0 + 1) ch κ h
      simp only [List.length_cons]; omega

theorem lpHold_lt : ∀ (bs : List Rat) (fs : List (Option (List Rat))) (ch0 ch : Nat) (v : Rat),
    lpHold bs fs ch0 ch = some v → ch < ch0 + bs.length
  | [], _, _, _, _, h => by simp [lpHold] at h
  | _ :: _, [], _, _, _, h => by simp [lpHold] at h
  | _ :: bs, none :: fs, ch0, ch, v, h => by
    simp only [lpHold] at h
    by_cases hx : ch = ch0
    · simp only [List.length_cons]; omega
    · rw [if_neg hx] at h
      have := lpHold_lt bs fs (ch0 + 1) ch v h
      simp only [List.length_cons]; omega
  | _ :: bs, some _ :: fs, ch0, ch, v, h => by
    simp only [lpHold] at h
    have := lpHold_lt bs fs (ch0 + 1) ch v h
    simp only [List.length_cons]; omega

mutual
theorem la1_lt (res : Rat) (nch : Nat) : (n : Node) → ∀ (d : Nat), wellFormed nch d n = true →
    (∀ ch κ, la1 res n ch = some κ → ch < nch) ∧ (∀ ch v, lp1 n ch = some v → ch < nch)
  | .hold bases factors dur, d, hw => by
    simp only [wellFormed, Bool.and_eq_true, beq_iff_eq] at hw
    refine ⟨?_, ?_⟩
    · intro ch κ h
      simp only [la1] at h
      have := laHold_lt res bases factors 0 ch κ h
      omega
    · intro ch v h
      simp only [lp1] at h
      have := lpHold_lt bases factors 0 ch v h
      omega
  | .rep body count, d, hw => by
    simp only [wellFormed, Bool.and_eq_true] at hw
    simpa only [la1, lp1] using laL_lt res nch body d hw.2
  | .iter body length, d, hw => by
    simp only [wellFormed, Bool.and_eq_true] at hw
    simpa only [la1, lp1] using laL_lt res nch body (d + 1) hw.2
theorem laL_lt (res : Rat) (nch : Nat) : (ns : List Node) → ∀ (d : Nat), wellFormedList nch d ns = true →
    (∀ ch κ, laL res ns ch = some κ → ch < nch) ∧ (∀ ch v, lpL ns ch = some v → ch < nch)
  | [], _, _ => by
    refine ⟨?_, ?_⟩
    · intro ch κ h; simp [laL] at h
    · intro ch v h; simp [lpL] at h
  | n :: ns, d, hw => by
    simp only [wellFormedList, Bool.and_eq_true] at hw
    obtain ⟨a1, a2⟩ := la1_lt res nch n d hw.1
    obtain ⟨b1, b2⟩ := laL_lt res nch ns d hw.2
    refine ⟨?_, ?_⟩
    · intro ch κ h
      simp only [laL] at h
      cases hb : laL res ns ch with
      | some k => exact b1 ch k hb
      | none => rw [hb] at h; exact a1 ch κ (by simpa using h)
    · intro ch v h
      simp only [lpL] at h
      cases hb : lpL ns ch with
      | some k => exact b2 ch k hb
      | none => rw [hb] at h; exact a2 ch v (by simpa using h)
end

theorem passes_count (L : Nat) (h : L > 1) : passesLeft ((L : Int) - 1 - 1) = L - 1 := by
  simp only [passesLeft]
  omega

theorem passes_count_rep (n : Nat) (h : n ≥ 1) : passesLeft ((n : Int) - 1) = (n - 1) + 1 := by
  simp only [passesLeft]
  omega

/-- what `entryChanged = false` says -/
theorem entryChanged_false {res : Rat} {nch : Nat} {g : List (Nat × List Rat)} {a b : Sweep}
    (h : entryChanged res nch g a b = false) :
    (∀ p ∈ g, ∀ ds, a.depStates p.1 (depKey res p.2) = some ds → b.depStates p.1 (depKey res p.2) = some ds) ∧
    (∀ ch, ch < nch → ∀ κ, a.activeDep ch = some κ → b.activeDep ch = some κ) ∧
    (∀ ch, ch < nch → ∀ v, a.plainVoltage ch = some v → b.plainVoltage ch = some v) := by
  simp only [entryChanged, Bool.or_eq_false_iff, List.any_eq_false, Bool.and_eq_true, decide_eq_true_eq,
    not_and, Decidable.not_not, List.mem_range] at h
  obtain ⟨h1, h2⟩ := h
  refine ⟨?_, ?_, ?_⟩
  · intro p hp ds hds
    have := h1 p hp (by simp [hds])
    rw [← this]; exact hds
  · intro ch hch κ hk
    by_cases hb : a.activeDep ch = b.activeDep ch
    · rw [← hb]; exact hk
    · exact absurd (by rw [hk] at hb; simp [hk]; exact Or.inl hb) (h2 ch hch)
  · intro ch hch v hv
    by_cases hb : a.plainVoltage ch = b.plainVoltage ch
    · rw [← hb]; exact hv
    · exact absurd (by rw [hv] at hb; simp [hv]; exact Or.inr hb) (h2 ch hch)

/-- repeated passes of a repetition body whose translation state is stable -/
theorem rep_passes {res : Rat} {nch : Nat} {PL : List Nat} {c c3 : TS} {T : List (Nat × List Rat)}
    {lt : LT} {lp : Nat → Option Rat} {s1 : List SCmd} {env : List Nat} (stp : List (Rat × List Rat))
    (hstep : ∀ V, DReady res c V env T → Inv nch PL c V →
      ∃ V', execL s1 V = .ok V' ∧ Inv nch PL c3 V' ∧ V'.hist = V.hist ++ timed V.time stp ∧
        V'.time = V.time + totalDur stp ∧ Post lt V' env ∧ Frm lt lp V V')
    (hback : ∀ V, Inv nch PL c3 V → Post lt V env → DReady res c V env T ∧ Inv nch PL c V) :
    ∀ (k : Nat) (V : VM), DReady res c V env T → Inv nch PL c V →
      ∃ V', iterN (fun v => execL s1 v) (k + 1) V = .ok V' ∧ Inv nch PL c3 V' ∧
        V'.hist = V.hist ++ timed V.time (repeatApp stp (k + 1)) ∧
        V'.time = V.time + totalDur (repeatApp stp (k + 1)) ∧ Post lt V' env ∧ Frm lt lp V V' := by
  intro k
  induction k with
  | zero =>
    intro V hd hinv
    obtain ⟨V1, he, hinv1, hh, ht, hp, hf⟩ := hstep V hd hinv
    refine ⟨V1, by simp only [iterN, he], hinv1, ?_, ?_, hp, hf⟩
    · simp only [repeatApp, List.append_nil]; exact hh
    · simp only [repeatApp, List.append_nil]; exact ht
  | succ k ih =>
    intro V hd hinv
    obtain ⟨V1, he, hinv1, hh, ht, hp, hf⟩ := hstep V hd hinv
    obtain ⟨hd1, hinv1'⟩ := hback V1 hinv1 hp
    obtain ⟨V', he', hinv', hh', ht', hp', hf'⟩ := ih V1 hd1 hinv1'
    refine ⟨V', ?_, hinv', ?_, ?_, hp', ?_⟩
    · rw [iterN, he]; exact he'
    · rw [hh', hh, ht]; simp only [repeatApp, timed_append, List.append_assoc]
    · rw [ht', ht]; simp only [repeatApp, totalDur_append]; grind
    · intro ch κ h1 h2
      rw [hf' ch κ h1 h2, hf ch κ h1 h2]

/-- after a node the registers it touched are ready again relative to the NEW state -/
theorem dready_after {res : Rat} {nch : Nat} {G : List (Nat × List Rat)} {PL : List Nat}
    (glob : Global res nch G PL) {c c1 : TS} {lt : LT} {la : Nat → Option Key} {lp : Nat → Option Rat}
    (det : Det c c1 lt la lp) (hlt : LtOK res lt G c.iterations.length)
    {T : List (Nat × List Rat)} (hall : LtAll res lt T) (hT : ∀ p ∈ T, p ∈ G) {V1 : VM} {env : List Nat}
    (hc : Compat c.iterations env) (hpost : Post lt V1 env) :
    DReady res c1 V1 env T := by
  intro p hp ds hds
  obtain ⟨t, ht⟩ := hall p hp
  rw [det.dep, ht] at hds
  simp only [Option.map_some, ov_some, Option.some.injEq] at hds
  subst hds
  obtain ⟨h1, h2, h3⟩ := hlt _ _ t ht
  have : t.2.1 = p.2 := glob.KI p.1 _ _ h1 (hT p hp) h2
  rw [hpost _ _ t ht, det.its]
  simp only [val, toDep, actual_self_prefix _ _ _ (compat_length hc), this]

mutual
theorem main1 {res : Rat} {nch : Nat} {G : List (Nat × List Rat)} {PL : List Nat} (glob : Global res nch G PL) :
    (n : Node) → ∀ (c : TS) (σ : Sweep), wellFormed nch c.iterations.length n = true →
    c.resolution = res → (∀ p ∈ touches n, p ∈ G) → (∀ ch ∈ plains n, ch ∈ PL) → SReady res c (touches n) →
    SimS σ c → (sweep res nch n σ).flagged = false →
    Good res nch PL c (touches n) (lt1 res n) (lp1 n) (fun env => steps env n) (trS1 n c)
  | .hold bases factors dur, c, _, hw, hres, hG, hP, hS, _, _ => by
    simp only [wellFormed, Bool.and_eq_true, beq_iff_eq] at hw
    obtain ⟨⟨hb, hf⟩, hall⟩ := hw
    have hl : bases.length = factors.length := by rw [hb, hf]
    have hlen := wf_touches_len nch factors c.iterations.length 0 hall
    simp only [touches] at hG hS
    simp only [plains] at hP
    obtain ⟨s, c', hok, hex⟩ := holdStep (nch := nch) (PL := PL) (G := G) res glob.SEP bases factors 0 c hres hl
      (by omega) (fun p hp => ⟨hG p hp, hlen p hp⟩) hP hS
    refine ⟨s ++ [.prim (.wait dur)], c', by simp only [trS1, hok], ?_⟩
    intro V env hc hd hinv
    simp only [touches] at hd
    obtain ⟨V0, he, ht, hh, hinv0, _, hcur, hpost, hfrm⟩ := hex V env hc hd hinv
    have hcur0 : V0.cur = (List.zipWith (holdValue env) bases factors).map some := by
      apply List.ext_getElem?
      intro j
      cases hz : (List.zipWith (holdValue env) bases factors)[j]? with
      | some v =>
        have := hcur j v hz
        rw [Nat.zero_add] at this
        rw [this, List.getElem?_map, hz]; rfl
      | none =>
        rw [List.getElem?_map, hz]
        have hj : (List.zipWith (holdValue env) bases factors).length ≤ j := List.getElem?_eq_none_iff.mp hz
        simp only [List.length_zipWith, hb, hf, Nat.min_self] at hj
        simp only [Option.map_none]
        exact List.getElem?_eq_none_iff.mpr (by rw [hinv0.len]; exact hj)
    refine ⟨{ V0 with hist := V0.hist ++ [(V0.time, V0.cur)], time := V0.time + dur }, ?_, ?_, ?_, ?_, ?_, ?_⟩
    · rw [execL_append _ _ _ _ he, execL_single]; rfl
    · exact ⟨hinv0.active, hinv0.plain, hinv0.plainDom, hinv0.len⟩
    · simp only [hh, ht, hcur0, steps, timed, withTimes, asHistory, List.map_cons, List.map_nil]
    · simp only [ht, steps, totalDur]; grind
    · intro ch κ t h; simp only [lt1] at h; exact hpost ch κ t h
    · intro ch κ h h2; simp only [lt1] at h; simp only [lp1] at h2; exact hfrm ch κ h h2
  | .rep body count, c, σ, hw, hres, hG, hP, hS, hsim, hflag => by
    simp only [wellFormed, Bool.and_eq_true, decide_eq_true_eq] at hw
    simp only [touches] at hG hS
    simp only [plains] at hP
    have hsim1 : SimS σ ({ c with labelNum := c.labelNum + 1 } : TS) := ⟨hsim.its, hsim.act, hsim.dep, hsim.pl⟩
    simp only [sweep] at hflag
    have hflag1 : (sweepList res nch body σ).flagged = false := by
      split at hflag
      · have := flag_false_of_list hflag
        simp only [Bool.or_eq_false_iff] at this
        exact this.1
      · simp only [Bool.or_eq_false_iff] at hflag
        exact hflag.1
    obtain ⟨s1, c3, hok1, hex1⟩ := mainL glob body { c with labelNum := c.labelNum + 1 } σ hw.2 hres hG hP hS hsim1 hflag1
    have dt1 := detL res body _ s1 c3 (by exact hres) hok1
    have hs1 : SimS (sweepList res nch body σ) c3 := simL res nch body _ σ _ _ (by exact hres) hok1 hsim1
    have hr3 : c3.resolution = res := by rw [dt1.res]; exact hres
    rw [lookup_congr res σ c hsim hres, lookup_congr res _ c3 hs1 hr3] at hflag
    obtain ⟨b1, b2, b3⟩ := ltL_ok res nch body c.iterations.length hw.2
    obtain ⟨l1, l2⟩ := laL_lt res nch body c.iterations.length hw.2
    have hltG : LtOK res (ltL res body) G c.iterations.length := b1.mono hG
    have hstepsdef : ∀ env, steps env (.rep body count) = repeatApp (stepsList env body) count := by
      intro env; simp only [steps]
    by_cases hsame : sameSet (depLookupS c (depsList body)) (depLookupS c3 (depsList body)) = true
    · -- the loop is emitted around the first translation of the body
      simp only [hsame, Bool.not_true, Bool.false_eq_true, if_false, Bool.or_eq_false_iff] at hflag
      obtain ⟨e1, e2, e3⟩ := entryChanged_false hflag.2
      refine ⟨[.loop c.labelNum count s1], c3, by simp only [trS1, hok1, hsame, if_true], ?_⟩
      intro V env hc hd hinv
      have hback : ∀ W, Inv nch PL c3 W → Post (ltL res body) W env →
          DReady res c W env (touchesList body) ∧ Inv nch PL c W := by
        intro W hinvW hpW
        have hd3 : DReady res c3 W env (touchesList body) :=
          dready_after glob (c := { c with labelNum := c.labelNum + 1 }) dt1 hltG b2 hG hc hpW
        refine ⟨?_, ?_⟩
        · intro p hp ds hds
          have h3 : c3.depStates p.1 (depKey res p.2) = some ds := by
            rw [← hs1.dep]; exact e1 p hp ds (by rw [hsim.dep]; exact hds)
          have := hd3 p hp ds h3
          rw [dt1.its] at this
          exact this
        · refine ⟨?_, ?_, ?_, hinvW.len⟩
          · intro ch κ hk
            have h3 : c3.activeDep ch = some κ := by
              rw [dt1.act]
              cases hla : laL res body ch with
              | none => simpa using hk
              | some κ' =>
                have hch := l1 ch κ' hla
                have := e2 ch hch κ (by rw [hsim.act]; exact hk)
                rw [hs1.act, dt1.act, hla] at this
                simpa using this
            exact hinvW.active ch κ h3
          · intro ch v hv
            have h3 : c3.plainVoltage ch = some v := by
              rw [dt1.pl]
              cases hlp : lpL body ch with
              | none => simpa using hv
              | some v' =>
                have hch := l2 ch v' hlp
                have := e3 ch hch v (by rw [hsim.pl]; exact hv)
                rw [hs1.pl, dt1.pl, hlp] at this
                simpa using this
            exact hinvW.plain ch v h3
          · exact hinv.plainDom
      obtain ⟨k, hk⟩ : ∃ k, count = k + 1 := ⟨count - 1, by omega⟩
      obtain ⟨V', he, hinv', hh, ht, hp, hf⟩ := rep_passes (res := res) (nch := nch) (PL := PL)
        (c := c) (c3 := c3) (T := touchesList body) (lt := ltL res body) (lp := lpL body) (s1 := s1) (env := env)
        (stepsList env body)
        (fun W hdW hinvW => hex1 W env hc hdW ⟨hinvW.active, hinvW.plain, hinvW.plainDom, hinvW.len⟩)
        hback k V hd hinv
      refine ⟨V', ?_, hinv', ?_, ?_, ?_, ?_⟩
      · simp only [execL, exec1, passes_count_rep count hw.1]
        rw [show count - 1 + 1 = k + 1 by omega, he]
      · dsimp only; rw [hh, hstepsdef, hk]
      · dsimp only; rw [ht, hstepsdef, hk]
      · intro ch κ t h; simp only [lt1] at h; exact hp ch κ t h
      · intro ch κ h h2; simp only [lt1] at h; simp only [lp1] at h2; exact hf ch κ h h2
    · -- "hackedy": first pass unrolled, then a loop of count-1 passes of the re-translated body
      have hf : sameSet (depLookupS c (depsList body)) (depLookupS c3 (depsList body)) = false := by
        simpa using hsame
      simp only [hf, Bool.not_false, if_true] at hflag
      have hflag2 := flag_false_of_list hflag
      simp only [Bool.or_eq_false_iff, beq_eq_false_iff_ne, ne_eq] at hflag2
      have hcount : count ≥ 2 := by omega
      have hS3 : SReady res c3 (touchesList body) :=
        sready_advance glob (c := { c with labelNum := c.labelNum + 1 }) dt1 hltG hG hS
      have hsim3 : SimS ({ sweepList res nch body σ with
          flagged := (sweepList res nch body σ).flagged || (count == 1) } : Sweep) c3 :=
        ⟨hs1.its, hs1.act, hs1.dep, hs1.pl⟩
      obtain ⟨s2, c5, hok2, hex2⟩ := mainL glob body c3 _ (by rw [dt1.its]; exact hw.2) hr3 hG hP hS3 hsim3 hflag
      have dt2 := detL res body _ s2 c5 hr3 hok2
      have hltG3 : LtOK res (ltL res body) G c3.iterations.length := by rw [dt1.its]; exact hltG
      have hact : ∀ ch, c5.activeDep ch = c3.activeDep ch := by
        intro ch; rw [dt2.act, dt1.act, ov_idem]
      have hpla : ∀ ch, c5.plainVoltage ch = c3.plainVoltage ch := by
        intro ch; rw [dt2.pl, dt1.pl, ov_idem]
      have hdep : ∀ p ∈ touchesList body, c5.depStates p.1 (depKey res p.2) = c3.depStates p.1 (depKey res p.2) := by
        intro p hp
        rw [dt2.dep, dt1.dep, dt1.its]
        show ov _ (ov _ (c.depStates p.1 (depKey res p.2))) = ov _ (c.depStates p.1 (depKey res p.2))
        show ov (Option.map (toDep c.iterations) (ltL res body p.1 (depKey res p.2)))
          (ov (Option.map (toDep c.iterations) (ltL res body p.1 (depKey res p.2))) (c.depStates p.1 (depKey res p.2))) = _
        rw [ov_idem]
      refine ⟨s1 ++ [.loop c.labelNum ((count : Int) - 1) s2], c5, by simp only [trS1, hok1, hf, Bool.false_eq_true, if_false, hok2], ?_⟩
      intro V env hc hd hinv
      obtain ⟨V1, he1, hinv1, hh1, ht1, hp1, hf1⟩ := hex1 V env hc hd ⟨hinv.active, hinv.plain, hinv.plainDom, hinv.len⟩
      have hc3 : Compat c3.iterations env := by rw [dt1.its]; exact hc
      have hd1 : DReady res c3 V1 env (touchesList body) :=
        dready_after glob (c := { c with labelNum := c.labelNum + 1 }) dt1 hltG b2 hG hc hp1
      have hback : ∀ W, Inv nch PL c5 W → Post (ltL res body) W env →
          DReady res c3 W env (touchesList body) ∧ Inv nch PL c3 W := by
        intro W hinvW hpW
        have hd5 : DReady res c5 W env (touchesList body) := dready_after glob dt2 hltG3 b2 hG hc3 hpW
        refine ⟨?_, inv_congr (c := c5) (fun ch => (hact ch).symm) (fun ch => (hpla ch).symm) hinvW⟩
        intro p hp ds hds
        have := hd5 p hp ds (by rw [hdep p hp]; exact hds)
        rw [dt2.its] at this
        exact this
      obtain ⟨k, hk⟩ : ∃ k, count = k + 2 := ⟨count - 2, by omega⟩
      obtain ⟨V', he, hinv', hh, ht, hp, hf'⟩ := rep_passes (res := res) (nch := nch) (PL := PL)
        (c := c3) (c3 := c5) (T := touchesList body) (lt := ltL res body) (lp := lpL body) (s1 := s2) (env := env)
        (stepsList env body) (fun W hdW hinvW => hex2 W env hc3 hdW hinvW) hback k V1 hd1 hinv1
      refine ⟨V', ?_, hinv', ?_, ?_, ?_, ?_⟩
      · rw [execL_append _ _ _ _ he1]
        simp only [execL, exec1]
        have hpc : passesLeft ((count : Int) - 1 - 1) = k + 1 := by simp only [passesLeft]; omega
        rw [hpc, he]
      · dsimp only at hh1 ht1 ⊢
        rw [hh, hh1, ht1, hstepsdef, hk]
        simp only [repeatApp, timed_append, List.append_assoc]
      · dsimp only at hh1 ht1 ⊢
        rw [ht, ht1, hstepsdef, hk]
        simp only [repeatApp, totalDur_append]; grind
      · intro ch κ t h; simp only [lt1] at h; exact hp ch κ t h
      · intro ch κ h h2
        simp only [lt1] at h; simp only [lp1] at h2
        rw [hf' ch κ h h2, hf1 ch κ h h2]
  | .iter body length, c, σ, hw, hres, hG, hP, hS, hsim, hflag => by
    simp only [wellFormed, Bool.and_eq_true, decide_eq_true_eq] at hw
    simp only [touches] at hG hS
    simp only [plains] at hP
    have hS0 : SReady res { c with iterations := c.iterations ++ [0] } (touchesList body) := sready_enter hS
    have hw0 : wellFormedList nch ({ c with iterations := c.iterations ++ [0] } : TS).iterations.length body = true := by
      show wellFormedList nch (c.iterations ++ [0]).length body = true
      simpa using hw.2
    have hsim0 : SimS ({ σ with iterations := σ.iterations ++ [0] } : Sweep)
        ({ c with iterations := c.iterations ++ [0] } : TS) :=
      ⟨by show σ.iterations ++ [0] = c.iterations ++ [0]; rw [hsim.its], hsim.act, hsim.dep, hsim.pl⟩
    simp only [sweep] at hflag
    have hflag0 : (sweepList res nch body { σ with iterations := σ.iterations ++ [0] }).flagged = false := by
      have hflag' := hflag
      by_cases hl' : length > 1
      · simp only [hl', if_true] at hflag'
        have h0 := flag_false_of_list (ns := body) hflag'
        exact h0
      · simp only [hl', if_false] at hflag'
        exact hflag'
    obtain ⟨s1, c1, hok1, hex1⟩ := mainL glob body { c with iterations := c.iterations ++ [0] } _ hw0 hres hG hP hS0
      hsim0 hflag0
    have dt1 := detL res body _ s1 c1 (by exact hres) hok1
    have hs1 := simL res nch body _ _ _ _ (by exact hres) hok1 hsim0
    obtain ⟨b1, b2, b3⟩ := ltL_ok res nch body (c.iterations.length + 1) hw.2
    have hdepth : ∀ p ∈ touchesList body, c.iterations.length < p.2.length := by
      intro p hp
      have := wf_depthL nch body (c.iterations.length + 1) hw.2 p hp
      omega
    have hits1 : c1.iterations = c.iterations ++ [0] := dt1.its
    by_cases hl : length > 1
    · simp only [hl, if_true] at hflag
      have hits1' : ({ c1 with iterations := c1.iterations.dropLast ++ [length - 1], labelNum := c1.labelNum + 1 } : TS).iterations
          = c.iterations ++ [length - 1] := by
        show c1.iterations.dropLast ++ [length - 1] = _
        rw [hits1, dropLast_snoc]
      obtain ⟨hS1', hready⟩ := ready_pass2 glob (l := length - 1) (by omega) dt1 rfl (b1.mono hG) b2 hG
        (c1' := { c1 with iterations := c1.iterations.dropLast ++ [length - 1], labelNum := c1.labelNum + 1 }) rfl hits1'
      have hres1 : c1.resolution = res := by rw [dt1.res]; exact hres
      have hsim1' : SimS ({ sweepList res nch body { σ with iterations := σ.iterations ++ [0] } with
            iterations := (sweepList res nch body { σ with iterations := σ.iterations ++ [0] }).iterations.dropLast ++ [length - 1] } : Sweep)
          ({ c1 with iterations := c1.iterations.dropLast ++ [length - 1], labelNum := c1.labelNum + 1 } : TS) :=
        ⟨by show _ ++ [length - 1] = c1.iterations.dropLast ++ [length - 1]; rw [hs1.its], hs1.act, hs1.dep, hs1.pl⟩
      obtain ⟨s2, c2, hok2, hex2⟩ := mainL glob body
        { c1 with iterations := c1.iterations.dropLast ++ [length - 1], labelNum := c1.labelNum + 1 } _
        (by rw [hits1']; simpa using hw.2) hres1 hG hP hS1' hsim1' hflag
      have dt2 := detL res body _ s2 c2 (by exact hres1) hok2
      have hact : ∀ ch, c2.activeDep ch = c1.activeDep ch := by
        intro ch
        rw [dt2.act]; show ov _ (c1.activeDep ch) = _
        rw [dt1.act, ov_idem]
      have hpla : ∀ ch, c2.plainVoltage ch = c1.plainVoltage ch := by
        intro ch
        rw [dt2.pl]; show ov _ (c1.plainVoltage ch) = _
        rw [dt1.pl, ov_idem]
      have hinv21 : ∀ V, Inv nch PL c2 V →
          Inv nch PL { c1 with iterations := c1.iterations.dropLast ++ [length - 1], labelNum := c1.labelNum + 1 } V :=
        fun V h => inv_congr (c := c2) (fun ch => (hact ch).symm) (fun ch => (hpla ch).symm) h
      refine ⟨s1 ++ [.loop c1.labelNum ((length : Int) - 1) s2], { c2 with iterations := c2.iterations.dropLast },
        by simp only [trS1, hok1, hl, if_true, hok2], ?_⟩
      intro V env hc hd hinv
      obtain ⟨V0, he0, hinv0, hh0, ht0, hp0, hf0⟩ := hex1 V (env ++ [0]) (compat_snoc hc (by simp))
        (dready_enter hc hS hd hdepth) ⟨hinv.active, hinv.plain, hinv.plainDom, hinv.len⟩
      obtain ⟨V', hel, hinvl, hhl, htl, hpl, hfl⟩ :=
        loop_passes (res := res) (nch := nch) (PL := PL) (T := touchesList body)
          (c1' := { c1 with iterations := c1.iterations.dropLast ++ [length - 1], labelNum := c1.labelNum + 1 })
          (c2 := c2) (lt := ltL res body) (lp := lpL body) (s2 := s2) (env := env)
          (fun m => stepsList (env ++ [m]) body)
          (fun V j hp => hready V env j (compat_length hc) hp) hinv21
          (fun V m hd hi => hex2 V (env ++ [m + 1])
            (by rw [hits1']; exact compat_snoc hc (by constructor <;> intro h <;> omega)) hd hi)
          (length - 1) 0 V0 ⟨hinv0.active, hinv0.plain, hinv0.plainDom, hinv0.len⟩ hp0
      have hsteps : steps env (.iter body length) =
          stepsList (env ++ [0]) body ++ rangeApp (fun m => stepsList (env ++ [m]) body) 1 (length - 1) := by
        simp only [steps, iterApp_eq_rangeApp]
        obtain ⟨k, rfl⟩ : ∃ k, length = k + 1 := ⟨length - 1, by omega⟩
        simp only [rangeApp, Nat.add_sub_cancel, Nat.zero_add]
      refine ⟨V', ?_, ?_, ?_, ?_, ?_, ?_⟩
      · rw [execL_append _ _ _ _ he0]
        simp only [execL, exec1, passes_count length hl, hel]
      · exact inv_congr (c := c1) (c' := { c2 with iterations := c2.iterations.dropLast }) hact hpla
          ⟨hinvl.active, hinvl.plain, hinvl.plainDom, hinvl.len⟩
      · dsimp only at hh0 ht0 ⊢
        rw [hhl, hh0, ht0, hsteps, timed_append, List.append_assoc]
      · dsimp only at hh0 ht0 ⊢
        rw [htl, ht0, hsteps, totalDur_append]; grind
      · intro ch κ t ht
        simp only [lt1, shiftRel, Option.map_eq_some_iff] at ht
        obtain ⟨t0, ht0', rfl⟩ := ht
        have := hpl ch κ t0 ht0'
        rw [this]
        simp only [lastIdx, hl, if_true, Nat.zero_add, List.append_assoc, List.singleton_append]
      · intro ch κ h1 h2
        simp only [lt1, shiftRel, Option.map_eq_none_iff] at h1
        simp only [lp1] at h2
        rw [hfl ch κ h1 h2, hf0 ch κ h1 h2]
    · have hl1 : length = 1 := by omega
      refine ⟨s1, { c1 with iterations := c1.iterations.dropLast }, by simp only [trS1, hok1, hl, if_false], ?_⟩
      intro V env hc hd hinv
      obtain ⟨V0, he0, hinv0, hh0, ht0, hp0, hf0⟩ := hex1 V (env ++ [0]) (compat_snoc hc (by simp))
        (dready_enter hc hS hd hdepth) ⟨hinv.active, hinv.plain, hinv.plainDom, hinv.len⟩
      have hsteps : steps env (.iter body length) = stepsList (env ++ [0]) body := by
        subst hl1; simp [steps, iterApp]
      refine ⟨V0, he0, ⟨hinv0.active, hinv0.plain, hinv0.plainDom, hinv0.len⟩, ?_, ?_, ?_, ?_⟩
      · dsimp only at hh0 ⊢; rw [hh0, hsteps]
      · dsimp only at ht0 ⊢; rw [ht0, hsteps]
      · intro ch κ t ht
        simp only [lt1, shiftRel, Option.map_eq_some_iff] at ht
        obtain ⟨t0, ht0', rfl⟩ := ht
        have := hp0 ch κ t0 ht0'
        rw [this]
        simp only [lastIdx, hl, if_false, List.append_assoc, List.singleton_append]
      · intro ch κ h1 h2
        simp only [lt1, shiftRel, Option.map_eq_none_iff] at h1
        simp only [lp1] at h2
        exact hf0 ch κ h1 h2
theorem mainL {res : Rat} {nch : Nat} {G : List (Nat × List Rat)} {PL : List Nat} (glob : Global res nch G PL) :
    (ns : List Node) → ∀ (c : TS) (σ : Sweep), wellFormedList nch c.iterations.length ns = true →
    c.resolution = res → (∀ p ∈ touchesList ns, p ∈ G) → (∀ ch ∈ plainsList ns, ch ∈ PL) →
    SReady res c (touchesList ns) → SimS σ c → (sweepList res nch ns σ).flagged = false →
    Good res nch PL c (touchesList ns) (ltL res ns) (lpL ns) (fun env => stepsList env ns) (trSL ns c)
  | [], c, _, _, _, _, _, _, _, _ => by
    refine ⟨[], c, rfl, ?_⟩
    intro V env _ _ hinv
    refine ⟨V, rfl, hinv, ?_, ?_, ?_, fun _ _ _ _ => rfl⟩
    · simp [stepsList, timed, withTimes, asHistory]
    · simp only [stepsList, totalDur]; grind
    · intro ch κ t h; simp [ltL] at h
  | n :: ns, c, σ, hw, hres, hG, hP, hS, hsim, hflag => by
    simp only [wellFormedList, Bool.and_eq_true] at hw
    simp only [sweepList] at hflag
    have hG1 : ∀ p ∈ touches n, p ∈ G := fun p hp => hG p (by simp [touchesList, hp])
    have hG2 : ∀ p ∈ touchesList ns, p ∈ G := fun p hp => hG p (by simp [touchesList, hp])
    have hP1 : ∀ ch ∈ plains n, ch ∈ PL := fun p hp => hP p (by simp [plainsList, hp])
    have hP2 : ∀ ch ∈ plainsList ns, ch ∈ PL := fun p hp => hP p (by simp [plainsList, hp])
    obtain ⟨s1, c1, hok1, hex1⟩ := main1 glob n c σ hw.1 hres hG1 hP1
      (fun p hp => hS p (by simp [touchesList, hp])) hsim (flag_false_of_list hflag)
    have det := det1 res n c s1 c1 hres hok1
    have hsim1 := sim1 res nch n c σ s1 c1 hres hok1 hsim
    obtain ⟨a1, a2, a3⟩ := lt1_ok res nch n c.iterations.length hw.1
    obtain ⟨b1, b2, b3⟩ := ltL_ok res nch ns c.iterations.length hw.2
    have hltG : LtOK res (lt1 res n) G c.iterations.length := a1.mono hG1
    have hlpP : LpOK (lp1 n) PL := fun ch v h => hP1 ch (a3 ch v h)
    have hS1 : SReady res c1 (touchesList ns) :=
      sready_advance glob det hltG hG2 (fun p hp => hS p (by simp [touchesList, hp]))
    obtain ⟨s2, c2, hok2, hex2⟩ := mainL glob ns c1 _ (by rw [det.its]; exact hw.2)
      (by rw [det.res]; exact hres) hG2 hP2 hS1 hsim1 hflag
    refine ⟨s1 ++ s2, c2, by simp only [trSL, hok1, hok2], ?_⟩
    intro V env hc hd hinv
    obtain ⟨V1, he1, hinv1, hh1, ht1, hp1, hf1⟩ := hex1 V env hc (fun p hp => hd p (by simp [touchesList, hp])) hinv
    have hd1 : DReady res c1 V1 env (touchesList ns) :=
      dready_advance glob det hltG hlpP hG2 hc (fun p hp => hd p (by simp [touchesList, hp])) hp1 hf1
    obtain ⟨V2, he2, hinv2, hh2, ht2, hp2, hf2⟩ := hex2 V1 env (by rw [det.its]; exact hc) hd1 hinv1
    refine ⟨V2, by rw [execL_append _ _ _ _ he1]; exact he2, hinv2, ?_, ?_, ?_, ?_⟩
    · dsimp only at hh1 ht1 hh2 ht2 ⊢
      rw [hh2, hh1, ht1]; simp only [stepsList, timed_append, List.append_assoc]
    · dsimp only at hh1 ht1 hh2 ht2 ⊢
      rw [ht2, ht1]; simp only [stepsList, totalDur_append]; grind
    · intro ch κ t h
      simp only [ltL] at h
      cases hb : ltL res ns ch κ with
      | some t' =>
        rw [hb] at h; simp only [ov_some, Option.some.injEq] at h; subst h
        exact hp2 ch κ t' hb
      | none =>
        rw [hb] at h; simp only [ov_none] at h
        rw [hf2 ch κ hb]
        · exact hp1 ch κ t h
        · intro hk
          obtain ⟨h1, h2, _⟩ := hltG ch κ t h
          cases hl : lpL ns ch with
          | none => rfl
          | some v => exact absurd (hP2 ch (b3 ch v hl)) (glob.SEP ch _ h1 (by rw [h2]; exact hk))
    · intro ch κ h hlp
      simp only [ltL] at h
      obtain ⟨h1, h2⟩ := ov_eq_none h
      have hlp' : κ = [] → lpL ns ch = none ∧ lp1 n ch = none := by
        intro hk
        have := hlp hk
        simp only [lpL] at this
        exact ov_eq_none this
      rw [hf2 ch κ h1 (fun hk => (hlp' hk).1), hf1 ch κ h2 (fun hk => (hlp' hk).2)]
end


end QP.C17.Frag
