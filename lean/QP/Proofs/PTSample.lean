import QP.Model.PT
import QP.Proofs.PTItems
import Mathlib.Tactic.Ring
import Mathlib.Tactic.Linarith
import Mathlib.Tactic.Positivity
/-! Sampling lemmas: piecewise linear functions (spec side) and loop lists (program side). -/
namespace QP.PT

/-! ### piecewise linear functions -/

theorem PL.dur_append (p q : PL) : PL.dur (p ++ q) = PL.dur p + PL.dur q := by
  induction p with
  | nil => simp [PL.dur]
  | cons s r ih => simp [PL.dur, ih]; ring

def PL.pos (p : PL) : Prop := ∀ s ∈ p, 0 < s.len

theorem PL.pos_append {p q : PL} (hp : p.pos) (hq : q.pos) : PL.pos (p ++ q) := by
  intro s hs
  rcases List.mem_append.mp hs with h | h
  · exact hp s h
  · exact hq s h

theorem PL.dur_nonneg (p : PL) (hp : p.pos) : 0 ≤ PL.dur p := by
  induction p with
  | nil => simp [PL.dur]
  | cons s r ih =>
    have h1 := hp s (by simp)
    have h2 := ih (fun x hx => hp x (by simp [hx]))
    simp only [PL.dur]; linarith

theorem PL.at_append_left (p q : PL) (t : Rat) (h0 : 0 ≤ t) (h : t < PL.dur p) :
    PL.at (p ++ q) t = PL.at p t := by
  induction p generalizing t with
  | nil => simp [PL.dur] at h; linarith
  | cons s r ih =>
    simp only [List.cons_append, PL.at]
    by_cases hs : t < s.len
    · simp [hs]
    · simp only [hs, if_false]
      apply ih
      · linarith
      · simp only [PL.dur] at h; linarith

theorem PL.at_append_right (p q : PL) (t : Rat) (hp : p.pos) (h : PL.dur p ≤ t) :
    PL.at (p ++ q) t = PL.at q (t - PL.dur p) := by
  induction p generalizing t with
  | nil => simp [PL.dur]
  | cons s r ih =>
    have hr : PL.pos r := fun x hx => hp x (by simp [hx])
    have hrd := PL.dur_nonneg r hr
    simp only [PL.dur] at h
    have hs : ¬ t < s.len := by linarith
    simp only [List.cons_append, PL.at, hs, if_false]
    rw [ih (t - s.len) hr (by linarith)]
    simp only [PL.dur]
    congr 1
    ring

theorem PL.dur_replicate (n : Nat) (p : PL) : PL.dur (PL.replicate n p) = PL.dur p * n := by
  induction n with
  | zero => simp [PL.replicate, PL.dur]
  | succ n ih =>
    simp only [PL.replicate] at ih ⊢
    rw [List.replicate_succ, List.flatten_cons, PL.dur_append, ih]
    push_cast; ring

theorem PL.pos_replicate (n : Nat) {p : PL} (hp : p.pos) : PL.pos (PL.replicate n p) := by
  induction n with
  | zero => intro s hs; simp [PL.replicate] at hs
  | succ n ih =>
    simp only [PL.replicate] at ih ⊢
    rw [List.replicate_succ, List.flatten_cons]
    exact PL.pos_append hp ih

/-- in the `k`-th copy of a repeated piecewise linear function -/
theorem PL.at_replicate (n : Nat) (p : PL) (hp : p.pos) (k : Nat) (t : Rat) (hk : k < n)
    (h1 : PL.dur p * k ≤ t) (h2 : t < PL.dur p * (k + 1)) :
    PL.at (PL.replicate n p) t = PL.at p (t - PL.dur p * k) := by
  induction n generalizing k t with
  | zero => omega
  | succ n ih =>
    have hd := PL.dur_nonneg p hp
    simp only [PL.replicate] at ih ⊢
    rw [List.replicate_succ, List.flatten_cons]
    cases k with
    | zero =>
      simp only [Nat.cast_zero, mul_zero, zero_add, mul_one, sub_zero] at h1 h2 ⊢
      exact PL.at_append_left _ _ _ h1 h2
    | succ k =>
      push_cast at h1 h2 ⊢
      rw [PL.at_append_right _ _ _ hp (by nlinarith)]
      rw [ih k (t - PL.dur p) (by omega) (by linarith) (by linarith)]
      congr 1
      ring

/-! ### loops -/

theorem sampleList_append_left (a b : List Loop) (c : Chan) (t : Rat) (h0 : 0 ≤ t)
    (h : t < Loop.durationList a) : Loop.sampleList (a ++ b) c t = Loop.sampleList a c t := by
  induction a generalizing t with
  | nil => simp [Loop.durationList] at h; linarith
  | cons x xs ih =>
    simp only [List.cons_append, Loop.sampleList]
    by_cases hs : t < x.duration
    · simp [hs]
    · simp only [hs, if_false]
      apply ih
      · linarith
      · simp only [Loop.durationList] at h; linarith

theorem durationList_nonneg (a : List Loop) (ha : ∀ l ∈ a, 0 ≤ l.duration) : 0 ≤ Loop.durationList a := by
  induction a with
  | nil => simp [Loop.durationList]
  | cons x xs ih =>
    have h1 := ha x (by simp)
    have h2 := ih (fun l hl => ha l (by simp [hl]))
    simp only [Loop.durationList]; linarith

theorem sampleList_append_right (a b : List Loop) (c : Chan) (t : Rat)
    (ha : ∀ l ∈ a, 0 ≤ l.duration) (h : Loop.durationList a ≤ t) :
    Loop.sampleList (a ++ b) c t = Loop.sampleList b c (t - Loop.durationList a) := by
  induction a generalizing t with
  | nil => simp [Loop.durationList]
  | cons x xs ih =>
    have hx := ha x (by simp)
    have hxs : ∀ l ∈ xs, 0 ≤ l.duration := fun l hl => ha l (by simp [hl])
    have hd := durationList_nonneg xs hxs
    simp only [Loop.durationList] at h
    have hs : ¬ t < x.duration := by linarith
    simp only [List.cons_append, Loop.sampleList, hs, if_false]
    rw [ih (t - x.duration) hxs (by linarith)]
    simp only [Loop.durationList]
    congr 1
    ring

/-- `⌊t/d⌋ = k` when `t` lies in the `k`-th period -/
theorem floor_div_eq (t d : Rat) (k : Nat) (hd : 0 < d) (h1 : d * k ≤ t) (h2 : t < d * (k + 1)) :
    (t / d).floor = (k : Int) := by
  apply Int.le_antisymm
  · have : (t / d).floor < (k : Int) + 1 := by
      rw [Rat.floor_lt_iff]
      rw [div_lt_iff₀ hd]
      push_cast
      linarith
    omega
  · rw [Rat.le_floor_iff, le_div_iff₀ hd]
    push_cast
    linarith

/-- the period a time inside `[0, d*n)` falls into -/
theorem exists_period (t d : Rat) (n : Nat) (hd : 0 < d) (h0 : 0 ≤ t) (h : t < d * n) :
    ∃ k : Nat, k < n ∧ d * k ≤ t ∧ t < d * (k + 1) := by
  have hfl : 0 ≤ (t / d).floor := by
    rw [Rat.le_floor_iff]; simp; positivity
  refine ⟨(t / d).floor.toNat, ?_, ?_, ?_⟩
  · have : (t / d).floor < (n : Int) := by
      rw [Rat.floor_lt_iff, div_lt_iff₀ hd]; push_cast; linarith
    omega
  · have h1 := Rat.floor_le (t / d)
    have : ((t / d).floor.toNat : Rat) = ((t / d).floor : Rat) := by
      have : ((t / d).floor.toNat : Int) = (t / d).floor := Int.toNat_of_nonneg hfl
      exact_mod_cast this
    rw [this]
    rw [le_div_iff₀ hd] at h1
    linarith
  · have h1 := Rat.lt_floor_add_one (t / d)
    have : ((t / d).floor.toNat : Rat) = ((t / d).floor : Rat) := by
      have : ((t / d).floor.toNat : Int) = (t / d).floor := Int.toNat_of_nonneg hfl
      exact_mod_cast this
    rw [this]
    rw [div_lt_iff₀ hd] at h1
    push_cast at h1
    linarith

/-! ### positivity of programs -/

mutual
/-- every played piece has positive duration and every repetition count is positive -/
def Loop.allPosB : Loop → Bool
  | .mk rep wf _ cs => decide (0 < rep) && (match cs with
      | [] => (match wf with | some w => decide (0 < w.duration) | none => false)
      | c :: cs' => Loop.allPosListB (c :: cs'))
def Loop.allPosListB : List Loop → Bool
  | [] => true
  | c :: cs => c.allPosB && Loop.allPosListB cs
end

def Loop.allPos (l : Loop) : Prop := l.allPosB = true
def Loop.allPosList (cs : List Loop) : Prop := Loop.allPosListB cs = true

theorem allPosList_cons {c : Loop} {cs : List Loop} :
    Loop.allPosList (c :: cs) ↔ c.allPos ∧ Loop.allPosList cs := by
  simp [Loop.allPosList, Loop.allPos, Loop.allPosListB]

theorem allPosList_nil : Loop.allPosList [] := by simp [Loop.allPosList, Loop.allPosListB]

mutual
theorem Loop.allPos_aux : ∀ l : Loop, l.allPosB = false ∨ 0 < l.duration
  | .mk rep none meas [] => by left; simp [Loop.allPosB]
  | .mk rep (some w) meas [] => by
      by_cases h : 0 < rep ∧ 0 < w.duration
      · right
        have hrq : (0 : Rat) < (rep : Rat) := by exact_mod_cast h.1
        simp only [Loop.duration, Loop.bodyDuration]
        exact mul_pos h.2 hrq
      · left
        simp only [Loop.allPosB, Bool.and_eq_false_iff, decide_eq_false_iff_not]
        by_cases h1 : 0 < rep
        · right; exact fun h2 => h ⟨h1, h2⟩
        · left; exact h1
  | .mk rep wf meas (c :: cs') => by
      have ih := Loop.allPosList_aux (c :: cs')
      by_cases h1 : 0 < rep
      · rcases ih with ih | ih
        · left; simp [Loop.allPosB, ih]
        · right
          have hrq : (0 : Rat) < (rep : Rat) := by exact_mod_cast h1
          simp only [Loop.duration, Loop.bodyDuration]
          exact mul_pos (ih (by simp)) hrq
      · left; simp [Loop.allPosB, h1]
theorem Loop.allPosList_aux : ∀ cs : List Loop, Loop.allPosListB cs = false ∨ (cs ≠ [] → 0 < Loop.durationList cs)
  | [] => Or.inr (fun h => absurd rfl h)
  | [c] => by
      rcases Loop.allPos_aux c with h | h
      · left; simp [Loop.allPosListB, h]
      · right; intro _; simp [Loop.durationList]; exact h
  | c :: d :: ds => by
      rcases Loop.allPos_aux c with h | h
      · left; simp [Loop.allPosListB, h]
      · rcases Loop.allPosList_aux (d :: ds) with h2 | h2
        · left; simp only [Loop.allPosListB] at h2 ⊢; simp [h2]
        · right; intro _
          have := h2 (by simp)
          simp only [Loop.durationList] at this ⊢
          linarith
end

theorem Loop.allPos_duration_pos (l : Loop) (h : l.allPos) : 0 < l.duration :=
  (Loop.allPos_aux l).resolve_left (by simp [Loop.allPos] at h; simp [h])

theorem Loop.allPosList_duration_pos (cs : List Loop) (h : Loop.allPosList cs) (hne : cs ≠ []) :
    0 < Loop.durationList cs :=
  (Loop.allPosList_aux cs).resolve_left (by simp [Loop.allPosList] at h; simp [h]) hne

theorem allPosList_mem {cs : List Loop} (h : Loop.allPosList cs) : ∀ l ∈ cs, l.allPos := by
  induction cs with
  | nil => intro l hl; simp at hl
  | cons c cs ih =>
    rw [allPosList_cons] at h
    intro l hl
    rcases List.mem_cons.mp hl with rfl | hl
    · exact h.1
    · exact ih h.2 l hl

theorem allPosList_append {a b : List Loop} :
    Loop.allPosList (a ++ b) ↔ Loop.allPosList a ∧ Loop.allPosList b := by
  induction a with
  | nil => simp [allPosList_nil]
  | cons x xs ih => simp [allPosList_cons, ih, and_assoc]

theorem allPosList_nonneg {cs : List Loop} (h : Loop.allPosList cs) : ∀ l ∈ cs, 0 ≤ l.duration :=
  fun l hl => le_of_lt (Loop.allPos_duration_pos l (allPosList_mem h l hl))

end QP.PT
