import QP.Model.PT
import QP.Proofs.PTTableB
import QP.Proofs.PTFunc
/-! `BuildOK` for the constant and the function pulse template. -/
namespace QP.PT

theorem constFromMapping_flat {d : Rat} {cvs : List (Chan × Rat)} {w : Wf}
    (h : constFromMapping d cvs = .ok w) : FlatWf w := by
  unfold constFromMapping at h
  match cvs, h with
  | [], h => simp at h
  | [(ch, v)], h =>
    simp only [Except.ok.injEq] at h
    subst h
    exact FlatWf.leaf (LeafWf.const _ _ _)
  | x :: y :: rest, h =>
    simp only at h
    unfold mkMulti at h
    simp only [List.map_cons] at h
    split at h
    · simp at h
    · split at h
      · simp only [Except.ok.injEq] at h
        subst h
        apply FlatWf.multi
        intro s hs
        simp only [List.mem_cons, List.mem_map] at hs
        rcases hs with rfl | rfl | ⟨a, _, rfl⟩ <;> exact LeafWf.const _ _ _
      · simp at h

theorem buildOK_const (id : Option String) (dur : Expr) (amps : List (Chan × Expr)) (meas : List MeasDecl) :
    BuildOK (.const id dur amps meas) := by
  intro σ mm cm w? P h1 h2
  simp only [buildWaveform, bind_ok] at h1
  obtain ⟨d, hd, hw⟩ := h1
  simp only [denote, bind_ok] at h2
  obtain ⟨d', hd', h2⟩ := h2
  rw [hd] at hd'; cases hd'
  by_cases hpos : d > 0
  · simp only [hpos, if_true, bind_ok] at hw h2
    obtain ⟨cvs, hcvs, hw⟩ := hw
    obtain ⟨cvs', hcvs', h2⟩ := h2
    rw [hcvs] at hcvs'; cases hcvs'
    rcases Bool.eq_false_or_eq_true (dictOfList cvs).isEmpty with hemp | hemp
    · simp only [hemp, if_true, pure_ok] at hw h2
      subst hw; subst h2
      rfl
    · simp only [hemp, Bool.false_eq_true, if_false, bind_ok, pure_ok] at hw h2
      obtain ⟨w, hw, rfl⟩ := hw
      obtain ⟨hdw, _, hchans, hs⟩ := constFromMapping_spec hw
      rcases Bool.eq_false_or_eq_true (hasDup ((dictOfList cvs).map (·.1))) with hdup | hdup
      · simp [hdup] at h2
      · simp only [hdup, Bool.false_eq_true, if_false, bind_ok, pure_ok] at h2
        obtain ⟨ms, hms, rfl⟩ := h2
        have hlook : ∀ c, (((dictOfList cvs).map (fun (x : Chan × Rat) =>
              (x.1, ([{ len := d, v0 := x.2, v1 := x.2 }] : PL)))).lookup c)
            = ((dictOfList cvs).lookup c).map (fun v => ([{ len := d, v0 := v, v1 := v }] : PL)) := by
          intro c
          exact lookup_map_snd (dictOfList cvs) (fun _ v => ([{ len := d, v0 := v, v1 := v }] : PL)) c
        have hne : dictOfList cvs ≠ [] := by simpa using hemp
        refine BuildOK.of_rel ⟨⟨hdw, by simpa using hne, ?_, ?_, ?_, ?_⟩, Or.inr (constFromMapping_flat hw), ?_⟩
        · rw [hchans]; simp [Pulse.chanNames, List.map_map, Function.comp_def]
        · intro c pl hc
          simp only [hlook] at hc
          cases hcl : (dictOfList cvs).lookup c with
          | none => simp [hcl] at hc
          | some v =>
            simp only [hcl, Option.map_some, Option.some.injEq] at hc
            subst hc; simp [PL.dur]
        · intro c pl hc
          simp only [hlook] at hc
          cases hcl : (dictOfList cvs).lookup c with
          | none => simp [hcl] at hc
          | some v =>
            simp only [hcl, Option.map_some, Option.some.injEq] at hc
            subst hc
            intro s hs'
            simp only [List.mem_singleton] at hs'
            subst hs'; exact hpos
        · intro c pl hc t _ ht
          simp only [hlook] at hc
          cases hcl : (dictOfList cvs).lookup c with
          | none => simp [hcl] at hc
          | some v =>
            simp only [hcl, Option.map_some, Option.some.injEq] at hc
            subst hc
            simp only at ht
            rw [hs c v t hcl]
            simp [PL.at, ht, Seg.valueAt]
        · intro ms' hms'
          rw [hms] at hms'; cases hms'; rfl
  · simp only [hpos, if_false, pure_ok] at hw h2
    subst hw; subst h2
    rfl

theorem buildOK_func (id : Option String) (ch : Chan) (dur e : Expr) (meas : List MeasDecl) (cons : List Expr) :
    BuildOK (.func id ch dur e meas cons) := by
  intro σ mm cm w? P h1 h2
  simp only [buildWaveform, bind_ok] at h1
  obtain ⟨_, _, o, ho, hw⟩ := h1
  simp only [denote, bind_ok] at h2
  obtain ⟨_, _, o', ho', h2⟩ := h2
  rw [ho] at ho'; cases ho'
  cases o with
  | none =>
    simp only [pure_ok] at hw h2
    subst hw; subst h2
    rfl
  | some oc =>
    simp only [bind_ok] at hw h2
    obtain ⟨_, _, d, hd, env, henv, hw⟩ := hw
    obtain ⟨d', hd', h2⟩ := h2
    rw [hd] at hd'; cases hd'
    rcases Bool.eq_false_or_eq_true (e.affineIn "t") with haff | haff
    · simp only [haff, Bool.not_true, Bool.false_eq_true, if_false, bind_ok, pure_ok] at h2
      obtain ⟨a, ha, b, hb, ms, hms, rfl⟩ := h2
      have hvars : ∀ x ∈ e.vars, x ≠ "t" → ∃ v, funcLook σ x = .ok v ∧ env.lookup x = some v := by
        intro x hx hxt
        apply env_lookup σ _ env henv x
        rw [mem_dedup]
        simp [hx, hxt]
      have ha' : e.eval (withT "t" (funcLook σ) 0) = .ok a := ha
      have hb' : e.eval (withT "t" (funcLook σ) 1) = .ok b := hb
      have haffine := affine_eval e "t" (funcLook σ) haff a b ha' hb'
      have hleaf : ∃ w, w? = some w ∧ w.duration = d ∧ w.channels = [oc] ∧ LeafWf w ∧
          ∀ t, w.sample oc t = some (a + (b - a) * t) := by
        by_cases ht : e.vars.contains "t"
        · simp only [ht, if_true, pure_ok] at hw
          refine ⟨_, hw.symm, by simp [Wf.duration], by simp [Wf.channels], LeafWf.func _ _ _ _, ?_⟩
          intro t
          simp only [Wf.sample]
          rw [Expr.eval_congr e _ (withT "t" (funcLook σ) t) (by
            intro x hx
            by_cases hxt : x = "t"
            · simp [withT, hxt]
            · obtain ⟨v, hv1, hv2⟩ := hvars x hx hxt
              simp [withT, hxt, hv1, hv2])]
          rw [haffine t]
        · have ht' : e.vars.contains "t" = false := by simpa using ht
          simp only [ht', Bool.false_eq_true, if_false] at hw
          have hnotmem : "t" ∉ e.vars := by simpa using ht'
          have hfree : e.freeOf "t" = true := by simp [Expr.freeOf, hnotmem]
          rw [Expr.eval_congr e _ (withT "t" (funcLook σ) 0) (by
            intro x hx
            have hxt : x ≠ "t" := by
              intro h; subst h; exact hnotmem hx
            obtain ⟨v, hv1, hv2⟩ := hvars x hx hxt
            simp [withT, hxt, hv1, hv2]), ha'] at hw
          simp only [pure_ok] at hw
          have hab : b = a := by
            have := eval_freeOf e "t" (funcLook σ) hfree 1 0
            rw [ha', hb'] at this; cases this; rfl
          refine ⟨_, hw.symm, by simp [Wf.duration], by simp [Wf.channels], LeafWf.const _ _ _, ?_⟩
          intro t
          simp [Wf.sample, hab]
      obtain ⟨w, rfl, hwd, hwch, hwl, hws⟩ := hleaf
      refine ⟨by simp, hwd, by simp [hwch, Pulse.chanNames], ?_, ?_⟩
      · intro hdpos
        rw [hwd] at hdpos
        have hdne : d ≠ 0 := ne_of_gt hdpos
        simp only [hdpos, if_true]
        refine ⟨⟨hwd, by simp, by simp [hwch, Pulse.chanNames], ?_, ?_, ?_⟩, Or.inr (FlatWf.leaf hwl)⟩
        · intro c pl hc
          simp only [List.lookup_cons, List.lookup_nil] at hc
          by_cases hk : c == oc
          · simp only [hk, Option.some.injEq] at hc; subst hc; simp [PL.dur]
          · simp [hk] at hc
        · intro c pl hc
          simp only [List.lookup_cons, List.lookup_nil] at hc
          by_cases hk : c == oc
          · simp only [hk, Option.some.injEq] at hc; subst hc
            intro s hs; simp only [List.mem_singleton] at hs; subst hs; exact hdpos
          · simp [hk] at hc
        · intro c pl hc t _ ht
          simp only [List.lookup_cons, List.lookup_nil] at hc
          by_cases hk : c == oc
          · have hceq : c = oc := by simpa using hk
            subst hceq
            simp only [hk, Option.some.injEq] at hc
            subst hc
            simp only at ht
            rw [hws t]
            simp only [PL.at, ht, if_true, Seg.valueAt]
            congr 1
            field_simp
            ring
          · simp [hk] at hc
      · intro ms' hms'
        rw [hms] at hms'; cases hms'; rfl
    · simp [haff] at h2

end QP.PT
