import QP.Model.C14
import Mathlib.Tactic.Linarith
import Mathlib.Tactic.FieldSimp
import Mathlib.Algebra.Order.Field.Basic
/-!
# C14 — the `TimeType` operator table: `//`, `%`, rounding, truncation, hashing, IEEE bits
-/
namespace QP.C14

/-! ## floor division and modulo -/

theorem divmod_identity (a b : Rat) : a = b * (pyFloorDiv a b : Rat) + pyMod a b := by
  simp only [pyFloorDiv, pyMod]; linarith

theorem pyMod_pos (a b : Rat) (hb : 0 < b) : 0 ≤ pyMod a b ∧ pyMod a b < b := by
  simp only [pyMod]
  have h1 := Rat.floor_le (a / b)
  have h2 := Rat.lt_floor_add_one (a / b)
  rw [le_div_iff₀ hb] at h1
  push_cast at h2
  rw [div_lt_iff₀ hb] at h2
  constructor <;> linarith

theorem pyMod_neg (a b : Rat) (hb : b < 0) : b < pyMod a b ∧ pyMod a b ≤ 0 := by
  simp only [pyMod]
  have h1 := Rat.floor_le (a / b)
  have h2 := Rat.lt_floor_add_one (a / b)
  rw [le_div_iff_of_neg hb] at h1
  push_cast at h2
  rw [div_lt_iff_of_neg hb] at h2
  constructor <;> linarith

/-- `//` is the unique integer quotient leaving a remainder in `[0, b)` (for `b > 0`) -/
theorem pyFloorDiv_unique (a b : Rat) (hb : 0 < b) (k : Int)
    (h0 : 0 ≤ a - b * k) (h1 : a - b * k < b) : pyFloorDiv a b = k := by
  simp only [pyFloorDiv]
  have e1 : (k : Rat) ≤ a / b := by rw [le_div_iff₀ hb]; linarith
  have e2 : a / b < ((k + 1 : Int) : Rat) := by push_cast; rw [div_lt_iff₀ hb]; linarith
  have f1 : k ≤ (a / b).floor := Rat.le_floor_iff.mpr e1
  have f2 : (a / b).floor < k + 1 := Rat.floor_lt_iff.mpr e2
  omega

/-! ## rounding -/

theorem roundHalfEven_spec (x : Rat) :
    |x - (roundHalfEven x : Rat)| ≤ 1 / 2 ∧
    (|x - (roundHalfEven x : Rat)| = 1 / 2 → roundHalfEven x % 2 = 0) := by
  have h1 := Rat.floor_le x
  have h2 := Rat.lt_floor_add_one x
  push_cast at h2
  simp only [roundHalfEven]
  split
  · rename_i h
    constructor
    · rw [abs_le]; constructor <;> linarith
    · intro habs
      rw [abs_of_nonneg (by linarith)] at habs
      linarith
  · split
    · rename_i h h'
      push_cast
      constructor
      · rw [abs_le]; constructor <;> linarith
      · intro habs
        rw [abs_of_nonpos (by linarith)] at habs
        linarith
    · rename_i h h'
      have hd : x - (x.floor : Rat) = 1 / 2 := by
        rcases lt_trichotomy (x - (x.floor : Rat)) (1 / 2) with c | c | c
        · exact absurd c h
        · exact c
        · exact absurd c h'
      split
      · rename_i hev
        constructor
        · rw [abs_le]; constructor <;> linarith
        · intro _; exact hev
      · rename_i hodd
        push_cast
        constructor
        · rw [abs_le]; constructor <;> linarith
        · intro _; omega

theorem abs_sub_div_unit (x u : Rat) (hu : 0 < u) (k : Rat) : |x - k / u| = |x * u - k| / u := by
  have : x - k / u = (x * u - k) / u := by field_simp
  rw [this, abs_div, abs_of_pos hu]

theorem abs_sub_mul_unit (x u : Rat) (hu : 0 < u) (k : Rat) : |x - k * u| = |x / u - k| * u := by
  have : x - k * u = (x / u - k) * u := by field_simp
  rw [this, abs_mul, abs_of_pos hu]

/-- `round(x, n)`: the result is `k` units of the `n`-th decimal digit, within half a unit of `x`, and on a
tie `k` is even. The unit is `1/10^n` for `n ≥ 0` and `10^(-n)` for `n < 0`. -/
theorem roundNdigits_spec (x : Rat) (n : Int) :
    (0 ≤ n → ∃ k : Int, roundNdigits x n = (k : Rat) / (10 : Rat) ^ n.toNat ∧
        |x - roundNdigits x n| ≤ (1 / 2) / (10 : Rat) ^ n.toNat ∧
        (|x - roundNdigits x n| = (1 / 2) / (10 : Rat) ^ n.toNat → k % 2 = 0)) ∧
    (n < 0 → ∃ k : Int, roundNdigits x n = (k : Rat) * (10 : Rat) ^ (-n).toNat ∧
        |x - roundNdigits x n| ≤ (1 / 2) * (10 : Rat) ^ (-n).toNat ∧
        (|x - roundNdigits x n| = (1 / 2) * (10 : Rat) ^ (-n).toNat → k % 2 = 0)) := by
  constructor
  · intro hn
    simp only [roundNdigits, if_pos hn]
    have hu : (0 : Rat) < (10 : Rat) ^ n.toNat := pow_pos (by norm_num) _
    generalize (10 : Rat) ^ n.toNat = u at *
    obtain ⟨h1, h2⟩ := roundHalfEven_spec (x * u)
    refine ⟨roundHalfEven (x * u), rfl, ?_, ?_⟩
    · rw [abs_sub_div_unit x u hu]
      exact (div_le_div_iff_of_pos_right hu).mpr h1
    · intro h
      rw [abs_sub_div_unit x u hu] at h
      exact h2 ((div_left_inj' (ne_of_gt hu)).mp h)
  · intro hn
    simp only [roundNdigits, if_neg (not_le.mpr hn)]
    have hu : (0 : Rat) < (10 : Rat) ^ (-n).toNat := pow_pos (by norm_num) _
    generalize (10 : Rat) ^ (-n).toNat = u at *
    obtain ⟨h1, h2⟩ := roundHalfEven_spec (x / u)
    refine ⟨roundHalfEven (x / u), rfl, ?_, ?_⟩
    · rw [abs_sub_mul_unit x u hu]
      exact mul_le_mul_of_nonneg_right h1 (le_of_lt hu)
    · intro h
      rw [abs_sub_mul_unit x u hu] at h
      exact h2 (mul_right_cancel₀ (ne_of_gt hu) h)

theorem pyTrunc_nonneg (x : Rat) (hx : 0 ≤ x) :
    0 ≤ pyTrunc x ∧ (pyTrunc x : Rat) ≤ x ∧ x < (pyTrunc x : Rat) + 1 := by
  simp only [pyTrunc, if_pos hx]
  have h1 := Rat.floor_le x
  have h2 := Rat.lt_floor_add_one x
  push_cast at h2
  exact ⟨Rat.le_floor_iff.mpr (by simpa using hx), h1, h2⟩

theorem pyTrunc_neg (x : Rat) (hx : x < 0) :
    pyTrunc x ≤ 0 ∧ x ≤ (pyTrunc x : Rat) ∧ (pyTrunc x : Rat) - 1 < x := by
  simp only [pyTrunc, if_neg (not_le.mpr hx)]
  have h1 := Rat.le_ceil (x := x)
  have h2 := Rat.ceil_lt (x := x)
  exact ⟨Rat.ceil_le_iff.mpr (by simpa using le_of_lt hx), h1, by linarith⟩


/-! ## hashing -/

theorem powMod_one : powMod 1 (hashModulus - 2) hashModulus = 1 := by decide +kernel

/-- Python's hash of an integer: `sign(n) * (|n| mod (2^61-1))`, with `-1` replaced by `-2` -/
def pyHashInt (n : Int) : Int :=
  let h : Int := Int.ofNat (n.natAbs % hashModulus)
  let h := if n < 0 then -h else h
  if h = -1 then -2 else h

theorem pyHashRat_intCast (n : Int) : pyHashRat (n : Rat) = pyHashInt n := by
  simp only [pyHashRat, pyHashInt, Rat.num_intCast, Rat.den_intCast, powMod_one]
  simp


/-! ## IEEE-754 bits -/

/-- the sign bit negates the value and nothing else -/
theorem ofBits_sign (b : Nat) (hb : b < 2 ^ 63) :
    ofBits (b + 2 ^ 63) = (ofBits b).map (fun v => -v) := by
  have h1 : (b + 2 ^ 63) / 2 ^ 63 % 2 = 1 := by omega
  have h2 : b / 2 ^ 63 % 2 = 0 := by omega
  have h3 : (b + 2 ^ 63) / 2 ^ 52 % 2 ^ 11 = b / 2 ^ 52 % 2 ^ 11 := by omega
  have h4 : (b + 2 ^ 63) % 2 ^ 52 = b % 2 ^ 52 := by omega
  simp only [ofBits, h1, h2, h3, h4]
  split <;> simp

/-! ## the driver's operator table -/
open Sexp
theorem binop_table (a b : Rat) :
    binop "add" a b = ofRat (a + b) ∧ binop "sub" a b = ofRat (a - b) ∧
    binop "mul" a b = ofRat (a * b) ∧
    (b ≠ 0 → binop "truediv" a b = ofRat (a / b)) ∧
    (b ≠ 0 → binop "floordiv" a b = ofInt (a / b).floor) ∧
    (b ≠ 0 → binop "mod" a b = ofRat (a - b * (a / b).floor)) ∧
    (b = 0 → binop "truediv" a b = errS .zeroDivision ∧ binop "floordiv" a b = errS .zeroDivision ∧
      binop "mod" a b = errS .zeroDivision) ∧
    binop "lt" a b = ofBool (a < b) ∧ binop "le" a b = ofBool (a ≤ b) ∧
    binop "gt" a b = ofBool (b < a) ∧ binop "ge" a b = ofBool (b ≤ a) ∧
    binop "eq" a b = ofBool (a = b) := by
  refine ⟨rfl, rfl, rfl, ?_, ?_, ?_, ?_, rfl, rfl, rfl, rfl, rfl⟩
  · intro h; simp [binop, h]
  · intro h; simp [binop, h, pyFloorDiv]
  · intro h; simp [binop, h, pyMod]
  · intro h; simp [binop, h]

theorem unop_table (a : Rat) :
    unop "neg" a = ofRat (-a) ∧ unop "abs" a = ofRat (if a < 0 then -a else a) ∧
    unop "floor" a = ofInt a.floor ∧ unop "ceil" a = ofInt a.ceil ∧
    unop "trunc" a = ofInt (pyTrunc a) ∧ unop "int" a = ofInt (pyTrunc a) ∧
    unop "round" a = ofInt (roundHalfEven a) ∧ unop "hash" a = ofInt (pyHashRat a) :=
  ⟨rfl, rfl, rfl, rfl, rfl, rfl, rfl, rfl⟩

end QP.C14
