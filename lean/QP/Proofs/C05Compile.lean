import QP.Proofs.C05Items
/-!
# C05 helper lemmas: `build_waveform`, `_internal_create_program`, `_create_program`
-/
namespace QP.C05
open QP.PT

/-- peel one monadic bind of `Except` in hypothesis `h : (x >>= f) = .ok v` -/
theorem bind_ok {ε α β} {x : Except ε α} {f : α → Except ε β} {v : β} (h : (x >>= f) = .ok v) :
    ∃ a, x = .ok a ∧ f a = .ok v := by
  cases x with
  | error e => simp [bind, Except.bind] at h
  | ok a => exact ⟨a, rfl, h⟩

theorem mapM_ok_mem {ε α β} (f : α → Except ε β) : ∀ (xs : List α) (ys : List β), xs.mapM f = .ok ys →
    ∀ y ∈ ys, ∃ x ∈ xs, f x = .ok y
  | [], ys, h, y, hy => by
      simp only [List.mapM_nil, pure, Except.pure, Except.ok.injEq] at h
      subst h; simp at hy
  | x :: xs, ys, h, y, hy => by
      rw [List.mapM_cons] at h
      obtain ⟨b, hb, h⟩ := bind_ok h
      obtain ⟨bs, hbs, h⟩ := bind_ok h
      simp only [pure, Except.pure, Except.ok.injEq] at h
      subst h
      rcases List.mem_cons.mp hy with rfl | hy
      · exact ⟨x, by simp, hb⟩
      · obtain ⟨x', hx', hf⟩ := mapM_ok_mem f xs bs hbs y hy
        exact ⟨x', by simp [hx'], hf⟩

theorem fromTable_noRep (ch : Chan) (es : List WEntry) (w : Wf) (h : fromTable ch es = .ok w) : noRep w = true := by
  unfold fromTable at h
  split at h
  · cases h
  · split at h
    · cases h
    · split at h
      · cases h
      · split at h
        · cases h
        · split at h
          · cases h
          · split at h
            · cases h
            · split at h
              · cases h; rfl
              · cases h; rfl

theorem noRepList_append : ∀ xs ys : List Wf, noRepList (xs ++ ys) = (noRepList xs && noRepList ys)
  | [], ys => by simp [noRepList]
  | x :: xs, ys => by simp [noRepList, noRepList_append xs ys, Bool.and_assoc]

theorem noRepList_mem : ∀ (xs : List Wf), noRepList xs = true → ∀ x ∈ xs, noRep x = true
  | [], _, x, hx => by simp at hx
  | y :: ys, h, x, hx => by
      simp only [noRepList, Bool.and_eq_true] at h
      rcases List.mem_cons.mp hx with rfl | hx
      · exact h.1
      · exact noRepList_mem ys h.2 x hx

theorem noRepList_of_forall : ∀ xs : List Wf, (∀ x ∈ xs, noRep x = true) → noRepList xs = true
  | [], _ => rfl
  | x :: xs, h => by
      simp only [noRepList, Bool.and_eq_true]
      exact ⟨h x (by simp), noRepList_of_forall xs (fun y hy => h y (by simp [hy]))⟩

theorem mkMulti_noRep (subs : List Wf) (w : Wf) (hs : noRepList subs = true) (h : mkMulti subs = .ok w) :
    noRep w = true := by
  unfold mkMulti at h
  split at h
  · cases h
  · split at h
    · cases h
    · split at h
      · cases h; simpa [noRep] using hs
      · cases h

theorem fromParallel_noRep (ws : List Wf) (w : Wf) (hs : ∀ x ∈ ws, noRep x = true)
    (h : fromParallel ws = .ok w) : noRep w = true := by
  unfold fromParallel at h
  split at h
  · cases h
  · cases h; exact hs _ (by simp)
  · apply mkMulti_noRep _ w _ h
    apply noRepList_of_forall
    intro y hy
    simp only [List.mem_flatMap] at hy
    obtain ⟨x, hx, hy⟩ := hy
    have hxn := hs x hx
    split at hy
    · rename_i subs
      simp only [noRep] at hxn
      exact noRepList_mem subs hxn y hy
    · simp at hy; subst hy; exact hxn

theorem fromTransformation_noRep (w w' : Wf) (T : Chain) (hw : noRep w = true)
    (h : fromTransformation w T = .ok w') : noRep w' = true := by
  unfold fromTransformation at h
  split at h
  · split at h
    · exact (constFromMapping_spec _ _ _ h).2.2
    · cases h; simpa [noRep] using hw
  · cases h; simpa [noRep] using hw

theorem fromOperator_noRep (l r w : Wf) (m : Bool) (hl : noRep l = true) (hr : noRep r = true)
    (h : fromOperator l m r = .ok w) : noRep w = true := by
  unfold fromOperator at h
  split at h
  · split at h
    · cases h
    · exact (constFromMapping_spec _ _ _ h).2.2
  · split at h
    · cases h
    · cases h; simp [noRep, hl, hr]

theorem negWf_noRep (w w' : Wf) (hw : noRep w = true) (h : negWf w = .ok w') : noRep w' = true := by
  unfold negWf at h
  split at h
  · exact (constFromMapping_spec _ _ _ h).2.2
  · cases h; simpa [noRep] using hw

theorem reversedWf_noRep (w : Wf) (hw : noRep w = true) : noRep w.reversedWf = true := by
  cases w <;> simp_all [Wf.reversedWf, noRep]


theorem pure_ok {ε α} {a b : α} (h : (pure a : Except ε α) = .ok b) : a = b := by
  simpa [pure, Except.pure] using h

mutual
/-- `build_waveform` never produces sequence / repetition waveforms -/
theorem buildWaveform_noRep : ∀ (pt : PT) (σ : Scope) (cm : List (Chan × Option Chan)) (w : Wf),
    buildWaveform pt σ cm = .ok (some w) → noRep w = true
  | .const id dur amps meas, σ, cm, w, h => by
      rw [buildWaveform] at h
      obtain ⟨d, _, h⟩ := bind_ok h
      split at h
      · obtain ⟨cvs, _, h⟩ := bind_ok h
        dsimp only at h
        split at h
        · cases pure_ok h
        · obtain ⟨w', hw', h⟩ := bind_ok h
          cases pure_ok h
          exact (constFromMapping_spec _ _ _ hw').2.2
      · cases pure_ok h
  | .table id entries meas cons, σ, cm, w, h => by
      rw [buildWaveform] at h
      obtain ⟨_, _, h⟩ := bind_ok h
      obtain ⟨inst, _, h⟩ := bind_ok h
      obtain ⟨mapped, _, h⟩ := bind_ok h
      split at h
      · cases pure_ok h
      · obtain ⟨wfs, hwfs, h⟩ := bind_ok h
        obtain ⟨w', hw', h⟩ := bind_ok h
        cases pure_ok h
        apply fromParallel_noRep wfs _ _ hw'
        intro x hx
        obtain ⟨⟨ch, ws⟩, _, hf⟩ := mapM_ok_mem _ _ _ hwfs x hx
        exact fromTable_noRep ch ws x hf
  | .point id chans entries meas cons, σ, cm, w, h => by
      rw [buildWaveform] at h
      obtain ⟨_, _, h⟩ := bind_ok h
      obtain ⟨mappedAll, _, h⟩ := bind_ok h
      split at h
      · cases pure_ok h
      · dsimp only at h
        split at h
        · obtain ⟨dur, _, h⟩ := bind_ok h
          split at h
          · cases pure_ok h
          · obtain ⟨mapped, _, h⟩ := bind_ok h
            obtain ⟨inst, _, h⟩ := bind_ok h
            obtain ⟨wfs, hwfs, h⟩ := bind_ok h
            obtain ⟨w', hw', h⟩ := bind_ok h
            cases pure_ok h
            apply fromParallel_noRep wfs _ _ hw'
            intro x hx
            obtain ⟨⟨ch, ws⟩, _, hf⟩ := mapM_ok_mem _ _ _ hwfs x hx
            exact fromTable_noRep ch ws x hf
        · obtain ⟨dur, hd, _⟩ := bind_ok h
          cases hd
  | .func id ch dur e meas cons, σ, cm, w, h => by
      rw [buildWaveform] at h
      obtain ⟨_, _, h⟩ := bind_ok h
      obtain ⟨o, _, h⟩ := bind_ok h
      split at h
      · cases pure_ok h
      · obtain ⟨_, _, h⟩ := bind_ok h
        obtain ⟨d, _, h⟩ := bind_ok h
        obtain ⟨env, _, h⟩ := bind_ok h
        split at h
        · cases pure_ok h; rfl
        · split at h
          · cases pure_ok h; rfl
          · cases h
  | .seq .., σ, cm, w, h => by rw [buildWaveform] at h; cases h
  | .rep .., σ, cm, w, h => by rw [buildWaveform] at h; cases h
  | .forLoop .., σ, cm, w, h => by rw [buildWaveform] at h; cases h
  | .mapping id body pm mm' cm' cons, σ, cm, w, h => by
      rw [buildWaveform] at h
      obtain ⟨σ', _, h⟩ := bind_ok h
      obtain ⟨cmU, _, h⟩ := bind_ok h
      exact buildWaveform_noRep body σ' cmU w h
  | .parallel id body over, σ, cm, w, h => by
      rw [buildWaveform] at h
      obtain ⟨inner, hi, h⟩ := bind_ok h
      split at h
      · cases pure_ok h
      · rename_i w0
        obtain ⟨ov, _, h⟩ := bind_ok h
        obtain ⟨w', hw', h⟩ := bind_ok h
        cases pure_ok h
        exact fromTransformation_noRep w0 _ _ (buildWaveform_noRep body σ cm w0 hi) hw'
  | .atomicMulti id subs dur meas cons, σ, cm, w, h => by
      rw [buildWaveform] at h
      obtain ⟨_, _, h⟩ := bind_ok h
      obtain ⟨wfs, hwfs, h⟩ := bind_ok h
      have hall := buildWaveformList_noRep subs σ cm wfs hwfs
      split at h
      · cases pure_ok h
      · obtain ⟨w', hw', h⟩ := bind_ok h
        have hn := fromParallel_noRep wfs w' hall hw'
        split at h
        · cases pure_ok h; exact hn
        · obtain ⟨expected, _, h⟩ := bind_ok h
          split at h
          · cases h
          · cases pure_ok h; exact hn
  | .arith id body op scalar ptIsLhs, σ, cm, w, h => by
      rw [buildWaveform] at h
      obtain ⟨inner, hi, h⟩ := bind_ok h
      split at h
      · cases pure_ok h
      · rename_i w0
        obtain ⟨T, _, h⟩ := bind_ok h
        obtain ⟨w', hw', h⟩ := bind_ok h
        cases pure_ok h
        exact fromTransformation_noRep w0 _ _ (buildWaveform_noRep body σ cm w0 hi) hw'
  | .arithAtomic id lhs minus rhs meas, σ, cm, w, h => by
      rw [buildWaveform] at h
      obtain ⟨l, hl, h⟩ := bind_ok h
      obtain ⟨r, hr, h⟩ := bind_ok h
      cases r with
      | none =>
        have := pure_ok h
        subst this
        exact buildWaveform_noRep lhs σ cm w hl
      | some r0 =>
        cases l with
        | none =>
          dsimp only at h
          split at h
          · obtain ⟨w', hw', h⟩ := bind_ok h
            cases pure_ok h
            exact negWf_noRep r0 _ (buildWaveform_noRep rhs σ cm r0 hr) hw'
          · cases pure_ok h
            exact buildWaveform_noRep rhs σ cm _ hr
        | some l0 =>
          dsimp only at h
          obtain ⟨w', hw', h⟩ := bind_ok h
          cases pure_ok h
          exact fromOperator_noRep l0 r0 _ _ (buildWaveform_noRep lhs σ cm l0 hl)
            (buildWaveform_noRep rhs σ cm r0 hr) hw'
  | .timeReversal id body, σ, cm, w, h => by
      rw [buildWaveform] at h
      obtain ⟨inner, hi, h⟩ := bind_ok h
      have := pure_ok h
      cases inner with
      | none => simp at this
      | some w0 =>
        simp only [Option.map_some, Option.some.injEq] at this
        subst this
        exact reversedWf_noRep w0 (buildWaveform_noRep body σ cm w0 hi)
theorem buildWaveformList_noRep : ∀ (ps : List PT) (σ : Scope) (cm : List (Chan × Option Chan)) (ws : List Wf),
    buildWaveformList ps σ cm = .ok ws → ∀ x ∈ ws, noRep x = true
  | [], σ, cm, ws, h => by
      rw [buildWaveformList] at h
      cases h
      intro x hx; simp at hx
  | p :: ps, σ, cm, ws, h => by
      rw [buildWaveformList] at h
      obtain ⟨w, hw, h⟩ := bind_ok h
      obtain ⟨ws', hws', h⟩ := bind_ok h
      have := pure_ok h
      subst this
      intro x hx
      cases w with
      | none => exact buildWaveformList_noRep ps σ cm ws' hws' x (by simpa using hx)
      | some w0 =>
        simp only [List.mem_cons] at hx
        rcases hx with rfl | hx
        · exact buildWaveform_noRep p σ cm _ hw
        · exact buildWaveformList_noRep ps σ cm ws' hws' x hx
end

end QP.C05

namespace QP.C05
open QP.PT

/-! ## atomic templates -/

/-- the constant re-fold at the end of `AtomicPulseTemplate._internal_create_program` -/
def foldConst (w : Wf) : Except Err Wf :=
  match w.constDict with
  | none => pure w
  | some cv => constFromMapping w.duration cv

theorem foldConst_spec (w w' : Wf) (hc : cst w = true) (h : foldConst w = .ok w') :
    w'.duration = w.duration ∧ cst w' = true ∧ (∀ c t, pv w' c t = pv w c t) ∧
      (∀ c, tidy c w = true → tidy c w' = true) := by
  unfold foldConst at h
  split at h
  · cases pure_ok h
    exact ⟨rfl, hc, fun _ _ => rfl, fun _ h => h⟩
  · rename_i cv hcv
    obtain ⟨a1, _, a3⟩ := constFromMapping_spec _ _ _ h
    refine ⟨a1, noRep_cst _ a3, fun c t => ?_, fun c _ => noRep_tidy c _ a3⟩
    rw [constFromMapping_pv _ _ _ h c t, constOK w cv hc hcv c t]

/-- the items an atomic template emits for the waveform `w` and the windows `ms` -/
def leafItems (ms : List Window) (w : Wf) : List Item :=
  (if ms.isEmpty then [] else [Item.measure ms]) ++ [Item.node (leaf w)]

theorem leafItems_nodes (ms : List Window) (w : Wf) : itemsNodes (leafItems ms w) = [leaf w] := by
  unfold leafItems; split <;> simp [itemsNodes]

theorem leafItems_meas (ms : List Window) (w : Wf) :
    itemsMeas (leafItems ms w) 0 = itemsMeas [Item.measure ms, Item.node (leaf w)] 0 := by
  unfold leafItems
  split
  · rename_i h
    have : ms = [] := List.isEmpty_iff.mp h
    subst this
    simp [itemsMeas]
  · simp [itemsMeas]

theorem leafItems_endsOk (ms : List Window) (w : Wf) : endsOk (leafItems ms w) = true := by
  unfold leafItems; split <;> simp [endsOk]

theorem atomItems_ok (pt : PT) (ctx : Ctx) (I : List Item) (h : atomItems pt ctx = .ok I) :
    (buildWaveform pt ctx.scope ctx.cm = .ok none ∧ I = []) ∨
    ∃ w ms wT wF, buildWaveform pt ctx.scope ctx.cm = .ok (some w) ∧ atomicMeas pt ctx.scope ctx.mm = .ok ms ∧
      collapseWf w ctx.trafo = .ok wT ∧ foldConst wT = .ok wF ∧ I = leafItems ms wF := by
  unfold atomItems at h
  obtain ⟨w?, hw, h⟩ := bind_ok h
  cases w? with
  | none => left; exact ⟨hw, (pure_ok h).symm⟩
  | some w =>
    right
    dsimp only at h
    obtain ⟨ms, hms, h⟩ := bind_ok h
    have fin : ∀ wT : Wf, collapseWf w ctx.trafo = .ok wT →
        (match wT.constDict with
          | none => do
            let w ← pure wT
            pure ((if ms.isEmpty = true then [] else [Item.measure ms]) ++ [Item.node (leaf w)])
          | some cv => do
            let w ← constFromMapping wT.duration cv
            pure ((if ms.isEmpty = true then [] else [Item.measure ms]) ++ [Item.node (leaf w)])) = Except.ok I →
        ∃ w ms wT wF, buildWaveform pt ctx.scope ctx.cm = .ok (some w) ∧ atomicMeas pt ctx.scope ctx.mm = .ok ms ∧
          collapseWf w ctx.trafo = .ok wT ∧ foldConst wT = .ok wF ∧ I = leafItems ms wF := by
      intro wT hwT h
      split at h
      · rename_i hcd
        obtain ⟨wF, hwF, h⟩ := bind_ok h
        refine ⟨w, ms, wT, wF, hw, hms, hwT, ?_, (pure_ok h).symm⟩
        unfold foldConst; rw [hcd]; exact hwF
      · rename_i cv hcd
        obtain ⟨wF, hwF, h⟩ := bind_ok h
        refine ⟨w, ms, wT, wF, hw, hms, hwT, ?_, (pure_ok h).symm⟩
        unfold foldConst; rw [hcd]; exact hwF
    by_cases hT : ctx.trafo.isEmpty = true
    · simp only [hT, if_true] at h
      obtain ⟨wT, hwT, h⟩ := bind_ok h
      exact fin wT (by unfold collapseWf; simp only [hT, if_true]; exact hwT) h
    · simp only [hT, if_false] at h
      obtain ⟨wT, hwT, h⟩ := bind_ok h
      exact fin wT (by unfold collapseWf; simp only [hT, if_false]; exact hwT) h

theorem inv_leafItems (ms : List Window) (w : Wf) (hc : cst w = true) (hn : 0 ≤ w.duration) :
    Inv (leafItems ms w) where
  trail := leafItems_endsOk ms w
  cst := by rw [leafItems_nodes]; simp [allLeavesList, leaf_allLeaves, hc]
  pos := by rw [leafItems_nodes]; simp [posRepsList, posReps, leaf]
  nn := by rw [leafItems_nodes]; simp [allLeavesList, leaf_allLeaves, nonnegW, hn]

/-- unary part for atoms -/
theorem atomItems_inv (pt : PT) (ctx ctx' : Ctx) (hs : ctx'.scope = ctx.scope) (hcm : ctx'.cm = ctx.cm)
    (J I : List Item) (hJ : atomItems pt ctx = .ok J) (hnn : allLeavesList nonnegW (itemsNodes J) = true)
    (hI : atomItems pt ctx' = .ok I) : Inv I := by
  rcases atomItems_ok pt ctx' I hI with ⟨_, rfl⟩ | ⟨w, ms, wT, wF, hw, _, hwT, hwF, rfl⟩
  · exact inv_nil
  · rw [hs, hcm] at hw
    have hcw := noRep_cst w (buildWaveform_noRep pt _ _ w hw)
    obtain ⟨a1, a2, _, _⟩ := collapseWf_spec w wT _ hcw hwT
    obtain ⟨b1, b2, _, _⟩ := foldConst_spec wT wF a2 hwF
    apply inv_leafItems ms wF b2
    rw [b1, a1]
    -- the default program plays the same waveform (up to the transformation): same duration
    rcases atomItems_ok pt ctx J hJ with ⟨hJn, _⟩ | ⟨w', ms', wT', wF', hw', _, hwT', hwF', rfl⟩
    · rw [hw] at hJn; cases hJn
    · rw [hw] at hw'
      cases hw'
      obtain ⟨a1', a2', _, _⟩ := collapseWf_spec w wT' _ hcw hwT'
      obtain ⟨b1', _, _, _⟩ := foldConst_spec wT' wF' a2' hwF'
      rw [leafItems_nodes] at hnn
      simp only [allLeavesList, leaf_allLeaves, nonnegW, Bool.and_true, decide_eq_true_eq] at hnn
      rw [b1', a1'] at hnn
      exact hnn

/-- binary part for atoms -/
theorem atomItems_rel (pt : PT) (ctx ctx' : Ctx) (T₁ T₂ : Chain) (hs : ctx'.scope = ctx.scope)
    (hcm : ctx'.cm = ctx.cm) (hmm : ctx'.mm = ctx.mm) (ht : ctx.trafo = T₁ ++ T₂) (ht' : ctx'.trafo = T₁)
    (I I' : List Item) (hI : atomItems pt ctx = .ok I) (hI' : atomItems pt ctx' = .ok I') (c : Chan) :
    Rel c T₂ I I' := by
  rcases atomItems_ok pt ctx I hI with ⟨hn, rfl⟩ | ⟨w, ms, wT, wF, hw, hms, hwT, hwF, rfl⟩
  · rcases atomItems_ok pt ctx' I' hI' with ⟨_, rfl⟩ | ⟨w', _, _, _, hw', _, _, _, _⟩
    · exact ⟨Iff.rfl, rfl, List.Perm.refl _, by simp [allPres, itemsNodes, allLeavesList], by
        intro _ t h0 ht
        simp [itemsDur, itemsNodes, Loop.durationList] at ht
        exact absurd ht (by grind)⟩
    · rw [hs, hcm, hn] at hw'; cases hw'
  · rcases atomItems_ok pt ctx' I' hI' with ⟨hn', _⟩ | ⟨w', ms', wT', wF', hw', hms', hwT', hwF', rfl⟩
    · rw [hs, hcm, hw] at hn'; cases hn'
    · rw [hs, hcm, hw] at hw'
      cases hw'
      rw [hs, hmm, hms] at hms'
      cases hms'
      have hcw := noRep_cst w (buildWaveform_noRep pt _ _ w hw)
      rw [ht] at hwT
      rw [ht'] at hwT'
      obtain ⟨a1, a2, a3, _⟩ := collapseWf_spec w wT _ hcw hwT
      obtain ⟨b1, b2, b3, _⟩ := foldConst_spec wT wF a2 hwF
      obtain ⟨a1', a2', a3', _⟩ := collapseWf_spec w wT' _ hcw hwT'
      obtain ⟨b1', b2', b3', _⟩ := foldConst_spec wT' wF' a2' hwF'
      apply rel_congr c T₂ [Item.measure ms, Item.node (leaf wF)] (leafItems ms wF)
        [Item.measure ms, Item.node (leaf wF')] (leafItems ms wF')
      · rw [leafItems_nodes]; rfl
      · rw [leafItems_meas]
      · rw [leafItems_nodes]; rfl
      · rw [leafItems_meas]
      · apply rel_leaf
        · rw [b1, a1, b1', a1']
        · intro t
          rw [b3, a3, b3', a3', Chain.chanF_append]


end QP.C05

namespace QP.C05
open QP.PT

/-! ## `_create_program`: the `to_single_waveform` branch -/

def isCollId (id : Option String) (S : List String) : Bool :=
  match id with
  | some n => S.contains n
  | none => false

theorem isColl_eq (S : List String) (p : PT) : isColl S p = isCollId p.ident S := rfl

theorem wrapSingle_not (id : Option String) (ctx : Ctx) (k : Ctx → Except Err (List Item))
    (h : isCollId id ctx.single = false) : wrapSingle id ctx k = k ctx := by
  unfold wrapSingle
  cases id with
  | none => rfl
  | some n =>
    simp only [isCollId] at h
    simp only [h, Bool.false_eq_true, if_false]

theorem wrapSingle_yes (id : Option String) (ctx : Ctx) (k : Ctx → Except Err (List Item)) (I : List Item)
    (hc : isCollId id ctx.single = true) (h : wrapSingle id ctx k = .ok I) :
    ∃ I0, k { ctx with trafo := [] } = .ok I0 ∧
      ((toProgram I0 = none ∧ I = []) ∨
       ∃ root w0 w, toProgram I0 = some root ∧ root.toWaveform = .ok w0 ∧ collapseWf w0 ctx.trafo = .ok w ∧
         I = [Item.measure root.windows, Item.node (leaf w)]) := by
  unfold wrapSingle at h
  cases id with
  | none => simp [isCollId] at hc
  | some n =>
    simp only [isCollId] at hc
    simp only [hc, if_true] at h
    obtain ⟨I0, hI0, h⟩ := bind_ok h
    refine ⟨I0, hI0, ?_⟩
    cases hp : toProgram I0 with
    | none =>
      left
      simp only [hp] at h
      exact ⟨rfl, (pure_ok h).symm⟩
    | some root =>
      right
      simp only [hp] at h
      obtain ⟨w0, hw0, h⟩ := bind_ok h
      by_cases hT : ctx.trafo.isEmpty = true
      · simp only [hT, if_true] at h
        obtain ⟨w, hw, h⟩ := bind_ok h
        exact ⟨root, w0, w, rfl, hw0, by unfold collapseWf; simp only [hT, if_true]; exact hw, (pure_ok h).symm⟩
      · simp only [hT] at h
        obtain ⟨w, hw, h⟩ := bind_ok h
        exact ⟨root, w0, w, rfl, hw0, by unfold collapseWf; simp only [hT]; exact hw, (pure_ok h).symm⟩

def tidyI (c : Chan) (I : List Item) : Prop := allLeavesList (tidy c) (itemsNodes I) = true
def nnI (I : List Item) : Prop := allLeavesList nonnegW (itemsNodes I) = true

/-- a collapsed part plays the global transformation applied to what its inner program plays -/
theorem collapsed_rel (c : Chan) (T : Chain) (I0 I : List Item) (hinv : Inv I0)
    (h : (toProgram I0 = none ∧ I = []) ∨
       ∃ root w0 w, toProgram I0 = some root ∧ root.toWaveform = .ok w0 ∧ collapseWf w0 T = .ok w ∧
         I = [Item.measure root.windows, Item.node (leaf w)]) :
    Inv I ∧ (tidyI c I → Rel c T I I0 ∧ tidyI c I0) := by
  rcases h with ⟨hn, rfl⟩ | ⟨root, w0, w, hr, hw0, hw, rfl⟩
  · refine ⟨inv_nil, fun _ => ?_⟩
    rw [toProgram_eq] at hn
    have hnodes : itemsNodes I0 = [] := by
      by_cases he : (itemsNodes I0).isEmpty = true
      · exact List.isEmpty_iff.mp he
      · simp [he] at hn
    have : I0 = [] := endsOk_nodes_nil I0 hinv.trail hnodes
    subst this
    exact ⟨rel_nil c T, rfl⟩
  · obtain ⟨a1, a2⟩ := rel_collapse c T I0 root w0 w hinv hr hw0 hw
    refine ⟨a1, fun ht => ?_⟩
    apply a2
    simpa [tidyI, itemsNodes, allLeavesList, leaf_allLeaves] using ht

/-- unary statement: every compilation result satisfies the invariants -/
def GU (k : Ctx → Except Err (List Item)) : Prop :=
  ∀ (ctx : Ctx) (T0 : Chain) (J : List Item), k { ctx with trafo := T0, single := [] } = .ok J → nnI J →
    ∀ (T : Chain) (S : List String) (I : List Item), k { ctx with trafo := T, single := S } = .ok I → Inv I

/-- binary statement: an additional transformation `T₂` and different `to_single_waveform` sets -/
def GB (clean : List String → Bool → Bool → Bool) (k : Ctx → Except Err (List Item)) : Prop :=
  ∀ (ctx : Ctx) (T0 : Chain) (J : List Item), k { ctx with trafo := T0, single := [] } = .ok J → nnI J →
    ∀ (T₁ T₂ : Chain) (S S' U : List String) (I I' : List Item) (c : Chan) (tr1 tr2 : Bool),
      k { ctx with trafo := T₁ ++ T₂, single := S } = .ok I →
      k { ctx with trafo := T₁, single := S' } = .ok I' →
      (∀ x, S.contains x = true → U.contains x = true) → (∀ x, S'.contains x = true → U.contains x = true) →
      (T₁ ≠ [] → tr1 = true) → (T₂ ≠ [] → tr2 = true) → clean U tr1 tr2 = true →
      tidyI c I → tidyI c I' → Rel c T₂ I I'


mutual
theorem cleanG_mono (U : List String) : ∀ (p : PT) (a b a' b' : Bool), (a' = true → a = true) → (b' = true → b = true) →
    cleanG U a b p = true → cleanG U a' b' p = true
  | .const .., _, _, _, _, _, _, _ => rfl
  | .table .., _, _, _, _, _, _, _ => rfl
  | .point .., _, _, _, _, _, _, _ => rfl
  | .func .., _, _, _, _, _, _, _ => rfl
  | .atomicMulti .., _, _, _, _, _, _, _ => rfl
  | .arithAtomic .., _, _, _, _, _, _, _ => rfl
  | .seq _ subs _ _, a, b, a', b', ha, hb, h => by
      simp only [cleanG] at h ⊢
      exact cleanL_mono U subs a b a' b' ha hb h
  | .rep _ body _ _ _, a, b, a', b', ha, hb, h => by
      simp only [cleanG, Bool.and_eq_true, Bool.or_eq_true, Bool.not_eq_true'] at h ⊢
      refine ⟨cleanG_mono U body a b a' b' ha hb h.1, ?_⟩
      rcases h.2 with h2 | h2
      · exact Or.inl h2
      · exact Or.inr (cleanG_mono U body false (a || b) false (a' || b') (fun e => e) (by
          intro e; cases a' <;> cases b' <;> simp_all) h2)
  | .forLoop _ body _ _ _ _ _ _, a, b, a', b', ha, hb, h => by
      simp only [cleanG, Bool.and_eq_true, Bool.or_eq_true, Bool.not_eq_true'] at h ⊢
      refine ⟨cleanG_mono U body a b a' b' ha hb h.1, ?_⟩
      rcases h.2 with h2 | h2
      · exact Or.inl h2
      · exact Or.inr (cleanG_mono U body false (a || b) false (a' || b') (fun e => e) (by
          intro e; cases a' <;> cases b' <;> simp_all) h2)
  | .mapping _ body _ _ _ _, a, b, a', b', ha, hb, h => by
      simp only [cleanG, Bool.and_eq_true, Bool.or_eq_true, Bool.not_eq_true'] at h ⊢
      refine ⟨cleanG_mono U body a b a' b' ha hb h.1, ?_⟩
      rcases h.2 with h2 | h2
      · exact Or.inl h2
      · exact Or.inr (cleanG_mono U body false (a || b) false (a' || b') (fun e => e) (by
          intro e; cases a' <;> cases b' <;> simp_all) h2)
  | .parallel _ body _, a, b, a', b', ha, hb, h => by
      simp only [cleanG, Bool.and_eq_true, Bool.not_eq_true'] at h ⊢
      refine ⟨?_, h.2⟩
      cases b' with
      | false => rfl
      | true => have := hb rfl; rw [this] at h; exact absurd h.1 (by simp)
  | .arith _ body _ _ _, a, b, a', b', ha, hb, h => by
      simp only [cleanG, Bool.and_eq_true] at h ⊢
      exact ⟨cleanG_mono U body true b true b' (fun e => e) hb h.1, h.2⟩
  | .timeReversal _ body, a, b, a', b', ha, hb, h => by
      simp only [cleanG, Bool.and_eq_true, Bool.not_eq_true'] at h ⊢
      refine ⟨?_, h.2⟩
      cases b' with
      | false => rfl
      | true => have := hb rfl; rw [this] at h; exact absurd h.1 (by simp)
theorem cleanL_mono (U : List String) : ∀ (ps : List PT) (a b a' b' : Bool), (a' = true → a = true) → (b' = true → b = true) →
    cleanL U a b ps = true → cleanL U a' b' ps = true
  | [], _, _, _, _, _, _, _ => rfl
  | p :: ps, a, b, a', b', ha, hb, h => by
      simp only [cleanL, Bool.and_eq_true, Bool.or_eq_true, Bool.not_eq_true'] at h ⊢
      refine ⟨⟨cleanG_mono U p a b a' b' ha hb h.1.1, ?_⟩, cleanL_mono U ps a b a' b' ha hb h.2⟩
      rcases h.1.2 with h2 | h2
      · exact Or.inl h2
      · exact Or.inr (cleanG_mono U p false (a || b) false (a' || b') (fun e => e) (by
          intro e; cases a' <;> cases b' <;> simp_all) h2)
end

/-- the compilation entered through `_create_program` -/
def wrapK (p : PT) : Ctx → Except Err (List Item) := fun ctx => wrapSingle p.ident ctx (internal p)

theorem wrapK_plain (p : PT) (ctx : Ctx) (T : Chain) :
    wrapK p { ctx with trafo := T, single := [] } = internal p { ctx with trafo := T, single := [] } := by
  unfold wrapK
  apply wrapSingle_not
  cases p.ident <;> simp [isCollId]

theorem GU_wrap (p : PT) (hU : GU (internal p)) : GU (wrapK p) := by
  intro ctx T0 J hJ hnn T S I hI
  rw [wrapK_plain] at hJ
  unfold wrapK at hI
  by_cases hc : isCollId p.ident S = true
  · obtain ⟨I0, hI0, hcase⟩ := wrapSingle_yes _ _ _ I hc hI
    have inv0 := hU ctx T0 J hJ hnn [] S I0 hI0
    exact (collapsed_rel "" T I0 I inv0 hcase).1
  · have hc' : isCollId p.ident S = false := by simpa using hc
    rw [wrapSingle_not _ _ _ hc'] at hI
    exact hU ctx T0 J hJ hnn T S I hI

theorem GB_wrap (p : PT) (hU : GU (internal p)) (hB : GB (fun U a b => cleanG U a b p) (internal p)) :
    GB (fun U a b => cleanW U a b p) (wrapK p) := by
  intro ctx T0 J hJ hnn T₁ T₂ S S' U I I' c tr1 tr2 hI hI' hSU hS'U hf1 hf2 hclean htI htI'
  rw [wrapK_plain] at hJ
  unfold wrapK at hI hI'
  simp only [cleanW, Bool.and_eq_true, Bool.or_eq_true, Bool.not_eq_true'] at hclean
  have collU : ∀ S0 : List String, (∀ x, S0.contains x = true → U.contains x = true) →
      isCollId p.ident S0 = true → isColl U p = true := by
    intro S0 h0 hc
    unfold isColl
    cases hid : p.ident with
    | none => rw [hid] at hc; simp [isCollId] at hc
    | some n => rw [hid] at hc; simp only [isCollId] at hc; exact h0 n hc
  have cleanIn : ∀ S0 : List String, (∀ x, S0.contains x = true → U.contains x = true) →
      isCollId p.ident S0 = true → cleanG U false (tr1 || tr2) p = true := by
    intro S0 h0 hc
    rcases hclean.2 with h | h
    · rw [collU S0 h0 hc] at h; cases h
    · exact h
  by_cases hc : isCollId p.ident S = true
  · obtain ⟨I0, hI0, hcase⟩ := wrapSingle_yes _ _ _ I hc hI
    have inv0 := hU ctx T0 J hJ hnn [] S I0 hI0
    obtain ⟨_, hrel⟩ := collapsed_rel c (T₁ ++ T₂) I0 I inv0 hcase
    obtain ⟨relA, tidy0⟩ := hrel htI
    have hcl := cleanIn S hSU hc
    by_cases hc' : isCollId p.ident S' = true
    · -- both collapsed
      obtain ⟨I0', hI0', hcase'⟩ := wrapSingle_yes _ _ _ I' hc' hI'
      have inv0' := hU ctx T0 J hJ hnn [] S' I0' hI0'
      obtain ⟨_, hrel'⟩ := collapsed_rel c T₁ I0' I' inv0' hcase'
      obtain ⟨relC, tidy0'⟩ := hrel' htI'
      have ih := hB ctx T0 J hJ hnn [] [] S S' U I0 I0' c false false hI0 hI0' hSU hS'U
        (fun h => absurd rfl h) (fun h => absurd rfl h)
        (cleanG_mono U p false (tr1 || tr2) false false (fun e => e) (fun e => by cases e) hcl) tidy0 tidy0'
      exact rel_div c T₁ T₂ I I0' I' (rel_trans_nil c _ I I0 I0' relA ih) relC
    · have hc'' : isCollId p.ident S' = false := by simpa using hc'
      rw [wrapSingle_not _ _ _ hc''] at hI'
      have ih := hB ctx T0 J hJ hnn [] T₁ S' S U I' I0 c false tr1 (by simpa using hI') hI0 hS'U hSU
        (fun h => absurd rfl h) hf1
        (cleanG_mono U p false (tr1 || tr2) false tr1 (fun e => e) (fun e => by simp [e]) hcl) htI' tidy0
      exact rel_div c T₁ T₂ I I0 I' relA ih
  · have hcf : isCollId p.ident S = false := by simpa using hc
    rw [wrapSingle_not _ _ _ hcf] at hI
    by_cases hc' : isCollId p.ident S' = true
    · obtain ⟨I0', hI0', hcase'⟩ := wrapSingle_yes _ _ _ I' hc' hI'
      have inv0' := hU ctx T0 J hJ hnn [] S' I0' hI0'
      obtain ⟨_, hrel'⟩ := collapsed_rel c T₁ I0' I' inv0' hcase'
      obtain ⟨relC, tidy0'⟩ := hrel' htI'
      have hcl := cleanIn S' hS'U hc'
      have ih := hB ctx T0 J hJ hnn [] (T₁ ++ T₂) S S' U I I0' c false (tr1 || tr2) (by simpa using hI) hI0' hSU hS'U
        (fun h => absurd rfl h) (by
          intro hne
          cases T₁ with
          | nil => simp only [List.nil_append] at hne; simp [hf2 hne]
          | cons t ts => simp [hf1 (by simp)])
        hcl htI tidy0'
      exact rel_div c T₁ T₂ I I0' I' ih relC
    · have hcf' : isCollId p.ident S' = false := by simpa using hc'
      rw [wrapSingle_not _ _ _ hcf'] at hI'
      exact hB ctx T0 J hJ hnn T₁ T₂ S S' U I I' c tr1 tr2 hI hI' hSU hS'U hf1 hf2 hclean.1 htI htI'


end QP.C05

namespace QP.C05
open QP.PT

/-! ## small transport lemmas -/

theorem nnI_guardRun (ms : List Window) (I : List Item) : nnI (guardRun ms I) ↔ nnI I := by
  simp only [nnI, guardRun_nodes]

theorem tidyI_guardRun (c : Chan) (ms : List Window) (I : List Item) : tidyI c (guardRun ms I) ↔ tidyI c I := by
  simp only [tidyI, guardRun_nodes]

theorem allLeavesList_rep (p : Wf → Bool) (n : Nat) (ms : List Window) (I : List Item)
    (h : allLeavesList p (itemsNodes (tryAppend ((Loop.mk n none [] []).applyItems I) ms)) = true) :
    allLeavesList p (itemsNodes I) = true := by
  rw [applyItems_repLoop] at h
  unfold tryAppend at h
  rw [repLoop_isEmpty] at h
  by_cases he : itemsNodes I = []
  · rw [he]; rfl
  · have e1 : (itemsNodes I).isEmpty = false := by simpa using he
    simp only [e1, Bool.false_eq_true, if_false, itemsNodes, allLeavesList, Bool.and_true, repLoop,
      allLeaves_none] at h
    exact h

theorem allLeavesList_append_left (p : Wf → Bool) (I J : List Item)
    (h : allLeavesList p (itemsNodes (I ++ J)) = true) :
    allLeavesList p (itemsNodes I) = true ∧ allLeavesList p (itemsNodes J) = true := by
  rw [itemsNodes_append, allLeavesList_append, Bool.and_eq_true] at h
  exact h

/-- two evaluations of the same thing -/
theorem ok_inj {ε α} {x : Except ε α} {a b : α} (h1 : x = .ok a) (h2 : x = .ok b) : a = b := by
  rw [h1] at h2; cases h2; rfl

/-! ## atoms -/

theorem GU_atom (p : PT) (hp : ∀ ctx, internal p ctx = atomItems p ctx) : GU (internal p) := by
  intro ctx T0 J hJ hnn T S I hI
  rw [hp] at hJ hI
  exact atomItems_inv p { ctx with trafo := T0, single := [] } { ctx with trafo := T, single := S } rfl rfl J I hJ hnn hI

theorem GB_atom (p : PT) (hp : ∀ ctx, internal p ctx = atomItems p ctx) (cl : List String → Bool → Bool → Bool) :
    GB cl (internal p) := by
  intro ctx T0 J hJ hnn T₁ T₂ S S' U I I' c tr1 tr2 hI hI' _ _ _ _ _ _ _
  rw [hp] at hI hI'
  exact atomItems_rel p { ctx with trafo := T₁ ++ T₂, single := S } { ctx with trafo := T₁, single := S' } T₁ T₂ rfl rfl rfl rfl rfl I I' hI hI' c

/-! ## sequences -/

theorem internalList_cons_ok (p : PT) (ps : List PT) (ctx : Ctx) (I : List Item)
    (h : internalList (p :: ps) ctx = .ok I) :
    ∃ a b, wrapK p ctx = .ok a ∧ internalList ps ctx = .ok b ∧ I = a ++ b := by
  rw [internalList] at h
  obtain ⟨a, ha, h⟩ := bind_ok h
  obtain ⟨b, hb, h⟩ := bind_ok h
  exact ⟨a, b, ha, hb, (pure_ok h).symm⟩

theorem GU_cons (p : PT) (ps : List PT) (h1 : GU (wrapK p)) (h2 : GU (internalList ps)) :
    GU (internalList (p :: ps)) := by
  intro ctx T0 J hJ hnn T S I hI
  obtain ⟨ja, jb, hja, hjb, rfl⟩ := internalList_cons_ok p ps _ J hJ
  obtain ⟨a, b, ha, hb, rfl⟩ := internalList_cons_ok p ps _ I hI
  obtain ⟨n1, n2⟩ := allLeavesList_append_left _ ja jb hnn
  exact inv_append a b (h1 ctx T0 ja hja n1 T S a ha) (h2 ctx T0 jb hjb n2 T S b hb)

theorem GB_cons (p : PT) (ps : List PT) (u1 : GU (wrapK p))
    (h1 : GB (fun U a b => cleanW U a b p) (wrapK p)) (h2 : GB (fun U a b => cleanL U a b ps) (internalList ps)) :
    GB (fun U a b => cleanL U a b (p :: ps)) (internalList (p :: ps)) := by
  intro ctx T0 J hJ hnn T₁ T₂ S S' U I I' c tr1 tr2 hI hI' hSU hS'U hf1 hf2 hclean htI htI'
  obtain ⟨ja, jb, hja, hjb, rfl⟩ := internalList_cons_ok p ps _ J hJ
  obtain ⟨a, b, ha, hb, rfl⟩ := internalList_cons_ok p ps _ I hI
  obtain ⟨a', b', ha', hb', rfl⟩ := internalList_cons_ok p ps _ I' hI'
  obtain ⟨n1, n2⟩ := allLeavesList_append_left _ ja jb hnn
  obtain ⟨t1, t2⟩ := allLeavesList_append_left _ a b htI
  obtain ⟨t1', t2'⟩ := allLeavesList_append_left _ a' b' htI'
  have hcl : cleanW U tr1 tr2 p = true ∧ cleanL U tr1 tr2 ps = true := by
    simpa [cleanL, cleanW, Bool.and_eq_true] using hclean
  have ia := u1 ctx T0 ja hja n1 _ _ a ha
  have ia' := u1 ctx T0 ja hja n1 _ _ a' ha'
  exact rel_append c T₂ a b a' b' ia.nn ia'.nn
    (h1 ctx T0 ja hja n1 T₁ T₂ S S' U a a' c tr1 tr2 ha ha' hSU hS'U hf1 hf2 hcl.1 t1 t1')
    (h2 ctx T0 jb hjb n2 T₁ T₂ S S' U b b' c tr1 tr2 hb hb' hSU hS'U hf1 hf2 hcl.2 t2 t2')

theorem GU_nil : GU (internalList []) := by
  intro ctx T0 J _ _ T S I hI
  rw [internalList] at hI
  cases hI
  exact inv_nil

theorem GB_nil (cl : List String → Bool → Bool → Bool) : GB cl (internalList []) := by
  intro ctx T0 J _ _ T₁ T₂ S S' U I I' c tr1 tr2 hI hI' _ _ _ _ _ _ _
  rw [internalList] at hI hI'
  cases hI; cases hI'
  exact rel_nil c T₂

theorem internal_seq_ok (id : Option String) (subs : List PT) (meas : List MeasDecl) (cons : List Expr)
    (ctx : Ctx) (I : List Item) (h : internal (.seq id subs meas cons) ctx = .ok I) :
    ∃ ms items, getMeas meas ctx.scope.look ctx.mm = .ok ms ∧ internalList subs ctx = .ok items ∧
      I = guardRun ms items := by
  rw [internal] at h
  obtain ⟨_, _, h⟩ := bind_ok h
  obtain ⟨ms, hms, h⟩ := bind_ok h
  obtain ⟨items, hi, h⟩ := bind_ok h
  exact ⟨ms, items, hms, hi, (pure_ok h).symm⟩

theorem GU_seq (id : Option String) (subs : List PT) (meas : List MeasDecl) (cons : List Expr)
    (h : GU (internalList subs)) : GU (internal (.seq id subs meas cons)) := by
  intro ctx T0 J hJ hnn T S I hI
  obtain ⟨_, jt, _, hjt, rfl⟩ := internal_seq_ok _ _ _ _ _ J hJ
  obtain ⟨ms, it, _, hit, rfl⟩ := internal_seq_ok _ _ _ _ _ I hI
  exact inv_guardRun it ms (h ctx T0 jt hjt ((nnI_guardRun _ _).mp hnn) T S it hit)

theorem GB_seq (id : Option String) (subs : List PT) (meas : List MeasDecl) (cons : List Expr)
    (u : GU (internalList subs)) (h : GB (fun U a b => cleanL U a b subs) (internalList subs)) :
    GB (fun U a b => cleanG U a b (.seq id subs meas cons)) (internal (.seq id subs meas cons)) := by
  intro ctx T0 J hJ hnn T₁ T₂ S S' U I I' c tr1 tr2 hI hI' hSU hS'U hf1 hf2 hclean htI htI'
  obtain ⟨_, jt, _, hjt, rfl⟩ := internal_seq_ok _ _ _ _ _ J hJ
  obtain ⟨ms, it, hms, hit, rfl⟩ := internal_seq_ok _ _ _ _ _ I hI
  obtain ⟨ms', it', hms', hit', rfl⟩ := internal_seq_ok _ _ _ _ _ I' hI'
  have : ms = ms' := ok_inj hms hms'
  subst this
  have hn := (nnI_guardRun _ _).mp hnn
  have i1 := u ctx T0 jt hjt hn _ _ it hit
  have i2 := u ctx T0 jt hjt hn _ _ it' hit'
  apply rel_guardRun c T₂ it it' ms i1.trail i2.trail
  exact h ctx T0 jt hjt hn T₁ T₂ S S' U it it' c tr1 tr2 hit hit' hSU hS'U hf1 hf2
    (by simpa [cleanG] using hclean) ((tidyI_guardRun _ _ _).mp htI) ((tidyI_guardRun _ _ _).mp htI')


end QP.C05

namespace QP.C05
open QP.PT

def forRangeOf (σ : Scope) (start stop step : Expr) : Except Err (List Int) := do
  let a ← σ.eval start
  let a ← intOrErr a .valueError
  let b ← σ.eval stop
  let b ← intOrErr b .valueError
  let s ← σ.eval step
  let s ← intOrErr s .valueError
  if s = 0 then .error .valueError else pure (pyRange a b s)

theorem internal_for_eq (id : Option String) (body : PT) (idx : String) (start stop step : Expr)
    (meas : List MeasDecl) (cons : List Expr) (ctx : Ctx) :
    internal (.forLoop id body idx start stop step meas cons) ctx = (do
      validateCons cons ctx.scope.look
      let r ← forRangeOf ctx.scope start stop step
      let ms ← getMeas meas ctx.scope.look ctx.mm
      let items ← r.flatMapM (fun (i : Int) =>
        wrapSingle body.ident { ctx with scope := .range ctx.scope idx (i : Rat) } (internal body))
      pure (guardRun ms items)) := by
  rw [internal]
  unfold forRangeOf
  simp only [bind, Except.bind]
  cases validateCons cons ctx.scope.look with
  | error e => rfl
  | ok _ =>
    simp only []
    cases ctx.scope.eval start with
    | error e => rfl
    | ok a =>
      simp only []
      cases intOrErr a .valueError with
      | error e => rfl
      | ok a' =>
        simp only []
        cases ctx.scope.eval stop with
        | error e => rfl
        | ok b =>
          simp only []
          cases intOrErr b .valueError with
          | error e => rfl
          | ok b' =>
            simp only []
            cases ctx.scope.eval step with
            | error e => rfl
            | ok s =>
              simp only []
              cases intOrErr s .valueError with
              | error e => rfl
              | ok s' =>
                simp only []
                by_cases h0 : s' = 0
                · simp [h0]
                · simp [pure, Except.pure, h0]

end QP.C05

namespace QP.C05
open QP.PT

/-- the iterations of a `ForLoopPulseTemplate` -/
def iterK (p : PT) (idx : String) (xs : List Int) : Ctx → Except Err (List Item) := fun ctx =>
  xs.flatMapM (fun (i : Int) =>
    wrapSingle p.ident { ctx with scope := .range ctx.scope idx (i : Rat) } (internal p))

theorem iterK_cons_ok (p : PT) (idx : String) (x : Int) (xs : List Int) (ctx : Ctx) (I : List Item)
    (h : iterK p idx (x :: xs) ctx = .ok I) :
    ∃ a b, wrapK p { ctx with scope := .range ctx.scope idx (x : Rat) } = .ok a ∧ iterK p idx xs ctx = .ok b ∧
      I = a ++ b := by
  unfold iterK at h
  rw [List.flatMapM_cons] at h
  obtain ⟨a, ha, h⟩ := bind_ok h
  obtain ⟨b, hb, h⟩ := bind_ok h
  exact ⟨a, b, ha, hb, (pure_ok h).symm⟩

theorem GU_iter (p : PT) (idx : String) (h : GU (wrapK p)) : ∀ xs : List Int, GU (iterK p idx xs)
  | [] => by
      intro ctx T0 J _ _ T S I hI
      unfold iterK at hI
      rw [List.flatMapM_nil] at hI
      cases pure_ok hI
      exact inv_nil
  | x :: xs => by
      intro ctx T0 J hJ hnn T S I hI
      obtain ⟨ja, jb, hja, hjb, rfl⟩ := iterK_cons_ok p idx x xs _ J hJ
      obtain ⟨a, b, ha, hb, rfl⟩ := iterK_cons_ok p idx x xs _ I hI
      obtain ⟨n1, n2⟩ := allLeavesList_append_left _ ja jb hnn
      exact inv_append a b (h { ctx with scope := .range ctx.scope idx (x : Rat) } T0 ja hja n1 T S a ha)
        (GU_iter p idx h xs ctx T0 jb hjb n2 T S b hb)

theorem GB_iter (p : PT) (idx : String) (u : GU (wrapK p)) (h : GB (fun U a b => cleanW U a b p) (wrapK p)) :
    ∀ xs : List Int, GB (fun U a b => cleanW U a b p) (iterK p idx xs)
  | [] => by
      intro ctx T0 J _ _ T₁ T₂ S S' U I I' c tr1 tr2 hI hI' _ _ _ _ _ _ _
      unfold iterK at hI hI'
      rw [List.flatMapM_nil] at hI hI'
      cases pure_ok hI; cases pure_ok hI'
      exact rel_nil c T₂
  | x :: xs => by
      intro ctx T0 J hJ hnn T₁ T₂ S S' U I I' c tr1 tr2 hI hI' hSU hS'U hf1 hf2 hclean htI htI'
      obtain ⟨ja, jb, hja, hjb, rfl⟩ := iterK_cons_ok p idx x xs _ J hJ
      obtain ⟨a, b, ha, hb, rfl⟩ := iterK_cons_ok p idx x xs _ I hI
      obtain ⟨a', b', ha', hb', rfl⟩ := iterK_cons_ok p idx x xs _ I' hI'
      obtain ⟨n1, n2⟩ := allLeavesList_append_left _ ja jb hnn
      obtain ⟨t1, t2⟩ := allLeavesList_append_left _ a b htI
      obtain ⟨t1', t2'⟩ := allLeavesList_append_left _ a' b' htI'
      have ia := u { ctx with scope := .range ctx.scope idx (x : Rat) } T0 ja hja n1 _ _ a ha
      have ia' := u { ctx with scope := .range ctx.scope idx (x : Rat) } T0 ja hja n1 _ _ a' ha'
      exact rel_append c T₂ a b a' b' ia.nn ia'.nn
        (h { ctx with scope := .range ctx.scope idx (x : Rat) } T0 ja hja n1 T₁ T₂ S S' U a a' c tr1 tr2 ha ha'
          hSU hS'U hf1 hf2 hclean t1 t1')
        (GB_iter p idx u h xs ctx T0 jb hjb n2 T₁ T₂ S S' U b b' c tr1 tr2 hb hb' hSU hS'U hf1 hf2 hclean t2 t2')

theorem internal_for_ok (id : Option String) (body : PT) (idx : String) (start stop step : Expr)
    (meas : List MeasDecl) (cons : List Expr) (ctx : Ctx) (I : List Item)
    (h : internal (.forLoop id body idx start stop step meas cons) ctx = .ok I) :
    ∃ r ms items, forRangeOf ctx.scope start stop step = .ok r ∧ getMeas meas ctx.scope.look ctx.mm = .ok ms ∧
      iterK body idx r ctx = .ok items ∧ I = guardRun ms items := by
  rw [internal_for_eq] at h
  obtain ⟨_, _, h⟩ := bind_ok h
  obtain ⟨r, hr, h⟩ := bind_ok h
  obtain ⟨ms, hms, h⟩ := bind_ok h
  obtain ⟨items, hi, h⟩ := bind_ok h
  exact ⟨r, ms, items, hr, hms, hi, (pure_ok h).symm⟩

theorem GU_for (id : Option String) (body : PT) (idx : String) (start stop step : Expr)
    (meas : List MeasDecl) (cons : List Expr) (h : GU (wrapK body)) :
    GU (internal (.forLoop id body idx start stop step meas cons)) := by
  intro ctx T0 J hJ hnn T S I hI
  obtain ⟨rj, _, jt, hrj, _, hjt, rfl⟩ := internal_for_ok _ _ _ _ _ _ _ _ _ J hJ
  obtain ⟨r, ms, it, hr, _, hit, rfl⟩ := internal_for_ok _ _ _ _ _ _ _ _ _ I hI
  have : rj = r := ok_inj hrj hr
  subst this
  exact inv_guardRun it ms (GU_iter body idx h rj ctx T0 jt hjt ((nnI_guardRun _ _).mp hnn) T S it hit)

theorem GB_for (id : Option String) (body : PT) (idx : String) (start stop step : Expr)
    (meas : List MeasDecl) (cons : List Expr) (u : GU (wrapK body))
    (h : GB (fun U a b => cleanW U a b body) (wrapK body)) :
    GB (fun U a b => cleanG U a b (.forLoop id body idx start stop step meas cons))
      (internal (.forLoop id body idx start stop step meas cons)) := by
  intro ctx T0 J hJ hnn T₁ T₂ S S' U I I' c tr1 tr2 hI hI' hSU hS'U hf1 hf2 hclean htI htI'
  obtain ⟨rj, _, jt, hrj, _, hjt, rfl⟩ := internal_for_ok _ _ _ _ _ _ _ _ _ J hJ
  obtain ⟨r, ms, it, hr, hms, hit, rfl⟩ := internal_for_ok _ _ _ _ _ _ _ _ _ I hI
  obtain ⟨r', ms', it', hr', hms', hit', rfl⟩ := internal_for_ok _ _ _ _ _ _ _ _ _ I' hI'
  have : rj = r := ok_inj hrj hr
  subst this
  have : rj = r' := ok_inj hrj hr'
  subst this
  have : ms = ms' := ok_inj hms hms'
  subst this
  have hn := (nnI_guardRun _ _).mp hnn
  have i1 := GU_iter body idx u rj ctx T0 jt hjt hn _ _ it hit
  have i2 := GU_iter body idx u rj ctx T0 jt hjt hn _ _ it' hit'
  apply rel_guardRun c T₂ it it' ms i1.trail i2.trail
  exact GB_iter body idx u h rj ctx T0 jt hjt hn T₁ T₂ S S' U it it' c tr1 tr2 hit hit' hSU hS'U hf1 hf2
    (by simpa [cleanG, cleanW] using hclean) ((tidyI_guardRun _ _ _).mp htI) ((tidyI_guardRun _ _ _).mp htI')


end QP.C05

namespace QP.C05
open QP.PT

/-! ## repetition -/

theorem internal_rep_ok (id : Option String) (body : PT) (count : Expr) (meas : List MeasDecl) (cons : List Expr)
    (ctx : Ctx) (I : List Item) (h : internal (.rep id body count meas cons) ctx = .ok I) :
    ∃ cv n, ctx.scope.eval count = .ok cv ∧ checkedInt cv = some n ∧
      ((n ≤ 0 ∧ I = []) ∨
       (0 < n ∧ ∃ ms items, getMeas meas ctx.scope.look ctx.mm = .ok ms ∧ wrapK body ctx = .ok items ∧
         I = tryAppend ((Loop.mk n.toNat none [] []).applyItems items) ms)) := by
  rw [internal] at h
  obtain ⟨_, _, h⟩ := bind_ok h
  obtain ⟨cv, hcv, h⟩ := bind_ok h
  cases hn : checkedInt cv with
  | none => simp [hn] at h
  | some n =>
    simp only [hn] at h
    refine ⟨cv, n, hcv, hn, ?_⟩
    by_cases hle : n ≤ 0
    · left
      simp only [hle, if_true] at h
      exact ⟨hle, (pure_ok h).symm⟩
    · right
      simp only [hle, if_false] at h
      obtain ⟨ms, hms, h⟩ := bind_ok h
      obtain ⟨items, hi, h⟩ := bind_ok h
      exact ⟨by omega, ms, items, hms, hi, (pure_ok h).symm⟩

theorem GU_rep (id : Option String) (body : PT) (count : Expr) (meas : List MeasDecl) (cons : List Expr)
    (h : GU (wrapK body)) : GU (internal (.rep id body count meas cons)) := by
  intro ctx T0 J hJ hnn T S I hI
  obtain ⟨cvj, nj, hcvj, hnj, hcasej⟩ := internal_rep_ok _ _ _ _ _ _ J hJ
  obtain ⟨cv, n, hcv, hn, hcase⟩ := internal_rep_ok _ _ _ _ _ _ I hI
  have : cvj = cv := ok_inj hcvj hcv
  subst this
  have : nj = n := by rw [hnj] at hn; exact Option.some.inj hn
  subst this
  rcases hcase with ⟨_, rfl⟩ | ⟨hpos, ms, it, _, hit, rfl⟩
  · exact inv_nil
  · rcases hcasej with ⟨hle, _⟩ | ⟨_, msj, jt, _, hjt, rfl⟩
    · omega
    · exact inv_rep nj.toNat (by omega) ms it
        (h ctx T0 jt hjt (allLeavesList_rep _ _ _ _ hnn) T S it hit)

theorem GB_rep (id : Option String) (body : PT) (count : Expr) (meas : List MeasDecl) (cons : List Expr)
    (h : GB (fun U a b => cleanW U a b body) (wrapK body)) :
    GB (fun U a b => cleanG U a b (.rep id body count meas cons)) (internal (.rep id body count meas cons)) := by
  intro ctx T0 J hJ hnn T₁ T₂ S S' U I I' c tr1 tr2 hI hI' hSU hS'U hf1 hf2 hclean htI htI'
  obtain ⟨cvj, nj, hcvj, hnj, hcasej⟩ := internal_rep_ok _ _ _ _ _ _ J hJ
  obtain ⟨cv, n, hcv, hn, hcase⟩ := internal_rep_ok _ _ _ _ _ _ I hI
  obtain ⟨cv', n', hcv', hn', hcase'⟩ := internal_rep_ok _ _ _ _ _ _ I' hI'
  have : cvj = cv := ok_inj hcvj hcv
  subst this
  have : cvj = cv' := ok_inj hcvj hcv'
  subst this
  have : nj = n := by rw [hnj] at hn; exact Option.some.inj hn
  subst this
  have : nj = n' := by rw [hnj] at hn'; exact Option.some.inj hn'
  subst this
  rcases hcase with ⟨hle, rfl⟩ | ⟨hpos, ms, it, hms, hit, rfl⟩
  · rcases hcase' with ⟨_, rfl⟩ | ⟨hpos', _⟩
    · exact rel_nil c T₂
    · omega
  · rcases hcase' with ⟨hle', _⟩ | ⟨_, ms', it', hms', hit', rfl⟩
    · omega
    · rcases hcasej with ⟨hle, _⟩ | ⟨_, msj, jt, _, hjt, rfl⟩
      · omega
      · have : ms = ms' := ok_inj hms hms'
        subst this
        apply rel_rep
        exact h ctx T0 jt hjt (allLeavesList_rep _ _ _ _ hnn) T₁ T₂ S S' U it it' c tr1 tr2 hit hit' hSU hS'U hf1 hf2
          (by simpa [cleanG, cleanW] using hclean) (allLeavesList_rep _ _ _ _ htI) (allLeavesList_rep _ _ _ _ htI')

/-! ## mapping -/

theorem internal_mapping_ok (id : Option String) (body : PT) (pm : List (String × Expr)) (mm' : List (MName × MName))
    (cm' : List (Chan × Option Chan)) (cons : List Expr) (ctx : Ctx) (I : List Item)
    (h : internal (.mapping id body pm mm' cm' cons) ctx = .ok I) :
    ∃ mmU cmU, updatedMm mm' ctx.mm = .ok mmU ∧ updatedCm cm' ctx.cm = .ok cmU ∧
      wrapK body { ctx with scope := .mapped ctx.scope pm, mm := mmU, cm := cmU } = .ok I := by
  rw [internal] at h
  obtain ⟨_, _, h⟩ := bind_ok h
  obtain ⟨mmU, h1, h⟩ := bind_ok h
  obtain ⟨cmU, h2, h⟩ := bind_ok h
  exact ⟨mmU, cmU, h1, h2, h⟩

theorem GU_mapping (id : Option String) (body : PT) (pm : List (String × Expr)) (mm' : List (MName × MName))
    (cm' : List (Chan × Option Chan)) (cons : List Expr) (h : GU (wrapK body)) :
    GU (internal (.mapping id body pm mm' cm' cons)) := by
  intro ctx T0 J hJ hnn T S I hI
  obtain ⟨mj, cj, hmj, hcj, hJ'⟩ := internal_mapping_ok _ _ _ _ _ _ _ J hJ
  obtain ⟨m, cc, hm, hc, hI'⟩ := internal_mapping_ok _ _ _ _ _ _ _ I hI
  have : mj = m := ok_inj hmj hm
  subst this
  have : cj = cc := ok_inj hcj hc
  subst this
  exact h { ctx with scope := .mapped ctx.scope pm, mm := mj, cm := cj } T0 J hJ' hnn T S I hI'

theorem GB_mapping (id : Option String) (body : PT) (pm : List (String × Expr)) (mm' : List (MName × MName))
    (cm' : List (Chan × Option Chan)) (cons : List Expr) (h : GB (fun U a b => cleanW U a b body) (wrapK body)) :
    GB (fun U a b => cleanG U a b (.mapping id body pm mm' cm' cons)) (internal (.mapping id body pm mm' cm' cons)) := by
  intro ctx T0 J hJ hnn T₁ T₂ S S' U I I' c tr1 tr2 hI hI' hSU hS'U hf1 hf2 hclean htI htI'
  obtain ⟨mj, cj, hmj, hcj, hJ'⟩ := internal_mapping_ok _ _ _ _ _ _ _ J hJ
  obtain ⟨m, cc, hm, hc, hI1⟩ := internal_mapping_ok _ _ _ _ _ _ _ I hI
  obtain ⟨m', cc', hm', hc', hI1'⟩ := internal_mapping_ok _ _ _ _ _ _ _ I' hI'
  have : mj = m := ok_inj hmj hm
  subst this
  have : mj = m' := ok_inj hmj hm'
  subst this
  have : cj = cc := ok_inj hcj hc
  subst this
  have : cj = cc' := ok_inj hcj hc'
  subst this
  exact h { ctx with scope := .mapped ctx.scope pm, mm := mj, cm := cj } T0 J hJ' hnn T₁ T₂ S S' U I I' c tr1 tr2
    hI1 hI1' hSU hS'U hf1 hf2 (by simpa [cleanG, cleanW] using hclean) htI htI'

/-! ## parallel channel and arithmetic templates: the transformation in effect grows -/

theorem internal_parallel_ok (id : Option String) (body : PT) (over : List (Chan × Expr)) (ctx : Ctx) (I : List Item)
    (h : internal (.parallel id body over) ctx = .ok I) :
    ∃ ov, overwrittenValues over ctx.scope ctx.cm = .ok ov ∧
      wrapK body { ctx with trafo := ctx.trafo ++ [.parallel ov] } = .ok I := by
  rw [internal] at h
  obtain ⟨ov, h1, h⟩ := bind_ok h
  exact ⟨ov, h1, h⟩

theorem GU_parallel (id : Option String) (body : PT) (over : List (Chan × Expr)) (h : GU (wrapK body)) :
    GU (internal (.parallel id body over)) := by
  intro ctx T0 J hJ hnn T S I hI
  obtain ⟨oj, hoj, hJ'⟩ := internal_parallel_ok _ _ _ _ J hJ
  obtain ⟨o, ho, hI'⟩ := internal_parallel_ok _ _ _ _ I hI
  exact h ctx (T0 ++ [.parallel oj]) J hJ' hnn (T ++ [.parallel o]) S I hI'

theorem GB_parallel (id : Option String) (body : PT) (over : List (Chan × Expr))
    (h : GB (fun U a b => cleanW U a b body) (wrapK body)) :
    GB (fun U a b => cleanG U a b (.parallel id body over)) (internal (.parallel id body over)) := by
  intro ctx T0 J hJ hnn T₁ T₂ S S' U I I' c tr1 tr2 hI hI' hSU hS'U hf1 hf2 hclean htI htI'
  obtain ⟨oj, hoj, hJ'⟩ := internal_parallel_ok _ _ _ _ J hJ
  obtain ⟨o, ho, hI1⟩ := internal_parallel_ok _ _ _ _ I hI
  obtain ⟨o', ho', hI1'⟩ := internal_parallel_ok _ _ _ _ I' hI'
  have : o = o' := ok_inj ho ho'
  subst this
  simp only [cleanG, Bool.and_eq_true, Bool.not_eq_true'] at hclean
  have hT2 : T₂ = [] := by
    cases T₂ with
    | nil => rfl
    | cons t ts => have := hf2 (by simp); rw [this] at hclean; exact absurd hclean.1 (by simp)
  subst hT2
  have := h ctx (T0 ++ [.parallel oj]) J hJ' hnn (T₁ ++ [.parallel o]) [] S S' U I I' c true false
    (by simpa using hI1) hI1' hSU hS'U (fun _ => rfl) (fun h => absurd rfl h)
    (by simpa [cleanW, Bool.and_eq_true] using hclean.2) htI htI'
  exact this

theorem internal_arith_ok (id : Option String) (body : PT) (op : AOp) (scalar : Scalar) (lhs : Bool) (ctx : Ctx)
    (I : List Item) (h : internal (.arith id body op scalar lhs) ctx = .ok I) :
    ∃ T, arithTransformation body.definedChannels op scalar lhs ctx.scope ctx.cm = .ok T ∧
      wrapK body { ctx with trafo := T ++ ctx.trafo } = .ok I := by
  rw [internal] at h
  obtain ⟨T, h1, h⟩ := bind_ok h
  exact ⟨T, h1, h⟩

theorem GU_arith (id : Option String) (body : PT) (op : AOp) (scalar : Scalar) (lhs : Bool) (h : GU (wrapK body)) :
    GU (internal (.arith id body op scalar lhs)) := by
  intro ctx T0 J hJ hnn T S I hI
  obtain ⟨Tj, _, hJ'⟩ := internal_arith_ok _ _ _ _ _ _ J hJ
  obtain ⟨Ta, _, hI'⟩ := internal_arith_ok _ _ _ _ _ _ I hI
  exact h ctx (Tj ++ T0) J hJ' hnn (Ta ++ T) S I hI'

theorem GB_arith (id : Option String) (body : PT) (op : AOp) (scalar : Scalar) (lhs : Bool)
    (h : GB (fun U a b => cleanW U a b body) (wrapK body)) :
    GB (fun U a b => cleanG U a b (.arith id body op scalar lhs)) (internal (.arith id body op scalar lhs)) := by
  intro ctx T0 J hJ hnn T₁ T₂ S S' U I I' c tr1 tr2 hI hI' hSU hS'U hf1 hf2 hclean htI htI'
  obtain ⟨Tj, _, hJ'⟩ := internal_arith_ok _ _ _ _ _ _ J hJ
  obtain ⟨Ta, hTa, hI1⟩ := internal_arith_ok _ _ _ _ _ _ I hI
  obtain ⟨Ta', hTa', hI1'⟩ := internal_arith_ok _ _ _ _ _ _ I' hI'
  have : Ta = Ta' := ok_inj hTa hTa'
  subst this
  exact h ctx (Tj ++ T0) J hJ' hnn (Ta ++ T₁) T₂ S S' U I I' c true tr2
    (by simpa [List.append_assoc] using hI1) hI1' hSU hS'U (fun _ => rfl) hf2
    (by simpa [cleanG, cleanW, Bool.and_eq_true] using hclean) htI htI'


end QP.C05

namespace QP.C05
open QP.PT

/-! ## time reversal -/

theorem reversedWf_duration (w : Wf) : w.reversedWf.duration = w.duration := by
  cases w <;> simp [Wf.reversedWf, Wf.duration]

theorem reversedWf_cst (w : Wf) (h : cst w = true) : cst w.reversedWf = true := by
  cases w <;> simp_all [Wf.reversedWf, cst]

mutual
theorem allLeaves_mono (q p : Wf → Bool) (h : ∀ w, q w = true → p w = true) :
    ∀ l : Loop, allLeaves q l = true → allLeaves p l = true
  | .mk rep wf meas [], hl => by
      cases wf with
      | none => simp [allLeaves]
      | some w => simp only [allLeaves] at hl ⊢; exact h w hl
  | .mk rep wf meas (c :: cs), hl => by
      simp only [allLeaves] at hl ⊢
      exact allLeavesList_mono q p h (c :: cs) hl
theorem allLeavesList_mono (q p : Wf → Bool) (h : ∀ w, q w = true → p w = true) :
    ∀ cs : List Loop, allLeavesList q cs = true → allLeavesList p cs = true
  | [], _ => rfl
  | c :: cs, hl => by
      simp only [allLeavesList, Bool.and_eq_true] at hl ⊢
      exact ⟨allLeaves_mono q p h c hl.1, allLeavesList_mono q p h cs hl.2⟩
end

theorem reverseList_eq : ∀ (cs acc : List Loop),
    Loop.reverseList cs acc = (cs.map Loop.reverseInplace).reverse ++ acc
  | [], acc => by simp [Loop.reverseList]
  | c :: cs, acc => by
      rw [Loop.reverseList, reverseList_eq cs]
      simp

theorem reverseList_ne_nil (c : Loop) (cs acc : List Loop) : Loop.reverseList (c :: cs) acc ≠ [] := by
  rw [reverseList_eq]
  simp

mutual
theorem allLeaves_reverse_eq (p : Wf → Bool) :
    ∀ l : Loop, allLeaves p l.reverseInplace = allLeaves (fun w => p w.reversedWf) l
  | .mk rep wf meas [] => by
      rw [Loop.reverseInplace]
      cases wf <;> simp [allLeaves]
  | .mk rep wf meas (c :: cs) => by
      rw [Loop.reverseInplace]
      have h := allLeavesList_reverse_eq p (c :: cs) []
      obtain ⟨x, r, hr⟩ : ∃ x r, Loop.reverseList (c :: cs) [] = x :: r := by
        cases hr : Loop.reverseList (c :: cs) [] with
        | nil => exact absurd hr (reverseList_ne_nil c cs [])
        | cons x r => exact ⟨x, r, rfl⟩
      rw [hr] at h
      show allLeaves p (Loop.mk rep wf _ (Loop.reverseList (c :: cs) [])) = _
      rw [hr]
      have e1 : ∀ m, allLeaves p (Loop.mk rep wf m (x :: r)) = allLeavesList p (x :: r) := fun m => by
        rw [allLeaves]
      have e2 : allLeaves (fun w => p w.reversedWf) (Loop.mk rep wf meas (c :: cs)) =
          allLeavesList (fun w => p w.reversedWf) (c :: cs) := by rw [allLeaves]
      rw [e1, e2, h]
      simp [allLeavesList]
theorem allLeavesList_reverse_eq (p : Wf → Bool) : ∀ (cs acc : List Loop),
    allLeavesList p (Loop.reverseList cs acc) =
      (allLeavesList (fun w => p w.reversedWf) cs && allLeavesList p acc)
  | [], acc => by rw [Loop.reverseList]; simp [allLeavesList]
  | c :: cs, acc => by
      rw [Loop.reverseList, allLeavesList_reverse_eq p cs]
      simp only [allLeavesList, allLeaves_reverse_eq p c]
      cases allLeaves (fun w => p w.reversedWf) c <;> cases allLeavesList (fun w => p w.reversedWf) cs <;> simp
end

theorem allLeaves_reverse (p q : Wf → Bool) (hpq : ∀ w, q w = true → p w.reversedWf = true) (l : Loop)
    (h : allLeaves q l = true) : allLeaves p l.reverseInplace = true := by
  rw [allLeaves_reverse_eq]
  exact allLeaves_mono _ _ hpq l h


mutual
theorem posReps_reverse : ∀ l : Loop, posReps l = true → posReps l.reverseInplace = true
  | .mk rep wf meas [], h => by
      rw [Loop.reverseInplace]
      rw [posReps] at h ⊢
      cases wf <;> simpa using h
  | .mk rep wf meas (c :: cs), h => by
      rw [Loop.reverseInplace]
      rw [posReps] at h
      simp only [Bool.and_eq_true, decide_eq_true_eq] at h
      have := posRepsList_reverse (c :: cs) [] h.2 rfl
      cases hr : Loop.reverseList (c :: cs) [] with
      | nil => exact absurd hr (reverseList_ne_nil c cs [])
      | cons x r =>
        rw [hr] at this
        rw [posReps]
        simp only [Bool.and_eq_true, decide_eq_true_eq]
        exact ⟨h.1, this⟩
theorem posRepsList_reverse : ∀ (cs acc : List Loop), posRepsList cs = true → posRepsList acc = true →
    posRepsList (Loop.reverseList cs acc) = true
  | [], acc, _, ha => by rw [Loop.reverseList]; exact ha
  | c :: cs, acc, h, ha => by
      rw [Loop.reverseList]
      simp only [posRepsList, Bool.and_eq_true] at h
      apply posRepsList_reverse cs _ h.2
      simp only [posRepsList, Bool.and_eq_true]
      exact ⟨posReps_reverse c h.1, ha⟩
end

theorem inv_reverse (items : List Item) (root : Loop) (hinv : Inv items) (hr : toProgram items = some root) :
    Inv [Item.node root.reverseInplace] := by
  rw [toProgram_eq] at hr
  have hne : itemsNodes items ≠ [] := by
    intro e; simp [e] at hr
  have he : (itemsNodes items).isEmpty = false := by simpa using hne
  simp only [he, Bool.false_eq_true, if_false, Option.some.injEq] at hr
  subst hr
  have hpos : posReps (rootOf items) = true := by
    unfold rootOf
    cases hc : itemsNodes items with
    | nil => exact absurd hc hne
    | cons x r =>
      have hp := hinv.pos
      rw [hc] at hp
      rw [posReps]
      simp only [Bool.and_eq_true, decide_eq_true_eq]
      exact ⟨Nat.le_refl 1, hp⟩
  refine ⟨by simp [endsOk], ?_, ?_, ?_⟩
  · simp only [itemsNodes, allLeavesList, Bool.and_true]
    apply allLeaves_reverse QP.C05.cst QP.C05.cst reversedWf_cst
    simp only [rootOf, allLeaves_none]; exact hinv.cst
  · simp only [itemsNodes, posRepsList, Bool.and_true]
    exact posReps_reverse _ hpos
  · simp only [itemsNodes, allLeavesList, Bool.and_true]
    apply allLeaves_reverse nonnegW nonnegW (fun w h => by
      simp only [nonnegW, decide_eq_true_eq] at h ⊢
      rw [reversedWf_duration]; exact h)
    simp only [rootOf, allLeaves_none]; exact hinv.nn

theorem internal_rev_ok (id : Option String) (body : PT) (ctx : Ctx) (I : List Item)
    (h : internal (.timeReversal id body) ctx = .ok I) :
    ∃ items, internal body ctx = .ok items ∧
      ((toProgram items = none ∧ I = []) ∨ ∃ root, toProgram items = some root ∧ I = [Item.node root.reverseInplace]) := by
  rw [internal] at h
  obtain ⟨items, hi, h⟩ := bind_ok h
  refine ⟨items, hi, ?_⟩
  cases hp : toProgram items with
  | none => left; simp only [hp] at h; exact ⟨rfl, (pure_ok h).symm⟩
  | some root => right; simp only [hp] at h; exact ⟨root, rfl, (pure_ok h).symm⟩

theorem GU_rev (id : Option String) (body : PT) (h : GU (internal body)) : GU (internal (.timeReversal id body)) := by
  intro ctx T0 J hJ hnn T S I hI
  obtain ⟨jt, hjt, hcj⟩ := internal_rev_ok _ _ _ J hJ
  obtain ⟨it, hit, hc⟩ := internal_rev_ok _ _ _ I hI
  -- the default program's body has non-negative durations as well (reversal keeps durations)
  have hnj : nnI jt := by
    rcases hcj with ⟨hn, _⟩ | ⟨rootj, hrj, rfl⟩
    · rw [toProgram_eq] at hn
      have : itemsNodes jt = [] := by
        by_cases he : (itemsNodes jt).isEmpty = true
        · exact List.isEmpty_iff.mp he
        · simp [he] at hn
      simp [nnI, this, allLeavesList]
    · rw [toProgram_eq] at hrj
      have hne : itemsNodes jt ≠ [] := by
        intro e; simp [e] at hrj
      have he : (itemsNodes jt).isEmpty = false := by simpa using hne
      simp only [he, Bool.false_eq_true, if_false, Option.some.injEq] at hrj
      subst hrj
      simp only [nnI, itemsNodes, allLeavesList, Bool.and_true, allLeaves_reverse_eq] at hnn
      have hfun : (fun w : Wf => nonnegW w.reversedWf) = nonnegW := by
        funext w; simp [nonnegW, reversedWf_duration]
      rw [hfun] at hnn
      simpa [nnI, rootOf, allLeaves_none] using hnn
  have inv := h ctx T0 jt hjt hnj T S it hit
  rcases hc with ⟨_, rfl⟩ | ⟨root, hr, rfl⟩
  · exact inv_nil
  · exact inv_reverse it root inv hr


end QP.C05

namespace QP.C05
open QP.PT

/-! ## `to_single_waveform` entries that name nothing inside a template do not matter -/

def freeOf (S S' : List String) (ids : List String) : Prop :=
  ∀ i ∈ ids, S.contains i = false ∧ S'.contains i = false

theorem identsBelow_subset : ∀ (p : PT) (i : String), i ∈ identsBelow p → i ∈ idents p
  | .const .., i, h => by simp [identsBelow] at h
  | .table .., i, h => by simp [identsBelow] at h
  | .point .., i, h => by simp [identsBelow] at h
  | .func .., i, h => by simp [identsBelow] at h
  | .atomicMulti .., i, h => by simp [identsBelow] at h
  | .arithAtomic .., i, h => by simp [identsBelow] at h
  | .seq id subs _ _, i, h => by simp only [identsBelow] at h; simp [idents, h]
  | .rep id body _ _ _, i, h => by simp only [identsBelow] at h; simp [idents, h]
  | .forLoop id body _ _ _ _ _ _, i, h => by simp only [identsBelow] at h; simp [idents, h]
  | .mapping id body _ _ _ _, i, h => by simp only [identsBelow] at h; simp [idents, h]
  | .parallel id body _, i, h => by simp only [identsBelow] at h; simp [idents, h]
  | .arith id body _ _ _, i, h => by simp only [identsBelow] at h; simp [idents, h]
  | .timeReversal id body, i, h => by
      simp only [identsBelow] at h
      simp [idents, identsBelow_subset body i h]

theorem ident_mem_idents (p : PT) (n : String) (h : p.ident = some n) : n ∈ idents p := by
  cases p <;> simp_all [PT.ident, idents]

theorem atomItems_single (p : PT) (ctx : Ctx) (S' : List String) :
    atomItems p ctx = atomItems p { ctx with single := S' } := rfl

theorem wrapK_single_of (p : PT) (ctx : Ctx) (S' : List String)
    (h : freeOf ctx.single S' (idents p))
    (ih : internal p ctx = internal p { ctx with single := S' }) :
    wrapK p ctx = wrapK p { ctx with single := S' } := by
  unfold wrapK
  have h1 : isCollId p.ident ctx.single = false := by
    cases hid : p.ident with
    | none => rfl
    | some n => exact (h n (ident_mem_idents p n hid)).1
  have h2 : isCollId p.ident S' = false := by
    cases hid : p.ident with
    | none => rfl
    | some n => exact (h n (ident_mem_idents p n hid)).2
  rw [wrapSingle_not _ _ _ h1, wrapSingle_not _ _ _ (by exact h2), ih]


theorem freeOf_mono (S S' : List String) (a b : List String) (h : freeOf S S' b) (hs : ∀ i ∈ a, i ∈ b) :
    freeOf S S' a := fun i hi => h i (hs i hi)

mutual
theorem internal_single : ∀ (p : PT) (ctx : Ctx) (S' : List String), freeOf ctx.single S' (identsBelow p) →
    internal p ctx = internal p { ctx with single := S' }
  | .const .., ctx, S', _ => by rw [internal, internal]; rfl
  | .table .., ctx, S', _ => by rw [internal, internal]; rfl
  | .point .., ctx, S', _ => by rw [internal, internal]; rfl
  | .func .., ctx, S', _ => by rw [internal, internal]; rfl
  | .atomicMulti .., ctx, S', _ => by rw [internal, internal]; rfl
  | .arithAtomic .., ctx, S', _ => by rw [internal, internal]; rfl
  | .seq id subs meas cons, ctx, S', h => by
      rw [internal, internal]
      dsimp only
      rw [internalList_single subs ctx S' (by simpa [identsBelow] using h)]
  | .rep id body count meas cons, ctx, S', h => by
      have hb : freeOf ctx.single S' (idents body) := by simpa [identsBelow] using h
      have := wrapK_single_of body ctx S' hb
        (internal_single body ctx S' (freeOf_mono _ _ _ _ hb (identsBelow_subset body)))
      unfold wrapK at this
      rw [internal, internal]
      dsimp only
      rw [this]
  | .forLoop id body idx start stop step meas cons, ctx, S', h => by
      have hb : freeOf ctx.single S' (idents body) := by simpa [identsBelow] using h
      rw [internal_for_eq, internal_for_eq]
      dsimp only
      have : (fun (i : Int) => wrapSingle body.ident { ctx with scope := .range ctx.scope idx (i : Rat) } (internal body)) =
          (fun (i : Int) => wrapSingle body.ident
            { scope := .range ctx.scope idx (i : Rat), mm := ctx.mm, cm := ctx.cm, trafo := ctx.trafo, single := S' }
            (internal body)) := by
        funext i
        have := wrapK_single_of body { ctx with scope := .range ctx.scope idx (i : Rat) } S' hb
          (internal_single body _ S' (freeOf_mono _ _ _ _ hb (identsBelow_subset body)))
        unfold wrapK at this
        exact this
      rw [this]
  | .mapping id body pm mm' cm' cons, ctx, S', h => by
      have hb : freeOf ctx.single S' (idents body) := by simpa [identsBelow] using h
      rw [internal, internal]
      dsimp only
      congr 1; funext _
      congr 1; funext mmU
      congr 1; funext cmU
      have := wrapK_single_of body { ctx with scope := .mapped ctx.scope pm, mm := mmU, cm := cmU } S' hb
        (internal_single body _ S' (freeOf_mono _ _ _ _ hb (identsBelow_subset body)))
      unfold wrapK at this
      exact this
  | .parallel id body over, ctx, S', h => by
      have hb : freeOf ctx.single S' (idents body) := by simpa [identsBelow] using h
      rw [internal, internal]
      dsimp only
      congr 1; funext ov
      have := wrapK_single_of body { ctx with trafo := ctx.trafo ++ [.parallel ov] } S' hb
        (internal_single body _ S' (freeOf_mono _ _ _ _ hb (identsBelow_subset body)))
      unfold wrapK at this
      exact this
  | .arith id body op scalar lhs, ctx, S', h => by
      have hb : freeOf ctx.single S' (idents body) := by simpa [identsBelow] using h
      rw [internal, internal]
      dsimp only
      congr 1; funext T
      have := wrapK_single_of body { ctx with trafo := T ++ ctx.trafo } S' hb
        (internal_single body _ S' (freeOf_mono _ _ _ _ hb (identsBelow_subset body)))
      unfold wrapK at this
      exact this
  | .timeReversal id body, ctx, S', h => by
      have hb : freeOf ctx.single S' (identsBelow body) := by simpa [identsBelow] using h
      rw [internal, internal]
      rw [internal_single body ctx S' hb]
theorem internalList_single : ∀ (ps : List PT) (ctx : Ctx) (S' : List String), freeOf ctx.single S' (identsList ps) →
    internalList ps ctx = internalList ps { ctx with single := S' }
  | [], ctx, S', _ => by rw [internalList, internalList]
  | p :: ps, ctx, S', h => by
      have hp : freeOf ctx.single S' (idents p) := fun i hi => h i (by simp [identsList, hi])
      have hps : freeOf ctx.single S' (identsList ps) := fun i hi => h i (by simp [identsList, hi])
      have := wrapK_single_of p ctx S' hp
        (internal_single p ctx S' (freeOf_mono _ _ _ _ hp (identsBelow_subset p)))
      unfold wrapK at this
      rw [internalList, internalList, this, internalList_single ps ctx S' hps]
end


end QP.C05

namespace QP.C05
open QP.PT

theorem GB_rev (id : Option String) (body : PT) :
    GB (fun U a b => cleanG U a b (.timeReversal id body)) (internal (.timeReversal id body)) := by
  intro ctx T0 J hJ hnn T₁ T₂ S S' U I I' c tr1 tr2 hI hI' hSU hS'U hf1 hf2 hclean htI htI'
  simp only [cleanG, Bool.and_eq_true, Bool.not_eq_true', List.all_eq_true] at hclean
  have hT2 : T₂ = [] := by
    cases T₂ with
    | nil => rfl
    | cons t ts => have := hf2 (by simp); rw [this] at hclean; exact absurd hclean.1 (by simp)
  subst hT2
  have hfree : freeOf S S' (identsBelow (.timeReversal id body)) := by
    intro i hi
    have hU : U.contains i = false := by
      have := hclean.2 i (by simpa [identsBelow] using hi)
      simpa using this
    constructor
    · cases hs : S.contains i with
      | false => rfl
      | true => rw [hSU i hs] at hU; cases hU
    · cases hs : S'.contains i with
      | false => rfl
      | true => rw [hS'U i hs] at hU; cases hU
  have heq := internal_single (.timeReversal id body) { ctx with trafo := T₁, single := S } S' hfree
  have hI2 : internal (.timeReversal id body) { ctx with trafo := T₁, single := S } = .ok I := by
    simpa using hI
  rw [heq] at hI2
  have : I = I' := ok_inj hI2 hI'
  subst this
  exact rel_refl c I

mutual
/-- the main induction over all template trees -/
theorem G_all : ∀ p : PT, GU (internal p) ∧ GB (fun U a b => cleanG U a b p) (internal p)
  | .const id dur amps meas =>
      ⟨GU_atom _ (fun ctx => by rw [internal]), GB_atom _ (fun ctx => by rw [internal]) _⟩
  | .table id entries meas cons =>
      ⟨GU_atom _ (fun ctx => by rw [internal]), GB_atom _ (fun ctx => by rw [internal]) _⟩
  | .point id chans entries meas cons =>
      ⟨GU_atom _ (fun ctx => by rw [internal]), GB_atom _ (fun ctx => by rw [internal]) _⟩
  | .func id ch dur e meas cons =>
      ⟨GU_atom _ (fun ctx => by rw [internal]), GB_atom _ (fun ctx => by rw [internal]) _⟩
  | .atomicMulti id subs dur meas cons =>
      ⟨GU_atom _ (fun ctx => by rw [internal]), GB_atom _ (fun ctx => by rw [internal]) _⟩
  | .arithAtomic id lhs minus rhs meas =>
      ⟨GU_atom _ (fun ctx => by rw [internal]), GB_atom _ (fun ctx => by rw [internal]) _⟩
  | .seq id subs meas cons =>
      have h := GL_all subs
      ⟨GU_seq id subs meas cons h.1, GB_seq id subs meas cons h.1 h.2⟩
  | .rep id body count meas cons =>
      have h := G_all body
      ⟨GU_rep id body count meas cons (GU_wrap body h.1), GB_rep id body count meas cons (GB_wrap body h.1 h.2)⟩
  | .forLoop id body idx start stop step meas cons =>
      have h := G_all body
      ⟨GU_for id body idx start stop step meas cons (GU_wrap body h.1),
        GB_for id body idx start stop step meas cons (GU_wrap body h.1) (GB_wrap body h.1 h.2)⟩
  | .mapping id body pm mm cm cons =>
      have h := G_all body
      ⟨GU_mapping id body pm mm cm cons (GU_wrap body h.1), GB_mapping id body pm mm cm cons (GB_wrap body h.1 h.2)⟩
  | .parallel id body over =>
      have h := G_all body
      ⟨GU_parallel id body over (GU_wrap body h.1), GB_parallel id body over (GB_wrap body h.1 h.2)⟩
  | .arith id body op scalar lhs =>
      have h := G_all body
      ⟨GU_arith id body op scalar lhs (GU_wrap body h.1), GB_arith id body op scalar lhs (GB_wrap body h.1 h.2)⟩
  | .timeReversal id body =>
      have h := G_all body
      ⟨GU_rev id body h.1, GB_rev id body⟩
theorem GL_all : ∀ ps : List PT, GU (internalList ps) ∧ GB (fun U a b => cleanL U a b ps) (internalList ps)
  | [] => ⟨GU_nil, GB_nil _⟩
  | p :: ps =>
      have hp := G_all p
      have hps := GL_all ps
      ⟨GU_cons p ps (GU_wrap p hp.1) hps.1, GB_cons p ps (GU_wrap p hp.1) (GB_wrap p hp.1 hp.2) hps.2⟩
end

/-- `_create_program` of every template: invariants and relation -/
theorem W_all (p : PT) : GU (wrapK p) ∧ GB (fun U a b => cleanW U a b p) (wrapK p) :=
  ⟨GU_wrap p (G_all p).1, GB_wrap p (G_all p).1 (G_all p).2⟩


end QP.C05
