import QP.Proofs.C05Items
/-!
# C05 helper lemmas: `build_waveform`, `_internal_create_program`, `_create_program`
-/
namespace QP.C05
open QP.PT

/-- peel one monadic bind of `Except` in hypothesis `h : (x >>= f) = .ok v` -/
theorem bind_ok {ε α β} {x : Except ε α} {f : α → Except ε β} {v : β} (h : (x >>= f) = .ok v) :
    ∃ a, x = .ok a ∧ f a = .ok v := by
  cases x with
  | error e => simp [bind, Except.bind] at h
  | ok a => exact ⟨a, rfl, h⟩

theorem mapM_ok_mem {ε α β} (f : α → Except ε β) : ∀ (xs : List α) (ys : List β), xs.mapM f = .ok ys →
    ∀ y ∈ ys, ∃ x ∈ xs, f x = .ok y
  | [], ys, h, y, hy => by
      simp only [List.mapM_nil, pure, Except.pure, Except.ok.injEq] at h
      subst h; simp at hy
  | x :: xs, ys, h, y, hy => by
      rw [List.mapM_cons] at h
      obtain ⟨b, hb, h⟩ := bind_ok h
      obtain ⟨bs, hbs, h⟩ := bind_ok h
      simp only [pure, Except.pure, Except.ok.injEq] at h
      subst h
      rcases List.mem_cons.mp hy with rfl | hy
      · exact ⟨x, by simp, hb⟩
      · obtain ⟨x', hx', hf⟩ := mapM_ok_mem f xs bs hbs y hy
        exact ⟨x', by simp [hx'], hf⟩

theorem fromTable_noRep (ch : Chan) (es : List WEntry) (w : Wf) (h : fromTable ch es = .ok w) : noRep w = true := by
  unfold fromTable at h
  split at h
  · cases h
  · split at h
    · cases h
    · split at h
      · cases h
      · split at h
        · cases h
        · split at h
          · cases h
          · split at h
            · cases h
            · split at h
              · cases h; rfl
              · cases h; rfl

theorem noRepList_append : ∀ xs ys : List Wf, noRepList (xs ++ ys) = (noRepList xs && noRepList ys)
  | [], ys => by simp [noRepList]
  | x :: xs, ys => by simp [noRepList, noRepList_append xs ys, Bool.and_assoc]

theorem noRepList_mem : ∀ (xs : List Wf), noRepList xs = true → ∀ x ∈ xs, noRep x = true
  | [], _, x, hx => by simp at hx
  | y :: ys, h, x, hx => by
      simp only [noRepList, Bool.and_eq_true] at h
      rcases List.mem_cons.mp hx with rfl | hx
      · exact h.1
      · exact noRepList_mem ys h.2 x hx

theorem noRepList_of_forall : ∀ xs : List Wf, (∀ x ∈ xs, noRep x = true) → noRepList xs = true
  | [], _ => rfl
  | x :: xs, h => by
      simp only [noRepList, Bool.and_eq_true]
      exact ⟨h x (by simp), noRepList_of_forall xs (fun y hy => h y (by simp [hy]))⟩

theorem mkMulti_noRep (subs : List Wf) (w : Wf) (hs : noRepList subs = true) (h : mkMulti subs = .ok w) :
    noRep w = true := by
  unfold mkMulti at h
  split at h
  · cases h
  · split at h
    · cases h
    · split at h
      · cases h; simpa [noRep] using hs
      · cases h

theorem fromParallel_noRep (ws : List Wf) (w : Wf) (hs : ∀ x ∈ ws, noRep x = true)
    (h : fromParallel ws = .ok w) : noRep w = true := by
  unfold fromParallel at h
  split at h
  · cases h
  · cases h; exact hs _ (by simp)
  · apply mkMulti_noRep _ w _ h
    apply noRepList_of_forall
    intro y hy
    simp only [List.mem_flatMap] at hy
    obtain ⟨x, hx, hy⟩ := hy
    have hxn := hs x hx
    split at hy
    · rename_i subs
      simp only [noRep] at hxn
      exact noRepList_mem subs hxn y hy
    · simp at hy; subst hy; exact hxn

theorem fromTransformation_noRep (w w' : Wf) (T : Chain) (hw : noRep w = true)
    (h : fromTransformation w T = .ok w') : noRep w' = true := by
  unfold fromTransformation at h
  split at h
  · split at h
    · exact (constFromMapping_spec _ _ _ h).2.2
    · cases h; simpa [noRep] using hw
  · cases h; simpa [noRep] using hw

theorem fromOperator_noRep (l r w : Wf) (m : Bool) (hl : noRep l = true) (hr : noRep r = true)
    (h : fromOperator l m r = .ok w) : noRep w = true := by
  unfold fromOperator at h
  split at h
  · split at h
    · cases h
    · exact (constFromMapping_spec _ _ _ h).2.2
  · split at h
    · cases h
    · cases h; simp [noRep, hl, hr]

theorem negWf_noRep (w w' : Wf) (hw : noRep w = true) (h : negWf w = .ok w') : noRep w' = true := by
  unfold negWf at h
  split at h
  · exact (constFromMapping_spec _ _ _ h).2.2
  · cases h; simpa [noRep] using hw

theorem reversedWf_noRep (w : Wf) (hw : noRep w = true) : noRep w.reversedWf = true := by
  cases w <;> simp_all [Wf.reversedWf, noRep]


theorem pure_ok {ε α} {a b : α} (h : (pure a : Except ε α) = .ok b) : a = b := by
  simpa [pure, Except.pure] using h

mutual
/-- `build_waveform` never produces sequence / repetition waveforms -/
theorem buildWaveform_noRep : ∀ (pt : PT) (σ : Scope) (cm : List (Chan × Option Chan)) (w : Wf),
    buildWaveform pt σ cm = .ok (some w) → noRep w = true
  | .const id dur amps meas, σ, cm, w, h => by
      rw [buildWaveform] at h
      obtain ⟨d, _, h⟩ := bind_ok h
      split at h
      · obtain ⟨cvs, _, h⟩ := bind_ok h
        dsimp only at h
        split at h
        · cases pure_ok h
        · obtain ⟨w', hw', h⟩ := bind_ok h
          cases pure_ok h
          exact (constFromMapping_spec _ _ _ hw').2.2
      · cases pure_ok h
  | .table id entries meas cons, σ, cm, w, h => by
      rw [buildWaveform] at h
      obtain ⟨_, _, h⟩ := bind_ok h
      obtain ⟨inst, _, h⟩ := bind_ok h
      obtain ⟨mapped, _, h⟩ := bind_ok h
      split at h
      · cases pure_ok h
      · obtain ⟨wfs, hwfs, h⟩ := bind_ok h
        obtain ⟨w', hw', h⟩ := bind_ok h
        cases pure_ok h
        apply fromParallel_noRep wfs _ _ hw'
        intro x hx
        obtain ⟨⟨ch, ws⟩, _, hf⟩ := mapM_ok_mem _ _ _ hwfs x hx
        exact fromTable_noRep ch ws x hf
  | .point id chans entries meas cons, σ, cm, w, h => by
      rw [buildWaveform] at h
      obtain ⟨_, _, h⟩ := bind_ok h
      obtain ⟨mappedAll, _, h⟩ := bind_ok h
      split at h
      · cases pure_ok h
      · dsimp only at h
        split at h
        · obtain ⟨dur, _, h⟩ := bind_ok h
          split at h
          · cases pure_ok h
          · obtain ⟨mapped, _, h⟩ := bind_ok h
            obtain ⟨inst, _, h⟩ := bind_ok h
            obtain ⟨wfs, hwfs, h⟩ := bind_ok h
            obtain ⟨w', hw', h⟩ := bind_ok h
            cases pure_ok h
            apply fromParallel_noRep wfs _ _ hw'
            intro x hx
            obtain ⟨⟨ch, ws⟩, _, hf⟩ := mapM_ok_mem _ _ _ hwfs x hx
            exact fromTable_noRep ch ws x hf
        · obtain ⟨dur, hd, _⟩ := bind_ok h
          cases hd
  | .func id ch dur e meas cons, σ, cm, w, h => by
      rw [buildWaveform] at h
      obtain ⟨_, _, h⟩ := bind_ok h
      obtain ⟨o, _, h⟩ := bind_ok h
      split at h
      · cases pure_ok h
      · obtain ⟨_, _, h⟩ := bind_ok h
        obtain ⟨d, _, h⟩ := bind_ok h
        obtain ⟨env, _, h⟩ := bind_ok h
        split at h
        · cases pure_ok h; rfl
        · split at h
          · cases pure_ok h; rfl
          · cases h
  | .seq .., σ, cm, w, h => by rw [buildWaveform] at h; cases h
  | .rep .., σ, cm, w, h => by rw [buildWaveform] at h; cases h
  | .forLoop .., σ, cm, w, h => by rw [buildWaveform] at h; cases h
  | .mapping id body pm mm' cm' cons, σ, cm, w, h => by
      rw [buildWaveform] at h
      obtain ⟨σ', _, h⟩ := bind_ok h
      obtain ⟨cmU, _, h⟩ := bind_ok h
      exact buildWaveform_noRep body σ' cmU w h
  | .parallel id body over, σ, cm, w, h => by
      rw [buildWaveform] at h
      obtain ⟨inner, hi, h⟩ := bind_ok h
      split at h
      · cases pure_ok h
      · rename_i w0
        obtain ⟨ov, _, h⟩ := bind_ok h
        obtain ⟨w', hw', h⟩ := bind_ok h
        cases pure_ok h
        exact fromTransformation_noRep w0 _ _ (buildWaveform_noRep body σ cm w0 hi) hw'
  | .atomicMulti id subs dur meas cons, σ, cm, w, h => by
      rw [buildWaveform] at h
      obtain ⟨_, _, h⟩ := bind_ok h
      obtain ⟨wfs, hwfs, h⟩ := bind_ok h
      have hall := buildWaveformList_noRep subs σ cm wfs hwfs
      split at h
      · cases pure_ok h
      · obtain ⟨w', hw', h⟩ := bind_ok h
        have hn := fromParallel_noRep wfs w' hall hw'
        split at h
        · cases pure_ok h; exact hn
        · obtain ⟨expected, _, h⟩ := bind_ok h
          split at h
          · cases h
          · cases pure_ok h; exact hn
  | .arith id body op scalar ptIsLhs, σ, cm, w, h => by
      rw [buildWaveform] at h
      obtain ⟨inner, hi, h⟩ := bind_ok h
      split at h
      · cases pure_ok h
      · rename_i w0
        obtain ⟨T, _, h⟩ := bind_ok h
        obtain ⟨w', hw', h⟩ := bind_ok h
        cases pure_ok h
        exact fromTransformation_noRep w0 _ _ (buildWaveform_noRep body σ cm w0 hi) hw'
  | .arithAtomic id lhs minus rhs meas, σ, cm, w, h => by
      rw [buildWaveform] at h
      obtain ⟨l, hl, h⟩ := bind_ok h
      obtain ⟨r, hr, h⟩ := bind_ok h
      cases r with
      | none =>
        have := pure_ok h
        subst this
        exact buildWaveform_noRep lhs σ cm w hl
      | some r0 =>
        cases l with
        | none =>
          dsimp only at h
          split at h
          · obtain ⟨w', hw', h⟩ := bind_ok h
            cases pure_ok h
            exact negWf_noRep r0 _ (buildWaveform_noRep rhs σ cm r0 hr) hw'
          · cases pure_ok h
            exact buildWaveform_noRep rhs σ cm _ hr
        | some l0 =>
          dsimp only at h
          obtain ⟨w', hw', h⟩ := bind_ok h
          cases pure_ok h
          exact fromOperator_noRep l0 r0 _ _ (buildWaveform_noRep lhs σ cm l0 hl)
            (buildWaveform_noRep rhs σ cm r0 hr) hw'
  | .timeReversal id body, σ, cm, w, h => by
      rw [buildWaveform] at h
      obtain ⟨inner, hi, h⟩ := bind_ok h
      have := pure_ok h
      cases inner with
      | none => simp at this
      | some w0 =>
        simp only [Option.map_some, Option.some.injEq] at this
        subst this
        exact reversedWf_noRep w0 (buildWaveform_noRep body σ cm w0 hi)
theorem buildWaveformList_noRep : ∀ (ps : List PT) (σ : Scope) (cm : List (Chan × Option Chan)) (ws : List Wf),
    buildWaveformList ps σ cm = .ok ws → ∀ x ∈ ws, noRep x = true
  | [], σ, cm, ws, h => by
      rw [buildWaveformList] at h
      cases h
      intro x hx; simp at hx
  | p :: ps, σ, cm, ws, h => by
      rw [buildWaveformList] at h
      obtain ⟨w, hw, h⟩ := bind_ok h
      obtain ⟨ws', hws', h⟩ := bind_ok h
      have := pure_ok h
      subst this
      intro x hx
      cases w with
      | none => exact buildWaveformList_noRep ps σ cm ws' hws' x (by simpa using hx)
      | some w0 =>
        simp only [List.mem_cons] at hx
        rcases hx with rfl | hx
        · exact buildWaveform_noRep p σ cm _ hw
        · exact buildWaveformList_noRep ps σ cm ws' hws' x hx
end

end QP.C05

namespace QP.C05
open QP.PT

/-! ## atomic templates -/

/-- the constant re-fold at the end of `AtomicPulseTemplate._internal_create_program` -/
def foldConst (w : Wf) : Except Err Wf :=
  match w.constDict with
  | none => pure w
  | some cv => constFromMapping w.duration cv

theorem foldConst_spec (w w' : Wf) (hc : cst w = true) (h : foldConst w = .ok w') :
    w'.duration = w.duration ∧ cst w' = true ∧ (∀ c t, pv w' c t = pv w c t) ∧
      (∀ c, tidy c w = true → tidy c w' = true) := by
  unfold foldConst at h
  split at h
  · cases pure_ok h
    exact ⟨rfl, hc, fun _ _ => rfl, fun _ h => h⟩
  · rename_i cv hcv
    obtain ⟨a1, _, a3⟩ := constFromMapping_spec _ _ _ h
    refine ⟨a1, noRep_cst _ a3, fun c t => ?_, fun c _ => noRep_tidy c _ a3⟩
    rw [constFromMapping_pv _ _ _ h c t, constOK w cv hc hcv c t]

/-- the items an atomic template emits for the waveform `w` and the windows `ms` -/
def leafItems (ms : List Window) (w : Wf) : List Item :=
  (if ms.isEmpty then [] else [Item.measure ms]) ++ [Item.node (leaf w)]

theorem leafItems_nodes (ms : List Window) (w : Wf) : itemsNodes (leafItems ms w) = [leaf w] := by
  unfold leafItems; split <;> simp [itemsNodes]

theorem leafItems_meas (ms : List Window) (w : Wf) :
    itemsMeas (leafItems ms w) 0 = itemsMeas [Item.measure ms, Item.node (leaf w)] 0 := by
  unfold leafItems
  split
  · rename_i h
    have : ms = [] := List.isEmpty_iff.mp h
    subst this
    simp [itemsMeas]
  · simp [itemsMeas]

theorem leafItems_endsOk (ms : List Window) (w : Wf) : endsOk (leafItems ms w) = true := by
  unfold leafItems; split <;> simp [endsOk]

theorem atomItems_ok (pt : PT) (ctx : Ctx) (I : List Item) (h : atomItems pt ctx = .ok I) :
    (buildWaveform pt ctx.scope ctx.cm = .ok none ∧ I = []) ∨
    ∃ w ms wT wF, buildWaveform pt ctx.scope ctx.cm = .ok (some w) ∧ atomicMeas pt ctx.scope ctx.mm = .ok ms ∧
      collapseWf w ctx.trafo = .ok wT ∧ foldConst wT = .ok wF ∧ I = leafItems ms wF := by
  unfold atomItems at h
  obtain ⟨w?, hw, h⟩ := bind_ok h
  cases w? with
  | none => left; exact ⟨hw, (pure_ok h).symm⟩
  | some w =>
    right
    dsimp only at h
    obtain ⟨ms, hms, h⟩ := bind_ok h
    have fin : ∀ wT : Wf, collapseWf w ctx.trafo = .ok wT →
        (match wT.constDict with
          | none => do
            let w ← pure wT
            pure ((if ms.isEmpty = true then [] else [Item.measure ms]) ++ [Item.node (leaf w)])
          | some cv => do
            let w ← constFromMapping wT.duration cv
            pure ((if ms.isEmpty = true then [] else [Item.measure ms]) ++ [Item.node (leaf w)])) = Except.ok I →
        ∃ w ms wT wF, buildWaveform pt ctx.scope ctx.cm = .ok (some w) ∧ atomicMeas pt ctx.scope ctx.mm = .ok ms ∧
          collapseWf w ctx.trafo = .ok wT ∧ foldConst wT = .ok wF ∧ I = leafItems ms wF := by
      intro wT hwT h
      split at h
      · rename_i hcd
        obtain ⟨wF, hwF, h⟩ := bind_ok h
        refine ⟨w, ms, wT, wF, hw, hms, hwT, ?_, (pure_ok h).symm⟩
        unfold foldConst; rw [hcd]; exact hwF
      · rename_i cv hcd
        obtain ⟨wF, hwF, h⟩ := bind_ok h
        refine ⟨w, ms, wT, wF, hw, hms, hwT, ?_, (pure_ok h).symm⟩
        unfold foldConst; rw [hcd]; exact hwF
    by_cases hT : ctx.trafo.isEmpty = true
    · simp only [hT, if_true] at h
      obtain ⟨wT, hwT, h⟩ := bind_ok h
      exact fin wT (by unfold collapseWf; simp only [hT, if_true]; exact hwT) h
    · simp only [hT, if_false] at h
      obtain ⟨wT, hwT, h⟩ := bind_ok h
      exact fin wT (by unfold collapseWf; simp only [hT, if_false]; exact hwT) h

theorem inv_leafItems (ms : List Window) (w : Wf) (hc : cst w = true) (hn : 0 ≤ w.duration) :
    Inv (leafItems ms w) where
  trail := leafItems_endsOk ms w
  cst := by rw [leafItems_nodes]; simp [allLeavesList, leaf_allLeaves, hc]
  pos := by rw [leafItems_nodes]; simp [posRepsList, posReps, leaf]
  nn := by rw [leafItems_nodes]; simp [allLeavesList, leaf_allLeaves, nonnegW, hn]

/-- unary part for atoms -/
theorem atomItems_inv (pt : PT) (ctx ctx' : Ctx) (hs : ctx'.scope = ctx.scope) (hcm : ctx'.cm = ctx.cm)
    (J I : List Item) (hJ : atomItems pt ctx = .ok J) (hnn : allLeavesList nonnegW (itemsNodes J) = true)
    (hI : atomItems pt ctx' = .ok I) : Inv I := by
  rcases atomItems_ok pt ctx' I hI with ⟨_, rfl⟩ | ⟨w, ms, wT, wF, hw, _, hwT, hwF, rfl⟩
  · exact inv_nil
  · rw [hs, hcm] at hw
    have hcw := noRep_cst w (buildWaveform_noRep pt _ _ w hw)
    obtain ⟨a1, a2, _, _⟩ := collapseWf_spec w wT _ hcw hwT
    obtain ⟨b1, b2, _, _⟩ := foldConst_spec wT wF a2 hwF
    apply inv_leafItems ms wF b2
    rw [b1, a1]
    -- the default program plays the same waveform (up to the transformation): same duration
    rcases atomItems_ok pt ctx J hJ with ⟨hJn, _⟩ | ⟨w', ms', wT', wF', hw', _, hwT', hwF', rfl⟩
    · rw [hw] at hJn; cases hJn
    · rw [hw] at hw'
      cases hw'
      obtain ⟨a1', a2', _, _⟩ := collapseWf_spec w wT' _ hcw hwT'
      obtain ⟨b1', _, _, _⟩ := foldConst_spec wT' wF' a2' hwF'
      rw [leafItems_nodes] at hnn
      simp only [allLeavesList, leaf_allLeaves, nonnegW, Bool.and_true, decide_eq_true_eq] at hnn
      rw [b1', a1'] at hnn
      exact hnn

/-- binary part for atoms -/
theorem atomItems_rel (pt : PT) (ctx ctx' : Ctx) (T₁ T₂ : Chain) (hs : ctx'.scope = ctx.scope)
    (hcm : ctx'.cm = ctx.cm) (hmm : ctx'.mm = ctx.mm) (ht : ctx.trafo = T₁ ++ T₂) (ht' : ctx'.trafo = T₁)
    (I I' : List Item) (hI : atomItems pt ctx = .ok I) (hI' : atomItems pt ctx' = .ok I') (c : Chan) :
    Rel c T₂ I I' := by
  rcases atomItems_ok pt ctx I hI with ⟨hn, rfl⟩ | ⟨w, ms, wT, wF, hw, hms, hwT, hwF, rfl⟩
  · rcases atomItems_ok pt ctx' I' hI' with ⟨_, rfl⟩ | ⟨w', _, _, _, hw', _, _, _, _⟩
    · exact ⟨Iff.rfl, rfl, List.Perm.refl _, by simp [allPres, itemsNodes, allLeavesList], by
        intro _ t h0 ht
        simp [itemsDur, itemsNodes, Loop.durationList] at ht
        exact absurd ht (by grind)⟩
    · rw [hs, hcm, hn] at hw'; cases hw'
  · rcases atomItems_ok pt ctx' I' hI' with ⟨hn', _⟩ | ⟨w', ms', wT', wF', hw', hms', hwT', hwF', rfl⟩
    · rw [hs, hcm, hw] at hn'; cases hn'
    · rw [hs, hcm, hw] at hw'
      cases hw'
      rw [hs, hmm, hms] at hms'
      cases hms'
      have hcw := noRep_cst w (buildWaveform_noRep pt _ _ w hw)
      rw [ht] at hwT
      rw [ht'] at hwT'
      obtain ⟨a1, a2, a3, _⟩ := collapseWf_spec w wT _ hcw hwT
      obtain ⟨b1, b2, b3, _⟩ := foldConst_spec wT wF a2 hwF
      obtain ⟨a1', a2', a3', _⟩ := collapseWf_spec w wT' _ hcw hwT'
      obtain ⟨b1', b2', b3', _⟩ := foldConst_spec wT' wF' a2' hwF'
      apply rel_congr c T₂ [Item.measure ms, Item.node (leaf wF)] (leafItems ms wF)
        [Item.measure ms, Item.node (leaf wF')] (leafItems ms wF')
      · rw [leafItems_nodes]; rfl
      · rw [leafItems_meas]
      · rw [leafItems_nodes]; rfl
      · rw [leafItems_meas]
      · apply rel_leaf
        · rw [b1, a1, b1', a1']
        · intro t
          rw [b3, a3, b3', a3', Chain.chanF_append]


end QP.C05

namespace QP.C05
open QP.PT

/-! ## `_create_program`: the `to_single_waveform` branch -/

def isCollId (id : Option String) (S : List String) : Bool :=
  match id with
  | some n => S.contains n
  | none => false

theorem isColl_eq (S : List String) (p : PT) : isColl S p = isCollId p.ident S := rfl

theorem wrapSingle_not (id : Option String) (ctx : Ctx) (k : Ctx → Except Err (List Item))
    (h : isCollId id ctx.single = false) : wrapSingle id ctx k = k ctx := by
  unfold wrapSingle
  cases id with
  | none => rfl
  | some n =>
    simp only [isCollId] at h
    simp only [h, Bool.false_eq_true, if_false]

theorem wrapSingle_yes (id : Option String) (ctx : Ctx) (k : Ctx → Except Err (List Item)) (I : List Item)
    (hc : isCollId id ctx.single = true) (h : wrapSingle id ctx k = .ok I) :
    ∃ I0, k { ctx with trafo := [] } = .ok I0 ∧
      ((toProgram I0 = none ∧ I = []) ∨
       ∃ root w0 w, toProgram I0 = some root ∧ root.toWaveform = .ok w0 ∧ collapseWf w0 ctx.trafo = .ok w ∧
         I = [Item.measure root.windows, Item.node (leaf w)]) := by
  unfold wrapSingle at h
  cases id with
  | none => simp [isCollId] at hc
  | some n =>
    simp only [isCollId] at hc
    simp only [hc, if_true] at h
    obtain ⟨I0, hI0, h⟩ := bind_ok h
    refine ⟨I0, hI0, ?_⟩
    cases hp : toProgram I0 with
    | none =>
      left
      simp only [hp] at h
      exact ⟨rfl, (pure_ok h).symm⟩
    | some root =>
      right
      simp only [hp] at h
      obtain ⟨w0, hw0, h⟩ := bind_ok h
      by_cases hT : ctx.trafo.isEmpty = true
      · simp only [hT, if_true] at h
        obtain ⟨w, hw, h⟩ := bind_ok h
        exact ⟨root, w0, w, rfl, hw0, by unfold collapseWf; simp only [hT, if_true]; exact hw, (pure_ok h).symm⟩
      · simp only [hT] at h
        obtain ⟨w, hw, h⟩ := bind_ok h
        exact ⟨root, w0, w, rfl, hw0, by unfold collapseWf; simp only [hT]; exact hw, (pure_ok h).symm⟩

def tidyI (c : Chan) (I : List Item) : Prop := allLeavesList (tidy c) (itemsNodes I) = true
def nnI (I : List Item) : Prop := allLeavesList nonnegW (itemsNodes I) = true

theorem rel_nil (c : Chan) (T : Chain) : Rel c T [] [] where
  empty := Iff.rfl
  dur := rfl
  win := List.Perm.refl _
  pres := by simp [allPres, itemsNodes, allLeavesList]
  samp := by
    intro _ t h0 ht
    simp [itemsDur, itemsNodes, Loop.durationList] at ht
    exact absurd ht (by grind)

/-- a collapsed part plays the global transformation applied to what its inner program plays -/
theorem collapsed_rel (c : Chan) (T : Chain) (I0 I : List Item) (hinv : Inv I0)
    (h : (toProgram I0 = none ∧ I = []) ∨
       ∃ root w0 w, toProgram I0 = some root ∧ root.toWaveform = .ok w0 ∧ collapseWf w0 T = .ok w ∧
         I = [Item.measure root.windows, Item.node (leaf w)]) :
    Inv I ∧ (tidyI c I → Rel c T I I0 ∧ tidyI c I0) := by
  rcases h with ⟨hn, rfl⟩ | ⟨root, w0, w, hr, hw0, hw, rfl⟩
  · refine ⟨inv_nil, fun _ => ?_⟩
    rw [toProgram_eq] at hn
    have hnodes : itemsNodes I0 = [] := by
      by_cases he : (itemsNodes I0).isEmpty = true
      · exact List.isEmpty_iff.mp he
      · simp [he] at hn
    have : I0 = [] := endsOk_nodes_nil I0 hinv.trail hnodes
    subst this
    exact ⟨rel_nil c T, rfl⟩
  · obtain ⟨a1, a2⟩ := rel_collapse c T I0 root w0 w hinv hr hw0 hw
    refine ⟨a1, fun ht => ?_⟩
    apply a2
    simpa [tidyI, itemsNodes, allLeavesList, leaf_allLeaves] using ht

/-- unary statement: every compilation result satisfies the invariants -/
def GU (k : Ctx → Except Err (List Item)) : Prop :=
  ∀ (ctx : Ctx) (T0 : Chain) (J : List Item), k { ctx with trafo := T0, single := [] } = .ok J → nnI J →
    ∀ (T : Chain) (S : List String) (I : List Item), k { ctx with trafo := T, single := S } = .ok I → Inv I

/-- binary statement: an additional transformation `T₂` and different `to_single_waveform` sets -/
def GB (clean : List String → Bool → Bool → Bool) (k : Ctx → Except Err (List Item)) : Prop :=
  ∀ (ctx : Ctx) (T0 : Chain) (J : List Item), k { ctx with trafo := T0, single := [] } = .ok J → nnI J →
    ∀ (T₁ T₂ : Chain) (S S' U : List String) (I I' : List Item) (c : Chan) (tr1 tr2 : Bool),
      k { ctx with trafo := T₁ ++ T₂, single := S } = .ok I →
      k { ctx with trafo := T₁, single := S' } = .ok I' →
      (∀ x, S.contains x = true → U.contains x = true) → (∀ x, S'.contains x = true → U.contains x = true) →
      (T₁ ≠ [] → tr1 = true) → (T₂ ≠ [] → tr2 = true) → clean U tr1 tr2 = true →
      tidyI c I → tidyI c I' → Rel c T₂ I I'


mutual
theorem cleanG_mono (U : List String) : ∀ (p : PT) (a b a' b' : Bool), (a' = true → a = true) → (b' = true → b = true) →
    cleanG U a b p = true → cleanG U a' b' p = true
  | .const .., _, _, _, _, _, _, _ => rfl
  | .table .., _, _, _, _, _, _, _ => rfl
  | .point .., _, _, _, _, _, _, _ => rfl
  | .func .., _, _, _, _, _, _, _ => rfl
  | .atomicMulti .., _, _, _, _, _, _, _ => rfl
  | .arithAtomic .., _, _, _, _, _, _, _ => rfl
  | .seq _ subs _ _, a, b, a', b', ha, hb, h => by
      simp only [cleanG] at h ⊢
      exact cleanL_mono U subs a b a' b' ha hb h
  | .rep _ body _ _ _, a, b, a', b', ha, hb, h => by
      simp only [cleanG, Bool.and_eq_true, Bool.or_eq_true, Bool.not_eq_true'] at h ⊢
      refine ⟨cleanG_mono U body a b a' b' ha hb h.1, ?_⟩
      rcases h.2 with h2 | h2
      · exact Or.inl h2
      · exact Or.inr (cleanG_mono U body false (a || b) false (a' || b') (fun e => e) (by
          intro e; cases a' <;> cases b' <;> simp_all) h2)
  | .forLoop _ body _ _ _ _ _ _, a, b, a', b', ha, hb, h => by
      simp only [cleanG, Bool.and_eq_true, Bool.or_eq_true, Bool.not_eq_true'] at h ⊢
      refine ⟨cleanG_mono U body a b a' b' ha hb h.1, ?_⟩
      rcases h.2 with h2 | h2
      · exact Or.inl h2
      · exact Or.inr (cleanG_mono U body false (a || b) false (a' || b') (fun e => e) (by
          intro e; cases a' <;> cases b' <;> simp_all) h2)
  | .mapping _ body _ _ _ _, a, b, a', b', ha, hb, h => by
      simp only [cleanG, Bool.and_eq_true, Bool.or_eq_true, Bool.not_eq_true'] at h ⊢
      refine ⟨cleanG_mono U body a b a' b' ha hb h.1, ?_⟩
      rcases h.2 with h2 | h2
      · exact Or.inl h2
      · exact Or.inr (cleanG_mono U body false (a || b) false (a' || b') (fun e => e) (by
          intro e; cases a' <;> cases b' <;> simp_all) h2)
  | .parallel _ body _, a, b, a', b', ha, hb, h => by
      simp only [cleanG, Bool.and_eq_true, Bool.not_eq_true'] at h ⊢
      refine ⟨?_, h.2⟩
      cases b' with
      | false => rfl
      | true => have := hb rfl; rw [this] at h; exact absurd h.1 (by simp)
  | .arith _ body _ _ _, a, b, a', b', ha, hb, h => by
      simp only [cleanG, Bool.and_eq_true] at h ⊢
      exact ⟨cleanG_mono U body true b true b' (fun e => e) hb h.1, h.2⟩
  | .timeReversal _ body, a, b, a', b', ha, hb, h => by
      simp only [cleanG, Bool.and_eq_true, Bool.not_eq_true'] at h ⊢
      refine ⟨?_, h.2⟩
      cases b' with
      | false => rfl
      | true => have := hb rfl; rw [this] at h; exact absurd h.1 (by simp)
theorem cleanL_mono (U : List String) : ∀ (ps : List PT) (a b a' b' : Bool), (a' = true → a = true) → (b' = true → b = true) →
    cleanL U a b ps = true → cleanL U a' b' ps = true
  | [], _, _, _, _, _, _, _ => rfl
  | p :: ps, a, b, a', b', ha, hb, h => by
      simp only [cleanL, Bool.and_eq_true, Bool.or_eq_true, Bool.not_eq_true'] at h ⊢
      refine ⟨⟨cleanG_mono U p a b a' b' ha hb h.1.1, ?_⟩, cleanL_mono U ps a b a' b' ha hb h.2⟩
      rcases h.1.2 with h2 | h2
      · exact Or.inl h2
      · exact Or.inr (cleanG_mono U p false (a || b) false (a' || b') (fun e => e) (by
          intro e; cases a' <;> cases b' <;> simp_all) h2)
end

/-- the compilation entered through `_create_program` -/
def wrapK (p : PT) : Ctx → Except Err (List Item) := fun ctx => wrapSingle p.ident ctx (internal p)

theorem wrapK_plain (p : PT) (ctx : Ctx) (T : Chain) :
    wrapK p { ctx with trafo := T, single := [] } = internal p { ctx with trafo := T, single := [] } := by
  unfold wrapK
  apply wrapSingle_not
  cases p.ident <;> simp [isCollId]

theorem GU_wrap (p : PT) (hU : GU (internal p)) : GU (wrapK p) := by
  intro ctx T0 J hJ hnn T S I hI
  rw [wrapK_plain] at hJ
  unfold wrapK at hI
  by_cases hc : isCollId p.ident S = true
  · obtain ⟨I0, hI0, hcase⟩ := wrapSingle_yes _ _ _ I hc hI
    have inv0 := hU ctx T0 J hJ hnn [] S I0 hI0
    exact (collapsed_rel "" T I0 I inv0 hcase).1
  · have hc' : isCollId p.ident S = false := by simpa using hc
    rw [wrapSingle_not _ _ _ hc'] at hI
    exact hU ctx T0 J hJ hnn T S I hI

theorem GB_wrap (p : PT) (hU : GU (internal p)) (hB : GB (fun U a b => cleanG U a b p) (internal p)) :
    GB (fun U a b => cleanW U a b p) (wrapK p) := by
  intro ctx T0 J hJ hnn T₁ T₂ S S' U I I' c tr1 tr2 hI hI' hSU hS'U hf1 hf2 hclean htI htI'
  rw [wrapK_plain] at hJ
  unfold wrapK at hI hI'
  simp only [cleanW, Bool.and_eq_true, Bool.or_eq_true, Bool.not_eq_true'] at hclean
  have collU : ∀ S0 : List String, (∀ x, S0.contains x = true → U.contains x = true) →
      isCollId p.ident S0 = true → isColl U p = true := by
    intro S0 h0 hc
    unfold isColl
    cases hid : p.ident with
    | none => rw [hid] at hc; simp [isCollId] at hc
    | some n => rw [hid] at hc; simp only [isCollId] at hc; exact h0 n hc
  have cleanIn : ∀ S0 : List String, (∀ x, S0.contains x = true → U.contains x = true) →
      isCollId p.ident S0 = true → cleanG U false (tr1 || tr2) p = true := by
    intro S0 h0 hc
    rcases hclean.2 with h | h
    · rw [collU S0 h0 hc] at h; cases h
    · exact h
  by_cases hc : isCollId p.ident S = true
  · obtain ⟨I0, hI0, hcase⟩ := wrapSingle_yes _ _ _ I hc hI
    have inv0 := hU ctx T0 J hJ hnn [] S I0 hI0
    obtain ⟨_, hrel⟩ := collapsed_rel c (T₁ ++ T₂) I0 I inv0 hcase
    obtain ⟨relA, tidy0⟩ := hrel htI
    have hcl := cleanIn S hSU hc
    by_cases hc' : isCollId p.ident S' = true
    · -- both collapsed
      obtain ⟨I0', hI0', hcase'⟩ := wrapSingle_yes _ _ _ I' hc' hI'
      have inv0' := hU ctx T0 J hJ hnn [] S' I0' hI0'
      obtain ⟨_, hrel'⟩ := collapsed_rel c T₁ I0' I' inv0' hcase'
      obtain ⟨relC, tidy0'⟩ := hrel' htI'
      have ih := hB ctx T0 J hJ hnn [] [] S S' U I0 I0' c false false hI0 hI0' hSU hS'U
        (fun h => absurd rfl h) (fun h => absurd rfl h)
        (cleanG_mono U p false (tr1 || tr2) false false (fun e => e) (fun e => by cases e) hcl) tidy0 tidy0'
      exact rel_div c T₁ T₂ I I0' I' (rel_trans_nil c _ I I0 I0' relA ih) relC
    · have hc'' : isCollId p.ident S' = false := by simpa using hc'
      rw [wrapSingle_not _ _ _ hc''] at hI'
      have ih := hB ctx T0 J hJ hnn [] T₁ S' S U I' I0 c false tr1 (by simpa using hI') hI0 hS'U hSU
        (fun h => absurd rfl h) hf1
        (cleanG_mono U p false (tr1 || tr2) false tr1 (fun e => e) (fun e => by simp [e]) hcl) htI' tidy0
      exact rel_div c T₁ T₂ I I0 I' relA ih
  · have hcf : isCollId p.ident S = false := by simpa using hc
    rw [wrapSingle_not _ _ _ hcf] at hI
    by_cases hc' : isCollId p.ident S' = true
    · obtain ⟨I0', hI0', hcase'⟩ := wrapSingle_yes _ _ _ I' hc' hI'
      have inv0' := hU ctx T0 J hJ hnn [] S' I0' hI0'
      obtain ⟨_, hrel'⟩ := collapsed_rel c T₁ I0' I' inv0' hcase'
      obtain ⟨relC, tidy0'⟩ := hrel' htI'
      have hcl := cleanIn S' hS'U hc'
      have ih := hB ctx T0 J hJ hnn [] (T₁ ++ T₂) S S' U I I0' c false (tr1 || tr2) (by simpa using hI) hI0' hSU hS'U
        (fun h => absurd rfl h) (by
          intro hne
          cases T₁ with
          | nil => simp only [List.nil_append] at hne; simp [hf2 hne]
          | cons t ts => simp [hf1 (by simp)])
        hcl htI tidy0'
      exact rel_div c T₁ T₂ I I0' I' ih relC
    · have hcf' : isCollId p.ident S' = false := by simpa using hc'
      rw [wrapSingle_not _ _ _ hcf'] at hI'
      exact hB ctx T0 J hJ hnn T₁ T₂ S S' U I I' c tr1 tr2 hI hI' hSU hS'U hf1 hf2 hclean.1 htI htI'


end QP.C05
