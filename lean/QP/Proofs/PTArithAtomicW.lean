import QP.Model.PT
import QP.Proofs.PTTop2W
import QP.Proofs.PTCompileWT
/-! Durations and windows of `ArithmeticAtomicPulseTemplate` (and, through `BuildOKW`, of every proved atom):
`build_waveform` yields a waveform exactly when the denoted pulse is not empty, of the same duration, and the windows
are the ones of `get_measurement_windows`. -/
namespace QP.PT

/-- the duration / window part of `BuildOK` -/
def BuildOKW (pt : PT) : Prop :=
  ∀ σ mm cm w? P, buildWaveform pt σ cm = .ok w? → denote pt σ mm cm = .ok P →
    match w? with
    | none => P = Pulse.empty
    | some w => P.chans ≠ [] ∧ w.duration = P.dur ∧ ∀ ms, atomicMeas pt σ mm = .ok ms → P.windows = ms

theorem BuildOK.toW {pt : PT} (h : BuildOK pt) : BuildOKW pt := by
  intro σ mm cm w? P h1 h2
  have := h σ mm cm w? P h1 h2
  cases w? with
  | none => exact this
  | some w => exact ⟨this.1, this.2.1, this.2.2.2.2⟩

theorem atomOKWT_of_buildOKW {pt : PT} (hb : BuildOKW pt) : AtomOKWT pt := by
  intro σ mm cm T items P h1 h2
  rcases QP.C05.atomItems_ok pt (ctxT σ mm cm T) items h1 with ⟨hw, rfl⟩ | ⟨w, ms, wT, wF, hw, hms, hwT, hwF, rfl⟩
  · have := hb σ mm cm none P hw h2
    simp only at this
    subst this
    exact RelW.nil
  · simp only [ctxT] at hw hms hwT
    obtain ⟨hne, hdur, hwin⟩ := hb σ mm cm (some w) P hw h2
    have hcw := QP.C05.noRep_cst w (QP.C05.buildWaveform_noRep pt _ _ w hw)
    obtain ⟨a1, a2, _, _⟩ := QP.C05.collapseWf_spec w wT _ hcw hwT
    obtain ⟨b1, _, _, _⟩ := QP.C05.foldConst_spec wT wF a2 hwF
    have hP : P = { dur := P.dur, chans := P.chans, windows := ms } := by
      rw [← hwin ms hms]
    rw [hP]
    unfold QP.C05.leafItems
    exact relW_single_leaf wF ms P.dur (by rw [b1, a1, hdur]) P.chans hne

theorem negWf_duration {r w : Wf} (h : negWf r = .ok w) : w.duration = r.duration := by
  unfold negWf at h
  split at h
  · exact (constFromMapping_spec h).1
  · simp only [Except.ok.injEq] at h
    subst h
    simp [Wf.duration]

theorem fromOperator_duration {l r w : Wf} {minus : Bool} (h : fromOperator l minus r = .ok w) :
    w.duration = l.duration ∧ l.duration = r.duration := by
  unfold fromOperator at h
  split at h
  · split at h
    · cases h
    · rename_i hne
      exact ⟨(constFromMapping_spec h).1, by simpa using hne⟩
  · split at h
    · cases h
    · rename_i hne
      simp only [Except.ok.injEq] at h
      subst h
      exact ⟨by simp [Wf.duration], by simpa using hne⟩

theorem buildOKW_arithAtomic (id : Option String) (lhs : PT) (minus : Bool) (rhs : PT) (meas : List MeasDecl)
    (hl : BuildOKW lhs) (hr : BuildOKW rhs) : BuildOKW (.arithAtomic id lhs minus rhs meas) := by
  intro σ mm cm w? P h1 h2
  rw [buildWaveform] at h1
  obtain ⟨wl, hwl, h1⟩ := bind_ok.mp h1
  obtain ⟨wr, hwr, h1⟩ := bind_ok.mp h1
  rw [denote] at h2
  obtain ⟨Pl, hPl, h2⟩ := bind_ok.mp h2
  obtain ⟨Pr, hPr, h2⟩ := bind_ok.mp h2
  have il := hl σ mm cm wl Pl hwl hPl
  have ir := hr σ mm cm wr Pr hwr hPr
  dsimp only at h1 h2
  cases wr with
  | none =>
    simp only at ir
    subst ir
    cases wl with
    | none =>
      simp only at il
      subst il
      simp only [pure_ok] at h1
      subst h1
      simp only [Pulse.isEmpty, Pulse.empty, List.isEmpty_nil, Bool.and_self, if_true, pure_ok] at h2
      exact h2.symm
    | some l =>
      simp only [pure_ok] at h1
      subst h1
      obtain ⟨hne, hdur, _⟩ := il
      have he : Pl.isEmpty = false := by simpa [Pulse.isEmpty] using hne
      simp only [he, Bool.false_and, Bool.false_eq_true, if_false] at h2
      obtain ⟨ms, hms, h2⟩ := bind_ok.mp h2
      simp only [Pulse.isEmpty, Pulse.empty, List.isEmpty_nil, if_true, pure_ok] at h2
      subst h2
      refine ⟨hne, hdur, ?_⟩
      intro ms' hms'
      rw [hms] at hms'; cases hms'; rfl
  | some r =>
    obtain ⟨hner, hdurr, _⟩ := ir
    have her : Pr.isEmpty = false := by simpa [Pulse.isEmpty] using hner
    cases wl with
    | none =>
      simp only at il
      subst il
      simp only [Pulse.isEmpty, Pulse.empty, List.isEmpty_nil, Bool.true_and] at h2
      have her' : Pr.chans.isEmpty = false := by simpa using hner
      simp only [her', Bool.false_eq_true, if_false] at h2
      obtain ⟨ms, hms, h2⟩ := bind_ok.mp h2
      simp only [if_true, pure_ok] at h2
      subst h2
      have hwd : ∃ w, w? = some w ∧ w.duration = r.duration := by
        cases minus with
        | true =>
          simp only [if_true] at h1
          obtain ⟨w, hw, h1⟩ := bind_ok.mp h1
          exact ⟨w, (pure_ok.mp h1).symm, negWf_duration hw⟩
        | false =>
          simp only [Bool.false_eq_true, if_false, pure_ok] at h1
          exact ⟨r, h1.symm, rfl⟩
      obtain ⟨w, rfl, hwd⟩ := hwd
      refine ⟨?_, by rw [hwd, hdurr], ?_⟩
      · simp only [ne_eq, List.map_eq_nil_iff]; exact hner
      · intro ms' hms'
        rw [hms] at hms'; cases hms'; rfl
    | some l =>
      obtain ⟨hnel, hdurl, _⟩ := il
      have hel : Pl.isEmpty = false := by simpa [Pulse.isEmpty] using hnel
      obtain ⟨w, hw, h1⟩ := bind_ok.mp h1
      cases pure_ok.mp h1
      obtain ⟨hwd, hlr⟩ := fromOperator_duration hw
      simp only [hel, her, Bool.false_and, Bool.false_eq_true, if_false] at h2
      obtain ⟨ms, hms, h2⟩ := bind_ok.mp h2
      have hdd : ¬ (Pl.dur ≠ Pr.dur) := by
        rw [← hdurl, ← hdurr]; simp [hlr]
      simp only [hdd, if_false, pure_ok] at h2
      subst h2
      refine ⟨?_, by rw [hwd, hdurl], ?_⟩
      · obtain ⟨x, xs, hx⟩ := List.exists_cons_of_ne_nil hnel
        simp [hx]
      · intro ms' hms'
        rw [hms] at hms'; cases hms'; rfl

/-- the atoms for durations and windows: the proved atoms and `ArithmeticAtomicPT`s of them -/
inductive AtomTreeW : PT → Prop
  | base {pt} : AtomTree pt → AtomTreeW pt
  | arithAtomic {id lhs minus rhs meas} : AtomTreeW lhs → AtomTreeW rhs →
      AtomTreeW (.arithAtomic id lhs minus rhs meas)

theorem AtomTreeW.buildOKW {pt : PT} (h : AtomTreeW pt) : BuildOKW pt := by
  induction h with
  | base ha => exact ha.buildOK.toW
  | arithAtomic _ _ ihl ihr => exact buildOKW_arithAtomic _ _ _ _ _ ihl ihr

end QP.PT
