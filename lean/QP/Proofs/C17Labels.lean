import QP.Proofs.C17Struct
/-! Label discipline of the translator: the labels of the emitted loops are distinct (fresh numbers
from `label_num`), for every program — hence `set_commands` succeeds and the VM run is structured. -/
namespace QP.C17.Struct
open QP.C17 QP.C17.VMS

theorem labelsL_append (a b : List SCmd) : labelsL (a ++ b) = labelsL a ++ labelsL b := by
  induction a with
  | nil => simp [labelsL]
  | cons c r ih => simp [labelsL, ih]

/-- labels distinct and inside `[lo, hi)` -/
def LabOK (lo hi : Nat) (s : List SCmd) : Prop :=
  (labelsL s).Nodup ∧ ∀ i ∈ labelsL s, lo ≤ i ∧ i < hi

theorem LabOK.nil (lo hi : Nat) : LabOK lo hi [] := by simp [LabOK, labelsL]

theorem LabOK.mono {lo hi lo' hi' : Nat} {s : List SCmd} (h : LabOK lo hi s) (h1 : lo' ≤ lo) (h2 : hi ≤ hi') :
    LabOK lo' hi' s :=
  ⟨h.1, fun i hi => by have := h.2 i hi; omega⟩

theorem LabOK.append {lo mid hi : Nat} {a b : List SCmd} (ha : LabOK lo mid a) (hb : LabOK mid hi b)
    (h1 : lo ≤ mid) (h2 : mid ≤ hi) : LabOK lo hi (a ++ b) := by
  refine ⟨?_, ?_⟩
  · rw [labelsL_append, List.nodup_append]
    refine ⟨ha.1, hb.1, ?_⟩
    intro x hx y hy
    have := ha.2 x hx
    have := hb.2 y hy
    omega
  · intro i hi
    rw [labelsL_append, List.mem_append] at hi
    rcases hi with hi | hi
    · have := ha.2 i hi; omega
    · have := hb.2 i hi; omega

theorem LabOK.loop {lo hi : Nat} {b : List SCmd} (n : Int) (hb : LabOK (lo + 1) hi b) (h : lo + 1 ≤ hi) :
    LabOK lo hi [.loop lo n b] := by
  refine ⟨?_, ?_⟩
  · simp only [labelsL, labels1, List.append_nil, List.nodup_cons]
    refine ⟨?_, hb.1⟩
    intro hmem
    have := hb.2 lo hmem
    omega
  · intro i hi
    simp only [labelsL, labels1, List.append_nil, List.mem_cons] at hi
    rcases hi with rfl | hi
    · omega
    · have := hb.2 i hi; omega

theorem LabOK.prims {lo hi : Nat} {s : List SCmd} (h : labelsL s = []) : LabOK lo hi s := by
  simp [LabOK, h]

theorem setVoltageS_labels (c : TS) (ch : Nat) (v : Rat) :
    labelsL (setVoltageS c ch v).1 = [] ∧ (setVoltageS c ch v).2.labelNum = c.labelNum := by
  simp only [setVoltageS]
  split <;> simp [labelsL, labels1]

theorem setIndexedS_labels {c : TS} {ch : Nat} {b : Rat} {fs : List Rat} {s : List SCmd} {c' : TS}
    (h : setIndexedS c ch b fs = .ok (s, c')) : labelsL s = [] ∧ c'.labelNum = c.labelNum := by
  simp only [setIndexedS] at h
  split at h
  · split at h
    · cases h; simp [labelsL, labels1]
    · cases h
  · split at h
    · cases h
    · cases h
      split <;> simp [labelsL, labels1]

theorem holdChannelsS_labels : ∀ (bs : List Rat) (fs : List (Option (List Rat))) (ch : Nat) (c : TS)
    (s : List SCmd) (c' : TS), holdChannelsS bs fs ch c = .ok (s, c') → labelsL s = [] ∧ c'.labelNum = c.labelNum
  | [], _, _, _, _, _, h => by simp [holdChannelsS] at h; obtain ⟨rfl, rfl⟩ := h; simp [labelsL]
  | _ :: _, [], _, _, _, _, h => by simp [holdChannelsS] at h; obtain ⟨rfl, rfl⟩ := h; simp [labelsL]
  | b :: bs, none :: fs, ch, c, s, c', h => by
    simp only [holdChannelsS] at h
    split at h
    · cases h
    · rename_i s2 c2 h2
      cases h
      have ih := holdChannelsS_labels bs fs (ch + 1) _ _ _ h2
      have h1 := setVoltageS_labels c ch b
      rw [labelsL_append, h1.1, ih.1]
      exact ⟨rfl, by rw [ih.2, h1.2]⟩
  | b :: bs, some facs :: fs, ch, c, s, c', h => by
    simp only [holdChannelsS] at h
    split at h
    · cases h
    · rename_i s1 c1 h1
      split at h
      · cases h
      · rename_i s2 c2 h2
        cases h
        have ih := holdChannelsS_labels bs fs (ch + 1) _ _ _ h2
        have h1' := setIndexedS_labels h1
        rw [labelsL_append, h1'.1, ih.1]
        exact ⟨rfl, by rw [ih.2, h1'.2]⟩

mutual
theorem trS1_labels : (n : Node) → ∀ (c : TS) (s : List SCmd) (c' : TS), trS1 n c = .ok (s, c') →
    c.labelNum ≤ c'.labelNum ∧ LabOK c.labelNum c'.labelNum s
  | .hold bases factors dur, c, s, c', h => by
    simp only [trS1] at h
    split at h
    · cases h
    · rename_i s0 c0 h0
      cases h
      have := holdChannelsS_labels _ _ _ _ _ _ h0
      refine ⟨by omega, LabOK.prims ?_⟩
      rw [labelsL_append, this.1]; simp [labelsL, labels1]
  | .rep body count, c, s, c', h => by
    simp only [trS1] at h
    split at h
    · cases h
    · rename_i s1 c3 h1
      have ih1 := trSL_labels body _ _ _ h1
      simp only at ih1
      split at h
      · cases h
        exact ⟨by omega, LabOK.loop _ ih1.2 ih1.1⟩
      · split at h
        · cases h
        · rename_i s2 c5 h2
          cases h
          have ih2 := trSL_labels body _ _ _ h2
          refine ⟨by omega, ?_⟩
          -- labels: s1 in [lbl+1, c3), loop lbl with s2 in [c3, c5)
          refine ⟨?_, ?_⟩
          · rw [labelsL_append, List.nodup_append]
            refine ⟨ih1.2.1, ?_, ?_⟩
            · simp only [labelsL, labels1, List.append_nil, List.nodup_cons]
              refine ⟨?_, ih2.2.1⟩
              intro hm; have := ih2.2.2 _ hm; omega
            · intro x hx y hy
              simp only [labelsL, labels1, List.append_nil, List.mem_cons] at hy
              have hx' := ih1.2.2 x hx
              rcases hy with rfl | hy
              · omega
              · have := ih2.2.2 y hy; omega
          · intro i hi
            rw [labelsL_append, List.mem_append] at hi
            simp only [labelsL, labels1, List.append_nil, List.mem_cons] at hi
            rcases hi with hi | rfl | hi
            · have := ih1.2.2 i hi; omega
            · omega
            · have := ih2.2.2 i hi; omega
  | .iter body length, c, s, c', h => by
    simp only [trS1] at h
    split at h
    · cases h
    · rename_i s1 c2 h1
      have ih1 := trSL_labels body _ _ _ h1
      simp only at ih1
      split at h
      · split at h
        · cases h
        · rename_i s2 c6 h2
          cases h
          have ih2 := trSL_labels body _ _ _ h2
          simp only at ih2
          dsimp only
          refine ⟨by omega, ?_⟩
          exact LabOK.append ih1.2 (LabOK.loop _ ih2.2 ih2.1) ih1.1 (by omega)
      · cases h
        dsimp only
        exact ⟨ih1.1, ih1.2⟩
theorem trSL_labels : (ns : List Node) → ∀ (c : TS) (s : List SCmd) (c' : TS), trSL ns c = .ok (s, c') →
    c.labelNum ≤ c'.labelNum ∧ LabOK c.labelNum c'.labelNum s
  | [], c, s, c', h => by
    simp only [trSL] at h; cases h
    exact ⟨Nat.le_refl _, LabOK.nil _ _⟩
  | n :: ns, c, s, c', h => by
    simp only [trSL] at h
    split at h
    · cases h
    · rename_i s1 c1 h1
      split at h
      · cases h
      · rename_i s2 c2 h2
        cases h
        have i1 := trS1_labels n _ _ _ h1
        have i2 := trSL_labels ns _ _ _ h2
        exact ⟨by omega, LabOK.append i1.2 i2.2 i1.1 i2.1⟩
end

/-- Running the flattening of a structured command list with distinct labels: the VM terminates and
computes the structured execution. -/
theorem run_flat (s : List SCmd) (hnd : (labelsL s).Nodup) (nch : Nat) :
    ∃ fuel0, ∀ fuel, fuel0 ≤ fuel →
      run fuel nch (flat s) =
        match execL s (VM.init nch) with
        | .error e => .error e
        | .ok vm => .ok (vm.hist, vm.time) := by
  have hnd' : (labelsFlat (flat s)).Nodup := by rw [labelsFlat_flat]; exact hnd
  obtain ⟨tg, htg⟩ := buildTargets_of_nodup (flat s) 0 (fun _ => none) (fun _ _ => rfl) hnd'
  obtain ⟨hok, _⟩ := buildTargets_ok htg
  obtain ⟨k, counts', _, hrun⟩ :=
    simL s (flat s) [] [] tg (by simp) hok hnd' (fun _ => none) (VM.init nch)
  refine ⟨k, ?_⟩
  intro fuel hf
  obtain ⟨n, rfl⟩ : ∃ n, fuel = n + k := ⟨fuel - k, by omega⟩
  simp only [run, htg]
  have := hrun n
  simp only [List.length_nil, Nat.zero_add] at this
  rw [this]
  cases execL s (VM.init nch) with
  | error e => rfl
  | ok vm =>
    simp only
    have hend : runLoop (flat s) tg n (flat s).length counts' vm = .ok vm := by
      cases n with
      | zero => simp [runLoop]
      | succ m => simp [runLoop]
    rw [hend]

end QP.C17.Struct
