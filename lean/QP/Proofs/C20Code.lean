import QP.Proofs.C20Rne
import Mathlib.Tactic.Linarith
import Mathlib.Tactic.FieldSimp
import Mathlib.Tactic.Positivity
import Mathlib.Tactic.Ring
/-! Helper lemmas for C20: `voltage_to_uint16`. -/
namespace QP.C20

theorem two_pow_pos (r : Nat) : (0 : Int) < 2 ^ r := by positivity

theorem levels_nonneg (r : Nat) : 0 ≤ levels r := by
  have := two_pow_pos r; unfold levels; omega

theorem levels_pos {r : Nat} (h : 1 ≤ r) : 1 ≤ levels r := by
  unfold levels
  have : (2 : Int) ^ 1 ≤ 2 ^ r := pow_le_pow_right₀ (by norm_num) h
  omega

theorem levels_le {r : Nat} (h : r ≤ 16) : levels r ≤ 65535 := by
  unfold levels
  have : (2 : Int) ^ r ≤ 2 ^ 16 := pow_le_pow_right₀ (by norm_num) h
  omega

/-- the scaled value `y = (v - off + amp) * scale` -/
def scaled (amp off : Rat) (r : Nat) (v : Rat) : Rat := (v - off + amp) * scale amp r

theorem scale_nonneg {amp : Rat} (ha : 0 < amp) (r : Nat) : 0 ≤ scale amp r := by
  unfold scale
  have : (0 : Rat) ≤ (levels r : Rat) := by exact_mod_cast levels_nonneg r
  positivity

theorem scaled_mono {amp off : Rat} (ha : 0 < amp) (r : Nat) {v w : Rat} (h : v ≤ w) :
    scaled amp off r v ≤ scaled amp off r w := by
  unfold scaled
  exact mul_le_mul_of_nonneg_right (by linarith) (scale_nonneg ha r)

theorem scaled_low {amp off : Rat} (r : Nat) : scaled amp off r (off - amp) = 0 := by
  unfold scaled; ring

theorem scaled_high {amp off : Rat} (ha : 0 < amp) (r : Nat) :
    scaled amp off r (off + amp) = (levels r : Rat) := by
  unfold scaled scale; field_simp; ring

theorem in_range_iff {amp off v : Rat} : outOfRange amp off v = false ↔ off - amp ≤ v ∧ v ≤ off + amp := by
  unfold outOfRange
  rw [decide_eq_false_iff_not, Rat.not_lt, rabs_le_iff]
  constructor <;> intro h <;> constructor <;> linarith [h.1, h.2]

/-- the rounded scaled value of an in-range voltage lies in `[0, 2^r - 1]` -/
theorem rne_scaled_range {amp off : Rat} (ha : 0 < amp) (r : Nat) {v : Rat}
    (h1 : off - amp ≤ v) (h2 : v ≤ off + amp) :
    0 ≤ rne (scaled amp off r v) ∧ rne (scaled amp off r v) ≤ levels r := by
  have l := rne_mono (scaled_mono (off := off) ha r h1)
  have u := rne_mono (scaled_mono (off := off) ha r h2)
  rw [scaled_low, show (0 : Rat) = ((0 : Int) : Rat) by norm_num, rne_intCast] at l
  rw [scaled_high ha, rne_intCast] at u
  exact ⟨l, u⟩

/-- for at most 16 bits the `uint16` cast does not change an in-range code -/
theorem codeOf_eq {amp off : Rat} (ha : 0 < amp) {r : Nat} (hr : r ≤ 16) {v : Rat}
    (h1 : off - amp ≤ v) (h2 : v ≤ off + amp) :
    codeOf amp off r v = rne (scaled amp off r v) := by
  have ⟨l, u⟩ := rne_scaled_range (off := off) ha r h1 h2
  have := levels_le hr
  unfold codeOf toUint16
  show rne (scaled amp off r v) % 65536 = _
  omega

theorem scaled_mul_step {amp off : Rat} (ha : 0 < amp) {r : Nat} (hr : 1 ≤ r) (v : Rat) :
    scaled amp off r v * step amp r = v - off + amp := by
  have hl : (0 : Rat) < (levels r : Rat) := by exact_mod_cast levels_pos hr
  unfold scaled scale step
  field_simp

theorem step_pos {amp : Rat} (ha : 0 < amp) {r : Nat} (hr : 1 ≤ r) : 0 < step amp r := by
  have hl : (0 : Rat) < (levels r : Rat) := by exact_mod_cast levels_pos hr
  unfold step; positivity

theorem half_step {amp off : Rat} (ha : 0 < amp) {r : Nat} (hr : 1 ≤ r) (v : Rat) :
    rabs ((rne (scaled amp off r v) : Rat) * step amp r - (v - off + amp)) ≤ step amp r / 2 := by
  have hs := step_pos ha hr
  have e := scaled_mul_step (off := off) ha hr v
  have lo := rne_lower (scaled amp off r v)
  have hi := rne_upper (scaled amp off r v)
  rw [rabs_le_iff]
  constructor
  · nlinarith
  · nlinarith

theorem numbaLoop_fst (amp off : Rat) (r : Nat) (vs : List Rat) :
    (numbaLoop amp off r vs).1 = vs.any (outOfRange amp off) := by
  induction vs with
  | nil => rfl
  | cons v vs ih => simp [numbaLoop, ih]

theorem numbaLoop_snd (amp off : Rat) (r : Nat) (vs : List Rat) :
    (numbaLoop amp off r vs).2 = vs.map (codeOf amp off r) := by
  induction vs with
  | nil => rfl
  | cons v vs ih => simp [numbaLoop, ih]

end QP.C20

namespace QP.C20

theorem mem_zip_map {α β} (f : α → β) : ∀ {l : List α} {p : α × β}, p ∈ l.zip (l.map f) →
    p.1 ∈ l ∧ p.2 = f p.1
  | [], _, h => by simp at h
  | a :: as, p, h => by
    simp only [List.map_cons, List.zip_cons_cons, List.mem_cons] at h
    rcases h with rfl | h
    · exact ⟨List.mem_cons_self, rfl⟩
    · have := mem_zip_map f h
      exact ⟨List.mem_cons_of_mem _ this.1, this.2⟩

end QP.C20
