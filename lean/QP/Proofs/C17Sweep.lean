import QP.Proofs.C17Det
/-! The class predicate's state sweep follows the translator's state; its flag is monotone. -/
namespace QP.C17.Frag
open QP.C17 QP.C17.VMS QP.C17.Struct

structure SimS (σ : Sweep) (c : TS) : Prop where
  its : σ.iterations = c.iterations
  act : ∀ ch, σ.activeDep ch = c.activeDep ch
  dep : ∀ ch κ, σ.depStates ch κ = c.depStates ch κ
  pl : ∀ ch, σ.plainVoltage ch = c.plainVoltage ch

theorem setIndexedS_state {c : TS} {ch : Nat} {b : Rat} {fs : List Rat} {s : List SCmd} {c' : TS}
    (h : setIndexedS c ch b fs = .ok (s, c')) :
    c' = { c with activeDep := upd c.activeDep ch (depKey c.resolution fs),
                  depStates := upd2 c.depStates ch (depKey c.resolution fs) ⟨b, c.iterations⟩ } := by
  simp only [setIndexedS] at h
  split at h
  · split at h
    · cases h; rfl
    · cases h
  · split at h
    · cases h
    · cases h; rfl

theorem sim_hold (res : Rat) : ∀ (bs : List Rat) (fs : List (Option (List Rat))) (ch : Nat) (c : TS) (σ : Sweep)
    (s : List SCmd) (c' : TS), c.resolution = res → holdChannelsS bs fs ch c = .ok (s, c') → SimS σ c →
    SimS (sweepHold res bs fs ch σ) c'
  | [], _, _, _, _, _, _, _, h, hs => by simp only [holdChannelsS] at h; cases h; simpa [sweepHold] using hs
  | _ :: _, [], _, _, _, _, _, _, h, hs => by simp only [holdChannelsS] at h; cases h; simpa [sweepHold] using hs
  | b :: bs, none :: fs, ch, c, σ, s, c', hr, h, hs => by
    simp only [holdChannelsS] at h
    split at h
    · cases h
    · rename_i s2 c2 h2
      cases h
      simp only [sweepHold]
      refine sim_hold res bs fs (ch + 1) _ _ _ _ (by rw [(det_setVoltageS c ch b).res]; exact hr) h2 ?_
      have d := det_setVoltageS c ch b
      refine ⟨by rw [d.its]; exact hs.its, ?_, ?_, ?_⟩
      · intro x
        rw [d.act]
        simp only [upd]
        by_cases hx : x = ch
        · simp [hx]
        · simp [hx, hs.act]
      · intro x κ; rw [d.dep]; simpa using hs.dep x κ
      · intro x
        rw [d.pl]
        simp only [upd]
        by_cases hx : x = ch
        · simp [hx]
        · simp [hx, hs.pl]
  | b :: bs, some facs :: fs, ch, c, σ, s, c', hr, h, hs => by
    simp only [holdChannelsS] at h
    split at h
    · cases h
    · rename_i s1 c1 h1
      split at h
      · cases h
      · rename_i s2 c2 h2
        cases h
        have hc1 := setIndexedS_state h1
        simp only [sweepHold]
        refine sim_hold res bs fs (ch + 1) c1 _ _ _ (by rw [hc1]; exact hr) h2 ?_
        rw [hc1, hr]
        refine ⟨hs.its, ?_, ?_, hs.pl⟩
        · intro x; simp only [upd]; split <;> simp [hs.act]
        · intro x κ; simp only [upd2]; split <;> simp [hs.dep, hs.its]

theorem lookup_congr (res : Rat) (σ : Sweep) (c : TS) (hs : SimS σ c) (hr : c.resolution = res)
    (ds : List (Nat × List Rat)) :
    ds.map (fun p => σ.depStates p.1 (depKey res p.2)) = depLookupS c ds := by
  simp only [depLookupS, hr]
  apply List.map_congr_left
  intro p _
  exact hs.dep _ _

mutual
theorem sim1 (res : Rat) (nch : Nat) : (n : Node) → ∀ (c : TS) (σ : Sweep) (s : List SCmd) (c' : TS),
    c.resolution = res → trS1 n c = .ok (s, c') → SimS σ c → SimS (sweep res nch n σ) c'
  | .hold bases factors dur, c, σ, s, c', hr, h, hs => by
    simp only [trS1] at h
    split at h
    · cases h
    · rename_i s0 c0 h0
      cases h
      simp only [sweep]
      exact sim_hold res bases factors 0 c σ _ _ hr h0 hs
  | .rep body count, c, σ, s, c', hr, h, hs => by
    simp only [trS1] at h
    split at h
    · cases h
    · rename_i s1 c3 h1
      have hs1 : SimS (sweepList res nch body σ) c3 :=
        simL res nch body _ σ _ _ (by exact hr) h1 ⟨hs.its, hs.act, hs.dep, hs.pl⟩
      have hr3 : c3.resolution = res := by rw [(detL res body _ _ _ (by exact hr) h1).res]; exact hr
      simp only [sweep]
      rw [lookup_congr res σ c hs hr, lookup_congr res _ c3 hs1 hr3]
      split at h
      · rename_i hsame
        cases h
        simp only [hsame, Bool.not_true, Bool.false_eq_true, if_false]
        exact ⟨hs1.its, hs1.act, hs1.dep, hs1.pl⟩
      · rename_i hsame
        split at h
        · cases h
        · rename_i s2 c5 h2
          cases h
          have hf : sameSet (depLookupS c (depsList body)) (depLookupS c3 (depsList body)) = false := by
            simpa using hsame
          simp only [hf, Bool.not_false, if_true]
          exact simL res nch body c3 _ _ _ hr3 h2 ⟨hs1.its, hs1.act, hs1.dep, hs1.pl⟩
  | .iter body length, c, σ, s, c', hr, h, hs => by
    simp only [trS1] at h
    split at h
    · cases h
    · rename_i s1 c2 h1
      have hs1 : SimS (sweepList res nch body { σ with iterations := σ.iterations ++ [0] }) c2 :=
        simL res nch body _ _ _ _ (by exact hr) h1 ⟨by show σ.iterations ++ [0] = c.iterations ++ [0]; rw [hs.its],
          hs.act, hs.dep, hs.pl⟩
      have hr2 : c2.resolution = res := by rw [(detL res body _ _ _ (by exact hr) h1).res]; exact hr
      simp only [sweep]
      by_cases hl : length > 1
      · simp only [hl, if_true] at h ⊢
        split at h
        · cases h
        · rename_i s2 c6 h2
          cases h
          have hs2 := simL res nch body _
            { sweepList res nch body { σ with iterations := σ.iterations ++ [0] } with
              iterations := (sweepList res nch body { σ with iterations := σ.iterations ++ [0] }).iterations.dropLast ++ [length - 1] }
            _ _ (by exact hr2) h2
            ⟨by show _ ++ [length - 1] = c2.iterations.dropLast ++ [length - 1]; rw [hs1.its], hs1.act, hs1.dep, hs1.pl⟩
          exact ⟨by show _ = c6.iterations.dropLast; rw [← hs2.its], hs2.act, hs2.dep, hs2.pl⟩
      · simp only [hl, if_false] at h ⊢
        cases h
        exact ⟨by show _ = c2.iterations.dropLast; rw [← hs1.its], hs1.act, hs1.dep, hs1.pl⟩
theorem simL (res : Rat) (nch : Nat) : (ns : List Node) → ∀ (c : TS) (σ : Sweep) (s : List SCmd) (c' : TS),
    c.resolution = res → trSL ns c = .ok (s, c') → SimS σ c → SimS (sweepList res nch ns σ) c'
  | [], c, σ, s, c', _, h, hs => by simp only [trSL] at h; cases h; simpa [sweepList] using hs
  | n :: ns, c, σ, s, c', hr, h, hs => by
    simp only [trSL] at h
    split at h
    · cases h
    · rename_i s1 c1 h1
      split at h
      · cases h
      · rename_i s2 c2 h2
        cases h
        simp only [sweepList]
        have hr1 : c1.resolution = res := by rw [(det1 res n _ _ _ hr h1).res]; exact hr
        exact simL res nch ns c1 _ _ _ hr1 h2 (sim1 res nch n c σ _ _ hr h1 hs)
end

theorem sweepHold_flag' (res : Rat) : ∀ (bs : List Rat) (fs : List (Option (List Rat))) (ch : Nat) (s : Sweep),
    (sweepHold res bs fs ch s).flagged = s.flagged
  | [], _, _, _ => by simp [sweepHold]
  | _ :: _, [], _, _ => by simp [sweepHold]
  | _ :: bs, none :: fs, ch, s => by simp only [sweepHold]; rw [sweepHold_flag' res bs fs]
  | _ :: bs, some _ :: fs, ch, s => by simp only [sweepHold]; rw [sweepHold_flag' res bs fs]

mutual
/-- once flagged, always flagged -/
theorem flag_mono1 (res : Rat) (nch : Nat) : (n : Node) → ∀ (σ : Sweep), σ.flagged = true →
    (sweep res nch n σ).flagged = true
  | .hold bases factors _, σ, h => by simp only [sweep]; rw [sweepHold_flag']; exact h
  | .rep body count, σ, h => by
    simp only [sweep]
    have h1 := flag_monoL res nch body σ h
    split
    · exact flag_monoL res nch body _ (by simp [h1])
    · simp [h1]
  | .iter body length, σ, h => by
    simp only [sweep]
    have h1 := flag_monoL res nch body { σ with iterations := σ.iterations ++ [0] } h
    split
    · simp only
      exact flag_monoL res nch body _ h1
    · exact h1
theorem flag_monoL (res : Rat) (nch : Nat) : (ns : List Node) → ∀ (σ : Sweep), σ.flagged = true →
    (sweepList res nch ns σ).flagged = true
  | [], _, h => h
  | n :: ns, σ, h => by
    simp only [sweepList]
    exact flag_monoL res nch ns _ (flag_mono1 res nch n σ h)
end

theorem flag_false_of_list {res : Rat} {nch : Nat} {ns : List Node} {σ : Sweep}
    (h : (sweepList res nch ns σ).flagged = false) : σ.flagged = false := by
  cases hf : σ.flagged with
  | false => rfl
  | true => rw [flag_monoL res nch ns σ hf] at h; cases h

theorem flag_false_of_node {res : Rat} {nch : Nat} {n : Node} {σ : Sweep}
    (h : (sweep res nch n σ).flagged = false) : σ.flagged = false := by
  cases hf : σ.flagged with
  | false => rfl
  | true => rw [flag_mono1 res nch n σ hf] at h; cases h

end QP.C17.Frag
