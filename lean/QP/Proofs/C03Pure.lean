import QP.Proofs.C03Scope
/-!
# C03 helper lemmas, part 3: the scope independent helper functions never fail with a scope / constraint error
-/
namespace QP.C03
open QP QP.PT

theorem notSc_valueError : ¬ Sc .valueError := by simp [Sc]
theorem notSc_keyError : ¬ Sc .keyError := by simp [Sc]
theorem notSc_assertion : ¬ Sc .assertion := by simp [Sc]
theorem notSc_attributeError : ¬ Sc .attributeError := by simp [Sc]
theorem notSc_notInteger : ¬ Sc .notInteger := by simp [Sc]
theorem notSc_zeroDivision : ¬ Sc .zeroDivision := by simp [Sc]
theorem notSc_unsupported : ¬ Sc .unsupported := by simp [Sc]

theorem chanLookup_clean (cm : List (Chan × Option Chan)) (c : Chan) : Clean (chanLookup cm c) := by
  unfold chanLookup
  split
  · exact avoid_error notSc_keyError
  · exact avoid_ok _

theorem mkMulti_clean (subs : List Wf) : Clean (mkMulti subs) := by
  unfold mkMulti
  split
  · exact avoid_error notSc_valueError
  · split
    · exact avoid_error notSc_valueError
    · split
      · exact avoid_ok _
      · exact avoid_error notSc_valueError

theorem fromParallel_clean (ws : List Wf) : Clean (fromParallel ws) := by
  unfold fromParallel
  split
  · exact avoid_error notSc_assertion
  · exact avoid_ok _
  · exact mkMulti_clean _

theorem constFromMapping_clean (d : Rat) (cvs : List (Chan × Rat)) : Clean (constFromMapping d cvs) := by
  unfold constFromMapping
  split
  · exact avoid_error notSc_assertion
  · exact avoid_ok _
  · exact mkMulti_clean _

theorem fromTransformation_clean (w : Wf) (T : Chain) : Clean (fromTransformation w T) := by
  unfold fromTransformation
  split
  · split
    · exact constFromMapping_clean _ _
    · exact avoid_ok _
  · exact avoid_ok _

theorem fromOperator_clean (l : Wf) (minus : Bool) (r : Wf) : Clean (fromOperator l minus r) := by
  unfold fromOperator
  split
  · split
    · exact avoid_error notSc_assertion
    · exact constFromMapping_clean _ _
  · split
    · exact avoid_error notSc_assertion
    · exact avoid_ok _

theorem negWf_clean (w : Wf) : Clean (negWf w) := by
  unfold negWf
  split
  · exact constFromMapping_clean _ _
  · exact avoid_ok _

theorem fromSequence_clean (ws : List Wf) : Clean (fromSequence ws) := by
  unfold fromSequence
  split
  · exact avoid_error notSc_assertion
  · exact avoid_ok _
  · simp only
    split
    · split
      · exact avoid_ok _
      · exact constFromMapping_clean _ _
    · split
      · exact avoid_ok _
      · exact avoid_error notSc_valueError

theorem fromRepetitionCount_clean (body : Wf) (n : Nat) : Clean (fromRepetitionCount body n) := by
  unfold fromRepetitionCount
  split
  · exact constFromMapping_clean _ _
  · split
    · exact avoid_error notSc_valueError
    · exact avoid_ok _

theorem validateLoop_clean : ∀ (l : List WEntry) (pt pv : Rat) (cur : WEntry) (cv : Option Rat) (out : List WEntry),
    Clean (validateLoop l pt pv cur cv out)
  | [], _, _, _, _, _ => by unfold validateLoop; exact avoid_ok _
  | nx :: rest, pt, pv, cur, cv, out => by
      unfold validateLoop
      split
      · exact avoid_error notSc_valueError
      · simp only
        split
        · exact validateLoop_clean _ _ _ _ _ _
        · exact validateLoop_clean _ _ _ _ _ _

theorem fromTable_clean (ch : Chan) (es : List WEntry) : Clean (fromTable ch es) := by
  unfold fromTable
  split
  · exact avoid_error notSc_valueError
  · split
    · exact avoid_error notSc_valueError
    · split
      · exact avoid_error notSc_valueError
      · split
        · exact avoid_error notSc_valueError
        · split
          · rename_i e he
            refine avoid_iff.mpr (fun e' h' => ?_)
            cases h'
            exact avoid_iff.mp (validateLoop_clean _ _ _ _ _ _) e he
          · split
            · exact avoid_error notSc_valueError
            · split
              · exact avoid_ok _
              · exact avoid_ok _

mutual
theorem toWaveform_clean : ∀ (l : Loop), Clean l.toWaveform
  | .mk rep wf meas cs => by
      unfold Loop.toWaveform
      split
      · split
        · exact avoid_error notSc_attributeError
        · split
          · exact avoid_ok _
          · exact fromRepetitionCount_clean _ _
      · rename_i c
        refine avoid_bind (toWaveform_clean c) (fun s _ => ?_)
        split
        · exact fromRepetitionCount_clean _ _
        · exact avoid_pure _
      · rename_i c cs' _
        refine avoid_bind (toWaveformList_clean (c :: cs')) (fun ws _ => ?_)
        refine avoid_bind (fromSequence_clean _) (fun s _ => ?_)
        split
        · exact fromRepetitionCount_clean _ _
        · exact avoid_pure _
theorem toWaveformList_clean : ∀ (ls : List Loop), Clean (Loop.toWaveformList ls)
  | [] => by unfold Loop.toWaveformList; exact avoid_ok _
  | c :: cs => by
      unfold Loop.toWaveformList
      exact avoid_bind (toWaveform_clean c) (fun _ _ => avoid_bind (toWaveformList_clean cs) (fun _ _ => avoid_pure _))
end

theorem updatedMm_clean (inner : List (MName × MName)) (outer : List (MName × Option MName)) :
    Clean (updatedMm inner outer) := by
  unfold updatedMm
  apply avoid_mapM
  intro a _
  obtain ⟨k, v⟩ := a
  simp only
  split
  · exact avoid_error notSc_keyError
  · exact avoid_pure _

theorem updatedCm_clean (inner : List (Chan × Option Chan)) (outer : List (Chan × Option Chan)) :
    Clean (updatedCm inner outer) := by
  unfold updatedCm
  apply avoid_mapM
  intro a _
  obtain ⟨k, v⟩ := a
  simp only
  split
  · exact avoid_pure _
  · exact avoid_bind (chanLookup_clean _ _) (fun _ _ => avoid_pure _)

theorem avoid_intOrErr {E : Err → Prop} {e : Err} (x : Rat) (h : ¬ E e) : Avoid E (intOrErr x e) := by
  unfold intOrErr
  split
  · exact avoid_ok _
  · exact avoid_error h

/-- structural decomposition of an `Avoid E (do …)` goal: binds, matches, pure results, literal errors outside the
scope classes and the scope independent helpers are discharged; what remains are the scope reading steps.
Expects `SubSc E` among the hypotheses. -/
macro "avoid_auto" : tactic => `(tactic| repeat' (first
  | exact avoid_pure _
  | exact avoid_ok _
  | assumption
  | (refine avoid_error (subSc_not ‹SubSc _› ?_); simp [Sc]; done)
  | (refine avoid_intOrErr _ (subSc_not ‹SubSc _› ?_); simp [Sc]; done)
  | exact clean_avoid ‹SubSc _› (chanLookup_clean _ _)
  | exact clean_avoid ‹SubSc _› (constFromMapping_clean _ _)
  | exact clean_avoid ‹SubSc _› (fromParallel_clean _)
  | exact clean_avoid ‹SubSc _› (fromTransformation_clean _ _)
  | exact clean_avoid ‹SubSc _› (fromOperator_clean _ _ _)
  | exact clean_avoid ‹SubSc _› (negWf_clean _)
  | exact clean_avoid ‹SubSc _› (fromTable_clean _ _)
  | exact clean_avoid ‹SubSc _› (updatedMm_clean _ _)
  | exact clean_avoid ‹SubSc _› (updatedCm_clean _ _)
  | exact clean_avoid ‹SubSc _› (toWaveform_clean _)
  | apply avoid_bind
  | (intro _ _)
  | split
  | (apply avoid_filterMapM; intro _ _)
  | (apply avoid_mapM; intro _ _)
  | (apply avoid_flatMapM; intro _ _)
  | (apply avoid_map)
  | dsimp only))

/-- structural decomposition of a goal `F σ = F σ'` whose sides differ only in the scope -/
macro "congr_auto" : tactic => `(tactic| repeat' (first
  | (with_reducible rfl)
  | assumption
  | apply bind_congr'
  | (intro _ _)
  | split
  | (apply filterMapM_congr'; intro _ _)
  | (apply mapM_congr'; intro _ _)
  | (apply flatMapM_congr'; intro _ _)
  | (apply congrArg)
  | dsimp only))

end QP.C03
