import QP.Model.C15
/-! Helper lemmas for C15. -/
namespace QP.C15

/-! ### expressions -/

theorem Expr.eval_congr (e : Expr) (env1 env2 : Name → Option Int)
    (h : ∀ x, x ∈ e.vars → env1 x = env2 x) : e.eval env1 = e.eval env2 := by
  induction e with
  | lit v => rfl
  | var x => simp [Expr.eval]; exact h x (by simp [Expr.vars])
  | add a b iha ihb =>
    simp only [Expr.eval]
    rw [iha (fun x hx => h x (by simp [Expr.vars, hx])), ihb (fun x hx => h x (by simp [Expr.vars, hx]))]
  | sub a b iha ihb =>
    simp only [Expr.eval]
    rw [iha (fun x hx => h x (by simp [Expr.vars, hx])), ihb (fun x hx => h x (by simp [Expr.vars, hx]))]
  | mul a b iha ihb =>
    simp only [Expr.eval]
    rw [iha (fun x hx => h x (by simp [Expr.vars, hx])), ihb (fun x hx => h x (by simp [Expr.vars, hx]))]
  | pow a k iha =>
    simp only [Expr.eval]
    rw [iha (fun x hx => h x (by simp [Expr.vars, hx]))]
  | max0 a iha =>
    simp only [Expr.eval]
    rw [iha (fun x hx => h x (by simp [Expr.vars, hx]))]

/-- evaluation only fails through a missing variable -/
theorem Expr.eval_isSome (e : Expr) (env : Name → Option Int) :
    (e.eval env).isSome = e.vars.all (fun x => (env x).isSome) := by
  induction e with
  | lit v => rfl
  | var x => simp [Expr.eval, Expr.vars]
  | add a b iha ihb =>
    simp only [Expr.eval, Expr.vars, List.all_append, ← iha, ← ihb]
    cases a.eval env <;> cases b.eval env <;> rfl
  | sub a b iha ihb =>
    simp only [Expr.eval, Expr.vars, List.all_append, ← iha, ← ihb]
    cases a.eval env <;> cases b.eval env <;> rfl
  | mul a b iha ihb =>
    simp only [Expr.eval, Expr.vars, List.all_append, ← iha, ← ihb]
    cases a.eval env <;> cases b.eval env <;> rfl
  | pow a k iha =>
    simp only [Expr.eval, Expr.vars, ← iha]
    cases a.eval env <;> rfl
  | max0 a iha =>
    simp only [Expr.eval, Expr.vars, ← iha]
    cases a.eval env <;> rfl

/-! ### scopes -/

theorem pn_ne_cn : pn ≠ cn := by decide

/-- only volatile constants are given new values -/
def NewOK (new : Assign) : Scope → Prop
  | .dict vals vol => ∀ k, (new.lookup k).isSome → (vals.lookup k).isSome → vol.contains k = true
  | .mapped inner _ => NewOK new inner
  | .range inner _ _ => NewOK new inner
  | .joint ps cs => NewOK new ps ∧ NewOK new cs

theorem lookup_map_override (new : Assign) (vals : List (Name × Int)) (x : Name) :
    (vals.map (override new)).lookup x =
      (vals.lookup x).map (fun v => match new.lookup x with | some w => w | none => v) := by
  induction vals with
  | nil => rfl
  | cons kv t ih =>
    obtain ⟨k, v⟩ := kv
    simp only [List.map_cons, override, List.lookup_cons]
    by_cases hx : x == k
    · have : x = k := by simpa using hx
      subst this
      simp
      cases new.lookup x <;> rfl
    · simp [hx, ih]

theorem override_eq_self (new : Assign) (kv : Name × Int) (h : new.lookup kv.1 = none) :
    override new kv = kv := by
  simp [override, h]

/-- `change_constants` of a `DictScope`: the `return self` shortcut is not observable -/
theorem change_dict (new : Assign) (vals : List (Name × Int)) (vol : List Name) :
    (Scope.dict vals vol).change new = .dict (vals.map (override new)) vol := by
  simp only [Scope.change]
  split
  · rfl
  · rename_i h
    congr 1
    have h' : ∀ kv, kv ∈ vals → new.lookup kv.1 = none := by
      intro kv hkv
      cases hl : new.lookup kv.1 with
      | none => rfl
      | some w => exact absurd (List.any_eq_true.mpr ⟨kv, hkv, by simp [hl]⟩) h
    clear h
    induction vals with
    | nil => rfl
    | cons kv t ih =>
      simp only [List.map_cons]
      rw [override_eq_self new kv (h' kv (by simp)), ← ih (fun kv hkv => h' kv (by simp [hkv]))]

/-- volatility marks survive an update -/
theorem isVol_change (new : Assign) (s : Scope) (x : Name) : (s.change new).isVol x = s.isVol x := by
  induction s generalizing x with
  | dict vals vol => rw [change_dict]; rfl
  | mapped inner m ih =>
    simp only [Scope.change, Scope.isVol]
    cases m.lookup x with
    | none => exact ih x
    | some e => simp [ih]
  | range inner i v ih => simp [Scope.change, Scope.isVol, ih]
  | joint ps cs ihp ihc => simp [Scope.change, Scope.isVol, ihp, ihc]

theorem roots_change (new : Assign) (s : Scope) (x : Name) : (s.change new).roots x = s.roots x := by
  induction s generalizing x with
  | dict vals vol => rw [change_dict]; rfl
  | mapped inner m ih =>
    simp only [Scope.change, Scope.roots]
    cases m.lookup x with
    | none => exact ih x
    | some e => simp [ih]
  | range inner i v ih => simp [Scope.change, Scope.roots, ih]
  | joint ps cs ihp ihc => simp [Scope.change, Scope.roots, ihp, ihc]

/-- an update never makes a parameter appear or disappear -/
theorem get_change_isSome (new : Assign) (s : Scope) (x : Name) :
    ((s.change new).get x).isSome = (s.get x).isSome := by
  induction s generalizing x with
  | dict vals vol =>
    rw [change_dict]
    simp only [Scope.get, lookup_map_override]
    cases vals.lookup x <;> rfl
  | mapped inner m ih =>
    simp only [Scope.change, Scope.get]
    cases m.lookup x with
    | none => exact ih x
    | some e => simp only [Expr.eval_isSome, ih]
  | range inner i v ih =>
    simp only [Scope.change, Scope.get]
    split
    · rfl
    · exact ih x
  | joint ps cs ihp ihc =>
    simp only [Scope.change, Scope.get]
    split
    · exact ihp _
    · split
      · exact ihc _
      · rfl

/-- a name that is not volatile keeps its value under an update of volatile constants -/
theorem get_change_of_not_isVol (new : Assign) (s : Scope) (x : Name)
    (hok : NewOK new s) (hx : s.isVol x = false) : (s.change new).get x = s.get x := by
  induction s generalizing x with
  | dict vals vol =>
    rw [change_dict]
    simp only [Scope.get, lookup_map_override]
    cases hv : vals.lookup x with
    | none => rfl
    | some v =>
      cases hn : new.lookup x with
      | none => rfl
      | some w =>
        have := hok x (by simp [hn]) (by simp [hv])
        simp [Scope.isVol] at hx
        simp [hx] at this
  | mapped inner m ih =>
    simp only [Scope.change, Scope.get]
    simp only [Scope.isVol] at hx
    cases hm : m.lookup x with
    | none =>
      simp only [hm] at hx
      exact ih x hok hx
    | some e =>
      simp only [hm] at hx
      apply Expr.eval_congr
      intro y hy
      exact ih y hok (by
        have := List.any_eq_false.mp hx y hy
        simpa using this)
  | range inner i v ih =>
    simp only [Scope.change, Scope.get]
    simp only [Scope.isVol] at hx
    split
    · rfl
    · rename_i hne
      have : (x != i) = true := by simpa using hne
      simp [this] at hx
      exact ih x hok hx
  | joint ps cs ihp ihc =>
    simp only [Scope.change, Scope.get]
    simp only [Scope.isVol] at hx
    split
    · rename_i h
      subst h
      simp at hx
      exact ihp _ hok.1 hx.1
    · split
      · rename_i h1 h2
        subst h2
        simp at hx
        exact ihc _ hok.2 hx.2
      · rfl

theorem NewOK_change (new new' : Assign) (s : Scope) (h : NewOK new' s) : NewOK new' (s.change new) := by
  induction s with
  | dict vals vol =>
    rw [change_dict]
    intro k hk hv
    apply h k hk
    simp only [lookup_map_override] at hv
    cases hl : vals.lookup k with
    | none => simp [hl] at hv
    | some v => rfl
  | mapped inner m ih => exact ih h
  | range inner i v ih => exact ih h
  | joint ps cs ihp ihc => exact ⟨ihp h.1, ihc h.2⟩

/-! ### forests -/

theorem append_def (a b : Forest) : a ++ b = a.append b := rfl

theorem update_append (new : Assign) (a b : Forest) :
    (a ++ b).update new = a.update new ++ b.update new := by
  simp only [append_def]
  induction a with
  | nil => rfl
  | leaf rd wf rest ih => simp [Forest.append, Forest.update, ih]
  | node rd body rest _ ih => simp [Forest.append, Forest.update, ih]

theorem isNil_update (new : Assign) (f : Forest) : (f.update new).isNil = f.isNil := by
  cases f <;> rfl

theorem markRd_update (new : Assign) (e : Expr) (s : Scope) (n : Nat)
    (h : e.vars.any s.isVol = true) :
    markRd e (s.change new) n = (markRd e s n).update new := by
  have h' : e.vars.any (s.change new).isVol = true := by
    have : (s.change new).isVol = s.isVol := funext (isVol_change new s)
    rw [this]; exact h
  simp [markRd, h, h', RepDef.update]

theorem markRd_const (new : Assign) (e : Expr) (s : Scope) (n : Nat)
    (h : e.vars.any s.isVol = false) :
    markRd e (s.change new) n = (markRd e s n).update new := by
  have h' : e.vars.any (s.change new).isVol = false := by
    have : (s.change new).isVol = s.isVol := funext (isVol_change new s)
    rw [this]; exact h
  simp [markRd, h, h', RepDef.update]

/-- an expression without volatile variables keeps its value -/
theorem eval_change_of_not_vol (new : Assign) (s : Scope) (e : Expr) (hok : NewOK new s)
    (h : e.vars.any s.isVol = false) : e.eval (s.change new).get = e.eval s.get := by
  apply Expr.eval_congr
  intro y hy
  apply get_change_of_not_isVol new s y hok
  have := List.any_eq_false.mp h y hy
  simpa using this

theorem eval_change_isSome (new : Assign) (s : Scope) (e : Expr) :
    (e.eval (s.change new).get).isSome = (e.eval s.get).isSome := by
  simp only [Expr.eval_isSome, get_change_isSome]

theorem concatE_change (new : Assign) (vals : List Int) (f f' : Int → Except Err Forest) (F : Forest)
    (h : concatE vals f = .ok F)
    (hf : ∀ v, v ∈ vals → ∀ G, f v = .ok G → f' v = .ok (G.update new)) :
    concatE vals f' = .ok (F.update new) := by
  induction vals generalizing F with
  | nil =>
    simp only [concatE] at h ⊢
    cases h; rfl
  | cons v rest ih =>
    simp only [concatE] at h ⊢
    cases hv : f v with
    | error e => simp [hv] at h
    | ok x =>
      simp only [hv] at h
      cases hr : concatE rest f with
      | error e => simp [hr] at h
      | ok y =>
        simp only [hr] at h
        cases h
        rw [hf v (by simp) x hv, ih y hr (fun w hw => hf w (by simp [hw]))]
        simp [update_append]

/-! ### compilation commutes with `change_constants` -/

theorem isVol_change_fun (new : Assign) (s : Scope) : (s.change new).isVol = s.isVol :=
  funext (isVol_change new s)

theorem evalRange_change (new : Assign) (s : Scope) (lo hi st : Expr) (hok : NewOK new s)
    (h : (lo.vars ++ hi.vars ++ st.vars).any s.isVol = false) :
    evalRange (s.change new) lo hi st = evalRange s lo hi st := by
  simp only [List.any_append, Bool.or_eq_false_iff] at h
  simp only [evalRange, eval_change_of_not_vol new s lo hok h.1.1, eval_change_of_not_vol new s hi hok h.1.2,
    eval_change_of_not_vol new s st hok h.2]

theorem compile_change (new : Assign) (pt : PT) : ∀ (s : Scope) (F : Forest),
    compile pt s = .ok F → NewOK new s → pt.inside s = true → pt.inside (s.change new) = true →
    compile pt (s.change new) = .ok (F.update new) := by
  induction pt with
  | atom wf ps =>
    intro s F h hok _ _
    simp only [compile, isVol_change_fun] at h ⊢
    split at h
    · cases h
    · rename_i hnv
      rw [if_neg hnv]
      split at h
      · rename_i hall
        cases h
        have : (ps.all fun p => ((s.change new).get p).isSome) = true := by
          simp only [get_change_isSome]; exact hall
        simp [this, Forest.update, RepDef.update]
      · cases h
  | rep e body ih =>
    intro s F h hok hin hin'
    simp only [compile] at h
    cases hev : e.eval s.get with
    | none => simp [hev] at h
    | some v =>
      simp only [hev] at h
      simp only [PT.inside, hev] at hin
      have hsome : (e.eval (s.change new).get).isSome = true := by
        rw [eval_change_isSome, hev]; rfl
      obtain ⟨v', hev'⟩ := Option.isSome_iff_exists.mp hsome
      simp only [PT.inside, hev', isVol_change_fun] at hin'
      simp only [compile, hev']
      cases hvol : e.vars.any s.isVol with
      | true =>
        simp only [hvol, if_true, Bool.and_eq_true, decide_eq_true_eq] at hin hin'
        have hv : ¬ v ≤ 0 := by omega
        have hv' : ¬ v' ≤ 0 := by omega
        rw [if_neg hv] at h
        rw [if_neg hv']
        cases hb : compile body s with
        | error err => simp [hb] at h
        | ok b =>
          simp only [hb] at h
          rw [ih s b hb hok hin.2 hin'.2]
          simp only [isNil_update]
          split at h
          · rename_i hnil
            cases h
            simp [hnil, Forest.update]
          · rename_i hnil
            cases h
            simp only [hnil, Forest.update]
            simp [markRd, hvol, isVol_change_fun, RepDef.update]
      | false =>
        simp only [hvol, Bool.false_eq_true, if_false, Bool.or_eq_true, decide_eq_true_eq] at hin hin'
        have hvv : v' = v := by
          have := eval_change_of_not_vol new s e hok hvol
          rw [hev, hev'] at this
          exact Option.some.inj this
        subst hvv
        by_cases hv : v' ≤ 0
        · rw [if_pos hv] at h
          rw [if_pos hv]
          cases h; rfl
        · rw [if_neg hv] at h
          rw [if_neg hv]
          have hi : body.inside s = true := by
            cases hin with
            | inl h0 => exact absurd h0 hv
            | inr h1 => exact h1
          have hi' : body.inside (s.change new) = true := by
            cases hin' with
            | inl h0 => exact absurd h0 hv
            | inr h1 => exact h1
          cases hb : compile body s with
          | error err => simp [hb] at h
          | ok b =>
            simp only [hb] at h
            rw [ih s b hb hok hi hi']
            simp only [isNil_update]
            split at h
            · rename_i hnil
              cases h
              simp [hnil, Forest.update]
            · rename_i hnil
              cases h
              simp only [hnil, Forest.update]
              rw [markRd_const new e s v'.toNat hvol]
              simp
  | seq a b iha ihb =>
    intro s F h hok hin hin'
    simp only [compile] at h ⊢
    simp only [PT.inside, Bool.and_eq_true] at hin hin'
    cases ha : compile a s with
    | error err => simp [ha] at h
    | ok x =>
      simp only [ha] at h
      cases hb : compile b s with
      | error err => simp [hb] at h
      | ok y =>
        simp only [hb] at h
        cases h
        rw [iha s x ha hok hin.1 hin'.1, ihb s y hb hok hin.2 hin'.2]
        simp [update_append]
  | map m body ih =>
    intro s F h hok hin hin'
    simp only [compile] at h ⊢
    simp only [PT.inside] at hin hin'
    exact ih (.mapped s m) F h hok hin hin'
  | forL i lo hi st body ih =>
    intro s F h hok hin hin'
    simp only [compile] at h ⊢
    simp only [PT.inside, Bool.and_eq_true, Bool.not_eq_true', isVol_change_fun] at hin hin'
    rw [evalRange_change new s lo hi st hok hin.1] at hin' ⊢
    cases hr : evalRange s lo hi st with
    | error err => simp [hr] at h
    | ok vals =>
      simp only [hr] at h hin hin' ⊢
      apply concatE_change new vals _ _ F h
      intro v hv G hG
      have h1 := List.all_eq_true.mp hin.2 v hv
      have h2 := List.all_eq_true.mp hin'.2 v hv
      exact ih (.range s i v) G hG hok h1 h2

/-! ### the merge product and `cleanup` -/

theorem prod_update (new : Assign) (p c : RepDef) :
    (p.prod c).update new = (p.update new).prod (c.update new) := by
  cases p <;> cases c <;> simp [RepDef.prod, RepDef.update, Scope.change]

theorem prod_isVol (p c : RepDef) : (p.prod c).isVol = (p.isVol || c.isVol) := by
  cases p <;> cases c <;> rfl

theorem mergeSingle_update (new : Assign) (rd : RepDef) (b rest : Forest) :
    mergeSingle (rd.update new) (b.update new) (rest.update new) = (mergeSingle rd b rest).update new := by
  cases b with
  | nil => rfl
  | leaf crd wf r =>
    cases r <;> simp [mergeSingle, Forest.update, prod_update]
  | node crd cb r =>
    cases r <;> simp [mergeSingle, Forest.update, prod_update]

/-- `cleanup()` commutes with updating the volatile parameters -/
theorem cleanupF_update (new : Assign) (f : Forest) :
    cleanupF (f.update new) = (cleanupF f).update new := by
  induction f with
  | nil => rfl
  | leaf rd wf rest ih => simp [cleanupF, Forest.update, ih]
  | node rd body rest ihb ihr =>
    simp only [cleanupF, Forest.update, ihb, ihr, mergeSingle_update]

/-- the raw (unclamped) value of a repetition definition -/
def RepDef.raw : RepDef → Option Int
  | .const n => some n
  | .vol e s => e.eval s.get

theorem intOf_of_raw (rd : RepDef) (a : Int) (h : rd.raw = some a) : rd.intOf = .ok a.toNat := by
  cases rd with
  | const n => simp [RepDef.raw] at h; subst h; simp [RepDef.intOf]
  | vol e s => simp [RepDef.raw] at h; simp [RepDef.intOf, h]

theorem toNat_mul_of_nonneg (a b : Int) (h : 0 ≤ a ∨ 0 ≤ b) : (a * b).toNat = a.toNat * b.toNat := by
  rcases (by omega : a < 0 ∨ 0 ≤ a) with ha | ha
  · have hb : 0 ≤ b := by omega
    have h1 : a * b ≤ 0 := Int.mul_nonpos_of_nonpos_of_nonneg (by omega) hb
    have h2 : a.toNat = 0 := by omega
    have h3 : (a * b).toNat = 0 := by omega
    rw [h2, h3]; simp
  · rcases (by omega : b < 0 ∨ 0 ≤ b) with hb | hb
    · have h1 : a * b ≤ 0 := Int.mul_nonpos_of_nonneg_of_nonpos ha (by omega)
      have h2 : b.toNat = 0 := by omega
      have h3 : (a * b).toNat = 0 := by omega
      rw [h2, h3]; simp
    · obtain ⟨n, rfl⟩ := Int.eq_ofNat_of_zero_le ha
      obtain ⟨m, rfl⟩ := Int.eq_ofNat_of_zero_le hb
      have : ((n : Int) * (m : Int)) = ((n * m : Nat) : Int) := by simp
      rw [this, Int.toNat_natCast]
      simp

theorem toNat_mul_natCast (v : Int) (k : Nat) : (v * (k : Int)).toNat = v.toNat * k := by
  have := toNat_mul_of_nonneg v (k : Int) (.inr (by omega))
  simpa using this

theorem max0_toNat (v : Int) : (if v < 0 then (0 : Int) else v) = (v.toNat : Int) := by
  split <;> omega

/-- the merged loop repeats parent × child times: `int(merged) = int(parent) * int(child)` in all four cases of
`_merge_single_child` (the volatile × volatile product clamps both factors, PF-C15d) -/
theorem prod_counts (p c : RepDef) (a b : Nat) (hp : p.intOf = .ok a) (hc : c.intOf = .ok b) :
    (p.prod c).intOf = .ok (a * b) := by
  cases p with
  | const n =>
    cases c with
    | const m =>
      simp [RepDef.intOf] at hp hc; subst hp; subst hc
      simp [RepDef.prod, RepDef.intOf]
    | vol e s =>
      simp only [RepDef.intOf] at hp hc
      cases hp
      cases hev : e.eval s.get with
      | none => simp [hev] at hc
      | some v =>
        simp [hev] at hc
        simp only [RepDef.prod, RepDef.intOf, Expr.eval, hev, toNat_mul_natCast, hc, Nat.mul_comm]
  | vol e s =>
    cases c with
    | const m =>
      simp only [RepDef.intOf] at hp hc
      cases hc
      cases hev : e.eval s.get with
      | none => simp [hev] at hp
      | some v =>
        simp [hev] at hp
        simp only [RepDef.prod, RepDef.intOf, Expr.eval, hev, toNat_mul_natCast, hp]
    | vol ec sc =>
      simp only [RepDef.intOf] at hp hc
      cases hev : e.eval s.get with
      | none => simp [hev] at hp
      | some v =>
        cases hevc : ec.eval sc.get with
        | none => simp [hevc] at hc
        | some w =>
          simp [hev] at hp
          simp [hevc] at hc
          have hne : (cn = pn) = False := by simp [pn, cn]
          simp only [RepDef.prod, RepDef.intOf, Expr.eval, Scope.get, List.lookup, hne, if_true, if_false, beq_self_eq_true,
            hev, hevc, max0_toNat]
          rw [← hp, ← hc]
          have : ((v.toNat : Int) * (w.toNat : Int)) = ((v.toNat * w.toNat : Nat) : Int) := by simp
          rw [this, Int.toNat_natCast]

/-! ### marking -/

/-- Spec of volatility: the defining expression chain of `x` reaches a name marked volatile at the bottom
`DictScope` without passing a shadowing mapping or loop index. -/
inductive Depends : Scope → Name → Prop
  | dict {vals vol x} : x ∈ vol → Depends (.dict vals vol) x
  | mappedHit {inner m x e y} : m.lookup x = some e → y ∈ e.vars → Depends inner y → Depends (.mapped inner m) x
  | mappedMiss {inner m x} : m.lookup x = none → Depends inner x → Depends (.mapped inner m) x
  | range {inner i v x} : x ≠ i → Depends inner x → Depends (.range inner i v) x
  | jointParent {ps cs} : Depends ps pn → Depends (.joint ps cs) pn
  | jointChild {ps cs} : Depends cs cn → Depends (.joint ps cs) cn

theorem isVol_iff_depends (s : Scope) (x : Name) : s.isVol x = true ↔ Depends s x := by
  induction s generalizing x with
  | dict vals vol =>
    simp only [Scope.isVol]
    constructor
    · intro h; exact .dict (by simpa using h)
    · intro h; cases h with | dict h => simpa using h
  | mapped inner m ih =>
    simp only [Scope.isVol]
    cases hm : m.lookup x with
    | none =>
      simp only []
      constructor
      · intro h; exact .mappedMiss hm ((ih x).mp h)
      · intro h
        cases h with
        | mappedHit h1 _ _ => rw [hm] at h1; cases h1
        | mappedMiss _ h2 => exact (ih x).mpr h2
    | some e =>
      simp only []
      constructor
      · intro h
        obtain ⟨y, hy, hv⟩ := List.any_eq_true.mp h
        exact .mappedHit hm hy ((ih y).mp hv)
      · intro h
        cases h with
        | mappedHit h1 h2 h3 =>
          rw [hm] at h1; cases h1
          exact List.any_eq_true.mpr ⟨_, h2, (ih _).mpr h3⟩
        | mappedMiss h1 _ => rw [hm] at h1; cases h1
  | range inner i v ih =>
    simp only [Scope.isVol, Bool.and_eq_true, bne_iff_ne]
    constructor
    · intro h; exact .range h.1 ((ih x).mp h.2)
    · intro h; cases h with | range h1 h2 => exact ⟨h1, (ih x).mpr h2⟩
  | joint ps cs ihp ihc =>
    simp only [Scope.isVol, Bool.or_eq_true, Bool.and_eq_true, beq_iff_eq]
    constructor
    · intro h
      rcases h with ⟨h1, h2⟩ | ⟨h1, h2⟩
      · subst h1; exact .jointParent ((ihp _).mp h2)
      · subst h1; exact .jointChild ((ihc _).mp h2)
    · intro h
      cases h with
      | jointParent h => exact .inl ⟨rfl, (ihp _).mpr h⟩
      | jointChild h => exact .inr ⟨rfl, (ihc _).mpr h⟩

/-- a name is volatile exactly if it has at least one top-level volatile root -/
theorem roots_ne_nil_iff (s : Scope) (x : Name) : (s.roots x ≠ []) ↔ s.isVol x = true := by
  induction s generalizing x with
  | dict vals vol =>
    simp only [Scope.roots, Scope.isVol]
    cases vol.contains x <;> simp
  | mapped inner m ih =>
    simp only [Scope.roots, Scope.isVol]
    cases m.lookup x with
    | none => exact ih x
    | some e =>
      simp only [List.any_eq_true]
      constructor
      · intro h
        have : ∃ y, y ∈ e.vars ∧ inner.roots y ≠ [] := by
          apply Classical.byContradiction
          intro hn
          apply h
          apply List.flatMap_eq_nil_iff.mpr
          intro y hy
          apply Classical.byContradiction
          intro hne
          exact hn ⟨y, hy, hne⟩
        obtain ⟨y, hy, hne⟩ := this
        exact ⟨y, hy, (ih y).mp hne⟩
      · intro ⟨y, hy, hv⟩ hnil
        exact (ih y).mpr hv (List.flatMap_eq_nil_iff.mp hnil y hy)
  | range inner i v ih =>
    simp only [Scope.roots, Scope.isVol, Bool.and_eq_true, bne_iff_ne]
    by_cases h : x = i
    · simp [h]
    · simp [h, ih]
  | joint ps cs ihp ihc =>
    simp only [Scope.roots, Scope.isVol, Bool.or_eq_true, Bool.and_eq_true, beq_iff_eq]
    by_cases h : x = pn
    · subst h
      simp [ihp, pn_ne_cn]
    · by_cases h2 : x = cn
      · subst h2
        simp [h, ihc]
      · simp [h, h2]

theorem markVolatile_append (a b : CountTree) :
    markVolatile (a.append b) = markVolatile a ++ markVolatile b := by
  simp only [append_def]
  induction a with
  | nil => rfl
  | leaf wf rest ih => simp [CountTree.append, markVolatile, Forest.append, ih]
  | node e s n body rest _ ih => simp [CountTree.append, markVolatile, Forest.append, ih]

theorem markVolatile_isNil (a : CountTree) : (markVolatile a).isNil = a.isNil := by
  cases a <;> rfl

def mapOk {α β} (f : α → β) : Except Err α → Except Err β
  | .ok a => .ok (f a)
  | .error e => .error e

theorem concat_mark (vals : List Int) (f : Int → Except Err Forest) (g : Int → Except Err CountTree)
    (h : ∀ v, v ∈ vals → f v = mapOk markVolatile (g v)) :
    concatE vals f = mapOk markVolatile (concatC vals g) := by
  induction vals with
  | nil => rfl
  | cons v rest ih =>
    simp only [concatE, concatC]
    rw [h v (by simp), ih (fun w hw => h w (by simp [hw]))]
    cases g v with
    | error e => rfl
    | ok x =>
      simp only [mapOk]
      cases concatC rest g with
      | error e => rfl
      | ok y => simp [markVolatile_append]

/-- the compilation marks exactly as `markVolatile` marks the count structure -/
theorem compile_eq_mark (pt : PT) : ∀ s, compile pt s = mapOk markVolatile (compileCounts pt s) := by
  induction pt with
  | atom wf ps =>
    intro s
    simp only [compile, compileCounts]
    split
    · rfl
    · split <;> rfl
  | rep e body ih =>
    intro s
    simp only [compile, compileCounts]
    cases e.eval s.get with
    | none => rfl
    | some v =>
      simp only []
      split
      · rfl
      · rw [ih s]
        cases compileCounts body s with
        | error err => rfl
        | ok b =>
          simp only [mapOk, markVolatile_isNil]
          split <;> simp [markVolatile]
  | seq a b iha ihb =>
    intro s
    simp only [compile, compileCounts, iha s, ihb s]
    cases compileCounts a s with
    | error err => rfl
    | ok x =>
      simp only [mapOk]
      cases compileCounts b s with
      | error err => rfl
      | ok y => simp [markVolatile_append]
  | map m body ih =>
    intro s
    simp only [compile, compileCounts]
    exact ih _
  | forL i lo hi st body ih =>
    intro s
    simp only [compile, compileCounts]
    cases evalRange s lo hi st with
    | error err => rfl
    | ok vals =>
      simp only []
      exact concat_mark vals _ _ (fun v _ => ih _)

/-- "marked only if it depends": every volatile definition mentions a volatile name of its scope -/
def RepDef.Dep : RepDef → Prop
  | .const _ => True
  | .vol e s => e.vars.any s.isVol = true

theorem markRd_dep (e : Expr) (s : Scope) (n : Nat) : (markRd e s n).Dep := by
  unfold markRd
  split
  · rename_i h; exact h
  · trivial

theorem update_dep (new : Assign) (rd : RepDef) (h : rd.Dep) : (rd.update new).Dep := by
  cases rd with
  | const n => trivial
  | vol e s => simp only [RepDef.update, RepDef.Dep, isVol_change_fun]; exact h

theorem prod_dep (p c : RepDef) (hp : p.Dep) (hc : c.Dep) : (p.prod c).Dep := by
  cases p with
  | const a =>
    cases c with
    | const b => trivial
    | vol e s => simpa [RepDef.prod, RepDef.Dep, Expr.vars] using hc
  | vol e s =>
    cases c with
    | const b => simpa [RepDef.prod, RepDef.Dep, Expr.vars] using hp
    | vol ec sc =>
      simp only [RepDef.Dep] at hp hc
      simp [RepDef.prod, RepDef.Dep, Expr.vars, Scope.isVol, List.lookup, hp]

/-- all repetition definitions of a forest satisfy `P` -/
def Forest.All (P : RepDef → Prop) : Forest → Prop
  | .nil => True
  | .leaf rd _ rest => P rd ∧ rest.All P
  | .node rd body rest => P rd ∧ body.All P ∧ rest.All P

theorem all_append (P : RepDef → Prop) (a b : Forest) (ha : a.All P) (hb : b.All P) : (a ++ b).All P := by
  simp only [append_def]
  induction a with
  | nil => exact hb
  | leaf rd wf rest ih => exact ⟨ha.1, ih ha.2⟩
  | node rd body rest _ ih => exact ⟨ha.1, ha.2.1, ih ha.2.2⟩

theorem markVolatile_all_dep (t : CountTree) : (markVolatile t).All RepDef.Dep := by
  induction t with
  | nil => trivial
  | leaf wf rest ih => exact ⟨trivial, ih⟩
  | node e s n body rest ihb ihr => exact ⟨markRd_dep e s n, ihb, ihr⟩

theorem update_all_dep (new : Assign) (f : Forest) (h : f.All RepDef.Dep) : (f.update new).All RepDef.Dep := by
  induction f with
  | nil => trivial
  | leaf rd wf rest ih => exact ⟨update_dep new rd h.1, ih h.2⟩
  | node rd body rest ihb ihr => exact ⟨update_dep new rd h.1, ihb h.2.1, ihr h.2.2⟩

theorem mergeSingle_all_dep (rd : RepDef) (b rest : Forest) (hrd : rd.Dep) (hb : b.All RepDef.Dep)
    (hr : rest.All RepDef.Dep) : (mergeSingle rd b rest).All RepDef.Dep := by
  cases b with
  | nil => exact hr
  | leaf crd wf r =>
    cases r with
    | nil => exact ⟨prod_dep rd crd hrd hb.1, hr⟩
    | leaf _ _ _ => exact ⟨hrd, hb, hr⟩
    | node _ _ _ => exact ⟨hrd, hb, hr⟩
  | node crd cb r =>
    cases r with
    | nil => exact ⟨prod_dep rd crd hrd hb.1, hb.2.1, hr⟩
    | leaf _ _ _ => exact ⟨hrd, hb, hr⟩
    | node _ _ _ => exact ⟨hrd, hb, hr⟩

theorem cleanupF_all_dep (f : Forest) (h : f.All RepDef.Dep) : (cleanupF f).All RepDef.Dep := by
  induction f with
  | nil => trivial
  | leaf rd wf rest ih => exact ⟨h.1, ih h.2⟩
  | node rd body rest ihb ihr => exact mergeSingle_all_dep rd _ _ h.1 (ihb h.2.1) (ihr h.2.2)

/-! ### updates to zero: equality of the played sequence -/

/-- `ZeroEq g f`: `f` is `g` without the loops whose count is 0 and without the loops left empty by that -/
inductive ZeroEq : Forest → Forest → Prop
  | nil : ZeroEq .nil .nil
  | leaf {rd wf r r'} : ZeroEq r r' → ZeroEq (.leaf rd wf r) (.leaf rd wf r')
  | node {rd b b' r r'} : ZeroEq b b' → ZeroEq r r' → ZeroEq (.node rd b r) (.node rd b' r')
  | dropZero {rd b r r'} : rd.intOf = .ok 0 → ZeroEq r r' → ZeroEq (.node rd b r) r'
  | dropEmpty {rd b r r'} : ZeroEq b .nil → ZeroEq r r' → ZeroEq (.node rd b r) r'

theorem ZeroEq.refl (f : Forest) : ZeroEq f f := by
  induction f with
  | nil => exact .nil
  | leaf rd wf rest ih => exact .leaf ih
  | node rd body rest ihb ihr => exact .node ihb ihr

theorem ZeroEq.nil_left {f : Forest} (h : ZeroEq .nil f) : f = .nil := by
  cases h; rfl

theorem ZeroEq.append {a a' b b' : Forest} (ha : ZeroEq a a') (hb : ZeroEq b b') :
    ZeroEq (a ++ b) (a' ++ b') := by
  simp only [append_def]
  induction ha with
  | nil => exact hb
  | leaf _ ih => exact .leaf ih
  | node h1 _ _ ih => exact .node h1 ih
  | dropZero h0 _ ih => exact .dropZero h0 ih
  | dropEmpty h0 _ _ ih => exact .dropEmpty h0 ih

theorem repeatList_nil (n : Nat) : repeatList n [] = [] := by
  induction n with
  | zero => rfl
  | succ k ih => simp [repeatList, ih]

theorem counts_leaf_ok {rd : RepDef} {wf : Nat} {rest : Forest} {c : CForest}
    (h : (Forest.leaf rd wf rest).counts = .ok c) :
    ∃ n cr, rd.intOf = .ok n ∧ rest.counts = .ok cr ∧ c = .leaf n rd.isVol wf cr := by
  simp only [Forest.counts] at h
  cases h1 : rd.intOf with
  | error e => simp [h1] at h
  | ok n =>
    cases h2 : rest.counts with
    | error e => simp [h1, h2] at h
    | ok cr =>
      simp [h1, h2] at h
      exact ⟨n, cr, rfl, rfl, h.symm⟩

theorem counts_node_ok {rd : RepDef} {body rest : Forest} {c : CForest}
    (h : (Forest.node rd body rest).counts = .ok c) :
    ∃ n cb cr, rd.intOf = .ok n ∧ body.counts = .ok cb ∧ rest.counts = .ok cr ∧ c = .node n rd.isVol cb cr := by
  simp only [Forest.counts] at h
  cases h1 : rd.intOf with
  | error e => simp [h1] at h
  | ok n =>
    cases h2 : body.counts with
    | error e => simp [h1, h2] at h
    | ok cb =>
      cases h3 : rest.counts with
      | error e => simp [h1, h2, h3] at h
      | ok cr =>
        simp [h1, h2, h3] at h
        exact ⟨n, cb, cr, rfl, rfl, rfl, h.symm⟩

/-- programs related by `ZeroEq` play the same waveform sequence -/
theorem ZeroEq.play {g f : Forest} (h : ZeroEq g f) :
    ∀ cg, g.counts = .ok cg → ∃ cf, f.counts = .ok cf ∧ cf.play = cg.play := by
  induction h with
  | nil => intro cg hg; exact ⟨cg, hg, rfl⟩
  | @leaf rd wf r r' _ ih =>
    intro cg hg
    obtain ⟨n, cr, h1, h2, rfl⟩ := counts_leaf_ok hg
    obtain ⟨cf, hf, hp⟩ := ih cr h2
    exact ⟨.leaf n rd.isVol wf cf, by simp [Forest.counts, h1, hf], by simp [CForest.play, hp]⟩
  | @node rd b b' r r' _ _ ihb ihr =>
    intro cg hg
    obtain ⟨n, cb, cr, h1, h2, h3, rfl⟩ := counts_node_ok hg
    obtain ⟨cfb, hfb, hpb⟩ := ihb cb h2
    obtain ⟨cfr, hfr, hpr⟩ := ihr cr h3
    exact ⟨.node n rd.isVol cfb cfr, by simp [Forest.counts, h1, hfb, hfr], by simp [CForest.play, hpb, hpr]⟩
  | @dropZero rd b r r' h0 _ ih =>
    intro cg hg
    obtain ⟨n, cb, cr, h1, h2, h3, rfl⟩ := counts_node_ok hg
    obtain ⟨cfr, hfr, hpr⟩ := ih cr h3
    rw [h0] at h1
    cases h1
    exact ⟨cfr, hfr, by simp [CForest.play, repeatList, hpr]⟩
  | @dropEmpty rd b r r' _ _ ihb ihr =>
    intro cg hg
    obtain ⟨n, cb, cr, h1, h2, h3, rfl⟩ := counts_node_ok hg
    obtain ⟨cfb, hfb, hpb⟩ := ihb cb h2
    obtain ⟨cfr, hfr, hpr⟩ := ihr cr h3
    simp only [Forest.counts] at hfb
    cases hfb
    simp only [CForest.play] at hpb
    exact ⟨cfr, hfr, by simp [CForest.play, ← hpb, repeatList_nil, hpr]⟩

theorem concatE_zero (new : Assign) (vals : List Int) (f f' : Int → Except Err Forest) (F : Forest)
    (h : concatE vals f = .ok F)
    (hf : ∀ v, v ∈ vals → ∀ G, f v = .ok G → ∃ G', f' v = .ok G' ∧ ZeroEq (G.update new) G') :
    ∃ F', concatE vals f' = .ok F' ∧ ZeroEq (F.update new) F' := by
  induction vals generalizing F with
  | nil =>
    simp only [concatE] at h ⊢
    cases h
    exact ⟨.nil, rfl, .nil⟩
  | cons v rest ih =>
    simp only [concatE] at h ⊢
    cases hv : f v with
    | error e => simp [hv] at h
    | ok x =>
      simp only [hv] at h
      cases hr : concatE rest f with
      | error e => simp [hr] at h
      | ok y =>
        simp only [hr] at h
        cases h
        obtain ⟨x', hx', zx⟩ := hf v (by simp) x hv
        obtain ⟨y', hy', zy⟩ := ih y hr (fun w hw => hf w (by simp [hw]))
        refine ⟨x' ++ y', by simp [hx', hy'], ?_⟩
        rw [update_append]
        exact ZeroEq.append zx zy

/-- compilation at the updated values yields the updated program up to zero-count loops; the new values may
make volatile counts 0 (only the instantiation side has to be inside the quantifier) -/
theorem compile_change_zero (new : Assign) (pt : PT) : ∀ (s : Scope) (F : Forest),
    compile pt s = .ok F → NewOK new s → pt.inside s = true →
    ∃ F', compile pt (s.change new) = .ok F' ∧ ZeroEq (F.update new) F' := by
  induction pt with
  | atom wf ps =>
    intro s F h hok _
    simp only [compile, isVol_change_fun] at h ⊢
    split at h
    · cases h
    · rename_i hnv
      rw [if_neg hnv]
      split at h
      · rename_i hall
        cases h
        have : (ps.all fun p => ((s.change new).get p).isSome) = true := by
          simp only [get_change_isSome]; exact hall
        exact ⟨.leaf (.const 1) wf .nil, by simp [this],
          by simpa [Forest.update, RepDef.update] using ZeroEq.refl (.leaf (.const 1) wf .nil)⟩
      · cases h
  | rep e body ih =>
    intro s F h hok hin
    simp only [compile] at h
    cases hev : e.eval s.get with
    | none => simp [hev] at h
    | some v =>
      simp only [hev] at h
      simp only [PT.inside, hev] at hin
      have hsome : (e.eval (s.change new).get).isSome = true := by
        rw [eval_change_isSome, hev]; rfl
      obtain ⟨v', hev'⟩ := Option.isSome_iff_exists.mp hsome
      simp only [compile, hev']
      cases hvol : e.vars.any s.isVol with
      | true =>
        simp only [hvol, if_true, Bool.and_eq_true, decide_eq_true_eq] at hin
        have hv : ¬ v ≤ 0 := by omega
        rw [if_neg hv] at h
        cases hb : compile body s with
        | error err => simp [hb] at h
        | ok b =>
          simp only [hb] at h
          obtain ⟨b', hb', zb⟩ := ih s b hb hok hin.2
          by_cases hnil : b.isNil = true
          · rw [if_pos hnil] at h
            cases h
            have hbn : b = .nil := by cases b <;> simp_all [Forest.isNil]
            subst hbn
            have hb'n : b' = .nil := ZeroEq.nil_left (by simpa [Forest.update] using zb)
            subst hb'n
            by_cases hv' : v' ≤ 0
            · exact ⟨.nil, by simp [hv'], .nil⟩
            · exact ⟨.nil, by simp [hv', hb', Forest.isNil], .nil⟩
          · rw [if_neg hnil] at h
            cases h
            have hm : markRd e s v.toNat = .vol e s := by simp [markRd, hvol]
            have hm' : markRd e (s.change new) v'.toNat = .vol e (s.change new) := by
              simp [markRd, isVol_change_fun, hvol]
            by_cases hv' : v' ≤ 0
            · refine ⟨.nil, by simp [hv'], ?_⟩
              simp only [Forest.update, hm, RepDef.update]
              apply ZeroEq.dropZero _ .nil
              have : v'.toNat = 0 := by omega
              simp [RepDef.intOf, hev', this]
            · by_cases hn' : b'.isNil = true
              · have hb'n : b' = .nil := by cases b' <;> simp_all [Forest.isNil]
                subst hb'n
                refine ⟨.nil, by simp [hv', hb', Forest.isNil], ?_⟩
                simp only [Forest.update]
                exact .dropEmpty zb .nil
              · refine ⟨.node (.vol e (s.change new)) b' .nil, by simp [hv', hb', hn', hm'], ?_⟩
                simp only [Forest.update, hm, RepDef.update]
                exact .node zb .nil
      | false =>
        simp only [hvol, Bool.false_eq_true, if_false, Bool.or_eq_true, decide_eq_true_eq] at hin
        have hvv : v' = v := by
          have := eval_change_of_not_vol new s e hok hvol
          rw [hev, hev'] at this
          exact Option.some.inj this
        subst hvv
        by_cases hv : v' ≤ 0
        · rw [if_pos hv] at h
          cases h
          exact ⟨.nil, by simp [hv], .nil⟩
        · rw [if_neg hv] at h
          have hi : body.inside s = true := by
            cases hin with
            | inl h0 => exact absurd h0 hv
            | inr h1 => exact h1
          cases hb : compile body s with
          | error err => simp [hb] at h
          | ok b =>
            simp only [hb] at h
            obtain ⟨b', hb', zb⟩ := ih s b hb hok hi
            have hm : markRd e s v'.toNat = .const v'.toNat := by simp [markRd, hvol]
            have hm' : markRd e (s.change new) v'.toNat = .const v'.toNat := by
              simp [markRd, isVol_change_fun, hvol]
            by_cases hnil : b.isNil = true
            · rw [if_pos hnil] at h
              cases h
              have hbn : b = .nil := by cases b <;> simp_all [Forest.isNil]
              subst hbn
              have hb'n : b' = .nil := ZeroEq.nil_left (by simpa [Forest.update] using zb)
              subst hb'n
              exact ⟨.nil, by simp [hv, hb', Forest.isNil], .nil⟩
            · rw [if_neg hnil] at h
              cases h
              by_cases hn' : b'.isNil = true
              · have hb'n : b' = .nil := by cases b' <;> simp_all [Forest.isNil]
                subst hb'n
                refine ⟨.nil, by simp [hv, hb', Forest.isNil], ?_⟩
                simp only [Forest.update]
                exact .dropEmpty zb .nil
              · refine ⟨.node (.const v'.toNat) b' .nil, by simp [hv, hb', hn', hm'], ?_⟩
                simp only [Forest.update, hm, RepDef.update]
                exact .node zb .nil
  | seq a b iha ihb =>
    intro s F h hok hin
    simp only [compile] at h ⊢
    simp only [PT.inside, Bool.and_eq_true] at hin
    cases ha : compile a s with
    | error err => simp [ha] at h
    | ok x =>
      simp only [ha] at h
      cases hb : compile b s with
      | error err => simp [hb] at h
      | ok y =>
        simp only [hb] at h
        cases h
        obtain ⟨x', hx', zx⟩ := iha s x ha hok hin.1
        obtain ⟨y', hy', zy⟩ := ihb s y hb hok hin.2
        refine ⟨x' ++ y', by simp [hx', hy'], ?_⟩
        rw [update_append]
        exact ZeroEq.append zx zy
  | map m body ih =>
    intro s F h hok hin
    simp only [compile] at h ⊢
    simp only [PT.inside] at hin
    exact ih (.mapped s m) F h hok hin
  | forL i lo hi st body ih =>
    intro s F h hok hin
    simp only [compile] at h ⊢
    simp only [PT.inside, Bool.and_eq_true, Bool.not_eq_true'] at hin
    rw [evalRange_change new s lo hi st hok hin.1]
    cases hr : evalRange s lo hi st with
    | error err => simp [hr] at h
    | ok vals =>
      simp only [hr] at h hin ⊢
      apply concatE_zero new vals _ _ F h
      intro v hv G hG
      exact ih (.range s i v) G hG hok (List.all_eq_true.mp hin.2 v hv)

/-! ### `TaborProgram.update_volatile_parameters` -/

/-- the value a volatile position takes at the new constants -/
def newValue (new : Assign) (rd : RepDef) : Except Err Nat := (rd.update new).intOf

/-- well-formed volatile positions: every position names an existing cell, its definition evaluates, and
positions naming the same cell (shared sequencer table) agree on the new value -/
structure TableOK (new : Assign) (vpos : List (Nat × RepDef)) (cells : List Nat) : Prop where
  inBounds : ∀ i rd, (i, rd) ∈ vpos → i < cells.length
  evaluable : ∀ i rd, (i, rd) ∈ vpos → ∃ v, newValue new rd = .ok v
  consistent : ∀ i rd rd', (i, rd) ∈ vpos → (i, rd') ∈ vpos → newValue new rd = newValue new rd'

theorem TableOK.tail {new : Assign} {p : Nat × RepDef} {more : List (Nat × RepDef)} {cells : List Nat}
    (h : TableOK new (p :: more) cells) (cells' : List Nat) (hl : cells'.length = cells.length) :
    TableOK new more cells' :=
  ⟨fun i rd hm => hl ▸ h.inBounds i rd (by simp [hm]),
   fun i rd hm => h.evaluable i rd (by simp [hm]),
   fun i rd rd' h1 h2 => h.consistent i rd rd' (by simp [h1]) (by simp [h2])⟩

theorem tableUpdate_length (new : Assign) (vpos : List (Nat × RepDef)) (cells : List Nat) :
    (tableUpdate new vpos cells).1.length = cells.length := by
  induction vpos generalizing cells with
  | nil => rfl
  | cons p more ih =>
    obtain ⟨i, rd⟩ := p
    simp only [tableUpdate]
    cases (rd.update new).intOf with
    | error e => exact ih cells
    | ok v =>
      simp only []
      split
      · exact ih cells
      · simp [ih, setCell]

/-- cells no volatile position names are left alone -/
theorem tableUpdate_untouched (new : Assign) (vpos : List (Nat × RepDef)) (cells : List Nat) (j : Nat)
    (hj : ∀ i rd, (i, rd) ∈ vpos → i ≠ j) : (tableUpdate new vpos cells).1[j]? = cells[j]? := by
  induction vpos generalizing cells with
  | nil => rfl
  | cons p more ih =>
    obtain ⟨i, rd⟩ := p
    have hij : i ≠ j := hj i rd (by simp)
    have hmore : ∀ i rd, (i, rd) ∈ more → i ≠ j := fun i rd hm => hj i rd (by simp [hm])
    simp only [tableUpdate]
    cases (rd.update new).intOf with
    | error e => exact ih cells hmore
    | ok v =>
      simp only []
      split
      · exact ih cells hmore
      · simp only []
        rw [ih _ hmore]
        simp [setCell, hij]

/-- after the update every volatile position holds the value of its definition at the new constants -/
theorem tableUpdate_final (new : Assign) (vpos : List (Nat × RepDef)) (cells : List Nat)
    (hok : TableOK new vpos cells) :
    ∀ i rd v, (i, rd) ∈ vpos → newValue new rd = .ok v → (tableUpdate new vpos cells).1[i]? = some v := by
  induction vpos generalizing cells with
  | nil => intro i rd v h; cases h
  | cons p more ih =>
    obtain ⟨i0, rd0⟩ := p
    obtain ⟨v0, hv0⟩ := hok.evaluable i0 rd0 (by simp)
    have hb0 : i0 < cells.length := hok.inBounds i0 rd0 (by simp)
    -- the value the head position ends with, for any continuation cells' that hold v0 at i0
    have head : ∀ cells', cells'.length = cells.length → cells'[i0]? = some v0 →
        (tableUpdate new more cells').1[i0]? = some v0 := by
      intro cells' hl hc
      by_cases hd : ∃ rd, (i0, rd) ∈ more
      · obtain ⟨rd1, h1⟩ := hd
        have hv1 : newValue new rd1 = .ok v0 := by
          rw [← hok.consistent i0 rd0 rd1 (by simp) (by simp [h1])]; exact hv0
        exact ih cells' (hok.tail cells' hl) i0 rd1 v0 h1 hv1
      · rw [tableUpdate_untouched new more cells' i0]
        · exact hc
        · intro i rd hm hEq
          subst hEq
          exact hd ⟨rd, hm⟩
    intro i rd v hm hv
    simp only [newValue] at hv0
    simp only [tableUpdate, hv0]
    split
    · rename_i hc
      rcases List.mem_cons.mp hm with h | h
      · cases h
        simp only [newValue] at hv
        rw [hv0] at hv
        cases hv
        exact head cells rfl hc
      · exact ih cells (hok.tail cells rfl) i rd v h hv
    · simp only []
      have hl : (setCell cells i0 v0).length = cells.length := by simp [setCell]
      rcases List.mem_cons.mp hm with h | h
      · cases h
        simp only [newValue] at hv
        rw [hv0] at hv
        cases hv
        exact head _ hl (by simp [setCell, hb0])
      · exact ih _ (hok.tail _ hl) i rd v h hv

/-- the reported modifications are exactly the cells whose content changed, with the new content -/
theorem tableUpdate_reports (new : Assign) (vpos : List (Nat × RepDef)) (cells : List Nat)
    (hok : TableOK new vpos cells) (j : Nat) :
    (∃ v, (j, v) ∈ (tableUpdate new vpos cells).2) ↔ (tableUpdate new vpos cells).1[j]? ≠ cells[j]? := by
  induction vpos generalizing cells with
  | nil => simp [tableUpdate]
  | cons p more ih =>
    obtain ⟨i0, rd0⟩ := p
    obtain ⟨v0, hv0⟩ := hok.evaluable i0 rd0 (by simp)
    have hb0 : i0 < cells.length := hok.inBounds i0 rd0 (by simp)
    have hfin := tableUpdate_final new ((i0, rd0) :: more) cells hok i0 rd0 v0 (by simp) hv0
    simp only [newValue] at hv0
    simp only [tableUpdate, hv0] at hfin ⊢
    split
    · exact ih cells (hok.tail cells rfl)
    · rename_i hc
      simp only [hc, if_false] at hfin
      simp only []
      have hl : (setCell cells i0 v0).length = cells.length := by simp [setCell]
      have ih' := ih (setCell cells i0 v0) (hok.tail _ hl)
      by_cases hj : j = i0
      · subst hj
        constructor
        · intro _
          rw [hfin]
          exact fun h => hc h.symm
        · intro _
          exact ⟨v0, by simp⟩
      · have hset : (setCell cells i0 v0)[j]? = cells[j]? := by
          simp [setCell, Ne.symm hj]
        rw [← hset, ← ih']
        constructor
        · rintro ⟨v, hv⟩
          rcases List.mem_cons.mp hv with h | h
          · cases h; exact absurd rfl hj
          · exact ⟨v, h⟩
        · rintro ⟨v, hv⟩
          exact ⟨v, by simp [hv]⟩

/-- the reported value is the cell's new content -/
theorem tableUpdate_reported_value (new : Assign) (vpos : List (Nat × RepDef)) (cells : List Nat)
    (hok : TableOK new vpos cells) (j v : Nat) (h : (j, v) ∈ (tableUpdate new vpos cells).2) :
    (tableUpdate new vpos cells).1[j]? = some v := by
  induction vpos generalizing cells with
  | nil => simp [tableUpdate] at h
  | cons p more ih =>
    obtain ⟨i0, rd0⟩ := p
    obtain ⟨v0, hv0⟩ := hok.evaluable i0 rd0 (by simp)
    have hfin := tableUpdate_final new ((i0, rd0) :: more) cells hok i0 rd0 v0 (by simp) hv0
    simp only [newValue] at hv0
    simp only [tableUpdate, hv0] at hfin h ⊢
    split at h
    · rename_i hc
      simp only [hc, if_true] at hfin ⊢
      exact ih cells (hok.tail cells rfl) h
    · rename_i hc
      simp only [hc, if_false] at hfin ⊢
      have hl : (setCell cells i0 v0).length = cells.length := by simp [setCell]
      rcases List.mem_cons.mp h with h1 | h1
      · cases h1; exact hfin
      · exact ih _ (hok.tail _ hl) h1

/-! ### roots are top-level volatile parameters -/

def Scope.baseVol : Scope → List Name
  | .dict _ vol => vol
  | .mapped inner _ => inner.baseVol
  | .range inner _ _ => inner.baseVol
  | .joint ps cs => ps.baseVol ++ cs.baseVol

theorem roots_subset_baseVol (s : Scope) (x r : Name) (h : r ∈ s.roots x) : r ∈ s.baseVol := by
  induction s generalizing x with
  | dict vals vol =>
    simp only [Scope.roots] at h
    split at h
    · rename_i hc
      simp at h; subst h
      simpa [Scope.baseVol] using hc
    · simp at h
  | mapped inner m ih =>
    simp only [Scope.roots] at h
    cases hm : m.lookup x with
    | none => rw [hm] at h; exact ih x h
    | some e =>
      rw [hm] at h
      obtain ⟨y, _, hy⟩ := List.mem_flatMap.mp h
      exact ih y hy
  | range inner i v ih =>
    simp only [Scope.roots] at h
    split at h
    · simp at h
    · exact ih x h
  | joint ps cs ihp ihc =>
    simp only [Scope.roots] at h
    simp only [Scope.baseVol, List.mem_append]
    split at h
    · exact .inl (ihp _ h)
    · split at h
      · exact .inr (ihc _ h)
      · simp at h

end QP.C15
