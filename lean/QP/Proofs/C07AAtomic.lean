import QP.Proofs.C07Arith
namespace QP.C07
open QP.PT

/-- `lhs + sg·rhs` on values -/
def lin (sg : Rat) (a b : Rat) : Rat := a + sg * b

theorem valueAt_mul (s : Seg) (t : Rat) (h : s.len ≠ 0) :
    s.valueAt t * s.len = s.v0 * s.len + (s.v1 - s.v0) * t := by
  unfold Seg.valueAt
  have : (s.v1 - s.v0) * t / s.len * s.len = (s.v1 - s.v0) * t := Rat.div_mul_cancel h
  grind

theorem plIntegral_zipWith (sg : Rat) : ∀ (a b : PL), plPos a → plPos b → PL.dur a = PL.dur b →
    plIntegral (PL.zipWith (lin sg) a b) = plIntegral a + sg * plIntegral b := by
  intro a b
  fun_induction PL.zipWith (lin sg) a b with
  | case1 b =>
    intro _ hb hd
    cases b with
    | nil => simp [plIntegral]; grind
    | cons s r =>
      have h1 := hb s (List.mem_cons_self ..)
      have h2 := PL_dur_nonneg (fun x hx => hb x (List.mem_cons_of_mem _ hx) : plPos r)
      simp only [PL.dur] at hd
      grind
  | case2 a hne =>
    intro ha _ hd
    cases a with
    | nil => simp [plIntegral]; grind
    | cons s r =>
      have h1 := ha s (List.mem_cons_self ..)
      have h2 := PL_dur_nonneg (fun x hx => ha x (List.mem_cons_of_mem _ hx) : plPos r)
      simp only [PL.dur] at hd
      grind
  | case3 a as b bs heq ih =>
    intro ha hb hd
    have ha' : plPos as := fun x hx => ha x (List.mem_cons_of_mem _ hx)
    have hb' : plPos bs := fun x hx => hb x (List.mem_cons_of_mem _ hx)
    simp only [PL.dur] at hd
    have := ih ha' hb' (by grind)
    simp only [plIntegral, this, lin]
    rw [heq]; grind
  | case4 a as b bs hne hlt bm ih =>
    intro ha hb hd
    have ha' : plPos as := fun x hx => ha x (List.mem_cons_of_mem _ hx)
    have hbl := hb b (List.mem_cons_self ..)
    have hb' : plPos ({ len := b.len - a.len, v0 := bm, v1 := b.v1, amb := false } :: bs) := by
      intro x hx
      rcases List.mem_cons.mp hx with rfl | hx
      · simp only; grind
      · exact hb x (List.mem_cons_of_mem _ hx)
    simp only [PL.dur] at hd
    have := ih ha' hb' (by simp only [PL.dur]; grind)
    have hbm : bm * b.len = b.v0 * b.len + (b.v1 - b.v0) * a.len := valueAt_mul b a.len (by grind)
    simp only [plIntegral, this, lin]
    grind
  | case5 a as b bs hne hnlt am ih =>
    intro ha hb hd
    have hb' : plPos bs := fun x hx => hb x (List.mem_cons_of_mem _ hx)
    have hal := ha a (List.mem_cons_self ..)
    have ha' : plPos ({ len := a.len - b.len, v0 := am, v1 := a.v1, amb := false } :: as) := by
      intro x hx
      rcases List.mem_cons.mp hx with rfl | hx
      · simp only; grind
      · exact ha x (List.mem_cons_of_mem _ hx)
    simp only [PL.dur] at hd
    have := ih ha' hb' (by simp only [PL.dur]; grind)
    have ham : am * a.len = a.v0 * a.len + (a.v1 - a.v0) * b.len := valueAt_mul a b.len (by grind)
    simp only [plIntegral, this, lin]
    grind
theorem plEnd_first_zipWith (f : Rat → Rat → Rat) (a b : PL) (x y : Rat)
    (ha : plEnd .first a = some x) (hb : plEnd .first b = some y) :
    plEnd .first (PL.zipWith f a b) = some (f x y) := by
  cases a with
  | nil => cases ha
  | cons s as =>
    cases b with
    | nil => cases hb
    | cons t bs =>
      simp only [plEnd, Option.some.injEq] at ha hb
      subst ha; subst hb
      rw [PL.zipWith]
      split
      · rfl
      · split <;> rfl

theorem eq_nil_of_dur_zero {p : PL} (hp : plPos p) (hd : PL.dur p = 0) : p = [] := by
  cases p with
  | nil => rfl
  | cons s r =>
    have h1 := hp s (List.mem_cons_self ..)
    have h2 := PL_dur_nonneg (fun x hx => hp x (List.mem_cons_of_mem _ hx) : plPos r)
    simp only [PL.dur] at hd
    grind

theorem zipWith_ne_nil (f : Rat → Rat → Rat) (s t : Seg) (as bs : PL) : PL.zipWith f (s :: as) (t :: bs) ≠ [] := by
  rw [PL.zipWith]
  split
  · simp
  · split <;> simp

theorem plLast_cons_of_ne_nil (s : Seg) {r : PL} (hr : r ≠ []) : plLast (s :: r) = plLast r := by
  cases r with
  | nil => exact absurd rfl hr
  | cons t r' => rfl

theorem plLast_zipWith (f : Rat → Rat → Rat) : ∀ (a b : PL), plPos a → plPos b → PL.dur a = PL.dur b →
    ∀ x y, plLast a = some x → plLast b = some y → plLast (PL.zipWith f a b) = some (f x y) := by
  intro a b
  fun_induction PL.zipWith f a b with
  | case1 b => intro _ _ _ x y hx; cases hx
  | case2 a hne => intro _ _ _ x y _ hy; cases hy
  | case3 a as b bs heq ih =>
    intro ha hb hd x y hx hy
    have ha' : plPos as := fun z hz => ha z (List.mem_cons_of_mem _ hz)
    have hb' : plPos bs := fun z hz => hb z (List.mem_cons_of_mem _ hz)
    simp only [PL.dur] at hd
    have hd' : PL.dur as = PL.dur bs := by grind
    cases as with
    | nil =>
      have : bs = [] := eq_nil_of_dur_zero hb' (by rw [← hd']; rfl)
      subst this
      simp only [plLast, Option.some.injEq] at hx hy
      subst hx; subst hy
      simp [PL.zipWith, plLast]
    | cons s as' =>
      cases bs with
      | nil =>
        have : (s :: as') = [] := eq_nil_of_dur_zero ha' (by rw [hd']; rfl)
        cases this
      | cons t bs' =>
        rw [plLast_cons_of_ne_nil _ (zipWith_ne_nil f s t as' bs')]
        exact ih ha' hb' hd' x y hx hy
  | case4 a as b bs hne hlt bm ih =>
    intro ha hb hd x y hx hy
    have ha' : plPos as := fun z hz => ha z (List.mem_cons_of_mem _ hz)
    have hbl := hb b (List.mem_cons_self ..)
    have hb' : plPos ({ len := b.len - a.len, v0 := bm, v1 := b.v1, amb := false } :: bs) := by
      intro z hz
      rcases List.mem_cons.mp hz with rfl | hz
      · simp only; grind
      · exact hb z (List.mem_cons_of_mem _ hz)
    simp only [PL.dur] at hd
    have hd' : PL.dur as = PL.dur ({ len := b.len - a.len, v0 := bm, v1 := b.v1, amb := false } :: bs) := by
      simp only [PL.dur]; grind
    have hbs := PL_dur_nonneg (fun z hz => hb z (List.mem_cons_of_mem _ hz) : plPos bs)
    cases as with
    | nil =>
      simp only [PL.dur] at hd'
      grind
    | cons s as' =>
      rw [plLast_cons_of_ne_nil _ (zipWith_ne_nil f s _ as' bs)]
      have hy' : plLast ({ len := b.len - a.len, v0 := bm, v1 := b.v1, amb := false } :: bs) = some y := by
        cases bs with
        | nil => simpa [plLast] using hy
        | cons t bs' => exact hy
      exact ih ha' hb' hd' x y hx hy'
  | case5 a as b bs hne hnlt am ih =>
    intro ha hb hd x y hx hy
    have hb' : plPos bs := fun z hz => hb z (List.mem_cons_of_mem _ hz)
    have hal := ha a (List.mem_cons_self ..)
    have ha' : plPos ({ len := a.len - b.len, v0 := am, v1 := a.v1, amb := false } :: as) := by
      intro z hz
      rcases List.mem_cons.mp hz with rfl | hz
      · simp only; grind
      · exact ha z (List.mem_cons_of_mem _ hz)
    simp only [PL.dur] at hd
    have hd' : PL.dur ({ len := a.len - b.len, v0 := am, v1 := a.v1, amb := false } :: as) = PL.dur bs := by
      simp only [PL.dur]; grind
    have has := PL_dur_nonneg (fun z hz => ha z (List.mem_cons_of_mem _ hz) : plPos as)
    cases bs with
    | nil =>
      simp only [PL.dur] at hd'
      grind
    | cons t bs' =>
      rw [plLast_cons_of_ne_nil _ (zipWith_ne_nil f _ t as bs')]
      have hx' : plLast ({ len := a.len - b.len, v0 := am, v1 := a.v1, amb := false } :: as) = some x := by
        cases as with
        | nil => simpa [plLast] using hx
        | cons s as' => exact hx
      exact ih ha' hb' hd' x y hx' hy

/-! ### `ArithmeticAtomicPulseTemplate` -/

def sgOf (minus : Bool) : Rat := if minus then -1 else 1

def sgnPL (minus : Bool) (pl : PL) : PL := if minus then pl.mapV (fun v => -v) else pl

theorem aaf_eq (minus : Bool) : (fun (a b : Rat) => if minus then a - b else a + b) = lin (sgOf minus) := by
  funext a b
  cases minus <;> simp [lin, sgOf] <;> grind

theorem sgnPL_eq (minus : Bool) (pl : PL) : sgnPL minus pl = affPL (sgOf minus) 0 pl := by
  cases minus
  · simp only [sgnPL, sgOf, Bool.false_eq_true, if_false]; rw [affPL_id]
  · simp only [sgnPL, sgOf, if_true]
    unfold affPL
    apply mapV_congr
    intro x; grind

/-- one channel of `lhs ± rhs` when both operands play something -/
def aaPick (minus : Bool) (l r : Option PL) : PL :=
  match l, r with
  | some pl, some q => PL.zipWith (lin (sgOf minus)) pl q
  | some pl, none => pl
  | none, some q => sgnPL minus q
  | none, none => []

def aaOne (minus : Bool) (r : Pulse) (k : Chan) (pl : PL) : PL :=
  match r.chans.lookup k with
  | some q => PL.zipWith (lin (sgOf minus)) pl q
  | none => pl

theorem aaChans_eq (minus : Bool) (l r : Pulse) :
    aaChans minus l r = l.chans.map (fun x => (x.1, aaOne minus r x.1 x.2)) ++
      (r.chans.filter (fun x => (l.chans.lookup x.1).isNone)).map (fun x => (x.1, sgnPL minus x.2)) := by
  unfold aaChans
  congr 1
  apply List.map_congr_left
  intro x _
  unfold aaOne
  rw [← aaf_eq]
  cases r.chans.lookup x.1 <;> rfl

theorem aa_pulseVal (minus : Bool) (l r : Pulse) (o : Chan) :
    ((aaChans minus l r).lookup o).getD [] = aaPick minus (l.chans.lookup o) (r.chans.lookup o) := by
  rw [aaChans_eq, lookup_append', lookup_map_key l.chans (aaOne minus r) o,
    lookup_filter_map r.chans (fun k => (l.chans.lookup k).isNone) (sgnPL minus) o]
  unfold aaOne
  cases hl : l.chans.lookup o <;> cases hr : r.chans.lookup o <;> simp [aaPick]

theorem plIntegral_aaPick (minus : Bool) (lo ro : Option PL)
    (h : ∀ pl q, lo = some pl → ro = some q → plPos pl ∧ plPos q ∧ PL.dur pl = PL.dur q) :
    plIntegral (aaPick minus lo ro) = plIntegral (lo.getD []) + sgOf minus * plIntegral (ro.getD []) := by
  cases lo with
  | none =>
    cases ro with
    | none => simp [aaPick, plIntegral]; grind
    | some q =>
      simp only [aaPick, Option.getD_none, Option.getD_some, plIntegral]
      rw [sgnPL_eq, plIntegral_affPL]; grind
  | some pl =>
    cases ro with
    | none => simp [aaPick, plIntegral]; grind
    | some q =>
      obtain ⟨h1, h2, h3⟩ := h pl q rfl rfl
      simp only [aaPick, Option.getD_some]
      exact plIntegral_zipWith (sgOf minus) pl q h1 h2 h3

theorem plEnd_some_of_ne_nil (e : End) {pl : PL} (h : pl ≠ []) : ∃ x, plEnd e pl = some x := by
  cases e with
  | first =>
    cases pl with
    | nil => exact absurd rfl h
    | cons s r => exact ⟨s.v0, rfl⟩
  | last =>
    simp only [plEnd]
    induction pl with
    | nil => exact absurd rfl h
    | cons s r ih =>
      cases r with
      | nil => exact ⟨s.v1, rfl⟩
      | cons t r' => exact ih (by simp)

theorem zipWith_nil_left (f : Rat → Rat → Rat) (b : PL) : PL.zipWith f [] b = [] := by rw [PL.zipWith]

theorem zipWith_nil_right (f : Rat → Rat → Rat) (a : PL) : PL.zipWith f a [] = [] := by
  cases a <;> simp [PL.zipWith]

theorem plEnd_zipWith (e : End) (sg : Rat) (a b : PL) (ha : plPos a) (hb : plPos b) (hd : PL.dur a = PL.dur b) (v : Rat)
    (h : plEnd e (PL.zipWith (lin sg) a b) = some v) :
    ∃ x y, plEnd e a = some x ∧ plEnd e b = some y ∧ v = x + sg * y := by
  have hane : a ≠ [] := by
    intro h0; subst h0; rw [zipWith_nil_left, plEnd_nil] at h; cases h
  have hbne : b ≠ [] := by
    intro h0; subst h0; rw [zipWith_nil_right, plEnd_nil] at h; cases h
  obtain ⟨x, hx⟩ := plEnd_some_of_ne_nil e hane
  obtain ⟨y, hy⟩ := plEnd_some_of_ne_nil e hbne
  refine ⟨x, y, hx, hy, ?_⟩
  cases e with
  | first =>
    rw [plEnd_first_zipWith (lin sg) a b x y hx hy] at h
    cases h; rfl
  | last =>
    simp only [plEnd] at hx hy h
    rw [plLast_zipWith (lin sg) a b ha hb hd x y hx hy] at h
    cases h; rfl

theorem claim_arithAtomic (id lhs minus rhs meas) (ihl : Claim lhs) (ihr : Claim rhs)
    (hinvl : InvClaim lhs) (hinvr : InvClaim rhs) : Claim (.arithAtomic id lhs minus rhs meas) := by
  intro σ mm cm P c o hden hreg hinj hc hcm hkeep
  simp only [regular, Bool.and_eq_true] at hreg
  obtain ⟨⟨hrl, hrr⟩, heq⟩ := hreg
  simp only [keeps, Bool.and_eq_true] at hkeep
  simp only [PT.definedChannels] at hinj hc
  have hmemdc : ∀ x, x ∈ lhs.definedChannels ∨ x ∈ rhs.definedChannels →
      x ∈ dedup (lhs.definedChannels ++ rhs.definedChannels) := fun x hx => (mem_dedup _ _).mpr (List.mem_append.mpr hx)
  have hinjl : InjOn cm lhs.definedChannels := fun c1 c2 o' h1 h2 =>
    hinj c1 c2 o' (hmemdc _ (Or.inl h1)) (hmemdc _ (Or.inl h2))
  have hinjr : InjOn cm rhs.definedChannels := fun c1 c2 o' h1 h2 =>
    hinj c1 c2 o' (hmemdc _ (Or.inr h1)) (hmemdc _ (Or.inr h2))
  obtain ⟨l, r, hl, hr, hcases⟩ := denote_arithAtomic hden
  obtain ⟨l1, l2, l3⟩ := hinvl σ mm cm l hl hrl
  obtain ⟨r1, r2, r3⟩ := hinvr σ mm cm r hr hrr
  have hdur : l.dur = r.dur := by
    cases hdl : templateDuration lhs σ with
    | error e => rw [hdl] at heq; cases heq
    | ok dl =>
      cases hdr : templateDuration rhs σ with
      | error e => rw [hdl, hdr] at heq; cases heq
      | ok dr =>
        rw [hdl, hdr] at heq
        have : dl = dr := by simpa using heq
        rw [← l3 hkeep.1 dl hdl, ← r3 hkeep.2 dr hdr, this]
  -- a channel of a part is the image of a defined channel of that operand
  have hinL : ∀ pl, l.chans.lookup o = some pl → c ∈ lhs.definedChannels := by
    intro pl hpl
    obtain ⟨c', hc', hl'⟩ := l2 o (mem_keys_of_lookup l.chans o pl hpl)
    have : c' = c := hinj c' c o (hmemdc _ (Or.inl hc')) hc hl' hcm
    rw [← this]; exact hc'
  have hinR : ∀ q, r.chans.lookup o = some q → c ∈ rhs.definedChannels := by
    intro q hq
    obtain ⟨c', hc', hl'⟩ := r2 o (mem_keys_of_lookup r.chans o q hq)
    have : c' = c := hinj c' c o (hmemdc _ (Or.inr hc')) hc hl' hcm
    rw [← this]; exact hc'
  have hseg : ∀ pl q, l.chans.lookup o = some pl → r.chans.lookup o = some q →
      plPos pl ∧ plPos q ∧ PL.dur pl = PL.dur q := by
    intro pl q hpl hq
    obtain ⟨a1, a2⟩ := l1.seg (o, pl) (mem_of_lookup l.chans o pl hpl)
    obtain ⟨b1, b2⟩ := r1.seg (o, q) (mem_of_lookup r.chans o q hq)
    exact ⟨a1, b1, by rw [a2, b2, hdur]⟩
  have hval : pulseVal P o = aaPick minus (l.chans.lookup o) (r.chans.lookup o) := by
    rcases hcases with ⟨hle, hre, rfl⟩ | ⟨hre, _, ms, rfl⟩ | ⟨hle, _, ms, rfl⟩ | ⟨_, _, _, ms, rfl⟩
    · rw [isEmpty_iff] at hle hre
      simp [pulseVal_empty, hle, hre, aaPick, List.lookup]
    · rw [isEmpty_iff] at hre
      simp only [pulseVal, hre, List.lookup]
      cases l.chans.lookup o <;> rfl
    · rw [isEmpty_iff] at hle
      simp only [pulseVal, hle, List.lookup]
      rw [lookup_map_snd r.chans (fun pl => if minus then pl.mapV (fun v => -v) else pl) o]
      cases r.chans.lookup o <;> rfl
    · simp only [pulseVal]
      exact aa_pulseVal minus l r o
  rw [hval]
  have ihL := fun hcl => ihl σ mm cm l c o hl hrl hinjl hcl hcm hkeep.1
  have ihR := fun hcr => ihr σ mm cm r c o hr hrr hinjr hcr hcm hkeep.2
  have hLnone : c ∉ lhs.definedChannels → l.chans.lookup o = none := by
    intro hn
    cases h : l.chans.lookup o with
    | none => rfl
    | some pl => exact absurd (hinL pl h) hn
  have hRnone : c ∉ rhs.definedChannels → r.chans.lookup o = none := by
    intro hn
    cases h : r.chans.lookup o with
    | none => rfl
    | some q => exact absurd (hinR q h) hn
  constructor
  · intro rr hrr'
    rw [plIntegral_aaPick minus _ _ hseg]
    rw [integralOf] at hrr'
    by_cases hcl : c ∈ lhs.definedChannels
    · have hclb : lhs.definedChannels.contains c = true := by simpa using hcl
      simp only [hclb, if_true, bind_ok_iff] at hrr'
      obtain ⟨il, hil, hrr'⟩ := hrr'
      have eL := (ihL hcl).1 il hil
      simp only [pulseVal] at eL
      by_cases hcr : c ∈ rhs.definedChannels
      · have hcrb : rhs.definedChannels.contains c = true := by simpa using hcr
        simp only [hcrb, if_true, bind_ok_iff, pure_ok_iff] at hrr'
        obtain ⟨ir, hir, rfl⟩ := hrr'
        have eR := (ihR hcr).1 ir hir
        simp only [pulseVal] at eR
        rw [← eL, ← eR]
        cases minus <;> simp [sgOf] <;> grind
      · have hcrb : rhs.definedChannels.contains c = false := by simpa using hcr
        simp only [hcrb, Bool.false_eq_true, if_false, pure_ok_iff] at hrr'
        subst hrr'
        rw [← eL, hRnone hcr]
        simp [plIntegral]; grind
    · have hclb : lhs.definedChannels.contains c = false := by simpa using hcl
      simp only [hclb, Bool.false_eq_true, if_false] at hrr'
      have hcr : c ∈ rhs.definedChannels := by
        rcases List.mem_append.mp ((mem_dedup _ _).mp hc) with h | h
        · exact absurd h hcl
        · exact h
      have hcrb : rhs.definedChannels.contains c = true := by simpa using hcr
      simp only [hcrb, if_true, bind_ok_iff, pure_ok_iff] at hrr'
      obtain ⟨ir, hir, rfl⟩ := hrr'
      have eR := (ihR hcr).1 ir hir
      simp only [pulseVal] at eR
      rw [← eR, hLnone hcl]
      cases minus <;> simp [sgOf, plIntegral] <;> grind
  · intro e htags v v' hv hv'
    -- the class predicate: no tag on either side, and not exactly one side silent where both define the channel
    rw [pathTags] at htags
    simp only [bind_ok_iff, pure_ok_iff] at htags
    have hchL : chanEmpty (denote lhs σ mm cm) cm c = (pulseVal l o).isEmpty := by
      simp only [chanEmpty, hl, hcm]
    have hchR : chanEmpty (denote rhs σ mm cm) cm c = (pulseVal r o).isEmpty := by
      simp only [chanEmpty, hr, hcm]
    rw [hchL, hchR] at htags
    have hfacts : (c ∈ lhs.definedChannels → pathTags e lhs σ mm cm c = .ok []) ∧
        (c ∈ rhs.definedChannels → pathTags e rhs σ mm cm c = .ok []) ∧
        ¬ (c ∈ lhs.definedChannels ∧ c ∈ rhs.definedChannels ∧
          (pulseVal l o).isEmpty ≠ (pulseVal r o).isEmpty) := by
      cases b1 : lhs.definedChannels.contains c with
      | false =>
        have n1 : c ∉ lhs.definedChannels := by simpa using b1
        cases b2 : rhs.definedChannels.contains c with
        | false =>
          have n2 : c ∉ rhs.definedChannels := by simpa using b2
          exact ⟨fun h => absurd h n1, fun h => absurd h n2, fun h => n1 h.1⟩
        | true =>
          simp only [b1, b2, Bool.false_eq_true, if_false, if_true, bind_ok_iff, pure_ok_iff, Bool.false_and] at htags
          obtain ⟨tl, htl, tr, htr, htags⟩ := htags
          subst htl
          simp only [List.nil_append] at htags
          subst htags
          exact ⟨fun h => absurd h n1, fun _ => htr, fun h => n1 h.1⟩
      | true =>
        cases b2 : rhs.definedChannels.contains c with
        | false =>
          have n2 : c ∉ rhs.definedChannels := by simpa using b2
          simp only [b1, b2, Bool.false_eq_true, if_false, if_true, bind_ok_iff, pure_ok_iff, Bool.and_false, Bool.false_and] at htags
          obtain ⟨tl, htl, tr, htr, htags⟩ := htags
          subst htr
          simp only [List.nil_append, List.append_nil] at htags
          subst htags
          exact ⟨fun _ => htl, fun h => absurd h n2, fun h => n2 h.2.1⟩
        | true =>
          simp only [b1, b2, if_true, bind_ok_iff, pure_ok_iff, Bool.and_self, Bool.true_and] at htags
          obtain ⟨tl, htl, tr, htr, htags⟩ := htags
          have htr0 : tr = [] := (List.append_eq_nil_iff.mp htags).2
          have h2 := (List.append_eq_nil_iff.mp htags).1
          have htl0 : tl = [] := (List.append_eq_nil_iff.mp h2).2
          have h3 := (List.append_eq_nil_iff.mp h2).1
          subst htl0; subst htr0
          refine ⟨fun _ => htl, fun _ => htr, ?_⟩
          rintro ⟨_, _, hne⟩
          cases hb : ((pulseVal l o).isEmpty != (pulseVal r o).isEmpty) with
          | true => rw [hb] at h3; simp at h3
          | false => exact hne (by simpa using hb)
    obtain ⟨htl, htr, hboth⟩ := hfacts
    -- the closed form
    simp only [endOf] at hv'
    split at hv'
    · cases hv'
    · cases hlo : l.chans.lookup o with
      | none =>
        cases hro : r.chans.lookup o with
        | none => rw [hlo, hro] at hv; simp [aaPick, plEnd_nil] at hv
        | some q =>
          rw [hlo, hro] at hv
          simp only [aaPick] at hv
          rw [sgnPL_eq, plEnd_affPL] at hv
          have hcr := hinR q hro
          have hcrb : rhs.definedChannels.contains c = true := by simpa using hcr
          cases hu : plEnd e q with
          | none => rw [hu] at hv; cases hv
          | some u =>
            rw [hu] at hv
            simp only [Option.map_some, Option.some.injEq] at hv
            have hRv : pulseVal r o = q := by simp [pulseVal, hro]
            have hqne : q ≠ [] := by intro h0; rw [h0, plEnd_nil] at hu; cases hu
            by_cases hcl : c ∈ lhs.definedChannels
            · exfalso
              apply hboth
              refine ⟨hcl, hcr, ?_⟩
              have hLv : pulseVal l o = [] := by simp [pulseVal, hlo]
              rw [hLv, hRv]
              cases q with
              | nil => exact absurd rfl hqne
              | cons s t => simp
            · have hclb : lhs.definedChannels.contains c = false := by simpa using hcl
              simp only [hclb, Bool.false_eq_true, if_false, hcrb, if_true, bind_ok_iff, pure_ok_iff] at hv'
              obtain ⟨xr, hxr, rfl⟩ := hv'
              have htr' := htr hcr
              have := (ihR hcr).2 e htr' u xr (by rw [hRv]; exact hu) hxr
              subst this
              rw [← hv]
              cases minus <;> simp [sgOf] <;> grind
      | some pl =>
        have hcl := hinL pl hlo
        have hclb : lhs.definedChannels.contains c = true := by simpa using hcl
        have hLv : pulseVal l o = pl := by simp [pulseVal, hlo]
        have htl' := htl hcl
        cases hro : r.chans.lookup o with
        | none =>
          rw [hlo, hro] at hv
          simp only [aaPick] at hv
          have hplne : pl ≠ [] := by intro h0; rw [h0, plEnd_nil] at hv; cases hv
          by_cases hcr : c ∈ rhs.definedChannels
          · exfalso
            apply hboth
            refine ⟨hcl, hcr, ?_⟩
            have hRv : pulseVal r o = [] := by simp [pulseVal, hro]
            rw [hLv, hRv]
            cases pl with
            | nil => exact absurd rfl hplne
            | cons s t => simp
          · have hcrb : rhs.definedChannels.contains c = false := by simpa using hcr
            simp only [hclb, if_true, hcrb, Bool.false_eq_true, if_false, bind_ok_iff, pure_ok_iff] at hv'
            obtain ⟨xl, hxl, rfl⟩ := hv'
            exact (ihL hcl).2 e htl' v xl (by rw [hLv]; exact hv) hxl
        | some q =>
          have hcr := hinR q hro
          have hcrb : rhs.definedChannels.contains c = true := by simpa using hcr
          have hRv : pulseVal r o = q := by simp [pulseVal, hro]
          have htr' := htr hcr
          rw [hlo, hro] at hv
          simp only [aaPick] at hv
          obtain ⟨s1, s2, s3⟩ := hseg pl q hlo hro
          obtain ⟨x, y, hx, hy, rfl⟩ := plEnd_zipWith e (sgOf minus) pl q s1 s2 s3 v hv
          simp only [hclb, if_true, hcrb, bind_ok_iff, pure_ok_iff] at hv'
          obtain ⟨xl, hxl, xr, hxr, rfl⟩ := hv'
          have e1 := (ihL hcl).2 e htl' x xl (by rw [hLv]; exact hx) hxl
          have e2 := (ihR hcr).2 e htr' y xr (by rw [hRv]; exact hy) hxr
          subst e1; subst e2
          cases minus <;> simp [sgOf] <;> grind

end QP.C07
