import QP.Proofs.C08c
/-! Helper lemmas for C08: `_validate_input` (entry de-duplication and constant detection). -/
namespace QP.C08
open Wf

/-- what one pair of neighbouring entries writes at time `t` -/
def segStep (t : Rat) (acc : Option Rat) (e1 e2 : Entry) : Option Rat :=
  if e1.t ≤ t ∧ t ≤ e2.t then some (interpVal e2.interp e1 e2 t) else acc

theorem tableGo_cons2 (t : Rat) (acc : Option Rat) (e1 e2 : Entry) (rest : List Entry) :
    tableGo t acc (e1 :: e2 :: rest) = tableGo t (segStep t acc e1 e2) (e2 :: rest) := by
  simp [tableGo, segStep]

/-- the segments of `A ++ [x]` are written first, then those of `x :: L` -/
theorem tableGo_split (t : Rat) : ∀ (A : List Entry) (x : Entry) (L : List Entry) (acc : Option Rat),
    tableGo t acc (A ++ x :: L) = tableGo t (tableGo t acc (A ++ [x])) (x :: L) := by
  intro A
  induction A with
  | nil => intro x L acc; simp [tableGo]
  | cons a A' ih =>
    intro x L acc
    cases A' with
    | nil =>
      simp only [List.cons_append, List.nil_append, tableGo_cons2]
      simp [tableGo]
    | cons b B =>
      simp only [List.cons_append, tableGo_cons2]
      exact ih x L _

theorem interp_const (i : Interp) (e1 e2 : Entry) (c : Rat) (h : segConst i e1 e2 = some c) (t : Rat) :
    interpVal i e1 e2 t = c := by
  cases i with
  | hold => simpa [segConst, interpVal] using h
  | jump => simpa [segConst, interpVal] using h
  | linear =>
    simp only [segConst] at h
    split at h
    · rename_i hv
      injection h with h
      simp only [interpVal]
      split
      · rw [← hv]; exact h
      · rw [← hv, ← h]; grind
    · cases h

theorem interp_same_value (i : Interp) (e1 e2 : Entry) (h : e1.v = e2.v) (t : Rat) :
    interpVal i e1 e2 t = e1.v := by
  cases i with
  | hold => simp [interpVal]
  | jump => simp [interpVal, h]
  | linear =>
    simp only [interpVal]
    split
    · exact h.symm
    · rw [h]; grind

/-- dropping the middle one of three entries: same values, or same times and something follows
(or the last interpolation does not hold the start value) -/
theorem drop_middle (t : Rat) (acc : Option Rat) (p c n : Entry) (r : List Entry)
    (hpc : p.t ≤ c.t) (hcn : c.t ≤ n.t)
    (hdrop : ¬ ((p.t ≠ c.t ∨ c.t ≠ n.t) ∧ (p.v ≠ c.v ∨ c.v ≠ n.v)))
    (hr : ∀ r0 r', r = r0 :: r' → n.t ≤ r0.t)
    (hend : r = [] → n.interp ≠ .hold ∨ c.t ≠ n.t) :
    tableGo t acc (p :: c :: n :: r) = tableGo t acc (p :: n :: r) := by
  simp only [tableGo_cons2]
  by_cases hv : p.v = c.v ∧ c.v = n.v
  · -- same values
    congr 1
    simp only [segStep]
    have h1 := interp_same_value c.interp p c hv.1 t
    have h2 := interp_same_value n.interp c n hv.2 t
    have h3 := interp_same_value n.interp p n (hv.1.trans hv.2) t
    rw [h1, h2, h3]
    by_cases a : c.t ≤ t ∧ t ≤ n.t
    · have : p.t ≤ t ∧ t ≤ n.t := ⟨Rat.le_trans hpc a.1, a.2⟩
      rw [if_pos a, if_pos this, hv.1]
    · by_cases b : p.t ≤ t ∧ t ≤ c.t
      · have : p.t ≤ t ∧ t ≤ n.t := ⟨b.1, Rat.le_trans b.2 hcn⟩
        rw [if_neg a, if_pos b, if_pos this]
      · have : ¬ (p.t ≤ t ∧ t ≤ n.t) := by
          intro h
          by_cases hc : t ≤ c.t
          · exact b ⟨h.1, hc⟩
          · exact a ⟨Rat.le_of_lt (Rat.not_le.mp hc), h.2⟩
        rw [if_neg a, if_neg b, if_neg this]
  · -- same times
    have ht : p.t = c.t ∧ c.t = n.t := by
      by_cases h1 : p.t = c.t
      · by_cases h2 : c.t = n.t
        · exact ⟨h1, h2⟩
        · exact absurd ⟨Or.inr h2, by
            by_cases a : p.v = c.v
            · by_cases b : c.v = n.v
              · exact absurd ⟨a, b⟩ hv
              · exact Or.inr b
            · exact Or.inl a⟩ hdrop
      · exact absurd ⟨Or.inl h1, by
            by_cases a : p.v = c.v
            · by_cases b : c.v = n.v
              · exact absurd ⟨a, b⟩ hv
              · exact Or.inr b
            · exact Or.inl a⟩ hdrop
    by_cases hT : t = n.t
    · -- the sample time is the common time
      subst hT
      have cov1 : p.t ≤ n.t ∧ n.t ≤ c.t := by rw [ht.1, ht.2]; exact ⟨Rat.le_refl, Rat.le_refl⟩
      have cov2 : c.t ≤ n.t ∧ n.t ≤ n.t := by rw [ht.2]; exact ⟨Rat.le_refl, Rat.le_refl⟩
      have cov3 : p.t ≤ n.t ∧ n.t ≤ n.t := by rw [ht.1, ht.2]; exact ⟨Rat.le_refl, Rat.le_refl⟩
      cases r with
      | nil =>
        simp only [segStep, cov1, cov2, cov3, and_self, if_true, tableGo]
        rcases hend rfl with h | h
        · congr 1
          cases hi : n.interp with
          | hold => exact absurd hi h
          | jump => simp [interpVal]
          | linear => simp [interpVal, ht.1, ht.2]
        · exact absurd ht.2 h
      | cons r0 r' =>
        have hn := hr r0 r' rfl
        simp only [tableGo_cons2]
        congr 1
        simp [segStep, hn, Rat.le_refl]
    · have n1 : ¬ (p.t ≤ t ∧ t ≤ c.t) := by
        rw [ht.1, ht.2]; intro h; exact hT (Rat.le_antisymm h.2 h.1)
      have n2 : ¬ (c.t ≤ t ∧ t ≤ n.t) := by
        rw [ht.2]; intro h; exact hT (Rat.le_antisymm h.2 h.1)
      have n3 : ¬ (p.t ≤ t ∧ t ≤ n.t) := by
        rw [ht.1, ht.2]; intro h; exact hT (Rat.le_antisymm h.2 h.1)
      simp [segStep, n1, n2, n3]

/-- the table does not end with a zero-length `hold` segment (the class of open finding PF-C08c lies
inside the complement) -/
def endOk : List Entry → Prop
  | [a, b] => b.interp ≠ .hold ∨ a.t ≠ b.t
  | _ :: b :: c :: r => endOk (b :: c :: r)
  | _ => True

theorem validateLoop_sound (t : Rat) : ∀ (rest : List Entry) (prev cur : Entry) (constV : Option Rat)
    (O : List Entry) (last : Entry) (cv : Option Rat) (out' : List Entry),
    validateLoop prev cur constV (O ++ [prev]) rest = .ok (last, cv, out') →
    prev.t ≤ cur.t → endOk (cur :: rest) →
    ∀ acc, tableGo t acc (O ++ prev :: cur :: rest) = tableGo t acc (out' ++ [last]) := by
  intro rest
  induction rest with
  | nil =>
    intro prev cur constV O last cv out' h _ _ acc
    simp only [validateLoop] at h
    injection h with h
    injection h with h1 h2
    injection h2 with h2 h3
    subst h1; subst h3
    simp
  | cons nx r ih =>
    intro prev cur constV O last cv out' h hpc hend acc
    simp only [validateLoop] at h
    split at h
    · cases h
    · rename_i hlt
      have hcn : cur.t ≤ nx.t := Rat.not_lt.mp hlt
      split at h
      · -- the entry is kept
        have := ih cur nx _ (O ++ [prev]) last cv out' (by simpa using h) hcn
          (by cases r <;> simp_all [endOk]) acc
        simpa using this
      · -- the entry is dropped
        rename_i hdrop
        have hIH := ih prev nx _ O last cv out' h (Rat.le_trans hpc hcn)
          (by cases r <;> simp_all [endOk]) acc
        rw [← hIH]
        rw [tableGo_split t O prev (cur :: nx :: r), tableGo_split t O prev (nx :: r)]
        apply drop_middle t _ prev cur nx r hpc hcn hdrop
        · intro r0 r' hr
          subst hr
          simp only [validateLoop] at h
          split at h
          · cases h
          · rename_i hlt2; exact Rat.not_lt.mp hlt2
        · intro hr
          subst hr
          simpa [endOk] using hend

theorem validate_dedup_aux (raw es : List Entry) (h : validateInput raw = .ok (.entries es)) (hend : endOk raw)
    (t : Rat) : tableSample es t = tableSample raw t := by
  match raw, h, hend with
  | [], h, _ => simp [validateInput] at h
  | [_], h, _ =>
    simp only [validateInput] at h
    split at h <;> cases h
  | first :: second :: rest, h, hend =>
    simp only [validateInput] at h
    split at h
    · cases h
    · rename_i h0
      have h0' : first.t = 0 := by simpa using h0
      split at h
      · cases h
      · rename_i hneg
        have hf : (⟨0, first.v, first.interp⟩ : Entry) = first := by
          cases first; simp_all
        rw [hf] at h
        cases hl : validateLoop first second (segConst second.interp first second) [first] rest with
        | error e => simp [hl] at h
        | ok res =>
          obtain ⟨last, cv, out'⟩ := res
          simp only [hl] at h
          split at h
          · cases h
          · cases cv with
            | some c => simp at h
            | none =>
              simp at h
              subst h
              have hs : second.t ≥ first.t := by rw [h0']; exact Rat.not_lt.mp hneg
              have := validateLoop_sound t rest first second _ [] last none out' (by simpa using hl) hs
                (by cases rest <;> simp_all [endOk]) none
              simp only [tableSample]
              simpa using this.symm


/-! ### constant detection -/

def allSegConst (c : Rat) : List Entry → Prop
  | e1 :: e2 :: r => segConst e2.interp e1 e2 = some c ∧ allSegConst c (e2 :: r)
  | _ => True

theorem validateLoop_facts : ∀ (rest : List Entry) (prev cur : Entry) (constV : Option Rat) (out : List Entry)
    (last : Entry) (cv : Option Rat) (out' : List Entry),
    validateLoop prev cur constV out rest = .ok (last, cv, out') →
    tableOk.mono (cur :: rest) = true ∧ (cur :: rest).getLast? = some last ∧
    (∀ c, cv = some c → constV = some c ∧ allSegConst c (cur :: rest)) := by
  intro rest
  induction rest with
  | nil =>
    intro prev cur constV out last cv out' h
    simp only [validateLoop] at h
    injection h with h
    injection h with h1 h2
    injection h2 with h2 h3
    subst h1; subst h2
    simp [tableOk.mono, allSegConst]
  | cons nx r ih =>
    intro prev cur constV out last cv out' h
    simp only [validateLoop] at h
    split at h
    · cases h
    · rename_i hlt
      have hcn : cur.t ≤ nx.t := Rat.not_lt.mp hlt
      have key : ∀ (pv : Entry) (o : List Entry), validateLoop pv nx (constStep constV cur nx) o r =
          .ok (last, cv, out') →
          tableOk.mono (cur :: nx :: r) = true ∧ (cur :: nx :: r).getLast? = some last ∧
          (∀ c, cv = some c → constV = some c ∧ allSegConst c (cur :: nx :: r)) := by
        intro pv o hh
        obtain ⟨m, l, cc⟩ := ih pv nx _ o last cv out' hh
        refine ⟨by simp [tableOk.mono, hcn, m], by simpa [List.getLast?_cons_cons] using l, ?_⟩
        intro c hc
        obtain ⟨c1, c2⟩ := cc c hc
        cases constV with
        | none => simp [constStep] at c1
        | some c0 =>
          simp only [constStep] at c1
          split at c1
          · rename_i hseg
            injection c1 with c1
            subst c1
            exact ⟨rfl, by simp only [allSegConst]; exact ⟨hseg, c2⟩⟩
          · cases c1
      split at h
      · exact key _ _ h
      · exact key _ _ h

theorem tableGo_const (t c : Rat) : ∀ (L : List Entry) (acc : Option Rat), allSegConst c L →
    (acc = none ∨ acc = some c) → (tableGo t acc L = none ∨ tableGo t acc L = some c) := by
  intro L
  induction L with
  | nil => intro acc _ h; simpa [tableGo] using h
  | cons e1 rest ih =>
    intro acc hs h
    cases rest with
    | nil => simpa [tableGo] using h
    | cons e2 r =>
      simp only [allSegConst] at hs
      rw [tableGo_cons2]
      apply ih _ hs.2
      simp only [segStep]
      split
      · exact Or.inr (by rw [interp_const _ _ _ c hs.1 t])
      · exact h

theorem getLast_append_single (xs : List Entry) (l : Entry) : (xs ++ [l]).getLast? = some l := by
  simp

/-- `from_table` samples like the plain `TableWaveform` of the same entries, unless the table ends
with a zero-length `hold` segment (open finding PF-C08c lies in that class) -/
theorem smart_table_aux (ch : Chan) (raw : List Entry) (s : Wf) (h : fromTable ch raw = .ok s)
    (hend : endOk raw) : SamplesAlike s (.table ch raw) := by
  simp only [fromTable] at h
  cases hv : validateInput raw with
  | error e => simp [hv] at h
  | ok res =>
    simp only [hv] at h
    match raw, hv, hend with
    | [], hv, _ => simp [validateInput] at hv
    | [_], hv, _ =>
      simp only [validateInput] at hv
      split at hv <;> cases hv
    | first :: second :: rest, hv, hend =>
      have hv0 := hv
      simp only [validateInput] at hv
      split at hv
      · cases hv
      · rename_i h0
        have h0' : first.t = 0 := by simpa using h0
        split at hv
        · cases hv
        · rename_i hneg
          have hf : (⟨0, first.v, first.interp⟩ : Entry) = first := by
            cases first; simp_all
          rw [hf] at hv
          cases hl : validateLoop first second (segConst second.interp first second) [first] rest with
          | error e => simp [hl] at hv
          | ok r3 =>
            obtain ⟨last, cv, out'⟩ := r3
            simp only [hl] at hv
            obtain ⟨hm, hlast, hc⟩ := validateLoop_facts rest first second _ [first] last cv out' hl
            have hs : first.t ≤ second.t := by rw [h0']; exact Rat.not_lt.mp hneg
            have hraw_last : (first :: second :: rest).getLast? = some last := by
              simpa [List.getLast?_cons_cons] using hlast
            have hdur : duration (.table ch (first :: second :: rest)) = last.t := by
              simp only [duration, hraw_last]
            split at hv
            · cases hv
            · cases cv with
              | some c =>
                simp at hv
                subst hv
                simp only at h
                injection h with h
                subst h
                refine ⟨by rw [hdur]; simp [duration], by simp [channels], ?_⟩
                intro k _ t h0t hle
                rw [hdur] at hle
                obtain ⟨c1, c2⟩ := hc c rfl
                have hall : allSegConst c (first :: second :: rest) := by
                  simp only [allSegConst]; exact ⟨c1, c2⟩
                have hmono : tableOk.mono (first :: second :: rest) = true := by
                  simp [tableOk.mono, hs, hm]
                have hsome := tableGo_covered t (second :: rest) first none hmono (by simp)
                  (by rw [h0']; exact h0t) (by intro l hl'; rw [hraw_last] at hl'; injection hl' with e; rw [← e]; exact hle)
                simp only [sample, tableSample]
                rcases tableGo_const t c _ none hall (Or.inl rfl) with hn | hc'
                · rw [hn] at hsome; simp at hsome
                · exact hc'.symm
              | none =>
                simp at hv
                subst hv
                simp only at h
                injection h with h
                subst h
                refine ⟨by rw [hdur]; simp only [duration, getLast_append_single], by simp [channels], ?_⟩
                intro k _ t _ _
                simp only [sample]
                exact validate_dedup_aux _ _ hv0 hend t

end QP.C08
