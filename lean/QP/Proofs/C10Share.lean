import QP.Proofs.C10Log
/-! C10: loading with the temporary storage as cache — every identifier is deserialised at most once and
every reference to it yields that one object. -/
namespace QP.C10
set_option linter.unusedSimpArgs false
set_option linter.unusedVariables false
set_option linter.unusedSectionVars false

/-! ### caches -/

structure GoodCache (F : List T) (c : Cache) : Prop where
  objs_in : ∀ j o, lookup j c.objs = some o → o ∈ Univ F ∧ o.id = some j
  nodup : c.built.Nodup
  built_iff : ∀ j, j ∈ c.built ↔ hasKey j c.objs = true

def Ext (c c' : Cache) : Prop := ∀ j o, lookup j c.objs = some o → lookup j c'.objs = some o

/-- the identifiers added to the cache name nodes of `L` -/
def NewIn (c c' : Cache) (L : List T) : Prop :=
  ∀ j, hasKey j c'.objs = true → hasKey j c.objs = true ∨ ∃ s ∈ L, s.id = some j

theorem Ext.refl (c : Cache) : Ext c c := fun _ _ h => h
theorem Ext.trans {a b c : Cache} (h1 : Ext a b) (h2 : Ext b c) : Ext a c := fun j o h => h2 j o (h1 j o h)
theorem NewIn.refl (c : Cache) (L : List T) : NewIn c c L := fun _ h => Or.inl h
theorem NewIn.mono {c c' : Cache} {L L' : List T} (h : NewIn c c' L) (hL : ∀ s ∈ L, s ∈ L') : NewIn c c' L' :=
  fun j hj => (h j hj).imp id (fun ⟨s, hs, hsj⟩ => ⟨s, hL s hs, hsj⟩)
theorem NewIn.trans {a b c : Cache} {L1 L2 L : List T} (h1 : NewIn a b L1) (h2 : NewIn b c L2)
    (hL1 : ∀ s ∈ L1, s ∈ L) (hL2 : ∀ s ∈ L2, s ∈ L) : NewIn a c L := by
  intro j hj
  rcases h2 j hj with h | ⟨s, hs, hsj⟩
  · exact (h1 j h).imp id (fun ⟨s, hs, hsj⟩ => ⟨s, hL1 s hs, hsj⟩)
  · exact Or.inr ⟨s, hL2 s hs, hsj⟩

/-- what a successful cached decoding of a node list `L` guarantees -/
structure Step (F : List T) (c c' : Cache) (L : List T) : Prop where
  good : GoodCache F c'
  ext : Ext c c'
  new : NewIn c c' L

theorem Step.refl {F : List T} {c : Cache} (h : GoodCache F c) (L : List T) : Step F c c L :=
  ⟨h, Ext.refl c, NewIn.refl c L⟩

theorem Step.trans {F : List T} {a b c : Cache} {L1 L2 L : List T} (h1 : Step F a b L1) (h2 : Step F b c L2)
    (hL1 : ∀ s ∈ L1, s ∈ L) (hL2 : ∀ s ∈ L2, s ∈ L) : Step F a c L :=
  ⟨h2.good, h1.ext.trans h2.ext, h1.new.trans h2.new hL1 hL2⟩

/-! ### one decoding step -/

theorem decTC_ref (f : Nat) (s : Store) (c : Cache) (i : Id) :
    decTC (f + 1) s c (ref i) = getC (decTC f s) s c i := by
  unfold ref
  simp only [decTC]
  simp [lookup_cons, idKey_ne_typeKey]

theorem decTC_node (f : Nat) (s : Store) (c : Cache) (cls : Cls) (id : Option Id) {kvs : List (String × J)}
    (h : KeysOk kvs) :
    decTC (f + 1) s c (.obj (hdr cls id ++ kvs)) =
      (mapMItemsC (decTC f s) c kvs).bind fun r => (construct cls id r.1).bind fun o => pure (o, r.2) := by
  simp only [decTC, lookup_type_hdr]
  simp only [typeName_ne_reference, if_false, ofTypeName_typeName, stripHdr_hdr cls id h, idOf_hdr cls id h]
  rfl

theorem decValueC_data (dec : Cache → J → Except Err (T × Cache)) (c : Cache) (k : String) {j : J}
    (h : j.plain = true) : decValueC dec c (k, j) = .ok (.data k j, c) := by
  cases j with
  | atom a => rfl
  | str s => rfl
  | arr xs =>
    cases xs with
    | nil => rfl
    | cons x xs =>
      simp only [J.plain, J.plainL, Bool.and_eq_true] at h
      have : (x :: xs).all J.isTyped = false := by
        simp [List.all_cons, plain_not_typed h.1]
      simp only [decValueC, this]
      rfl
  | obj kvs =>
    have ht := plain_not_typed h
    simp only [J.isTyped] at ht
    simp only [decValueC, ht]
    rfl

theorem decValueC_child (dec : Cache → J → Except Err (T × Cache)) (c : Cache) (k : String) (t : T) :
    decValueC dec c (k, emit t) = (dec c (emit t)).bind fun r => pure (.child k r.1, r.2) := by
  obtain ⟨kvs, h, ht⟩ := emit_typed t
  rw [h]
  simp only [decValueC, ht, if_true]
  rfl

theorem decValueC_children (dec : Cache → J → Except Err (T × Cache)) (c : Cache) (k : String) (t : T) (ts : List T) :
    decValueC dec c (k, .arr (emitList (t :: ts))) =
      (mapMC dec c (emitList (t :: ts))).bind fun r => pure (.children k r.1, r.2) := by
  have h := emitList_all_typed (t :: ts)
  simp only [emitList] at h ⊢
  simp only [decValueC, h, if_true]
  rfl

theorem mapMC_cons (dec : Cache → J → Except Err (T × Cache)) (c : Cache) (x : J) (xs : List J) :
    mapMC dec c (x :: xs) = (dec c x).bind fun r => (mapMC dec r.2 xs).bind fun r' => pure (r.1 :: r'.1, r'.2) := rfl

theorem mapMItemsC_cons (dec : Cache → J → Except Err (T × Cache)) (c : Cache) (kv : String × J)
    (rest : List (String × J)) :
    mapMItemsC dec c (kv :: rest) =
      (decValueC dec c kv).bind fun r => (mapMItemsC dec r.2 rest).bind fun r' => pure (r.1 :: r'.1, r'.2) := rfl

section
variable {F : List T} (hu : UniqueIds F) (S : Store)
include hu

/-- a reference, given the result for the document itself -/
theorem decC_emit_of_body {t : T} (htU : t ∈ Univ F)
    (hb : ∀ f, 2 * depth t ≤ f → ∀ c, GoodCache F c →
      ∃ c', decTC f S c (body t) = .ok (t, c') ∧ Step F c c' (subtermsItems t.items))
    (hcl : ∀ i, t.id = some i → lookup i S = some (body t)) :
    ∀ f, 2 * depth t + 1 ≤ f → ∀ c, GoodCache F c →
      ∃ c', decTC f S c (emit t) = .ok (t, c') ∧ Step F c c' (subterms t) := by
  intro f hf c hg
  have hstrict : ∀ s ∈ subtermsItems t.items, s ∈ subterms t := by
    cases t with
    | node cls id items => intro s hs; rw [subterms_node]; exact List.mem_append_left _ hs
  cases ht : t with
  | node cls id items =>
    cases id with
    | none =>
      rw [body_eq_emit_anon]
      obtain ⟨c', h1, h2⟩ := hb f (by omega) c hg
      rw [ht] at h1
      exact ⟨c', h1, ⟨h2.good, h2.ext, h2.new.mono (by rw [← ht]; exact hstrict)⟩⟩
    | some i =>
      obtain ⟨f', rfl⟩ : ∃ f', f = f' + 1 := ⟨f - 1, by omega⟩
      have hid : t.id = some i := by rw [ht]; rfl
      have : emit (.node cls (some i) items) = ref i := by simp only [emit]
      rw [this, decTC_ref]
      unfold getC
      cases hl : lookup i c.objs with
      | some o =>
        have ho := hg.objs_in i o hl
        have hot : o = t := uniq hu ho.1 htU ho.2 hid
        refine ⟨c, ?_, Step.refl hg _⟩
        simp only [pure, Except.pure, hot, ht]
      | none =>
        obtain ⟨c1, h1, h2⟩ := hb f' (by omega) c hg
        simp only [hcl i hid, h1, bind, Except.bind, pure, Except.pure, ← ht]
        refine ⟨_, rfl, ⟨?_, ?_, ?_⟩⟩
        · -- the enlarged cache is good
          have hnot : hasKey i c1.objs = false := by
            cases hh : hasKey i c1.objs with
            | false => rfl
            | true =>
              rcases h2.new i hh with h | ⟨s, hs, hsi⟩
              · simp [hasKey, hl] at h
              · have hsU : s ∈ Univ F := by
                  obtain ⟨r, hr, htr⟩ := List.mem_flatMap.mp htU
                  exact mem_univ_of_root hr (subterms_trans r t htr s (hstrict s hs))
                exact absurd (uniq hu hsU htU hsi hid) (strict_ne t s hs)
          refine ⟨?_, ?_, ?_⟩
          · intro j o h
            simp only [lookup_put] at h
            by_cases hji : j = i
            · simp only [hji, if_true, Option.some.injEq] at h; rw [← h, hji]; exact ⟨htU, hid⟩
            · simp only [hji, if_false] at h; exact h2.good.objs_in j o h
          · simp only
            refine List.nodup_append.mpr ⟨h2.good.nodup, by simp, ?_⟩
            intro a ha b hb
            simp only [List.mem_singleton] at hb; subst hb
            intro e; subst e
            have := (h2.good.built_iff a).mp ha
            rw [hnot] at this; exact absurd this (by simp)
          · intro j
            simp only [List.mem_append, List.mem_singleton, hasKey_put, Bool.or_eq_true, decide_eq_true_eq]
            rw [h2.good.built_iff j]
            exact ⟨fun h => h.symm, fun h => h.symm⟩
        · intro j o h
          simp only [lookup_put]
          by_cases hji : j = i
          · rw [hji, hl] at h; exact absurd h (by simp)
          · simp only [hji, if_false]; exact h2.ext j o h
        · intro j hj
          simp only [hasKey_put, Bool.or_eq_true, decide_eq_true_eq] at hj
          rcases hj with hj | hj
          · exact Or.inr ⟨t, self_mem_subterms t, by rw [hj]; exact hid⟩
          · exact (h2.new j hj).imp id (fun ⟨s, hs, hsj⟩ => ⟨s, hstrict s hs, hsj⟩)

mutual
theorem decC_body : (t : T) → t.wf = true → (∀ x ∈ subterms t, x ∈ Univ F) → Closed S (subterms t) →
    ∀ f, 2 * depth t ≤ f → ∀ c, GoodCache F c →
      ∃ c', decTC f S c (body t) = .ok (t, c') ∧ Step F c c' (subtermsItems t.items)
  | .node cls id items, hwf, hU, hcl, f, hf, c, hg => by
    obtain ⟨hal, hct, hwi⟩ := wf_node hwf
    rw [depth_node] at hf
    obtain ⟨f', rfl⟩ : ∃ f', f = f' + 1 := ⟨f - 1, by omega⟩
    have hsub : ∀ x ∈ subtermsItems items, x ∈ subterms (T.node cls id items) :=
      fun x hx => by rw [subterms_node]; exact List.mem_append_left _ hx
    obtain ⟨c', h1, h2⟩ := decC_items cls items hwi (fun x hx => hU x (hsub x hx)) (hcl.mono hsub) f' (by omega) c hg
    refine ⟨c', ?_, h2⟩
    simp only [body]
    rw [decTC_node f' S c cls id (bodyItems_keysOk hal), h1]
    simp only [Except.bind, construct_filter cls id items hal hct, pure, Except.pure]
theorem decC_items (cls : Cls) : (items : List Item) → Item.wfL items = true →
    (∀ x ∈ subtermsItems items, x ∈ Univ F) → Closed S (subtermsItems items) →
    ∀ f, 2 * depthItems items + 1 ≤ f → ∀ c, GoodCache F c →
      ∃ c', mapMItemsC (decTC f S) c (bodyItems cls items) = .ok (items.filter (emitted cls), c') ∧
        Step F c c' (subtermsItems items)
  | [], _, _, _, _, _, c, hg => ⟨c, rfl, Step.refl hg _⟩
  | .data k j :: rest, hwf, hU, hcl, f, hf, c, hg => by
    simp only [Item.wfL, Bool.and_eq_true] at hwf
    simp only [depthItems] at hf
    simp only [subtermsItems] at hU hcl ⊢
    obtain ⟨c', h1, h2⟩ := decC_items cls rest hwf.2 hU hcl f hf c hg
    by_cases he : emitted cls (.data k j) = true
    · refine ⟨c', ?_, h2⟩
      simp only [bodyItems, he, if_true, List.filter_cons]
      rw [mapMItemsC_cons, decValueC_data _ _ _ hwf.1]
      simp only [Except.bind, h1, pure, Except.pure]
    · have he' : emitted cls (.data k j) = false := by simpa using he
      refine ⟨c', ?_, h2⟩
      simp only [bodyItems, he', Bool.false_eq_true, if_false, List.filter_cons]
      exact h1
  | .child k t :: rest, hwf, hU, hcl, f, hf, c, hg => by
    simp only [Item.wfL, Bool.and_eq_true] at hwf
    simp only [depthItems] at hf
    simp only [subtermsItems] at hU hcl ⊢
    have hUt : ∀ x ∈ subterms t, x ∈ Univ F := fun x hx => hU x (List.mem_append_left _ hx)
    have hclt : Closed S (subterms t) := hcl.mono (fun c hc => List.mem_append_left _ hc)
    have hb := decC_body t hwf.1 hUt hclt
    have hself : ∀ i, t.id = some i → lookup i S = some (body t) := fun i hi =>
      hclt t (self_mem_subterms t) i hi
    obtain ⟨c1, h1, s1⟩ := decC_emit_of_body hu S (hUt t (self_mem_subterms t)) hb hself f (by omega) c hg
    obtain ⟨c2, h2, s2⟩ := decC_items cls rest hwf.2 (fun x hx => hU x (List.mem_append_right _ hx))
      (hcl.mono (fun c hc => List.mem_append_right _ hc)) f (by omega) c1 s1.good
    refine ⟨c2, ?_, s1.trans s2 (fun s hs => List.mem_append_left _ hs) (fun s hs => List.mem_append_right _ hs)⟩
    have hem : emitted cls (.child k t) = true := rfl
    simp only [bodyItems, List.filter_cons, hem, if_true]
    rw [mapMItemsC_cons, decValueC_child, h1]
    simp only [Except.bind, pure, Except.pure, h2]
  | .children k ts :: rest, hwf, hU, hcl, f, hf, c, hg => by
    simp only [Item.wfL, Bool.and_eq_true] at hwf
    simp only [depthItems] at hf
    simp only [subtermsItems] at hU hcl ⊢
    obtain ⟨c1, h1, s1⟩ := decC_list ts hwf.1.2 (fun x hx => hU x (List.mem_append_left _ hx))
      (hcl.mono (fun c hc => List.mem_append_left _ hc)) f (by omega) c hg
    obtain ⟨c2, h2, s2⟩ := decC_items cls rest hwf.2 (fun x hx => hU x (List.mem_append_right _ hx))
      (hcl.mono (fun c hc => List.mem_append_right _ hc)) f (by omega) c1 s1.good
    refine ⟨c2, ?_, s1.trans s2 (fun s hs => List.mem_append_left _ hs) (fun s hs => List.mem_append_right _ hs)⟩
    have hem : emitted cls (.children k ts) = true := rfl
    simp only [bodyItems, List.filter_cons, hem, if_true]
    cases ts with
    | nil => simp at hwf
    | cons t ts' =>
      rw [mapMItemsC_cons, decValueC_children, h1]
      simp only [Except.bind, pure, Except.pure, h2]
theorem decC_list : (ts : List T) → T.wfL ts = true → (∀ x ∈ subtermsList ts, x ∈ Univ F) →
    Closed S (subtermsList ts) → ∀ f, 2 * depthList ts + 1 ≤ f → ∀ c, GoodCache F c →
      ∃ c', mapMC (decTC f S) c (emitList ts) = .ok (ts, c') ∧ Step F c c' (subtermsList ts)
  | [], _, _, _, _, _, c, hg => ⟨c, rfl, Step.refl hg _⟩
  | t :: ts, hwf, hU, hcl, f, hf, c, hg => by
    simp only [T.wfL, Bool.and_eq_true] at hwf
    simp only [depthList] at hf
    simp only [subtermsList] at hU hcl ⊢
    have hUt : ∀ x ∈ subterms t, x ∈ Univ F := fun x hx => hU x (List.mem_append_left _ hx)
    have hclt : Closed S (subterms t) := hcl.mono (fun c hc => List.mem_append_left _ hc)
    have hb := decC_body t hwf.1 hUt hclt
    have hself : ∀ i, t.id = some i → lookup i S = some (body t) := fun i hi =>
      hclt t (self_mem_subterms t) i hi
    obtain ⟨c1, h1, s1⟩ := decC_emit_of_body hu S (hUt t (self_mem_subterms t)) hb hself f (by omega) c hg
    obtain ⟨c2, h2, s2⟩ := decC_list ts hwf.2 (fun x hx => hU x (List.mem_append_right _ hx))
      (hcl.mono (fun c hc => List.mem_append_right _ hc)) f (by omega) c1 s1.good
    refine ⟨c2, ?_, s1.trans s2 (fun s hs => List.mem_append_left _ hs) (fun s hs => List.mem_append_right _ hs)⟩
    simp only [emitList]
    rw [mapMC_cons, h1]
    simp only [Except.bind, pure, Except.pure, h2]
end

end

theorem goodCache_empty (F : List T) : GoodCache F {} :=
  ⟨fun j o h => by simp at h, by simp, fun j => by simp [hasKey]⟩

end QP.C10
