import QP.Proofs.C07Induction
/-!
# C07: definedness — under `positive` the duration expression and the integral evaluate whenever `denote` succeeds
-/
namespace QP.C07
open QP.PT

/-- under `positive` (and `regular`, `keeps`): the duration expression evaluates to a positive value, and the
integral evaluates on every channel the channel mapping keeps -/
def DefClaim (pt : PT) : Prop :=
  ∀ σ mm cm P, denote pt σ mm cm = .ok P → regular pt σ = true → positive pt σ = true → keeps pt cm = true →
    (∃ D, templateDuration pt σ = .ok D ∧ 0 < D) ∧
    (InjOn cm pt.definedChannels → ∀ c o, c ∈ pt.definedChannels → cm.lookup c = some (some o) →
      ∃ r, integralOf pt σ c = .ok r)

/-! ### atoms -/

theorem def_const (id dur amps meas) : DefClaim (.const id dur amps meas) := by
  intro σ mm cm P hden hreg hpos hkeep
  rw [positive, evalsTo_iff] at hpos
  obtain ⟨d, hd, hd0⟩ := hpos
  have hd0 : (0 : Rat) < d := by simpa using hd0
  refine ⟨⟨d, by rw [templateDuration]; exact hd, hd0⟩, ?_⟩
  intro hinj c o hc hcm
  simp only [PT.definedChannels] at hc
  rw [mem_dedup] at hc
  obtain ⟨e, he⟩ := lookup_isSome_of_mem_keys amps c hc
  rw [denote] at hden
  simp only [hd, ok_bind, hd0, if_true, bind_ok_iff] at hden
  obtain ⟨cvs, hcvs, _⟩ := hden
  obtain ⟨_, h2⟩ := filterMapM_kept cm σ.eval amps cvs hcvs
  obtain ⟨v, hv, _⟩ := h2 (c, e) (mem_of_lookup amps c e he) o hcm
  refine ⟨d * v, ?_⟩
  rw [integralOf]
  simp only [he, keyOf, ok_bind, hd, hv]
  rfl

theorem def_func (id ch0 dur e meas cons) (haff : e.affineIn "t" = true) :
    DefClaim (.func id ch0 dur e meas cons) := by
  intro σ mm cm P hden hreg hpos hkeep
  rw [positive, evalsTo_iff] at hpos
  obtain ⟨d, hd, hd0⟩ := hpos
  have hd0 : (0 : Rat) < d := by simpa using hd0
  refine ⟨⟨d, by rw [templateDuration]; exact hd, hd0⟩, ?_⟩
  intro hinj c o hc hcm
  simp only [PT.definedChannels, List.mem_singleton] at hc
  subst hc
  rw [denote] at hden
  have hcl : chanLookup cm c = .ok (some o) := chanLookup_ok_iff.mpr hcm
  simp only [bind_ok_iff] at hden
  obtain ⟨_, _, oo, hoo, hden⟩ := hden
  rw [hcl] at hoo; cases hoo
  simp only [bind_ok_iff] at hden
  obtain ⟨d', hd', hden⟩ := hden
  simp only [haff, Bool.not_true, Bool.false_eq_true, if_false, bind_ok_iff, pure_ok_iff] at hden
  obtain ⟨a, ha, b, hb, _⟩ := hden
  have ha' : funcAt σ e 0 = .ok a := ha
  have hb' : funcAt σ e 1 = .ok b := hb
  refine ⟨a * d + (b - a) * d * d / 2, ?_⟩
  rw [integralOf]
  simp only [ne_eq, not_true_eq_false, if_false, haff, Bool.not_true, Bool.false_eq_true, hd, ha', hb', ok_bind]
  rfl

theorem def_table (id entries meas cons) : DefClaim (.table id entries meas cons) := by
  intro σ mm cm P hden hreg hpos hkeep
  obtain ⟨inst, hinst, _, _⟩ := table_chan hden
  simp only [positive] at hpos
  cases hD : templateDuration (.table id entries meas cons) σ with
  | error err => rw [hD] at hpos; cases hpos
  | ok D =>
    rw [hD] at hpos
    have hD0 : (0 : Rat) < D := by simpa using hpos
    refine ⟨⟨D, rfl, hD0⟩, ?_⟩
    intro hinj c o hc hcm
    simp only [PT.definedChannels] at hc
    rw [mem_dedup] at hc
    obtain ⟨es, he⟩ := lookup_isSome_of_mem_keys entries c hc
    obtain ⟨ws, hws, hwsne, _⟩ := tableInstantiate_spec hinst id meas cons D hD c es he
    cases ws with
    | nil => exact absurd rfl hwsne
    | cons w rest =>
      cases hlast : lastEntry? (w :: rest) with
      | none =>
        rw [lastEntry?_eq_getLast?] at hlast
        simp at hlast
      | some l =>
        rw [integralOf]
        simp only [he, keyOf, ok_bind, hws, hlast, hD]
        exact ⟨_, rfl⟩

theorem def_point (id chans entries meas cons) : DefClaim (.point id chans entries meas cons) := by
  intro σ mm cm P hden hreg hpos hkeep
  simp only [positive] at hpos
  cases hlast : entries.getLast? with
  | none => rw [hlast] at hpos; cases hpos
  | some e =>
    rw [hlast] at hpos
    simp only [evalsTo_iff] at hpos
    obtain ⟨t, ht, ht0⟩ := hpos
    have ht0 : (0 : Rat) < t := by simpa using ht0
    refine ⟨⟨t, by rw [templateDuration, hlast]; exact ht, ht0⟩, ?_⟩
    intro hinj c o hc hcm
    simp only [PT.definedChannels] at hc
    rw [mem_dedup] at hc
    have hi : chans.idxOf c < chans.length := List.idxOf_lt_length_of_mem hc
    have hcont : chans.contains c = true := by simpa using hc
    rw [regular] at hreg
    have := (List.all_eq_true.mp hreg) _ (List.mem_range.mpr hi)
    cases hws : instPoint σ (chans.idxOf c) entries with
    | error err => rw [hws] at this; cases this
    | ok ws =>
      have hlen := mapM_length _ entries ws hws
      cases ws with
      | nil =>
        cases entries with
        | nil => simp at hlast
        | cons _ _ => simp at hlen
      | cons w rest =>
        rw [integralOf]
        simp only [hcont, Bool.not_true, Bool.false_eq_true, if_false, hws, ok_bind]
        exact ⟨_, rfl⟩

/-! ### recursive cases -/

theorem positiveAll_mem {subs : List PT} {σ : Scope} (h : positiveAll subs σ = true) : ∀ x ∈ subs, positive x σ = true := by
  induction subs with
  | nil => intro x hx; cases hx
  | cons y ys ihy =>
    intro x hx
    simp only [positiveAll, Bool.and_eq_true] at h
    rcases List.mem_cons.mp hx with rfl | hx
    · exact h.1
    · exact ihy h.2 x hx

theorem sumRange_ok (f : Nat → Except Err Rat) : ∀ N, (∀ k, k < N → ∃ r, f k = .ok r) → ∃ r, sumRange f N = .ok r
  | 0, _ => ⟨0, rfl⟩
  | N + 1, h => by
    obtain ⟨a, ha⟩ := sumRange_ok f N (fun k hk => h k (by omega))
    obtain ⟨b, hb⟩ := h N (by omega)
    exact ⟨a + b, by simp only [sumRange, ha, hb, ok_bind]; rfl⟩

/-- a `mapM` of positive values succeeds, and the sum of the values is positive unless the list is empty -/
theorem mapM_pos {α} (f : α → Except Err Rat) : ∀ (l : List α), (∀ x ∈ l, ∃ y, f x = .ok y ∧ 0 < y) →
    ∃ ys, l.mapM f = .ok ys ∧ 0 ≤ sumList ys ∧ (l ≠ [] → 0 < sumList ys)
  | [], _ => ⟨[], rfl, Rat.le_refl, fun h => absurd rfl h⟩
  | a :: as, h => by
    obtain ⟨y, hy, hy0⟩ := h a (List.mem_cons_self ..)
    obtain ⟨ys, hys, h0, _⟩ := mapM_pos f as (fun x hx => h x (List.mem_cons_of_mem _ hx))
    refine ⟨y :: ys, by simp only [List.mapM_cons, hy, hys, ok_bind]; rfl, ?_, fun _ => ?_⟩ <;>
      simp only [sumList] <;> grind

theorem def_timeReversal (id body) (ih : DefClaim body) : DefClaim (.timeReversal id body) := by
  intro σ mm cm P hden hreg hpos hkeep
  rw [denote] at hden
  simp only [bind_ok_iff, pure_ok_iff] at hden
  obtain ⟨b, hb, _⟩ := hden
  simp only [regular] at hreg
  simp only [positive] at hpos
  simp only [keeps] at hkeep
  obtain ⟨⟨D, hD, hD0⟩, hint⟩ := ih σ mm cm b hb hreg hpos hkeep
  refine ⟨⟨D, by rw [templateDuration]; exact hD, hD0⟩, ?_⟩
  intro hinj c o hc hcm
  simp only [PT.definedChannels] at hinj hc
  obtain ⟨r, hr⟩ := hint hinj c o hc hcm
  exact ⟨r, by rw [integralOf]; exact hr⟩

theorem def_rep (id body count meas cons) (ih : DefClaim body) : DefClaim (.rep id body count meas cons) := by
  intro σ mm cm P hden hreg hpos hkeep
  rw [denote] at hden
  simp only [bind_ok_iff] at hden
  obtain ⟨_, _, cnt, hcnt, hden⟩ := hden
  simp only [regular, Bool.and_eq_true, evalsTo_iff, hcnt] at hreg
  obtain ⟨⟨v, hv, hint, hnn⟩, hregb⟩ := hreg
  cases hv
  simp only [positive, Bool.and_eq_true, evalsTo_iff, hcnt] at hpos
  obtain ⟨⟨v, hv, hv0⟩, hposb⟩ := hpos
  cases hv
  obtain ⟨n, rfl⟩ : ∃ n : Int, cnt = (n : Rat) := ⟨cnt.num, isInt_eq hint⟩
  have hv0 : (0 : Rat) < (n : Rat) := by simpa using hv0
  have hn0 : 0 < n := Rat.intCast_pos.mp hv0
  rw [checkedInt_intCast] at hden
  simp only at hden
  have hnle : ¬ n ≤ 0 := by omega
  simp only [hnle, if_false, bind_ok_iff] at hden
  obtain ⟨ms, _, b, hb, _⟩ := hden
  simp only [keeps] at hkeep
  obtain ⟨⟨D, hD, hD0⟩, hintg⟩ := ih σ mm cm b hb hregb hposb hkeep
  refine ⟨⟨(n : Rat) * D, by rw [templateDuration]; simp only [hcnt, hD, ok_bind]; rfl, Rat.mul_pos hv0 hD0⟩, ?_⟩
  intro hinj c o hc hcm
  simp only [PT.definedChannels] at hinj hc
  obtain ⟨r, hr⟩ := hintg hinj c o hc hcm
  exact ⟨(n : Rat) * r, by rw [integralOf]; simp only [hcnt, hr, ok_bind]; rfl⟩

theorem templateDurationSum_ok {σ : Scope} : ∀ (subs : List PT), (∀ p ∈ subs, ∃ D, templateDuration p σ = .ok D ∧ 0 < D) →
    ∃ D, templateDurationSum subs σ = .ok D ∧ 0 ≤ D ∧ (subs ≠ [] → 0 < D)
  | [], _ => ⟨0, rfl, Rat.le_refl, fun h => absurd rfl h⟩
  | p :: ps, h => by
    obtain ⟨a, ha, ha0⟩ := h p (List.mem_cons_self ..)
    obtain ⟨b, hb, hb0, _⟩ := templateDurationSum_ok ps (fun q hq => h q (List.mem_cons_of_mem _ hq))
    refine ⟨a + b, by simp only [templateDurationSum, ha, hb, ok_bind]; rfl, ?_, fun _ => ?_⟩ <;> grind

theorem integralSum_ok {σ : Scope} {c : Chan} : ∀ (subs : List PT), (∀ p ∈ subs, ∃ r, integralOf p σ c = .ok r) →
    ∃ r, integralSum subs σ c = .ok r
  | [], _ => ⟨0, rfl⟩
  | p :: ps, h => by
    obtain ⟨a, ha⟩ := h p (List.mem_cons_self ..)
    obtain ⟨b, hb⟩ := integralSum_ok ps (fun q hq => h q (List.mem_cons_of_mem _ hq))
    exact ⟨a + b, by simp only [integralSum, ha, hb, ok_bind]; rfl⟩

theorem def_seq (id subs meas cons) (ih : ∀ p ∈ subs, DefClaim p)
    (hsame : sameChannels (PT.firstChannels subs) subs = true) : DefClaim (.seq id subs meas cons) := by
  intro σ mm cm P hden hreg hpos hkeep
  rw [denote] at hden
  simp only [bind_ok_iff] at hden
  obtain ⟨_, _, ms, _, parts, hparts, _⟩ := hden
  simp only [regular] at hreg
  simp only [positive, Bool.and_eq_true] at hpos
  obtain ⟨hne, hpos⟩ := hpos
  have hne : subs ≠ [] := by intro h0; subst h0; simp at hne
  simp only [keeps] at hkeep
  have hsub : ∀ p ∈ subs, (∃ D, templateDuration p σ = .ok D ∧ 0 < D) ∧
      (InjOn cm p.definedChannels → ∀ c o, c ∈ p.definedChannels → cm.lookup c = some (some o) →
        ∃ r, integralOf p σ c = .ok r) := by
    intro p hp
    obtain ⟨q, _, hq⟩ := denoteList_mem subs parts hparts p hp
    exact ih p hp σ mm cm q hq (regularAll_mem hreg p hp) (positiveAll_mem hpos p hp) (keepsAll_mem hkeep p hp)
  refine ⟨?_, ?_⟩
  · rw [templateDuration]
    obtain ⟨D, hD, _, hD0⟩ := templateDurationSum_ok subs (fun p hp => (hsub p hp).1)
    exact ⟨D, hD, hD0 hne⟩
  · intro hinj c o hc hcm
    simp only [PT.definedChannels] at hinj hc
    have hcont : (PT.firstChannels subs).contains c = true := by simpa using hc
    rw [integralOf]
    simp only [hcont, Bool.not_true, Bool.false_eq_true, if_false]
    apply integralSum_ok
    intro p hp
    have hiff := sameChannels_mem hsame p hp
    have hinjp : InjOn cm p.definedChannels := fun c1 c2 o' h1 h2 =>
      hinj c1 c2 o' ((hiff c1).mp h1) ((hiff c2).mp h2)
    exact (hsub p hp).2 hinjp c o ((hiff c).mpr hc) hcm

theorem def_forLoop (id body idx start stop step meas cons) (ih : DefClaim body) :
    DefClaim (.forLoop id body idx start stop step meas cons) := by
  intro σ mm cm P hden hreg hpos hkeep
  obtain ⟨ai, bi, si, parts, p, ms, ha, hb, hs, hsi, hparts, hp, rfl, hall⟩ := forLoop_unfold hden hreg
  simp only [positive, ha, hb, hs, Rat.num_intCast, Bool.and_eq_true, List.all_eq_true] at hpos
  obtain ⟨hne, hposall⟩ := hpos
  have hkeepb : keeps body cm = true := by simpa [keeps] using hkeep
  have hsr : ((si : Rat) = 0) = False := by
    simp only [eq_iff_iff, iff_false]; intro h; exact hsi (Rat.intCast_eq_zero_iff.mp h)
  have hsc : (((bi : Rat) - (ai : Rat)) / (si : Rat)).ceil = stepCount ai bi si := by
    unfold stepCount; rw [Rat.intCast_sub]
  have hlen := rangeLen_eq_stepCount (a := ai) (b := bi) hsi
  have hlen0 : 0 < rangeLen ai bi si := by
    rw [← pyRange_length]
    cases hr : pyRange ai bi si with
    | nil => rw [hr] at hne; simp at hne
    | cons _ _ => simp
  have hscpos : ¬ stepCount ai bi si ≤ 0 := by omega
  -- every index of the range: the body is denoted there
  have hidx : ∀ k, k < rangeLen ai bi si →
      (∃ D, templateDuration body (.range σ idx ((ai : Rat) + (k : Rat) * (si : Rat))) = .ok D ∧ 0 < D) ∧
      (InjOn cm body.definedChannels → ∀ c o, c ∈ body.definedChannels → cm.lookup c = some (some o) →
        ∃ r, integralOf body (.range σ idx ((ai : Rat) + (k : Rat) * (si : Rat))) c = .ok r) := by
    intro k hk
    have hmem : ai + si * (k : Int) ∈ pyRange ai bi si := by
      rw [pyRange_eq_map]; exact List.mem_map.mpr ⟨k, List.mem_range.mpr hk, rfl⟩
    obtain ⟨q, _, hq⟩ := mapM_mem _ _ parts hparts _ hmem
    have := ih _ mm cm q hq (hall _ hmem) (hposall _ hmem) hkeepb
    rw [idx_cast] at this
    exact this
  refine ⟨?_, ?_⟩
  · rw [templateDuration]
    simp only [ha, hb, hs, ok_bind]
    unfold forLoopClosedForm
    simp only [hsr, if_false, hsc, hscpos]
    have hN : (max (stepCount ai bi si) 1).toNat = rangeLen ai bi si := by omega
    rw [hN]
    obtain ⟨ds, hds, _, hds0⟩ := mapM_pos
      (fun (k : Nat) => templateDuration body (.range σ idx ((ai : Rat) + (k : Rat) * (si : Rat))))
      (List.range (rangeLen ai bi si)) (fun k hk => (hidx k (List.mem_range.mp hk)).1)
    refine ⟨sumList ds, by simp only [hds, ok_bind]; rfl, hds0 ?_⟩
    intro h0
    have : (List.range (rangeLen ai bi si)).length = 0 := by rw [h0]; rfl
    simp at this; omega
  · intro hinj c o hc hcm
    simp only [PT.definedChannels] at hinj hc
    rw [integralOf]
    simp only [ha, hb, hs, ok_bind, hsr, if_false, hsc, hscpos]
    have hN : ((if stepCount ai bi si ≤ 1 then 1 else stepCount ai bi si) - 1 + 1).toNat = rangeLen ai bi si := by
      split <;> omega
    rw [hN]
    exact sumRange_ok _ _ (fun k hk => (hidx k hk).2 hinj c o hc hcm)

/-- the updated channel mapping of a mapping template is injective on the body's channels -/
theorem mapping_injU {body : PT} {cm' cm cmU : List (Chan × Option Chan)}
    (hcmU : updatedCm cm' cm = .ok cmU)
    (hinj : InjOn cm (dedup (body.definedChannels.filterMap
      (fun c => match cm'.lookup c with | some (some o) => some o | _ => none))))
    (hnd : hasDup (body.definedChannels.filterMap
      (fun c => match cm'.lookup c with | some (some o) => some o | _ => none)) = false)
    (hnd' : hasDup body.definedChannels = false) : InjOn cmU body.definedChannels := by
  have hlk := updatedCm_lookup hcmU
  intro c1 c2 o' h1 h2 l1 l2
  rw [hlk] at l1 l2
  have key : ∀ c, c ∈ body.definedChannels → (match cm'.lookup c with
      | none => none | some none => some none | some (some x) => cm.lookup x) = some (some o') →
      ∃ x, cm'.lookup c = some (some x) ∧ cm.lookup x = some (some o') := by
    intro c _ hl
    cases h : cm'.lookup c with
    | none => rw [h] at hl; cases hl
    | some y =>
      cases y with
      | none => rw [h] at hl; cases hl
      | some x => rw [h] at hl; exact ⟨x, rfl, hl⟩
  obtain ⟨x1, hx1, hy1⟩ := key c1 h1 l1
  obtain ⟨x2, hx2, hy2⟩ := key c2 h2 l2
  have m1 : x1 ∈ dedup (body.definedChannels.filterMap
      (fun c => match cm'.lookup c with | some (some o) => some o | _ => none)) := by
    rw [mem_dedup]; exact List.mem_filterMap.mpr ⟨c1, h1, by simp [hx1]⟩
  have m2 : x2 ∈ dedup (body.definedChannels.filterMap
      (fun c => match cm'.lookup c with | some (some o) => some o | _ => none)) := by
    rw [mem_dedup]; exact List.mem_filterMap.mpr ⟨c2, h2, by simp [hx2]⟩
  have hx : x1 = x2 := hinj x1 x2 o' m1 m2 hy1 hy2
  rw [← hx] at hx2
  exact filterMap_inj_of_not_hasDup hnd h1 h2 hnd' (x := x1) (by simp [hx1]) (by simp [hx2])

theorem def_mapping (id body pm mm' cm' cons) (ih : DefClaim body)
    (hall : body.definedChannels.all (fun c => (cm'.lookup c).isSome) = true)
    (hnd : hasDup (body.definedChannels.filterMap
      (fun c => match cm'.lookup c with | some (some o) => some o | _ => none)) = false)
    (hnd' : hasDup body.definedChannels = false) :
    DefClaim (.mapping id body pm mm' cm' cons) := by
  intro σ mm cm P hden hreg hpos hkeep
  rw [denote] at hden
  simp only [bind_ok_iff] at hden
  obtain ⟨_, _, mmU, hmm, cmU, hcmU, hden⟩ := hden
  rw [regular] at hreg
  rw [positive] at hpos
  have hkeepU : keeps body cmU = true := by
    simp only [keeps, hcmU] at hkeep; exact hkeep
  obtain ⟨⟨D, hD, hD0⟩, hintg⟩ := ih (.mapped σ pm) mmU cmU P hden hreg hpos hkeepU
  refine ⟨⟨D, by rw [templateDuration]; exact hD, hD0⟩, ?_⟩
  intro hinj ch o hc hcm
  simp only [PT.definedChannels] at hinj hc
  have hlk := updatedCm_lookup hcmU
  have hinjU := mapping_injU hcmU hinj hnd hnd'
  rw [mem_dedup] at hc
  obtain ⟨c0, hc0, hc0'⟩ := List.mem_filterMap.mp hc
  have hc0l : cm'.lookup c0 = some (some ch) := by
    cases h : cm'.lookup c0 with
    | none => rw [h] at hc0'; cases hc0'
    | some y =>
      cases y with
      | none => rw [h] at hc0'; cases hc0'
      | some x => rw [h] at hc0'; cases hc0'; rfl
  have hsome : (innerChan body cm' ch).isSome = true := by
    unfold innerChan
    rw [List.find?_isSome]
    exact ⟨c0, hc0, by simp [hc0l]⟩
  obtain ⟨c, hic⟩ := Option.isSome_iff_exists.mp hsome
  obtain ⟨hm, hl⟩ := innerChan_spec hall hic
  have hlU : cmU.lookup c = some (some o) := by rw [hlk, hl]; exact hcm
  obtain ⟨r, hr⟩ := hintg hinjU c o hm hlU
  refine ⟨r, ?_⟩
  rw [integralOf]
  simp only [hic, keyOf, ok_bind]
  exact hr

theorem def_parallel (id body over) (ih : DefClaim body) : DefClaim (.parallel id body over) := by
  intro σ mm cm P hden hreg hpos hkeep
  rw [denote] at hden
  simp only [bind_ok_iff] at hden
  obtain ⟨ov, hov, b, hb, _⟩ := hden
  rw [regular] at hreg
  rw [positive] at hpos
  have hkeepb : keeps body cm = true := by simpa [keeps] using hkeep
  obtain ⟨⟨D, hD, hD0⟩, hintg⟩ := ih σ mm cm b hb hreg hpos hkeepb
  refine ⟨⟨D, by rw [templateDuration]; exact hD, hD0⟩, ?_⟩
  intro hinj c o hc hcm
  simp only [PT.definedChannels] at hinj hc
  have hmemdc : ∀ x, x ∈ body.definedChannels ∨ x ∈ over.map (·.1) →
      x ∈ dedup (body.definedChannels ++ over.map (·.1)) := fun x hx => (mem_dedup _ _).mpr (List.mem_append.mpr hx)
  obtain ⟨_, _, cs, hcs, _⟩ := overwrittenValues_spec hov
  rw [integralOf]
  cases hoc : over.lookup c with
  | some e =>
    obtain ⟨_, h2⟩ := filterMapM_kept cm σ.eval over cs hcs
    obtain ⟨v, hv, _⟩ := h2 (c, e) (mem_of_lookup over c e hoc) o hcm
    simp only [hv, hD, ok_bind]
    exact ⟨_, rfl⟩
  | none =>
    simp only
    have hcb : c ∈ body.definedChannels := by
      rcases List.mem_append.mp ((mem_dedup _ _).mp hc) with h | h
      · exact h
      · obtain ⟨e, he⟩ := lookup_isSome_of_mem_keys over c h
        rw [he] at hoc; cases hoc
    have hinjb : InjOn cm body.definedChannels := fun c1 c2 o' h1 h2 =>
      hinj c1 c2 o' (hmemdc _ (Or.inl h1)) (hmemdc _ (Or.inl h2))
    exact hintg hinjb c o hcb hcm

theorem def_atomicMulti (id subs dur meas cons) (ih : ∀ p ∈ subs, DefClaim p) (hne : subs ≠ []) :
    DefClaim (.atomicMulti id subs dur meas cons) := by
  intro σ mm cm P hden hreg hpos hkeep
  obtain ⟨parts, hparts, _⟩ := denote_atomicMulti hden
  simp only [regular, Bool.and_eq_true] at hreg
  obtain ⟨⟨hregall, _⟩, hdur⟩ := hreg
  simp only [positive] at hpos
  simp only [keeps] at hkeep
  have hsub : ∀ p ∈ subs, (∃ D, templateDuration p σ = .ok D ∧ 0 < D) ∧
      (InjOn cm p.definedChannels → ∀ c o, c ∈ p.definedChannels → cm.lookup c = some (some o) →
        ∃ r, integralOf p σ c = .ok r) := by
    intro p hp
    obtain ⟨q, _, hq⟩ := denoteList_mem subs parts hparts p hp
    exact ih p hp σ mm cm q hq (regularAll_mem hregall p hp) (positiveAll_mem hpos p hp) (keepsAll_mem hkeep p hp)
  refine ⟨?_, ?_⟩
  · cases subs with
    | nil => exact absurd rfl hne
    | cons p ps =>
      obtain ⟨D, hD, hD0⟩ := (hsub p (List.mem_cons_self ..)).1
      cases dur with
      | none => exact ⟨D, by simp only [templateDuration, templateDurationFirst]; exact hD, hD0⟩
      | some de =>
        simp only [templateDuration]
        simp only [templateDurationFirst, hD] at hdur
        cases hde : σ.eval de with
        | error err => rw [hde] at hdur; cases hdur
        | ok x =>
          rw [hde] at hdur
          have : x = D := by simpa using hdur
          exact ⟨x, rfl, by rw [this]; exact hD0⟩
  · intro hinj c o hc hcm
    simp only [PT.definedChannels] at hinj hc
    rw [mem_dedup] at hc
    obtain ⟨p, hpick⟩ := pickSub_some hc
    obtain ⟨hp, hcp⟩ := pickSub_spec hpick
    have hinjp : InjOn cm p.definedChannels := fun c1 c2 o' h1 h2 =>
      hinj c1 c2 o' ((mem_dedup _ _).mpr (mem_allChannels_of hp h1)) ((mem_dedup _ _).mpr (mem_allChannels_of hp h2))
    obtain ⟨r, hr⟩ := (hsub p hp).2 hinjp c o hcp hcm
    refine ⟨r, ?_⟩
    rw [integralOf, integralMulti_pick, hpick]
    exact hr

theorem evalKw_ok_eval {σ : Scope} {e : Expr} {s : Rat} (h1 : σ.evalKw e = .ok s) : σ.eval e = .ok s := by
  unfold Scope.evalKw at h1
  simp only [bind_ok_iff] at h1
  obtain ⟨_, _, h1⟩ := h1
  have := eval_mono (look2 := σ.look) (fun x w hx => by
    revert hx
    cases hl : σ.look x with
    | ok u => intro hx; exact hx
    | error er => cases er <;> intro hx <;> cases hx) e s h1
  unfold Scope.eval
  exact this

theorem arithCombine_ok (op : AOp) (ptIsLhs : Bool) (I : Rat) (scv : Option Rat)
    (h1 : ¬ (op = .div ∧ ptIsLhs = false)) (h2 : op = .div → ∀ v, scv = some v → v ≠ 0) :
    ∃ r, arithCombine op ptIsLhs (some I) scv = .ok r := by
  unfold arithCombine
  cases ptIsLhs <;> cases op <;> cases scv <;> simp only [Bool.false_eq_true, if_false, if_true] <;>
    first
    | exact ⟨_, rfl⟩
    | (exfalso; exact h1 ⟨rfl, rfl⟩)
    | (rename_i v
       have := h2 rfl v rfl
       simp only [this, if_false]
       exact ⟨_, rfl⟩)

theorem def_arith (id body op scalar ptIsLhs) (ih : DefClaim body) (hinv : InvClaim body)
    (hwf : scalarWf body scalar) (hntd : scalarTimeDependent scalar = false) :
    DefClaim (.arith id body op scalar ptIsLhs) := by
  intro σ mm cm P hden hreg hpos hkeep
  rw [denote] at hden
  simp only [bind_ok_iff] at hden
  obtain ⟨b, hb, hden⟩ := hden
  rw [regular] at hreg
  rw [positive] at hpos
  have hkeepb : keeps body cm = true := by simpa [keeps] using hkeep
  obtain ⟨⟨D, hD, hD0⟩, hintg⟩ := ih σ mm cm b hb hreg hpos hkeepb
  refine ⟨⟨D, by rw [templateDuration]; exact hD, hD0⟩, ?_⟩
  intro hinj c o hc hcm
  simp only [PT.definedChannels] at hinj hc
  obtain ⟨i1, _, i3⟩ := hinv σ mm cm b hb hreg
  have hbne : b.isEmpty = false := by
    cases hbe : b.isEmpty with
    | false => rfl
    | true =>
      have h0 := i1.empty_dur hbe
      have := i3 hkeepb D hD
      rw [this, h0] at hD0
      exact absurd hD0 (by grind)
  simp only [hbne, Bool.false_eq_true, if_false, bind_ok_iff, pure_ok_iff] at hden
  obtain ⟨T, hT, _⟩ := hden
  rw [arithTransformation_eq, bind_ok_iff] at hT
  obtain ⟨sv, hsv, hT⟩ := hT
  have hlook := arithSv_lookup hsv hc hcm hinj hwf
  obtain ⟨I, hI⟩ := hintg hinj c o hc hcm
  have hcont : body.definedChannels.contains c = true := by simpa using hc
  -- what `_get_transformation` accepted
  have hnd : ¬ (op = .div ∧ ptIsLhs = false) := by
    rintro ⟨rfl, rfl⟩
    simp [arithTail] at hT
  have hnz : op = .div → ∀ s, sv.lookup o = some s → s ≠ 0 := by
    rintro rfl s hs h0
    cases ptIsLhs with
    | false => exact hnd ⟨rfl, rfl⟩
    | true =>
      simp only [arithTail, if_true] at hT
      split at hT
      · cases hT
      · rename_i hany
        apply hany
        rw [List.any_eq_true]
        exact ⟨(o, s), mem_of_lookup sv o s hs, by simp [h0]⟩
  rw [integralOf]
  simp only [hntd, Bool.false_eq_true, if_false, hcont, if_true, hI, ok_bind]
  cases hso : scalarOn body scalar c with
  | none =>
    simp only [pure, Except.pure, ok_bind]
    exact arithCombine_ok op ptIsLhs I none hnd (fun _ v hv => by cases hv)
  | some ex =>
    rw [hso] at hlook
    obtain ⟨s, hs, hsl⟩ := hlook
    have hev := evalKw_ok_eval hs
    simp only [hev, ok_bind]
    cases op with
    | plus =>
      simp only [hD, ok_bind, pure, Except.pure]
      exact arithCombine_ok _ ptIsLhs I _ hnd (fun h => by cases h)
    | minus =>
      simp only [hD, ok_bind, pure, Except.pure]
      exact arithCombine_ok _ ptIsLhs I _ hnd (fun h => by cases h)
    | times =>
      simp only [ok_bind, pure, Except.pure]
      exact arithCombine_ok _ ptIsLhs I _ hnd (fun h => by cases h)
    | div =>
      simp only [ok_bind, pure, Except.pure]
      refine arithCombine_ok _ ptIsLhs I _ hnd (fun _ v hv => ?_)
      cases hv
      exact hnz rfl s hsl

theorem def_arithAtomic (id lhs minus rhs meas) (ihl : DefClaim lhs) (ihr : DefClaim rhs) :
    DefClaim (.arithAtomic id lhs minus rhs meas) := by
  intro σ mm cm P hden hreg hpos hkeep
  simp only [regular, Bool.and_eq_true] at hreg
  obtain ⟨⟨hrl, hrr⟩, _⟩ := hreg
  simp only [positive, Bool.and_eq_true] at hpos
  simp only [keeps, Bool.and_eq_true] at hkeep
  obtain ⟨l, r, hl, hr, _⟩ := denote_arithAtomic hden
  obtain ⟨⟨Dl, hDl, hDl0⟩, hintl⟩ := ihl σ mm cm l hl hrl hpos.1 hkeep.1
  obtain ⟨⟨Dr, hDr, hDr0⟩, hintr⟩ := ihr σ mm cm r hr hrr hpos.2 hkeep.2
  refine ⟨⟨if Dl ≤ Dr then Dr else Dl, by rw [templateDuration]; simp only [hDl, hDr, ok_bind]; rfl,
    by split <;> assumption⟩, ?_⟩
  intro hinj c o hc hcm
  simp only [PT.definedChannels] at hinj hc
  have hmemdc : ∀ x, x ∈ lhs.definedChannels ∨ x ∈ rhs.definedChannels →
      x ∈ dedup (lhs.definedChannels ++ rhs.definedChannels) := fun x hx => (mem_dedup _ _).mpr (List.mem_append.mpr hx)
  have hinjl : InjOn cm lhs.definedChannels := fun c1 c2 o' h1 h2 =>
    hinj c1 c2 o' (hmemdc _ (Or.inl h1)) (hmemdc _ (Or.inl h2))
  have hinjr : InjOn cm rhs.definedChannels := fun c1 c2 o' h1 h2 =>
    hinj c1 c2 o' (hmemdc _ (Or.inr h1)) (hmemdc _ (Or.inr h2))
  rw [integralOf]
  by_cases hcl : c ∈ lhs.definedChannels
  · have hclb : lhs.definedChannels.contains c = true := by simpa using hcl
    obtain ⟨il, hil⟩ := hintl hinjl c o hcl hcm
    simp only [hclb, if_true, hil, ok_bind]
    by_cases hcr : c ∈ rhs.definedChannels
    · have hcrb : rhs.definedChannels.contains c = true := by simpa using hcr
      obtain ⟨ir, hir⟩ := hintr hinjr c o hcr hcm
      simp only [hcrb, if_true, hir, ok_bind]
      exact ⟨_, rfl⟩
    · have hcrb : rhs.definedChannels.contains c = false := by simpa using hcr
      simp only [hcrb, Bool.false_eq_true, if_false]
      exact ⟨_, rfl⟩
  · have hclb : lhs.definedChannels.contains c = false := by simpa using hcl
    have hcr : c ∈ rhs.definedChannels := by
      rcases List.mem_append.mp ((mem_dedup _ _).mp hc) with h | h
      · exact absurd h hcl
      · exact h
    have hcrb : rhs.definedChannels.contains c = true := by simpa using hcr
    obtain ⟨ir, hir⟩ := hintr hinjr c o hcr hcm
    simp only [hclb, Bool.false_eq_true, if_false, hcrb, if_true, hir, ok_bind]
    exact ⟨_, rfl⟩

/-! ### the induction -/

mutual
theorem defClaim : ∀ (pt : PT), supported pt = true → DefClaim pt
  | .const id dur amps meas, _ => def_const id dur amps meas
  | .func id ch dur e meas cons, h => by
      simp only [supported] at h
      exact def_func id ch dur e meas cons h
  | .seq id subs meas cons, h => by
      simp only [supported, Bool.and_eq_true] at h
      exact def_seq id subs meas cons (defClaimAll subs h.1) h.2
  | .rep id body count meas cons, h => by
      simp only [supported] at h
      exact def_rep id body count meas cons (defClaim body h)
  | .forLoop id body idx start stop step meas cons, h => by
      simp only [supported] at h
      exact def_forLoop id body idx start stop step meas cons (defClaim body h)
  | .mapping id body pm mm' cm' cons, h => by
      simp only [supported, Bool.and_eq_true, Bool.not_eq_true'] at h
      exact def_mapping id body pm mm' cm' cons (defClaim body h.1.1.1) h.1.1.2 h.1.2 h.2
  | .table id entries meas cons, _ => def_table id entries meas cons
  | .timeReversal id body, h => by
      simp only [supported] at h
      exact def_timeReversal id body (defClaim body h)
  | .point id chans entries meas cons, _ => def_point id chans entries meas cons
  | .parallel id body over, h => by
      simp only [supported, Bool.and_eq_true, Bool.not_eq_true'] at h
      exact def_parallel id body over (defClaim body h.1)
  | .atomicMulti id subs dur meas cons, h => by
      simp only [supported, Bool.and_eq_true, Bool.not_eq_true'] at h
      refine def_atomicMulti id subs dur meas cons (defClaimAll subs h.1) ?_
      intro h0; rw [h0] at h; simp at h
  | .arith id body op scalar ptIsLhs, h => by
      simp only [supported, Bool.and_eq_true, Bool.not_eq_true'] at h
      refine def_arith id body op scalar ptIsLhs (defClaim body h.1.1) (invClaim body h.1.1) ?_ h.1.2
      have h2 := h.2
      cases scalar with
      | uniform e => exact True.intro
      | perChan m =>
        simp only [Bool.and_eq_true, Bool.not_eq_true', List.all_eq_true] at h2
        exact ⟨h2.1, fun x hx => by simpa using h2.2 x hx⟩
  | .arithAtomic id lhs minus rhs meas, h => by
      simp only [supported, Bool.and_eq_true] at h
      exact def_arithAtomic id lhs minus rhs meas (defClaim lhs h.1) (defClaim rhs h.2)
theorem defClaimAll : ∀ (subs : List PT), supportedAll subs = true → ∀ p ∈ subs, DefClaim p
  | [], _ => fun p hp => nomatch hp
  | q :: qs, h => by
      simp only [supportedAll, Bool.and_eq_true] at h
      intro p hp
      rcases List.mem_cons.mp hp with hpq | hp
      · rw [hpq]; exact defClaim q h.1
      · exact defClaimAll qs h.2 p hp
end

end QP.C07
