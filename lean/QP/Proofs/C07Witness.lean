import QP.Proofs.C07Main
/-!
# C07: concrete witnesses of the documented classes, evaluated by `simp`
-/
namespace QP.C07
open QP.PT

/-- `ForLoopPT(ConstantPT(1, {'A': 'v + i'}), 'i', (0, 5, 2))` -/
def loopWitness : PT :=
  .forLoop none (.const none (.lit 1) [("A", .add (.var "v") (.var "i"))] []) "i" (.lit 0) (.lit 5) (.lit 2) [] []

theorem floor52 : (((5 : Rat) - 0) / 2).floor = 2 := by
  apply Int.le_antisymm
  · have : (((5 : Rat) - 0) / 2).floor < 3 := by rw [Rat.floor_lt_iff]; grind
    omega
  · rw [Rat.le_floor_iff]; grind

/-- PF-09 (open finding): `final_correct` is false for the code as it is.  For `range(0, 5, 2)` the closed form
evaluates the body at index 2 (`v + 2 = 5/2`), the pulse ends with the iteration `i = 4` (`9/2`). -/
theorem final_counterexample_eval :
    finalOf loopWitness (.dict [("v", 1/2)]) "A" = .ok (5/2) ∧
    ∃ P, denote loopWitness (.dict [("v", 1/2)]) [] [("A", some "A")] = .ok P ∧
      plEnd .last (pulseVal P "A") = some (9/2) ∧
      pathTags .last loopWitness (.dict [("v", 1/2)]) [] [("A", some "A")] "A" = .ok [Tag.pf09] := by
  have c0 : checkedInt (0 : Rat) = some 0 := checkedInt_intCast 0
  have c5 : checkedInt (5 : Rat) = some 5 := checkedInt_intCast 5
  have c2 : checkedInt (2 : Rat) = some 2 := checkedInt_intCast 2
  have hr : pyRange 0 5 2 = [0, 2, 4] := by decide
  have n0 : (0 : Rat).num = 0 := rfl
  have n5 : (5 : Rat).num = 5 := rfl
  have n2 : (2 : Rat).num = 2 := rfl
  refine ⟨?_, ?_⟩
  · simp [finalOf, endOf, loopWitness, Scope.eval, Expr.eval, Scope.look, List.lookup, keyOf, floor52, Functor.map,
      Except.map]
    grind
  · first
    | (simp [loopWitness, denote, validateCons, Scope.eval, Expr.eval, c0, c5, c2, hr, getMeas, Scope.look, List.lookup,
        chanLookup, dictOfList, dictSet, hasDup, atomicMeas, Pulse.appendAll, Pulse.append, Pulse.isEmpty, Pulse.empty,
        sameSet, Pulse.chanNames, Pulse.withOwn, pulseVal, plEnd, plLast, pure, Except.pure, bind, Except.bind,
        show (0 : Rat) < 1 by grind, List.foldlM, List.forM, List.mapM_cons, List.mapM_nil, pathTags, n0, n5, n2,
        floor52, chanEmpty]
       grind)
    | (-- the variant of `QP.PT.denote` that casts the range parameters with `intOrErr`
       simp [loopWitness, denote, validateCons, Scope.eval, Expr.eval, intOrErr, c0, c5, c2, hr, getMeas, Scope.look,
        List.lookup, chanLookup, dictOfList, dictSet, hasDup, atomicMeas, Pulse.appendAll, Pulse.append, Pulse.isEmpty,
        Pulse.empty, sameSet, Pulse.chanNames, Pulse.withOwn, pulseVal, plEnd, plLast, pure, Except.pure, bind,
        Except.bind, show (0 : Rat) < 1 by grind, List.foldlM, List.forM, List.mapM_cons, List.mapM_nil, pathTags, n0, n5,
        n2, floor52, chanEmpty]
       grind)

/-- `SequencePT(RepetitionPT(ConstantPT(1, {'A': 1}), 'n'), ConstantPT(1, {'A': 2}))` -/
def emptyPartWitness : PT :=
  .seq none [.rep none (.const none (.lit 1) [("A", .lit 1)] []) (.var "n") [] [],
             .const none (.lit 1) [("A", .lit 2)] []] [] []

/-- PF-C07-3 (open finding): with `n = 0` the first part is empty; `initial_values` still reports its value 1,
the pulse starts with 2 -/
theorem initial_counterexample_empty_part_eval :
    initialOf emptyPartWitness (.dict [("n", 0)]) "A" = .ok 1 ∧
    ∃ P, denote emptyPartWitness (.dict [("n", 0)]) [] [("A", some "A")] = .ok P ∧
      plEnd .first (pulseVal P "A") = some 2 ∧
      pathTags .first emptyPartWitness (.dict [("n", 0)]) [] [("A", some "A")] "A" = .ok [Tag.emptyPart] := by
  have c0 : checkedInt (0 : Rat) = some 0 := checkedInt_intCast 0
  refine ⟨?_, ?_⟩
  · simp [initialOf, endOf, endOfEnd, emptyPartWitness, Scope.eval, Expr.eval, List.lookup, keyOf]
  · simp [emptyPartWitness, denote, denoteList, validateCons, Scope.eval, Expr.eval, c0, getMeas, Scope.look,
      List.lookup, chanLookup, dictOfList, dictSet, hasDup, atomicMeas, Pulse.appendAll, Pulse.append, Pulse.isEmpty,
      Pulse.empty, sameSet, Pulse.chanNames, Pulse.withOwn, pulseVal, plEnd, pure, Except.pure, bind, Except.bind,
      show (0 : Rat) < 1 by grind, List.foldlM, List.forM, pathTags, pathTagsEnd, chanEmpty]


/-- `TablePT({'A': [(0, 1), (1, 3, 'jump')]})` -/
def jumpWitness : PT :=
  .table none [("A", [⟨.lit 0, .lit 1, .hold⟩, ⟨.lit 1, .lit 3, .jump⟩])] [] []

/-- `TablePT({'A': [(0, 1), (1, 3, 'hold')]})` -/
def holdWitness : PT :=
  .table none [("A", [⟨.lit 0, .lit 1, .hold⟩, ⟨.lit 1, .lit 3, .hold⟩])] [] []

theorem initial_counterexample_jump_eval :
    initialOf jumpWitness (.dict []) "A" = .ok 1 ∧
    ∃ P, denote jumpWitness (.dict []) [] [("A", some "A")] = .ok P ∧
      plEnd .first (pulseVal P "A") = some 3 ∧
      pathTags .first jumpWitness (.dict []) [] [("A", some "A")] "A" = .ok [Tag.tableStart] := by
  refine ⟨?_, ?_⟩
  · simp [initialOf, endOf, jumpWitness, Scope.eval, Expr.eval, List.lookup, keyOf]
  · simp [jumpWitness, denote, validateCons, tableInstantiate, instEntries, Scope.eval, Expr.eval, List.lookup,
      chanLookup, hasDup, atomicMeas, getMeas, lastEntry?, tablePL, sortedTimes, lastT, entriesToPL,
      pulseVal, plEnd, pure, Except.pure, bind, Except.bind, List.foldlM, List.forM, pathTags, tableTags, keyOf,
      show ¬ ((0:Rat) > 0) by grind, show ¬ ((1:Rat) < 1) by grind, show (0:Rat) < 1 by grind,
      show (0:Rat) ≤ 1 by grind, show ¬ ((1:Rat) = 0) by grind, show ((1:Rat) == 3) = false by decide]

theorem final_table_hold_specified_eval :
    finalOf holdWitness (.dict []) "A" = .ok 3 ∧
    ∃ P, denote holdWitness (.dict []) [] [("A", some "A")] = .ok P ∧
      plEnd .last (pulseVal P "A") = some 1 ∧
      pathTags .last holdWitness (.dict []) [] [("A", some "A")] "A" = .ok [Tag.tableEnd] := by
  refine ⟨?_, ?_⟩
  · simp [finalOf, endOf, holdWitness, Scope.eval, Expr.eval, List.lookup, keyOf]
  · simp [holdWitness, denote, validateCons, tableInstantiate, instEntries, Scope.eval, Expr.eval, List.lookup,
      chanLookup, hasDup, atomicMeas, getMeas, lastEntry?, tablePL, sortedTimes, lastT, entriesToPL,
      pulseVal, plEnd, plLast, pure, Except.pure, bind, Except.bind, List.foldlM, List.forM, pathTags, tableTags, keyOf,
      show ¬ ((0:Rat) > 0) by grind, show ¬ ((1:Rat) < 1) by grind, show (0:Rat) < 1 by grind,
      show (0:Rat) ≤ 1 by grind, show ¬ ((1:Rat) = 0) by grind]

/-- `3 * ParallelChannelPT(PointPT([(0, 1), (2, 3, 'linear')], ['A']) + AtomicMultiChannelPT(ConstantPT(2, {'A': 1}),
ConstantPT(2, {'B': 2})), {'C': 5})`: point, atomic arithmetic, atomic multi channel, parallel channel and scalar
arithmetic templates in one tree -/
def newKindsWitness : PT :=
  .arith none
    (.parallel none
      (.arithAtomic none
        (.point none ["A"] [{ t := .lit 0, vs := [.lit 1], bcast := true, interp := .hold },
                            { t := .lit 2, vs := [.lit 3], bcast := false, interp := .linear }] [] [])
        false
        (.atomicMulti none [.const none (.lit 2) [("A", .lit 1)] [], .const none (.lit 2) [("B", .lit 2)] []] none [] [])
        [])
      [("C", .lit 5)])
    .times (.uniform (.lit 3)) false

def newKindsCm : List (Chan × Option Chan) := [("A", some "A"), ("B", some "B"), ("C", some "C")]

/-- the hypotheses of the `_partial` theorems hold for `newKindsWitness`, it denotes a pulse, and the closed forms
evaluate (kernel evaluation, no compiler involved) -/
theorem newKinds_eval :
    supported newKindsWitness = true ∧ regular newKindsWitness (.dict []) = true ∧
    keeps newKindsWitness newKindsCm = true ∧
    (match denote newKindsWitness (.dict []) [] newKindsCm with
     | .ok P => plIntegral (pulseVal P "A") == 18 && plEnd .last (pulseVal P "A") == some 12 && P.dur == 2
     | .error _ => false) = true ∧
    (match integralOf newKindsWitness (.dict []) "A", finalOf newKindsWitness (.dict []) "A",
        pathTags .last newKindsWitness (.dict []) [] newKindsCm "A" with
     | .ok i, .ok f, .ok tags => i == 18 && f == 12 && tags.isEmpty
     | _, _, _ => false) = true := by
  refine ⟨by decide, by decide, by decide, by decide +kernel, by decide +kernel⟩

end QP.C07
