import QP.Model.PT
import QP.Proofs.PTSample
import QP.Proofs.PTTop
import Mathlib.Tactic.FieldSimp
/-! Piecewise linear functions under time reversal: left-closed evaluation `PL.atL`, the reversed function, and the
judge's admissible values `PL.adm` at the (ambiguous) junctions of a reversed function. -/
namespace QP.PT

/-- left-closed evaluation: the value at `τ` comes from the piece with `start < τ ≤ start + len` -/
def PL.atL : PL → Rat → Option Rat
  | [], _ => none
  | s :: rest, τ => if τ ≤ s.len then some (s.valueAt τ) else PL.atL rest (τ - s.len)

theorem PL.atL_append_left (p q : PL) (τ : Rat) (h0 : 0 < τ) (h : τ ≤ PL.dur p) :
    PL.atL (p ++ q) τ = PL.atL p τ := by
  induction p generalizing τ with
  | nil => simp [PL.dur] at h; linarith
  | cons s r ih =>
    simp only [List.cons_append, PL.atL]
    by_cases hs : τ ≤ s.len
    · simp [hs]
    · simp only [hs, if_false]
      apply ih
      · linarith
      · simp only [PL.dur] at h; linarith

theorem PL.atL_append_right (p q : PL) (τ : Rat) (hp : p.pos) (h : PL.dur p < τ) :
    PL.atL (p ++ q) τ = PL.atL q (τ - PL.dur p) := by
  induction p generalizing τ with
  | nil => simp [PL.dur]
  | cons s r ih =>
    have hr : PL.pos r := fun x hx => hp x (by simp [hx])
    have hrd := PL.dur_nonneg r hr
    simp only [PL.dur] at h
    have hs : ¬ τ ≤ s.len := by linarith
    simp only [List.cons_append, PL.atL, hs, if_false]
    rw [ih (τ - s.len) hr (by linarith)]
    simp only [PL.dur]
    congr 1
    ring

theorem PL.atL_replicate (n : Nat) (p : PL) (hp : p.pos) (k : Nat) (τ : Rat) (hk : k < n)
    (h1 : PL.dur p * k < τ) (h2 : τ ≤ PL.dur p * (k + 1)) :
    PL.atL (PL.replicate n p) τ = PL.atL p (τ - PL.dur p * k) := by
  induction n generalizing k τ with
  | zero => omega
  | succ n ih =>
    have hd := PL.dur_nonneg p hp
    simp only [PL.replicate] at ih ⊢
    rw [List.replicate_succ, List.flatten_cons]
    cases k with
    | zero =>
      simp only [Nat.cast_zero, mul_zero, zero_add, mul_one, sub_zero] at h1 h2 ⊢
      exact PL.atL_append_left _ _ _ h1 h2
    | succ k =>
      push_cast at h1 h2 ⊢
      rw [PL.atL_append_right _ _ _ hp (by nlinarith)]
      rw [ih k (τ - PL.dur p) (by omega) (by linarith) (by linarith)]
      congr 1
      ring

/-! ### the judge's admissible values -/

/-- the end value of the last piece (or what was there before) -/
def lastV (prev : Option Rat) (p : PL) : Option Rat :=
  match p.getLast? with
  | some s => some s.v1
  | none => prev

theorem lastV_cons (prev : Option Rat) (s : Seg) (r : PL) : lastV prev (s :: r) = lastV (some s.v1) r := by
  cases r with
  | nil => simp [lastV]
  | cons x xs =>
    simp only [lastV, List.getLast?_cons_cons]
    cases h : (x :: xs).getLast? with
    | none => simp at h
    | some y => rfl

theorem PL.adm_append_left (prev : Option Rat) (p q : PL) (t : Rat) (h0 : 0 ≤ t) (h : t < PL.dur p) :
    PL.adm prev (p ++ q) t = PL.adm prev p t := by
  induction p generalizing t prev with
  | nil => simp [PL.dur] at h; linarith
  | cons s r ih =>
    simp only [List.cons_append, PL.adm]
    by_cases hs : t < s.len
    · simp [hs]
    · simp only [hs, if_false]
      apply ih
      · linarith
      · simp only [PL.dur] at h; linarith

theorem PL.adm_append_right (prev : Option Rat) (p q : PL) (t : Rat) (hp : p.pos) (h : PL.dur p ≤ t) :
    PL.adm prev (p ++ q) t = PL.adm (lastV prev p) q (t - PL.dur p) := by
  induction p generalizing t prev with
  | nil => simp [PL.dur, lastV]
  | cons s r ih =>
    have hr : PL.pos r := fun x hx => hp x (by simp [hx])
    have hrd := PL.dur_nonneg r hr
    simp only [PL.dur] at h
    have hs : ¬ t < s.len := by linarith
    simp only [List.cons_append, PL.adm, hs, if_false]
    rw [ih (some s.v1) (t - s.len) hr (by linarith), lastV_cons]
    simp only [PL.dur]
    congr 1
    ring

theorem PL.adm_mono (prev : Option Rat) : ∀ (q : PL) (t v : Rat), v ∈ PL.adm none q t → v ∈ PL.adm prev q t := by
  intro q
  cases q with
  | nil => intro t v h; simp [PL.adm] at h
  | cons s r =>
    intro t v h
    simp only [PL.adm] at h ⊢
    by_cases hs : t < s.len
    · simp only [hs, if_true] at h ⊢
      rcases List.mem_cons.mp h with rfl | h
      · simp
      · split at h <;> simp at h
    · simp only [hs, if_false] at h ⊢
      exact h

theorem PL.adm_replicate (n : Nat) (p : PL) (hp : p.pos) (k : Nat) (t v : Rat) (hk : k < n)
    (h1 : PL.dur p * k ≤ t) (h2 : t < PL.dur p * (k + 1)) (hv : v ∈ PL.adm none p (t - PL.dur p * k)) :
    v ∈ PL.adm none (PL.replicate n p) t := by
  induction n generalizing k t with
  | zero => omega
  | succ n ih =>
    have hd := PL.dur_nonneg p hp
    simp only [PL.replicate] at ih ⊢
    rw [List.replicate_succ, List.flatten_cons]
    cases k with
    | zero =>
      simp only [Nat.cast_zero, mul_zero, zero_add, mul_one, sub_zero] at h1 h2 hv
      rw [PL.adm_append_left _ _ _ _ h1 h2]
      exact hv
    | succ k =>
      push_cast at h1 h2 hv
      rw [PL.adm_append_right _ _ _ _ hp (by nlinarith)]
      apply PL.adm_mono
      apply ih k (t - PL.dur p) (by omega) (by linarith) (by linarith)
      have : t - PL.dur p - PL.dur p * (k : Rat) = t - PL.dur p * ((k : Rat) + 1) := by ring
      rw [this]; exact hv

theorem Seg.valueAt_len (s : Seg) (h : 0 < s.len) : s.valueAt s.len = s.v1 := by
  unfold Seg.valueAt
  have : s.len ≠ 0 := ne_of_gt h
  field_simp
  ring

/-- an admissible value is the right-open value, or the left limit (at a junction) -/
theorem PL.adm_cases : ∀ (pl : PL), pl.pos → ∀ (prev : Option Rat) (t v : Rat), 0 ≤ t → v ∈ PL.adm prev pl t →
    PL.at pl t = some v ∨ (t = 0 ∧ prev = some v) ∨ (0 < t ∧ PL.atL pl t = some v) := by
  intro pl
  induction pl with
  | nil => intro _ prev t v _ h; simp [PL.adm] at h
  | cons s r ih =>
    intro hp prev t v h0 h
    have hr : PL.pos r := fun x hx => hp x (by simp [hx])
    have hs0 : 0 < s.len := hp s (by simp)
    simp only [PL.adm] at h
    by_cases hs : t < s.len
    · simp only [hs, if_true] at h
      rcases List.mem_cons.mp h with rfl | h
      · left; simp [PL.at, hs]
      · right; left
        split at h
        · rename_i hc
          cases prev with
          | none => simp at h
          | some p => simp only [List.mem_singleton] at h; exact ⟨hc.1, by rw [h]⟩
        · simp at h
    · simp only [hs, if_false] at h
      have hge : s.len ≤ t := not_lt.mp hs
      rcases ih hr (some s.v1) (t - s.len) v (by linarith) h with h1 | ⟨h1, h2⟩ | ⟨h1, h2⟩
      · left; simp [PL.at, hs, h1]
      · right; right
        have : t = s.len := by linarith
        subst this
        simp only [Option.some.injEq] at h2
        refine ⟨hs0, ?_⟩
        simp [PL.atL, Seg.valueAt_len s hs0, h2]
      · right; right
        refine ⟨by linarith, ?_⟩
        have : ¬ t ≤ s.len := by linarith
        simp [PL.atL, this, h2]

/-! ### the reversed function -/

def Seg.swap (s : Seg) : Seg := { s with v0 := s.v1, v1 := s.v0 }

/-- `PL.reversed` with every junction marked ambiguous -/
def PL.revAmb (p : PL) : PL := (p.reverse.map Seg.swap).map (fun r => { r with amb := true })

theorem PL.revAmb_snoc (p : PL) (s : Seg) : PL.revAmb (p ++ [s]) = { s.swap with amb := true } :: PL.revAmb p := by
  simp [PL.revAmb]

theorem PL.at_amb (p : PL) (f : Seg → Bool) : ∀ t, PL.at (p.map (fun r => { r with amb := f r })) t = PL.at p t := by
  induction p with
  | nil => intro t; rfl
  | cons s r ih =>
    intro t
    simp only [List.map_cons, PL.at, Seg.valueAt]
    rw [ih]

theorem PL.reversed_eq (p : PL) : p.reversed =
    match p.reverse.map Seg.swap with
    | [] => []
    | s :: rest => { s with amb := false } :: rest.map (fun r => { r with amb := true }) := rfl

theorem PL.at_reversed (p : PL) (t : Rat) : PL.at p.reversed t = PL.at p.revAmb t := by
  rw [PL.reversed_eq]
  unfold PL.revAmb
  cases h : p.reverse.map Seg.swap with
  | nil => rfl
  | cons s rest =>
    simp only [List.map_cons, PL.at, Seg.valueAt]

theorem PL.adm_none_reversed (p : PL) (t : Rat) : PL.adm none p.reversed t = PL.adm none p.revAmb t := by
  rw [PL.reversed_eq]
  unfold PL.revAmb
  cases h : p.reverse.map Seg.swap with
  | nil => rfl
  | cons s rest =>
    simp only [List.map_cons, PL.adm, Seg.valueAt]
    by_cases hs : t < s.len
    · simp [hs]
    · simp [hs]

theorem PL.dur_revAmb (p : PL) : PL.dur p.revAmb = PL.dur p := by
  induction p using List.reverseRecOn with
  | nil => rfl
  | append_singleton p s ih =>
    rw [PL.revAmb_snoc, PL.dur_append]
    simp only [PL.dur, Seg.swap, ih]
    ring

theorem PL.pos_revAmb {p : PL} (hp : p.pos) : p.revAmb.pos := by
  intro s hs
  simp only [PL.revAmb, List.map_map, List.mem_map, List.mem_reverse] at hs
  obtain ⟨s0, hs0, rfl⟩ := hs
  exact hp s0 hs0

theorem swap_valueAt (s : Seg) (h : 0 < s.len) (x : Rat) (b : Bool) :
    ({ s.swap with amb := b } : Seg).valueAt x = s.valueAt (s.len - x) := by
  simp only [Seg.valueAt, Seg.swap]
  have : s.len ≠ 0 := ne_of_gt h
  field_simp
  ring

theorem PL.at_singleton (s : Seg) (x : Rat) (h : x < s.len) : PL.at [s] x = some (s.valueAt x) := by
  simp [PL.at, h]

theorem PL.atL_singleton (s : Seg) (x : Rat) (h : x ≤ s.len) : PL.atL [s] x = some (s.valueAt x) := by
  simp [PL.atL, h]

/-- the reversed function, right-open = the original, left-closed, at the mirrored time -/
theorem PL.at_revAmb (p : PL) (hp : p.pos) : ∀ t, 0 ≤ t → t < PL.dur p →
    PL.at p.revAmb t = PL.atL p (PL.dur p - t) := by
  induction p using List.reverseRecOn with
  | nil => intro t h0 h; simp [PL.dur] at h; linarith
  | append_singleton p s ih =>
    intro t h0 h
    have hp' : PL.pos p := fun x hx => hp x (by simp [hx])
    have hs : 0 < s.len := hp s (by simp)
    have hpd := PL.dur_nonneg p hp'
    rw [PL.revAmb_snoc, PL.dur_append] at *
    simp only [PL.dur, add_zero] at h ⊢
    simp only [PL.at]
    by_cases hlt : t < s.len
    · simp only [Seg.swap, hlt, if_true]
      rw [PL.atL_append_right _ _ _ hp' (by linarith)]
      rw [PL.atL_singleton s _ (by linarith)]
      congr 1
      have := swap_valueAt s hs t true
      simp only [Seg.swap] at this
      rw [this]
      congr 1; ring
    · have hlt' : ¬ t < ({ s.swap with amb := true } : Seg).len := hlt
      simp only [hlt', if_false]
      show PL.at (PL.revAmb p) (t - s.len) = _
      rw [ih hp' (t - s.len) (by linarith) (by linarith)]
      rw [PL.atL_append_left _ _ _ (by linarith) (by linarith)]
      congr 1; ring

/-- … and left-closed = the original, right-open -/
theorem PL.atL_revAmb (p : PL) (hp : p.pos) : ∀ τ, 0 < τ → τ ≤ PL.dur p →
    PL.atL p.revAmb τ = PL.at p (PL.dur p - τ) := by
  induction p using List.reverseRecOn with
  | nil => intro τ h0 h; simp [PL.dur] at h; linarith
  | append_singleton p s ih =>
    intro τ h0 h
    have hp' : PL.pos p := fun x hx => hp x (by simp [hx])
    have hs : 0 < s.len := hp s (by simp)
    have hpd := PL.dur_nonneg p hp'
    rw [PL.revAmb_snoc, PL.dur_append] at *
    simp only [PL.dur, add_zero] at h ⊢
    simp only [PL.atL]
    by_cases hle : τ ≤ s.len
    · have hle' : τ ≤ ({ s.swap with amb := true } : Seg).len := hle
      simp only [hle', if_true]
      rw [PL.at_append_right _ _ _ hp' (by linarith)]
      rw [PL.at_singleton s _ (by linarith)]
      congr 1
      rw [swap_valueAt s hs τ true]
      congr 1; ring
    · have hle' : ¬ τ ≤ ({ s.swap with amb := true } : Seg).len := hle
      simp only [hle', if_false]
      show PL.atL (PL.revAmb p) (τ - s.len) = _
      rw [ih hp' (τ - s.len) (by linarith) (by linarith)]
      rw [PL.at_append_left _ _ _ (by linarith) (by linarith)]
      congr 1; ring

/-- the right-open value of the original is admissible for the reversed function at the mirrored time -/
theorem PL.adm_revAmb (p : PL) (hp : p.pos) : ∀ (prev : Option Rat) (τ : Rat), 0 < τ → τ < PL.dur p →
    ∃ v, PL.at p τ = some v ∧ v ∈ PL.adm prev p.revAmb (PL.dur p - τ) := by
  induction p using List.reverseRecOn with
  | nil => intro prev τ h0 h; simp [PL.dur] at h; linarith
  | append_singleton p s ih =>
    intro prev τ h0 h
    have hp' : PL.pos p := fun x hx => hp x (by simp [hx])
    have hs : 0 < s.len := hp s (by simp)
    have hpd := PL.dur_nonneg p hp'
    rw [PL.revAmb_snoc, PL.dur_append] at *
    simp only [PL.dur, add_zero] at h ⊢
    simp only [PL.adm]
    rcases lt_trichotomy τ (PL.dur p) with hlt | heq | hgt
    · -- strictly inside the front part
      have hn : ¬ (PL.dur p + s.len - τ < ({ s.swap with amb := true } : Seg).len) := by
        show ¬ (PL.dur p + s.len - τ < s.len); linarith
      simp only [hn, if_false]
      obtain ⟨v, hv, hmem⟩ := ih hp' (some ({ s.swap with amb := true } : Seg).v1) τ h0 hlt
      refine ⟨v, ?_, ?_⟩
      · rw [PL.at_append_left _ _ _ (le_of_lt h0) hlt]; exact hv
      · have : PL.dur p + s.len - τ - ({ s.swap with amb := true } : Seg).len = PL.dur p - τ := by
          show PL.dur p + s.len - τ - s.len = _; ring
        rw [this]; exact hmem
    · -- the junction in front of the last piece
      subst heq
      have hn : ¬ (PL.dur p + s.len - PL.dur p < ({ s.swap with amb := true } : Seg).len) := by
        show ¬ (PL.dur p + s.len - PL.dur p < s.len); linarith
      simp only [hn, if_false]
      refine ⟨s.v0, ?_, ?_⟩
      · rw [PL.at_append_right _ _ _ hp' (le_refl _)]
        simp [PL.at, hs, Seg.valueAt]
      · have e : PL.dur p + s.len - PL.dur p - ({ s.swap with amb := true } : Seg).len = 0 := by
          show PL.dur p + s.len - PL.dur p - s.len = 0; ring
        rw [e]
        -- the front part is not empty: it lasts `τ > 0`
        induction p using List.reverseRecOn with
        | nil => simp [PL.dur] at h0
        | append_singleton q s' _ =>
          have hs' : 0 < s'.len := hp' s' (by simp)
          rw [PL.revAmb_snoc]
          simp only [PL.adm]
          simp only [Seg.swap]
          simp [hs']
    · -- strictly inside the last piece
      have hy : PL.dur p + s.len - τ < ({ s.swap with amb := true } : Seg).len := by
        show PL.dur p + s.len - τ < s.len; linarith
      simp only [hy, if_true]
      refine ⟨s.valueAt (τ - PL.dur p), ?_, ?_⟩
      · rw [PL.at_append_right _ _ _ hp' (le_of_lt hgt)]
        simp only [PL.at]
        have : τ - PL.dur p < s.len := by linarith
        simp [this]
      · rw [swap_valueAt s hs _ true]
        have : s.len - (PL.dur p + s.len - τ) = τ - PL.dur p := by ring
        rw [this]
        simp

end QP.PT
