import QP.Proofs.C18Ops
/-! C18: the record invariant `RecInv` (wiring independent) is preserved by every operation, also by
re-wiring; removal and clearing reach every holder. -/
namespace QP.C18

theorem awgRecB_iff (s : State) : awgRecB s = true ↔
    ∀ (a : AwgId) (g : Awg), s.awgs[a]? = some g → g.fault = 0 → ∀ n u, aget n g.progs = some u →
      ∃ r, aget n s.registered = some r ∧ a ∈ r.awgs := by
  simp only [awgRecB, allIdx_iff, Bool.or_eq_true, allGet_iff, decide_eq_true_iff]
  constructor
  · intro h a g hg hf
    rcases h a g hg with h | h
    · exact absurd hf h
    · exact h
  · intro h a g hg
    by_cases hf : g.fault = 0
    · exact Or.inr (h a g hg hf)
    · exact Or.inl hf

theorem dacRecB_iff (s : State) : dacRecB s = true ↔
    ∀ (d : DacId) (g : Dac), s.dacs[d]? = some g → g.fault = 0 → ∀ n w, aget n g.progs = some w →
      ∃ r, aget n s.registered = some r ∧ d ∈ r.dacs := by
  simp only [dacRecB, allIdx_iff, Bool.or_eq_true, allGet_iff, decide_eq_true_iff]
  constructor
  · intro h d g hg hf
    rcases h d g hg with h | h
    · exact absurd hf h
    · exact h
  · intro h d g hg
    by_cases hf : g.fault = 0
    · exact Or.inr (h d g hg hf)
    · exact Or.inl hf

theorem recInvB_iff' (s : State) : recInvB s = true ↔ RecInv s := by
  simp only [recInvB, Bool.and_eq_true, awgRecB_iff, dacRecB_iff]
  exact ⟨fun ⟨h1, h2⟩ => ⟨h1, h2⟩, fun ⟨h1, h2⟩ => ⟨h1, h2⟩⟩

theorem judgeRec_ok_iff (s : State) : judgeRec s = "ok" ↔ recInvB s = true := by
  unfold judgeRec recInvB
  cases awgRecB s <;> cases dacRecB s <;> simp

/-- the routing invariant implies the record invariant -/
theorem recInv_of_inv {s : State} (hI : Inv s) : RecInv s := by
  constructor
  · intro a g hg _ n u hu
    obtain ⟨r, hr, ⟨c, hc, o, ho, e⟩, _⟩ := hI.awgHeld a g hg n u hu
    exact ⟨r, hr, e ▸ (hI.regAwgs n r hr).2 c hc o ho⟩
  · intro d g hg _ n w hw
    obtain ⟨r, hr, ⟨x, hx, m, hm, e⟩, _⟩ := hI.dacHeld d g hg n w hw
    exact ⟨r, hr, e ▸ (hI.regDacs n r hr).2 x hx m hm⟩

/-- frame rule for the record invariant -/
theorem rec_update (s s' : State) (n : Name) (rnew : Option Reg) (hI : RecInv s)
    (hregn : aget n s'.registered = rnew)
    (hreg : ∀ n', n' ≠ n → aget n' s'.registered = aget n' s.registered)
    (hawg : ∀ (a : AwgId) (g' : Awg), s'.awgs[a]? = some g' → g'.fault = 0 →
        ∃ g, s.awgs[a]? = some g ∧ g.fault = 0 ∧
        (∀ n', n' ≠ n → aget n' g'.progs = aget n' g.progs) ∧
        (∀ u, aget n g'.progs = some u → ∃ r, rnew = some r ∧ a ∈ r.awgs))
    (hdac : ∀ (d : DacId) (g' : Dac), s'.dacs[d]? = some g' → g'.fault = 0 →
        ∃ g, s.dacs[d]? = some g ∧ g.fault = 0 ∧
        (∀ n', n' ≠ n → aget n' g'.progs = aget n' g.progs) ∧
        (∀ w, aget n g'.progs = some w → ∃ r, rnew = some r ∧ d ∈ r.dacs)) :
    RecInv s' := by
  constructor
  · intro a g' hg' hf' n' u hu
    obtain ⟨g, hg, hf, hother, hheld⟩ := hawg a g' hg' hf'
    by_cases e : n' = n
    · subst e
      obtain ⟨r, hr, ha⟩ := hheld u hu
      exact ⟨r, by rw [hregn, hr], ha⟩
    · rw [hother n' e] at hu
      obtain ⟨r, hr, ha⟩ := hI.awgRec a g hg hf n' u hu
      exact ⟨r, by rw [hreg n' e, hr], ha⟩
  · intro d g' hg' hf' n' w hw
    obtain ⟨g, hg, hf, hother, hheld⟩ := hdac d g' hg' hf'
    by_cases e : n' = n
    · subst e
      obtain ⟨r, hr, ha⟩ := hheld w hw
      exact ⟨r, by rw [hregn, hr], ha⟩
    · rw [hother n' e] at hw
      obtain ⟨r, hr, ha⟩ := hI.dacRec d g hg hf n' w hw
      exact ⟨r, by rw [hreg n' e, hr], ha⟩

/-- operations that leave records and device dictionaries alone (all wiring operations, arming) -/
theorem rec_same (s s' : State) (hI : RecInv s) (hreg : s'.registered = s.registered)
    (hawg : ∀ (a : AwgId) (g' : Awg), s'.awgs[a]? = some g' → g'.fault = 0 →
        ∃ g, s.awgs[a]? = some g ∧ g.fault = 0 ∧ g'.progs = g.progs)
    (hdac : ∀ (d : DacId) (g' : Dac), s'.dacs[d]? = some g' → g'.fault = 0 →
        ∃ g, s.dacs[d]? = some g ∧ g.fault = 0 ∧ g'.progs = g.progs) :
    RecInv s' := by
  constructor
  · intro a g' hg' hf' n u hu
    obtain ⟨g, hg, hf, e⟩ := hawg a g' hg' hf'
    rw [e] at hu
    rw [hreg]; exact hI.awgRec a g hg hf n u hu
  · intro d g' hg' hf' n w hw
    obtain ⟨g, hg, hf, e⟩ := hdac d g' hg' hf'
    rw [e] at hw
    rw [hreg]; exact hI.dacRec d g hg hf n w hw

theorem rec_setChannelCore {s s' : State} {id : Chan} {outs : List Out} {allow junk : Bool} (hI : RecInv s)
    (h : setChannelCore s id outs allow junk = .ok s') : RecInv s' := by
  unfold setChannelCore at h
  split at h
  · cases h
  split at h
  · cases h
  injection h with h
  subst h
  exact rec_same s _ hI rfl (fun a g' hg' hf => ⟨g', hg', hf, rfl⟩) (fun d g' hg' hf => ⟨g', hg', hf, rfl⟩)

theorem rec_setMeasurementCore {s s' : State} {μ : MName} {masks : List MaskRef} {allow : Bool} (hI : RecInv s)
    (h : setMeasurementCore s μ masks allow = .ok s') : RecInv s' := by
  unfold setMeasurementCore at h
  split at h
  · cases h
  injection h with h
  subst h
  exact rec_same s _ hI rfl (fun a g' hg' hf => ⟨g', hg', hf, rfl⟩) (fun d g' hg' hf => ⟨g', hg', hf, rfl⟩)

theorem rec_register {s s' : State} {n : Name} {p : Program} {cbOk update : Bool}
    {ov : Option (List (MName × Windows))} (hI : RecInv s)
    (h : register true s n p cbOk update ov = .ok s') : RecInv s' := by
  unfold register at h
  split at h
  · cases h
  split at h
  · cases h
  simp only at h
  split at h
  · cases h
  split at h
  · cases h
  split at h
  · cases h
  injection h with h
  subst h
  simp only [if_true]
  refine rec_update s _ n (some _) hI (aget_aput_self _ _ _) (fun n' e => aget_aput_ne e _ _) ?_ ?_
  · intro a g' hg' hf'
    obtain ⟨g, hg, e⟩ := mapIdx_get hg'
    by_cases hp : a ∈ List.map (fun x => x.snd.awg) (assignments s.chanMap p.channels)
    · simp only [hp, if_true] at e
      subst e
      exact ⟨g, hg, hf', fun n' e => aget_aput_ne e _ _, fun u _ => ⟨_, rfl, hp⟩⟩
    · simp only [hp, if_false] at e
      by_cases hst : a ∈ oldAwgs s n
      · rw [if_pos hst] at e
        have hf : g.fault = 0 := by rw [← awgDrop_fault n g, ← e]; exact hf'
        rw [awgDrop_healthy hf] at e
        subst e
        refine ⟨g, hg, hf, fun n' e => aget_adel_ne e _, ?_⟩
        intro u hu
        rw [aget_adel_self] at hu
        cases hu
      · rw [if_neg hst] at e
        subst e
        refine ⟨g', hg, hf', fun _ _ => rfl, ?_⟩
        intro u hu
        exfalso
        obtain ⟨r0, hr0, ha⟩ := hI.awgRec a g' hg hf' n u hu
        simp only [oldAwgs, hr0] at hst
        exact hst ha
  · intro d g' hg' hf'
    obtain ⟨g, hg, e⟩ := mapIdx_get hg'
    by_cases hp : d ∈ List.map (fun x => x.fst.dac) (maskAsg s.measMap (ov.getD p.meas))
    · simp only [hp, if_true] at e
      subst e
      exact ⟨g, hg, hf', fun n' e => aget_aput_ne e _ _, fun w _ => ⟨_, rfl, hp⟩⟩
    · simp only [hp, if_false] at e
      by_cases hst : d ∈ oldDacs s n
      · rw [if_pos hst] at e
        have hf : g.fault = 0 := by rw [← dacDrop_fault n g, ← e]; exact hf'
        rw [dacDrop_healthy hf] at e
        subst e
        refine ⟨g, hg, hf, fun n' e => aget_adel_ne e _, ?_⟩
        intro w hw
        rw [aget_adel_self] at hw
        cases hw
      · rw [if_neg hst] at e
        subst e
        refine ⟨g', hg, hf', fun _ _ => rfl, ?_⟩
        intro w hw
        exfalso
        obtain ⟨r0, hr0, ha⟩ := hI.dacRec d g' hg hf' n w hw
        simp only [oldDacs, hr0] at hst
        exact hst ha

theorem rec_remove {s : State} (n : Name) (hI : RecInv s) : RecInv (remove s n) := by
  unfold remove
  cases hr : aget n s.registered with
  | none => exact hI
  | some r =>
    simp only
    refine rec_update s _ n none hI (aget_adel_self _ _) (fun n' e => aget_adel_ne e _) ?_ ?_
    · intro a g' hg' hf'
      obtain ⟨g, hg, e⟩ := mapIdx_get hg'
      by_cases hp : a ∈ r.awgs
      · rw [if_pos hp] at e
        have hf : g.fault = 0 := by rw [← awgDrop_fault n g, ← e]; exact hf'
        rw [awgDrop_healthy hf] at e
        subst e
        refine ⟨g, hg, hf, fun n' e => aget_adel_ne e _, ?_⟩
        intro u hu
        rw [aget_adel_self] at hu
        cases hu
      · rw [if_neg hp] at e
        subst e
        refine ⟨g', hg, hf', fun _ _ => rfl, ?_⟩
        intro u hu
        exfalso
        obtain ⟨r0, hr0, ha⟩ := hI.awgRec a g' hg hf' n u hu
        rw [hr] at hr0
        injection hr0 with hr0; subst hr0
        exact hp ha
    · intro d g' hg' hf'
      obtain ⟨g, hg, e⟩ := mapIdx_get hg'
      by_cases hp : d ∈ r.dacs
      · rw [if_pos hp] at e
        have hf : g.fault = 0 := by rw [← dacDrop_fault n g, ← e]; exact hf'
        rw [dacDrop_healthy hf] at e
        subst e
        refine ⟨g, hg, hf, fun n' e => aget_adel_ne e _, ?_⟩
        intro w hw
        rw [aget_adel_self] at hw
        cases hw
      · rw [if_neg hp] at e
        subst e
        refine ⟨g', hg, hf', fun _ _ => rfl, ?_⟩
        intro w hw
        exfalso
        obtain ⟨r0, hr0, ha⟩ := hI.dacRec d g' hg hf' n w hw
        rw [hr] at hr0
        injection hr0 with hr0; subst hr0
        exact hp ha

/-- after the repaired `clear_programs` no device that obeys holds anything -/
theorem clear_empty {s : State} (hI : RecInv s) :
    (∀ (a : AwgId) (g : Awg), (clear s).awgs[a]? = some g → g.fault = 0 → ∀ n, aget n g.progs = none) ∧
    (∀ (d : DacId) (g : Dac), (clear s).dacs[d]? = some g → g.fault = 0 → ∀ n, aget n g.progs = none) := by
  unfold clear clearWith
  constructor
  · intro a g' hg' hf' n
    obtain ⟨g, hg, e⟩ := mapIdx_get hg'
    by_cases hk : knownAwg s a = true
    · rw [if_pos hk] at e; subst e; rfl
    · rw [if_neg hk] at e
      simp only [if_true] at e
      have hf : g.fault = 0 := by rw [e] at hf'; exact hf'
      simp only [hf, if_true] at e
      subst e
      cases hu : aget n (List.filter (fun kv => !recordedOnAwg s a kv.fst) g.progs) with
      | none => rfl
      | some u =>
        exfalso
        obtain ⟨hu', hp⟩ := aget_of_filter_key (p := fun n => !recordedOnAwg s a n) hu
        obtain ⟨r, hr, ha⟩ := hI.awgRec a g hg hf n u hu'
        simp [recordedOnAwg, hr, ha] at hp
  · intro d g' hg' hf' n
    obtain ⟨g, hg, e⟩ := mapIdx_get hg'
    by_cases hk : knownDac s d = true
    · rw [if_pos hk] at e; subst e; rfl
    · rw [if_neg hk] at e
      simp only [if_true] at e
      have hf : g.fault = 0 := by rw [e] at hf'; exact hf'
      simp only [hf, if_true] at e
      subst e
      cases hw : aget n (List.filter (fun kv => !recordedOnDac s d kv.fst) g.progs) with
      | none => rfl
      | some w =>
        exfalso
        obtain ⟨hw', hp⟩ := aget_of_filter_key (p := fun n => !recordedOnDac s d n) hw
        obtain ⟨r, hr, ha⟩ := hI.dacRec d g hg hf n w hw'
        simp [recordedOnDac, hr, ha] at hp

theorem rec_clear {s : State} (hI : RecInv s) : RecInv (clear s) := by
  obtain ⟨h1, h2⟩ := clear_empty hI
  constructor
  · intro a g hg hf n u hu
    rw [h1 a g hg hf n] at hu; cases hu
  · intro d g hg hf n w hw
    rw [h2 d g hg hf n] at hw; cases hw

theorem rec_arm {s s' : State} {n : Name} (hI : RecInv s) (h : arm s n = .ok s') : RecInv s' := by
  unfold arm at h
  cases hr : aget n s.registered with
  | none => rw [hr] at h; cases h
  | some r =>
    rw [hr] at h
    simp only at h
    split at h
    · cases h
    injection h with h
    subst h
    refine rec_same s _ hI rfl ?_ ?_
    · intro a g' hg' hf'
      obtain ⟨g, hg, e⟩ := mapIdx_get hg'
      refine ⟨g, hg, ?_⟩
      subst e
      split at hf' <;> (refine ⟨hf', ?_⟩; split <;> rfl)
    · intro d g' hg' hf'
      obtain ⟨g, hg, e⟩ := mapIdx_get hg'
      refine ⟨g, hg, ?_⟩
      subst e
      split at hf' <;> (refine ⟨hf', ?_⟩; split <;> rfl)

theorem rec_step' {s s' : State} {op : Op} (hI : RecInv s) (hh : heals s op = false)
    (h : step s op = .ok s') : RecInv s' := by
  cases op with
  | setChannel id specs allow =>
    simp only [step, stepWith, setChannel] at h
    split at h
    · cases h
    split at h
    · cases h
    exact rec_setChannelCore hI h
  | setChannelSingle id o allow =>
    simp only [step, stepWith, setChannelSingle] at h
    split at h
    · cases h
    split at h
    · cases h
    exact rec_setChannelCore hI h
  | setMeasurement m masks allow =>
    simp only [step, stepWith, setMeasurement] at h
    split at h
    · cases h
    exact rec_setMeasurementCore hI h
  | setMeasurementSingle m mask allow =>
    simp only [step, stepWith, setMeasurementSingle] at h
    split at h
    · cases h
    exact rec_setMeasurementCore hI h
  | rmChannel id =>
    simp only [step, stepWith, rmChannel] at h
    split at h
    · injection h with h
      subst h
      exact rec_same s _ hI rfl (fun a g' hg' hf => ⟨g', hg', hf, rfl⟩) (fun d g' hg' hf => ⟨g', hg', hf, rfl⟩)
    · cases h
  | register n p cbOk update ov => exact rec_register hI h
  | remove n =>
    simp only [step, stepWith] at h
    injection h with h; subst h; exact rec_remove n hI
  | clear =>
    simp only [step, stepWith] at h
    injection h with h; subst h; exact rec_clear hI
  | arm n => exact rec_arm hI h
  | run n => exact rec_arm hI h
  | setFaultAwg a mode =>
    simp only [step, stepWith] at h
    cases hg0 : s.awgs[a]? with
    | none => rw [hg0] at h; cases h
    | some g0 =>
      rw [hg0] at h
      injection h with h
      subst h
      refine rec_same s _ hI rfl ?_ (fun d g' hg' hf => ⟨g', hg', hf, rfl⟩)
      intro i g' hg' hf'
      obtain ⟨g, hg, e⟩ := mapIdx_get hg'
      refine ⟨g, hg, ?_⟩
      by_cases hi : i = a
      · subst hi
        rw [if_pos rfl] at e
        subst e
        simp only at hf'
        rw [hg0] at hg
        injection hg with hg; subst hg
        simp only [heals, hg0, hf', decide_true, Bool.true_and, decide_eq_false_iff_not, Decidable.not_not] at hh
        exact ⟨hh, rfl⟩
      · rw [if_neg hi] at e
        subst e
        exact ⟨hf', rfl⟩
  | setFaultDac d mode =>
    simp only [step, stepWith] at h
    cases hg0 : s.dacs[d]? with
    | none => rw [hg0] at h; cases h
    | some g0 =>
      rw [hg0] at h
      injection h with h
      subst h
      refine rec_same s _ hI rfl (fun a g' hg' hf => ⟨g', hg', hf, rfl⟩) ?_
      intro i g' hg' hf'
      obtain ⟨g, hg, e⟩ := mapIdx_get hg'
      refine ⟨g, hg, ?_⟩
      by_cases hi : i = d
      · subst hi
        rw [if_pos rfl] at e
        subst e
        simp only at hf'
        rw [hg0] at hg
        injection hg with hg; subst hg
        simp only [heals, hg0, hf', decide_true, Bool.true_and, decide_eq_false_iff_not, Decidable.not_not] at hh
        exact ⟨hh, rfl⟩
      · rw [if_neg hi] at e
        subst e
        exact ⟨hf', rfl⟩

end QP.C18
