import QP.Proofs.C10Dec
/-! C10: `decT` on the document of a well-formed node, over a store that holds the documents of the
node's named descendants, returns the node (structural induction over the tree). -/
namespace QP.C10
set_option linter.unusedSimpArgs false
set_option linter.unusedVariables false

/-- the store holds, under its identifier, the document of every named node of `L` -/
def Closed (S : Store) (L : List T) : Prop :=
  ∀ c ∈ L, ∀ i, c.id = some i → lookup i S = some (body c)

theorem Closed.mono {S : Store} {L L' : List T} (h : ∀ c ∈ L', c ∈ L) (hc : Closed S L) : Closed S L' :=
  fun c hcm i hi => hc c (h c hcm) i hi

theorem plain_not_typed {j : J} (h : j.plain = true) : j.isTyped = false := by
  cases j with
  | atom a => rfl
  | str s => rfl
  | arr xs => rfl
  | obj kvs =>
    simp only [J.plain, Bool.and_eq_true] at h
    simp only [J.isTyped]
    cases hl : lookup typeKey kvs with
    | none => rfl
    | some v => simp [hl] at h

theorem decValue_data (g : J → Except Err T) (k : String) {j : J} (h : j.plain = true) :
    decValue g (k, j) = .ok (.data k j) := by
  cases j with
  | atom a => rfl
  | str s => rfl
  | arr xs =>
    cases xs with
    | nil => rfl
    | cons x xs =>
      simp only [J.plain, J.plainL, Bool.and_eq_true] at h
      have : (x :: xs).all J.isTyped = false := by
        simp [List.all_cons, plain_not_typed h.1]
      simp only [decValue, this]
      rfl
  | obj kvs =>
    have ht := plain_not_typed h
    simp only [J.isTyped] at ht
    simp only [decValue, ht]
    rfl

theorem emit_typed (t : T) : ∃ kvs, emit t = .obj kvs ∧ (lookup typeKey kvs).isSome = true := by
  cases t with
  | node cls id items =>
    cases id with
    | none =>
      refine ⟨hdr cls none ++ bodyItems cls items, by simp only [emit], ?_⟩
      rw [lookup_type_hdr]; rfl
    | some i =>
      refine ⟨[(idKey, .str i), (typeKey, .str "reference")], by simp only [emit, ref], ?_⟩
      simp [lookup_cons, idKey_ne_typeKey]

theorem emit_isTyped (t : T) : (emit t).isTyped = true := by
  obtain ⟨kvs, h, ht⟩ := emit_typed t
  rw [h]; exact ht

theorem decValue_child (g : J → Except Err T) (k : String) (t : T) :
    decValue g (k, emit t) = (g (emit t)).map (Item.child k) := by
  obtain ⟨kvs, h, ht⟩ := emit_typed t
  rw [h]
  simp only [decValue, ht, if_true]

theorem emitList_all_typed : ∀ ts : List T, (emitList ts).all J.isTyped = true
  | [] => rfl
  | t :: ts => by simp [emitList, List.all_cons, emit_isTyped t, emitList_all_typed ts]

theorem decValue_children (g : J → Except Err T) (k : String) (t : T) (ts : List T) :
    decValue g (k, .arr (emitList (t :: ts))) = (mapMExcept g (emitList (t :: ts))).map (Item.children k) := by
  have h := emitList_all_typed (t :: ts)
  simp only [emitList] at h ⊢
  simp only [decValue, h, if_true]

theorem body_eq_emit_anon (cls : Cls) (items : List Item) :
    emit (.node cls none items) = body (.node cls none items) := by
  simp only [emit, body]

theorem dec_emit_of_body {S : Store} {t : T}
    (hb : ∀ f, 2 * depth t ≤ f → decT f S (body t) = .ok t)
    (hcl : ∀ i, t.id = some i → lookup i S = some (body t)) :
    ∀ f, 2 * depth t + 1 ≤ f → decT f S (emit t) = .ok t := by
  intro f hf
  cases t with
  | node cls id items =>
    cases id with
    | none => rw [body_eq_emit_anon]; exact hb f (by omega)
    | some i =>
      obtain ⟨f', rfl⟩ : ∃ f', f = f' + 1 := ⟨f - 1, by omega⟩
      have : emit (.node cls (some i) items) = ref i := by simp only [emit]
      rw [this, decT_ref (hcl i rfl)]
      exact hb f' (by omega)

theorem mapMExcept_cons {α β} (f : α → Except Err β) (x : α) (xs : List α) :
    mapMExcept f (x :: xs) = (f x).bind fun y => (mapMExcept f xs).bind fun ys => pure (y :: ys) := rfl

theorem depth_node (cls : Cls) (id : Option Id) (items : List Item) :
    depth (.node cls id items) = 1 + depthItems items := by simp only [depth]

theorem subterms_node (cls : Cls) (id : Option Id) (items : List Item) :
    subterms (.node cls id items) = subtermsItems items ++ [.node cls id items] := by simp only [subterms]

theorem wf_node {cls : Cls} {id : Option Id} {items : List Item} (h : (T.node cls id items).wf = true) :
    alignedB (schema cls) items = true ∧ ctorOk cls items = true ∧ Item.wfL items = true := by
  simp only [T.wf, Bool.and_eq_true] at h
  exact ⟨h.1.1, h.1.2, h.2⟩

mutual
theorem dec_body (S : Store) : (t : T) → t.wf = true → Closed S (subterms t) →
    ∀ f, 2 * depth t ≤ f → decT f S (body t) = .ok t
  | .node cls id items, hwf, hcl, f, hf => by
    obtain ⟨hal, hct, hwi⟩ := wf_node hwf
    rw [depth_node] at hf
    obtain ⟨f', rfl⟩ : ∃ f', f = f' + 1 := ⟨f - 1, by omega⟩
    have hcl' : Closed S (subtermsItems items) :=
      hcl.mono (fun c hc => by rw [subterms_node]; exact List.mem_append_left _ hc)
    have hitems := dec_items S cls items hwi hcl' f' (by omega)
    simp only [body]
    rw [decT_node f' S cls id (bodyItems_keysOk hal), hitems]
    exact construct_filter cls id items hal hct
theorem dec_items (S : Store) (cls : Cls) : (items : List Item) → Item.wfL items = true →
    Closed S (subtermsItems items) → ∀ f, 2 * depthItems items + 1 ≤ f →
    mapMExcept (decValue (decT f S)) (bodyItems cls items) = .ok (items.filter (emitted cls))
  | [], _, _, _, _ => rfl
  | .data k j :: rest, hwf, hcl, f, hf => by
    simp only [Item.wfL, Bool.and_eq_true] at hwf
    simp only [depthItems] at hf
    simp only [subtermsItems] at hcl
    have ih := dec_items S cls rest hwf.2 hcl f hf
    by_cases he : emitted cls (.data k j) = true
    · simp only [bodyItems, he, if_true, List.filter_cons]
      rw [mapMExcept_cons, decValue_data _ _ hwf.1, ih]; rfl
    · have he' : emitted cls (.data k j) = false := by simpa using he
      simp only [bodyItems, he', Bool.false_eq_true, if_false, List.filter_cons]
      exact ih
  | .child k t :: rest, hwf, hcl, f, hf => by
    simp only [Item.wfL, Bool.and_eq_true] at hwf
    simp only [depthItems] at hf
    simp only [subtermsItems] at hcl
    have hclt : Closed S (subterms t) := hcl.mono (fun c hc => List.mem_append_left _ hc)
    have hclr : Closed S (subtermsItems rest) := hcl.mono (fun c hc => List.mem_append_right _ hc)
    have ih := dec_items S cls rest hwf.2 hclr f (by omega)
    have hb := dec_body S t hwf.1 hclt
    have hself : ∀ i, t.id = some i → lookup i S = some (body t) := fun i hi =>
      hclt t (by cases t; rw [subterms_node]; simp) i hi
    have ht := dec_emit_of_body hb hself f (by omega)
    have hem : emitted cls (.child k t) = true := rfl
    simp only [bodyItems, List.filter_cons, hem, if_true]
    rw [mapMExcept_cons, decValue_child, ht, ih]; rfl
  | .children k ts :: rest, hwf, hcl, f, hf => by
    simp only [Item.wfL, Bool.and_eq_true] at hwf
    simp only [depthItems] at hf
    simp only [subtermsItems] at hcl
    have hclt : Closed S (subtermsList ts) := hcl.mono (fun c hc => List.mem_append_left _ hc)
    have hclr : Closed S (subtermsItems rest) := hcl.mono (fun c hc => List.mem_append_right _ hc)
    have ih := dec_items S cls rest hwf.2 hclr f (by omega)
    have hl := dec_list S ts hwf.1.2 hclt f (by omega)
    have hem : emitted cls (.children k ts) = true := rfl
    simp only [bodyItems, List.filter_cons, hem, if_true]
    cases ts with
    | nil => simp at hwf
    | cons t ts' =>
      rw [mapMExcept_cons, decValue_children, hl, ih]; rfl
theorem dec_list (S : Store) : (ts : List T) → T.wfL ts = true → Closed S (subtermsList ts) →
    ∀ f, 2 * depthList ts + 1 ≤ f → mapMExcept (decT f S) (emitList ts) = .ok ts
  | [], _, _, _, _ => rfl
  | t :: ts, hwf, hcl, f, hf => by
    simp only [T.wfL, Bool.and_eq_true] at hwf
    simp only [depthList] at hf
    simp only [subtermsList] at hcl
    have hclt : Closed S (subterms t) := hcl.mono (fun c hc => List.mem_append_left _ hc)
    have hclr : Closed S (subtermsList ts) := hcl.mono (fun c hc => List.mem_append_right _ hc)
    have ih := dec_list S ts hwf.2 hclr f (by omega)
    have hb := dec_body S t hwf.1 hclt
    have hself : ∀ i, t.id = some i → lookup i S = some (body t) := fun i hi =>
      hclt t (by cases t; rw [subterms_node]; simp) i hi
    have ht := dec_emit_of_body hb hself f (by omega)
    simp only [emitList]
    rw [mapMExcept_cons, ht, ih]; rfl
end

/-- loading an identifier whose document and whose descendants' documents are in the store -/
theorem load_of_closed (S : Store) (t : T) (i : Id) (hid : t.id = some i) (hwf : t.wf = true)
    (hcl : Closed S (subterms t)) : ∀ f, 2 * depth t ≤ f → load f S i = .ok t := by
  intro f hf
  have hself : lookup i S = some (body t) :=
    hcl t (by cases t; rw [subterms_node]; simp) i hid
  unfold load
  rw [hself]
  exact dec_body S t hwf hcl f hf

end QP.C10
