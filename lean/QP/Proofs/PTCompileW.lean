import QP.Model.PT
import QP.Proofs.PTRelW
import QP.Proofs.PTFunc
/-! Durations and windows of compiled templates, including time reversal (no positivity assumption). -/
namespace QP.PT

def AtomOKW (pt : PT) : Prop :=
  ∀ σ mm cm items P, atomItems pt (ctx0 σ mm cm) = .ok items → denote pt σ mm cm = .ok P → RelW items P

def CompileOKW (pt : PT) : Prop :=
  ∀ σ mm cm items P, internal pt (ctx0 σ mm cm) = .ok items → denote pt σ mm cm = .ok P → RelW items P

inductive BasicW : PT → Prop
  | const {id dur amps meas} : AtomOKW (.const id dur amps meas) → BasicW (.const id dur amps meas)
  | table {id entries meas cons} : AtomOKW (.table id entries meas cons) → BasicW (.table id entries meas cons)
  | point {id chans entries meas cons} : AtomOKW (.point id chans entries meas cons) →
      BasicW (.point id chans entries meas cons)
  | func {id ch dur e meas cons} : AtomOKW (.func id ch dur e meas cons) → BasicW (.func id ch dur e meas cons)
  | atomicMulti {id subs dur meas cons} : AtomOKW (.atomicMulti id subs dur meas cons) →
      BasicW (.atomicMulti id subs dur meas cons)
  | arithAtomic {id lhs minus rhs meas} : AtomOKW (.arithAtomic id lhs minus rhs meas) →
      BasicW (.arithAtomic id lhs minus rhs meas)
  | seq {id subs meas cons} : (∀ p ∈ subs, BasicW p) → BasicW (.seq id subs meas cons)
  | rep {id body count meas cons} : BasicW body → BasicW (.rep id body count meas cons)
  | forLoop {id body idx start stop step meas cons} : BasicW body →
      BasicW (.forLoop id body idx start stop step meas cons)
  | mapping {id body pm mm cm cons} : BasicW body → BasicW (.mapping id body pm mm cm cons)
  | timeReversal {id body} : BasicW body → BasicW (.timeReversal id body)

theorem list_relW (subs : List PT) (ih : ∀ p ∈ subs, CompileOKW p) (σ : Scope)
    (mm : List (MName × Option MName)) (cm : List (Chan × Option Chan)) :
    ∀ its parts p, internalList subs (ctx0 σ mm cm) = .ok its → denoteList subs σ mm cm = .ok parts →
      Pulse.appendAll parts = .ok p → RelW its p := by
  induction subs with
  | nil =>
    intro its parts p h1 h2 h3
    simp only [internalList] at h1
    simp only [denoteList] at h2
    cases h1; cases h2
    simp only [Pulse.appendAll] at h3
    cases h3
    exact RelW.nil
  | cons q qs ihq =>
    intro its parts p h1 h2 h3
    simp only [internalList, bind_ok, pure_ok] at h1
    obtain ⟨a, ha, b, hb, rfl⟩ := h1
    simp only [denoteList, bind_ok, pure_ok] at h2
    obtain ⟨pa, hpa, pr, hpr, rfl⟩ := h2
    simp only [Pulse.appendAll, bind_ok] at h3
    obtain ⟨r, hr, hp⟩ := h3
    rw [wrapSingle_nil _ _ _ rfl] at ha
    have hq := ih q (by simp) σ mm cm a pa ha hpa
    have hrest := ihq (fun p hp => ih p (by simp [hp])) b pr r hb hpr hr
    exact RelW.append hq hrest hp

theorem range_relW (body : PT) (ih : CompileOKW body) (σ : Scope) (idx : String)
    (mm : List (MName × Option MName)) (cm : List (Chan × Option Chan)) (rng : List Int) :
    ∀ its parts p,
      rng.flatMapM (fun (i : Int) => wrapSingle body.ident
        { ctx0 σ mm cm with scope := .range σ idx (i : Rat) } (internal body)) = .ok its →
      rng.mapM (fun (i : Int) => denote body (.range σ idx (i : Rat)) mm cm) = .ok parts →
      Pulse.appendAll parts = .ok p → RelW its p := by
  induction rng with
  | nil =>
    intro its parts p h1 h2 h3
    simp only [List.flatMapM_nil, pure_ok] at h1
    simp only [List.mapM_nil, pure_ok] at h2
    subst h1; subst h2
    simp only [Pulse.appendAll] at h3
    cases h3
    exact RelW.nil
  | cons i is ihr =>
    intro its parts p h1 h2 h3
    simp only [List.flatMapM_cons, bind_ok, pure_ok] at h1
    obtain ⟨a, ha, b, hb, rfl⟩ := h1
    simp only [List.mapM_cons, bind_ok, pure_ok] at h2
    obtain ⟨pa, hpa, pr, hpr, rfl⟩ := h2
    simp only [Pulse.appendAll, bind_ok] at h3
    obtain ⟨r, hr, hp⟩ := h3
    rw [wrapSingle_nil _ _ _ rfl] at ha
    have hq := ih (.range σ idx (i : Rat)) mm cm a pa ha hpa
    have hrest := ihr b pr r hb hpr hr
    exact RelW.append hq hrest hp

theorem compile_relW {pt : PT} (hb : BasicW pt) : CompileOKW pt := by
  induction hb with
  | const h => intro σ mm cm items P h1 h2; simp only [internal] at h1; exact h σ mm cm items P h1 h2
  | table h => intro σ mm cm items P h1 h2; simp only [internal] at h1; exact h σ mm cm items P h1 h2
  | point h => intro σ mm cm items P h1 h2; simp only [internal] at h1; exact h σ mm cm items P h1 h2
  | func h => intro σ mm cm items P h1 h2; simp only [internal] at h1; exact h σ mm cm items P h1 h2
  | atomicMulti h => intro σ mm cm items P h1 h2; simp only [internal] at h1; exact h σ mm cm items P h1 h2
  | arithAtomic h => intro σ mm cm items P h1 h2; simp only [internal] at h1; exact h σ mm cm items P h1 h2
  | @seq id subs meas cons _ ih =>
    intro σ mm cm items P h1 h2
    simp only [internal, ctx0, bind_ok, pure_ok] at h1
    obtain ⟨_, _, ms, hms, its, hits, rfl⟩ := h1
    simp only [denote, bind_ok, pure_ok] at h2
    obtain ⟨_, _, ms', hms', parts, hparts, p, hp, rfl⟩ := h2
    rw [hms] at hms'
    cases hms'
    exact (list_relW subs ih σ mm cm its parts p hits hparts hp).guard ms
  | @rep id body count meas cons _ ih =>
    intro σ mm cm items P h1 h2
    simp only [internal, ctx0, bind_ok] at h1
    obtain ⟨_, _, c, hc, h1⟩ := h1
    simp only [denote, bind_ok] at h2
    obtain ⟨_, _, c', hc', h2⟩ := h2
    rw [hc] at hc'
    cases hc'
    cases hn : checkedInt c with
    | none => simp [hn] at h1
    | some n =>
      simp only [hn] at h1 h2
      by_cases hle : n ≤ 0
      · simp only [hle, if_true, pure_ok] at h1 h2
        subst h1; subst h2
        exact RelW.nil
      · simp only [hle, if_false, bind_ok, pure_ok] at h1 h2
        obtain ⟨ms, hms, its, hits, rfl⟩ := h1
        obtain ⟨ms', hms', b, hbd, h2⟩ := h2
        rw [hms] at hms'
        cases hms'
        rw [wrapSingle_nil _ _ _ rfl] at hits
        have hrel := (ih σ mm cm its b hits hbd).rep n.toNat ms
        rcases Bool.eq_false_or_eq_true b.isEmpty with he | he
        · simp only [he, if_true, pure_ok] at h2
          subst h2
          simpa [he] using hrel
        · simp only [he, Bool.false_eq_true, if_false, pure_ok] at h2
          simp only [he, Bool.false_eq_true, if_false] at hrel
          subst h2
          exact hrel
  | @forLoop id body idx start stop step meas cons _ ih =>
    intro σ mm cm items P h1 h2
    simp only [internal, ctx0, bind_ok] at h1
    obtain ⟨_, _, a, ha, ai, hai, b, hb, bi, hbi, s, hs, si, hsi, h1⟩ := h1
    simp only [denote, bind_ok] at h2
    obtain ⟨_, _, a', ha', ai', hai', b', hb', bi', hbi', s', hs', si', hsi', h2⟩ := h2
    rw [ha] at ha'; cases ha'
    rw [hai] at hai'; cases hai'
    rw [hb] at hb'; cases hb'
    rw [hbi] at hbi'; cases hbi'
    rw [hs] at hs'; cases hs'
    rw [hsi] at hsi'; cases hsi'
    by_cases hz : si = 0
    · simp [hz] at h1
    · simp only [hz, if_false, bind_ok, pure_ok] at h1 h2
      obtain ⟨ms, hms, its, hits, rfl⟩ := h1
      obtain ⟨ms', hms', parts, hparts, p, hp, rfl⟩ := h2
      rw [hms] at hms'; cases hms'
      exact (range_relW body ih σ idx mm cm (pyRange ai bi si) its parts p hits hparts hp).guard ms
  | @mapping id body pm mm' cm' cons _ ih =>
    intro σ mm cm items P h1 h2
    simp only [internal, ctx0, bind_ok] at h1
    obtain ⟨_, _, mmU, hmm, cmU, hcm, h1⟩ := h1
    simp only [denote, bind_ok] at h2
    obtain ⟨_, _, mmU', hmm', cmU', hcm', h2⟩ := h2
    rw [hmm] at hmm'; cases hmm'
    rw [hcm] at hcm'; cases hcm'
    rw [wrapSingle_nil _ _ _ rfl] at h1
    exact ih (.mapped σ pm) mmU cmU items P h1 h2
  | @timeReversal id body _ ih =>
    intro σ mm cm items P h1 h2
    simp only [internal, ctx0, bind_ok] at h1
    obtain ⟨its, hits, h1⟩ := h1
    simp only [denote, bind_ok, pure_ok] at h2
    obtain ⟨b, hb, rfl⟩ := h2
    have hrel := (ih σ mm cm its b hits hb).reversed
    cases hp : toProgram its with
    | none =>
      simp only [hp, pure_ok] at h1 hrel
      subst h1
      exact hrel
    | some root =>
      simp only [hp, pure_ok] at h1 hrel
      subst h1
      exact hrel

end QP.PT
