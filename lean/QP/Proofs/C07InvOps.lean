import QP.Proofs.C07InvTable
/-!
# C07: the invariants `InvClaim` for parallel channel, scalar arithmetic, atomic multi channel and atomic arithmetic
templates, and the induction over all templates
-/
namespace QP.C07
open QP.PT


/-- the constant piece a `ParallelChannelTransformation` puts on an overwritten channel -/
def constPL (dur v : Rat) : PL := if dur > 0 then [{ len := dur, v0 := v, v1 := v }] else []

theorem constPL_inv {dur : Rat} (h : 0 ≤ dur) (v : Rat) : plPos (constPL dur v) ∧ PL.dur (constPL dur v) = dur := by
  unfold constPL
  split
  · rename_i hp
    refine ⟨?_, by simp [PL.dur]; grind⟩
    intro s hs
    simp only [List.mem_singleton] at hs; subst hs; exact hp
  · exact ⟨plPos_nil, by simp only [PL.dur]; grind⟩

theorem applyTrafoPL_parallel (m : List (Chan × Rat)) (dur : Rat) (chans : List (Chan × PL)) :
    applyTrafoPL (.parallel m) dur chans =
      chans.map (fun x => (x.1, match m.lookup x.1 with | some v => constPL dur v | none => x.2)) ++
      (m.filter (fun x => (chans.lookup x.1).isNone)).map (fun x => (x.1, constPL dur x.2)) := by
  unfold applyTrafoPL
  simp only
  congr 1
  · apply List.map_congr_left
    intro x _
    cases m.lookup x.1 <;> rfl

/-- which channels `overwrittenValues` yields -/
theorem overwrittenValues_spec {over : List (Chan × Expr)} {σ : Scope} {cm : List (Chan × Option Chan)}
    {ov : List (Chan × Rat)} (h : overwrittenValues over σ cm = .ok ov) :
    (∀ o v, ov.lookup o = some v → ∃ x ∈ over, cm.lookup x.1 = some (some o)) ∧
    (∀ x ∈ over, ∀ o, cm.lookup x.1 = some (some o) → ∃ v, ov.lookup o = some v) ∧
    ∃ cs, over.filterMapM (fun (x : Chan × Expr) => do
        let o ← chanLookup cm x.1
        match o with
        | none => pure none
        | some o => do let v ← σ.eval x.2; pure (some (o, v))) = .ok cs ∧ ov = dictOfList cs := by
  unfold overwrittenValues at h
  simp only [bind_ok_iff, pure_ok_iff] at h
  obtain ⟨cs, hcs, rfl⟩ := h
  obtain ⟨h1, h2⟩ := filterMapM_kept cm σ.eval over cs hcs
  refine ⟨?_, ?_, cs, hcs, rfl⟩
  · intro o v hl
    have hk := dictOfList_keys cs o v hl
    obtain ⟨y, hy, rfl⟩ := List.mem_map.mp hk
    obtain ⟨x, hx, hxc, _⟩ := h1 y hy
    exact ⟨x, hx, hxc⟩
  · intro x hx o ho
    obtain ⟨v, _, hm⟩ := h2 x hx o ho
    exact dictOfList_lookup_some cs o v hm

theorem inv_parallel (id body over) (ih : InvClaim body) : InvClaim (.parallel id body over) := by
  intro σ mm cm P hden hreg
  rw [denote] at hden
  simp only [bind_ok_iff] at hden
  obtain ⟨ov, hov, b, hb, hden⟩ := hden
  rw [regular] at hreg
  obtain ⟨i1, i2, i3⟩ := ih σ mm cm b hb hreg
  obtain ⟨o1, _, _⟩ := overwrittenValues_spec hov
  split at hden
  · rename_i hbe
    simp only [pure_ok_iff] at hden; subst hden
    refine ⟨pulseInv_empty, (fun o ho => absurd ho (not_mem_empty_chanNames o)), ?_⟩
    intro hkeep D hD
    rw [templateDuration] at hD
    rw [i3 (by simpa [keeps] using hkeep) D hD, i1.empty_dur hbe]; rfl
  · rename_i hbne
    simp only [pure_ok_iff] at hden; subst hden
    simp only
    rw [applyTrafoPL_parallel]
    refine ⟨⟨?_, i1.dur_nonneg, ?_⟩, ?_, ?_⟩
    · intro he
      rw [isEmpty_iff] at he hbne
      simp only [List.append_eq_nil_iff, List.map_eq_nil_iff] at he
      exact absurd he.1 hbne
    · intro x hx
      simp only
      rcases List.mem_append.mp hx with hx | hx
      · obtain ⟨y, hy, rfl⟩ := List.mem_map.mp hx
        simp only
        cases ov.lookup y.1 with
        | none => exact i1.seg y hy
        | some v => exact constPL_inv i1.dur_nonneg v
      · obtain ⟨y, _, rfl⟩ := List.mem_map.mp hx
        exact constPL_inv i1.dur_nonneg y.2
    · intro o ho
      simp only [Pulse.chanNames, List.map_append, List.map_map, List.mem_append, List.mem_map] at ho
      simp only [PT.definedChannels]
      rcases ho with ⟨y, hy, rfl⟩ | ⟨y, hy, rfl⟩
      · obtain ⟨c, hc, hl⟩ := i2 y.1 (List.mem_map.mpr ⟨y, hy, rfl⟩)
        exact ⟨c, (mem_dedup _ _).mpr (List.mem_append.mpr (Or.inl hc)), hl⟩
      · have hy' := (List.mem_filter.mp hy).1
        have hnd : ∃ v, ov.lookup y.1 = some v := lookup_isSome_of_mem_keys ov y.1 (List.mem_map.mpr ⟨y, hy', rfl⟩)
        obtain ⟨v, hv⟩ := hnd
        obtain ⟨x, hx, hxc⟩ := o1 y.1 v hv
        exact ⟨x.1, (mem_dedup _ _).mpr (List.mem_append.mpr (Or.inr (List.mem_map.mpr ⟨x, hx, rfl⟩))), hxc⟩
    · intro hkeep D hD
      rw [templateDuration] at hD
      exact i3 (by simpa [keeps] using hkeep) D hD

/-! ### scalar arithmetic -/

def Trafo.pointwise : Trafo → Bool
  | .offset _ | .scaling _ => true
  | .parallel _ => false

theorem applyTrafoPL_offset (m : List (Chan × Rat)) (dur : Rat) (chans : List (Chan × PL)) :
    applyTrafoPL (.offset m) dur chans =
      chans.map (fun x => (x.1, match m.lookup x.1 with | some o => x.2.mapV (· + o) | none => x.2)) := by
  unfold applyTrafoPL
  simp only
  apply List.map_congr_left
  intro x _
  cases m.lookup x.1 <;> rfl

theorem applyTrafoPL_scaling (m : List (Chan × Rat)) (dur : Rat) (chans : List (Chan × PL)) :
    applyTrafoPL (.scaling m) dur chans =
      chans.map (fun x => (x.1, match m.lookup x.1 with | some f => x.2.mapV (· * f) | none => x.2)) := by
  unfold applyTrafoPL
  simp only
  apply List.map_congr_left
  intro x _
  cases m.lookup x.1 <;> rfl

/-- offsets and scalings keep the channels, the lengths of the pieces and hence the duration of every channel -/
theorem applyTrafoPL_pointwise_inv (t : Trafo) (ht : Trafo.pointwise t = true) (d : Rat) (chans : List (Chan × PL)) :
    (applyTrafoPL t d chans).map (·.1) = chans.map (·.1) ∧
    ∀ x ∈ applyTrafoPL t d chans, ∃ y ∈ chans, x.1 = y.1 ∧ (plPos y.2 → plPos x.2) ∧ PL.dur x.2 = PL.dur y.2 := by
  cases t with
  | parallel m => cases ht
  | offset m =>
    rw [applyTrafoPL_offset]
    refine ⟨by simp, ?_⟩
    intro x hx
    obtain ⟨y, hy, rfl⟩ := List.mem_map.mp hx
    refine ⟨y, hy, rfl, ?_, ?_⟩ <;> simp only <;> cases m.lookup y.1
    · exact id
    · exact plPos_mapV _
    · rfl
    · exact PL_dur_mapV _ _
  | scaling m =>
    rw [applyTrafoPL_scaling]
    refine ⟨by simp, ?_⟩
    intro x hx
    obtain ⟨y, hy, rfl⟩ := List.mem_map.mp hx
    refine ⟨y, hy, rfl, ?_, ?_⟩ <;> simp only <;> cases m.lookup y.1
    · exact id
    · exact plPos_mapV _
    · rfl
    · exact PL_dur_mapV _ _

theorem foldl_pointwise_inv (d : Rat) : ∀ (T : List Trafo) (chans : List (Chan × PL)),
    (∀ t ∈ T, Trafo.pointwise t = true) →
    (T.foldl (fun cs t => applyTrafoPL t d cs) chans).map (·.1) = chans.map (·.1) ∧
    ∀ x ∈ T.foldl (fun cs t => applyTrafoPL t d cs) chans, ∃ y ∈ chans, x.1 = y.1 ∧ (plPos y.2 → plPos x.2) ∧
      PL.dur x.2 = PL.dur y.2
  | [], chans, _ => ⟨rfl, fun x hx => ⟨x, hx, rfl, id, rfl⟩⟩
  | t :: ts, chans, h => by
    simp only [List.foldl_cons]
    obtain ⟨k1, k2⟩ := applyTrafoPL_pointwise_inv t (h t (List.mem_cons_self ..)) d chans
    obtain ⟨j1, j2⟩ := foldl_pointwise_inv d ts (applyTrafoPL t d chans) (fun u hu => h u (List.mem_cons_of_mem _ hu))
    refine ⟨by rw [j1, k1], ?_⟩
    intro x hx
    obtain ⟨y, hy, e1, p1, d1⟩ := j2 x hx
    obtain ⟨z, hz, e2, p2, d2⟩ := k2 y hy
    exact ⟨z, hz, by rw [e1, e2], fun hp => p1 (p2 hp), by rw [d1, d2]⟩

/-- the scalar operand of an `ArithmeticPulseTemplate` per output channel (`_get_scalar_value`) -/
def arithSv (bodyChans : List Chan) (scalar : Scalar) (σ : Scope) (cm : List (Chan × Option Chan)) :
    Except Err (List (Chan × Rat)) :=
  match scalar with
  | .uniform e => do
      let v ← σ.evalKw e
      let cs ← bodyChans.filterMapM (fun c => do
        let o ← chanLookup cm c
        pure (o.map (fun o => (o, v))))
      pure (dictOfList cs)
  | .perChan m => do
      let cs ← m.filterMapM (fun (c, e) => do
        let o ← chanLookup cm c
        match o with
        | none => pure none
        | some o => do let v ← σ.evalKw e; pure (some (o, v)))
      pure (dictOfList cs)

/-- the transformation for the operator and operand order (`_get_transformation`) -/
def arithTail (bodyChans : List Chan) (op : AOp) (ptIsLhs : Bool) (cm : List (Chan × Option Chan))
    (sv : List (Chan × Rat)) : Except Err Chain :=
  if ptIsLhs then
    match op with
    | .plus => pure [.offset sv]
    | .minus => pure [.offset (sv.map (fun (c, v) => (c, -v)))]
    | .times => pure [.scaling sv]
    | .div =>
        if sv.any (fun (_, v) => v == 0) then .error .zeroDivision
        else pure [.scaling (sv.map (fun (c, v) => (c, v⁻¹)))]
  else
    match op with
    | .plus => pure [.offset sv]
    | .minus => do
        let neg ← bodyChans.filterMapM (fun c => do
          let o ← chanLookup cm c
          pure (o.map (fun o => (o, (-1 : Rat)))))
        pure [.scaling (dictOfList neg), .offset sv]
    | .times => pure [.scaling sv]
    | .div => .error .valueError

theorem arithTransformation_eq (bodyChans op scalar ptIsLhs σ cm) :
    arithTransformation bodyChans op scalar ptIsLhs σ cm =
      (arithSv bodyChans scalar σ cm >>= arithTail bodyChans op ptIsLhs cm) := by
  unfold arithTransformation arithSv arithTail
  cases scalar <;> simp only [bind_assoc, pure_bind] <;> rfl

theorem arithTail_pointwise {bodyChans op ptIsLhs cm sv T} (h : arithTail bodyChans op ptIsLhs cm sv = .ok T) :
    ∀ t ∈ T, Trafo.pointwise t = true := by
  unfold arithTail at h
  split at h
  · cases op <;> simp only [pure_ok_iff] at h
    · subst h; intro t ht; simp only [List.mem_singleton] at ht; subst ht; rfl
    · subst h; intro t ht; simp only [List.mem_singleton] at ht; subst ht; rfl
    · subst h; intro t ht; simp only [List.mem_singleton] at ht; subst ht; rfl
    · split at h
      · cases h
      · simp only [pure_ok_iff] at h
        subst h; intro t ht; simp only [List.mem_singleton] at ht; subst ht; rfl
  · cases op <;> simp only [pure_ok_iff, bind_ok_iff] at h
    · subst h; intro t ht; simp only [List.mem_singleton] at ht; subst ht; rfl
    · obtain ⟨neg, _, rfl⟩ := h
      intro t ht
      simp only [List.mem_cons, List.mem_singleton, List.not_mem_nil, or_false] at ht
      rcases ht with rfl | rfl <;> rfl
    · subst h; intro t ht; simp only [List.mem_singleton] at ht; subst ht; rfl
    · cases h

theorem arithTransformation_pointwise {bodyChans op scalar ptIsLhs σ cm T}
    (h : arithTransformation bodyChans op scalar ptIsLhs σ cm = .ok T) : ∀ t ∈ T, Trafo.pointwise t = true := by
  rw [arithTransformation_eq, bind_ok_iff] at h
  obtain ⟨sv, _, h⟩ := h
  exact arithTail_pointwise h

theorem inv_arith (id body op scalar ptIsLhs) (ih : InvClaim body) : InvClaim (.arith id body op scalar ptIsLhs) := by
  intro σ mm cm P hden hreg
  rw [denote] at hden
  simp only [bind_ok_iff] at hden
  obtain ⟨b, hb, hden⟩ := hden
  rw [regular] at hreg
  obtain ⟨i1, i2, i3⟩ := ih σ mm cm b hb hreg
  split at hden
  · rename_i hbe
    simp only [pure_ok_iff] at hden; subst hden
    refine ⟨pulseInv_empty, (fun o ho => absurd ho (not_mem_empty_chanNames o)), ?_⟩
    intro hkeep D hD
    rw [templateDuration] at hD
    rw [i3 (by simpa [keeps] using hkeep) D hD, i1.empty_dur hbe]; rfl
  · rename_i hbne
    simp only [bind_ok_iff, pure_ok_iff] at hden
    obtain ⟨T, hT, rfl⟩ := hden
    obtain ⟨k1, k2⟩ := foldl_pointwise_inv b.dur T b.chans (arithTransformation_pointwise hT)
    refine ⟨⟨?_, i1.dur_nonneg, ?_⟩, ?_, ?_⟩
    · intro he
      rw [isEmpty_iff] at he hbne
      simp only at he
      have : b.chans.map (·.1) = [] := by rw [← k1, he]; rfl
      exact absurd (List.map_eq_nil_iff.mp this) hbne
    · intro x hx
      obtain ⟨y, hy, _, p, d⟩ := k2 x hx
      obtain ⟨h1, h2⟩ := i1.seg y hy
      exact ⟨p h1, by rw [d]; exact h2⟩
    · intro o ho
      simp only [Pulse.chanNames] at ho
      rw [k1] at ho
      simp only [PT.definedChannels]
      exact i2 o ho
    · intro hkeep D hD
      rw [templateDuration] at hD
      exact i3 (by simpa [keeps] using hkeep) D hD

/-! ### atomic multi channel templates -/

theorem denoteList_mem_rev {σ : Scope} {mm cm} : ∀ (subs : List PT) (parts : List Pulse),
    denoteList subs σ mm cm = .ok parts → ∀ q ∈ parts, ∃ p ∈ subs, denote p σ mm cm = .ok q
  | [], parts, h, q, hq => by simp only [denoteList] at h; cases h; cases hq
  | p :: ps, parts, h, q, hq => by
    simp only [denoteList, bind_ok_iff, pure_ok_iff] at h
    obtain ⟨a, ha, b, hb, rfl⟩ := h
    rcases List.mem_cons.mp hq with rfl | hq
    · exact ⟨p, List.mem_cons_self .., ha⟩
    · obtain ⟨p', hp', h'⟩ := denoteList_mem_rev ps b hb q hq
      exact ⟨p', List.mem_cons_of_mem _ hp', h'⟩

theorem denoteList_head {σ : Scope} {mm cm} {p : PT} {ps : List PT} {parts : List Pulse}
    (h : denoteList (p :: ps) σ mm cm = .ok parts) : ∃ a b, parts = a :: b ∧ denote p σ mm cm = .ok a := by
  simp only [denoteList, bind_ok_iff, pure_ok_iff] at h
  obtain ⟨a, ha, b, _, rfl⟩ := h
  exact ⟨a, b, rfl, ha⟩

theorem sameDurations_spec {subs : List PT} {σ : Scope} (h : sameDurations subs σ = true) {p : PT} {ps : List PT}
    (hs : subs = p :: ps) : ∃ d, templateDuration p σ = .ok d ∧ ∀ q ∈ subs, templateDuration q σ = .ok d := by
  subst hs
  simp only [sameDurations] at h
  split at h
  · rename_i d hd
    simp only [List.all_eq_true] at h
    refine ⟨d, hd, ?_⟩
    intro q hq
    rcases List.mem_cons.mp hq with rfl | hq
    · exact hd
    · have := h q hq
      cases hq' : templateDuration q σ with
      | error e => rw [hq'] at this; cases this
      | ok d' =>
        rw [hq'] at this
        have : d' = d := by simpa using this
        rw [this]
  · cases h

theorem keepsAll_mem' {subs : List PT} {cm} (h : keepsAll subs cm = true) : ∀ p ∈ subs, keeps p cm = true :=
  keepsAll_mem h

theorem inv_atomicMulti (id subs dur meas cons) (ih : ∀ p ∈ subs, InvClaim p) :
    InvClaim (.atomicMulti id subs dur meas cons) := by
  intro σ mm cm P hden hreg
  rw [denote] at hden
  simp only [bind_ok_iff] at hden
  obtain ⟨_, _, parts, hparts, hden⟩ := hden
  simp only [regular, Bool.and_eq_true] at hreg
  obtain ⟨⟨hregs, hsame⟩, hexpl⟩ := hreg
  obtain ⟨i1, i2, _⟩ := inv_list subs parts ih hparts hregs
  -- the duration expression against the duration of any part
  have hpartdur : keepsAll subs cm = true → ∀ D, templateDuration (.atomicMulti id subs dur meas cons) σ = .ok D →
      ∀ q ∈ parts, D = q.dur := by
    intro hkeep D hD q hq
    obtain ⟨p, hp, hpq⟩ := denoteList_mem_rev subs parts hparts q hq
    cases hs : subs with
    | nil => rw [hs] at hp; cases hp
    | cons p0 ps0 =>
      obtain ⟨d, hd0, hdall⟩ := sameDurations_spec hsame hs
      have hregp : regular p σ = true := by
        have : ∀ (l : List PT), regularAll l σ = true → ∀ x ∈ l, regular x σ = true := by
          intro l
          induction l with
          | nil => intro _ x hx; cases hx
          | cons y ys ihy =>
            intro h x hx
            simp only [regularAll, Bool.and_eq_true] at h
            rcases List.mem_cons.mp hx with rfl | hx
            · exact h.1
            · exact ihy h.2 x hx
        exact this subs hregs p hp
      have e1 := (ih p hp σ mm cm q hpq hregp).2.2 (keepsAll_mem hkeep p hp) d (hdall p hp)
      cases dur with
      | none =>
        simp only [templateDuration] at hD
        rw [hs] at hD
        simp only [templateDurationFirst] at hD
        rw [hd0] at hD; cases hD; exact e1
      | some de =>
        simp only [templateDuration] at hD
        simp only at hexpl
        rw [hD, hs] at hexpl
        simp only [templateDurationFirst, hd0] at hexpl
        have : D = d := by simpa using hexpl
        rw [this]; exact e1
  split at hden
  · -- all parts are empty
    rename_i hnil
    simp only [pure_ok_iff] at hden; subst hden
    refine ⟨pulseInv_empty, (fun o ho => absurd ho (not_mem_empty_chanNames o)), ?_⟩
    intro hkeep D hD
    simp only [keeps] at hkeep
    cases hs : subs with
    | nil =>
      rw [hs] at hD
      cases dur with
      | none => simp [templateDuration, templateDurationFirst] at hD
      | some de =>
        simp only at hexpl
        rw [hs] at hexpl
        simp only [templateDurationFirst] at hexpl
        cases h1 : σ.eval de <;> rw [h1] at hexpl <;> cases hexpl
    | cons p0 ps0 =>
      obtain ⟨a, b, hab, _⟩ := denoteList_head (hs ▸ hparts)
      have hq : a ∈ parts := by rw [hab]; exact List.mem_cons_self ..
      have := hpartdur hkeep D hD a hq
      rw [this]
      apply (i1 a hq).empty_dur
      have hf : a ∉ parts.filter (fun p => !p.isEmpty) := by rw [hnil]; exact List.not_mem_nil
      rw [List.mem_filter] at hf
      cases he : a.isEmpty with
      | true => rfl
      | false => exact absurd ⟨hq, by simp [he]⟩ hf
  · rename_i p rest hfil
    simp only [hfil] at hden
    have hmem : ∀ q ∈ p :: rest, q ∈ parts ∧ q.isEmpty = false := by
      intro q hq
      rw [← hfil] at hq
      have := List.mem_filter.mp hq
      exact ⟨this.1, by simpa using this.2⟩
    split at hden
    · cases hden
    · split at hden
      · cases hden
      · rename_i hnd hdurs
        have hP : ∃ ms, P = { dur := p.dur, chans := mergeChans (p :: rest), windows := ms } := by
          cases dur with
          | none =>
            simp only [bind_ok_iff, pure_ok_iff] at hden
            obtain ⟨ms, _, rfl⟩ := hden
            exact ⟨ms, rfl⟩
          | some de =>
            simp only [bind_ok_iff] at hden
            obtain ⟨ex, _, hden⟩ := hden
            split at hden
            · simp only [bind_ok_iff] at hden
              obtain ⟨_, h, _⟩ := hden
              cases h
            · simp only [bind_ok_iff, pure_ok_iff] at hden
              obtain ⟨ms, _, rfl⟩ := hden
              exact ⟨ms, rfl⟩
        obtain ⟨ms, rfl⟩ := hP
        have hdurs' : ∀ q ∈ rest, q.dur = p.dur := by
          have : rest.all (fun q => q.dur == p.dur) = true := by simpa using hdurs
          intro q hq
          have := (List.all_eq_true.mp this) q hq
          simpa using this
        have hpd : ∀ q ∈ p :: rest, q.dur = p.dur := by
          intro q hq
          rcases List.mem_cons.mp hq with rfl | hq
          · rfl
          · exact hdurs' q hq
        have hp := hmem p (List.mem_cons_self ..)
        refine ⟨⟨?_, (i1 p hp.1).dur_nonneg, ?_⟩, ?_, ?_⟩
        · intro he
          rw [isEmpty_iff] at he
          simp only [mergeChans, List.flatMap_cons, List.append_eq_nil_iff] at he
          have := hp.2
          rw [← Bool.not_eq_true, isEmpty_iff] at this
          exact absurd he.1 this
        · intro x hx
          simp only [mergeChans, List.mem_flatMap] at hx
          obtain ⟨q, hq, hxq⟩ := hx
          obtain ⟨h1, h2⟩ := (i1 q (hmem q hq).1).seg x hxq
          exact ⟨h1, by rw [h2]; exact hpd q hq⟩
        · intro o ho
          simp only [Pulse.chanNames, mergeChans, List.mem_map, List.mem_flatMap] at ho
          obtain ⟨x, ⟨q, hq, hxq⟩, rfl⟩ := ho
          obtain ⟨p', hp', c, hc, hl⟩ := i2 q (hmem q hq).1 x.1 (List.mem_map.mpr ⟨x, hxq, rfl⟩)
          refine ⟨c, ?_, hl⟩
          simp only [PT.definedChannels]
          rw [mem_dedup]
          -- `c` is a channel of one of the sub-templates
          have : ∀ (l : List PT), p' ∈ l → c ∈ PT.allChannels l := by
            intro l
            induction l with
            | nil => intro h; cases h
            | cons y ys ihy =>
              intro h
              simp only [PT.allChannels, List.mem_append]
              rcases List.mem_cons.mp h with rfl | h
              · exact Or.inl hc
              · exact Or.inr (ihy h)
          exact this subs hp'
        · intro hkeep D hD
          simp only [keeps] at hkeep
          exact hpartdur hkeep D hD p hp.1

/-! ### atomic arithmetic templates -/

/-- the channels of `lhs ± rhs` when both operands play something -/
def aaChans (minus : Bool) (l r : Pulse) : List (Chan × PL) :=
  l.chans.map (fun x => (x.1, match r.chans.lookup x.1 with
    | some q => PL.zipWith (fun a b => if minus then a - b else a + b) x.2 q
    | none => x.2)) ++
  (r.chans.filter (fun x => (l.chans.lookup x.1).isNone)).map
    (fun x => (x.1, if minus then x.2.mapV (fun v => -v) else x.2))

theorem denote_arithAtomic {id lhs minus rhs meas σ mm cm P}
    (hden : denote (.arithAtomic id lhs minus rhs meas) σ mm cm = .ok P) :
    ∃ l r, denote lhs σ mm cm = .ok l ∧ denote rhs σ mm cm = .ok r ∧
      ((l.isEmpty = true ∧ r.isEmpty = true ∧ P = Pulse.empty) ∨
       (r.isEmpty = true ∧ l.isEmpty = false ∧ ∃ ms, P = { l with windows := ms }) ∨
       (l.isEmpty = true ∧ r.isEmpty = false ∧ ∃ ms, P = { r with
          chans := r.chans.map (fun x => (x.1, if minus then x.2.mapV (fun v => -v) else x.2)), windows := ms }) ∨
       (l.isEmpty = false ∧ r.isEmpty = false ∧ l.dur = r.dur ∧
          ∃ ms, P = { dur := l.dur, chans := aaChans minus l r, windows := ms })) := by
  rw [denote] at hden
  simp only [bind_ok_iff] at hden
  obtain ⟨l, hl, r, hr, hden⟩ := hden
  refine ⟨l, r, hl, hr, ?_⟩
  cases hle : l.isEmpty <;> cases hre : r.isEmpty <;> simp only [hle, hre, Bool.and_true, Bool.and_false,
    Bool.true_and, Bool.false_and, Bool.false_eq_true, if_false, if_true, bind_ok_iff, pure_ok_iff] at hden
  · obtain ⟨ms, _, hden⟩ := hden
    split at hden
    · cases hden
    · rename_i hd
      simp only [pure_ok_iff] at hden
      right; right; right
      refine ⟨rfl, rfl, by simpa using hd, ms, ?_⟩
      rw [← hden]
      simp only [aaChans]
      congr 2
      · apply List.map_congr_left
        intro x _
        cases r.chans.lookup x.1 <;> rfl
  · obtain ⟨ms, _, hden⟩ := hden
    right; left
    exact ⟨rfl, rfl, ms, hden.symm⟩
  · obtain ⟨ms, _, hden⟩ := hden
    right; right; left
    exact ⟨rfl, rfl, ms, hden.symm⟩
  · left
    exact ⟨rfl, rfl, hden.symm⟩

theorem inv_arithAtomic (id lhs minus rhs meas) (ihl : InvClaim lhs) (ihr : InvClaim rhs) :
    InvClaim (.arithAtomic id lhs minus rhs meas) := by
  intro σ mm cm P hden hreg
  simp only [regular, Bool.and_eq_true] at hreg
  obtain ⟨l, r, hl, hr, hcases⟩ := denote_arithAtomic hden
  obtain ⟨l1, l2, l3⟩ := ihl σ mm cm l hl hreg.1.1
  obtain ⟨r1, r2, r3⟩ := ihr σ mm cm r hr hreg.1.2
  have hdc : ∀ c, c ∈ lhs.definedChannels ∨ c ∈ rhs.definedChannels →
      c ∈ (PT.arithAtomic id lhs minus rhs meas).definedChannels := by
    intro c hc
    simp only [PT.definedChannels]
    rw [mem_dedup]
    exact List.mem_append.mpr hc
  have hD : ∀ D, templateDuration (.arithAtomic id lhs minus rhs meas) σ = .ok D →
      ∃ dl dr, templateDuration lhs σ = .ok dl ∧ templateDuration rhs σ = .ok dr ∧ D = if dl ≤ dr then dr else dl := by
    intro D hD
    rw [templateDuration] at hD
    simp only [bind_ok_iff, pure_ok_iff] at hD
    obtain ⟨dl, hdl, dr, hdr, rfl⟩ := hD
    exact ⟨dl, dr, hdl, hdr, rfl⟩
  rcases hcases with ⟨hle, hre, rfl⟩ | ⟨hre, hle, ms, rfl⟩ | ⟨hle, hre, ms, rfl⟩ | ⟨hle, hre, hdur, ms, rfl⟩
  · refine ⟨pulseInv_empty, (fun o ho => absurd ho (not_mem_empty_chanNames o)), ?_⟩
    intro hkeep D hDD
    simp only [keeps, Bool.and_eq_true] at hkeep
    obtain ⟨dl, dr, hdl, hdr, rfl⟩ := hD D hDD
    rw [l3 hkeep.1 dl hdl, r3 hkeep.2 dr hdr, l1.empty_dur hle, r1.empty_dur hre]
    simp; rfl
  · refine ⟨⟨l1.empty_dur, l1.dur_nonneg, l1.seg⟩, ?_, ?_⟩
    · intro o ho
      obtain ⟨c, hc, hl'⟩ := l2 o ho
      exact ⟨c, hdc c (Or.inl hc), hl'⟩
    · intro hkeep D hDD
      simp only [keeps, Bool.and_eq_true] at hkeep
      obtain ⟨dl, dr, hdl, hdr, rfl⟩ := hD D hDD
      have e1 := l3 hkeep.1 dl hdl
      have e2 := r3 hkeep.2 dr hdr
      rw [r1.empty_dur hre] at e2
      have := l1.dur_nonneg
      simp only
      rw [e1, e2]
      split <;> grind
  · refine ⟨⟨?_, r1.dur_nonneg, ?_⟩, ?_, ?_⟩
    · intro he
      rw [isEmpty_iff] at he
      simp only [List.map_eq_nil_iff] at he
      have : r.isEmpty = true := by rw [isEmpty_iff]; exact he
      rw [hre] at this; cases this
    · intro x hx
      simp only [List.mem_map] at hx
      obtain ⟨y, hy, rfl⟩ := hx
      obtain ⟨h1, h2⟩ := r1.seg y hy
      simp only
      split
      · exact ⟨plPos_mapV _ h1, by rw [PL_dur_mapV]; exact h2⟩
      · exact ⟨h1, h2⟩
    · intro o ho
      simp only [Pulse.chanNames, List.map_map] at ho
      obtain ⟨c, hc, hl'⟩ := r2 o ho
      exact ⟨c, hdc c (Or.inr hc), hl'⟩
    · intro hkeep D hDD
      simp only [keeps, Bool.and_eq_true] at hkeep
      obtain ⟨dl, dr, hdl, hdr, rfl⟩ := hD D hDD
      have e1 := l3 hkeep.1 dl hdl
      have e2 := r3 hkeep.2 dr hdr
      rw [l1.empty_dur hle] at e1
      have := r1.dur_nonneg
      simp only
      rw [e1, e2]
      split <;> grind
  · refine ⟨⟨?_, l1.dur_nonneg, ?_⟩, ?_, ?_⟩
    · intro he
      rw [isEmpty_iff] at he
      simp only [aaChans, List.append_eq_nil_iff, List.map_eq_nil_iff] at he
      have : l.isEmpty = true := by rw [isEmpty_iff]; exact he.1
      rw [hle] at this; cases this
    · intro x hx
      simp only [aaChans] at hx
      rcases List.mem_append.mp hx with hx | hx
      · obtain ⟨y, hy, rfl⟩ := List.mem_map.mp hx
        obtain ⟨h1, h2⟩ := l1.seg y hy
        simp only
        cases hq : r.chans.lookup y.1 with
        | none => exact ⟨h1, h2⟩
        | some q =>
          obtain ⟨h3, h4⟩ := r1.seg (y.1, q) (mem_of_lookup r.chans y.1 q hq)
          obtain ⟨z1, z2⟩ := zipWith_inv (fun a b => if minus then a - b else a + b) y.2 q h1 h3 (by rw [h2, h4, hdur])
          exact ⟨z1, by rw [z2, h2]⟩
      · obtain ⟨y, hy, rfl⟩ := List.mem_map.mp hx
        obtain ⟨h1, h2⟩ := r1.seg y (List.mem_filter.mp hy).1
        simp only
        split
        · exact ⟨plPos_mapV _ h1, by rw [PL_dur_mapV, h2, hdur]⟩
        · exact ⟨h1, by rw [h2, hdur]⟩
    · intro o ho
      simp only [Pulse.chanNames, aaChans, List.map_append, List.map_map, List.mem_append, List.mem_map] at ho
      rcases ho with ⟨y, hy, rfl⟩ | ⟨y, hy, rfl⟩
      · obtain ⟨c, hc, hl'⟩ := l2 y.1 (List.mem_map.mpr ⟨y, hy, rfl⟩)
        exact ⟨c, hdc c (Or.inl hc), hl'⟩
      · obtain ⟨c, hc, hl'⟩ := r2 y.1 (List.mem_map.mpr ⟨y, (List.mem_filter.mp hy).1, rfl⟩)
        exact ⟨c, hdc c (Or.inr hc), hl'⟩
    · intro hkeep D hDD
      simp only [keeps, Bool.and_eq_true] at hkeep
      obtain ⟨dl, dr, hdl, hdr, rfl⟩ := hD D hDD
      have e1 := l3 hkeep.1 dl hdl
      have e2 := r3 hkeep.2 dr hdr
      simp only
      rw [e1, e2, hdur]
      split <;> rfl


/-! ### all templates -/

mutual
theorem invClaim : ∀ (pt : PT), supported pt = true → InvClaim pt
  | .const id dur amps meas, _ => inv_const id dur amps meas
  | .table id entries meas cons, _ => inv_table id entries meas cons
  | .point id chans entries meas cons, _ => inv_point id chans entries meas cons
  | .func id ch dur e meas cons, _ => inv_func id ch dur e meas cons
  | .seq id subs meas cons, h => by
      simp only [supported, Bool.and_eq_true] at h
      exact inv_seq id subs meas cons (invClaimAll subs h.1) h.2
  | .rep id body count meas cons, h => by
      simp only [supported] at h
      exact inv_rep id body count meas cons (invClaim body h)
  | .forLoop id body idx start stop step meas cons, h => by
      simp only [supported] at h
      exact inv_forLoop id body idx start stop step meas cons (invClaim body h)
  | .mapping id body pm mm' cm' cons, h => by
      simp only [supported, Bool.and_eq_true] at h
      exact inv_mapping id body pm mm' cm' cons (invClaim body h.1.1.1)
  | .parallel id body over, h => by
      simp only [supported, Bool.and_eq_true] at h
      exact inv_parallel id body over (invClaim body h.1)
  | .atomicMulti id subs dur meas cons, h => by
      simp only [supported, Bool.and_eq_true] at h
      exact inv_atomicMulti id subs dur meas cons (invClaimAll subs h.1)
  | .arith id body op scalar ptIsLhs, h => by
      simp only [supported, Bool.and_eq_true] at h
      exact inv_arith id body op scalar ptIsLhs (invClaim body h.1.1)
  | .arithAtomic id lhs minus rhs meas, h => by
      simp only [supported, Bool.and_eq_true] at h
      exact inv_arithAtomic id lhs minus rhs meas (invClaim lhs h.1) (invClaim rhs h.2)
  | .timeReversal id body, h => by
      simp only [supported] at h
      exact inv_timeReversal id body (invClaim body h)
theorem invClaimAll : ∀ (subs : List PT), supportedAll subs = true → ∀ p ∈ subs, InvClaim p
  | [], _ => fun p hp => nomatch hp
  | q :: qs, h => by
      simp only [supportedAll, Bool.and_eq_true] at h
      intro p hp
      rcases List.mem_cons.mp hp with hpq | hp
      · rw [hpq]; exact invClaim q h.1
      · exact invClaimAll qs h.2 p hp
end

end QP.C07
