import QP.Proofs.C09Frame
/-! Local steps of the operations that do not go through `Node.__setitem__`. -/
namespace QP.C09

theorem query_ok (next : Nat) (t : T) (h : Coherent t) : LocOk t (queryLoc next t) := by
  obtain ⟨h1, _, h3, h4⟩ := fillV_spec.1 t h
  refine ⟨h1, ⟨by simp [queryLoc, okLoc, h4], by simp [queryLoc, okLoc, h4], by simp [queryLoc, okLoc, h4]⟩, ?_⟩
  simp only [queryLoc, okLoc, UpdOk, dur, h3, h4]

theorem setWf_ok (w : Option Wf) (next : Nat) (t : T) (h : Coherent t) : LocOk t (setWfLoc w next t) := by
  refine ⟨?_, ⟨by simp [setWfLoc, okLoc], by simp [setWfLoc, okLoc], by simp [setWfLoc, okLoc]⟩, trivial⟩
  rw [coherent_iff] at h ⊢
  obtain ⟨_, h2, h3⟩ := h
  refine ⟨Or.inl (by simp [setWfLoc, okLoc]), ?_, by simpa [setWfLoc, okLoc] using h3⟩
  intro k c hk
  simpa [setWfLoc, okLoc] using h2 k c (by simpa [setWfLoc, okLoc] using hk)

theorem setRep_ok (r : Int) (v : Bool) (next : Nat) (t : T) (h : Coherent t) : LocOk t (setRepLoc r v next t) := by
  refine ⟨?_, ⟨by simp [setRepLoc, okLoc], by simp [setRepLoc, okLoc], by simp [setRepLoc, okLoc]⟩, trivial⟩
  exact coherent_upd _ t rfl rfl (Or.inl rfl) h

theorem append_ok (a : T) (next : Nat) (t : T) (h : Coherent t) (ha : Coherent a) (hw : t.info.wf = none) :
    LocOk t (appendLoc a next t) := by
  have ha1 : Coherent ((a.withPar (some t.info.uid)).withPidx (some (t.kids.length : Int))) :=
    coherent_withPidx _ _ (coherent_withPar _ _ ha)
  obtain ⟨f1, f2, f3, f4⟩ := fillV_spec.1 _ ha1
  rw [coherent_iff] at h
  obtain ⟨h1, h2, h3⟩ := h
  simp only [appendLoc, okLoc]
  -- abbreviations
  generalize hA : (a.withPar (some t.info.uid)).withPidx (some (t.kids.length : Int)) = A at *
  have hne : (t.kids ++ [(fillV A).1]).isEmpty = false := by
    cases t.kids <;> rfl
  have hdurA : dur (fillV A).1 = (fillV A).2 * (A.info.rep : Rat) := by
    simp only [dur, f3, f2, f4]
  have hbody : bodyDur (T.mk { t.info with cache := t.info.cache.map (· + (fillV A).2 * (A.info.rep : Rat)) }
      (t.kids ++ [(fillV A).1])) = bodyDur t + (fillV A).2 * (A.info.rep : Rat) := by
    rw [bodyDur_mk, hne, sumDur_append, bodyDur_eq t]
    simp only [sumDur_cons, sumDur_nil, hdurA]
    by_cases he : t.kids.isEmpty
    · have : t.kids = [] := List.isEmpty_iff.1 he
      simp [this, hw, leafDur]; grind
    · simp [he]; grind
  refine ⟨?_, ⟨rfl, rfl, rfl⟩, ?_⟩
  · rw [coherent_mk]
    refine ⟨?_, ?_, ?_⟩
    · unfold cacheOkHere at h1 ⊢
      rw [hbody]
      simp only [T.info_mk]
      rcases h1 with h | h
      · left; simp [h]
      · right; simp [h]
    · intro k c hk
      simp only [T.kids_mk, T.info_mk] at hk ⊢
      by_cases hlt : k < t.kids.length
      · rw [List.getElem?_append_left hlt] at hk
        exact h2 k c hk
      · rw [List.getElem?_append_right (by omega)] at hk
        have : k - t.kids.length = 0 := by
          rcases Nat.eq_zero_or_pos (k - t.kids.length) with h | h
          · exact h
          · rw [List.getElem?_eq_none (by simp; omega)] at hk; cases hk
        rw [this] at hk
        simp at hk
        subst hk
        have hk' : k = t.kids.length := by omega
        rw [f4, ← hA]
        simp [hk']
    · intro c hc
      rcases List.mem_append.1 hc with h | h
      · exact h3 c h
      · simp at h; rw [h]; exact f1
  · simp only [UpdOk, dur, hbody, T.info_mk]; grind

/-! ### `copy_tree_structure` produces coherent trees, whatever it copies -/

theorem copy_spec :
    (∀ t par pidx n, Coherent (copyT par pidx t n).1 ∧ (copyT par pidx t n).1.info.uid = n ∧
        (copyT par pidx t n).1.info.pidx = pidx ∧ (copyT par pidx t n).1.info.par = par) ∧
    (∀ ks paruid idx n, (∀ c ∈ (copyL paruid idx ks n).1, Coherent c) ∧
        ∀ j c, (copyL paruid idx ks n).1[j]? = some c →
          c.info.pidx = some ((idx + j : Nat) : Int) ∧ c.info.par = some paruid) := by
  apply T.ind
  · intro i ks ih par pidx n
    obtain ⟨k1, k2⟩ := ih n 0 (n + 1)
    simp only [copyT, T.info_mk, and_self, and_true]
    rw [coherent_mk]
    refine ⟨Or.inl rfl, ?_, k1⟩
    intro j c hj
    simpa using k2 j c hj
  · intro paruid idx n
    simp [copyL]
  · intro c cs ihc ihcs paruid idx n
    obtain ⟨c1, _, c3, c4⟩ := ihc (some paruid) (some (idx : Int)) n
    obtain ⟨d1, d2⟩ := ihcs paruid (idx + 1) (copyT (some paruid) (some (idx : Int)) c n).2
    simp only [copyL]
    refine ⟨?_, ?_⟩
    · intro x hx
      rcases List.mem_cons.1 hx with h | h
      · rw [h]; exact c1
      · exact d1 x h
    · intro j x hj
      cases j with
      | zero => simp at hj; subst hj; simp [c3, c4]
      | succ j =>
        simp at hj
        have := d2 j x hj
        refine ⟨?_, this.2⟩
        rw [this.1]; congr 1; omega

theorem copyT_coherent (par : Option Nat) (pidx : Option Int) (t : T) (n : Nat) : Coherent (copyT par pidx t n).1 :=
  (copy_spec.1 t par pidx n).1

theorem copyRow_coherent (par : Option Nat) (src : List T) (n : Nat) :
    ∀ c ∈ (copyMany.copyRow par src n).1, Coherent c := by
  induction src generalizing n with
  | nil => simp [copyMany.copyRow]
  | cons a as ih =>
    intro c hc
    simp only [copyMany.copyRow] at hc
    rcases List.mem_cons.1 hc with h | h
    · rw [h]; exact copyT_coherent _ _ _ _
    · exact ih _ c h

theorem copyMany_coherent (par : Option Nat) (src : List T) (k n : Nat) :
    ∀ c ∈ (copyMany par src k n).1, Coherent c := by
  induction k generalizing n with
  | zero => simp [copyMany]
  | succ k ih =>
    intro c hc
    simp only [copyMany] at hc
    rcases List.mem_append.1 hc with h | h
    · exact copyRow_coherent _ _ _ c h
    · exact ih _ c h

theorem copy_ok (kp : CopyPar) (next : Nat) (t : T) (h : Coherent t) : LocOk t (copyLoc kp next t) :=
  ⟨h, SameId.refl t, rfl⟩

/-- `node.encapsulate()` -/
theorem encapsulate_ok (next : Nat) (t : T) (h : Coherent t) : LocOk t (encapsulateLoc next t) := by
  rw [coherent_iff] at h
  obtain ⟨_, _, h3⟩ := h
  refine ⟨?_, ⟨rfl, rfl, rfl⟩, trivial⟩
  simp only [encapsulateLoc, okLoc]
  rw [coherent_mk]
  refine ⟨Or.inl rfl, ?_, ?_⟩
  · intro k c hk
    simp only [T.kids_mk] at hk
    cases k with
    | zero => simp at hk; subst hk; simp
    | succ k => simp at hk
  · intro c hc
    simp only [List.mem_singleton] at hc
    subst hc
    rw [coherent_mk]
    refine ⟨Or.inl rfl, ?_, ?_⟩
    · intro k c hk
      simp only [T.kids_mk, List.getElem?_mapIdx, Option.map_eq_some_iff] at hk
      obtain ⟨d, _, hd⟩ := hk
      subst hd
      simp
    · intro c hc
      simp only [List.mem_mapIdx] at hc
      obtain ⟨j, hj, rfl⟩ := hc
      exact coherent_withPidx _ _ (coherent_withPar _ _ (h3 _ (List.getElem_mem hj)))

end QP.C09
