import QP.Model.PT
import QP.Proofs.PTAtomsW
import QP.Proofs.PTTop
/-! Top level: durations and windows of `create_program` for the stage-1 subset extended by time reversal. -/
namespace QP.PT

/-- stage 1 plus time reversal (for durations and windows) -/
inductive Stage1R : PT → Prop
  | const {id dur amps meas} : Stage1R (.const id dur amps meas)
  | func {id ch dur e meas cons} : Stage1R (.func id ch dur e meas cons)
  | seq {id subs meas cons} : (∀ p ∈ subs, Stage1R p) → Stage1R (.seq id subs meas cons)
  | rep {id body count meas cons} : Stage1R body → Stage1R (.rep id body count meas cons)
  | forLoop {id body idx start stop step meas cons} : Stage1R body →
      Stage1R (.forLoop id body idx start stop step meas cons)
  | mapping {id body pm mm cm cons} : Stage1R body → Stage1R (.mapping id body pm mm cm cons)
  | timeReversal {id body} : Stage1R body → Stage1R (.timeReversal id body)

theorem Stage1R.basic {pt : PT} (h : Stage1R pt) : BasicW pt := by
  induction h with
  | const => exact BasicW.const (atomOKW_const _ _ _ _)
  | func => exact BasicW.func (atomOKW_func _ _ _ _ _ _)
  | seq _ ih => exact BasicW.seq ih
  | rep _ ih => exact BasicW.rep ih
  | forLoop _ ih => exact BasicW.forLoop ih
  | mapping _ ih => exact BasicW.mapping ih
  | timeReversal _ ih => exact BasicW.timeReversal ih

theorem RelW.program {items : List Item} {P : Pulse} {prog : Loop} (h : RelW items P)
    (hp : toProgram items = some prog) :
    prog.duration = P.dur ∧ prog.windows.Perm P.windows := by
  unfold toProgram at hp
  simp only [rootLoop, applyItems_eq, List.nil_append, Loop.durationList] at hp
  rcases Bool.eq_false_or_eq_true (Loop.mk 1 none (measW items 0) (nodesOf items)).isEmpty with he | he
  · simp [he] at hp
  · simp only [he, Bool.false_eq_true, if_false, Option.some.injEq] at hp
    subst hp
    refine ⟨?_, ?_⟩
    · rw [duration_none, h.dur]; simp
    · simp only [Loop.windows]
      rw [repeatWindows_one]
      exact List.Perm.trans (measW_windowsList_perm items 0) h.windows

theorem RelW.program_none {items : List Item} {P : Pulse} (h : RelW items P)
    (hp : toProgram items = none) : P.dur = 0 ∧ P.windows = [] := by
  unfold toProgram at hp
  simp only [rootLoop, applyItems_eq, List.nil_append, Loop.durationList] at hp
  rcases Bool.eq_false_or_eq_true (Loop.mk 1 none (measW items 0) (nodesOf items)).isEmpty with he | he
  · have hn : nodesOf items = [] := by simpa [Loop.isEmpty, Loop.wf, Loop.children] using he
    have hits : items = [] := h.blocks.eq_nil hn
    subst hits
    refine ⟨by rw [← h.dur]; simp [nodesOf, Loop.durationList], ?_⟩
    have := h.windows
    simp only [itemsWindows] at this
    exact List.Perm.eq_nil (List.Perm.symm this)
  · simp [he] at hp

theorem createProgram_relW {pt : PT} (hs : Stage1R pt) (params : List (String × Rat))
    (mm : Option (List (MName × Option MName))) (cm : List (Chan × Option Chan)) (prog? : Option Loop) (P : Pulse)
    (h1 : createProgram pt params mm cm [] = .ok prog?) (h2 : denoteTop pt params mm cm = .ok P) :
    match prog? with
    | some prog => prog.duration = P.dur ∧ prog.windows.Perm P.windows
    | none => P.dur = 0 ∧ P.windows = [] := by
  simp only [createProgram, bind_ok, pure_ok] at h1
  obtain ⟨ctx, hctx, items, hitems, hprog⟩ := h1
  simp only [denoteTop, bind_ok] at h2
  obtain ⟨ctx', hctx', h2⟩ := h2
  rw [hctx] at hctx'; cases hctx'
  obtain ⟨hsingle, htrafo⟩ := topCtx_ok hctx
  have hctx0 : ctx = ctx0 ctx.scope ctx.mm ctx.cm := by
    cases ctx; simp only [ctx0] at *; simp [hsingle, htrafo]
  unfold compile at hitems
  rw [wrapSingle_nil _ _ _ hsingle, hctx0] at hitems
  have hr := compile_relW hs.basic ctx.scope ctx.mm ctx.cm items P hitems h2
  cases prog? with
  | some prog => exact hr.program hprog
  | none => exact hr.program_none hprog

end QP.PT
