import QP.Model.C12
/-! Helper lemmas for the C12 property theorems. -/
namespace QP.C12

deriving instance DecidableEq for Except

/-! ### coincidence: the value depends only on the free names -/

theorem sumLoop_congr {f g : Int → Except Err Val} (h : ∀ k, f k = g k) (acc : Val) (lo : Int) (n : Nat) :
    sumLoop f acc lo n = sumLoop g acc lo n := by
  have : f = g := funext h
  rw [this]

theorem eval_congr (e : Expr) : ∀ (ρ ρ' : Env), (∀ x ∈ fv e, ρ x = ρ' x) → eval ρ e = eval ρ' e := by
  induction e with
  | lit v => intro ρ ρ' _; simp [eval]
  | var x => intro ρ ρ' h; simp [eval, h x (by simp [fv])]
  | un op a iha =>
    intro ρ ρ' h
    simp only [eval]
    rw [iha ρ ρ' (fun x hx => h x (by simpa [fv] using hx))]
  | bin op a b iha ihb =>
    intro ρ ρ' h
    simp only [eval]
    rw [iha ρ ρ' (fun x hx => h x (by simp [fv, hx])), ihb ρ ρ' (fun x hx => h x (by simp [fv, hx]))]
  | ite c a b ihc iha ihb =>
    intro ρ ρ' h
    simp only [eval]
    rw [ihc ρ ρ' (fun x hx => h x (by simp [fv, hx])), iha ρ ρ' (fun x hx => h x (by simp [fv, hx])),
      ihb ρ ρ' (fun x hx => h x (by simp [fv, hx]))]
  | sum i lo hi body ihlo ihhi ihbody =>
    intro ρ ρ' h
    simp only [eval]
    rw [ihlo ρ ρ' (fun x hx => h x (by simp [fv, hx])), ihhi ρ ρ' (fun x hx => h x (by simp [fv, hx]))]
    have hb : ∀ k : Int, eval (ρ.set i (.num k)) body = eval (ρ'.set i (.num k)) body := by
      intro k
      apply ihbody
      intro x hx
      by_cases hxi : x = i
      · simp [Env.set, hxi]
      · simp only [Env.set, hxi, if_false]
        exact h x (by simp [fv, hx, hxi])
    cases eval ρ' lo with
    | error e => rfl
    | ok vlo =>
      cases eval ρ' hi with
      | error e => rfl
      | ok vhi =>
        simp only
        cases vlo.toInt with
        | error e => rfl
        | ok l =>
          cases vhi.toInt with
          | error e => rfl
          | ok hh => exact sumLoop_congr hb _ _ _

theorem eval_closed (e : Expr) (h : fv e = []) (ρ ρ' : Env) : eval ρ e = eval ρ' e :=
  eval_congr e ρ ρ' (by simp [h])

/-! ### substitution -/

theorem eval_subst_aux (e : Expr) : ∀ (ρ : Env) (σ : Subst),
    (∀ x ∈ fv e, ∀ s, σ x = some s → ∃ v, eval ρ s = .ok v) →
    (∀ x ∈ fv e, ∀ s, σ x = some s → ∀ i ∈ bv e, i ∉ fv s) →
    eval ρ (subst σ e) = eval (ρ.after σ) e := by
  induction e with
  | lit v => intro ρ σ _ _; simp [subst, eval]
  | var x =>
    intro ρ σ hok _
    cases hσ : σ x with
    | none => simp [subst, eval, Env.after, hσ]
    | some s =>
      obtain ⟨v, hv⟩ := hok x (by simp [fv]) s hσ
      simp [subst, eval, Env.after, hσ, hv]
  | un op a iha =>
    intro ρ σ hok hcap
    simp only [subst, eval]
    rw [iha ρ σ (fun x hx => hok x (by simpa [fv] using hx)) (fun x hx s hs i hi => hcap x (by simpa [fv] using hx) s hs i (by simpa [bv] using hi))]
  | bin op a b iha ihb =>
    intro ρ σ hok hcap
    simp only [subst, eval]
    rw [iha ρ σ (fun x hx => hok x (by simp [fv, hx])) (fun x hx s hs i hi => hcap x (by simp [fv, hx]) s hs i (by simp [bv, hi])),
      ihb ρ σ (fun x hx => hok x (by simp [fv, hx])) (fun x hx s hs i hi => hcap x (by simp [fv, hx]) s hs i (by simp [bv, hi]))]
  | ite c a b ihc iha ihb =>
    intro ρ σ hok hcap
    simp only [subst, eval]
    rw [ihc ρ σ (fun x hx => hok x (by simp [fv, hx])) (fun x hx s hs i hi => hcap x (by simp [fv, hx]) s hs i (by simp [bv, hi])),
      iha ρ σ (fun x hx => hok x (by simp [fv, hx])) (fun x hx s hs i hi => hcap x (by simp [fv, hx]) s hs i (by simp [bv, hi])),
      ihb ρ σ (fun x hx => hok x (by simp [fv, hx])) (fun x hx s hs i hi => hcap x (by simp [fv, hx]) s hs i (by simp [bv, hi]))]
  | sum i lo hi body ihlo ihhi ihbody =>
    intro ρ σ hok hcap
    simp only [subst, eval]
    rw [ihlo ρ σ (fun x hx => hok x (by simp [fv, hx])) (fun x hx s hs j hj => hcap x (by simp [fv, hx]) s hs j (by simp [bv, hj])),
      ihhi ρ σ (fun x hx => hok x (by simp [fv, hx])) (fun x hx s hs j hj => hcap x (by simp [fv, hx]) s hs j (by simp [bv, hj]))]
    have hb : ∀ k : Int, eval (ρ.set i (.num k)) (subst (σ.erase i) body)
        = eval ((ρ.after σ).set i (.num k)) body := by
      intro k
      -- the summation index is not free in any replacement, so replacements do not see `i ↦ k`
      have hfree : ∀ x ∈ fv body, ∀ s, (σ.erase i) x = some s →
          eval (ρ.set i (.num k)) s = eval ρ s := by
        intro x hx s hs
        have hxi : x ≠ i := by
          intro hxi; simp [Subst.erase, hxi] at hs
        have hs' : σ x = some s := by simpa [Subst.erase, hxi] using hs
        have hnot : i ∉ fv s := hcap x (by simp [fv, hx, hxi]) s hs' i (by simp [bv])
        apply eval_congr
        intro y hy
        have : y ≠ i := fun h => hnot (h ▸ hy)
        simp [Env.set, this]
      rw [ihbody (ρ.set i (.num k)) (σ.erase i)]
      · apply eval_congr
        intro x hx
        by_cases hxi : x = i
        · simp [Env.after, Env.set, Subst.erase, hxi]
        · cases hσ : σ x with
          | none => simp [Env.after, Env.set, Subst.erase, hxi, hσ]
          | some s =>
            have := hfree x hx s (by simp [Subst.erase, hxi, hσ])
            simp [Env.after, Env.set, Subst.erase, hxi, hσ, this]
      · intro x hx s hs
        have hxi : x ≠ i := by
          intro hxi; simp [Subst.erase, hxi] at hs
        have hs' : σ x = some s := by simpa [Subst.erase, hxi] using hs
        obtain ⟨v, hv⟩ := hok x (by simp [fv, hx, hxi]) s hs'
        exact ⟨v, by rw [hfree x hx s hs, hv]⟩
      · intro x hx s hs j hj
        have hxi : x ≠ i := by
          intro hxi; simp [Subst.erase, hxi] at hs
        have hs' : σ x = some s := by simpa [Subst.erase, hxi] using hs
        exact hcap x (by simp [fv, hx, hxi]) s hs' j (by simp [bv, hj])
    cases eval (ρ.after σ) lo with
    | error e => rfl
    | ok vlo =>
      cases eval (ρ.after σ) hi with
      | error e => rfl
      | ok vhi =>
        simp only
        cases vlo.toInt with
        | error e => rfl
        | ok l =>
          cases vhi.toInt with
          | error e => rfl
          | ok hh => exact sumLoop_congr hb _ _ _

/-! ### element-wise evaluation -/

/-- an array value has `n` samples (scalars fit every length) -/
def Val.Fits (n : Nat) : Val → Prop
  | .sc _ => True
  | .vec xs => xs.length = n

/-- formulas built from scalar constants, names, element-wise operators and `Piecewise` only -/
def Pointwise : Expr → Prop
  | .lit (.sc _) => True
  | .lit (.vec _) => False
  | .var _ => True
  | .un (.sc _) a => Pointwise a
  | .un (.bcast _) _ => False
  | .bin (.sc _) a b => Pointwise a ∧ Pointwise b
  | .bin .index _ _ => False
  | .bin .cons _ _ => False
  | .ite c a b => Pointwise c ∧ (Pointwise a ∧ Pointwise b)
  | .sum _ _ _ _ => False

/-- the scope at sample `i`: every array is replaced by its `i`-th entry -/
def Env.at (ρ : Env) (i : Nat) : Env := fun x =>
  match ρ x with
  | none => none
  | some v => (v.at i).map Val.sc

theorem mapE_ok {α β : Type} {f : α → Except Err β} : ∀ {xs : List α} {ys : List β}, mapE f xs = .ok ys →
    ys.length = xs.length ∧ ∀ (i : Nat) (x : α), xs[i]? = some x → ∃ y, f x = .ok y ∧ ys[i]? = some y := by
  intro xs
  induction xs with
  | nil =>
    intro ys h
    simp [mapE] at h
    subst h
    simp
  | cons x xs ih =>
    intro ys h
    simp only [mapE] at h
    cases hfx : f x with
    | error e => simp [hfx] at h
    | ok y =>
      cases hrest : mapE f xs with
      | error e => simp [hfx, hrest] at h
      | ok ys' =>
        simp [hfx, hrest] at h
        subst h
        obtain ⟨hl, hi⟩ := ih hrest
        refine ⟨by simp [hl], ?_⟩
        intro i x' hx'
        cases i with
        | zero =>
          simp at hx'
          subst hx'
          exact ⟨y, hfx, by simp⟩
        | succ j =>
          simp at hx'
          obtain ⟨y', hy', hy''⟩ := hi j x' hx'
          exact ⟨y', hy', by simpa using hy''⟩

theorem commonLen_none : ∀ {vs : List Val}, commonLen vs = .ok none → ∀ v ∈ vs, ∃ s, v = .sc s := by
  intro vs
  induction vs with
  | nil => intro _ v hv; simp at hv
  | cons w ws ih =>
    intro h v hv
    simp only [commonLen] at h
    cases hr : commonLen ws with
    | error e => simp [hr] at h
    | ok r =>
      cases w with
      | sc s =>
        simp [hr, Val.len?] at h
        subst h
        rcases List.mem_cons.mp hv with rfl | hv'
        · exact ⟨s, rfl⟩
        · exact ih hr v hv'
      | vec xs =>
        cases r with
        | none => simp [hr, Val.len?] at h
        | some m =>
          simp [hr, Val.len?] at h
          split at h <;> simp at h

theorem commonLen_some : ∀ {vs : List Val} {m : Nat}, commonLen vs = .ok (some m) → ∃ v ∈ vs, v.len? = some m := by
  intro vs
  induction vs with
  | nil => intro m h; simp [commonLen] at h
  | cons w ws ih =>
    intro m h
    simp only [commonLen] at h
    cases hr : commonLen ws with
    | error e => simp [hr] at h
    | ok r =>
      cases w with
      | sc s =>
        simp [hr, Val.len?] at h
        subst h
        obtain ⟨v, hv, hl⟩ := ih hr
        exact ⟨v, List.mem_cons_of_mem _ hv, hl⟩
      | vec xs =>
        cases r with
        | none =>
          simp [hr, Val.len?] at h
          exact ⟨.vec xs, by simp, by simp [Val.len?, h]⟩
        | some k =>
          simp [hr, Val.len?] at h
          split at h
          · simp at h
            exact ⟨.vec xs, by simp, by simp [Val.len?, h]⟩
          · simp at h

theorem row_cons (v : Val) (vs : List Val) (j : Nat) :
    row (v :: vs) j = match v.at j with
      | none => .error .shape
      | some s => match row vs j with
        | .error e => .error e
        | .ok ys => .ok (s :: ys) := by
  simp only [row, mapE]
  cases v.at j with
  | none => simp
  | some s =>
    simp only []
    generalize mapE (fun v => match Val.at j v with | some s => Except.ok s | none => Except.error Err.shape) vs = m
    cases m <;> rfl

theorem row_scalars {vs : List Val} (h : ∀ v ∈ vs, ∃ s, v = .sc s) (j : Nat) : row vs j = row vs 0 := by
  induction vs with
  | nil => rfl
  | cons w ws ih =>
    obtain ⟨s, rfl⟩ := h w (by simp)
    have := ih (fun v hv => h v (List.mem_cons_of_mem _ hv))
    rw [row_cons, row_cons, this]
    rfl

/-- what `liftN` returns has the common length and its `i`-th sample is the scalar function of the
operands' `i`-th samples -/
theorem liftN_at {f : List Sc → Except Err Sc} {vs : List Val} {n i : Nat} {w : Val}
    (hfit : ∀ v ∈ vs, v.Fits n) (h : liftN f vs = .ok w) :
    w.Fits n ∧ (i < n → ∃ r s, row vs i = .ok r ∧ f r = .ok s ∧ w.at i = some s) := by
  unfold liftN at h
  cases hc : commonLen vs with
  | error e => simp [hc] at h
  | ok o =>
    cases o with
    | none =>
      simp only [hc] at h
      cases hr : rowApply f vs 0 with
      | error e => simp [hr] at h
      | ok s =>
        simp [hr] at h
        subst h
        refine ⟨trivial, fun _ => ?_⟩
        unfold rowApply at hr
        rw [← row_scalars (commonLen_none hc) i] at hr
        cases hrow : row vs i with
        | error e => simp [hrow] at hr
        | ok r =>
          simp [hrow] at hr
          exact ⟨r, s, rfl, hr, rfl⟩
    | some m =>
      simp only [hc] at h
      obtain ⟨v, hv, hl⟩ := commonLen_some hc
      have hm : m = n := by
        have := hfit v hv
        cases v with
        | sc s => simp [Val.len?] at hl
        | vec xs =>
          simp [Val.len?] at hl
          simp [Val.Fits] at this
          omega
      subst hm
      cases hmap : mapE (rowApply f vs) (List.range m) with
      | error e => simp [hmap] at h
      | ok ss =>
        simp [hmap] at h
        subst h
        obtain ⟨hlen, hidx⟩ := mapE_ok hmap
        refine ⟨by simpa [Val.Fits] using hlen, fun hi => ?_⟩
        obtain ⟨s, hs, hs'⟩ := hidx i i (by simp [hi])
        unfold rowApply at hs
        cases hrow : row vs i with
        | error e => simp [hrow] at hs
        | ok r =>
          simp [hrow] at hs
          exact ⟨r, s, rfl, hs, by simpa [Val.at] using hs'⟩

theorem commonLen_map_sc (r : List Sc) : commonLen (r.map Val.sc) = .ok none := by
  induction r with
  | nil => rfl
  | cons a r ih => simp [commonLen, ih, Val.len?]

theorem row_map_sc (r : List Sc) (j : Nat) : row (r.map Val.sc) j = .ok r := by
  induction r with
  | nil => rfl
  | cons a r ih =>
    rw [List.map_cons, row_cons, ih]
    rfl

/-- on scalars `liftN` is the scalar function -/
theorem liftN_scalars (f : List Sc → Except Err Sc) (r : List Sc) :
    liftN f (r.map Val.sc) = match f r with | .ok s => .ok (.sc s) | .error e => .error e := by
  cases hf : f r <;> simp [liftN, commonLen_map_sc, rowApply, row_map_sc, hf]

theorem row_at {vs : List Val} {r : List Sc} {i : Nat} (h : row vs i = .ok r) :
    r.length = vs.length ∧ ∀ (k : Nat) (v : Val), vs[k]? = some v → ∃ s, v.at i = some s ∧ r[k]? = some s := by
  obtain ⟨hl, hk⟩ := mapE_ok h
  refine ⟨hl, ?_⟩
  intro k v hv
  obtain ⟨s, hs, hs'⟩ := hk k v hv
  cases hat : v.at i with
  | none => simp [hat] at hs
  | some s' =>
    simp [hat] at hs
    subst hs
    exact ⟨s', rfl, hs'⟩

theorem Env.at_fits_lookup {ρ : Env} {n i : Nat} (hfit : ∀ x v, ρ x = some v → v.Fits n) (hi : i < n)
    {x : String} {v : Val} (hx : ρ x = some v) : ∃ s, v.at i = some s ∧ (ρ.at i) x = some (.sc s) := by
  have hf := hfit x v hx
  cases v with
  | sc s => exact ⟨s, rfl, by simp [Env.at, hx, Val.at]⟩
  | vec xs =>
    simp [Val.Fits] at hf
    have : i < xs.length := by omega
    exact ⟨xs[i], by simp [Val.at, this], by simp [Env.at, hx, Val.at, this]⟩

theorem eval_pointwise_aux (e : Expr) : ∀ (ρ : Env) (n i : Nat), Pointwise e →
    (∀ x v, ρ x = some v → v.Fits n) → ∀ v, eval ρ e = .ok v →
    v.Fits n ∧ (i < n → ∃ s, v.at i = some s ∧ eval (ρ.at i) e = .ok (.sc s)) := by
  induction e with
  | lit w =>
    intro ρ n i hp _ v h
    cases w with
    | sc s =>
      simp [eval] at h
      subst h
      exact ⟨trivial, fun _ => ⟨s, rfl, by simp [eval]⟩⟩
    | vec xs => simp [Pointwise] at hp
  | var x =>
    intro ρ n i _ hfit v h
    simp only [eval] at h
    cases hx : ρ x with
    | none => simp [hx] at h
    | some w =>
      simp [hx] at h
      subst h
      refine ⟨hfit x w hx, fun hi => ?_⟩
      obtain ⟨s, hs, hs'⟩ := Env.at_fits_lookup hfit hi hx
      exact ⟨s, hs, by simp [eval, hs']⟩
  | un op a iha =>
    intro ρ n i hp hfit v h
    cases op with
    | bcast k => simp [Pointwise] at hp
    | sc o =>
      simp only [Pointwise] at hp
      simp only [eval] at h
      cases ha : eval ρ a with
      | error e => simp [ha] at h
      | ok va =>
        simp only [ha, UnOp.eval] at h
        obtain ⟨hfa, ha2⟩ := iha ρ n i hp hfit va ha
        obtain ⟨hfw, hw2⟩ := liftN_at (n := n) (i := i) (vs := [va]) (by simpa using hfa) h
        refine ⟨hfw, fun hi => ?_⟩
        obtain ⟨sa, hsa, hea⟩ := ha2 hi
        obtain ⟨r, s, hrow, hf, hws⟩ := hw2 hi
        have hr : r = [sa] := by
          simp [row, mapE, hsa] at hrow
          exact hrow.symm
        subst hr
        refine ⟨s, hws, ?_⟩
        simp only [eval, hea, UnOp.eval]
        have := liftN_scalars (un1 o.eval) [sa]
        simp only [List.map] at this
        rw [this, hf]
  | bin op a b iha ihb =>
    intro ρ n i hp hfit v h
    cases op with
    | index => simp [Pointwise] at hp
    | cons => simp [Pointwise] at hp
    | sc o =>
      simp only [Pointwise] at hp
      simp only [eval] at h
      cases ha : eval ρ a with
      | error e => simp [ha] at h
      | ok va =>
        cases hb : eval ρ b with
        | error e => simp [ha, hb] at h
        | ok vb =>
          simp only [ha, hb, BinOp.eval] at h
          obtain ⟨hfa, ha2⟩ := iha ρ n i hp.1 hfit va ha
          obtain ⟨hfb, hb2⟩ := ihb ρ n i hp.2 hfit vb hb
          obtain ⟨hfw, hw2⟩ := liftN_at (n := n) (i := i) (vs := [va, vb]) (by simp [hfa, hfb]) h
          refine ⟨hfw, fun hi => ?_⟩
          obtain ⟨sa, hsa, hea⟩ := ha2 hi
          obtain ⟨sb, hsb, heb⟩ := hb2 hi
          obtain ⟨r, s, hrow, hf, hws⟩ := hw2 hi
          have hr : r = [sa, sb] := by
            simp [row, mapE, hsa, hsb] at hrow
            exact hrow.symm
          subst hr
          refine ⟨s, hws, ?_⟩
          simp only [eval, hea, heb, BinOp.eval]
          have := liftN_scalars (bin2 o.eval) [sa, sb]
          simp only [List.map] at this
          rw [this, hf]
  | ite c a b ihc iha ihb =>
    intro ρ n i hp hfit v h
    simp only [Pointwise] at hp
    simp only [eval] at h
    cases hc : eval ρ c with
    | error e => simp [hc] at h
    | ok vc =>
      cases ha : eval ρ a with
      | error e => simp [hc, ha] at h
      | ok va =>
        cases hb : eval ρ b with
        | error e => simp [hc, ha, hb] at h
        | ok vb =>
          simp only [hc, ha, hb] at h
          obtain ⟨hfc, hc2⟩ := ihc ρ n i hp.1 hfit vc hc
          obtain ⟨hfa, ha2⟩ := iha ρ n i hp.2.1 hfit va ha
          obtain ⟨hfb, hb2⟩ := ihb ρ n i hp.2.2 hfit vb hb
          obtain ⟨hfw, hw2⟩ := liftN_at (n := n) (i := i) (vs := [vc, va, vb]) (by simp [hfc, hfa, hfb]) h
          refine ⟨hfw, fun hi => ?_⟩
          obtain ⟨sc', hsc, hec⟩ := hc2 hi
          obtain ⟨sa, hsa, hea⟩ := ha2 hi
          obtain ⟨sb, hsb, heb⟩ := hb2 hi
          obtain ⟨r, s, hrow, hf, hws⟩ := hw2 hi
          have hr : r = [sc', sa, sb] := by
            simp [row, mapE, hsc, hsa, hsb] at hrow
            exact hrow.symm
          subst hr
          refine ⟨s, hws, ?_⟩
          simp only [eval, hec, hea, heb]
          have := liftN_scalars scIte [sc', sa, sb]
          simp only [List.map] at this
          rw [this, hf]
  | sum j lo hi body _ _ _ =>
    intro ρ n i hp
    simp [Pointwise] at hp

/-! ### vector literals -/

theorem eval_vec_aux (ρ : Env) (es : List Expr) (ss : List Sc)
    (h : es.map (eval ρ) = ss.map (fun s => .ok (.sc s))) :
    eval ρ (Expr.vec es) = .ok (.vec ss) := by
  induction es generalizing ss with
  | nil =>
    cases ss with
    | nil => simp [Expr.vec, eval]
    | cons s ss => simp at h
  | cons e es ih =>
    cases ss with
    | nil => simp at h
    | cons s ss =>
      simp only [List.map_cons, List.cons.injEq] at h
      simp [Expr.vec, eval, h.1, ih ss h.2, BinOp.eval]

/-! ### the judge -/

theorem closeB_iff_aux (tol : Rat) (v w : Val) : Val.closeB tol v w = true ↔ Val.Close tol v w := by
  have hsc : ∀ a b : Sc, Sc.closeB tol a b = true ↔ Sc.Close tol a b := by
    intro a b
    cases a <;> cases b <;> simp [Sc.closeB, Sc.Close]
  cases v with
  | sc a => cases w with
    | sc b => simpa [Val.closeB, Val.Close] using hsc a b
    | vec ys => simp [Val.closeB, Val.Close, List.all_eq_true, hsc]
  | vec xs => cases w with
    | sc b => simp [Val.closeB, Val.Close, List.all_eq_true, hsc]
    | vec ys =>
      simp only [Val.closeB, Val.Close]
      induction xs generalizing ys with
      | nil => cases ys <;> simp [allClose]
      | cons x xs ih =>
        cases ys with
        | nil => simp [allClose]
        | cons y ys =>
          simp only [allClose, Bool.and_eq_true, ih ys, hsc]
          constructor
          · rintro ⟨h0, hl, hi⟩
            refine ⟨by simp [hl], ?_⟩
            intro i a b ha hb
            cases i with
            | zero => simp at ha hb; subst ha; subst hb; exact h0
            | succ j => simp at ha hb; exact hi j a b ha hb
          · rintro ⟨hl, hi⟩
            refine ⟨hi 0 x y (by simp) (by simp), by simpa using hl, ?_⟩
            intro i a b ha hb
            exact hi (i + 1) a b (by simpa using ha) (by simpa using hb)

end QP.C12
