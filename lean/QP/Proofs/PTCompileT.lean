import QP.Model.PT
import QP.Proofs.PTPush
import QP.Proofs.PTAtomsT
import QP.Proofs.PTExamples
/-! Compile correctness under a global transformation, by induction over the template: sequence, repetition,
iteration, mapping as before, plus **arithmetic with a scalar** (pushes its offset / scaling in front of the chain)
and **parallel channels** (appends its overwrite to the chain — correct exactly when no transformation above
touches an overwritten channel, i.e. outside the class of PF-11). -/
namespace QP.PT
open QP.C05 (Chain.chanF Chain.presF Trafo.chanF Trafo.presF)

/-- the statement proved for a template: for every chain `T` of the context whose channels lie in `aff`, and outside
PF-11 relative to `aff` -/
def CompileOKT (pt : PT) : Prop :=
  ∀ σ mm cm T aff items P, (∀ c ∈ Chain.keys T, c ∈ aff) → pf11Chans pt cm aff = [] →
    internal pt (ctxT σ mm cm T) = .ok items → denote pt σ mm cm = .ok P →
    Loop.allPosList (nodesOf items) → RelT T items P

/-- the constructor check of `ArithmeticPulseTemplate`: a channel-wise scalar only names defined channels -/
def scalarSubL (scalar : Scalar) (chans : List Chan) : Prop :=
  match scalar with
  | .uniform _ => True
  | .perChan m => ∀ x ∈ m, x.1 ∈ chans

def scalarSub (scalar : Scalar) (body : PT) : Prop := scalarSubL scalar body.definedChannels

inductive BasicT : PT → Prop
  | const {id dur amps meas} : AtomOKT (.const id dur amps meas) → BasicT (.const id dur amps meas)
  | table {id entries meas cons} : AtomOKT (.table id entries meas cons) → BasicT (.table id entries meas cons)
  | point {id chans entries meas cons} : AtomOKT (.point id chans entries meas cons) →
      BasicT (.point id chans entries meas cons)
  | func {id ch dur e meas cons} : AtomOKT (.func id ch dur e meas cons) → BasicT (.func id ch dur e meas cons)
  | atomicMulti {id subs dur meas cons} : AtomOKT (.atomicMulti id subs dur meas cons) →
      BasicT (.atomicMulti id subs dur meas cons)
  | arithAtomic {id lhs minus rhs meas} : AtomOKT (.arithAtomic id lhs minus rhs meas) →
      BasicT (.arithAtomic id lhs minus rhs meas)
  | seq {id subs meas cons} : (∀ p ∈ subs, BasicT p) → BasicT (.seq id subs meas cons)
  | rep {id body count meas cons} : BasicT body → BasicT (.rep id body count meas cons)
  | forLoop {id body idx start stop step meas cons} : BasicT body →
      BasicT (.forLoop id body idx start stop step meas cons)
  | mapping {id body pm mm cm cons} : BasicT body → BasicT (.mapping id body pm mm cm cons)
  | parallel {id body over} : BasicT body → BasicT (.parallel id body over)
  | arith {id body op scalar lhs} : BasicT body → scalarSub scalar body → BasicT (.arith id body op scalar lhs)

/-! ### the channels a transformation of the code names -/

theorem filterMapM_mem {α β : Type} (f : α → Except Err (Option β)) : ∀ (l : List α) (r : List β),
    l.filterMapM f = .ok r → ∀ y ∈ r, ∃ x ∈ l, f x = .ok (some y) := by
  intro l
  induction l with
  | nil => intro r h y hy; simp only [List.filterMapM_nil, pure_ok] at h; subst h; simp at hy
  | cons a as ih =>
    intro r h y hy
    simp only [List.filterMapM_cons, bind_ok] at h
    obtain ⟨o, ho, h⟩ := h
    cases o with
    | none =>
      obtain ⟨x, hx, hf⟩ := ih r h y hy
      exact ⟨x, by simp [hx], hf⟩
    | some b =>
      simp only [bind_ok, pure_ok] at h
      obtain ⟨r', hr', rfl⟩ := h
      rcases List.mem_cons.mp hy with rfl | hy
      · exact ⟨a, by simp, ho⟩
      · obtain ⟨x, hx, hf⟩ := ih r' hr' y hy
        exact ⟨x, by simp [hx], hf⟩

theorem dictSet_keys (d : List (Chan × Rat)) (k : Chan) (v : Rat) (x : Chan) (h : x ∈ (dictSet d k v).map (·.1)) :
    x ∈ d.map (·.1) ∨ x = k := by
  unfold dictSet at h
  split at h
  · left
    simp only [List.map_map, List.mem_map, Function.comp] at h
    obtain ⟨y, hy, rfl⟩ := h
    simp only [List.mem_map]
    refine ⟨y, hy, ?_⟩
    obtain ⟨a, b⟩ := y
    by_cases ha : a = k <;> simp [ha]
  · simp only [List.map_append, List.mem_append, List.map_cons, List.map_nil, List.mem_singleton] at h
    exact h

theorem dictOfList_keys_aux : ∀ (kv acc : List (Chan × Rat)) (x : Chan),
    x ∈ (kv.foldl (fun d (p : Chan × Rat) => dictSet d p.1 p.2) acc).map (·.1) →
    x ∈ acc.map (·.1) ∨ x ∈ kv.map (·.1) := by
  intro kv
  induction kv with
  | nil => intro acc x h; exact Or.inl h
  | cons p ps ih =>
    intro acc x h
    simp only [List.foldl_cons] at h
    rcases ih _ x h with h1 | h1
    · rcases dictSet_keys acc p.1 p.2 x h1 with h2 | h2
      · exact Or.inl h2
      · right; simp [h2]
    · right; simp only [List.map_cons, List.mem_cons]; exact Or.inr h1

theorem dictOfList_keys (kv : List (Chan × Rat)) (x : Chan) (h : x ∈ (dictOfList kv).map (·.1)) :
    x ∈ kv.map (·.1) := by
  have e : dictOfList kv = kv.foldl (fun d (p : Chan × Rat) => dictSet d p.1 p.2) [] := by
    unfold dictOfList
    congr 1
  rw [e] at h
  rcases dictOfList_keys_aux kv [] x h with h1 | h1
  · simp at h1
  · exact h1

theorem chanLookup_join {cm : List (Chan × Option Chan)} {c o : Chan} (h : chanLookup cm c = .ok (some o)) :
    (cm.lookup c).join = some o := by
  unfold chanLookup at h
  cases hl : cm.lookup c with
  | none => simp [hl] at h
  | some r =>
    simp only [hl, Except.ok.injEq] at h
    subst h
    rfl

/-- the outer names of the defined channels -/
def outerAll (chans : List Chan) (cm : List (Chan × Option Chan)) : List Chan :=
  chans.filterMap (fun c => (cm.lookup c).join)

/-- what PF-11's class takes as the channels an arithmetic template touches -/
def arithTouched (chans : List Chan) (op : AOp) (scalar : Scalar) (ptIsLhs : Bool) (cm : List (Chan × Option Chan)) :
    List Chan :=
  match scalar with
  | .uniform _ => outerAll chans cm
  | .perChan m => if !ptIsLhs && op == .minus then outerAll chans cm
      else m.filterMap (fun (x : Chan × Expr) => (cm.lookup x.1).join)

theorem pf11_arith (id : Option String) (body : PT) (op : AOp) (scalar : Scalar) (lhs : Bool)
    (cm : List (Chan × Option Chan)) (aff : List Chan) :
    pf11Chans (.arith id body op scalar lhs) cm aff =
      pf11Chans body cm (aff ++ arithTouched body.definedChannels op scalar lhs cm) := by
  cases scalar <;> simp only [pf11Chans, arithTouched, outerAll]

theorem pf11_parallel (id : Option String) (body : PT) (over : List (Chan × Expr))
    (cm : List (Chan × Option Chan)) (aff : List Chan) :
    pf11Chans (.parallel id body over) cm aff =
      (over.filterMap (fun (x : Chan × Expr) => (cm.lookup x.1).join)).filter aff.contains ++
        pf11Chans body cm (aff ++ over.filterMap (fun (x : Chan × Expr) => (cm.lookup x.1).join)) := by
  simp only [pf11Chans]

theorem uniform_keys (chans : List Chan) (cm : List (Chan × Option Chan)) (v : Rat) (cs : List (Chan × Rat))
    (h : chans.filterMapM (fun c => do
          let o ← chanLookup cm c
          pure (o.map (fun o => (o, v)))) = .ok cs) :
    ∀ x ∈ (dictOfList cs).map (·.1), x ∈ outerAll chans cm := by
  intro x hx
  have hx' := dictOfList_keys cs x hx
  simp only [List.mem_map] at hx'
  obtain ⟨⟨o, v'⟩, hmem, rfl⟩ := hx'
  obtain ⟨c, hc, hf⟩ := filterMapM_mem _ chans cs h (o, v') hmem
  simp only [bind_ok, pure_ok] at hf
  obtain ⟨o', ho', hf⟩ := hf
  cases o' with
  | none => simp at hf
  | some o'' =>
    simp only [Option.map_some, Option.some.injEq, Prod.mk.injEq] at hf
    obtain ⟨rfl, _⟩ := hf
    simp only [outerAll, List.mem_filterMap]
    exact ⟨c, hc, chanLookup_join ho'⟩

theorem perChan_keys (m : List (Chan × Expr)) (σ : Scope) (cm : List (Chan × Option Chan)) (cs : List (Chan × Rat))
    (h : m.filterMapM (fun (x : Chan × Expr) => do
          let o ← chanLookup cm x.1
          match o with
          | none => pure none
          | some o => do let v ← σ.evalKw x.2; pure (some (o, v))) = .ok cs) :
    ∀ x ∈ (dictOfList cs).map (·.1), x ∈ m.filterMap (fun (x : Chan × Expr) => (cm.lookup x.1).join) := by
  intro x hx
  have hx' := dictOfList_keys cs x hx
  simp only [List.mem_map] at hx'
  obtain ⟨⟨o, v'⟩, hmem, rfl⟩ := hx'
  obtain ⟨c, hc, hf⟩ := filterMapM_mem _ m cs h (o, v') hmem
  simp only [bind_ok] at hf
  obtain ⟨o', ho', hf⟩ := hf
  cases o' with
  | none => simp [pure_ok] at hf
  | some o'' =>
    simp only [bind_ok, pure_ok, Option.some.injEq, Prod.mk.injEq] at hf
    obtain ⟨_, _, rfl, _⟩ := hf
    simp only [List.mem_filterMap]
    exact ⟨c, hc, chanLookup_join ho'⟩

theorem perChan_sub (m : List (Chan × Expr)) (chans : List Chan) (cm : List (Chan × Option Chan))
    (hs : ∀ x ∈ m, x.1 ∈ chans) :
    ∀ y ∈ m.filterMap (fun (x : Chan × Expr) => (cm.lookup x.1).join), y ∈ outerAll chans cm := by
  intro y hy
  simp only [List.mem_filterMap] at hy
  obtain ⟨x, hx, hj⟩ := hy
  simp only [outerAll, List.mem_filterMap]
  exact ⟨x.1, hs x hx, hj⟩

theorem keys_map_snd (sv : List (Chan × Rat)) (f : Rat → Rat) :
    (sv.map (fun (x : Chan × Rat) => (x.1, f x.2))).map (·.1) = sv.map (·.1) := by
  simp [List.map_map, Function.comp_def]

theorem arithTail_keys (sv : List (Chan × Rat)) (chans : List Chan) (op : AOp) (lhs : Bool)
    (cm : List (Chan × Option Chan)) (T' : Chain) (touched : List Chan)
    (h : (if lhs then
        (match op with
        | .plus => pure [.offset sv]
        | .minus => pure [.offset (sv.map (fun (c, v) => (c, -v)))]
        | .times => pure [.scaling sv]
        | .div =>
            if sv.any (fun (_, v) => v == 0) then .error .zeroDivision
            else pure [.scaling (sv.map (fun (c, v) => (c, v⁻¹)))] : Except Err Chain)
      else
        match op with
        | .plus => pure [.offset sv]
        | .minus => do
            let neg ← chans.filterMapM (fun c => do
              let o ← chanLookup cm c
              pure (o.map (fun o => (o, (-1 : Rat)))))
            pure [.scaling (dictOfList neg), .offset sv]
        | .times => pure [.scaling sv]
        | .div => .error .valueError) = Except.ok T')
    (hsv : ∀ x ∈ sv.map (·.1), x ∈ touched)
    (hall : lhs = false → op = .minus → ∀ x ∈ outerAll chans cm, x ∈ touched) :
    ∀ c ∈ Chain.keys T', c ∈ touched := by
  intro c hc
  cases lhs with
  | true =>
    simp only [if_true] at h
    cases op with
    | plus =>
      simp only [pure_ok] at h; subst h
      simp only [Chain.keys, List.flatMap_cons, List.flatMap_nil, List.append_nil, Trafo.keys] at hc
      exact hsv c hc
    | minus =>
      simp only [pure_ok] at h; subst h
      simp only [Chain.keys, List.flatMap_cons, List.flatMap_nil, List.append_nil, Trafo.keys] at hc
      have e := keys_map_snd sv (fun v => -v)
      rw [show (sv.map (fun (x : Chan × Rat) => match x with | (c, v) => (c, -v))) =
        sv.map (fun (x : Chan × Rat) => (x.1, -x.2)) from rfl, e] at hc
      exact hsv c hc
    | times =>
      simp only [pure_ok] at h; subst h
      simp only [Chain.keys, List.flatMap_cons, List.flatMap_nil, List.append_nil, Trafo.keys] at hc
      exact hsv c hc
    | div =>
      simp only at h
      split at h
      · cases h
      · simp only [pure_ok] at h; subst h
        simp only [Chain.keys, List.flatMap_cons, List.flatMap_nil, List.append_nil, Trafo.keys] at hc
        have e := keys_map_snd sv (fun v => v⁻¹)
        rw [show (sv.map (fun (x : Chan × Rat) => match x with | (c, v) => (c, v⁻¹))) =
          sv.map (fun (x : Chan × Rat) => (x.1, x.2⁻¹)) from rfl, e] at hc
        exact hsv c hc
  | false =>
    simp only [Bool.false_eq_true, if_false] at h
    cases op with
    | plus =>
      simp only [pure_ok] at h; subst h
      simp only [Chain.keys, List.flatMap_cons, List.flatMap_nil, List.append_nil, Trafo.keys] at hc
      exact hsv c hc
    | minus =>
      simp only [bind_ok, pure_ok] at h
      obtain ⟨neg, hneg, rfl⟩ := h
      simp only [Chain.keys, List.flatMap_cons, List.flatMap_nil, List.append_nil, Trafo.keys, List.mem_append] at hc
      rcases hc with hc | hc
      · exact hall rfl rfl c (uniform_keys chans cm (-1) neg hneg c hc)
      · exact hsv c hc
    | times =>
      simp only [pure_ok] at h; subst h
      simp only [Chain.keys, List.flatMap_cons, List.flatMap_nil, List.append_nil, Trafo.keys] at hc
      exact hsv c hc
    | div => cases h

theorem arith_keys (chans : List Chan) (op : AOp) (scalar : Scalar) (lhs : Bool) (σ : Scope)
    (cm : List (Chan × Option Chan)) (T' : Chain)
    (h : arithTransformation chans op scalar lhs σ cm = .ok T')
    (hs : scalarSubL scalar chans) :
    ∀ c ∈ Chain.keys T', c ∈ arithTouched chans op scalar lhs cm := by
  unfold arithTransformation at h
  cases scalar with
  | uniform e =>
    obtain ⟨v, _, h⟩ := bind_ok.mp h
    obtain ⟨cs, hcs, h⟩ := bind_ok.mp h
    apply arithTail_keys (dictOfList cs) chans op lhs cm T' _ h
    · exact uniform_keys chans cm v cs hcs
    · intro _ _ x hx; exact hx
  | perChan m =>
    obtain ⟨cs, hcs, h⟩ := bind_ok.mp h
    have hk := perChan_keys m σ cm cs hcs
    apply arithTail_keys (dictOfList cs) chans op lhs cm T' _ h
    · intro x hx
      simp only [arithTouched]
      split
      · exact perChan_sub m chans cm hs x (hk x hx)
      · exact hk x hx
    · intro h1 h2 x hx
      subst h1; subst h2
      simp only [arithTouched]
      rw [if_pos (by decide)]
      exact hx

theorem over_keys (over : List (Chan × Expr)) (σ : Scope) (cm : List (Chan × Option Chan)) (ov : List (Chan × Rat))
    (h : overwrittenValues over σ cm = .ok ov) :
    ∀ x ∈ ov.map (·.1), x ∈ over.filterMap (fun (x : Chan × Expr) => (cm.lookup x.1).join) := by
  simp only [overwrittenValues, bind_ok, pure_ok] at h
  obtain ⟨cs, hcs, rfl⟩ := h
  intro x hx
  have hx' := dictOfList_keys cs x hx
  simp only [List.mem_map] at hx'
  obtain ⟨⟨o, v'⟩, hmem, rfl⟩ := hx'
  obtain ⟨c, hc, hf⟩ := filterMapM_mem _ over cs hcs (o, v') hmem
  simp only [bind_ok] at hf
  obtain ⟨o', ho', hf⟩ := hf
  cases o' with
  | none => simp [pure_ok] at hf
  | some o'' =>
    simp only [bind_ok, pure_ok, Option.some.injEq, Prod.mk.injEq] at hf
    obtain ⟨_, _, rfl, _⟩ := hf
    simp only [List.mem_filterMap]
    exact ⟨c, hc, chanLookup_join ho'⟩

end QP.PT
