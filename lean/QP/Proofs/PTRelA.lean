import QP.Model.PT
import QP.Proofs.PTRel
import QP.Proofs.PTRelW
import QP.Proofs.PTRevPL
import QP.Proofs.PTRevLoop
/-! The sample relation with the judge's tolerance at the junctions of time reversed parts (`PL.adm`), together with
its mirror image (left-closed playback against left-closed evaluation) — the pair is preserved by the builder
operations **and by time reversal**. -/
namespace QP.PT

structure RelA (items : List Item) (P : Pulse) : Prop where
  blocks : Blocks items
  empty : nodesOf items = [] ↔ P.chans = []
  dur : Loop.durationList (nodesOf items) = P.dur
  plDur : ∀ c pl, P.chans.lookup c = some pl → PL.dur pl = P.dur
  plPos : ∀ c pl, P.chans.lookup c = some pl → pl.pos
  /-- right-open playback: an admissible value of the pulse -/
  sampleR : ∀ c pl, P.chans.lookup c = some pl → ∀ t, 0 ≤ t → t < P.dur →
    ∃ v, Loop.sampleList (nodesOf items) c t = some v ∧ v ∈ PL.adm none pl t
  /-- left-closed playback: the left-closed value, or the right-open one -/
  sampleL : ∀ c pl, P.chans.lookup c = some pl → ∀ τ, 0 < τ → τ ≤ P.dur →
    ∃ v, Loop.sampleListL (nodesOf items) c τ = some v ∧
      (PL.atL pl τ = some v ∨ (τ < P.dur ∧ PL.at pl τ = some v))

theorem RelA.nil : RelA [] Pulse.empty where
  blocks := Blocks.nil
  empty := by simp [nodesOf, Pulse.empty]
  dur := by simp [nodesOf, Loop.durationList, Pulse.empty]
  plDur := by intro c pl h; simp [Pulse.empty] at h
  plPos := by intro c pl h; simp [Pulse.empty] at h
  sampleR := by intro c pl h; simp [Pulse.empty] at h
  sampleL := by intro c pl h; simp [Pulse.empty] at h

theorem RelA.items_nil {items : List Item} {P : Pulse} (h : RelA items P) (he : P.chans = []) : items = [] :=
  h.blocks.eq_nil (h.empty.mpr he)

theorem RelA.append {a b : List Item} {Pa Pb P : Pulse} (ha : RelA a Pa) (hb : RelA b Pb)
    (hpos : Loop.allPosList (nodesOf a)) (hP : Pa.append Pb = .ok P) : RelA (a ++ b) P := by
  unfold Pulse.append at hP
  by_cases h1 : Pa.isEmpty
  · simp only [h1, if_true] at hP
    cases hP
    have : a = [] := ha.items_nil (by simpa [Pulse.isEmpty] using h1)
    subst this
    simpa using hb
  · simp only [h1] at hP
    by_cases h2 : Pb.isEmpty
    · simp only [h2, if_true] at hP
      cases hP
      have : b = [] := hb.items_nil (by simpa [Pulse.isEmpty] using h2)
      subst this
      simpa using ha
    · simp only [h2] at hP
      by_cases h3 : sameSet Pa.chanNames Pb.chanNames
      · simp only [h3] at hP
        simp only [Bool.not_true, Bool.false_eq_true, if_false] at hP
        cases hP
        have hne_a : Pa.chans ≠ [] := by simpa [Pulse.isEmpty] using h1
        have hlook : ∀ c, ((Pa.chans.map (fun (x : Chan × PL) => (x.1, x.2 ++ ((Pb.chans.lookup x.1).getD [])))).lookup c)
            = (Pa.chans.lookup c).map (fun pl => pl ++ ((Pb.chans.lookup c).getD [])) := by
          intro c
          exact lookup_map_snd Pa.chans (fun k pl => pl ++ ((Pb.chans.lookup k).getD [])) c
        have hb_of_a : ∀ c pla, Pa.chans.lookup c = some pla → ∃ plb, Pb.chans.lookup c = some plb := by
          intro c pla hc
          have hmem := mem_keys_of_lookup _ _ _ hc
          simp only [sameSet, Bool.and_eq_true, List.all_eq_true] at h3
          have := h3.1 c (by simpa [Pulse.chanNames] using hmem)
          apply lookup_some_of_mem_keys
          simpa [Pulse.chanNames] using this
        have hnn := allPosList_nonneg hpos
        have hda : 0 ≤ Pa.dur := by rw [← ha.dur]; exact durationList_nonneg _ hnn
        refine ⟨ha.blocks.append hb.blocks, ?_, ?_, ?_, ?_, ?_, ?_⟩
        · simp only [nodesOf_append, List.append_eq_nil_iff, List.map_eq_nil_iff]
          constructor
          · intro h; exact absurd (ha.empty.mp h.1) hne_a
          · intro h; exact absurd h hne_a
        · simp only [nodesOf_append, durationList_append, ha.dur, hb.dur]
        · intro c pl hc
          simp only [hlook] at hc
          cases hca : Pa.chans.lookup c with
          | none => simp [hca] at hc
          | some pla =>
            obtain ⟨plb, hcb⟩ := hb_of_a c pla hca
            simp only [hca, hcb, Option.map_some, Option.getD_some, Option.some.injEq] at hc
            subst hc
            rw [PL.dur_append, ha.plDur c pla hca, hb.plDur c plb hcb]
        · intro c pl hc
          simp only [hlook] at hc
          cases hca : Pa.chans.lookup c with
          | none => simp [hca] at hc
          | some pla =>
            obtain ⟨plb, hcb⟩ := hb_of_a c pla hca
            simp only [hca, hcb, Option.map_some, Option.getD_some, Option.some.injEq] at hc
            subst hc
            exact PL.pos_append (ha.plPos c pla hca) (hb.plPos c plb hcb)
        · intro c pl hc t ht0 ht
          simp only [hlook] at hc
          cases hca : Pa.chans.lookup c with
          | none => simp [hca] at hc
          | some pla =>
            obtain ⟨plb, hcb⟩ := hb_of_a c pla hca
            simp only [hca, hcb, Option.map_some, Option.getD_some, Option.some.injEq] at hc
            subst hc
            simp only at ht
            rw [nodesOf_append]
            by_cases hlt : t < Pa.dur
            · rw [sampleList_append_left _ _ _ _ ht0 (by rw [ha.dur]; exact hlt)]
              obtain ⟨v, hv, hmem⟩ := ha.sampleR c pla hca t ht0 hlt
              refine ⟨v, hv, ?_⟩
              rw [PL.adm_append_left _ _ _ _ ht0 (by rw [ha.plDur c pla hca]; exact hlt)]
              exact hmem
            · have hge : Pa.dur ≤ t := not_lt.mp hlt
              rw [sampleList_append_right _ _ _ _ hnn (by rw [ha.dur]; exact hge)]
              rw [ha.dur]
              obtain ⟨v, hv, hmem⟩ := hb.sampleR c plb hcb (t - Pa.dur) (by linarith) (by linarith)
              refine ⟨v, hv, ?_⟩
              rw [PL.adm_append_right _ _ _ _ (ha.plPos c pla hca) (by rw [ha.plDur c pla hca]; exact hge)]
              rw [ha.plDur c pla hca]
              exact PL.adm_mono _ _ _ _ hmem
        · intro c pl hc τ ht0 ht
          simp only [hlook] at hc
          cases hca : Pa.chans.lookup c with
          | none => simp [hca] at hc
          | some pla =>
            obtain ⟨plb, hcb⟩ := hb_of_a c pla hca
            simp only [hca, hcb, Option.map_some, Option.getD_some, Option.some.injEq] at hc
            subst hc
            simp only at ht ⊢
            rw [nodesOf_append]
            have hdb : 0 < Pb.dur ∨ Pb.dur ≤ 0 := lt_or_ge 0 Pb.dur
            by_cases hle : τ ≤ Pa.dur
            · rw [sampleListL_append_left _ _ _ _ ht0 (by rw [ha.dur]; exact hle)]
              obtain ⟨v, hv, hor⟩ := ha.sampleL c pla hca τ ht0 hle
              refine ⟨v, hv, ?_⟩
              rcases hor with h | ⟨h1', h2'⟩
              · left
                rw [PL.atL_append_left _ _ _ ht0 (by rw [ha.plDur c pla hca]; exact hle)]
                exact h
              · right
                have hbd : 0 ≤ Pb.dur := by rw [← hb.plDur c plb hcb]; exact PL.dur_nonneg _ (hb.plPos c plb hcb)
                refine ⟨by linarith, ?_⟩
                rw [PL.at_append_left _ _ _ (le_of_lt ht0) (by rw [ha.plDur c pla hca]; exact h1')]
                exact h2'
            · have hgt : Pa.dur < τ := not_le.mp hle
              rw [sampleListL_append_right _ _ _ _ hnn (by rw [ha.dur]; exact hgt)]
              rw [ha.dur]
              obtain ⟨v, hv, hor⟩ := hb.sampleL c plb hcb (τ - Pa.dur) (by linarith) (by linarith)
              refine ⟨v, hv, ?_⟩
              rcases hor with h | ⟨h1', h2'⟩
              · left
                rw [PL.atL_append_right _ _ _ (ha.plPos c pla hca) (by rw [ha.plDur c pla hca]; exact hgt)]
                rw [ha.plDur c pla hca]
                exact h
              · right
                refine ⟨by linarith, ?_⟩
                rw [PL.at_append_right _ _ _ (ha.plPos c pla hca) (by rw [ha.plDur c pla hca]; exact le_of_lt hgt)]
                rw [ha.plDur c pla hca]
                exact h2'
      · simp [h3] at hP

theorem RelA.guard {its : List Item} {p : Pulse} (h : RelA its p) (ms : List Window) :
    RelA (guardRun ms its) (p.withOwn ms) := by
  unfold Pulse.withOwn
  by_cases he : p.isEmpty
  · simp only [he, if_true]
    have : its = [] := h.items_nil (by simpa [Pulse.isEmpty] using he)
    subst this
    simpa [guardRun] using h
  · simp only [he]
    refine ⟨guardRun_blocks h.blocks ms, ?_, ?_, h.plDur, h.plPos, ?_, ?_⟩
    · rw [nodesOf_guardRun]; exact h.empty
    · rw [nodesOf_guardRun]; exact h.dur
    · intro c pl hc t ht0 ht
      rw [nodesOf_guardRun]
      exact h.sampleR c pl hc t ht0 ht
    · intro c pl hc τ ht0 ht
      rw [nodesOf_guardRun]
      exact h.sampleL c pl hc τ ht0 ht

/-- left-closed periods -/
theorem exists_periodL (τ d : Rat) (n : Nat) (hd : 0 < d) (h0 : 0 < τ) (h : τ ≤ d * n) :
    ∃ k : Nat, k < n ∧ d * k < τ ∧ τ ≤ d * (k + 1) := by
  obtain ⟨k, j, _, hj, e1, _, b1, b2, _⟩ := period_mirrorL τ d n hd h0 h
  exact ⟨j, hj, by linarith, by linarith⟩

theorem RelA.rep {its : List Item} {b : Pulse} (h : RelA its b) (hpos : Loop.allPosList (nodesOf its))
    (n : Nat) (ms : List Window) :
    RelA (tryAppend ((Loop.mk n none [] []).applyItems its) ms)
      (if b.isEmpty then Pulse.empty else
        { dur := b.dur * n, chans := b.chans.map (fun (x : Chan × PL) => (x.1, PL.replicate n x.2)),
          windows := ms ++ repeatWindows b.windows n b.dur }) := by
  rw [applyItems_eq]
  simp only [List.nil_append, Loop.durationList]
  by_cases he : b.isEmpty
  · simp only [he, if_true]
    have : its = [] := h.items_nil (by simpa [Pulse.isEmpty] using he)
    subst this
    simp [tryAppend, Loop.isEmpty, Loop.wf, Loop.children, nodesOf, RelA.nil]
  · simp only [he]
    have hne : nodesOf its ≠ [] := by
      intro h0
      have := h.empty.mp h0
      simp [Pulse.isEmpty, this] at he
    have hnotempty : (Loop.mk n none (measW its 0) (nodesOf its)).isEmpty = false := by
      simp [Loop.isEmpty, Loop.wf, Loop.children, hne]
    simp only [tryAppend, hnotempty, Bool.false_eq_true, if_false]
    have hd : 0 < b.dur := by rw [← h.dur]; exact Loop.allPosList_duration_pos _ hpos hne
    have hLdur : (Loop.mk n none (measW its 0) (nodesOf its)).duration = b.dur * n := by
      rw [duration_none, h.dur]
    have hlook : ∀ c, ((b.chans.map (fun (x : Chan × PL) => (x.1, PL.replicate n x.2))).lookup c)
        = (b.chans.lookup c).map (fun pl => PL.replicate n pl) := by
      intro c
      exact lookup_map_snd b.chans (fun _ pl => PL.replicate n pl) c
    obtain ⟨c0, cs0, hcs⟩ := List.exists_cons_of_ne_nil hne
    have hnd : ¬ b.dur ≤ 0 := not_le.mpr hd
    refine ⟨Blocks.meas ms _ Blocks.nil, ?_, ?_, ?_, ?_, ?_, ?_⟩
    · simp only [nodesOf]
      constructor
      · intro h0; simp at h0
      · intro h0
        simp only [List.map_eq_nil_iff] at h0
        simp [Pulse.isEmpty, h0] at he
    · simp only [nodesOf, Loop.durationList, hLdur]; ring
    · intro c pl hc
      simp only [hlook] at hc
      cases hcb : b.chans.lookup c with
      | none => simp [hcb] at hc
      | some plb =>
        simp only [hcb, Option.map_some, Option.some.injEq] at hc
        subst hc
        rw [PL.dur_replicate, h.plDur c plb hcb]
    · intro c pl hc
      simp only [hlook] at hc
      cases hcb : b.chans.lookup c with
      | none => simp [hcb] at hc
      | some plb =>
        simp only [hcb, Option.map_some, Option.some.injEq] at hc
        subst hc
        exact PL.pos_replicate n (h.plPos c plb hcb)
    · intro c pl hc t ht0 ht
      simp only [hlook] at hc
      cases hcb : b.chans.lookup c with
      | none => simp [hcb] at hc
      | some plb =>
        simp only [hcb, Option.map_some, Option.some.injEq] at hc
        subst hc
        simp only at ht
        obtain ⟨k, hk, hk1, hk2⟩ := exists_period t b.dur n hd ht0 (by linarith)
        have hfl := floor_div_eq t b.dur k hd hk1 hk2
        simp only [nodesOf, Loop.sampleList, hLdur, ht, if_true]
        rw [hcs]
        simp only [Loop.sample]
        rw [← hcs, bodyDuration_none, h.dur]
        simp only [hnd, if_false, hfl]
        have hkn : ¬ ((k : Int) < 0 ∨ (n : Int) ≤ (k : Int)) := by omega
        simp only [hkn, if_false]
        have hpl := h.plDur c plb hcb
        have e : t - ((k : Int) : Rat) * b.dur = t - b.dur * (k : Rat) := by push_cast; ring
        rw [e]
        obtain ⟨v, hv, hmem⟩ := h.sampleR c plb hcb (t - b.dur * k) (by linarith) (by linarith)
        refine ⟨v, hv, ?_⟩
        apply PL.adm_replicate n plb (h.plPos c plb hcb) k t v hk (by rw [hpl]; exact hk1) (by rw [hpl]; exact hk2)
        rw [hpl]; exact hmem
    · intro c pl hc τ ht0 ht
      simp only [hlook] at hc
      cases hcb : b.chans.lookup c with
      | none => simp [hcb] at hc
      | some plb =>
        simp only [hcb, Option.map_some, Option.some.injEq] at hc
        subst hc
        simp only at ht ⊢
        obtain ⟨k, hk, hk1, hk2⟩ := exists_periodL τ b.dur n hd ht0 (by linarith)
        have hce := ceil_sub_one_eq τ b.dur k hd hk1 hk2
        have hle : τ ≤ (Loop.mk n none (measW its 0) (nodesOf its)).duration := by rw [hLdur]; exact ht
        simp only [nodesOf, Loop.sampleListL, hle, if_true]
        rw [hcs]
        simp only [Loop.sampleL]
        rw [← hcs, bodyDuration_none, h.dur]
        simp only [hnd, if_false, hce]
        have hkn : ¬ ((k : Int) < 0 ∨ (n : Int) ≤ (k : Int)) := by omega
        simp only [hkn, if_false]
        have hpl := h.plDur c plb hcb
        have e : τ - ((k : Int) : Rat) * b.dur = τ - b.dur * (k : Rat) := by push_cast; ring
        rw [e]
        obtain ⟨v, hv, hor⟩ := h.sampleL c plb hcb (τ - b.dur * k) (by linarith) (by linarith)
        refine ⟨v, hv, ?_⟩
        rcases hor with h1 | ⟨h1, h2⟩
        · left
          rw [PL.atL_replicate n plb (h.plPos c plb hcb) k τ hk (by rw [hpl]; exact hk1) (by rw [hpl]; exact hk2)]
          rw [hpl]; exact h1
        · right
          have hkn' : (k : Rat) + 1 ≤ n := by exact_mod_cast hk
          refine ⟨by nlinarith, ?_⟩
          rw [PL.at_replicate n plb (h.plPos c plb hcb) k τ hk (by rw [hpl]; exact le_of_lt hk1)
            (by rw [hpl]; linarith)]
          rw [hpl]; exact h2

end QP.PT
