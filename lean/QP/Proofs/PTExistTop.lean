import QP.Model.PT
import QP.Proofs.PTExistC
import QP.Proofs.PTTop2
/-! `create_program` succeeds ⇒ the template denotes a pulse (well-formed fragment). -/
namespace QP.PT

theorem createProgram_exists_basic {pt : PT} (hb : BasicE pt) (params : List (String × Rat))
    (mm : Option (List (MName × Option MName))) (cm : List (Chan × Option Chan)) (prog : Loop) (S : List Chan)
    (h1 : createProgram pt params mm cm [] = .ok (some prog)) (hpos : prog.allPos)
    (hu : ∀ cs ∈ prog.leafChannels, ∀ x, x ∈ cs ↔ x ∈ S) :
    ∃ P, denoteTop pt params mm cm = .ok P := by
  simp only [createProgram, bind_ok, pure_ok] at h1
  obtain ⟨ctx, hctx, items, hitems, hprog⟩ := h1
  obtain ⟨hsingle, htrafo⟩ := topCtx_ok hctx
  have hctx0 : ctx = ctx0 ctx.scope ctx.mm ctx.cm := by
    cases ctx
    simp only [ctx0] at *
    simp [hsingle, htrafo]
  unfold compile at hitems
  rw [wrapSingle_nil _ _ _ hsingle, hctx0] at hitems
  have hfacts : Loop.allPosList (nodesOf items) ∧ ptUniform S (nodesOf items) := by
    unfold toProgram at hprog
    simp only [rootLoop, applyItems_eq, List.nil_append, Loop.durationList] at hprog
    by_cases he : (Loop.mk 1 none (measW items 0) (nodesOf items)).isEmpty
    · simp [he] at hprog
    · simp only [he, Bool.false_eq_true, if_false, Option.some.injEq] at hprog
      subst hprog
      cases hcs : nodesOf items with
      | nil => exact ⟨allPosList_nil, by intro cs hcs; simp [Loop.leafChannelsList] at hcs⟩
      | cons c0 cs0 =>
        rw [hcs] at hpos hu
        simp only [Loop.allPos, Loop.allPosB, Bool.and_eq_true] at hpos
        refine ⟨hpos.2, ?_⟩
        intro cs hcs'
        apply hu cs
        simp only [Loop.leafChannels]
        exact hcs'
  obtain ⟨P, hP⟩ := compile_ex hb ctx.scope ctx.mm ctx.cm items S hitems hfacts.1 hfacts.2
  refine ⟨P, ?_⟩
  simp only [denoteTop]
  exact bind_ok.mpr ⟨ctx, hctx, hP⟩

end QP.PT
