import QP.Model.PT
import QP.Proofs.PTExistC
import QP.Proofs.PTTop2
import QP.Proofs.PTExistTable
/-! `create_program` succeeds ⇒ the template denotes a pulse (well-formed fragment). -/
namespace QP.PT

theorem createProgram_exists_basic {pt : PT} (hb : BasicE pt) (params : List (String × Rat))
    (mm : Option (List (MName × Option MName))) (cm : List (Chan × Option Chan)) (prog : Loop) (S : List Chan)
    (h1 : createProgram pt params mm cm [] = .ok (some prog)) (hpos : prog.allPos)
    (hu : ∀ cs ∈ prog.leafChannels, ∀ x, x ∈ cs ↔ x ∈ S) :
    ∃ P, denoteTop pt params mm cm = .ok P := by
  simp only [createProgram, bind_ok, pure_ok] at h1
  obtain ⟨ctx, hctx, items, hitems, hprog⟩ := h1
  obtain ⟨hsingle, htrafo⟩ := topCtx_ok hctx
  have hctx0 : ctx = ctx0 ctx.scope ctx.mm ctx.cm := by
    cases ctx
    simp only [ctx0] at *
    simp [hsingle, htrafo]
  unfold compile at hitems
  rw [wrapSingle_nil _ _ _ hsingle, hctx0] at hitems
  have hfacts : Loop.allPosList (nodesOf items) ∧ ptUniform S (nodesOf items) := by
    unfold toProgram at hprog
    simp only [rootLoop, applyItems_eq, List.nil_append, Loop.durationList] at hprog
    by_cases he : (Loop.mk 1 none (measW items 0) (nodesOf items)).isEmpty
    · simp [he] at hprog
    · simp only [he, Bool.false_eq_true, if_false, Option.some.injEq] at hprog
      subst hprog
      cases hcs : nodesOf items with
      | nil => exact ⟨allPosList_nil, by intro cs hcs; simp [Loop.leafChannelsList] at hcs⟩
      | cons c0 cs0 =>
        rw [hcs] at hpos hu
        simp only [Loop.allPos, Loop.allPosB, Bool.and_eq_true] at hpos
        refine ⟨hpos.2, ?_⟩
        intro cs hcs'
        apply hu cs
        simp only [Loop.leafChannels]
        exact hcs'
  obtain ⟨P, hP⟩ := compile_ex hb ctx.scope ctx.mm ctx.cm items S hitems hfacts.1 hfacts.2
  refine ⟨P, ?_⟩
  simp only [denoteTop]
  exact bind_ok.mpr ⟨ctx, hctx, hP⟩

/-- the well-formed fragment for which existence is proved: constant, table, point templates and function templates
whose expression is affine in `t` and cannot fail by itself (no unsupported function, no negative power), composed by
sequencing, repetition, indexed iteration and mapping -/
inductive Stage2E : PT → Prop
  | const {id dur amps meas} : Stage2E (.const id dur amps meas)
  | func {id ch dur e meas cons} : e.affineIn "t" = true → e.safe = true → Stage2E (.func id ch dur e meas cons)
  | table {id entries meas cons} : Stage2E (.table id entries meas cons)
  | point {id chans entries meas cons} : Stage2E (.point id chans entries meas cons)
  | seq {id subs meas cons} : (∀ p ∈ subs, Stage2E p) → Stage2E (.seq id subs meas cons)
  | rep {id body count meas cons} : Stage2E body → Stage2E (.rep id body count meas cons)
  | forLoop {id body idx start stop step meas cons} : Stage2E body →
      Stage2E (.forLoop id body idx start stop step meas cons)
  | mapping {id body pm mm cm cons} : Stage2E body → Stage2E (.mapping id body pm mm cm cons)

theorem Stage2E.basicE {pt : PT} (h : Stage2E pt) : BasicE pt := by
  induction h with
  | const => exact BasicE.const (atomOK_of_buildOK (buildOK_const _ _ _ _)) (atomEx_const _ _ _ _)
  | func ha hs => exact BasicE.func (atomOK_of_buildOK (buildOK_func _ _ _ _ _ _)) (atomEx_func _ _ _ _ _ _ ha hs)
  | table => exact BasicE.table (atomOK_of_buildOK (buildOK_table _ _ _ _)) (atomEx_table _ _ _ _)
  | point => exact BasicE.point (atomOK_of_buildOK (buildOK_point _ _ _ _ _)) (atomEx_point _ _ _ _ _)
  | seq _ ih => exact BasicE.seq ih
  | rep _ ih => exact BasicE.rep ih
  | forLoop _ ih => exact BasicE.forLoop ih
  | mapping _ ih => exact BasicE.mapping ih

theorem Stage2E.stage2 {pt : PT} (h : Stage2E pt) : Stage2 pt := by
  induction h with
  | const => exact Stage2.atom (AtomTreeP.base AtomTree.const)
  | func _ _ => exact Stage2.atom (AtomTreeP.base AtomTree.func)
  | table => exact Stage2.atom (AtomTreeP.base AtomTree.table)
  | point => exact Stage2.atom (AtomTreeP.base AtomTree.point)
  | seq _ ih => exact Stage2.seq ih
  | rep _ ih => exact Stage2.rep ih
  | forLoop _ ih => exact Stage2.forLoop ih
  | mapping _ ih => exact Stage2.mapping ih

end QP.PT
