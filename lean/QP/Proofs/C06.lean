import QP.Model.C06
/-! Helper lemmas for C06 (rewrites of `Loop` preserve the played sequence). -/
namespace QP.C06

/-! ### lists -/

theorem repeatL_succ_right {α : Type} (n : Nat) (xs : List α) : repeatL (n + 1) xs = repeatL n xs ++ xs := by
  induction n with
  | zero => simp [repeatL]
  | succ n ih =>
    show xs ++ repeatL (n + 1) xs = (xs ++ repeatL n xs) ++ xs
    rw [ih]; simp

theorem repeatL_add {α : Type} (a b : Nat) (xs : List α) : repeatL (a + b) xs = repeatL a xs ++ repeatL b xs := by
  induction a with
  | zero => simp [repeatL]
  | succ a ih => rw [Nat.add_right_comm, repeatL, ih, repeatL]; simp

theorem repeatL_mul {α : Type} (a b : Nat) (xs : List α) : repeatL (a * b) xs = repeatL a (repeatL b xs) := by
  induction a with
  | zero => simp [repeatL]
  | succ a ih => rw [Nat.succ_mul, Nat.add_comm, repeatL_add, ih, repeatL]

theorem repeatL_nil {α : Type} (n : Nat) : repeatL n ([] : List α) = [] := by
  induction n with
  | zero => rfl
  | succ n ih => simp [repeatL, ih]

theorem repeatL_one {α : Type} (xs : List α) : repeatL 1 xs = xs := by simp [repeatL]

theorem sumDur_append (xs ys : List Atom) : sumDur (xs ++ ys) = sumDur xs + sumDur ys := by
  induction xs with
  | nil => simp [sumDur, Rat.zero_add]
  | cons a as ih => simp [sumDur, ih, Rat.add_assoc]

theorem sumDur_repeatL (n : Nat) (xs : List Atom) : sumDur (repeatL n xs) = sumDur xs * (n : Rat) := by
  induction n with
  | zero => simp [repeatL, sumDur]
  | succ n ih => rw [repeatL, sumDur_append, ih]; push_cast; grind

theorem playL_append (xs ys : List Loop) : playL (xs ++ ys) = playL xs ++ playL ys := by
  induction xs with
  | nil => simp [playL]
  | cons a as ih => simp [playL, ih]

theorem playL_repeatL (n : Nat) (cs : List Loop) : playL (repeatL n cs) = repeatL n (playL cs) := by
  induction n with
  | zero => simp [repeatL, playL]
  | succ n ih => rw [repeatL, playL_append, ih, repeatL]

mutual
theorem duration_eq_play : ∀ t, duration t = sumDur (play t)
  | .mk r v m w cs => by
    rw [duration, play, sumDur_repeatL, durationL_eq_playL cs]
    split <;> rfl
theorem durationL_eq_playL : ∀ cs, durationL cs = sumDur (playL cs)
  | [] => by simp [durationL, playL, sumDur]
  | c :: cs => by rw [durationL, playL, sumDur_append, duration_eq_play c, durationL_eq_playL cs]
end

/-! ### simple rewrites -/

theorem split_at_index {α : Type} : ∀ (cs : List α) (i : Nat) (c : α), cs[i]? = some c → cs = cs.take i ++ c :: cs.drop (i + 1)
  | [], i, c, h => by simp at h
  | x :: xs, 0, c, h => by simp at h; simp [h]
  | x :: xs, i + 1, c, h => by
    simp at h
    have := split_at_index xs i c h
    simp only [List.take_succ_cons, List.drop_succ_cons, List.cons_append]
    rw [← this]

theorem playL_replace (cs : List Loop) (i : Nat) (c : Loop) (X : List Loop) (h : cs[i]? = some c)
    (hX : playL X = play c) : playL (cs.take i ++ X ++ cs.drop (i + 1)) = playL cs := by
  conv => rhs; rw [split_at_index cs i c h]
  simp [playL_append, playL, hX]

/-- the played sequence of a node whose waveform (if any) is only played when it is a leaf -/
theorem play_mk (r : Nat) (v m : Bool) (w : Option Wf) (cs : List Loop) (h : cs.isEmpty = false ∨ w = none) :
    play (.mk r v m w cs) = repeatL r (playL cs) := by
  cases cs with
  | nil => simp at h; simp [play, h, playL]
  | cons c cs => simp [play]

theorem noInnerWf_mk {r : Nat} {v m : Bool} {w : Option Wf} {cs : List Loop} (h : noInnerWf (.mk r v m w cs) = true) :
    (cs.isEmpty = true ∨ w = none) ∧ noInnerWfL cs = true := by
  simpa [noInnerWf] using h

theorem encapsulate_play (t : Loop) : play (encapsulate t) = play t := by
  cases t with
  | mk r v m w cs => simp [encapsulate, play, playL, repeatL]

theorem unrollChildren_play (t t' : Loop) (hv : noInnerWf t = true) (h : unrollChildren t = .ok t') :
    play t' = play t := by
  cases t with
  | mk r v m w cs =>
    simp only [unrollChildren] at h
    split at h
    · simp at h
    · rename_i hne
      simp only [Bool.not_eq_true] at hne
      simp only [Except.ok.injEq] at h
      subst h
      have hw : w = none := by have := (noInnerWf_mk hv).1; simp_all
      rw [play_mk _ _ _ _ _ (Or.inr hw), play_mk _ _ _ _ _ (Or.inr hw), playL_repeatL, repeatL_one]

theorem unrolled_play (c : Loop) (h : c.isLeaf = false) : playL (unrolled c) = play c := by
  cases c with
  | mk r v m w cs =>
    simp [Loop.isLeaf] at h
    simp [unrolled, play, playL_repeatL, h]

theorem unrollAt_play (p p' : Loop) (i : Nat) (hv : noInnerWf p = true) (h : unrollAt p i = .ok p') : play p' = play p := by
  cases p with
  | mk r v m w cs =>
    simp only [unrollAt] at h
    split at h
    · simp at h
    · rename_i c hc
      split at h
      · simp at h
      · rename_i hl
        simp only [Bool.not_eq_true] at hl
        simp only [Except.ok.injEq] at h
        subst h
        have hne : cs.isEmpty = false := by cases cs <;> simp_all
        have hw : w = none := by have := (noInnerWf_mk hv).1; simp_all
        rw [play_mk _ _ _ _ _ (Or.inr hw), play_mk _ _ _ _ _ (Or.inr hw),
          playL_replace cs i c (unrolled c) hc (unrolled_play c hl)]

theorem mergeSingleChild_play (t t' : Loop) (h : mergeSingleChild t = .ok t') : play t' = play t := by
  unfold mergeSingleChild at h
  split at h
  · rename_i r v m w cr cv cm cw ccs
    split at h
    · simp at h
    · split at h
      · simp at h
      · rename_i hw
        simp only [Except.ok.injEq] at h
        subst h
        simp only [Option.isSome_iff_ne_none, ne_eq, Decidable.not_not] at hw
        rw [play_mk r v m w _ (Or.inr hw)]
        simp only [play, playL, List.append_nil, repeatL_mul]
  · simp at h

/-! ### split_one_child -/

def GoodIdx (full : List Loop) (o : Option Nat) : Prop := ∀ i, o = some i → ∃ c, full[i]? = some c ∧ 1 < c.rep

theorem findSplit_good (full : List Loop) : ∀ (cs : List Loop) (k : Nat) (nv v : Option Nat),
    full.drop k = cs → GoodIdx full nv → GoodIdx full v →
    GoodIdx full (findSplit cs k nv v).1 ∧ GoodIdx full (findSplit cs k nv v).2
  | [], k, nv, v, _, h1, h2 => by simp [findSplit, h1, h2]
  | c :: cs, k, nv, v, hd, h1, h2 => by
    have hk : full[k]? = some c := by
      have := congrArg (fun l => l[0]?) hd
      simpa using this
    have hd' : full.drop (k + 1) = cs := by
      have := congrArg (List.drop 1) hd
      simpa using this
    have hgood : 1 < c.rep → GoodIdx full (some k) := by
      intro hr i hi; cases hi; exact ⟨c, hk, hr⟩
    unfold findSplit
    split
    · rename_i hr
      split
      · exact findSplit_good full cs (k + 1) (some k) v hd' (hgood (by omega)) h2
      · exact findSplit_good full cs (k + 1) nv (some k) hd' h1 (hgood (by omega))
    · exact findSplit_good full cs (k + 1) nv v hd' h1 h2

theorem splitIndex_good (cs : List Loop) (i : Nat) (h : splitIndex cs = some i) :
    ∃ c, cs[i]? = some c ∧ 1 < c.rep := by
  have hg := findSplit_good cs cs 0 none none (by simp) (by intro i hi; cases hi) (by intro i hi; cases hi)
  unfold splitIndex at h
  split at h
  · rename_i j _ heq
    simp only [Option.some.injEq] at h; subst h
    exact hg.1 j (by rw [heq])
  · rename_i j heq
    simp only [Option.some.injEq] at h; subst h
    exact hg.2 j (by rw [heq])
  · simp at h

theorem splitAt_play (cs cs' : List Loop) (i : Nat) (c : Loop) (hc : cs[i]? = some c) (hr : 1 ≤ c.rep)
    (h : splitAt cs i = .ok cs') : playL cs' = playL cs := by
  unfold splitAt at h
  rw [hc] at h
  cases c with
  | mk cr cv cm cw ccs =>
    simp only [Except.ok.injEq] at h
    subst h
    apply playL_replace cs i _ _ hc
    simp only [Loop.rep] at hr
    simp only [playL, play, List.append_nil, repeatL_one]
    obtain ⟨n, rfl⟩ : ∃ n, cr = n + 1 := ⟨cr - 1, by omega⟩
    simp [repeatL_succ_right]

theorem splitAt_nonempty (cs cs' : List Loop) (i : Nat) (h : splitAt cs i = .ok cs') : cs'.isEmpty = false := by
  unfold splitAt at h
  split at h
  · simp at h
  · simp only [Except.ok.injEq] at h
    subst h
    simp

theorem splitOneChild_play (p p' : Loop) (idx : Option Int) (h : splitOneChild p idx = .ok p') : play p' = play p := by
  cases p with
  | mk r v m w cs =>
    have key : ∀ i c cs', cs[i]? = some c → 1 ≤ c.rep → splitAt cs i = .ok cs' →
        play (.mk r v m w cs') = play (.mk r v m w cs) := by
      intro i c cs' hc hr hs
      have hne : cs.isEmpty = false := by cases cs <;> simp_all
      rw [play_mk _ _ _ _ _ (Or.inl hne), play_mk _ _ _ _ _ (Or.inl (splitAt_nonempty cs cs' i hs)),
        splitAt_play cs cs' i c hc hr hs]
    simp only [splitOneChild] at h
    split at h
    · split at h
      · simp at h
      · split at h
        · simp at h
        · rename_i i _ _ c hc
          split at h
          · simp at h
          · rename_i hr
            cases hs : splitAt cs i with
            | error e => simp [hs, Except.map] at h
            | ok cs' =>
              simp [hs, Except.map] at h
              subst h
              exact key i c cs' hc (by omega) hs
    · split at h
      · simp at h
      · rename_i i hi
        obtain ⟨c, hc, hr⟩ := splitIndex_good cs i hi
        cases hs : splitAt cs i with
        | error e => simp [hs, Except.map] at h
        | ok cs' =>
          simp [hs, Except.map] at h
          subst h
          exact key i c cs' hc (by omega) hs

/-! ### cleanup -/

theorem play_leaf_none (c : Loop) (hl : c.isLeaf = true) (hw : c.wf = none) : play c = [] := by
  cases c with
  | mk r v m w cs =>
    simp [Loop.isLeaf] at hl
    simp [Loop.wf] at hw
    simp [play, hl, hw, repeatL_nil]

mutual
theorem cleanup_play (re ms : Bool) : ∀ (t t' : Loop), noInnerWf t = true → cleanup re ms t = .ok t' → play t' = play t
  | .mk r v m w cs, t', hv, h => by
    have ⟨hw, hvl⟩ := noInnerWf_mk hv
    unfold cleanup at h
    split at h
    · simp at h
    · rename_i cs' hcs
      have hpl := cleanupL_play re ms cs cs' hvl hcs
      have hmk : play (.mk r v m w cs') = play (.mk r v m w cs) := by
        rcases hw with hw | hw
        · cases cs with
          | nil =>
            simp [cleanupL] at hcs; subst hcs; rfl
          | cons _ _ => simp at hw
        · rw [play_mk _ _ _ _ _ (Or.inr hw), play_mk _ _ _ _ _ (Or.inr hw), hpl]
      split at h
      · rw [mergeSingleChild_play _ _ h, hmk]
      · simp only [Except.ok.injEq] at h
        subst h; exact hmk
theorem cleanupL_play (re ms : Bool) : ∀ (cs cs' : List Loop), noInnerWfL cs = true → cleanupL re ms cs = .ok cs' → playL cs' = playL cs
  | [], cs', _, h => by simp [cleanupL] at h; subst h; rfl
  | c :: cs, cs', hv, h => by
    simp only [noInnerWfL, Bool.and_eq_true] at hv
    unfold cleanupL at h
    split at h
    · split at h
      · rename_i hl
        split at h
        · simp at h
        · rename_i cs2 hcs2
          have ih := cleanupL_play re ms cs cs2 hv.2 hcs2
          split at h
          · rename_i hwn
            simp only [Except.ok.injEq] at h; subst h
            simp only [Option.isNone_iff_eq_none] at hwn
            simp [playL, ih, play_leaf_none c hl hwn]
          · simp only [Except.ok.injEq] at h; subst h
            simp [playL, ih]
      · split at h
        · simp at h
        · rename_i c' hc'
          have ihc := cleanup_play re ms c c' hv.1 hc'
          split at h
          · simp at h
          · rename_i cs2 hcs2
            have ih := cleanupL_play re ms cs cs2 hv.2 hcs2
            split at h
            · simp only [Except.ok.injEq] at h; subst h
              simp [playL, ih, ihc]
            · rename_i hdrop
              simp only [Except.ok.injEq] at h; subst h
              simp only [Bool.or_eq_true, Bool.not_eq_true', not_or, Bool.not_eq_true, Bool.not_eq_false] at hdrop
              have : play c' = [] := play_leaf_none c' hdrop.2 (by simpa using hdrop.1)
              simp [playL, ih, ← ihc, this]
    · split at h
      · simp at h
      · rename_i c' hc'
        have ihc := cleanup_play re ms c c' hv.1 hc'
        split at h
        · simp at h
        · rename_i cs2 hcs2
          have ih := cleanupL_play re ms cs cs2 hv.2 hcs2
          simp only [Except.ok.injEq] at h; subst h
          simp [playL, ih, ihc]
end

/-! ### flatten_and_balance: preservation -/

theorem noInnerWfL_append (xs ys : List Loop) : noInnerWfL (xs ++ ys) = (noInnerWfL xs && noInnerWfL ys) := by
  induction xs with
  | nil => simp [noInnerWfL]
  | cons a as ih => simp [noInnerWfL, ih, Bool.and_assoc]

theorem noInnerWfL_repeatL (n : Nat) (xs : List Loop) (h : noInnerWfL xs = true) : noInnerWfL (repeatL n xs) = true := by
  induction n with
  | zero => simp [repeatL, noInnerWfL]
  | succ n ih => simp [repeatL, noInnerWfL_append, ih, h]

theorem noInnerWf_encapsulate (c : Loop) (h : noInnerWf c = true) : noInnerWf (encapsulate c) = true := by
  cases c with
  | mk r v m w cs => simp [encapsulate, noInnerWf, noInnerWfL] at *; exact h

theorem noInnerWfL_unrolled (c : Loop) (h : noInnerWf c = true) : noInnerWfL (unrolled c) = true := by
  cases c with
  | mk r v m w cs => exact noInnerWfL_repeatL r cs (noInnerWf_mk h).2

theorem noInnerWf_merge (c c' : Loop) (h : noInnerWf c = true) (hm : mergeSingleChild c = .ok c') : noInnerWf c' = true := by
  unfold mergeSingleChild at hm
  split at hm
  · split at hm
    · simp at hm
    · split at hm
      · simp at hm
      · simp only [Except.ok.injEq] at hm
        subst hm
        simp [noInnerWf, noInnerWfL] at h ⊢
        exact h.2
  · simp at hm

theorem flattenLoop_play_wf : ∀ (n : Nat) (d : Int) (done rest out : List Loop),
    noInnerWfL done = true → noInnerWfL rest = true → flattenLoop n d done rest = .ok out →
    playL out = playL done ++ playL rest ∧ noInnerWfL out = true := by
  intro n
  induction n with
  | zero =>
    intro d done rest out hd hr h
    cases rest with
    | nil => simp [flattenLoop] at h; subst h; simp [playL, hd]
    | cons c rest => simp [flattenLoop] at h
  | succ n ih =>
    intro d done rest out hd hr h
    cases rest with
    | nil => simp [flattenLoop] at h; subst h; simp [playL, hd]
    | cons c rest =>
      simp only [noInnerWfL, Bool.and_eq_true] at hr
      unfold flattenLoop at h
      split at h
      · -- encapsulate
        have := ih d done (encapsulate c :: rest) out hd (by simp [noInnerWfL, noInnerWf_encapsulate c hr.1, hr.2]) h
        simpa [playL, encapsulate_play] using this
      · split at h
        · -- recursive call
          rename_i hnb
          cases c with
          | mk r v m w cs =>
          simp only at h
          split at h
          · simp at h
          · rename_i cs' hcs'
            have ⟨hw, hcs⟩ := noInnerWf_mk hr.1
            have ih1 := ih (d - 1) [] cs cs' (by simp [noInnerWfL]) hcs hcs'
            have hne : cs.isEmpty = false := by
              cases cs with
              | nil => simp [isBalanced, allBalL] at hnb
              | cons _ _ => rfl
            have hw' : w = none := by simp_all
            have hv' : noInnerWf (.mk r v m w cs') = true := by simp [noInnerWf, hw', ih1.2]
            have := ih d done (.mk r v m w cs' :: rest) out hd (by simp [noInnerWfL, hv', hr.2]) h
            rw [this.1]
            refine ⟨?_, this.2⟩
            simp only [playL]
            rw [play_mk _ _ _ _ _ (Or.inr hw'), play_mk _ _ _ _ _ (Or.inr hw'), ih1.1]
            simp [playL]
        · split at h
          · -- advance
            have := ih d (done ++ [c]) rest out (by simp [noInnerWfL_append, noInnerWfL, hd, hr.1]) hr.2 h
            simpa [playL, playL_append] using this
          · split at h
            · -- merge
              split at h
              · simp at h
              · rename_i c' hc'
                have := ih d done (c' :: rest) out hd (by simp [noInnerWfL, noInnerWf_merge c c' hr.1 hc', hr.2]) h
                simpa [playL, mergeSingleChild_play c c' hc'] using this
            · split at h
              · -- unroll
                rename_i hl
                have := ih d done (unrolled c ++ rest) out hd (by simp [noInnerWfL_append, noInnerWfL_unrolled c hr.1, hr.2]) h
                simpa [playL, playL_append, unrolled_play c (by simpa using hl)] using this
              · have := ih d (done ++ [c]) rest out (by simp [noInnerWfL_append, noInnerWfL, hd, hr.1]) hr.2 h
                simpa [playL, playL_append] using this

/-! ### flatten_and_balance: postcondition -/

/-- what `flatten_and_balance(d)` establishes for every child of the node -/
def GoodChild (d : Int) (c : Loop) : Prop := isBalanced c = true ∧ (depth c : Int) = max (d - 1) 0

theorem depth_leaf (c : Loop) (h : c.isLeaf = true) : depth c = 0 := by
  cases c with
  | mk r v m w cs => simp [Loop.isLeaf] at h; simp [depth, h]

theorem flattenLoop_post : ∀ (n : Nat) (d : Int) (done rest out : List Loop),
    (∀ c ∈ done, GoodChild d c) → flattenLoop n d done rest = .ok out → ∀ c ∈ out, GoodChild d c := by
  intro n
  induction n with
  | zero =>
    intro d done rest out hd h
    cases rest with
    | nil => simp [flattenLoop] at h; subst h; exact hd
    | cons c rest => simp [flattenLoop] at h
  | succ n ih =>
    intro d done rest out hd h
    cases rest with
    | nil => simp [flattenLoop] at h; subst h; exact hd
    | cons c rest =>
      unfold flattenLoop at h
      split at h
      · exact ih d done _ out hd h
      · rename_i hnlt
        split at h
        · cases c with
          | mk r v m w cs =>
          simp only at h
          split at h
          · simp at h
          · exact ih d done _ out hd h
        · rename_i hbal
          simp only [Bool.not_eq_true', Bool.not_eq_false] at hbal
          split at h
          · rename_i heq
            refine ih d (done ++ [c]) rest out ?_ h
            intro x hx
            rcases List.mem_append.mp hx with hx | hx
            · exact hd x hx
            · simp at hx; subst hx
              exact ⟨hbal, by omega⟩
          · rename_i hne
            split at h
            · split at h
              · simp at h
              · exact ih d done _ out hd h
            · split at h
              · exact ih d done _ out hd h
              · rename_i hl
                simp only [Bool.not_eq_true', Bool.not_eq_false] at hl
                refine ih d (done ++ [c]) rest out ?_ h
                intro x hx
                rcases List.mem_append.mp hx with hx | hx
                · exact hd x hx
                · simp at hx; subst hx
                  have := depth_leaf x hl
                  exact ⟨hbal, by omega⟩

/-! ### make_compatible: preservation -/

theorem rat_eq_num (s : Rat) (hd : s.den = 1) : s = (s.num : Rat) := Rat.ext (by simp) (by simp [hd])

theorem natCast_ne_zero (q : Nat) (hq : 1 ≤ q) : (q : Rat) ≠ 0 := by
  have : (0 : Rat) < (q : Rat) := by exact_mod_cast (show 0 < q by omega)
  grind

theorem den_div_of_fmod (s : Rat) (q : Nat) (hq : 1 ≤ q) (hd : s.den = 1) (hm : ¬ Int.fmod s.num (q : Int) > 0) :
    (s / (q : Rat)).den = 1 := by
  have hs := rat_eq_num s hd
  obtain ⟨k, hk⟩ : ∃ k : Int, s.num = (q : Int) * k := by
    have h1 := Int.fmod_eq_emod_of_nonneg s.num (show (0:Int) ≤ (q:Int) by omega)
    rw [h1] at hm
    have h2 := Int.emod_nonneg s.num (show (q : Int) ≠ 0 by omega)
    exact ⟨s.num / q, by have := Int.mul_ediv_add_emod s.num q; omega⟩
  have : s / (q : Rat) = (k : Rat) := by
    rw [hs, hk]
    have hq0 := natCast_ne_zero q hq
    push_cast
    grind
  rw [this]
  simp

theorem valid_mk {r : Nat} {v m : Bool} {w : Option Wf} {cs : List Loop} (h : valid (.mk r v m w cs) = true) :
    1 ≤ r ∧ (if cs.isEmpty then w.isSome else w.isNone) = true ∧ validL cs = true := by
  simpa [valid, and_assoc] using h

mutual
theorem toWaveform_eq_play : ∀ t, valid t = true → toWaveform t = play t
  | .mk r v m w cs, h => by
    have ⟨hr, _, hcs⟩ := valid_mk h
    unfold toWaveform play
    split
    · split
      · rename_i h1; rw [h1, repeatL_one]
      · rfl
    · rw [toWaveformL_eq_playL cs hcs]
      split
      · rfl
      · have : r = 1 := by omega
        rw [this, repeatL_one]
theorem toWaveformL_eq_playL : ∀ cs, validL cs = true → toWaveformL cs = playL cs
  | [], _ => rfl
  | c :: cs, h => by
    simp only [validL, Bool.and_eq_true] at h
    rw [toWaveformL, playL, toWaveform_eq_play c h.1, toWaveformL_eq_playL cs h.2]
end

theorem valid_rep_one {r : Nat} {v m v' m' : Bool} {w : Option Wf} {cs : List Loop} (h : valid (.mk r v m w cs) = true) :
    valid (.mk 1 v' m' w cs) = true := by
  have ⟨_, h2, h3⟩ := valid_mk h
  simp only [valid, h2, h3]; simp

theorem makeCompatibleAuxL_isEmpty (a q : Nat) (rate : Rat) (cs : List Loop) :
    (makeCompatibleAuxL a q rate cs).isEmpty = cs.isEmpty := by
  cases cs <;> simp [makeCompatibleAuxL]

mutual
theorem makeCompatibleAux_play (a q : Nat) (rate : Rat) : ∀ t, valid t = true → play (makeCompatibleAux a q rate t) = play t
  | .mk r v m w cs, h => by
    have ⟨hr, _, hcs⟩ := valid_mk h
    unfold makeCompatibleAux
    split
    · rw [toWaveform_eq_play _ h]; simp [play, repeatL_one]
    · rename_i hne
      split
      · simp only
        split
        · rw [toWaveform_eq_play _ (valid_rep_one h)]
          simp [play, repeatL_one, hne]
        · rw [toWaveform_eq_play _ h]; simp [play, repeatL_one]
      · have := makeCompatibleAuxL_isEmpty a q rate cs
        simp only [play, this, hne, makeCompatibleAuxL_play a q rate cs hcs]
theorem makeCompatibleAuxL_play (a q : Nat) (rate : Rat) : ∀ cs, validL cs = true → playL (makeCompatibleAuxL a q rate cs) = playL cs
  | [], _ => rfl
  | c :: cs, h => by
    simp only [validL, Bool.and_eq_true] at h
    rw [makeCompatibleAuxL, playL, playL, makeCompatibleAuxL_play a q rate cs h.2]
    split
    · rw [makeCompatibleAux_play a q rate c h.1]
    · rfl
end

theorem makeCompatible_play (a q : Nat) (rate : Rat) (t t' : Loop) (hv : valid t = true)
    (h : makeCompatible a q rate t = .ok t') : play t' = play t := by
  unfold makeCompatible at h
  simp only at h
  split at h
  · simp at h
  · split at h
    · simp at h
    · split at h
      · simp at h
      · split at h
        · simp at h
        · simp at h
        · simp at h
        · simp only [Except.ok.injEq] at h; subst h; exact makeCompatibleAux_play a q rate t hv
        · simp only [Except.ok.injEq] at h; subst h; rfl

/-! ### make_compatible: postcondition -/

def GoodLeaf (a q : Nat) (rate : Rat) (x : Rat) : Prop := (a : Rat) ≤ x * rate ∧ (x * rate / (q : Rat)).den = 1

theorem leafDurs_leaf (r : Nat) (v m : Bool) (w : Option Wf) : leafDurs (.mk r v m w []) = [sumDur (w.getD [])] := by
  simp [leafDurs]

/-- a level that is not one of the three "incompatible" ones certifies the total duration -/
theorem isCompatible_total (a q : Nat) (rate : Rat) (t : Loop) (hq : 1 ≤ q)
    (h : (isCompatible a q rate t).isIncompatible = false) : GoodLeaf a q rate (duration t) := by
  cases t with
  | mk r v m w cs =>
    unfold isCompatible at h
    simp only at h
    split at h
    · simp [Level.isIncompatible] at h
    · rename_i h1
      split at h
      · simp [Level.isIncompatible] at h
      · rename_i h2
        split at h
        · simp [Level.isIncompatible] at h
        · rename_i h3
          exact ⟨Rat.not_lt.mp h2, den_div_of_fmod _ q hq (by simpa using h1) h3⟩

mutual
theorem compat_post (a q : Nat) (rate : Rat) (hq : 1 ≤ q) : ∀ t, valid t = true →
    (isCompatible a q rate t = .compatible → ∀ x ∈ leafDurs t, GoodLeaf a q rate x) ∧
    (isCompatible a q rate t = .actionRequired → ∀ x ∈ leafDurs (makeCompatibleAux a q rate t), GoodLeaf a q rate x)
  | .mk r v m w cs, hv => by
    have ⟨hr, _, hcs⟩ := valid_mk hv
    have ihL := compat_postL a q rate hq cs hcs
    have htot : ∀ l, isCompatible a q rate (.mk r v m w cs) = l → l.isIncompatible = false →
        GoodLeaf a q rate (duration (.mk r v m w cs)) := by
      intro l hl hl2
      exact isCompatible_total a q rate _ hq (by rw [hl]; exact hl2)
    constructor
    · intro h
      unfold isCompatible at h
      simp only at h
      split at h; · simp at h
      split at h; · simp at h
      split at h; · simp at h
      split at h
      · rename_i hemp
        have : cs = [] := by simpa using hemp
        subst this
        split at h; · simp at h
        rename_i hgood
        intro x hx
        simp only [leafDurs_leaf, List.mem_singleton] at hx
        subst hx
        simp only [bodyDuration, List.isEmpty_nil, if_true, not_or, Rat.not_lt, Decidable.not_not] at hgood
        exact hgood
      · rename_i hemp
        split at h
        · rename_i hall
          intro x hx
          simp only [leafDurs, hemp] at hx
          exact ihL.1 hall x hx
        · simp at h
    · intro h
      have hT := htot _ h rfl
      have hleafcase : ∀ m', ∀ x ∈ leafDurs (.mk 1 false m' (some (toWaveform (.mk r v m w cs))) []), GoodLeaf a q rate x := by
        intro m' x hx
        simp only [leafDurs_leaf, List.mem_singleton, Option.getD_some] at hx
        subst hx
        rw [toWaveform_eq_play _ hv, ← duration_eq_play]
        exact hT
      unfold makeCompatibleAux
      split
      · exact hleafcase m
      · rename_i hemp
        split
        · simp only
          split
          · rename_i hs
            intro x hx
            simp only [leafDurs_leaf, List.mem_singleton, Option.getD_some] at hx
            subst hx
            rw [toWaveform_eq_play _ (valid_rep_one hv), ← duration_eq_play]
            have hr0 := natCast_ne_zero r hr
            have e : duration (.mk 1 false m w cs) * rate = duration (.mk r v m w cs) * rate / (r : Rat) := by
              simp only [duration]
              push_cast
              grind
            unfold GoodLeaf
            rw [e]
            exact ⟨hs.2, hs.1⟩
          · exact hleafcase m
        · rename_i hany
          intro x hx
          have := makeCompatibleAuxL_isEmpty a q rate cs
          simp only [leafDurs, this, hemp] at hx
          exact ihL.2 (by simpa using hany) x hx
theorem compat_postL (a q : Nat) (rate : Rat) (hq : 1 ≤ q) : ∀ cs, validL cs = true →
    (allCompatibleL a q rate cs = true → ∀ x ∈ leafDursL cs, GoodLeaf a q rate x) ∧
    (anyIncompatibleL a q rate cs = false → ∀ x ∈ leafDursL (makeCompatibleAuxL a q rate cs), GoodLeaf a q rate x)
  | [], _ => by simp [leafDursL, makeCompatibleAuxL]
  | c :: cs, hv => by
    simp only [validL, Bool.and_eq_true] at hv
    have ihc := compat_post a q rate hq c hv.1
    have ihL := compat_postL a q rate hq cs hv.2
    constructor
    · intro h x hx
      simp only [allCompatibleL, Bool.and_eq_true, beq_iff_eq] at h
      simp only [leafDursL, List.mem_append] at hx
      rcases hx with hx | hx
      · exact ihc.1 h.1 x hx
      · exact ihL.1 h.2 x hx
    · intro h x hx
      simp only [anyIncompatibleL, Bool.or_eq_false_iff] at h
      simp only [makeCompatibleAuxL, leafDursL, List.mem_append] at hx
      rcases hx with hx | hx
      · split at hx
        · rename_i hact
          exact ihc.2 (by simpa using hact) x hx
        · rename_i hact
          have : isCompatible a q rate c = .compatible := by
            have h1 := h.1
            cases hl : isCompatible a q rate c <;> simp_all [Level.isIncompatible]
          exact ihc.1 this x hx
      · exact ihL.2 h.2 x hx
end

/-! ### smallest_factor_ge -/

theorem firstFactor_some (n : Nat) : ∀ (count start f : Nat), firstFactor n start count = some f →
    start ≤ f ∧ f < start + count ∧ n % f = 0 ∧ ∀ g, start ≤ g → g < f → n % g ≠ 0
  | 0, start, f, h => by simp [firstFactor] at h
  | count + 1, start, f, h => by
    unfold firstFactor at h
    split at h
    · simp only [Option.some.injEq] at h; subst h
      rename_i hm
      exact ⟨Nat.le_refl _, by omega, hm, fun g h1 h2 => by omega⟩
    · rename_i hm
      have ⟨h1, h2, h3, h4⟩ := firstFactor_some n count (start + 1) f h
      refine ⟨by omega, by omega, h3, fun g hg1 hg2 => ?_⟩
      by_cases hg : g = start
      · subst hg; exact hm
      · exact h4 g (by omega) hg2

theorem firstFactor_none (n : Nat) : ∀ (count start : Nat), firstFactor n start count = none →
    ∀ g, start ≤ g → g < start + count → n % g ≠ 0
  | 0, start, _ => by intro g h1 h2; omega
  | count + 1, start, h => by
    unfold firstFactor at h
    split at h
    · simp at h
    · rename_i hm
      intro g h1 h2
      by_cases hg : g = start
      · subst hg; exact hm
      · exact firstFactor_none n count (start + 1) h g (by omega) (by omega)

/-- `smallest_factor_ge` returns the smallest divisor of `n` that is `≥ min_factor` -/
theorem smallestFactorGe_ok (n m f : Nat) (h : smallestFactorGe n m = .ok f) :
    m ≤ f ∧ f ∣ n ∧ ∀ g, m ≤ g → g ∣ n → f ≤ g := by
  unfold smallestFactorGe at h
  split at h; · simp at h
  split at h; · simp at h
  split at h; · simp at h
  rename_i hnm hn0 hm0
  have key : ∀ count, firstFactor n m count = some f → m ≤ f ∧ f ∣ n ∧ ∀ g, m ≤ g → g ∣ n → f ≤ g := by
    intro count hf
    have ⟨h1, _, h3, h4⟩ := firstFactor_some n count m f hf
    refine ⟨h1, Nat.dvd_of_mod_eq_zero h3, fun g hg1 hg2 => ?_⟩
    by_cases hlt : g < f
    · exact absurd (Nat.mod_eq_zero_of_dvd hg2) (h4 g hg1 hlt)
    · omega
  split at h
  · rename_i f' hf
    simp only [Except.ok.injEq] at h; subst h
    exact key _ hf
  · split at h
    · rename_i f' hf
      simp only [Except.ok.injEq] at h; subst h
      exact key _ hf
    · simp at h

theorem smallestFactorGe_total (n m : Nat) (hm : 1 ≤ m) (hmn : m ≤ n) : ∃ f, smallestFactorGe n m = .ok f := by
  unfold smallestFactorGe
  rw [if_neg (by omega), if_neg (by omega), if_neg (by omega)]
  split
  · exact ⟨_, rfl⟩
  · split
    · exact ⟨_, rfl⟩
    · rename_i hnone
      exfalso
      exact firstFactor_none n _ m hnone n hmn (by omega) (Nat.mod_self n)

/-! ### norm: equality up to splitting constant pieces -/

def mergeable (s t : Atom) : Bool := s.const && t.const && s.id == t.id

theorem push_cons (s t : Atom) (ts : List Atom) :
    push s (t :: ts) = if mergeable s t then ⟨t.id, s.dur + t.dur, true⟩ :: ts else s :: t :: ts := rfl

theorem push_push_merge (a t : Atom) (X : List Atom) (h : mergeable a t = true) :
    push ⟨t.id, a.dur + t.dur, true⟩ X = push a (push t X) := by
  simp only [mergeable, Bool.and_eq_true, beq_iff_eq] at h
  obtain ⟨⟨ha, ht⟩, hid⟩ := h
  cases X with
  | nil => simp [push, ha, ht, hid]
  | cons u us =>
    rw [push_cons t u us]
    by_cases htu : mergeable t u = true
    · rw [if_pos htu, push_cons, push_cons]
      simp only [mergeable, Bool.and_eq_true, beq_iff_eq] at htu
      have h1 : mergeable ⟨t.id, a.dur + t.dur, true⟩ u = true := by simp [mergeable, htu.1.2, htu.2]
      have h2 : mergeable a ⟨u.id, t.dur + u.dur, true⟩ = true := by simp [mergeable, ha, hid, htu.2]
      rw [if_pos h1, if_pos h2, Rat.add_assoc]
    · rw [if_neg htu, push_cons, push_cons]
      have h1 : mergeable ⟨t.id, a.dur + t.dur, true⟩ u = false := by
        simp only [mergeable, Bool.and_eq_true, beq_iff_eq, not_and] at htu
        simp only [mergeable, Bool.true_and]
        cases hu : u.const <;> simp_all
      have h2 : mergeable a t = true := by simp [mergeable, ha, ht, hid]
      rw [h1, h2]; simp

theorem foldr_push_push (z : List Atom) (a : Atom) (l : List Atom) :
    List.foldr push z (push a l) = push a (List.foldr push z l) := by
  cases l with
  | nil => rfl
  | cons t ts =>
    rw [push_cons]
    by_cases h : mergeable a t = true
    · rw [if_pos h]
      simp only [List.foldr_cons]
      exact push_push_merge a t _ h
    · rw [if_neg h]; rfl

theorem norm_eq_foldr (xs : List Atom) : norm xs = List.foldr push [] xs := by
  induction xs with
  | nil => rfl
  | cons a as ih => simp [norm, ih]

theorem norm_append (xs ys : List Atom) : norm (xs ++ ys) = List.foldr push (norm ys) xs := by
  induction xs with
  | nil => rfl
  | cons a as ih => simp [norm, ih]

theorem foldr_push_norm (z : List Atom) (xs : List Atom) : List.foldr push z (norm xs) = List.foldr push z xs := by
  induction xs with
  | nil => rfl
  | cons a as ih => rw [norm, foldr_push_push, ih]; rfl

theorem norm_append_congr {a a' b b' : List Atom} (ha : norm a = norm a') (hb : norm b = norm b') :
    norm (a ++ b) = norm (a' ++ b') := by
  rw [norm_append, norm_append, hb, ← foldr_push_norm _ a, ← foldr_push_norm _ a', ha]

theorem norm_repeatL_congr {a a' : List Atom} (n : Nat) (h : norm a = norm a') :
    norm (repeatL n a) = norm (repeatL n a') := by
  induction n with
  | zero => rfl
  | succ n ih => exact norm_append_congr h ih

theorem sumDur_push (a : Atom) (l : List Atom) : sumDur (push a l) = a.dur + sumDur l := by
  cases l with
  | nil => rfl
  | cons t ts =>
    rw [push_cons]
    split <;> simp [sumDur, Rat.add_assoc]

theorem sumDur_norm (xs : List Atom) : sumDur (norm xs) = sumDur xs := by
  induction xs with
  | nil => rfl
  | cons a as ih => rw [norm, sumDur_push, ih]; rfl

theorem norm_all_const (cid : Nat) : ∀ (l : List Atom), (∀ b ∈ l, b.const = true ∧ b.id = cid) → l ≠ [] →
    norm l = [⟨cid, sumDur l, true⟩]
  | [], _, h => absurd rfl h
  | [a], h, _ => by
    have ⟨h1, h2⟩ := h a (by simp)
    cases a with
    | mk i d c =>
      simp only at h1 h2
      subst h1 h2
      simp [norm, push, sumDur, Rat.add_zero]
  | a :: b :: bs, h, _ => by
    have ⟨h1, h2⟩ := h a (by simp)
    have ih := norm_all_const cid (b :: bs) (fun x hx => h x (by simp [hx])) (by simp)
    rw [norm, ih, push_cons]
    have : mergeable a ⟨cid, sumDur (b :: bs), true⟩ = true := by simp [mergeable, h1, h2]
    rw [if_pos this]
    rfl

/-- a waveform that is constant with value dictionary `cid` plays one constant piece -/
theorem norm_const (wf : Wf) (cid : Nat) (h : constId wf = some cid) : norm wf = [⟨cid, sumDur wf, true⟩] := by
  cases wf with
  | nil => simp [constId] at h
  | cons a as =>
    simp only [constId] at h
    split at h
    · rename_i hc
      simp only [Option.some.injEq] at h
      simp only [Bool.and_eq_true, List.all_eq_true, beq_iff_eq] at hc
      apply norm_all_const cid (a :: as) _ (by simp)
      intro b hb
      simp only [List.mem_cons] at hb
      rcases hb with hb | hb
      · subst hb; exact ⟨hc.1, h⟩
      · have := hc.2 b hb; exact ⟨this.1, by omega⟩
    · simp at h

theorem norm_repeat_const (cid : Nat) (d : Rat) (n : Nat) :
    norm (repeatL (n + 1) [⟨cid, d, true⟩]) = [⟨cid, d * ((n + 1 : Nat) : Rat), true⟩] := by
  have h := norm_all_const cid (repeatL (n + 1) [⟨cid, d, true⟩]) (by
    intro b hb
    have : ∀ k, ∀ b ∈ repeatL k [(⟨cid, d, true⟩ : Atom)], b = ⟨cid, d, true⟩ := by
      intro k
      induction k with
      | zero => intro b hb; simp [repeatL] at hb
      | succ k ih => intro b hb; simp only [repeatL, List.mem_append, List.mem_singleton] at hb; rcases hb with hb | hb; exact hb; exact ih b hb
    rw [this _ b hb]; simp) (by simp [repeatL])
  rw [h, sumDur_repeatL]
  simp [sumDur, Rat.add_zero]

/-! ### roll_constant_waveforms -/

theorem smallestFactorGe_ok_pos (n m f : Nat) (h : smallestFactorGe n m = .ok f) : 1 ≤ n ∧ 1 ≤ m := by
  unfold smallestFactorGe at h
  split at h; · simp at h
  split at h; · simp at h
  split at h; · simp at h
  omega

theorem roll_arith (S rate : Rat) (q minQ nq : Nat) (hq : q ≠ 0)
    (hden : (S * rate / (q : Rat)).den = 1)
    (hs : smallestFactorGe (S * rate / (q : Rat)).floor.toNat minQ = .ok nq) :
    1 ≤ (S * rate / (q : Rat)).floor.toNat / nq ∧
    (q : Rat) * (nq : Rat) / rate * (((S * rate / (q : Rat)).floor.toNat / nq : Nat) : Rat) = S := by
  have ⟨hn1, hm1⟩ := smallestFactorGe_ok_pos _ _ _ hs
  have ⟨hmf, hdvd, _⟩ := smallestFactorGe_ok _ _ _ hs
  generalize hX : S * rate / (q : Rat) = X at *
  have hfl : X.floor = X.num := by rw [Rat.floor_def, hden]; simp
  have hXn : X = (X.num : Rat) := rat_eq_num X hden
  rw [hfl] at hn1 hdvd hs ⊢
  generalize hW : X.num.toNat = W at *
  have hnum : X.num = (W : Int) := by omega
  obtain ⟨add, hadd⟩ := hdvd
  have hnq : 1 ≤ nq := by omega
  have hdiv : W / nq = add := by rw [hadd]; exact Nat.mul_div_cancel_left add (by omega)
  rw [hdiv]
  have hadd1 : 1 ≤ add := by
    rcases Nat.eq_zero_or_pos add with h0 | h0
    · subst h0; omega
    · exact h0
  refine ⟨hadd1, ?_⟩
  have hq0 : (q : Rat) ≠ 0 := natCast_ne_zero q (by omega)
  have hXW : X = ((nq * add : Nat) : Rat) := by rw [hXn, hnum, hadd]; norm_cast
  have hrate : rate ≠ 0 := by
    intro h0
    rw [h0] at hX
    have : X = 0 := by rw [← hX]; grind
    rw [this] at hXW
    have : ((nq * add : Nat) : Rat) ≠ 0 := natCast_ne_zero _ (Nat.mul_pos hnq hadd1)
    exact this hXW.symm
  push_cast at hXW
  grind

theorem play_meas_irrel (r : Nat) (v v' m m' : Bool) (w : Option Wf) (cs : List Loop) :
    play (.mk r v' m' w cs) = play (.mk r v m w cs) := by simp [play]

mutual
theorem rollConstant_play (minQ q : Nat) (rate : Rat) : ∀ (t t' : Loop), noInnerWf t = true →
    rollConstant true minQ q rate t = .ok t' → norm (play t') = norm (play t)
  | .mk r v m w cs, t', hv, h => by
    have ⟨hw, hcs⟩ := noInnerWf_mk hv
    unfold rollConstant at h
    split at h
    · -- no waveform: recurse
      split at h
      · simp at h
      · rename_i cs' hcs'
        simp only [Except.ok.injEq] at h; subst h
        rw [play_mk _ _ _ _ _ (Or.inr rfl), play_mk _ _ _ _ _ (Or.inr rfl)]
        exact norm_repeatL_congr r (rollConstantL_play minQ q rate cs cs' hcs hcs')
    · rename_i wf
      have hcs0 : cs = [] := by
        rcases hw with hw | hw
        · simpa using hw
        · simp at hw
      subst hcs0
      have same : norm (play (.mk r v false (some wf) [])) = norm (play (.mk r v m (some wf) [])) := by
        rw [play_meas_irrel]
      split at h; · simp at h
      rename_i hq
      simp only at h
      split at h; · simp only [Except.ok.injEq] at h; subst h; exact same
      split at h
      · simp only [Except.ok.injEq] at h; subst h; exact same
      · rename_i cid hcid
        split at h; · simp only [Except.ok.injEq] at h; subst h; exact same
        rename_i hstrict
        simp only [Bool.true_and, decide_eq_true_eq, Decidable.not_not, ne_eq] at hstrict
        split at h; · simp at h
        rename_i nq hnq
        split at h; · simp only [Except.ok.injEq] at h; subst h; exact same
        simp only [Except.ok.injEq] at h; subst h
        have ⟨hadd1, harith⟩ := roll_arith (sumDur wf) rate q minQ nq hq hstrict hnq
        simp only [play, List.isEmpty_nil, if_true, Option.getD_some]
        rw [repeatL_mul]
        apply norm_repeatL_congr
        generalize hA : (sumDur wf * rate / (q : Rat)).floor.toNat / nq = add at *
        obtain ⟨k, rfl⟩ : ∃ k, add = k + 1 := ⟨add - 1, by omega⟩
        rw [norm_repeat_const, norm_const wf cid hcid, harith]
theorem rollConstantL_play (minQ q : Nat) (rate : Rat) : ∀ (cs cs' : List Loop), noInnerWfL cs = true →
    rollConstantL true minQ q rate cs = .ok cs' → norm (playL cs') = norm (playL cs)
  | [], cs', _, h => by simp [rollConstantL] at h; subst h; rfl
  | c :: cs, cs', hv, h => by
    simp only [noInnerWfL, Bool.and_eq_true] at hv
    unfold rollConstantL at h
    split at h; · simp at h
    rename_i c' hc'
    split at h; · simp at h
    rename_i cs2 hcs2
    simp only [Except.ok.injEq] at h; subst h
    simp only [playL]
    exact norm_append_congr (rollConstant_play minQ q rate c c' hv.1 hc') (rollConstantL_play minQ q rate cs cs2 hv.2 hcs2)
end

end QP.C06
