import QP.Proofs.C19Np
/-! Loop invariant of the two placement loops and the proof of `PlaceSafe`. -/
namespace QP.C19

/-- invariant of both loops of `find_place_for_segments_in_memory`;
`free0` is the initial free mask, `unk` the initial `unknown` mask -/
structure LInv (ff m : Nat) (caps lens : List Nat) (free0 unk : List Bool) (st : LoopSt) : Prop where
  lenF : st.free.length = ff
  lenA : st.amend.length = m
  lenI : st.insert.length = m
  ins : ∀ (k : Nat) (v : Int), st.insert[k]? = some v → v = -1 ∨
    (0 ≤ v ∧ unk[k]? = some true ∧ st.amend[k]? = some false ∧ v.toNat < ff ∧
     free0[v.toNat]? = some true ∧ st.free[v.toNat]? = some false ∧
     ∃ c len, caps[v.toNat]? = some c ∧ lens[k]? = some len ∧ len ≤ c)
  distinct : ∀ (k l : Nat) (v : Int), k ≠ l → st.insert[k]? = some v → 0 ≤ v → st.insert[l]? ≠ some v
  freeOk : ∀ (s : Nat), st.free[s]? = some true → free0[s]? = some true ∧ ∀ (k : Nat), st.insert[k]? ≠ some (s : Int)
  amendOk : ∀ (k : Nat), st.amend[k]? = some true → unk[k]? = some true ∧ st.insert[k]? = some (-1)
  cover : ∀ (k : Nat), unk[k]? = some true → st.amend[k]? = some true ∨ ∃ v, st.insert[k]? = some v ∧ 0 ≤ v
  notUnk : ∀ (k : Nat), unk[k]? = some false → st.amend[k]? = some false ∧ st.insert[k]? = some (-1)

/-- putting segment `seg` into the free slot `s` keeps the invariant -/
theorem LInv.place {ff m : Nat} {caps lens : List Nat} {free0 unk : List Bool} {st : LoopSt}
    (h : LInv ff m caps lens free0 unk st) {seg s c len : Nat} (cnt : Int)
    (hseg : seg < m) (hunk : unk[seg]? = some true) (hfree : st.free[s]? = some true)
    (hc : caps[s]? = some c) (hl : lens[seg]? = some len) (hle : len ≤ c) :
    LInv ff m caps lens free0 unk
      { free := st.free.set s false, count := cnt, amend := st.amend.set seg false,
        insert := st.insert.set seg (s : Int) } := by
  have hs : s < ff := by
    have : s < st.free.length := by
      by_cases hlt : s < st.free.length
      · exact hlt
      · simp [List.getElem?_eq_none (Nat.le_of_not_lt hlt)] at hfree
    rw [h.lenF] at this; exact this
  have hf0 := (h.freeOk s hfree).1
  have hnone := (h.freeOk s hfree).2
  constructor
  · simp [h.lenF]
  · simp [h.lenA]
  · simp [h.lenI]
  · intro k v hk
    simp only [List.getElem?_set] at hk ⊢
    by_cases hks : seg = k
    · subst hks
      have hlt : seg < st.insert.length := by rw [h.lenI]; exact hseg
      have hlt' : seg < st.amend.length := by rw [h.lenA]; exact hseg
      have hsl : s < st.free.length := by rw [h.lenF]; exact hs
      simp [hlt] at hk
      subst hk
      right
      refine ⟨by omega, hunk, by simp [hlt'], by simpa using hs, by simpa using hf0, by simp [hsl], c, len, by simpa using hc, hl, hle⟩
    · simp [hks] at hk
      rcases h.ins k v hk with h1 | ⟨h0, h2, h3, h4, h5, h6, h7⟩
      · exact Or.inl h1
      · right
        refine ⟨h0, h2, by simp [hks, h3], h4, h5, ?_, h7⟩
        by_cases hsv : s = v.toNat
        · subst hsv; rw [h6] at hfree; cases hfree
        · simp [hsv, h6]
  · intro k l v hkl hk hv hl'
    simp only [List.getElem?_set] at hk hl'
    by_cases hks : seg = k
    · subst hks
      have hlt : seg < st.insert.length := by rw [h.lenI]; exact hseg
      simp [hlt] at hk
      subst hk
      have : ¬ seg = l := hkl
      simp [this] at hl'
      exact hnone l hl'
    · simp [hks] at hk
      by_cases hls : seg = l
      · subst hls
        have hlt : seg < st.insert.length := by rw [h.lenI]; exact hseg
        simp [hlt] at hl'
        subst hl'
        exact hnone k hk
      · simp [hls] at hl'
        exact h.distinct k l v hkl hk hv hl'
  · intro t ht
    simp only [List.getElem?_set] at ht
    by_cases hst : s = t
    · subst hst
      have hsl : s < st.free.length := by rw [h.lenF]; exact hs
      simp [hsl] at ht
    · simp [hst] at ht
      refine ⟨(h.freeOk t ht).1, ?_⟩
      intro k hk
      simp only [List.getElem?_set] at hk
      by_cases hks : seg = k
      · subst hks
        have hlt : seg < st.insert.length := by rw [h.lenI]; exact hseg
        simp [hlt] at hk
        omega
      · simp [hks] at hk
        exact (h.freeOk t ht).2 k hk
  · intro k hk
    simp only [List.getElem?_set] at hk ⊢
    by_cases hks : seg = k
    · subst hks
      have hlt' : seg < st.amend.length := by rw [h.lenA]; exact hseg
      simp [hlt'] at hk
    · simp [hks] at hk ⊢
      exact h.amendOk k hk
  · intro k hk
    simp only [List.getElem?_set]
    by_cases hks : seg = k
    · subst hks
      have hlt : seg < st.insert.length := by rw [h.lenI]; exact hseg
      right
      exact ⟨s, by simp [hlt], by omega⟩
    · simp [hks]
      exact h.cover k hk
  · intro k hk
    simp only [List.getElem?_set]
    by_cases hks : seg = k
    · subst hks
      rw [hunk] at hk; cases hk
    · simp [hks]
      exact h.notUnk k hk

theorem zipWith_pos_true {free : List Bool} {capsT : List Nat} {len idx : Nat}
    (h : (List.zipWith (fun f c => f && decide (len = c)) free capsT)[idx]? = some true) :
    free[idx]? = some true ∧ capsT[idx]? = some len := by
  rw [List.getElem?_zipWith] at h
  cases hf : free[idx]? with
  | none => simp [hf] at h
  | some f =>
    cases hc : capsT[idx]? with
    | none => simp [hf, hc] at h
    | some c =>
      simp [hf, hc] at h
      simp [h.1, h.2]

theorem getElem?_take_some {α} {l : List α} {n i : Nat} {x : α} (h : (l.take n)[i]? = some x) :
    l[i]? = some x := by
  rw [List.getElem?_take] at h
  split at h
  · exact h
  · cases h

theorem body1_inv {ff m : Nat} {caps lens : List Nat} {free0 unk : List Bool} {st st' : LoopSt}
    (h : LInv ff m caps lens free0 unk st) {seg : Nat} (hseg : seg < m) (hunk : unk[seg]? = some true)
    (hb : body1 caps ff lens seg st = .ok st') : LInv ff m caps lens free0 unk st' := by
  unfold body1 at hb
  split at hb
  · cases hb
  · rename_i len hlen
    simp only at hb
    split at hb
    · cases hb
    · rename_i idx hidx
      split at hb
      · rename_i hpos
        cases hb
        obtain ⟨hf, hc⟩ := zipWith_pos_true hpos
        exact h.place _ hseg hunk hf (getElem?_take_some hc) hlen (Nat.le_refl _)
      · cases hb; exact h

theorem loop1_inv {ff m : Nat} {caps lens : List Nat} {free0 unk : List Bool} (segs : List Nat)
    (hsegs : ∀ seg, seg ∈ segs → seg < m ∧ unk[seg]? = some true) {st st' : LoopSt}
    (h : LInv ff m caps lens free0 unk st)
    (hl : loop1 caps ff lens segs st = .ok st') : LInv ff m caps lens free0 unk st' := by
  induction segs generalizing st with
  | nil => simp [loop1] at hl; subst hl; exact h
  | cons seg rest ih =>
    unfold loop1 at hl
    split at hl
    · cases hl; exact h
    · split at hl
      · cases hl
      · rename_i st1 hb
        have hs := hsegs seg (List.mem_cons_self)
        exact ih (fun s hs' => hsegs s (List.mem_cons_of_mem _ hs')) (body1_inv h hs.1 hs.2 hb) hl

theorem body2_inv {ff m : Nat} {caps lens : List Nat} {free0 unk : List Bool} {st st' : LoopSt}
    (h : LInv ff m caps lens free0 unk st) {seg : Nat} (hseg : seg < m) (hunk : unk[seg]? = some true)
    (hb : body2 caps ff lens seg st = .ok (some st')) : LInv ff m caps lens free0 unk st' := by
  unfold body2 at hb
  simp only at hb
  split at hb
  · cases hb
  · rename_i freeIdx hgather
    split at hb
    · cases hb
    · split at hb
      · cases hb
      · rename_i len hlen
        split at hb
        · cases hb
        · rename_i fit hfit
          split at hb
          · cases hb
          · rename_i fs hfs
            split at hb
            · cases hb
            · rename_i c hc
              split at hb
              · rename_i hle
                cases hb
                have hmem : fs ∈ flatnonzero st.free := gather_mem hgather fs (List.mem_of_getElem? hfs)
                rw [mem_flatnonzero] at hmem
                exact h.place _ hseg hunk hmem hc hlen hle
              · cases hb; exact h

theorem loop2_inv {ff m : Nat} {caps lens : List Nat} {free0 unk : List Bool} (segs : List Nat)
    (hsegs : ∀ seg, seg ∈ segs → seg < m ∧ unk[seg]? = some true) {st st' : LoopSt}
    (h : LInv ff m caps lens free0 unk st)
    (hl : loop2 caps ff lens segs st = .ok st') : LInv ff m caps lens free0 unk st' := by
  induction segs generalizing st with
  | nil => simp [loop2] at hl; subst hl; exact h
  | cons seg rest ih =>
    unfold loop2 at hl
    split at hl
    · cases hl
    · cases hl; exact h
    · rename_i st1 hb
      have hs := hsegs seg (List.mem_cons_self)
      exact ih (fun s hs' => hsegs s (List.mem_cons_of_mem _ hs')) (body2_inv h hs.1 hs.2 hb) hl

/-- the initial loop state satisfies the invariant -/
theorem LInv.init (ff m : Nat) (caps lens : List Nat) (free0 unk : List Bool) (cnt : Int)
    (hf : free0.length = ff) (hu : unk.length = m) :
    LInv ff m caps lens free0 unk ⟨free0, cnt, unk, List.replicate m (-1)⟩ := by
  constructor
  · exact hf
  · exact hu
  · simp
  · intro k v hk
    left
    simp only [List.getElem?_replicate] at hk
    split at hk
    · cases hk; rfl
    · cases hk
  · intro k l v _ hk hv
    simp only [List.getElem?_replicate] at hk
    split at hk
    · cases hk; omega
    · cases hk
  · intro s hs
    refine ⟨hs, ?_⟩
    intro k hk
    simp only [List.getElem?_replicate] at hk
    split at hk
    · exfalso
      have : (-1 : Int) = (s : Int) := Option.some.inj hk
      omega
    · cases hk
  · intro k hk
    refine ⟨hk, ?_⟩
    have := getElem?_lt_of_some hk
    simp only [List.getElem?_replicate]
    rw [hu] at this
    simp [this]
  · intro k hk; exact Or.inl hk
  · intro k hk
    refine ⟨hk, ?_⟩
    have := getElem?_lt_of_some hk
    simp only [List.getElem?_replicate]
    rw [hu] at this
    simp [this]

theorem mem_knownPos {w2s : List Int} {v : Int} : v ∈ knownPos w2s ↔ v ∈ w2s ∧ v ≠ -1 := by
  unfold knownPos; simp

/-- from the final loop state to the specification -/
theorem placeSafe_of_LInv (i : Inp) (newRefs : List Nat) (st : LoopSt)
    (hr : i.refs.length = i.hashes.length) (hc : i.caps.length = i.hashes.length)
    (_hl : i.newLens.length = i.newHashes.length)
    (hupd : updAt i.refs (knownPos (findPositions i.hashes i.newHashes)) (fun r => r + 1) = .ok newRefs)
    (hinv : LInv (firstFree newRefs) i.newHashes.length i.caps i.newLens
              ((newRefs.take (firstFree newRefs)).map (fun r => r == 0))
              ((findPositions i.hashes i.newHashes).map (fun s => s == -1)) st)
    (hfit : ¬ (sizeWithOverhead i.newLens st.amend > i.total - sumNat (i.caps.take (firstFree newRefs)))) :
    PlaceSafe i ⟨findPositions i.hashes i.newHashes, st.amend, st.insert⟩ := by
  obtain ⟨hnl, hnr⟩ := updAt_spec hupd
  have hffle : firstFree newRefs ≤ i.hashes.length := by
    have := firstFree_le newRefs; omega
  -- the w2s array
  have hw : ∀ (k : Nat) (v : Int), (findPositions i.hashes i.newHashes)[k]? = some v →
      ∃ h, i.newHashes[k]? = some h ∧ v = findPosition i.hashes h := by
    intro k v hk
    unfold findPositions at hk
    rw [List.getElem?_map] at hk
    cases hh : i.newHashes[k]? with
    | none => simp [hh] at hk
    | some h => simp [hh] at hk; exact ⟨h, rfl, hk.symm⟩
  have hwlen : (findPositions i.hashes i.newHashes).length = i.newHashes.length := by
    simp [findPositions]
  -- a free slot of the initial mask was unreferenced and is not a known position
  have hfree0 : ∀ (s : Nat), ((newRefs.take (firstFree newRefs)).map (fun r => r == 0))[s]? = some true →
      s < firstFree newRefs ∧ i.refs[s]? = some 0 ∧
      ∀ v, v ∈ findPositions i.hashes i.newHashes → v ≠ (s : Int) := by
    intro s hs
    rw [List.getElem?_map, List.getElem?_take] at hs
    split at hs
    · rename_i hlt
      refine ⟨hlt, ?_⟩
      rw [hnr s] at hs
      cases hrs : i.refs[s]? with
      | none => simp [hrs] at hs
      | some r =>
        simp only [hrs, Option.map_some, Option.some.injEq, beq_iff_eq] at hs
        split at hs
        · omega
        · rename_i hany
          subst hs
          refine ⟨rfl, ?_⟩
          intro v hv hvs
          apply hany
          rw [List.any_eq_true]
          refine ⟨v, mem_knownPos.mpr ⟨hv, by omega⟩, ?_⟩
          have hslt : s < i.refs.length := getElem?_lt_of_some hrs
          subst hvs
          simp [normIdx_of_lt (k := (s : Int)) (by omega) (by simpa using hslt)]
    · simp at hs
  -- a referenced or re-used slot lies before `firstFree`
  have hused : ∀ (s r : Nat), newRefs[s]? = some r → 0 < r → s < firstFree newRefs :=
    fun s r h1 h2 => firstFree_spec h1 h2
  refine ⟨⟨hwlen, hinv.lenA, hinv.lenI⟩, ?_, ?_, ?_, ?_⟩
  · -- accounting
    intro k hk
    have hklt : k < (findPositions i.hashes i.newHashes).length := by rw [hwlen]; exact hk
    obtain ⟨v, hv⟩ : ∃ v, (findPositions i.hashes i.newHashes)[k]? = some v :=
      ⟨_, List.getElem?_eq_getElem hklt⟩
    obtain ⟨h, hh, hvh⟩ := hw k v hv
    by_cases hneg : v = -1
    · have hunk : ((findPositions i.hashes i.newHashes).map (fun s => s == -1))[k]? = some true := by
        simp [List.getElem?_map, hv, hneg]
      rcases hinv.cover k hunk with ha | ⟨t, ht, ht0⟩
      · right; right
        exact ⟨by simpa [hneg] using hv, ha, (hinv.amendOk k ha).2⟩
      · right; left
        rcases hinv.ins k t ht with h1 | ⟨_, _, ham, hlt, hf0, _, c, len, hcc, hll, hle⟩
        · omega
        · obtain ⟨_, hr0, _⟩ := hfree0 _ hf0
          unfold IsInsert
          refine ⟨by simpa [hneg] using hv, ham, ?_⟩
          simp only [ht, hll]
          refine ⟨ht0, hr0, ?_⟩
          simp only [hcc]; exact hle
    · left
      have hunk : ((findPositions i.hashes i.newHashes).map (fun s => s == -1))[k]? = some false := by
        simp [List.getElem?_map, hv, hneg]
      obtain ⟨ha, hi⟩ := hinv.notUnk k hunk
      obtain ⟨h0, hd⟩ := findPosition_sound hvh.symm hneg
      unfold IsKnown
      refine ⟨ha, hi, ?_⟩
      simp only [hv, hh]
      exact ⟨h0, hd⟩
  · -- distinct insert slots
    intro k _ l _ hkl hslot heq
    cases hk : st.insert[k]? with
    | none => simp [IsSlot, hk] at hslot
    | some v =>
      simp only [IsSlot, hk] at hslot
      exact hinv.distinct k l v hkl hk hslot (by rw [← heq, hk])
  · -- insert slots are not re-used slots
    intro v hv hv0 hvw
    obtain ⟨k, hk⟩ := List.getElem?_of_mem hv
    rcases hinv.ins k v hk with h1 | ⟨_, _, _, _, hf0, _⟩
    · omega
    · obtain ⟨_, _, hno⟩ := hfree0 _ hf0
      exact hno v hvw (by omega)
  · -- the appended segments fit
    intro _
    refine ⟨firstFree newRefs, by omega, ⟨?_, ?_, ?_⟩, ?_⟩
    rotate_right
    · show sizeWithOverhead i.newLens st.amend + _ ≤ _
      omega
    · intro s hs hfs
      cases hrs : i.refs[s]? with
      | none => simp at hrs; omega
      | some r =>
        by_cases hr0 : r = 0
        · simp [hr0]
        · exfalso
          have h1 := hnr s
          simp only [hrs, Option.map_some] at h1
          split at h1
          · exact absurd (hused s _ h1 (by omega)) (by omega)
          · exact absurd (hused s _ h1 (by omega)) (by omega)
    · intro v hv
      by_cases hneg : v = -1
      · omega
      · obtain ⟨k, hk⟩ := List.getElem?_of_mem hv
        obtain ⟨h, hh, hvh⟩ := hw k v hk
        obtain ⟨h0, hd⟩ := findPosition_sound hvh.symm hneg
        have hvlt : v.toNat < i.refs.length := by rw [hr]; exact getElem?_lt_of_some hd
        obtain ⟨r, hrr⟩ : ∃ r, i.refs[v.toNat]? = some r := ⟨_, List.getElem?_eq_getElem hvlt⟩
        have h1 := hnr v.toNat
        simp only [hrr, Option.map_some] at h1
        have hany : (knownPos (findPositions i.hashes i.newHashes)).any
            (fun k => normIdx i.refs.length k == some v.toNat) = true := by
          rw [List.any_eq_true]
          exact ⟨v, mem_knownPos.mpr ⟨hv, hneg⟩, by simp [normIdx_of_lt h0 hvlt]⟩
        simp only [hany, if_true] at h1
        have := hused _ _ h1 (by omega)
        omega
    · intro v hv
      obtain ⟨k, hk⟩ := List.getElem?_of_mem hv
      rcases hinv.ins k v hk with h1 | ⟨h0, _, _, hlt, _⟩
      · omega
      · omega

/-- **every successful placement decision is safe** -/
theorem findPlace_safe (i : Inp) (o : Out) (h : findPlace i = .ok o) : PlaceSafe i o := by
  unfold findPlace at h
  split at h
  · cases h
  · rename_i hshape
    simp only [not_or, Decidable.not_not] at hshape
    obtain ⟨hr, hc, hl⟩ := hshape
    simp only at h
    split at h
    · cases h
    · split at h
      · cases h
      · rename_i newRefs hupd
        split at h
        · cases h
        · split at h
          · cases h
          · rename_i st1 hl1
            split at h
            · cases h
            · rename_i order hord
              split at h
              · cases h
              · rename_i st2 hl2
                split at h
                · cases h
                · rename_i hfit
                  cases h
                  have hwlen : (findPositions i.hashes i.newHashes).length = i.newHashes.length := by
                    simp [findPositions]
                  have hfl : ((newRefs.take (firstFree newRefs)).map (fun r => r == 0)).length
                      = firstFree newRefs := by
                    have := firstFree_le newRefs
                    simp; omega
                  have hul : ((findPositions i.hashes i.newHashes).map (fun s => s == -1)).length
                      = i.newHashes.length := by simp [hwlen]
                  have h0 := LInv.init (firstFree newRefs) i.newHashes.length i.caps i.newLens _ _
                    ((List.count true ((newRefs.take (firstFree newRefs)).map (fun r => r == 0)) : Nat) : Int)
                    hfl hul
                  have h1 := loop1_inv _ (fun seg hs => by
                    rw [mem_flatnonzero] at hs
                    exact ⟨by have := getElem?_lt_of_some hs; rw [hul] at this; exact this, hs⟩) h0 hl1
                  have h2 := loop2_inv order (fun seg hs => by
                    have hm := gather_mem hord seg hs
                    rw [mem_flatnonzero] at hm
                    exact ⟨by have := getElem?_lt_of_some hm; rw [h1.lenA] at this; exact this,
                           (h1.amendOk seg hm).1⟩) h1 hl2
                  exact placeSafe_of_LInv i newRefs st2 hr hc hl hupd h2 hfit

end QP.C19
