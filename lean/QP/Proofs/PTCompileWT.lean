import QP.Model.PT
import QP.Proofs.PTCompileW
import QP.Proofs.PTPush
import QP.Proofs.PTAtomsT
/-! Durations and windows of compiled templates under any global transformation: all composite constructors
(sequence, repetition, iteration, mapping, time reversal, parallel channels, arithmetic with a scalar).  No
positivity assumption and no exclusion: transformations change neither durations nor windows (PF-11 is about
voltages only). -/
namespace QP.PT

theorem RelW.tr1 {items : List Item} {b : Pulse} (h : RelW items b) (t : Trafo) (hne : b.chans ≠ []) :
    RelW items (b.tr1 t) where
  blocks := h.blocks
  empty := by
    constructor
    · intro h0; exact absurd (h.empty.mp h0) hne
    · intro h0; exact absurd h0 (tr1_ne t b hne)
  dur := h.dur
  windows := h.windows

theorem RelW.tr : ∀ (T' : Chain) {items : List Item} {b : Pulse}, RelW items b → b.chans ≠ [] → RelW items (b.tr T')
  | [], items, b, h, _ => by simpa [Pulse.tr] using h
  | t :: T', items, b, h, hne => by
      have h2 := RelW.tr T' (h.tr1 t hne) (tr1_ne t b hne)
      simpa [Pulse.tr, Pulse.tr1] using h2

def AtomOKWT (pt : PT) : Prop :=
  ∀ σ mm cm T items P, atomItems pt (ctxT σ mm cm T) = .ok items → denote pt σ mm cm = .ok P → RelW items P

def CompileOKWT (pt : PT) : Prop :=
  ∀ σ mm cm T items P, internal pt (ctxT σ mm cm T) = .ok items → denote pt σ mm cm = .ok P → RelW items P

inductive BasicWT : PT → Prop
  | const {id dur amps meas} : AtomOKWT (.const id dur amps meas) → BasicWT (.const id dur amps meas)
  | table {id entries meas cons} : AtomOKWT (.table id entries meas cons) → BasicWT (.table id entries meas cons)
  | point {id chans entries meas cons} : AtomOKWT (.point id chans entries meas cons) →
      BasicWT (.point id chans entries meas cons)
  | func {id ch dur e meas cons} : AtomOKWT (.func id ch dur e meas cons) → BasicWT (.func id ch dur e meas cons)
  | atomicMulti {id subs dur meas cons} : AtomOKWT (.atomicMulti id subs dur meas cons) →
      BasicWT (.atomicMulti id subs dur meas cons)
  | arithAtomic {id lhs minus rhs meas} : AtomOKWT (.arithAtomic id lhs minus rhs meas) →
      BasicWT (.arithAtomic id lhs minus rhs meas)
  | seq {id subs meas cons} : (∀ p ∈ subs, BasicWT p) → BasicWT (.seq id subs meas cons)
  | rep {id body count meas cons} : BasicWT body → BasicWT (.rep id body count meas cons)
  | forLoop {id body idx start stop step meas cons} : BasicWT body →
      BasicWT (.forLoop id body idx start stop step meas cons)
  | mapping {id body pm mm cm cons} : BasicWT body → BasicWT (.mapping id body pm mm cm cons)
  | timeReversal {id body} : BasicWT body → BasicWT (.timeReversal id body)
  | parallel {id body over} : BasicWT body → BasicWT (.parallel id body over)
  | arith {id body op scalar lhs} : BasicWT body → BasicWT (.arith id body op scalar lhs)

theorem list_relWT (subs : List PT) (ih : ∀ p ∈ subs, CompileOKWT p) (σ : Scope)
    (mm : List (MName × Option MName)) (cm : List (Chan × Option Chan)) (T : Chain) :
    ∀ its parts p, internalList subs (ctxT σ mm cm T) = .ok its → denoteList subs σ mm cm = .ok parts →
      Pulse.appendAll parts = .ok p → RelW its p := by
  induction subs with
  | nil =>
    intro its parts p h1 h2 h3
    simp only [internalList] at h1
    simp only [denoteList] at h2
    cases h1; cases h2
    simp only [Pulse.appendAll] at h3
    cases h3
    exact RelW.nil
  | cons q qs ihq =>
    intro its parts p h1 h2 h3
    simp only [internalList, bind_ok, pure_ok] at h1
    obtain ⟨a, ha, b, hb, rfl⟩ := h1
    simp only [denoteList, bind_ok, pure_ok] at h2
    obtain ⟨pa, hpa, pr, hpr, rfl⟩ := h2
    simp only [Pulse.appendAll, bind_ok] at h3
    obtain ⟨r, hr, hp⟩ := h3
    rw [wrapSingle_nil _ _ _ rfl] at ha
    have hq := ih q (by simp) σ mm cm T a pa ha hpa
    have hrest := ihq (fun p hp => ih p (by simp [hp])) b pr r hb hpr hr
    exact RelW.append hq hrest hp

theorem range_relWT (body : PT) (ih : CompileOKWT body) (σ : Scope) (idx : String)
    (mm : List (MName × Option MName)) (cm : List (Chan × Option Chan)) (T : Chain) (rng : List Int) :
    ∀ its parts p,
      rng.flatMapM (fun (i : Int) => wrapSingle body.ident
        { ctxT σ mm cm T with scope := .range σ idx (i : Rat) } (internal body)) = .ok its →
      rng.mapM (fun (i : Int) => denote body (.range σ idx (i : Rat)) mm cm) = .ok parts →
      Pulse.appendAll parts = .ok p → RelW its p := by
  induction rng with
  | nil =>
    intro its parts p h1 h2 h3
    simp only [List.flatMapM_nil, pure_ok] at h1
    simp only [List.mapM_nil, pure_ok] at h2
    subst h1; subst h2
    simp only [Pulse.appendAll] at h3
    cases h3
    exact RelW.nil
  | cons i is ihr =>
    intro its parts p h1 h2 h3
    simp only [List.flatMapM_cons, bind_ok, pure_ok] at h1
    obtain ⟨a, ha, b, hb, rfl⟩ := h1
    simp only [List.mapM_cons, bind_ok, pure_ok] at h2
    obtain ⟨pa, hpa, pr, hpr, rfl⟩ := h2
    simp only [Pulse.appendAll, bind_ok] at h3
    obtain ⟨r, hr, hp⟩ := h3
    rw [wrapSingle_nil _ _ _ rfl] at ha
    have hq := ih (.range σ idx (i : Rat)) mm cm T a pa ha hpa
    have hrest := ihr b pr r hb hpr hr
    exact RelW.append hq hrest hp

theorem compile_relWT {pt : PT} (hb : BasicWT pt) : CompileOKWT pt := by
  induction hb with
  | const h => intro σ mm cm T items P h1 h2; simp only [internal] at h1; exact h σ mm cm T items P h1 h2
  | table h => intro σ mm cm T items P h1 h2; simp only [internal] at h1; exact h σ mm cm T items P h1 h2
  | point h => intro σ mm cm T items P h1 h2; simp only [internal] at h1; exact h σ mm cm T items P h1 h2
  | func h => intro σ mm cm T items P h1 h2; simp only [internal] at h1; exact h σ mm cm T items P h1 h2
  | atomicMulti h => intro σ mm cm T items P h1 h2; simp only [internal] at h1; exact h σ mm cm T items P h1 h2
  | arithAtomic h => intro σ mm cm T items P h1 h2; simp only [internal] at h1; exact h σ mm cm T items P h1 h2
  | @seq id subs meas cons _ ih =>
    intro σ mm cm T items P h1 h2
    simp only [internal, ctxT, bind_ok, pure_ok] at h1
    obtain ⟨_, _, ms, hms, its, hits, rfl⟩ := h1
    simp only [denote, bind_ok, pure_ok] at h2
    obtain ⟨_, _, ms', hms', parts, hparts, p, hp, rfl⟩ := h2
    rw [hms] at hms'
    cases hms'
    exact (list_relWT subs ih σ mm cm T its parts p hits hparts hp).guard ms
  | @rep id body count meas cons _ ih =>
    intro σ mm cm T items P h1 h2
    simp only [internal, ctxT, bind_ok] at h1
    obtain ⟨_, _, c, hc, h1⟩ := h1
    simp only [denote, bind_ok] at h2
    obtain ⟨_, _, c', hc', h2⟩ := h2
    rw [hc] at hc'
    cases hc'
    cases hn : checkedInt c with
    | none => simp [hn] at h1
    | some n =>
      simp only [hn] at h1 h2
      by_cases hle : n ≤ 0
      · simp only [hle, if_true, pure_ok] at h1 h2
        subst h1; subst h2
        exact RelW.nil
      · simp only [hle, if_false, bind_ok, pure_ok] at h1 h2
        obtain ⟨ms, hms, its, hits, rfl⟩ := h1
        obtain ⟨ms', hms', b, hbd, h2⟩ := h2
        rw [hms] at hms'
        cases hms'
        rw [wrapSingle_nil _ _ _ rfl] at hits
        have hrel := (ih σ mm cm T its b hits hbd).rep n.toNat ms
        rcases Bool.eq_false_or_eq_true b.isEmpty with he | he
        · simp only [he, if_true, pure_ok] at h2
          subst h2
          simpa [he] using hrel
        · simp only [he, Bool.false_eq_true, if_false, pure_ok] at h2
          simp only [he, Bool.false_eq_true, if_false] at hrel
          subst h2
          exact hrel
  | @forLoop id body idx start stop step meas cons _ ih =>
    intro σ mm cm T items P h1 h2
    simp only [internal, ctxT, bind_ok] at h1
    obtain ⟨_, _, a, ha, ai, hai, b, hb, bi, hbi, s, hs, si, hsi, h1⟩ := h1
    simp only [denote, bind_ok] at h2
    obtain ⟨_, _, a', ha', ai', hai', b', hb', bi', hbi', s', hs', si', hsi', h2⟩ := h2
    rw [ha] at ha'; cases ha'
    rw [hai] at hai'; cases hai'
    rw [hb] at hb'; cases hb'
    rw [hbi] at hbi'; cases hbi'
    rw [hs] at hs'; cases hs'
    rw [hsi] at hsi'; cases hsi'
    by_cases hz : si = 0
    · simp [hz] at h1
    · simp only [hz, if_false, bind_ok, pure_ok] at h1 h2
      obtain ⟨ms, hms, its, hits, rfl⟩ := h1
      obtain ⟨ms', hms', parts, hparts, p, hp, rfl⟩ := h2
      rw [hms] at hms'; cases hms'
      exact (range_relWT body ih σ idx mm cm T (pyRange ai bi si) its parts p hits hparts hp).guard ms
  | @mapping id body pm mm' cm' cons _ ih =>
    intro σ mm cm T items P h1 h2
    simp only [internal, ctxT, bind_ok] at h1
    obtain ⟨_, _, mmU, hmm, cmU, hcm, h1⟩ := h1
    simp only [denote, bind_ok] at h2
    obtain ⟨_, _, mmU', hmm', cmU', hcm', h2⟩ := h2
    rw [hmm] at hmm'; cases hmm'
    rw [hcm] at hcm'; cases hcm'
    rw [wrapSingle_nil _ _ _ rfl] at h1
    exact ih (.mapped σ pm) mmU cmU T items P h1 h2
  | @timeReversal id body _ ih =>
    intro σ mm cm T items P h1 h2
    simp only [internal, ctxT, bind_ok] at h1
    obtain ⟨its, hits, h1⟩ := h1
    simp only [denote, bind_ok, pure_ok] at h2
    obtain ⟨b, hb, rfl⟩ := h2
    have hrel := (ih σ mm cm T its b hits hb).reversed
    cases hp : toProgram its with
    | none =>
      simp only [hp, pure_ok] at h1 hrel
      subst h1
      exact hrel
    | some root =>
      simp only [hp, pure_ok] at h1 hrel
      subst h1
      exact hrel
  | @parallel id body over _ ih =>
    intro σ mm cm T items P h1 h2
    simp only [internal, ctxT, bind_ok] at h1
    obtain ⟨ov, hov, h1⟩ := h1
    simp only [denote, bind_ok] at h2
    obtain ⟨ov', hov', b, hbd, h2⟩ := h2
    rw [hov] at hov'; cases hov'
    rw [wrapSingle_nil _ _ _ rfl] at h1
    have hrel := ih σ mm cm (T ++ [Trafo.parallel ov]) items b h1 hbd
    rcases Bool.eq_false_or_eq_true b.isEmpty with he | he
    · simp only [he, if_true, pure_ok] at h2
      subst h2
      have : items = [] := hrel.items_nil (by simpa [Pulse.isEmpty] using he)
      subst this
      exact RelW.nil
    · simp only [he, Bool.false_eq_true, if_false, pure_ok] at h2
      subst h2
      have hne : b.chans ≠ [] := by simpa [Pulse.isEmpty] using he
      exact hrel.tr1 (Trafo.parallel ov) hne
  | @arith id body op scalar lhs _ ih =>
    intro σ mm cm T items P h1 h2
    simp only [internal, ctxT, bind_ok] at h1
    obtain ⟨T', hT', h1⟩ := h1
    rw [wrapSingle_nil _ _ _ rfl] at h1
    simp only [denote, bind_ok] at h2
    obtain ⟨b, hbd, h2⟩ := h2
    have hrel := ih σ mm cm (T' ++ T) items b h1 hbd
    rcases Bool.eq_false_or_eq_true b.isEmpty with he | he
    · simp only [he, if_true, pure_ok] at h2
      subst h2
      have : items = [] := hrel.items_nil (by simpa [Pulse.isEmpty] using he)
      subst this
      exact RelW.nil
    · simp only [he, Bool.false_eq_true, if_false, bind_ok, pure_ok] at h2
      obtain ⟨T'', hT'', rfl⟩ := h2
      have hne : b.chans ≠ [] := by simpa [Pulse.isEmpty] using he
      exact hrel.tr T'' hne

end QP.PT
