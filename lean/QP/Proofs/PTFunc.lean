import QP.Model.PT
import QP.Proofs.PTAtoms
import Mathlib.Tactic.Ring
import Mathlib.Tactic.FieldSimp
import Mathlib.Tactic.Linarith
/-! Atoms: the function pulse template (affine in `t`) satisfies `AtomOK`. -/
namespace QP.PT

/-- evaluation only depends on the variables that occur -/
theorem Expr.eval_congr (e : Expr) (l1 l2 : String → Except Err Rat)
    (h : ∀ x ∈ e.vars, l1 x = l2 x) : e.eval l1 = e.eval l2 := by
  induction e with
  | lit q => rfl
  | var x => simp only [Expr.eval]; exact h x (by simp [Expr.vars])
  | add a b iha ihb | mul a b iha ihb | max a b iha ihb | min a b iha ihb =>
    simp only [Expr.eval]
    rw [iha (fun x hx => h x (by simp [Expr.vars, hx])), ihb (fun x hx => h x (by simp [Expr.vars, hx]))]
  | pow a n iha | floor a iha | ceil a iha | abs a iha =>
    simp only [Expr.eval]
    rw [iha (fun x hx => h x (by simp [Expr.vars, hx]))]
  | cmp c a b iha ihb =>
    simp only [Expr.eval]
    rw [iha (fun x hx => h x (by simp [Expr.vars, hx])), ihb (fun x hx => h x (by simp [Expr.vars, hx]))]
  | unsupported => rfl

/-- the lookup that binds the time variable -/
def withT (x : String) (look : String → Except Err Rat) (t : Rat) : String → Except Err Rat :=
  fun y => if y = x then .ok t else look y

theorem eval_freeOf (e : Expr) (x : String) (look : String → Except Err Rat) (h : e.freeOf x = true)
    (t t' : Rat) : e.eval (withT x look t) = e.eval (withT x look t') := by
  apply Expr.eval_congr
  intro y hy
  have : y ≠ x := by
    intro hxy; subst hxy
    simp [Expr.freeOf, hy] at h
  simp [withT, this]

/-- an expression that is syntactically affine in `x` evaluates to an affine function of `x` -/
theorem affine_eval (e : Expr) (x : String) (look : String → Except Err Rat) (h : e.affineIn x = true)
    (a b : Rat) (h0 : e.eval (withT x look 0) = .ok a) (h1 : e.eval (withT x look 1) = .ok b) :
    ∀ t, e.eval (withT x look t) = .ok (a + (b - a) * t) := by
  have hfree : ∀ e' : Expr, e'.freeOf x = true → ∀ a' b', e'.eval (withT x look 0) = .ok a' →
      e'.eval (withT x look 1) = .ok b' → ∀ t, e'.eval (withT x look t) = .ok (a' + (b' - a') * t) := by
    intro e' hf a' b' h0' h1' t
    rw [eval_freeOf e' x look hf 1 0, h0'] at h1'
    cases h1'
    rw [eval_freeOf e' x look hf t 0, h0']
    simp
  induction e generalizing a b with
  | lit q =>
    intro t
    simp only [Expr.eval] at h0 h1 ⊢
    cases h0; cases h1; simp
  | var y =>
    intro t
    simp only [Expr.eval, withT] at h0 h1 ⊢
    by_cases hy : y = x
    · simp only [hy, if_true] at h0 h1 ⊢
      cases h0; cases h1; simp
    · simp only [hy, if_false] at h0 h1 ⊢
      rw [h0] at h1; cases h1
      rw [h0]; simp
  | add e1 e2 ih1 ih2 =>
    intro t
    simp only [Expr.affineIn, Bool.and_eq_true] at h
    simp only [Expr.eval, bind_ok, pure_ok] at h0 h1 ⊢
    obtain ⟨a1, ha1, a2, ha2, rfl⟩ := h0
    obtain ⟨b1, hb1, b2, hb2, rfl⟩ := h1
    refine ⟨_, ih1 h.1 a1 b1 ha1 hb1 t, _, ih2 h.2 a2 b2 ha2 hb2 t, ?_⟩
    ring
  | mul e1 e2 ih1 ih2 =>
    intro t
    simp only [Expr.affineIn, Bool.or_eq_true, Bool.and_eq_true] at h
    simp only [Expr.eval, bind_ok, pure_ok] at h0 h1 ⊢
    obtain ⟨a1, ha1, a2, ha2, rfl⟩ := h0
    obtain ⟨b1, hb1, b2, hb2, rfl⟩ := h1
    rcases h with h | h
    · have hc := hfree e1 h.1 a1 b1 ha1 hb1
      have : b1 = a1 := by
        have := eval_freeOf e1 x look h.1 1 0
        rw [ha1, hb1] at this; cases this; rfl
      subst this
      refine ⟨_, hc t, _, ih2 h.2 a2 b2 ha2 hb2 t, ?_⟩
      ring
    · have hc := hfree e2 h.2 a2 b2 ha2 hb2
      have : b2 = a2 := by
        have := eval_freeOf e2 x look h.2 1 0
        rw [ha2, hb2] at this; cases this; rfl
      subst this
      refine ⟨_, ih1 h.1 a1 b1 ha1 hb1 t, _, hc t, ?_⟩
      ring
  | pow e1 n _ => exact hfree _ (by simpa [Expr.affineIn] using h) a b h0 h1
  | max e1 e2 _ _ => exact hfree _ (by simpa [Expr.affineIn] using h) a b h0 h1
  | min e1 e2 _ _ => exact hfree _ (by simpa [Expr.affineIn] using h) a b h0 h1
  | floor e1 _ => exact hfree _ (by simpa [Expr.affineIn] using h) a b h0 h1
  | ceil e1 _ => exact hfree _ (by simpa [Expr.affineIn] using h) a b h0 h1
  | abs e1 _ => exact hfree _ (by simpa [Expr.affineIn] using h) a b h0 h1
  | cmp c e1 e2 _ _ => exact hfree _ (by simpa [Expr.affineIn] using h) a b h0 h1
  | unsupported => exact hfree _ (by simpa [Expr.affineIn] using h) a b h0 h1

theorem mem_foldl_dedup (l acc : List String) (x : String) :
    x ∈ l.foldl (fun acc x => if acc.contains x then acc else acc ++ [x]) acc ↔ x ∈ acc ∨ x ∈ l := by
  induction l generalizing acc with
  | nil => simp
  | cons y ys ih =>
    simp only [List.foldl_cons]
    rw [ih]
    by_cases hy : acc.contains y
    · simp only [hy, if_true, List.mem_cons]
      have : y ∈ acc := by simpa using hy
      constructor
      · rintro (h | h)
        · exact Or.inl h
        · exact Or.inr (Or.inr h)
      · rintro (h | h | h)
        · exact Or.inl h
        · subst h; exact Or.inl this
        · exact Or.inr h
    · have hy' : y ∉ acc := by simpa using hy
      simp [hy', or_assoc]

theorem mem_dedup (l : List String) (x : String) : x ∈ dedup l ↔ x ∈ l := by
  unfold dedup
  rw [mem_foldl_dedup]
  simp

/-- the parameter lookup of `FunctionPT.build_waveform`: a missing parameter leaves a free symbol behind -/
def funcLook (σ : Scope) : String → Except Err Rat :=
  fun x => match σ.look x with
    | .ok v => .ok v
    | .error .parameterMissing => .error .valueError
    | .error err => .error err

theorem env_lookup (σ : Scope) (l : List String) : ∀ env,
    l.mapM (fun x => match σ.look x with
      | .ok v => (pure (x, v) : Except Err (String × Rat))
      | .error .parameterMissing => .error .valueError
      | .error err => .error err) = .ok env →
    ∀ x ∈ l, ∃ v, funcLook σ x = .ok v ∧ env.lookup x = some v := by
  induction l with
  | nil => intro env _ x hx; simp at hx
  | cons y ys ih =>
    intro env h x hx
    simp only [List.mapM_cons, bind_ok, pure_ok] at h
    obtain ⟨p, hp, rest, hrest, rfl⟩ := h
    cases hy : σ.look y with
    | error err =>
      rw [hy] at hp
      cases err <;> simp at hp
    | ok v =>
      rw [hy] at hp
      simp only [pure_ok] at hp
      subst hp
      by_cases hxy : x = y
      · subst hxy
        exact ⟨v, by simp [funcLook, hy], by simp [List.lookup]⟩
      · have hx' : x ∈ ys := by
          rcases List.mem_cons.mp hx with h | h
          · exact absurd h hxy
          · exact h
        obtain ⟨v', h1, h2⟩ := ih rest hrest x hx'
        refine ⟨v', h1, ?_⟩
        simp only [List.lookup_cons]
        have : (x == y) = false := by simpa using hxy
        simp [this, h2]

theorem atomOK_func (id : Option String) (ch : Chan) (dur e : Expr) (meas : List MeasDecl) (cons : List Expr) :
    AtomOK (.func id ch dur e meas cons) := by
  intro σ mm cm items P h1 h2 hallpos
  simp only [atomItems, ctx0, buildWaveform, bind_ok] at h1
  obtain ⟨w?, ⟨_, _, o, ho, hw⟩, h1⟩ := h1
  simp only [denote, bind_ok] at h2
  obtain ⟨_, _, o', ho', h2⟩ := h2
  rw [ho] at ho'; cases ho'
  cases o with
  | none =>
    simp only [pure_ok] at hw h2
    subst hw; subst h2
    simp only [pure_ok] at h1
    subst h1
    exact Rel.nil
  | some oc =>
    simp only [bind_ok] at hw h2
    obtain ⟨_, _, d, hd, env, henv, hw⟩ := hw
    obtain ⟨d', hd', h2⟩ := h2
    rw [hd] at hd'; cases hd'
    by_cases haff : e.affineIn "t"
    · simp only [haff, Bool.not_true, Bool.false_eq_true, if_false, bind_ok, pure_ok] at h2
      obtain ⟨a, ha, b, hb, ms, hms, rfl⟩ := h2
      -- the two lookups agree on the variables of `e`
      have hvars : ∀ x ∈ e.vars, x ≠ "t" → ∃ v, funcLook σ x = .ok v ∧ env.lookup x = some v := by
        intro x hx hxt
        apply env_lookup σ _ env henv x
        rw [mem_dedup]
        simp [hx, hxt]
      have ha' : e.eval (withT "t" (funcLook σ) 0) = .ok a := ha
      have hb' : e.eval (withT "t" (funcLook σ) 1) = .ok b := hb
      have haffine := affine_eval e "t" (funcLook σ) haff a b ha' hb'
      -- the leaf: a function waveform, or a constant one if `t` does not occur
      have hleaf : ∃ w, w? = some w ∧ w.duration = d ∧ w.channels = [oc] ∧
          (∀ cv, w.constDict = some cv → constFromMapping w.duration cv = .ok w) ∧
          ∀ t, w.sample oc t = some (a + (b - a) * t) := by
        by_cases ht : e.vars.contains "t"
        · simp only [ht, if_true, pure_ok] at hw
          refine ⟨_, hw.symm, by simp [Wf.duration], by simp [Wf.channels], by simp [Wf.constDict], ?_⟩
          intro t
          simp only [Wf.sample]
          rw [Expr.eval_congr e _ (withT "t" (funcLook σ) t) (by
            intro x hx
            by_cases hxt : x = "t"
            · simp [withT, hxt]
            · obtain ⟨v, hv1, hv2⟩ := hvars x hx hxt
              simp [withT, hxt, hv1, hv2])]
          rw [haffine t]
        · have ht' : e.vars.contains "t" = false := by simpa using ht
          simp only [ht', Bool.false_eq_true, if_false] at hw
          have hnotmem : "t" ∉ e.vars := by simpa using ht'
          have hfree : e.freeOf "t" = true := by simp [Expr.freeOf, hnotmem]
          rw [Expr.eval_congr e _ (withT "t" (funcLook σ) 0) (by
            intro x hx
            have hxt : x ≠ "t" := by
              intro h; subst h; exact hnotmem hx
            obtain ⟨v, hv1, hv2⟩ := hvars x hx hxt
            simp [withT, hxt, hv1, hv2]), ha'] at hw
          simp only [pure_ok] at hw
          have hab : b = a := by
            have := eval_freeOf e "t" (funcLook σ) hfree 1 0
            rw [ha', hb'] at this; cases this; rfl
          refine ⟨_, hw.symm, by simp [Wf.duration], by simp [Wf.channels], ?_, ?_⟩
          · intro cv hcv
            simp only [Wf.constDict, Option.some.injEq] at hcv
            subst hcv
            simp [constFromMapping, Wf.duration]
          · intro t
            simp [Wf.sample, hab]
      obtain ⟨w, rfl, hwd, hwch, hwc, hws⟩ := hleaf
      simp only [bind_ok] at h1
      obtain ⟨ms', hms', h1⟩ := h1
      rw [hms] at hms'; cases hms'
      simp only [List.isEmpty_nil, if_true, pure_bind] at h1
      have hitems : items = (if ms.isEmpty then [] else [Item.measure ms]) ++ [Item.node (leaf w)] := by
        cases hcd : w.constDict with
        | none =>
          simp only [hcd, pure_bind, pure_ok] at h1
          exact h1.symm
        | some cv =>
          simp only [hcd, hwc cv hcd] at h1
          simp only [bind, Except.bind, pure, Except.pure, Except.ok.injEq] at h1
          exact h1.symm
      subst hitems
      have hdpos : 0 < d := by
        rw [nodesOf_append] at hallpos
        have := (allPosList_append.mp hallpos).2
        simp only [nodesOf] at this
        have := Loop.allPos_duration_pos _ (allPosList_cons.mp this).1
        rw [leaf_duration, hwd] at this
        exact this
      have hdne : d ≠ 0 := ne_of_gt hdpos
      simp only [hdpos, if_true]
      apply rel_single_leaf w ms d hdpos hwd
      · simp
      · intro x; rw [hwch]; simp
      · intro c pl hc
        simp only [List.lookup_cons, List.lookup_nil] at hc
        by_cases hk : c == oc
        · have hceq : c = oc := by simpa using hk
          subst hceq
          simp only [hk, Option.some.injEq] at hc
          subst hc
          refine ⟨by simp [PL.dur], ?_, ?_⟩
          · intro s hs
            simp only [List.mem_singleton] at hs
            subst hs; exact hdpos
          · intro t _ ht
            rw [hws t]
            simp only [PL.at, ht, if_true, Seg.valueAt]
            congr 1
            field_simp
            ring
        · simp [hk] at hc
    · simp [haff] at h2

end QP.PT
