import QP.Model.PT
import QP.Proofs.PTArith
import QP.Proofs.PTCompile
import Mathlib.Tactic.Linarith
import Mathlib.Tactic.Ring
/-! The symbolic duration of a template (`templateDuration`, the class' `duration` expression evaluated at the
parameters) against the duration of the denoted pulse, for all composite constructors over atoms for which it holds
(`Live`): nothing vanishes (every atom keeps a channel), no negative atom duration or repetition count, exact integer
counts and loop bounds. -/
namespace QP.PT

theorem floor_int_add_half (n : Int) : ((n : Rat) + 1/2).floor = n := by
  apply Int.le_antisymm
  · have : ((n : Rat) + 1/2).floor < n + 1 := by
      rw [Rat.floor_lt_iff]; push_cast; linarith
    omega
  · rw [Rat.le_floor_iff]; linarith

theorem checkedInt_int (n : Int) : checkedInt (n : Rat) = some n := by
  unfold checkedInt
  simp only [floor_int_add_half, sub_self, le_refl, if_true]
  norm_num

/-- what the duration statement needs of a pulse: it is what the expression says, and an empty pulse lasts 0 -/
def DurFact (d : Rat) (P : Pulse) : Prop := d = P.dur ∧ (P.chans = [] → P.dur = 0)

/-- the statement at an atom: the duration expression is the duration of the denoted pulse -/
def DurAtom (pt : PT) (σ : Scope) (cm : List (Chan × Option Chan)) : Prop :=
  ∀ mm d P, templateDuration pt σ = .ok d → denote pt σ mm cm = .ok P → DurFact d P

/-- the instance of a template in which nothing vanishes or is negative -/
inductive Live : PT → Scope → List (Chan × Option Chan) → Prop
  | atom {pt σ cm} : DurAtom pt σ cm → Live pt σ cm
  | seq {id subs meas cons σ cm} : (∀ p ∈ subs, Live p σ cm) → Live (.seq id subs meas cons) σ cm
  | rep {id body count meas cons σ cm} : Live body σ cm →
      (∀ c, σ.eval count = .ok c → ∃ n : Nat, c = (n : Rat)) → Live (.rep id body count meas cons) σ cm
  | forLoop {id body idx start stop step meas cons σ cm} :
      (∀ a b s : Rat, σ.eval start = .ok a → σ.eval stop = .ok b → σ.eval step = .ok s →
        ∃ ai bi si : Int, a = ai ∧ b = bi ∧ s = si) →
      (∀ ai bi si : Int, σ.eval start = .ok (ai : Rat) → σ.eval stop = .ok (bi : Rat) → σ.eval step = .ok (si : Rat) →
        ∀ i ∈ pyRange ai bi si, Live body (.range σ idx (i : Rat)) cm) →
      Live (.forLoop id body idx start stop step meas cons) σ cm
  | mapping {id body pm mm' cm' cons σ cm} :
      (∀ cmU, updatedCm cm' cm = .ok cmU → Live body (.mapped σ pm) cmU) →
      Live (.mapping id body pm mm' cm' cons) σ cm
  | parallel {id body over σ cm} : Live body σ cm → Live (.parallel id body over) σ cm
  | arith {id body op scalar lhs σ cm} : Live body σ cm → Live (.arith id body op scalar lhs) σ cm
  | timeReversal {id body σ cm} : Live body σ cm → Live (.timeReversal id body) σ cm

theorem append_durFact {p q r : Pulse} {dp dq : Rat} (hp : DurFact dp p) (hq : DurFact dq q)
    (h : p.append q = .ok r) : DurFact (dp + dq) r := by
  unfold Pulse.append at h
  rcases Bool.eq_false_or_eq_true p.isEmpty with h1 | h1
  · simp only [h1, if_true, Except.ok.injEq] at h
    subst h
    have : p.chans = [] := by simpa [Pulse.isEmpty] using h1
    refine ⟨?_, hq.2⟩
    rw [hp.1, hp.2 this, hq.1]; ring
  · simp only [h1, Bool.false_eq_true, if_false] at h
    rcases Bool.eq_false_or_eq_true q.isEmpty with h2 | h2
    · simp only [h2, if_true, Except.ok.injEq] at h
      subst h
      have : q.chans = [] := by simpa [Pulse.isEmpty] using h2
      refine ⟨?_, hp.2⟩
      rw [hp.1, hq.1, hq.2 this]; ring
    · simp only [h2, Bool.false_eq_true, if_false] at h
      rcases Bool.eq_false_or_eq_true (sameSet p.chanNames q.chanNames) with h3 | h3
      · simp only [h3, Bool.not_true, Bool.false_eq_true, if_false, Except.ok.injEq] at h
        subst h
        refine ⟨by rw [hp.1, hq.1], ?_⟩
        intro h0
        simp only [List.map_eq_nil_iff] at h0
        simp [Pulse.isEmpty, h0] at h1
      · simp [h3] at h

theorem withOwn_durFact {p : Pulse} {d : Rat} (h : DurFact d p) (ms : List Window) : DurFact d (p.withOwn ms) := by
  unfold Pulse.withOwn
  split
  · exact h
  · exact h

theorem tr1_durFact {b : Pulse} {d : Rat} (h : DurFact d b) (_hne : b.chans ≠ []) (chans : List (Chan × PL))
    (hc : chans ≠ []) : DurFact d { b with chans := chans } :=
  ⟨h.1, fun h0 => absurd h0 hc⟩

theorem durFact_empty : DurFact 0 Pulse.empty := ⟨rfl, fun _ => rfl⟩

theorem list_dur (subs : List PT) (σ : Scope) (mm : List (MName × Option MName)) (cm : List (Chan × Option Chan))
    (ih : ∀ p ∈ subs, ∀ d P, templateDuration p σ = .ok d → denote p σ mm cm = .ok P → DurFact d P) :
    ∀ d parts p, templateDurationSum subs σ = .ok d → denoteList subs σ mm cm = .ok parts →
      Pulse.appendAll parts = .ok p → DurFact d p := by
  induction subs with
  | nil =>
    intro d parts p h1 h2 h3
    simp only [templateDurationSum, Except.ok.injEq] at h1
    simp only [denoteList, Except.ok.injEq] at h2
    subst h1; subst h2
    simp only [Pulse.appendAll, Except.ok.injEq] at h3
    subst h3
    exact durFact_empty
  | cons q qs ihq =>
    intro d parts p h1 h2 h3
    simp only [templateDurationSum, bind_ok, pure_ok] at h1
    obtain ⟨a, ha, b, hb, rfl⟩ := h1
    simp only [denoteList, bind_ok, pure_ok] at h2
    obtain ⟨pa, hpa, pr, hpr, rfl⟩ := h2
    simp only [Pulse.appendAll, bind_ok] at h3
    obtain ⟨r, hr, hp⟩ := h3
    have hq := ih q (by simp) a pa ha hpa
    have hrest := ihq (fun p hp => ih p (by simp [hp])) b pr r hb hpr hr
    exact append_durFact hq hrest hp

theorem range_dur (body : PT) (σ : Scope) (idx : String) (mm : List (MName × Option MName))
    (cm : List (Chan × Option Chan)) (rng : List Int)
    (ih : ∀ i ∈ rng, ∀ d P, templateDuration body (.range σ idx (i : Rat)) = .ok d →
      denote body (.range σ idx (i : Rat)) mm cm = .ok P → DurFact d P) :
    ∀ ds parts p, rng.mapM (fun (i : Int) => templateDuration body (.range σ idx (i : Rat))) = .ok ds →
      rng.mapM (fun (i : Int) => denote body (.range σ idx (i : Rat)) mm cm) = .ok parts →
      Pulse.appendAll parts = .ok p → DurFact (sumList ds) p := by
  induction rng with
  | nil =>
    intro ds parts p h1 h2 h3
    simp only [List.mapM_nil, pure_ok] at h1 h2
    subst h1; subst h2
    simp only [Pulse.appendAll, Except.ok.injEq] at h3
    subst h3
    simpa [sumList] using durFact_empty
  | cons i is ihr =>
    intro ds parts p h1 h2 h3
    simp only [List.mapM_cons, bind_ok, pure_ok] at h1 h2
    obtain ⟨a, ha, b, hb, rfl⟩ := h1
    obtain ⟨pa, hpa, pr, hpr, rfl⟩ := h2
    simp only [Pulse.appendAll, bind_ok] at h3
    obtain ⟨r, hr, hp⟩ := h3
    have hq := ih i (by simp) a pa ha hpa
    have hrest := ihr (fun j hj => ih j (by simp [hj])) b pr r hb hpr hr
    have := append_durFact hq hrest hp
    simpa [sumList] using this

theorem foldl_applyTrafoPL_ne (T : Chain) (d : Rat) : ∀ chans : List (Chan × PL), chans ≠ [] →
    T.foldl (fun cs t => applyTrafoPL t d cs) chans ≠ [] := by
  induction T with
  | nil => intro chans h; exact h
  | cons t T ih =>
    intro chans h
    simp only [List.foldl_cons]
    apply ih
    obtain ⟨x, xs, hx⟩ := List.exists_cons_of_ne_nil h
    cases t <;> simp [applyTrafoPL, hx]

/-- **the duration expression of a template evaluates to the duration of the pulse it denotes** -/
theorem live_dur {pt : PT} {σ : Scope} {cm : List (Chan × Option Chan)} (hl : Live pt σ cm) :
    ∀ mm d P, templateDuration pt σ = .ok d → denote pt σ mm cm = .ok P → DurFact d P := by
  induction hl with
  | atom h => exact h
  | @seq id subs meas cons σ cm _ ih =>
    intro mm d P h1 h2
    simp only [templateDuration] at h1
    simp only [denote, bind_ok, pure_ok] at h2
    obtain ⟨_, _, ms, _, parts, hparts, p, hp, rfl⟩ := h2
    exact withOwn_durFact (list_dur subs σ mm cm (fun p hp => ih p hp mm) d parts p h1 hparts hp) ms
  | @rep id body count meas cons σ cm _ hcount ih =>
    intro mm d P h1 h2
    simp only [templateDuration, bind_ok, pure_ok] at h1
    obtain ⟨c, hc, db, hdb, rfl⟩ := h1
    simp only [denote, bind_ok] at h2
    obtain ⟨_, _, c', hc', h2⟩ := h2
    rw [hc] at hc'; cases hc'
    obtain ⟨n, rfl⟩ := hcount c hc
    have hci : checkedInt ((n : Nat) : Rat) = some (n : Int) := by
      have := checkedInt_int (n : Int)
      simpa using this
    simp only [hci] at h2
    by_cases hle : (n : Int) ≤ 0
    · simp only [hle, if_true, pure_ok] at h2
      subst h2
      have : n = 0 := by omega
      subst this
      simpa using durFact_empty
    · simp only [hle, if_false, bind_ok] at h2
      obtain ⟨ms, _, b, hbd, h2⟩ := h2
      have hb := ih mm db b hdb hbd
      rcases Bool.eq_false_or_eq_true b.isEmpty with he | he
      · simp only [he, if_true, pure_ok] at h2
        subst h2
        have : b.chans = [] := by simpa [Pulse.isEmpty] using he
        have h0 : db = 0 := by rw [hb.1, hb.2 this]
        rw [h0]
        simpa using durFact_empty
      · simp only [he, Bool.false_eq_true, if_false, pure_ok] at h2
        subst h2
        refine ⟨?_, ?_⟩
        · simp only [Int.toNat_natCast]
          rw [hb.1]; ring
        · intro h0
          simp only [List.map_eq_nil_iff] at h0
          simp [Pulse.isEmpty, h0] at he
  | @forLoop id body idx start stop step meas cons σ cm hint _ ih =>
    intro mm d P h1 h2
    simp only [denote, bind_ok] at h2
    obtain ⟨_, _, a, ha, ai, hai, b, hb, bi, hbi, s, hs, si, hsi, h2⟩ := h2
    obtain ⟨ai', bi', si', rfl, rfl, rfl⟩ := hint a b s ha hb hs
    simp only [intOrErr, checkedInt_int, Except.ok.injEq] at hai hbi hsi
    subst hai; subst hbi; subst hsi
    by_cases hz : si' = 0
    · simp [hz] at h2
    · simp only [hz, if_false, bind_ok, pure_ok] at h2
      obtain ⟨ms, _, parts, hparts, p, hp, rfl⟩ := h2
      rw [forLoop_templateDuration id body idx start stop step meas cons σ ai' bi' si' hz ha hb hs] at h1
      simp only [bind_ok, pure_ok] at h1
      obtain ⟨ds, hds, rfl⟩ := h1
      apply withOwn_durFact
      refine range_dur body σ idx mm cm (pyRange ai' bi' si') ?_ ds parts p hds hparts hp
      intro i hi dd PP h3 h4
      exact ih ai' bi' si' ha hb hs i hi mm dd PP h3 h4
  | @mapping id body pm mm' cm' cons σ cm _ ih =>
    intro mm d P h1 h2
    simp only [templateDuration] at h1
    simp only [denote, bind_ok] at h2
    obtain ⟨_, _, mmU, _, cmU, hcm, h2⟩ := h2
    exact ih cmU hcm mmU d P h1 h2
  | @parallel id body over σ cm _ ih =>
    intro mm d P h1 h2
    simp only [templateDuration] at h1
    simp only [denote, bind_ok] at h2
    obtain ⟨ov, _, b, hbd, h2⟩ := h2
    have hb := ih mm d b h1 hbd
    rcases Bool.eq_false_or_eq_true b.isEmpty with he | he
    · simp only [he, if_true, pure_ok] at h2
      subst h2
      have : b.chans = [] := by simpa [Pulse.isEmpty] using he
      refine ⟨?_, fun _ => rfl⟩
      rw [hb.1, hb.2 this]; rfl
    · simp only [he, Bool.false_eq_true, if_false, pure_ok] at h2
      subst h2
      have hne : b.chans ≠ [] := by simpa [Pulse.isEmpty] using he
      exact tr1_durFact hb hne _ (foldl_applyTrafoPL_ne [Trafo.parallel ov] b.dur b.chans hne)
  | @arith id body op scalar lhs σ cm _ ih =>
    intro mm d P h1 h2
    simp only [templateDuration] at h1
    simp only [denote, bind_ok] at h2
    obtain ⟨b, hbd, h2⟩ := h2
    have hb := ih mm d b h1 hbd
    rcases Bool.eq_false_or_eq_true b.isEmpty with he | he
    · simp only [he, if_true, pure_ok] at h2
      subst h2
      have : b.chans = [] := by simpa [Pulse.isEmpty] using he
      refine ⟨?_, fun _ => rfl⟩
      rw [hb.1, hb.2 this]; rfl
    · simp only [he, Bool.false_eq_true, if_false, bind_ok, pure_ok] at h2
      obtain ⟨T, _, rfl⟩ := h2
      have hne : b.chans ≠ [] := by simpa [Pulse.isEmpty] using he
      exact tr1_durFact hb hne _ (foldl_applyTrafoPL_ne T b.dur b.chans hne)
  | @timeReversal id body σ cm _ ih =>
    intro mm d P h1 h2
    simp only [templateDuration] at h1
    simp only [denote, bind_ok, pure_ok] at h2
    obtain ⟨b, hbd, rfl⟩ := h2
    have hb := ih mm d b h1 hbd
    refine ⟨hb.1, ?_⟩
    intro h0
    simp only [List.map_eq_nil_iff] at h0
    exact hb.2 h0

end QP.PT

namespace QP.PT

theorem filterMapM_mem_conv {α β : Type} (f : α → Except Err (Option β)) : ∀ (l : List α) (r : List β),
    l.filterMapM f = .ok r → ∀ x ∈ l, ∃ o, f x = .ok o ∧ ∀ y, o = some y → y ∈ r := by
  intro l
  induction l with
  | nil => intro r _ x hx; simp at hx
  | cons a as ih =>
    intro r h x hx
    simp only [List.filterMapM_cons, bind_ok] at h
    obtain ⟨o, ho, h⟩ := h
    cases o with
    | none =>
      rcases List.mem_cons.mp hx with rfl | hx
      · exact ⟨none, ho, by intro y hy; cases hy⟩
      · exact ih r h x hx
    | some b =>
      simp only [bind_ok, pure_ok] at h
      obtain ⟨r', hr', rfl⟩ := h
      rcases List.mem_cons.mp hx with rfl | hx
      · exact ⟨some b, ho, by intro y hy; cases hy; simp⟩
      · obtain ⟨o', ho', hy'⟩ := ih r' hr' x hx
        exact ⟨o', ho', fun y hy => List.mem_cons_of_mem _ (hy' y hy)⟩

theorem dictSet_ne_nil (d : List (Chan × Rat)) (k : Chan) (v : Rat) : dictSet d k v ≠ [] := by
  unfold dictSet
  split
  · rename_i h
    intro h0
    simp only [List.map_eq_nil_iff] at h0
    subst h0
    simp at h
  · simp

theorem foldl_dictSet_ne_nil : ∀ (kv acc : List (Chan × Rat)), acc ≠ [] →
    kv.foldl (fun d (p : Chan × Rat) => dictSet d p.1 p.2) acc ≠ [] := by
  intro kv
  induction kv with
  | nil => intro acc h; exact h
  | cons p ps ih => intro acc _; exact ih _ (dictSet_ne_nil acc p.1 p.2)

theorem dictOfList_ne_nil (kv : List (Chan × Rat)) (h : kv ≠ []) : dictOfList kv ≠ [] := by
  have e : dictOfList kv = kv.foldl (fun d (p : Chan × Rat) => dictSet d p.1 p.2) [] := by
    unfold dictOfList
    congr 1
  rw [e]
  obtain ⟨x, xs, rfl⟩ := List.exists_cons_of_ne_nil h
  simp only [List.foldl_cons]
  exact foldl_dictSet_ne_nil xs _ (dictSet_ne_nil [] x.1 x.2)

/-- a constant template that keeps a channel and has no negative duration -/
theorem durAtom_const (id : Option String) (dur : Expr) (amps : List (Chan × Expr)) (meas : List MeasDecl)
    (σ : Scope) (cm : List (Chan × Option Chan))
    (hkeep : ∃ ch e o, (ch, e) ∈ amps ∧ cm.lookup ch = some (some o))
    (hnn : ∀ d, σ.eval dur = .ok d → 0 ≤ d) : DurAtom (.const id dur amps meas) σ cm := by
  intro mm d P h1 h2
  simp only [templateDuration] at h1
  simp only [denote, bind_ok] at h2
  obtain ⟨d', hd', h2⟩ := h2
  rw [h1] at hd'; cases hd'
  by_cases hpos : d > 0
  · simp only [hpos, if_true, bind_ok] at h2
    obtain ⟨cvs, hcvs, h2⟩ := h2
    obtain ⟨ch, e, o, hmem, hlook⟩ := hkeep
    obtain ⟨r, hr, hy⟩ := filterMapM_mem_conv _ amps cvs hcvs (ch, e) hmem
    have hcl : chanLookup cm ch = .ok (some o) := by simp [chanLookup, hlook]
    simp only [hcl, bind_ok] at hr
    obtain ⟨w, hw, hr⟩ := hr
    cases hw
    simp only [bind_ok, pure_ok] at hr
    obtain ⟨v, _, rfl⟩ := hr
    have hne : cvs ≠ [] := List.ne_nil_of_mem (hy (o, v) rfl)
    have hne' : dictOfList cvs ≠ [] := dictOfList_ne_nil cvs hne
    have hemp : (dictOfList cvs).isEmpty = false := by simpa using hne'
    simp only [hemp, Bool.false_eq_true, if_false] at h2
    split at h2
    · cases h2
    · simp only [bind_ok, pure_ok] at h2
      obtain ⟨ms, _, rfl⟩ := h2
      refine ⟨rfl, ?_⟩
      intro h0
      simp only [List.map_eq_nil_iff] at h0
      exact absurd h0 hne'
  · simp only [hpos, if_false, pure_ok] at h2
    subst h2
    have := hnn d h1
    have : d = 0 := le_antisymm (not_lt.mp hpos) this
    subst this
    exact durFact_empty

/-- a function template that keeps its channel -/
theorem durAtom_func (id : Option String) (ch : Chan) (dur e : Expr) (meas : List MeasDecl) (cons : List Expr)
    (σ : Scope) (cm : List (Chan × Option Chan)) (o : Chan) (hkeep : cm.lookup ch = some (some o)) :
    DurAtom (.func id ch dur e meas cons) σ cm := by
  intro mm d P h1 h2
  simp only [templateDuration] at h1
  simp only [denote, bind_ok] at h2
  obtain ⟨_, _, o', ho', h2⟩ := h2
  have hcl : chanLookup cm ch = .ok (some o) := by simp [chanLookup, hkeep]
  rw [hcl] at ho'; cases ho'
  simp only [bind_ok] at h2
  obtain ⟨d', hd', h2⟩ := h2
  rw [h1] at hd'; cases hd'
  split at h2
  · cases h2
  · simp only [bind_ok, pure_ok] at h2
    obtain ⟨a, _, b, _, ms, _, rfl⟩ := h2
    exact ⟨rfl, by intro h0; simp at h0⟩

end QP.PT
