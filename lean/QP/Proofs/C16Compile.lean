import QP.Proofs.C16Parse
import QP.Proofs.C16Pack
/-! C16: quantisation range, segment de-duplication, and the end-to-end statement about what the device plays. -/
namespace QP.C16

/-! ### `code14` -/

theorem rne_cases (y : Rat) : rne y = y.floor ∨ rne y = y.floor + 1 := by
  simp only [rne]
  split
  · exact .inl rfl
  · split
    · exact .inr rfl
    · split
      · exact .inl rfl
      · exact .inr rfl

theorem rne_nonneg (y : Rat) (h : 0 ≤ y) : 0 ≤ rne y := by
  have hf : (0 : Int) ≤ y.floor := Rat.le_floor_iff.mpr (by simpa using h)
  rcases rne_cases y with h1 | h1 <;> omega

theorem rne_le (y : Rat) (N : Int) (h : y ≤ (N : Rat)) : rne y ≤ N := by
  have hfl : y.floor ≤ N := by
    have := Rat.floor_monotone h
    rwa [Rat.floor_intCast] at this
  by_cases hy : y = (N : Rat)
  · subst hy
    have h0 : ((N : Rat) - (N : Rat)) = 0 := by grind
    have h1 : (0 : Rat) < 1 / 2 := by grind
    simp [rne, Rat.floor_intCast, h0, h1]
  · have hlt : y < (N : Rat) := by grind
    have : y.floor < N := Rat.floor_lt_iff.mpr hlt
    rcases rne_cases y with h1 | h1 <;> omega

theorem scaled_bounds (amp off v : Rat) (hpos : 0 < amp) (hlo : -amp ≤ v - off) (hhi : v - off ≤ amp) :
    0 ≤ scaled amp off v ∧ scaled amp off v ≤ (16383 : Rat) := by
  have h2 : (0 : Rat) < 2 * amp := by grind
  constructor
  · apply Rat.not_lt.mp
    intro hc
    simp only [scaled] at hc
    rw [Rat.div_lt_iff h2] at hc
    grind
  · apply Rat.not_lt.mp
    intro hc
    simp only [scaled] at hc
    rw [Rat.lt_div_iff h2] at hc
    grind

/-- an accepted voltage becomes a 14-bit code -/
theorem code14_lt (amp off v : Rat) (c : Nat) (h : code14 amp off v = .ok c) : c < 2 ^ 14 := by
  simp only [code14] at h
  split at h
  · cases h
  · rename_i hr
    split at h
    · cases h
    · rename_i h0
      cases h
      have habs : absR (v - off) ≤ amp := Rat.not_lt.mp hr
      have hb : -amp ≤ v - off ∧ v - off ≤ amp := by
        simp only [absR] at habs
        split at habs <;> constructor <;> grind
      have hpos : 0 < amp := by grind
      obtain ⟨b1, b2⟩ := scaled_bounds amp off v hpos hb.1 hb.2
      have := rne_nonneg _ b1
      have := rne_le _ 16383 (by simpa using b2)
      simp only [scaled] at *
      omega

/-- a voltage outside `[off - amp, off + amp]` is rejected -/
theorem code14_rejects (amp off v : Rat) (h : amp < v - off ∨ v - off < -amp) :
    code14 amp off v = .error .valueError := by
  simp only [code14]
  split
  · rfl
  · rename_i hr
    exfalso; apply hr
    simp only [absR]
    split <;> grind

theorem codes_lt (amp off : Rat) : ∀ (vs : List Rat) (cs : List Nat), codes amp off vs = .ok cs →
    cs.length = vs.length ∧ ∀ c ∈ cs, c < 2 ^ 14 := by
  intro vs
  induction vs with
  | nil => intro cs h; simp only [codes] at h; cases h; simp
  | cons v vs ih =>
    intro cs h
    simp only [codes] at h
    split at h
    · rename_i c cs' h1 h2
      cases h
      obtain ⟨i1, i2⟩ := ih cs' h2
      refine ⟨by simp [i1], ?_⟩
      intro x hx
      cases hx with
      | head => exact code14_lt _ _ _ _ h1
      | tail _ hm => exact i2 x hm
    · cases h
    · cases h

/-! ### segments -/

theorem packN_length : ∀ (n : Nat) (s : Seg), s.WF n → (packN n s).length = 32 * n := by
  intro n
  induction n with
  | zero => intro s _; simp [packN]
  | succ k ih =>
    intro s hw
    obtain ⟨w1, w2, w3, w4⟩ := hw
    have := ih ⟨s.a.drop 16, s.b.drop 16, s.mA.drop 8, s.mB.drop 8⟩
      ⟨by simp only [List.length_drop]; omega, by simp only [List.length_drop]; omega,
       by simp only [List.length_drop]; omega, by simp only [List.length_drop]; omega⟩
    have hH := packHalf_length ((s.a.drop 8).take 8) (s.mA.take 8) (s.mB.take 8)
      (by simp only [List.length_take, List.length_drop]; omega)
      (by simp only [List.length_take, List.length_drop]; omega)
    simp only [packN, List.length_append, List.length_take, hH, this, List.length_drop]
    omega

theorem pack_ok (s : Seg) (raw : List Nat) (h : pack s = .ok raw) :
    raw = rawOf s ∧ raw.length = 2 * s.a.length ∧ s.a.length % 16 = 0 := by
  simp only [pack] at h
  split at h
  · rename_i hl
    obtain ⟨l1, l2, l3⟩ := hl
    split at h
    · rename_i hm
      cases h
      refine ⟨rfl, ?_, hm⟩
      rw [packN_length _ s ⟨by omega, by omega, by omega, by omega⟩]
      omega
    · cases h
  · cases h

theorem packAll_ok : ∀ (ss : List Seg) (raws : List (List Nat)), packAll ss = .ok raws → raws = ss.map rawOf := by
  intro ss
  induction ss with
  | nil => intro raws h; simp only [packAll] at h; cases h; rfl
  | cons s ss ih =>
    intro raws h
    simp only [packAll] at h
    split at h
    · rename_i x xs h1 h2
      cases h
      rw [List.map_cons, ← ih xs h2, (pack_ok s x h1).1]
    · cases h
    · cases h

theorem dedupSegs_spec : ∀ (xs keys : List (List Nat)),
    keys <+: (dedupSegs keys xs).1 ∧
    (∀ k ∈ (dedupSegs keys xs).1, k ∈ keys ∨ k ∈ xs) ∧
    ∀ (i : Nat) x, xs[i]? = some x → ∃ k, (dedupSegs keys xs).2[i]? = some k ∧
      ∀ K, (dedupSegs keys xs).1 <+: K → K[k]? = some x := by
  intro xs
  induction xs with
  | nil =>
    intro keys
    exact ⟨List.prefix_refl _, fun k hk => .inl hk, fun i x h => by simp at h⟩
  | cons y ys ih =>
    intro keys
    obtain ⟨i1, i2, i3⟩ := ih (setDefault keys y).1
    refine ⟨(setDefault_prefix keys y).trans i1, ?_, ?_⟩
    · intro k hk
      simp only [dedupSegs] at hk
      rcases i2 k hk with h | h
      · simp only [setDefault] at h
        split at h
        · exact .inl h
        · rcases List.mem_append.mp h with h | h
          · exact .inl h
          · simp at h; exact .inr (by simp [h])
      · exact .inr (by simp [h])
    · intro i x hx
      cases i with
      | zero =>
        simp only [List.getElem?_cons_zero, Option.some.injEq] at hx
        subst hx
        refine ⟨(setDefault keys y).2, by simp [dedupSegs], ?_⟩
        intro K hK
        simp only [dedupSegs] at hK
        exact getElem?_of_prefix (i1.trans hK) (setDefault_get keys y)
      | succ j =>
        simp only [List.getElem?_cons_succ] at hx
        obtain ⟨k, k1, k2⟩ := i3 j x hx
        exact ⟨k, by simpa [dedupSegs] using k1, fun K hK => k2 K (by simpa [dedupSegs] using hK)⟩

/-- `_calc_sampled_segments`: every emitted segment respects the device limits, and the
`waveform_to_segment` map points every waveform at its own binary data -/
theorem calcSegments_ok (ss : List Seg) (segs : List (List Nat)) (w2s : List Nat)
    (h : calcSegments ss = .ok (segs, w2s)) :
    (∀ raw ∈ segs, ∃ n, raw.length = 2 * n ∧ 192 ≤ n ∧ n % 16 = 0) ∧
    (∀ (i : Nat) s, ss[i]? = some s → ∃ k, w2s[i]? = some k ∧ segs[k]? = some (rawOf s)) := by
  simp only [calcSegments] at h
  split at h
  · rename_i hall
    split at h
    · cases h
    · rename_i raws hp
      have hraws := packAll_ok ss raws hp
      obtain ⟨_, d2, d3⟩ := dedupSegs_spec raws []
      simp only [Except.ok.injEq] at h
      rw [h] at d2 d3
      constructor
      · intro raw hraw
        rcases d2 raw hraw with hh | hh
        · cases hh
        · rw [hraws] at hh
          obtain ⟨s, hs, rfl⟩ := List.mem_map.mp hh
          have hok := List.all_eq_true.mp hall s hs
          simp only [segLenOk, Bool.and_eq_true, beq_iff_eq, decide_eq_true_eq] at hok
          refine ⟨s.a.length, ?_, hok.2, hok.1⟩
          -- the length of the packed data: it was produced by a successful `pack`
          have : ∀ (ss : List Seg) (raws : List (List Nat)), packAll ss = .ok raws → ∀ s ∈ ss,
              (rawOf s).length = 2 * s.a.length := by
            intro ss
            induction ss with
            | nil => intro _ _ s hs; cases hs
            | cons t ts ih =>
              intro raws hp s hs
              simp only [packAll] at hp
              split at hp
              · rename_i x xs h1 h2
                cases hs with
                | head => have := pack_ok t x h1; rw [← this.1]; exact this.2.1
                | tail _ hm => exact ih xs h2 s hm
              · cases hp
              · cases hp
          exact this ss raws hp s hs
      · intro i s hs
        have : raws[i]? = some (rawOf s) := by rw [hraws, List.getElem?_map, hs]; rfl
        obtain ⟨k, k1, k2⟩ := d3 i _ this
        exact ⟨k, k1, k2 _ (List.prefix_refl _)⟩
  · cases h

/-! ### re-indexing tables from waveform indices to segment indices -/

theorem map_repeatL {α β} (g : α → β) (n : Nat) (xs : List α) : (repeatL n xs).map g = repeatL n (xs.map g) := by
  induction n with
  | zero => simp
  | succ k ih => simp [repeatL_succ, ih]

theorem playSeqTab_reindex {α β} (g : α → β) (W : List α) (segs : List β) (w2s : List Nat)
    (hmap : ∀ (i : Nat) w, W[i]? = some w → ∃ k, w2s[i]? = some k ∧ segs[k]? = some (g w)) :
    ∀ (tab tab' : List TEntry) (ws : List α), reindexTab w2s tab = some tab' → playSeqTab W tab = some ws →
      playSeqTab segs tab' = some (ws.map g) ∧ tab'.length = tab.length := by
  intro tab
  induction tab with
  | nil => intro tab' ws h1 h2; simp only [reindexTab] at h1; simp only [playSeqTab] at h2; cases h1; cases h2; exact ⟨rfl, rfl⟩
  | cons e es ih =>
    intro tab' ws h1 h2
    simp only [reindexTab] at h1
    simp only [playSeqTab] at h2
    split at h1
    · rename_i k r hk hr
      cases h1
      split at h2
      · rename_i w ws' hw hws
        cases h2
        obtain ⟨k', hk', hseg⟩ := hmap _ _ hw
        rw [hk] at hk'; cases hk'
        obtain ⟨i1, i2⟩ := ih r ws' hr hws
        simp only [playSeqTab, hseg, i1, List.map_append, List.map_replicate, List.length_cons, i2, and_self]
      · cases h2
    · cases h1

theorem reindexTabs_get (w2s : List Nat) : ∀ (tabs tabs' : List (List TEntry)) (k : Nat) (tab : List TEntry),
    reindexTabs w2s tabs = some tabs' → tabs[k]? = some tab →
    ∃ tab', tabs'[k]? = some tab' ∧ reindexTab w2s tab = some tab' := by
  intro tabs
  induction tabs with
  | nil => intro _ k tab _ h; simp at h
  | cons t ts ih =>
    intro tabs' k tab h1 h2
    simp only [reindexTabs] at h1
    split at h1
    · rename_i t' r ht hr
      cases h1
      cases k with
      | zero => simp only [List.getElem?_cons_zero, Option.some.injEq] at h2; subst h2; exact ⟨t', rfl, ht⟩
      | succ j => simp only [List.getElem?_cons_succ] at h2 ⊢; exact ih r j tab hr h2
    · cases h1

theorem reindexTabs_lengths (w2s : List Nat) : ∀ (tabs tabs' : List (List TEntry)),
    reindexTabs w2s tabs = some tabs' → tabs'.map List.length = tabs.map List.length := by
  intro tabs
  induction tabs with
  | nil => intro tabs' h; simp only [reindexTabs] at h; cases h; rfl
  | cons t ts ih =>
    intro tabs' h1
    simp only [reindexTabs] at h1
    split at h1
    · rename_i t' r ht hr
      cases h1
      have : ∀ (tab tab' : List TEntry), reindexTab w2s tab = some tab' → tab'.length = tab.length := by
        intro tab
        induction tab with
        | nil => intro tab' h; simp only [reindexTab] at h; cases h; rfl
        | cons e es ih2 =>
          intro tab' h
          simp only [reindexTab] at h
          split at h
          · rename_i k r' _ hr'; cases h; simp [ih2 r' hr']
          · cases h
      simp [this t t' ht, ih r hr]
    · cases h1

theorem playAdv_reindex {α β} (g : α → β) (W : List α) (segs : List β) (w2s : List Nat)
    (hmap : ∀ (i : Nat) w, W[i]? = some w → ∃ k, w2s[i]? = some k ∧ segs[k]? = some (g w))
    (tabs tabs' : List (List TEntry)) (ht : reindexTabs w2s tabs = some tabs') :
    ∀ (adv : List TEntry) (ws : List α), playAdv W tabs adv = some ws → playAdv segs tabs' adv = some (ws.map g) := by
  intro adv
  induction adv with
  | nil => intro ws h; simp only [playAdv] at h; cases h; rfl
  | cons a as ih =>
    intro ws h
    simp only [playAdv] at h ⊢
    split at h
    · cases h
    · rename_i k hk
      split at h
      · cases h
      · rename_i tab htab
        obtain ⟨tab', g1, g2⟩ := reindexTabs_get w2s tabs tabs' k tab ht htab
        rw [g1]
        simp only
        split at h
        · rename_i s r hs hr
          cases h
          rw [(playSeqTab_reindex g W segs w2s hmap tab tab' s g2 hs).1, ih r hr]
          simp [map_repeatL]
        · cases h

/-! ### the embedding of depth-2 programs into `Loop` -/

theorem playList_entries (es : List Entry) : Loop.playList (es.map Entry.toLoop) = playEntries es := by
  induction es with
  | nil => simp [Loop.playList]
  | cons e es ih => simp [Loop.playList, ih, Entry.toLoop, Loop.play, Entry.play]

theorem playList_tabs (p : Prog) : Loop.playList (p.map SeqTab.toLoop) = playProg p := by
  induction p with
  | nil => simp [Loop.playList]
  | cons t p ih => simp [Loop.playList, ih, SeqTab.toLoop, Loop.play, SeqTab.play, playList_entries]

theorem play_toLoop' (p : Prog) : (Prog.toLoop p).play = playProg p := by
  simp [Prog.toLoop, Loop.play, playList_tabs]

/-! ### lengths of the parsed tables -/

theorem parseEntries_length : ∀ (es : List Entry) (wfs : List WfId), (parseEntries wfs es).2.length = es.length := by
  intro es
  induction es with
  | nil => intro _; rfl
  | cons e es ih => intro wfs; simp [parseEntries, ih]

theorem parseTabs_lengths : ∀ (ts : Prog) (wfs : List WfId) (tabs : List VTab),
    ∀ tab ∈ (parseTabs wfs tabs ts).seqTabs, tab ∈ tabs ∨ ∃ t ∈ ts, tab.length = t.entries.length := by
  intro ts
  induction ts with
  | nil => intro wfs tabs tab h; exact .inl h
  | cons t ts ih =>
    intro wfs tabs tab h
    simp only [parseTabs] at h
    rcases ih _ _ tab h with h1 | ⟨t', ht', hl⟩
    · simp only [setDefault] at h1
      split at h1
      · exact .inl h1
      · rcases List.mem_append.mp h1 with h2 | h2
        · exact .inl h2
        · simp only [List.mem_singleton] at h2
          exact .inr ⟨t, by simp, by rw [h2, parseEntries_length]⟩
    · exact .inr ⟨t', by simp [ht'], hl⟩

/-! ### sampling, de-duplicating and re-indexing keep the play order -/

theorem finish_plays (sample : WfId → Seg) (T : Tables) (C : Compiled) (ws : List WfId)
    (h : finish sample T = .ok C) (hp : playTables T = some ws) :
    playAdv C.segs C.seqTabs C.adv = some (ws.map (fun w => rawOf (sample w))) ∧
    C.seqTabs.map List.length = T.seqTabs.map List.length ∧
    ∀ raw ∈ C.segs, ∃ n, raw.length = 2 * n ∧ 192 ≤ n ∧ n % 16 = 0 := by
  simp only [finish] at h
  split at h
  · cases h
  · rename_i segs w2s hc
    split at h
    · cases h
    · rename_i tabs ht
      cases h
      obtain ⟨c1, c2⟩ := calcSegments_ok _ _ _ hc
      refine ⟨?_, ?_, c1⟩
      · apply playAdv_reindex (fun w => rawOf (sample w)) T.wfs segs w2s ?_ T.plain tabs ht T.adv ws hp
        intro i w hw
        exact c2 i (sample w) (by rw [List.getElem?_map, hw]; rfl)
      · rw [reindexTabs_lengths w2s _ _ ht]
        simp [Tables.plain]

end QP.C16
