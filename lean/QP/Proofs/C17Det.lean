import QP.Proofs.C17Struct
/-! The translation state after a node is the state before, overridden by entries that depend only on
the node (and the current iterations): `dep_states[ch][key] := (base, iterations)`,
`active_dep[ch] := key`, `plain_voltage[ch] := v`. -/
namespace QP.C17.Frag
open QP.C17 QP.C17.VMS QP.C17.Struct

/-- override: the first argument wins -/
def ov {α} (a b : Option α) : Option α :=
  match a with
  | some x => some x
  | none => b

@[simp] theorem ov_none {α} (b : Option α) : ov none b = b := rfl
@[simp] theorem ov_none_right {α} (a : Option α) : ov a none = a := by cases a <;> rfl
@[simp] theorem ov_some {α} (x : α) (b : Option α) : ov (some x) b = some x := rfl
theorem ov_assoc {α} (a b c : Option α) : ov a (ov b c) = ov (ov a b) c := by cases a <;> rfl
theorem ov_map {α β} (f : α → β) (a b : Option α) : (ov a b).map f = ov (a.map f) (b.map f) := by
  cases a <;> rfl

/-- last touch of a register: (base, factors, iterations relative to the enclosing ones) -/
abbrev LT := Nat → Key → Option (Rat × List Rat × List Nat)

def ltHold (res : Rat) : List Rat → List (Option (List Rat)) → Nat → LT
  | _ :: bs, none :: fs, ch0 => ltHold res bs fs (ch0 + 1)
  | b :: bs, some facs :: fs, ch0 => fun ch κ =>
    if ch = ch0 ∧ κ = depKey res facs then some (b, facs, []) else ltHold res bs fs (ch0 + 1) ch κ
  | _, _, _ => fun _ _ => none

def laHold (res : Rat) : List Rat → List (Option (List Rat)) → Nat → Nat → Option Key
  | _ :: bs, none :: fs, ch0 => fun ch => if ch = ch0 then some [] else laHold res bs fs (ch0 + 1) ch
  | _ :: bs, some facs :: fs, ch0 => fun ch =>
    if ch = ch0 then some (depKey res facs) else laHold res bs fs (ch0 + 1) ch
  | _, _, _ => fun _ => none

def lpHold : List Rat → List (Option (List Rat)) → Nat → Nat → Option Rat
  | b :: bs, none :: fs, ch0 => fun ch => if ch = ch0 then some b else lpHold bs fs (ch0 + 1) ch
  | _ :: bs, some _ :: fs, ch0 => lpHold bs fs (ch0 + 1)
  | _, _, _ => fun _ => none

def shiftRel (x : Nat) (o : Option (Rat × List Rat × List Nat)) : Option (Rat × List Rat × List Nat) :=
  o.map (fun t => (t.1, t.2.1, x :: t.2.2))

/-- the recorded final index of an iteration of the given length -/
def lastIdx (length : Nat) : Nat := if length > 1 then length - 1 else 0

mutual
def lt1 (res : Rat) : Node → LT
  | .hold bases factors _ => ltHold res bases factors 0
  | .rep body _ => ltL res body
  | .iter body length => fun ch κ => shiftRel (lastIdx length) (ltL res body ch κ)
def ltL (res : Rat) : List Node → LT
  | [] => fun _ _ => none
  | n :: ns => fun ch κ => ov (ltL res ns ch κ) (lt1 res n ch κ)
end

mutual
def la1 (res : Rat) : Node → Nat → Option Key
  | .hold bases factors _ => laHold res bases factors 0
  | .rep body _ => laL res body
  | .iter body _ => laL res body
def laL (res : Rat) : List Node → Nat → Option Key
  | [] => fun _ => none
  | n :: ns => fun ch => ov (laL res ns ch) (la1 res n ch)
end

mutual
def lp1 : Node → Nat → Option Rat
  | .hold bases factors _ => lpHold bases factors 0
  | .rep body _ => lpL body
  | .iter body _ => lpL body
def lpL : List Node → Nat → Option Rat
  | [] => fun _ => none
  | n :: ns => fun ch => ov (lpL ns ch) (lp1 n ch)
end

/-- the stored state a last-touch entry becomes under enclosing iterations `its` -/
def toDep (its : List Nat) (t : Rat × List Rat × List Nat) : DepState := ⟨t.1, its ++ t.2.2⟩

structure Det (c c' : TS) (lt : LT) (la : Nat → Option Key) (lp : Nat → Option Rat) : Prop where
  its : c'.iterations = c.iterations
  res : c'.resolution = c.resolution
  dep : ∀ ch κ, c'.depStates ch κ = ov ((lt ch κ).map (toDep c.iterations)) (c.depStates ch κ)
  act : ∀ ch, c'.activeDep ch = ov (la ch) (c.activeDep ch)
  pl : ∀ ch, c'.plainVoltage ch = ov (lp ch) (c.plainVoltage ch)

theorem ltHold_ge (res : Rat) : ∀ (bs : List Rat) (fs : List (Option (List Rat))) (ch0 ch : Nat) (κ : Key),
    ch < ch0 → ltHold res bs fs ch0 ch κ = none
  | [], _, _, _, _, _ => by simp [ltHold]
  | _ :: _, [], _, _, _, _ => by simp [ltHold]
  | _ :: bs, none :: fs, ch0, ch, κ, h => by
    simp only [ltHold]; exact ltHold_ge res bs fs (ch0 + 1) ch κ (by omega)
  | _ :: bs, some _ :: fs, ch0, ch, κ, h => by
    simp only [ltHold]
    rw [if_neg (by omega)]
    exact ltHold_ge res bs fs (ch0 + 1) ch κ (by omega)

theorem laHold_ge (res : Rat) : ∀ (bs : List Rat) (fs : List (Option (List Rat))) (ch0 ch : Nat),
    ch < ch0 → laHold res bs fs ch0 ch = none
  | [], _, _, _, _ => by simp [laHold]
  | _ :: _, [], _, _, _ => by simp [laHold]
  | _ :: bs, none :: fs, ch0, ch, h => by
    simp only [laHold]; rw [if_neg (by omega)]; exact laHold_ge res bs fs (ch0 + 1) ch (by omega)
  | _ :: bs, some _ :: fs, ch0, ch, h => by
    simp only [laHold]; rw [if_neg (by omega)]; exact laHold_ge res bs fs (ch0 + 1) ch (by omega)

theorem lpHold_ge : ∀ (bs : List Rat) (fs : List (Option (List Rat))) (ch0 ch : Nat),
    ch < ch0 → lpHold bs fs ch0 ch = none
  | [], _, _, _, _ => by simp [lpHold]
  | _ :: _, [], _, _, _ => by simp [lpHold]
  | _ :: bs, none :: fs, ch0, ch, h => by
    simp only [lpHold]; rw [if_neg (by omega)]; exact lpHold_ge bs fs (ch0 + 1) ch (by omega)
  | _ :: bs, some _ :: fs, ch0, ch, h => by
    simp only [lpHold]; exact lpHold_ge bs fs (ch0 + 1) ch (by omega)

theorem Det.refl (c : TS) : Det c c (fun _ _ => none) (fun _ => none) (fun _ => none) :=
  ⟨rfl, rfl, fun _ _ => rfl, fun _ => rfl, fun _ => rfl⟩

theorem Det.trans {c c1 c2 : TS} {lt1' lt2 : LT} {la1' la2 : Nat → Option Key} {lp1' lp2 : Nat → Option Rat}
    (h1 : Det c c1 lt1' la1' lp1') (h2 : Det c1 c2 lt2 la2 lp2) :
    Det c c2 (fun ch κ => ov (lt2 ch κ) (lt1' ch κ)) (fun ch => ov (la2 ch) (la1' ch))
      (fun ch => ov (lp2 ch) (lp1' ch)) := by
  refine ⟨by rw [h2.its, h1.its], by rw [h2.res, h1.res], ?_, ?_, ?_⟩
  · intro ch κ
    rw [h2.dep, h1.dep, h1.its, ov_assoc, ov_map]
  · intro ch; rw [h2.act, h1.act, ov_assoc]
  · intro ch; rw [h2.pl, h1.pl, ov_assoc]

theorem det_setVoltageS (c : TS) (ch : Nat) (v : Rat) :
    Det c (setVoltageS c ch v).2 (fun _ _ => none) (fun x => if x = ch then some [] else none)
      (fun x => if x = ch then some v else none) := by
  by_cases h : (c.activeDep ch ≠ some [] ∨ c.plainVoltage ch ≠ some v)
  · simp only [setVoltageS, h, if_true]
    refine ⟨rfl, rfl, fun _ _ => rfl, ?_, ?_⟩
    · intro x; simp only [upd]; split <;> rfl
    · intro x; simp only [upd]; split <;> rfl
  · simp only [setVoltageS, h, if_false]
    have h' : c.activeDep ch = some [] ∧ c.plainVoltage ch = some v := by
      simp only [not_or, Decidable.not_not] at h; exact h
    refine ⟨rfl, rfl, fun _ _ => rfl, ?_, ?_⟩
    · intro x
      by_cases hx : x = ch
      · simp [hx, h'.1]
      · simp [hx]
    · intro x
      by_cases hx : x = ch
      · simp [hx, h'.2]
      · simp [hx]

theorem det_setIndexedS {c : TS} {ch : Nat} {b : Rat} {fs : List Rat} {s : List SCmd} {c' : TS}
    (h : setIndexedS c ch b fs = .ok (s, c')) :
    Det c c' (fun x κ => if x = ch ∧ κ = depKey c.resolution fs then some (b, fs, []) else none)
      (fun x => if x = ch then some (depKey c.resolution fs) else none) (fun _ => none) := by
  have hc' : c' = { c with activeDep := upd c.activeDep ch (depKey c.resolution fs),
                           depStates := upd2 c.depStates ch (depKey c.resolution fs) ⟨b, c.iterations⟩ } := by
    simp only [setIndexedS] at h
    split at h
    · split at h
      · cases h; rfl
      · cases h
    · split at h
      · cases h
      · cases h; rfl
  subst hc'
  refine ⟨rfl, rfl, ?_, ?_, fun _ => rfl⟩
  · intro x κ
    simp only [upd2]
    split
    · simp [toDep]
    · rfl
  · intro x; simp only [upd]; split <;> rfl

theorem det_holdChannelsS (res : Rat) : ∀ (bs : List Rat) (fs : List (Option (List Rat))) (ch0 : Nat) (c : TS)
    (s : List SCmd) (c' : TS), c.resolution = res → holdChannelsS bs fs ch0 c = .ok (s, c') →
    Det c c' (ltHold res bs fs ch0) (laHold res bs fs ch0) (lpHold bs fs ch0)
  | [], fs, ch0, c, s, c', _, h => by
    simp only [holdChannelsS] at h; cases h
    simpa [ltHold, laHold, lpHold] using Det.refl c
  | _ :: _, [], ch0, c, s, c', _, h => by
    simp only [holdChannelsS] at h; cases h
    simpa [ltHold, laHold, lpHold] using Det.refl c
  | b :: bs, none :: fs, ch0, c, s, c', hr, h => by
    simp only [holdChannelsS] at h
    split at h
    · cases h
    · rename_i s2 c2 h2
      cases h
      have d1 := det_setVoltageS c ch0 b
      have d2 := det_holdChannelsS res bs fs (ch0 + 1) _ _ _ (by rw [d1.res]; exact hr) h2
      have d := Det.trans d1 d2
      refine ⟨d.its, d.res, ?_, ?_, ?_⟩
      · intro ch κ; rw [d.dep]; simp [ltHold]
      · intro ch
        rw [d.act]
        simp only [laHold]
        by_cases hx : ch = ch0
        · subst hx; rw [laHold_ge res bs fs _ _ (by omega)]; simp
        · simp [hx]
      · intro ch
        rw [d.pl]
        simp only [lpHold]
        by_cases hx : ch = ch0
        · subst hx; rw [lpHold_ge bs fs _ _ (by omega)]; simp
        · simp [hx]
  | b :: bs, some facs :: fs, ch0, c, s, c', hr, h => by
    simp only [holdChannelsS] at h
    split at h
    · cases h
    · rename_i s1 c1 h1
      split at h
      · cases h
      · rename_i s2 c2 h2
        cases h
        have d1 := det_setIndexedS h1
        rw [hr] at d1
        have d2 := det_holdChannelsS res bs fs (ch0 + 1) _ _ _ (by rw [d1.res]; exact hr) h2
        have d := Det.trans d1 d2
        refine ⟨d.its, d.res, ?_, ?_, ?_⟩
        · intro ch κ
          rw [d.dep]
          simp only [ltHold]
          by_cases hx : ch = ch0 ∧ κ = depKey res facs
          · obtain ⟨rfl, rfl⟩ := hx
            rw [ltHold_ge res bs fs _ _ _ (by omega)]; simp
          · simp [hx]
        · intro ch
          rw [d.act]
          simp only [laHold]
          by_cases hx : ch = ch0
          · subst hx; rw [laHold_ge res bs fs _ _ (by omega)]; simp
          · simp [hx]
        · intro ch; rw [d.pl]; simp [lpHold]

theorem dropLast_snoc (l : List Nat) (x : Nat) : (l ++ [x]).dropLast = l := by simp

mutual
theorem det1 (res : Rat) : (n : Node) → ∀ (c : TS) (s : List SCmd) (c' : TS),
    c.resolution = res → trS1 n c = .ok (s, c') → Det c c' (lt1 res n) (la1 res n) (lp1 n)
  | .hold bases factors dur, c, s, c', hr, h => by
    simp only [trS1] at h
    split at h
    · cases h
    · rename_i s0 c0 h0
      cases h
      simpa [lt1, la1, lp1] using det_holdChannelsS res bases factors 0 c _ _ hr h0
  | .rep body count, c, s, c', hr, h => by
    simp only [trS1] at h
    split at h
    · cases h
    · rename_i s1 c3 h1
      have d1 := detL res body _ _ _ (by exact hr) h1
      split at h
      · cases h
        exact ⟨d1.its, d1.res, d1.dep, d1.act, d1.pl⟩
      · split at h
        · cases h
        · rename_i s2 c5 h2
          cases h
          have d2 := detL res body _ _ _ (by rw [d1.res]; exact hr) h2
          refine ⟨by rw [d2.its]; exact d1.its, by rw [d2.res]; exact d1.res, ?_, ?_, ?_⟩
          · intro ch κ
            rw [d2.dep, d1.dep, d1.its]
            simp only [lt1]
            show ov _ (ov _ (c.depStates ch κ)) = _
            show ov (Option.map (toDep c.iterations) (ltL res body ch κ))
              (ov (Option.map (toDep c.iterations) (ltL res body ch κ)) (c.depStates ch κ)) = _
            cases ltL res body ch κ <;> simp
          · intro ch
            rw [d2.act, d1.act]
            simp only [la1]
            show ov _ (ov _ (c.activeDep ch)) = _
            cases laL res body ch <;> simp
          · intro ch
            rw [d2.pl, d1.pl]
            simp only [lp1]
            show ov _ (ov _ (c.plainVoltage ch)) = _
            cases lpL body ch <;> simp
  | .iter body length, c, s, c', hr, h => by
    simp only [trS1] at h
    split at h
    · cases h
    · rename_i s1 c2 h1
      have d1 := detL res body _ _ _ (by exact hr) h1
      have hits1 : c2.iterations = c.iterations ++ [0] := d1.its
      by_cases hl : length > 1
      · simp only [hl, if_true] at h
        split at h
        · cases h
        · rename_i s2 c6 h2
          cases h
          have d2 := detL res body _ _ _ (by show c2.resolution = res; rw [d1.res]; exact hr) h2
          have hits2 : c6.iterations = c.iterations ++ [length - 1] := by
            rw [d2.its]; show c2.iterations.dropLast ++ [length - 1] = _; rw [hits1, dropLast_snoc]
          refine ⟨?_, ?_, ?_, ?_, ?_⟩
          · show c6.iterations.dropLast = c.iterations
            rw [hits2, dropLast_snoc]
          · show c6.resolution = c.resolution
            rw [d2.res]; show c2.resolution = _; rw [d1.res]
          · intro ch κ
            show c6.depStates ch κ = _
            rw [d2.dep]
            show ov _ (c2.depStates ch κ) = _
            rw [d1.dep]
            simp only [lt1, lastIdx, hl, if_true, shiftRel]
            have hi : ({ c2 with iterations := c2.iterations.dropLast ++ [length - 1],
                                 labelNum := c2.labelNum + 1 } : TS).iterations = c.iterations ++ [length - 1] := by
              show c2.iterations.dropLast ++ [length - 1] = _; rw [hits1, dropLast_snoc]
            cases hlt : ltL res body ch κ with
            | none => simp
            | some t => simp [toDep, hits1, List.append_assoc]
          · intro ch
            show c6.activeDep ch = _
            rw [d2.act]
            show ov _ (c2.activeDep ch) = _
            rw [d1.act]
            simp only [la1]
            cases laL res body ch <;> simp
          · intro ch
            show c6.plainVoltage ch = _
            rw [d2.pl]
            show ov _ (c2.plainVoltage ch) = _
            rw [d1.pl]
            simp only [lp1]
            cases lpL body ch <;> simp
      · simp only [hl, if_false] at h
        cases h
        refine ⟨?_, ?_, ?_, ?_, ?_⟩
        · show c2.iterations.dropLast = c.iterations
          rw [hits1, dropLast_snoc]
        · exact d1.res
        · intro ch κ
          show c2.depStates ch κ = _
          rw [d1.dep]
          simp only [lt1, lastIdx, hl, if_false, shiftRel]
          cases hlt : ltL res body ch κ with
          | none => simp
          | some t => simp [toDep, List.append_assoc]
        · intro ch; show c2.activeDep ch = _; rw [d1.act]; simp [la1]
        · intro ch; show c2.plainVoltage ch = _; rw [d1.pl]; simp [lp1]
theorem detL (res : Rat) : (ns : List Node) → ∀ (c : TS) (s : List SCmd) (c' : TS),
    c.resolution = res → trSL ns c = .ok (s, c') → Det c c' (ltL res ns) (laL res ns) (lpL ns)
  | [], c, s, c', _, h => by
    simp only [trSL] at h; cases h
    simpa [ltL, laL, lpL] using Det.refl c
  | n :: ns, c, s, c', hr, h => by
    simp only [trSL] at h
    split at h
    · cases h
    · rename_i s1 c1 h1
      split at h
      · cases h
      · rename_i s2 c2 h2
        cases h
        have d1 := det1 res n _ _ _ hr h1
        have d2 := detL res ns _ _ _ (by rw [d1.res]; exact hr) h2
        simpa [ltL, laL, lpL] using Det.trans d1 d2
end

end QP.C17.Frag
