import QP.Proofs.C18
/-! C18: the tuples and mask dictionaries built by `register_program` are right; every operation
preserves the invariant. -/
namespace QP.C18

theorem aget_isSome_of_mem {κ β : Type} [DecidableEq κ] {k : κ} {v : β} {l : List (κ × β)}
    (h : (k, v) ∈ l) : (aget k l).isSome = true := by
  induction l with
  | nil => simp at h
  | cons kv l ih =>
    rw [aget_cons]
    by_cases e : kv.1 = k
    · simp [e]
    · simp only [e, if_false]
      rcases List.mem_cons.1 h with h | h
      · exact absurd (by rw [← h]) e
      · exact ih h

theorem mem_assignments {cm : List (Chan × List Out)} {chans : List Chan} {co : Chan × Out} :
    co ∈ assignments cm chans ↔ co.1 ∈ chans ∧ co.2 ∈ wired cm co.1 := by
  obtain ⟨c, o⟩ := co
  simp only [assignments, List.mem_flatMap, List.mem_map, Prod.mk.injEq]
  constructor
  · rintro ⟨c', hc', o', ho', rfl, rfl⟩
    exact ⟨hc', ho'⟩
  · rintro ⟨hc, ho⟩
    exact ⟨c, hc, o, ho, rfl, rfl⟩

theorem mem_part {s : State} {chans : List Chan} {a : AwgId} :
    a ∈ (assignments s.chanMap chans).map (·.2.awg) ↔ Participates s chans a := by
  simp only [List.mem_map, Participates]
  constructor
  · rintro ⟨co, hco, rfl⟩
    obtain ⟨h1, h2⟩ := mem_assignments.1 hco
    exact ⟨co.1, h1, co.2, h2, rfl⟩
  · rintro ⟨c, hc, o, ho, rfl⟩
    exact ⟨(c, o), mem_assignments.2 ⟨hc, ho⟩, rfl⟩

theorem slot_some {asg : List (Chan × Out)} {a : AwgId} {k : Kind} {p : Nat} {co : Chan × Out}
    (h : slot asg a k p = some co) : co ∈ asg ∧ co.2.awg = a ∧ co.2.kind = k ∧ co.2.pos = p := by
  have := List.mem_of_getLast? h
  rw [List.mem_filter] at this
  obtain ⟨h1, h2⟩ := this
  simp only [hits, decide_eq_true_eq] at h2
  exact ⟨h1, h2⟩

theorem slot_none {asg : List (Chan × Out)} {a : AwgId} {k : Kind} {p : Nat}
    (h : slot asg a k p = none) : ∀ co ∈ asg, ¬ (co.2.awg = a ∧ co.2.kind = k ∧ co.2.pos = p) := by
  intro co hco hh
  have := List.getLast?_eq_none_iff.1 h
  have hm : co ∈ asg.filter (hits a k p) := by
    rw [List.mem_filter]; exact ⟨hco, by simp only [hits, decide_eq_true_eq]; exact hh⟩
  rw [this] at hm
  simp at hm

theorem range_map_get {α : Type} (n : Nat) (f : Nat → Option α) (p : Nat) (hp : p < n) :
    (((List.range n).map f)[p]?).join = f p := by
  rw [List.getElem?_map, List.getElem?_range hp]
  rfl

theorem mkUpload_ok (s : State) (r : Reg) (a : AwgId) (g : Awg) :
    UploadOK s r a g (mkUpload r.pid (assignments s.chanMap r.channels) a g) := by
  refine ⟨rfl, by simp [mkUpload], by simp [mkUpload], by simp [mkUpload], ?_, ?_⟩
  · intro p hp
    simp only [mkUpload]
    rw [range_map_get _ _ _ hp, range_map_get _ _ _ hp]
    unfold PlaybackSlotOK
    cases hs : slot (assignments s.chanMap r.channels) a .playback p with
    | none =>
      simp only [Option.map_none]
      refine ⟨trivial, ?_⟩
      intro c hc o ho
      exact slot_none hs (c, o) (mem_assignments.2 ⟨hc, ho⟩)
    | some co =>
      simp only [Option.map_some]
      obtain ⟨h1, h2, h3, h4⟩ := slot_some hs
      obtain ⟨h5, h6⟩ := mem_assignments.1 h1
      exact ⟨h5, co.2, h6, h2, h3, h4, rfl⟩
  · intro p hp
    simp only [mkUpload]
    rw [range_map_get _ _ _ hp]
    unfold MarkerSlotOK
    cases hs : slot (assignments s.chanMap r.channels) a .marker p with
    | none =>
      simp only [Option.map_none]
      intro c hc o ho
      exact slot_none hs (c, o) (mem_assignments.2 ⟨hc, ho⟩)
    | some co =>
      simp only [Option.map_some]
      obtain ⟨h1, h2, h3, h4⟩ := slot_some hs
      obtain ⟨h5, h6⟩ := mem_assignments.1 h1
      exact ⟨h5, co.2, h6, h2, h3, h4⟩

/-! ### DAC side -/

theorem mem_maskAsg {mm : List (MName × List MaskRef)} {meas : List (MName × Windows)} {x : MaskRef × Windows} :
    x ∈ maskAsg mm meas ↔ ∃ mw ∈ meas, x.1 ∈ wiredM mm mw.1 ∧ x.2 = mw.2 := by
  obtain ⟨m, w⟩ := x
  simp only [maskAsg, List.mem_flatMap, List.mem_map, Prod.mk.injEq]
  constructor
  · rintro ⟨mw, hmw, m', hm', rfl, rfl⟩
    exact ⟨mw, hmw, hm', rfl⟩
  · rintro ⟨mw, hmw, hm, rfl⟩
    exact ⟨mw, hmw, m, hm, rfl, rfl⟩

theorem mem_dpart {s : State} {meas : List (MName × Windows)} {d : DacId} :
    d ∈ (maskAsg s.measMap meas).map (·.1.dac) ↔ ParticipatesD s meas d := by
  simp only [List.mem_map, ParticipatesD]
  constructor
  · rintro ⟨x, hx, rfl⟩
    obtain ⟨mw, h1, h2, _⟩ := mem_maskAsg.1 hx
    exact ⟨mw, h1, x.1, h2, rfl⟩
  · rintro ⟨mw, hmw, m, hm, rfl⟩
    exact ⟨(m, mw.2), mem_maskAsg.2 ⟨mw, hmw, hm, rfl⟩, rfl⟩

theorem mslot_some {masg : List (MaskRef × Windows)} {d : DacId} {m : Mask} {w : Windows}
    (h : mslot masg d m = some w) : ∃ x ∈ masg, x.1.dac = d ∧ x.1.mask = m ∧ x.2 = w := by
  unfold mslot at h
  cases hl : (masg.filter (mhits d m)).getLast? with
  | none => simp [hl] at h
  | some x =>
    rw [hl] at h
    have := List.mem_of_getLast? hl
    rw [List.mem_filter] at this
    obtain ⟨h1, h2⟩ := this
    simp only [mhits, decide_eq_true_eq] at h2
    exact ⟨x, h1, h2.1, h2.2, by simpa using h⟩

theorem mslot_isSome {masg : List (MaskRef × Windows)} {d : DacId} {x : MaskRef × Windows}
    (hx : x ∈ masg) (hd : x.1.dac = d) : (mslot masg d x.1.mask).isSome = true := by
  unfold mslot
  rw [Option.isSome_map, List.getLast?_isSome]
  intro he
  have : x ∈ masg.filter (mhits d x.1.mask) := by
    rw [List.mem_filter]; exact ⟨hx, by simp [mhits, hd]⟩
  rw [he] at this
  simp at this

theorem maskDict_ok (s : State) (r : Reg) (d : DacId) :
    MasksOK s r d (maskDict (maskAsg s.measMap r.meas) d) := by
  constructor
  · intro mw hmw
    simp only [maskDict, List.mem_filterMap, List.mem_map, List.mem_filter] at hmw
    obtain ⟨m, _, hm⟩ := hmw
    cases hs : mslot (maskAsg s.measMap r.meas) d m with
    | none => simp [hs] at hm
    | some w =>
      rw [hs] at hm
      simp only [Option.map_some, Option.some.injEq] at hm
      subst hm
      obtain ⟨x, hx, h1, h2, h3⟩ := mslot_some hs
      obtain ⟨y, hy, h4, h5⟩ := mem_maskAsg.1 hx
      exact ⟨y, hy, by rw [← h5, h3], x.1, h4, h1, h2⟩
  · intro x hx m hm hd
    have hmem : (m, x.2) ∈ maskAsg s.measMap r.meas := mem_maskAsg.2 ⟨x, hx, hm, rfl⟩
    have hs := mslot_isSome hmem hd
    simp only at hs
    cases hw : mslot (maskAsg s.measMap r.meas) d m.mask with
    | none => simp [hw] at hs
    | some w =>
      apply aget_isSome_of_mem (v := w)
      simp only [maskDict, List.mem_filterMap, List.mem_map, List.mem_filter]
      exact ⟨m.mask, ⟨(m, x.2), ⟨hmem, by simp [hd]⟩, rfl⟩, by simp [hw]⟩

/-! ## register_program -/

theorem mapIdx_get {α : Type} {f : Nat → α → α} {l : List α} {i : Nat} {y : α}
    (h : (l.mapIdx f)[i]? = some y) : ∃ x, l[i]? = some x ∧ y = f i x := by
  rw [List.getElem?_mapIdx] at h
  cases hx : l[i]? with
  | none => simp [hx] at h
  | some x => rw [hx] at h; exact ⟨x, rfl, by simpa using h.symm⟩

theorem mapIdx_fwd {α : Type} {f : Nat → α → α} {l : List α} {i : Nat} {x : α}
    (h : l[i]? = some x) : ∃ y, (l.mapIdx f)[i]? = some y := by
  rw [List.getElem?_mapIdx, h]; exact ⟨_, rfl⟩

theorem awgDrop_healthy {n : Name} {g : Awg} (h : g.fault = 0) :
    awgDrop n g = { g with progs := adel n g.progs, armed := none } := by
  simp [awgDrop, h]

theorem dacDrop_healthy {n : Name} {g : Dac} (h : g.fault = 0) :
    dacDrop n g = { g with progs := adel n g.progs } := by
  simp [dacDrop, h]

theorem awgDrop_fault (n : Name) (g : Awg) : (awgDrop n g).fault = g.fault := by
  unfold awgDrop; split
  · rfl
  · split <;> rfl

theorem dacDrop_fault (n : Name) (g : Dac) : (dacDrop n g).fault = g.fault := by
  unfold dacDrop; split <;> rfl

/-- a device-wise update that keeps the fault flags keeps "every device obeys" -/
theorem healthy_mapIdx {α : Type} (fault : α → Nat) {f : Nat → α → α} {l : List α}
    (hf : ∀ i x, fault (f i x) = fault x) (h : ∀ x ∈ l, fault x = 0) : ∀ y ∈ l.mapIdx f, fault y = 0 := by
  intro y hy
  obtain ⟨i, hi⟩ := List.mem_iff_getElem?.1 hy
  obtain ⟨x, hx, e⟩ := mapIdx_get hi
  rw [e, hf]
  exact h x (List.mem_of_getElem? hx)

theorem inv_register {s s' : State} {n : Name} {p : Program} {cbOk update : Bool}
    {ov : Option (List (MName × Windows))} (hI : Inv s)
    (h : register true s n p cbOk update ov = .ok s') : Inv s' := by
  unfold register at h
  split at h
  · cases h
  split at h
  · cases h
  simp only at h
  split at h
  · cases h
  split at h
  · cases h
  split at h
  · cases h
  injection h with h
  subst h
  simp only [if_true]
  have hfa : ∀ (a : AwgId) (g : Awg), s.awgs[a]? = some g → g.fault = 0 :=
    fun a g hg => hI.healthyA g (List.mem_of_getElem? hg)
  have hfd : ∀ (d : DacId) (g : Dac), s.dacs[d]? = some g → g.fault = 0 :=
    fun d g hg => hI.healthyD g (List.mem_of_getElem? hg)
  refine inv_update s _ n (some _) hI rfl rfl (aget_aput_self _ _ _) (fun n' e => aget_aput_ne e _ _)
    ?_ ?_ (fun a g hg => mapIdx_fwd hg) (by simp)
    (healthy_mapIdx Awg.fault (fun i x => by
      split
      · rfl
      · split
        · exact awgDrop_fault n x
        · rfl) hI.healthyA)
    (healthy_mapIdx Dac.fault (fun i x => by
      split
      · rfl
      · split
        · exact dacDrop_fault n x
        · rfl) hI.healthyD) ?_ ?_
  · intro r hr
    injection hr with hr; subst hr
    exact ⟨fun a ha => mem_part.1 ha, fun c hc o ho => mem_part.2 ⟨c, hc, o, ho, rfl⟩⟩
  · intro r hr
    injection hr with hr; subst hr
    exact ⟨fun d hd => mem_dpart.1 hd, fun x hx m hm => mem_dpart.2 ⟨x, hx, m, hm, rfl⟩⟩
  · intro a g' hg'
    obtain ⟨g, hg, e⟩ := mapIdx_get hg'
    refine ⟨g, hg, ?_⟩
    by_cases hp : a ∈ List.map (fun x => x.snd.awg) (assignments s.chanMap p.channels)
    · simp only [hp, if_true] at e
      subst e
      refine ⟨rfl, rfl, fun n' e => aget_aput_ne e _ _, ?_, fun _ _ _ => by simp [aget_aput_self]⟩
      intro u hu
      rw [aget_aput_self] at hu
      injection hu with hu; subst hu
      exact ⟨_, rfl, mem_part.1 hp, mkUpload_ok s _ a g⟩
    · simp only [hp, if_false] at e
      have hnp : ¬ Participates s p.channels a := fun hpa => hp (mem_part.2 hpa)
      by_cases hst : a ∈ oldAwgs s n
      · rw [if_pos hst, awgDrop_healthy (hfa a g hg)] at e
        subst e
        refine ⟨rfl, rfl, fun n' e => aget_adel_ne e _, ?_, fun r hr hpa => by injection hr with hr; subst hr; exact (hnp hpa).elim⟩
        intro u hu
        rw [aget_adel_self] at hu
        cases hu
      · rw [if_neg hst] at e
        subst e
        refine ⟨rfl, rfl, fun _ _ => rfl, ?_, fun r hr hpa => by injection hr with hr; subst hr; exact (hnp hpa).elim⟩
        intro u hu
        exfalso
        obtain ⟨r0, hr0, hp0, _⟩ := hI.awgHeld a g' hg n u hu
        obtain ⟨c, hc, o, ho, ha⟩ := hp0
        have := (hI.regAwgs n r0 hr0).2 c hc o ho
        rw [ha] at this
        simp only [oldAwgs, hr0] at hst
        exact hst this
  · intro d g' hg'
    obtain ⟨g, hg, e⟩ := mapIdx_get hg'
    refine ⟨g, hg, ?_⟩
    by_cases hp : d ∈ List.map (fun x => x.fst.dac) (maskAsg s.measMap (ov.getD p.meas))
    · simp only [hp, if_true] at e
      subst e
      refine ⟨fun n' e => aget_aput_ne e _ _, ?_, fun _ _ _ => by simp [aget_aput_self]⟩
      intro w hw
      rw [aget_aput_self] at hw
      injection hw with hw; subst hw
      exact ⟨_, rfl, mem_dpart.1 hp, maskDict_ok s _ d⟩
    · simp only [hp, if_false] at e
      have hnp : ¬ ParticipatesD s (ov.getD p.meas) d := fun hpa => hp (mem_dpart.2 hpa)
      by_cases hst : d ∈ oldDacs s n
      · rw [if_pos hst, dacDrop_healthy (hfd d g hg)] at e
        subst e
        refine ⟨fun n' e => aget_adel_ne e _, ?_, fun r hr hpa => by injection hr with hr; subst hr; exact (hnp hpa).elim⟩
        intro w hw
        rw [aget_adel_self] at hw
        cases hw
      · rw [if_neg hst] at e
        subst e
        refine ⟨fun _ _ => rfl, ?_, fun r hr hpa => by injection hr with hr; subst hr; exact (hnp hpa).elim⟩
        intro w hw
        exfalso
        obtain ⟨r0, hr0, hp0, _⟩ := hI.dacHeld d g' hg n w hw
        obtain ⟨x, hx, m, hm, hd⟩ := hp0
        have := (hI.regDacs n r0 hr0).2 x hx m hm
        rw [hd] at this
        simp only [oldDacs, hr0] at hst
        exact hst this

/-! ## remove_program -/

theorem inv_remove {s : State} (n : Name) (hI : Inv s) : Inv (remove s n) := by
  unfold remove
  cases hr : aget n s.registered with
  | none => exact hI
  | some r =>
    simp only
    have hfa : ∀ (a : AwgId) (g : Awg), s.awgs[a]? = some g → g.fault = 0 :=
      fun a g hg => hI.healthyA g (List.mem_of_getElem? hg)
    have hfd : ∀ (d : DacId) (g : Dac), s.dacs[d]? = some g → g.fault = 0 :=
      fun d g hg => hI.healthyD g (List.mem_of_getElem? hg)
    refine inv_update s _ n none hI rfl rfl (aget_adel_self _ _) (fun n' e => aget_adel_ne e _)
      (fun r h => by cases h) (fun r h => by cases h) (fun a g hg => mapIdx_fwd hg) (by simp)
      (healthy_mapIdx Awg.fault (fun i x => by
        split
        · exact awgDrop_fault n x
        · rfl) hI.healthyA)
      (healthy_mapIdx Dac.fault (fun i x => by
        split
        · exact dacDrop_fault n x
        · rfl) hI.healthyD) ?_ ?_
    · intro a g' hg'
      obtain ⟨g, hg, e⟩ := mapIdx_get hg'
      refine ⟨g, hg, ?_⟩
      by_cases hp : a ∈ r.awgs
      · rw [if_pos hp, awgDrop_healthy (hfa a g hg)] at e
        subst e
        refine ⟨rfl, rfl, fun n' e => aget_adel_ne e _, ?_, fun r h => by cases h⟩
        intro u hu
        rw [aget_adel_self] at hu
        cases hu
      · rw [if_neg hp] at e
        subst e
        refine ⟨rfl, rfl, fun _ _ => rfl, ?_, fun r h => by cases h⟩
        intro u hu
        exfalso
        obtain ⟨r0, hr0, ⟨c, hc, o, ho, ha⟩, _⟩ := hI.awgHeld a g' hg n u hu
        rw [hr] at hr0
        injection hr0 with hr0; subst hr0
        have := (hI.regAwgs n r hr).2 c hc o ho
        rw [ha] at this
        exact hp this
    · intro d g' hg'
      obtain ⟨g, hg, e⟩ := mapIdx_get hg'
      refine ⟨g, hg, ?_⟩
      by_cases hp : d ∈ r.dacs
      · rw [if_pos hp, dacDrop_healthy (hfd d g hg)] at e
        subst e
        refine ⟨fun n' e => aget_adel_ne e _, ?_, fun r h => by cases h⟩
        intro w hw
        rw [aget_adel_self] at hw
        cases hw
      · rw [if_neg hp] at e
        subst e
        refine ⟨fun _ _ => rfl, ?_, fun r h => by cases h⟩
        intro w hw
        exfalso
        obtain ⟨r0, hr0, ⟨x, hx, m, hm, hd⟩, _⟩ := hI.dacHeld d g' hg n w hw
        rw [hr] at hr0
        injection hr0 with hr0; subst hr0
        have := (hI.regDacs n r hr).2 x hx m hm
        rw [hd] at this
        exact hp this

/-! ## operations that leave the dictionaries alone (arm_program) -/

theorem inv_same (s s' : State) (hI : Inv s)
    (hcm : s'.chanMap = s.chanMap) (hmm : s'.measMap = s.measMap) (hreg : s'.registered = s.registered)
    (hfwdA : ∀ (a : AwgId) (g : Awg), s.awgs[a]? = some g → ∃ g', s'.awgs[a]? = some g')
    (hlenD : s'.dacs.length = s.dacs.length)
    (hawg : ∀ (a : AwgId) (g' : Awg), s'.awgs[a]? = some g' →
        ∃ g, s.awgs[a]? = some g ∧ g'.nch = g.nch ∧ g'.nmk = g.nmk ∧ g'.progs = g.progs ∧ g'.fault = g.fault)
    (hdac : ∀ (d : DacId) (g' : Dac), s'.dacs[d]? = some g' →
        ∃ g, s.dacs[d]? = some g ∧ g'.progs = g.progs ∧ g'.fault = g.fault) :
    Inv s' := by
  have hhA : ∀ g' ∈ s'.awgs, g'.fault = 0 := by
    intro g' hg'
    obtain ⟨a, ha⟩ := List.mem_iff_getElem?.1 hg'
    obtain ⟨g, hg, _, _, _, ef⟩ := hawg a g' ha
    rw [ef]; exact hI.healthyA g (List.mem_of_getElem? hg)
  have hhD : ∀ g' ∈ s'.dacs, g'.fault = 0 := by
    intro g' hg'
    obtain ⟨d, hd⟩ := List.mem_iff_getElem?.1 hg'
    obtain ⟨g, hg, _, ef⟩ := hdac d g' hd
    rw [ef]; exact hI.healthyD g (List.mem_of_getElem? hg)
  refine inv_update s s' 0 (aget 0 s.registered) hI hcm hmm (by rw [hreg]) (fun n' _ => by rw [hreg])
    (fun r hr => hI.regAwgs 0 r hr) (fun r hr => hI.regDacs 0 r hr) hfwdA hlenD hhA hhD ?_ ?_
  · intro a g' hg'
    obtain ⟨g, hg, e1, e2, e3, _⟩ := hawg a g' hg'
    refine ⟨g, hg, e1, e2, fun _ _ => by rw [e3], ?_, ?_⟩
    · intro u hu
      rw [e3] at hu
      obtain ⟨r, hr, hp, hu'⟩ := hI.awgHeld a g hg 0 u hu
      exact ⟨r, hr, hp, hu'⟩
    · intro r hr hp
      rw [e3]
      exact hI.awgHolds a g hg 0 r hr hp
  · intro d g' hg'
    obtain ⟨g, hg, e3, _⟩ := hdac d g' hg'
    refine ⟨g, hg, fun _ _ => by rw [e3], ?_, ?_⟩
    · intro w hw
      rw [e3] at hw
      obtain ⟨r, hr, hp, hw'⟩ := hI.dacHeld d g hg 0 w hw
      exact ⟨r, hr, hp, hw'⟩
    · intro r hr hp
      rw [e3]
      exact hI.dacHolds d g hg 0 r hr hp

theorem inv_arm {s s' : State} {n : Name} (hI : Inv s) (h : arm s n = .ok s') : Inv s' := by
  unfold arm at h
  cases hr : aget n s.registered with
  | none => rw [hr] at h; cases h
  | some r =>
    rw [hr] at h
    simp only at h
    split at h
    · cases h
    injection h with h
    subst h
    refine inv_same s _ hI rfl rfl rfl (fun a g hg => mapIdx_fwd hg) (by simp) ?_ ?_
    · intro a g' hg'
      obtain ⟨g, hg, e⟩ := mapIdx_get hg'
      refine ⟨g, hg, ?_⟩
      subst e
      split <;> exact ⟨rfl, rfl, rfl, rfl⟩
    · intro d g' hg'
      obtain ⟨g, hg, e⟩ := mapIdx_get hg'
      refine ⟨g, hg, ?_⟩
      subst e
      split <;> exact ⟨rfl, rfl⟩

/-! ## clear_programs -/

theorem knownAwg_of_participates {s : State} {chans : List Chan} {a : AwgId}
    (h : Participates s chans a) : knownAwg s a = true := by
  obtain ⟨c, _, o, ho, ha⟩ := h
  unfold wired at ho
  cases hc : aget c s.chanMap with
  | none => simp [hc] at ho
  | some outs =>
    rw [hc] at ho
    simp only [Option.getD_some] at ho
    unfold knownAwg
    rw [List.any_eq_true]
    refine ⟨(c, outs), aget_mem hc, ?_⟩
    rw [List.any_eq_true]
    exact ⟨o, ho, by simpa using ha⟩

theorem knownDac_of_participates {s : State} {meas : List (MName × Windows)} {d : DacId}
    (h : ParticipatesD s meas d) : knownDac s d = true := by
  obtain ⟨x, _, m, hm, hd⟩ := h
  unfold wiredM at hm
  cases hc : aget x.1 s.measMap with
  | none => simp [hc] at hm
  | some ms =>
    rw [hc] at hm
    simp only [Option.getD_some] at hm
    unfold knownDac
    rw [List.any_eq_true]
    refine ⟨(x.1, ms), aget_mem hc, ?_⟩
    rw [List.any_eq_true]
    exact ⟨m, hm, by simpa using hd⟩

theorem aget_filter_key {κ β : Type} [DecidableEq κ] (p : κ → Bool) (k : κ) (l : List (κ × β)) :
    aget k (l.filter fun kv => p kv.1) = if p k = true then aget k l else none := by
  induction l with
  | nil => simp
  | cons kv l ih =>
    obtain ⟨a, b⟩ := kv
    rw [List.filter_cons]
    by_cases hp : p a = true
    · simp only [hp, if_true, aget_cons]
      by_cases e : a = k
      · subst e; simp [hp]
      · simp only [e, if_false]; exact ih
    · have hp' : p a = false := by cases h : p a <;> simp_all
      simp only [hp', Bool.false_eq_true, if_false]
      rw [ih, aget_cons]
      by_cases e : a = k
      · subst e; simp [hp']
      · simp [e]

theorem aget_of_filter_key {κ β : Type} [DecidableEq κ] {p : κ → Bool} {k : κ} {l : List (κ × β)} {v : β}
    (h : aget k (l.filter fun kv => p kv.1) = some v) : aget k l = some v ∧ p k = true := by
  rw [aget_filter_key] at h
  by_cases hp : p k = true
  · rw [if_pos hp] at h; exact ⟨h, hp⟩
  · rw [if_neg hp] at h; cases h

theorem inv_clear {s : State} (hI : Inv s) : Inv (clear s) := by
  have hfa : ∀ (a : AwgId) (g : Awg), s.awgs[a]? = some g → g.fault = 0 :=
    fun a g hg => hI.healthyA g (List.mem_of_getElem? hg)
  have hfd : ∀ (d : DacId) (g : Dac), s.dacs[d]? = some g → g.fault = 0 :=
    fun d g hg => hI.healthyD g (List.mem_of_getElem? hg)
  unfold clear clearWith
  refine ⟨?_, ?_, ?_, ?_, ?_, ?_, ?_, ?_,
    healthy_mapIdx Awg.fault (fun i x => by
      split
      · rfl
      · split <;> rfl) hI.healthyA,
    healthy_mapIdx Dac.fault (fun i x => by
      split
      · rfl
      · split <;> rfl) hI.healthyD⟩
  · intro c outs hc o ho
    have := hI.wfChan c outs hc o ho
    unfold inRange at this ⊢
    simp only [List.getElem?_mapIdx]
    cases hg : s.awgs[o.awg]? with
    | none => simp [hg] at this
    | some g =>
      rw [hg] at this
      simp only [Option.map_some, if_true]
      split <;> (cases hk : o.kind <;> simp_all [Awg.size])
  · intro μ ms hμ m hm
    have := hI.wfMeas μ ms hμ m hm
    simpa [knownMask] using this
  · intro n r h; simp at h
  · intro n r h; simp at h
  · intro a g' hg' n u hu
    obtain ⟨g, hg, e⟩ := mapIdx_get hg'
    exfalso
    by_cases hk : knownAwg s a = true
    · rw [if_pos hk] at e
      subst e
      simp at hu
    · rw [if_neg hk] at e
      simp only [if_true, hfa a g hg] at e
      subst e
      obtain ⟨hu', _⟩ := aget_of_filter_key (p := fun n => !recordedOnAwg s a n) hu
      obtain ⟨r, _, hp, _⟩ := hI.awgHeld a g hg n u hu'
      exact hk (knownAwg_of_participates hp)
  · intro a g' _ n r h; simp at h
  · intro d g' hg' n w hw
    obtain ⟨g, hg, e⟩ := mapIdx_get hg'
    exfalso
    by_cases hk : knownDac s d = true
    · rw [if_pos hk] at e
      subst e
      simp at hw
    · rw [if_neg hk] at e
      simp only [if_true, hfd d g hg] at e
      subst e
      obtain ⟨hw', _⟩ := aget_of_filter_key (p := fun n => !recordedOnDac s d n) hw
      obtain ⟨r, _, hp, _⟩ := hI.dacHeld d g hg n w hw'
      exact hk (knownDac_of_participates hp)
  · intro d g' _ n r h; simp at h

/-! ## wiring operations on names no registered program uses -/

theorem participates_agree {s s' : State} {chans : List Chan} {a : AwgId}
    (h : ∀ c ∈ chans, wired s'.chanMap c = wired s.chanMap c) :
    Participates s' chans a ↔ Participates s chans a := by
  unfold Participates
  constructor
  · rintro ⟨c, hc, o, ho, e⟩; exact ⟨c, hc, o, h c hc ▸ ho, e⟩
  · rintro ⟨c, hc, o, ho, e⟩; exact ⟨c, hc, o, (h c hc).symm ▸ ho, e⟩

theorem uploadOK_agree {s s' : State} {r : Reg} {a : AwgId} {g : Awg} {u : Upload}
    (h : ∀ c ∈ r.channels, wired s'.chanMap c = wired s.chanMap c) :
    UploadOK s' r a g u → UploadOK s r a g u := by
  rintro ⟨h1, h2, h3, h4, h5, h6⟩
  refine ⟨h1, h2, h3, h4, ?_, ?_⟩
  · intro p hp
    have := h5 p hp
    unfold PlaybackSlotOK at this ⊢
    cases hv : (u.chs[p]?).join with
    | none =>
      rw [hv] at this
      exact ⟨this.1, fun c hc o ho => this.2 c hc o ((h c hc).symm ▸ ho)⟩
    | some c =>
      rw [hv] at this
      obtain ⟨hc, o, ho, rest⟩ := this
      exact ⟨hc, o, h c hc ▸ ho, rest⟩
  · intro p hp
    have := h6 p hp
    unfold MarkerSlotOK at this ⊢
    cases hv : (u.mks[p]?).join with
    | none =>
      rw [hv] at this
      exact fun c hc o ho => this c hc o ((h c hc).symm ▸ ho)
    | some c =>
      rw [hv] at this
      obtain ⟨hc, o, ho, rest⟩ := this
      exact ⟨hc, o, h c hc ▸ ho, rest⟩

theorem inRange_awgs {s s' : State} (h : s'.awgs = s.awgs) (o : Out) : inRange s' o = inRange s o := by
  unfold inRange; rw [h]

theorem inv_rewire_chan (s s' : State) (hI : Inv s)
    (hmm : s'.measMap = s.measMap) (hreg : s'.registered = s.registered)
    (hawgs : s'.awgs = s.awgs) (hdacs : s'.dacs = s.dacs)
    (hw : ∀ n r, aget n s.registered = some r → ∀ c ∈ r.channels, wired s'.chanMap c = wired s.chanMap c)
    (hwf : ∀ c outs, aget c s'.chanMap = some outs → ∀ o ∈ outs, inRange s o = true) : Inv s' := by
  have hw' : ∀ n r, aget n s.registered = some r → ∀ c ∈ r.channels, wired s.chanMap c = wired s'.chanMap c :=
    fun n r h c hc => (hw n r h c hc).symm
  refine ⟨?_, ?_, ?_, ?_, ?_, ?_, ?_, ?_, by rw [hawgs]; exact hI.healthyA, by rw [hdacs]; exact hI.healthyD⟩
  · intro c outs hc o ho
    rw [inRange_awgs hawgs]; exact hwf c outs hc o ho
  · intro μ ms hμ m hm
    rw [hmm] at hμ
    have := hI.wfMeas μ ms hμ m hm
    simpa [knownMask, hdacs] using this
  · intro n r h
    rw [hreg] at h
    obtain ⟨h1, h2⟩ := hI.regAwgs n r h
    exact ⟨fun a ha => (participates_agree (hw n r h)).2 (h1 a ha),
           fun c hc o ho => h2 c hc o (hw n r h c hc ▸ ho)⟩
  · intro n r h
    rw [hreg] at h
    obtain ⟨h1, h2⟩ := hI.regDacs n r h
    exact ⟨fun d hd => (participatesD_congr hmm).2 (h1 d hd), by rw [hmm]; exact h2⟩
  · intro a g hg n u hu
    rw [hawgs] at hg
    obtain ⟨r, hr, hp, hu'⟩ := hI.awgHeld a g hg n u hu
    exact ⟨r, by rw [hreg, hr], (participates_agree (hw n r hr)).2 hp, uploadOK_agree (hw' n r hr) hu'⟩
  · intro a g hg n r hr hp
    rw [hawgs] at hg
    rw [hreg] at hr
    exact hI.awgHolds a g hg n r hr ((participates_agree (hw n r hr)).1 hp)
  · intro d g hg n w hw0
    rw [hdacs] at hg
    obtain ⟨r, hr, hp, hw'⟩ := hI.dacHeld d g hg n w hw0
    exact ⟨r, by rw [hreg, hr], (participatesD_congr hmm).2 hp, (masksOK_congr hmm).2 hw'⟩
  · intro d g hg n r hr hp
    rw [hdacs] at hg
    rw [hreg] at hr
    exact hI.dacHolds d g hg n r hr ((participatesD_congr hmm).1 hp)

theorem not_used_ne {s : State} {id : Chan} (h : chanUsed s id = false) {n : Name} {r : Reg}
    (hr : aget n s.registered = some r) {c : Chan} (hc : c ∈ r.channels) : c ≠ id := by
  intro e
  subst e
  have : chanUsed s c = true := by
    unfold chanUsed
    rw [List.any_eq_true]
    exact ⟨(n, r), aget_mem hr, by simpa using hc⟩
  rw [h] at this
  cases this

theorem wired_aput_ne {cm : List (Chan × List Out)} {id c : Chan} (h : c ≠ id) (outs : List Out) :
    wired (aput id outs cm) c = wired cm c := by
  unfold wired; rw [aget_aput_ne h]

theorem wired_adel_ne {cm : List (Chan × List Out)} {id c : Chan} (h : c ≠ id) :
    wired (adel id cm) c = wired cm c := by
  unfold wired; rw [aget_adel_ne h]

theorem inv_setChannelCore {s s' : State} {id : Chan} {outs : List Out} {allow junk : Bool} (hI : Inv s)
    (hu : chanUsed s id = false) (hv : ∀ o ∈ outs, inRange s o = true)
    (h : setChannelCore s id outs allow junk = .ok s') : Inv s' := by
  unfold setChannelCore at h
  split at h
  · cases h
  split at h
  · cases h
  injection h with h
  subst h
  refine inv_rewire_chan s _ hI rfl rfl rfl rfl ?_ ?_
  · intro n r hr c hc
    exact wired_aput_ne (not_used_ne hu hr hc) outs
  · intro c outs' hc o ho
    by_cases e : c = id
    · subst e
      simp only [aget_aput_self] at hc
      injection hc with hc; subst hc
      exact hv o ho
    · simp only [aget_aput_ne e] at hc
      exact hI.wfChan c outs' hc o ho

theorem inv_setChannel {s s' : State} {id : Chan} {specs : List OutSpec} {allow : Bool} (hI : Inv s)
    (hu : chanUsed s id = false) (h : setChannel s id specs allow = .ok s') : Inv s' := by
  unfold setChannel at h
  simp only at h
  split at h
  · cases h
  split at h
  · cases h
  rename_i _ hr
  refine inv_setChannelCore hI hu ?_ h
  intro o ho
  have := mem_dedup _ ho
  simp only [Bool.not_eq_true, Bool.not_eq_false', List.all_eq_true] at hr
  exact hr o this

theorem inv_setChannelSingle {s s' : State} {id : Chan} {o : Out} {allow : Bool} (hI : Inv s)
    (hu : chanUsed s id = false) (h : setChannelSingle s id o allow = .ok s') : Inv s' := by
  unfold setChannelSingle at h
  split at h
  · cases h
  split at h
  · cases h
  rename_i _ hr
  simp only [Bool.not_eq_true, Bool.not_eq_false'] at hr
  refine inv_setChannelCore hI hu ?_ h
  intro o' ho'
  cases hold : aget id s.chanMap with
  | none =>
    rw [hold] at ho'
    simp only [List.mem_singleton] at ho'
    subst ho'; exact hr
  | some old =>
    rw [hold] at ho'
    have := mem_dedup _ ho'
    rcases List.mem_append.1 this with h1 | h1
    · exact hI.wfChan id old hold o' h1
    · simp only [List.mem_singleton] at h1
      subst h1; exact hr

theorem inv_rmChannel {s s' : State} {id : Chan} (hI : Inv s)
    (hu : chanUsed s id = false) (h : rmChannel s id = .ok s') : Inv s' := by
  unfold rmChannel at h
  split at h
  · injection h with h
    subst h
    refine inv_rewire_chan s _ hI rfl rfl rfl rfl ?_ ?_
    · intro n r hr c hc
      exact wired_adel_ne (not_used_ne hu hr hc)
    · intro c outs' hc o ho
      by_cases e : c = id
      · subst e
        simp only [aget_adel_self] at hc
        cases hc
      · simp only [aget_adel_ne e] at hc
        exact hI.wfChan c outs' hc o ho
  · cases h


theorem participatesD_agree {s s' : State} {meas : List (MName × Windows)} {d : DacId}
    (h : ∀ x ∈ meas, wiredM s'.measMap x.1 = wiredM s.measMap x.1) :
    ParticipatesD s' meas d ↔ ParticipatesD s meas d := by
  unfold ParticipatesD
  constructor
  · rintro ⟨x, hx, m, hm, e⟩; exact ⟨x, hx, m, h x hx ▸ hm, e⟩
  · rintro ⟨x, hx, m, hm, e⟩; exact ⟨x, hx, m, (h x hx).symm ▸ hm, e⟩

theorem masksOK_agree {s s' : State} {r : Reg} {d : DacId} {w : List (Mask × Windows)}
    (h : ∀ x ∈ r.meas, wiredM s'.measMap x.1 = wiredM s.measMap x.1) :
    MasksOK s' r d w → MasksOK s r d w := by
  rintro ⟨h1, h2⟩
  constructor
  · intro mw hmw
    obtain ⟨x, hx, e, m, hm, rest⟩ := h1 mw hmw
    exact ⟨x, hx, e, m, h x hx ▸ hm, rest⟩
  · intro x hx m hm hd
    exact h2 x hx m ((h x hx).symm ▸ hm) hd

theorem inv_rewire_meas (s s' : State) (hI : Inv s)
    (hcm : s'.chanMap = s.chanMap) (hreg : s'.registered = s.registered)
    (hawgs : s'.awgs = s.awgs) (hdacs : s'.dacs = s.dacs)
    (hw : ∀ n r, aget n s.registered = some r → ∀ x ∈ r.meas, wiredM s'.measMap x.1 = wiredM s.measMap x.1)
    (hwf : ∀ μ ms, aget μ s'.measMap = some ms → ∀ m ∈ ms, knownMask s m = true) : Inv s' := by
  have hw' : ∀ n r, aget n s.registered = some r → ∀ x ∈ r.meas, wiredM s.measMap x.1 = wiredM s'.measMap x.1 :=
    fun n r h x hx => (hw n r h x hx).symm
  refine ⟨?_, ?_, ?_, ?_, ?_, ?_, ?_, ?_, by rw [hawgs]; exact hI.healthyA, by rw [hdacs]; exact hI.healthyD⟩
  · intro c outs hc o ho
    rw [hcm] at hc
    rw [inRange_awgs hawgs]; exact hI.wfChan c outs hc o ho
  · intro μ ms hμ m hm
    have := hwf μ ms hμ m hm
    simpa [knownMask, hdacs] using this
  · intro n r h
    rw [hreg] at h
    obtain ⟨h1, h2⟩ := hI.regAwgs n r h
    exact ⟨fun a ha => (participates_congr hcm).2 (h1 a ha), by rw [hcm]; exact h2⟩
  · intro n r h
    rw [hreg] at h
    obtain ⟨h1, h2⟩ := hI.regDacs n r h
    exact ⟨fun d hd => (participatesD_agree (hw n r h)).2 (h1 d hd),
           fun x hx m hm => h2 x hx m (hw n r h x hx ▸ hm)⟩
  · intro a g hg n u hu
    rw [hawgs] at hg
    obtain ⟨r, hr, hp, hu'⟩ := hI.awgHeld a g hg n u hu
    exact ⟨r, by rw [hreg, hr], (participates_congr hcm).2 hp, (uploadOK_congr hcm rfl rfl).2 hu'⟩
  · intro a g hg n r hr hp
    rw [hawgs] at hg
    rw [hreg] at hr
    exact hI.awgHolds a g hg n r hr ((participates_congr hcm).1 hp)
  · intro d g hg n w hw0
    rw [hdacs] at hg
    obtain ⟨r, hr, hp, hw1⟩ := hI.dacHeld d g hg n w hw0
    exact ⟨r, by rw [hreg, hr], (participatesD_agree (hw n r hr)).2 hp, masksOK_agree (hw' n r hr) hw1⟩
  · intro d g hg n r hr hp
    rw [hdacs] at hg
    rw [hreg] at hr
    exact hI.dacHolds d g hg n r hr ((participatesD_agree (hw n r hr)).1 hp)

theorem not_usedM_ne {s : State} {μ : MName} (h : measUsed s μ = false) {n : Name} {r : Reg}
    (hr : aget n s.registered = some r) {x : MName × Windows} (hx : x ∈ r.meas) : x.1 ≠ μ := by
  intro e
  have : measUsed s μ = true := by
    unfold measUsed
    rw [List.any_eq_true]
    refine ⟨(n, r), aget_mem hr, ?_⟩
    rw [List.any_eq_true]
    exact ⟨x, hx, by simpa using e⟩
  rw [h] at this
  cases this

theorem wiredM_aput_ne {mm : List (MName × List MaskRef)} {μ c : MName} (h : c ≠ μ) (ms : List MaskRef) :
    wiredM (aput μ ms mm) c = wiredM mm c := by
  unfold wiredM; rw [aget_aput_ne h]

theorem inv_setMeasurementCore {s s' : State} {μ : MName} {masks : List MaskRef} {allow : Bool} (hI : Inv s)
    (hu : measUsed s μ = false) (hv : ∀ m ∈ masks, knownMask s m = true)
    (h : setMeasurementCore s μ masks allow = .ok s') : Inv s' := by
  unfold setMeasurementCore at h
  split at h
  · cases h
  injection h with h
  subst h
  refine inv_rewire_meas s _ hI rfl rfl rfl rfl ?_ ?_
  · intro n r hr x hx
    exact wiredM_aput_ne (not_usedM_ne hu hr hx) masks
  · intro c ms hc m hm
    by_cases e : c = μ
    · subst e
      simp only [aget_aput_self] at hc
      injection hc with hc; subst hc
      exact hv m hm
    · simp only [aget_aput_ne e] at hc
      exact hI.wfMeas c ms hc m hm

theorem inv_setMeasurement {s s' : State} {μ : MName} {masks : List MaskRef} {allow : Bool} (hI : Inv s)
    (hu : measUsed s μ = false) (h : setMeasurement s μ masks allow = .ok s') : Inv s' := by
  unfold setMeasurement at h
  split at h
  · cases h
  rename_i hr
  refine inv_setMeasurementCore hI hu ?_ h
  intro m hm
  have := mem_dedup _ hm
  simp only [Bool.not_eq_true, Bool.not_eq_false', List.all_eq_true] at hr
  exact hr m this

theorem inv_setMeasurementSingle {s s' : State} {μ : MName} {m : MaskRef} {allow : Bool} (hI : Inv s)
    (hu : measUsed s μ = false) (h : setMeasurementSingle s μ m allow = .ok s') : Inv s' := by
  unfold setMeasurementSingle at h
  split at h
  · cases h
  rename_i hr
  simp only [Bool.not_eq_true, Bool.not_eq_false'] at hr
  refine inv_setMeasurementCore hI hu ?_ h
  intro m' hm'
  cases hold : aget μ s.measMap with
  | none =>
    rw [hold] at hm'
    simp only [List.mem_singleton] at hm'
    subst hm'; exact hr
  | some old =>
    rw [hold] at hm'
    have := mem_dedup _ hm'
    rcases List.mem_append.1 this with h1 | h1
    · exact hI.wfMeas μ old hold m' h1
    · simp only [List.mem_singleton] at h1
      subst h1; exact hr


theorem join_some {α : Type} {l : List (Option α)} {p : Nat} {c : α} (h : (l[p]?).join = some c) :
    l[p]? = some (some c) := by
  cases hl : l[p]? with
  | none => rw [hl] at h; cases h
  | some v => rw [hl] at h; cases v <;> simp_all [Option.join]


/-- realise the equation lemmas of `runWith` in this module -/
theorem runWith_nil (fix : Bool) (s : State) : runWith fix s [] = .ok s := by simp only [runWith]
theorem runWith_cons_ok (fix : Bool) (s s1 : State) (op : Op) (ops : List Op) (h : stepWith fix s op = .ok s1) :
    runWith fix s (op :: ops) = runWith fix s1 ops := by simp only [runWith, h]

end QP.C18
