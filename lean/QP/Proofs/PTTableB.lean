import QP.Model.PT
import QP.Proofs.PTBuild
/-! The table pulse template: every channel's `from_table` waveform plays the piecewise linear function of its
entries; channels are assembled by `MultiChannelWaveform.from_parallel`. -/
namespace QP.PT

/-- one channel waveform against one denoted channel -/
def ChanRel (w : Wf) (cp : Chan × PL) : Prop :=
  LeafWf w ∧ w.channels = [cp.1] ∧ PL.dur cp.2 = w.duration ∧ cp.2.pos ∧
    ∀ t, 0 ≤ t → t < w.duration → w.sample cp.1 t = PL.at cp.2 t

theorem tablePL_facts {es : List WEntry} {pl : PL} (h : tablePL es = .ok pl) :
    ∃ e rest, es = e :: rest ∧ e.t = 0 ∧ sortedTimes es = true ∧ lastT es ≠ 0 ∧ pl = entriesToPL es := by
  unfold tablePL at h
  cases es with
  | nil => simp at h
  | cons e rest =>
    cases rest with
    | nil => simp at h
    | cons e2 r =>
      simp only at h
      by_cases h0 : e.t ≠ 0
      · simp [h0] at h
      · simp only [h0, if_false] at h
        rcases Bool.eq_false_or_eq_true (sortedTimes (e :: e2 :: r)) with hs | hs
        · simp only [hs, Bool.not_true, Bool.false_eq_true, if_false] at h
          by_cases hl : lastT (e :: e2 :: r) = 0
          · simp [hl] at h
          · simp only [hl, if_false, Except.ok.injEq] at h
            exact ⟨e, e2 :: r, rfl, by simpa using h0, hs, hl, h.symm⟩
        · simp [hs] at h

theorem const_at (c : Rat) : ∀ (pl : PL) (t : Rat), (∀ s ∈ pl, s.v0 = c ∧ s.v1 = c) → pl.pos → 0 ≤ t → t < PL.dur pl →
    PL.at pl t = some c := by
  intro pl
  induction pl with
  | nil => intro t _ _ h0 h; simp [PL.dur] at h; linarith
  | cons s r ih =>
    intro t hc hp h0 h
    simp only [PL.at]
    by_cases hs : t < s.len
    · have := hc s (by simp)
      simp [hs, Seg.valueAt, this.1, this.2]
    · simp only [hs, if_false]
      apply ih
      · exact fun x hx => hc x (by simp [hx])
      · exact fun x hx => hp x (by simp [hx])
      · linarith
      · simp only [PL.dur] at h; linarith

theorem lastT_append_single : ∀ (out : List WEntry) (cur : WEntry), lastT (out ++ [cur]) = cur.t := by
  intro out
  induction out with
  | nil => intro cur; simp [lastT]
  | cons o os ih =>
    intro cur
    cases os with
    | nil => simp [lastT]
    | cons o2 os2 => simpa [lastT] using ih cur

/-- **one channel of a table**: `from_table` (validation, de-duplication, constant detection) against the
piecewise linear function of the entries -/
theorem table_channel (ch : Chan) (es : List WEntry) (w : Wf) (pl : PL)
    (hw : fromTable ch es = .ok w) (hp : tablePL es = .ok pl) : ChanRel w (ch, pl) ∧ w.duration = lastT es := by
  obtain ⟨e, rest, hes, he0, hsort, hlast, rfl⟩ := tablePL_facts hp
  have hdur : PL.dur (entriesToPL es) = lastT es := by
    rw [hes, entriesToPL_dur rest e (by rw [← hes]; exact hsort), he0]; simp
  have hpos := entriesToPL_pos es
  have hlastpos : 0 < lastT es := by
    have := sorted_head_le_last rest e (by rw [← hes]; exact hsort)
    rw [← hes, he0] at this
    exact lt_of_le_of_ne this (Ne.symm hlast)
  unfold fromTable at hw
  subst hes
  simp only at hw
  have hf : ¬ e.t ≠ 0 := by simp [he0]
  simp only [hf, if_false] at hw
  cases rest with
  | nil => simp at hw
  | cons second rest' =>
    simp only at hw
    have hsec : 0 ≤ second.t := by
      rw [sortedTimes_cons] at hsort; rw [← he0]; exact hsort.1
    have hs : ¬ second.t < 0 := not_lt.mpr hsec
    simp only [hs, if_false] at hw
    have hfirst : ({ e with t := 0 } : WEntry) = e := by cases e; simp_all
    rw [hfirst] at hw
    cases hv : validateLoop rest' 0 e.v second (interpConst second.interp e.v second.v) [e] with
    | error err => simp [hv] at hw
    | ok r =>
      obtain ⟨cur, cv, out⟩ := r
      simp only [hv] at hw
      have hl := validateLoop_last rest' _ _ second _ _ cur _ out hv
      have hcurt : cur.t = lastT (e :: second :: rest') := by simpa [lastT] using hl
      by_cases hz : cur.t = 0
      · simp [hz] at hw
      · simp only [hz, if_false] at hw
        cases cv with
        | some c0 =>
          simp only [Except.ok.injEq] at hw
          subst hw
          obtain ⟨h1, h2⟩ := validateLoop_const c0 rest' _ _ second _ _ cur out hv
          have hall := entriesToPL_const c0 (e :: second :: rest') ⟨h1, h2⟩
          refine ⟨⟨LeafWf.const _ _ _, by simp [Wf.channels], by simp [Wf.duration, hdur, hcurt], hpos, ?_⟩,
            by simp [Wf.duration, hcurt]⟩
          intro t ht0 ht
          simp only [Wf.duration] at ht
          simp only [Wf.sample]
          rw [const_at c0 _ t hall hpos ht0 (by rw [hdur, ← hcurt]; exact ht)]
        | none =>
          simp only [Except.ok.injEq] at hw
          subst hw
          have hd : Wf.duration (.table ch (out ++ [cur])) = cur.t := by
            simp only [Wf.duration, lastT_append_single]
          refine ⟨⟨LeafWf.table _ _, by simp [Wf.channels], by rw [hd, hdur, hcurt], hpos, ?_⟩, by rw [hd, hcurt]⟩
          intro t ht0 ht
          rw [hd, hcurt] at ht
          simp only [Wf.sample]
          have hne : t ≠ lastT (second :: rest') := by
            have : lastT (e :: second :: rest') = lastT (second :: rest') := by simp [lastT]
            rw [← this]; exact ne_of_lt ht
          have hsound := validateLoop_sound t rest' e second _ [] cur none out
            (by simpa [he0] using hv) (by rw [he0]; exact hsec) hne none
          simp only [List.nil_append] at hsound
          rw [← hsound]
          have := tableSample_eq_at t (second :: rest') e none hsort (by rw [he0]; exact ht0) ht
          rw [this, he0]; simp

/-- sampling a `MultiChannelWaveform` of channel waveforms -/
theorem sampleMulti_chanRel : ∀ (wfs : List Wf) (chans : List (Chan × PL)), List.Forall₂ ChanRel wfs chans →
    ∀ c pl, chans.lookup c = some pl → ∃ w ∈ wfs, ChanRel w (c, pl) ∧ ∀ t, Wf.sampleMulti wfs c t = w.sample c t := by
  intro wfs chans h
  induction h with
  | nil => intro c pl hl; simp at hl
  | @cons w cp ws cps hr _ ih =>
    intro c pl hl
    obtain ⟨k, p⟩ := cp
    simp only [List.lookup_cons] at hl
    by_cases hk : c == k
    · simp only [hk, Option.some.injEq] at hl
      subst hl
      have hck : c = k := by simpa using hk
      subst hck
      refine ⟨w, by simp, hr, ?_⟩
      intro t
      simp [Wf.sampleMulti, hr.2.1]
    · simp only [hk] at hl
      obtain ⟨w', hw', hr', hs⟩ := ih c pl hl
      refine ⟨w', by simp [hw'], hr', ?_⟩
      intro t
      have : ¬ c = k := by simpa using hk
      simp [Wf.sampleMulti, hr.2.1, this, hs t]

theorem channelsAll_chanRel : ∀ (wfs : List Wf) (chans : List (Chan × PL)), List.Forall₂ ChanRel wfs chans →
    Wf.channelsAll wfs = chans.map (·.1) := by
  intro wfs chans h
  induction h with
  | nil => simp [Wf.channelsAll]
  | @cons w cp ws cps hr _ ih => simp [Wf.channelsAll, hr.2.1, ih]

theorem flatMap_id_on (f : Wf → List Wf) : ∀ (wfs : List Wf), (∀ w ∈ wfs, f w = [w]) → wfs.flatMap f = wfs := by
  intro wfs
  induction wfs with
  | nil => intro _; rfl
  | cons w ws ih =>
    intro h
    simp only [List.flatMap_cons]
    rw [ih (fun x hx => h x (by simp [hx])), h w (by simp)]
    rfl

theorem fromParallel_leaves (w0 w1 : Wf) (rest : List Wf) (h : ∀ x ∈ w0 :: w1 :: rest, LeafWf x) :
    fromParallel (w0 :: w1 :: rest) = mkMulti (w0 :: w1 :: rest) := by
  simp only [fromParallel]
  congr 1
  apply flatMap_id_on
  intro w hw
  cases h w hw <;> rfl

theorem chanRel_leaf : ∀ (wfs : List Wf) (chans : List (Chan × PL)), List.Forall₂ ChanRel wfs chans →
    ∀ x ∈ wfs, LeafWf x := by
  intro wfs chans h
  induction h with
  | nil => intro x hx; simp at hx
  | @cons w cp ws cps hr _ ih =>
    intro x hx
    rcases List.mem_cons.mp hx with rfl | hx
    · exact hr.1
    · exact ih x hx

/-- **assembling channels**: `from_parallel` of channel waveforms plays the pulse made of the denoted channels -/
theorem parallel_rel (wfs : List Wf) (chans : List (Chan × PL)) (h : List.Forall₂ ChanRel wfs chans)
    (w : Wf) (hw : fromParallel wfs = .ok w) (hdup : hasDup (chans.map (·.1)) = false) (ms : List Window) :
    WfRel w { dur := w.duration, chans := chans, windows := ms } ∧ FlatWf w ∧
      ∀ x ∈ wfs, x.duration = w.duration := by
  have hleaf := chanRel_leaf wfs chans h
  have hkeys := channelsAll_chanRel wfs chans h
  have hgen : (∀ x ∈ wfs, x.duration = w.duration) → (w.channels = chans.map (·.1)) →
      (∀ c pl, chans.lookup c = some pl → ∀ t, w.sample c t = Wf.sampleMulti wfs c t) → chans ≠ [] →
      WfRel w { dur := w.duration, chans := chans, windows := ms } := by
    intro hall hch hs hne
    refine ⟨rfl, hne, by simpa [Pulse.chanNames] using hch, ?_, ?_, ?_⟩
    · intro c pl hl
      obtain ⟨w', hw', hr, _⟩ := sampleMulti_chanRel wfs chans h c pl hl
      simp only
      rw [hr.2.2.1, hall w' hw']
    · intro c pl hl
      obtain ⟨w', _, hr, _⟩ := sampleMulti_chanRel wfs chans h c pl hl
      exact hr.2.2.2.1
    · intro c pl hl t ht0 ht
      obtain ⟨w', hw', hr, hsm⟩ := sampleMulti_chanRel wfs chans h c pl hl
      rw [hs c pl hl t, hsm t]
      simp only at ht
      exact hr.2.2.2.2 t ht0 (by rw [hall w' hw']; exact ht)
  have hne : wfs ≠ [] → chans ≠ [] := by
    intro h0 h1; subst h1; cases h; exact h0 rfl
  match wfs, hw, hleaf, hkeys, hgen, hne with
  | [], hw, _, _, _, _ => simp [fromParallel] at hw
  | [w0], hw, hleaf, hkeys, hgen, hne =>
    simp only [fromParallel, Except.ok.injEq] at hw
    subst hw
    have hall : ∀ x ∈ [w0], x.duration = w0.duration := by intro x hx; simp at hx; rw [hx]
    have hch : w0.channels = chans.map (·.1) := by
      rw [← hkeys]; simp [Wf.channelsAll]
    have hs : ∀ c pl, chans.lookup c = some pl → ∀ t, w0.sample c t = Wf.sampleMulti [w0] c t := by
      intro c pl hl t
      have hmem : c ∈ w0.channels := by rw [hch]; exact mem_keys_of_lookup _ _ _ hl
      simp [Wf.sampleMulti, hmem]
    exact ⟨hgen hall hch hs (hne (by simp)), FlatWf.leaf (hleaf w0 (by simp)), hall⟩
  | w0 :: w1 :: rest, hw, hleaf, hkeys, hgen, hne =>
    rw [fromParallel_leaves w0 w1 rest hleaf] at hw
    unfold mkMulti at hw
    simp only at hw
    rw [hkeys, hdup] at hw
    simp only [Bool.false_eq_true, if_false] at hw
    by_cases hd : (w1 :: rest).all (fun x => x.duration == w0.duration) = true
    · simp only [hd, if_true, Except.ok.injEq] at hw
      subst hw
      have hall : ∀ x ∈ w0 :: w1 :: rest, x.duration = Wf.duration (.multi (w0 :: w1 :: rest)) := by
        intro x hx
        simp only [Wf.duration, Wf.firstDuration]
        rcases List.mem_cons.mp hx with rfl | hx
        · rfl
        · have := List.all_eq_true.mp hd x hx
          simpa using this
      have hch : Wf.channels (.multi (w0 :: w1 :: rest)) = chans.map (·.1) := by
        rw [← hkeys]; simp [Wf.channels]
      have hs : ∀ c pl, chans.lookup c = some pl → ∀ t,
          Wf.sample (.multi (w0 :: w1 :: rest)) c t = Wf.sampleMulti (w0 :: w1 :: rest) c t := by
        intro c pl _ t; simp [Wf.sample]
      exact ⟨hgen hall hch hs (hne (by simp)), FlatWf.multi hleaf, hall⟩
    · simp [hd] at hw

theorem mapM_forall2 {α β γ : Type} (f : α → Except Err β) (g : α → Except Err γ) (R : β → γ → Prop) :
    ∀ (l : List α) (bs : List β) (cs : List γ), l.mapM f = .ok bs → l.mapM g = .ok cs →
      (∀ x ∈ l, ∀ b c, f x = .ok b → g x = .ok c → R b c) → List.Forall₂ R bs cs := by
  intro l
  induction l with
  | nil =>
    intro bs cs h1 h2 _
    simp only [List.mapM_nil, pure_ok] at h1 h2
    subst h1; subst h2
    exact List.Forall₂.nil
  | cons x xs ih =>
    intro bs cs h1 h2 hR
    simp only [List.mapM_cons, bind_ok, pure_ok] at h1 h2
    obtain ⟨b, hb, bs', hbs, rfl⟩ := h1
    obtain ⟨c, hc, cs', hcs, rfl⟩ := h2
    exact List.Forall₂.cons (hR x (by simp) b c hb hc) (ih bs' cs' hbs hcs (fun y hy => hR y (by simp [hy])))

theorem buildOK_table (id : Option String) (entries : List (Chan × List TEntry)) (meas : List MeasDecl)
    (cons : List Expr) : BuildOK (.table id entries meas cons) := by
  intro σ mm cm w? P h1 h2
  simp only [buildWaveform, bind_ok] at h1
  obtain ⟨_, _, inst, hinst, mapped, hmapped, h1⟩ := h1
  simp only [denote, bind_ok] at h2
  obtain ⟨_, _, inst', hinst', mapped', hmapped', h2⟩ := h2
  rw [hinst] at hinst'; cases hinst'
  rw [hmapped] at hmapped'; cases hmapped'
  rcases Bool.eq_false_or_eq_true mapped.isEmpty with hemp | hemp
  · simp only [hemp, if_true, pure_ok] at h1 h2
    subst h1; subst h2
    rfl
  · simp only [hemp, Bool.false_eq_true, if_false, bind_ok, pure_ok] at h1 h2
    obtain ⟨wfs, hwfs, w, hw, rfl⟩ := h1
    obtain ⟨chans, hchans, h2⟩ := h2
    rcases Bool.eq_false_or_eq_true (hasDup (chans.map (·.1))) with hdup | hdup
    · simp [hdup] at h2
    · simp only [hdup, Bool.false_eq_true, if_false, bind_ok, pure_ok] at h2
      obtain ⟨ms, hms, rfl⟩ := h2
      have hforall : List.Forall₂ (fun w cp => ChanRel w cp ∧ True) wfs chans := by
        refine mapM_forall2 _ _ _ mapped wfs chans hwfs hchans ?_
        intro x _ b c hb hc
        obtain ⟨ch, ws⟩ := x
        simp only [bind_ok, pure_ok] at hc
        obtain ⟨pl, hpl, rfl⟩ := hc
        exact ⟨(table_channel ch ws b pl hb hpl).1, trivial⟩
      have hforall' : List.Forall₂ ChanRel wfs chans := by
        refine List.Forall₂.imp ?_ hforall
        intro a b h; exact h.1
      obtain ⟨hrel, hflat, hall⟩ := parallel_rel wfs chans hforall' w hw hdup ms
      -- the duration the denotation reports is the first channel's last time
      obtain ⟨x, xs, hm⟩ : ∃ x xs, mapped = x :: xs := by
        cases mapped with
        | nil => simp at hemp
        | cons x xs => exact ⟨x, xs, rfl⟩
      subst hm
      obtain ⟨ch, ws⟩ := x
      have hdur : lastT ws = w.duration := by
        simp only [List.mapM_cons, bind_ok, pure_ok] at hwfs hchans
        obtain ⟨w0, hw0, ws', _, rfl⟩ := hwfs
        obtain ⟨c0, hc0, cs', _, _⟩ := hchans
        obtain ⟨pl, hpl, _⟩ := hc0
        rw [← hall w0 (by simp), (table_channel ch ws w0 pl hw0 hpl).2]
      dsimp only
      rw [hdur]
      refine BuildOK.of_rel ⟨hrel, Or.inr hflat, ?_⟩
      intro ms' hms'
      rw [hms] at hms'
      cases hms'
      rfl

end QP.PT
