import QP.Proofs.C03Leaf
/-!
# C03 helper lemmas, part 5: `build_waveform` of the four leaf template classes
-/
namespace QP.C03
open QP QP.PT
variable {E : Err → Prop}

theorem bw_const_avoid (hS : SubSc E) {N : List String} {σ : Scope} (hG : Good E N σ) (id dur amps meas cm)
    (h : ∀ x ∈ parameterNames (.const id dur amps meas), x ∈ N) :
    Avoid E (buildWaveform (.const id dur amps meas) σ cm) := by
  rw [buildWaveform]
  have hd : Avoid E (σ.eval dur) := hG.eval hS (fun x hx => h x (by simp [parameterNames, hx]))
  have ha : ∀ ce ∈ amps, Avoid E (σ.eval ce.2) := fun ce hce =>
    hG.eval hS (fun x hx => h x (by simp only [parameterNames, List.mem_append]; exact Or.inl (Or.inl (kvVars_mem (k := ce.1) hce hx))))
  avoid_auto
  exact ha _ ‹_›

theorem bw_const_congr {N : List String} {σ σ' : Scope} (hR : Rel N σ σ') (id dur amps meas cm)
    (h : ∀ x ∈ parameterNames (.const id dur amps meas), x ∈ N) :
    buildWaveform (.const id dur amps meas) σ cm = buildWaveform (.const id dur amps meas) σ' cm := by
  rw [buildWaveform, buildWaveform]
  have hd : σ.eval dur = σ'.eval dur := hR.eval (fun x hx => h x (by simp [parameterNames, hx]))
  have ha : ∀ ce ∈ amps, σ.eval ce.2 = σ'.eval ce.2 := fun ce hce =>
    hR.eval (fun x hx => h x (by simp only [parameterNames, List.mem_append]; exact Or.inl (Or.inl (kvVars_mem (k := ce.1) hce hx))))
  congr_auto
  exact ha _ ‹_›

theorem bw_table_avoid (hS : SubSc E) {N : List String} {σ : Scope} (hG : Good E N σ) (id entries meas cons cm)
    (hcv : cons = [] ∨ ¬ E .constraintViolation)
    (h : ∀ x ∈ parameterNames (.table id entries meas cons), x ∈ N) :
    Avoid E (buildWaveform (.table id entries meas cons) σ cm) := by
  rw [buildWaveform]
  have hc : Avoid E (validateCons cons σ.look) :=
    avoid_validateCons hS hcv (fun x hx => hG.look x (h x (by simp [parameterNames, hx])))
  have ht : Avoid E (tableInstantiate σ entries) :=
    avoid_tableInstantiate hS hG (fun x hx => h x (by simp [parameterNames, hx]))
  avoid_auto

theorem bw_table_congr {N : List String} {σ σ' : Scope} (hR : Rel N σ σ') (id entries meas cons cm)
    (h : ∀ x ∈ parameterNames (.table id entries meas cons), x ∈ N) :
    buildWaveform (.table id entries meas cons) σ cm = buildWaveform (.table id entries meas cons) σ' cm := by
  rw [buildWaveform, buildWaveform]
  have hc : validateCons cons σ.look = validateCons cons σ'.look :=
    validateCons_congr (fun x hx => hR.look x (h x (by simp [parameterNames, hx])))
  have ht : tableInstantiate σ entries = tableInstantiate σ' entries :=
    tableInstantiate_congr hR (fun x hx => h x (by simp [parameterNames, hx]))
  rw [hc, ht]

theorem pentry_t_mem {entries : List PEntry} {e : PEntry} (he : e ∈ entries) {x : String} (hx : x ∈ e.t.vars) :
    x ∈ pentryVars entries := List.mem_flatMap.mpr ⟨e, he, by simp [hx]⟩

theorem pentry_v_mem {entries : List PEntry} {e : PEntry} (he : e ∈ entries) {v : Expr} (hv : v ∈ e.vs) {x : String}
    (hx : x ∈ v.vars) : x ∈ pentryVars entries :=
  List.mem_flatMap.mpr ⟨e, he, by simp only [List.mem_append]; exact Or.inr (List.mem_flatMap.mpr ⟨v, hv, hx⟩)⟩

theorem bw_point_avoid (hS : SubSc E) {N : List String} {σ : Scope} (hG : Good E N σ) (id chans entries meas cons cm)
    (hcv : cons = [] ∨ ¬ E .constraintViolation)
    (h : ∀ x ∈ parameterNames (.point id chans entries meas cons), x ∈ N) :
    Avoid E (buildWaveform (.point id chans entries meas cons) σ cm) := by
  rw [buildWaveform]
  have hc : Avoid E (validateCons cons σ.look) :=
    avoid_validateCons hS hcv (fun x hx => hG.look x (h x (by simp [parameterNames, hx])))
  have het : ∀ e ∈ entries, Avoid E (σ.eval e.t) := fun e he =>
    hG.eval hS (fun x hx => h x (by simp only [parameterNames, List.mem_append]; exact Or.inl (Or.inl (pentry_t_mem he hx))))
  have hev : ∀ e ∈ entries, ∀ v ∈ e.vs, Avoid E (σ.eval v) := fun e he v hv =>
    hG.eval hS (fun x hx => h x (by simp only [parameterNames, List.mem_append]; exact Or.inl (Or.inl (pentry_v_mem he hv hx))))
  have hlast : ∀ e, entries.getLast? = some e → Avoid E (σ.eval e.t) := fun e he =>
    het e (List.mem_of_getLast? he)
  avoid_auto
  all_goals first | exact hlast _ ‹_› | exact het _ ‹_› | exact hev _ ‹_› _ ‹_›

theorem bw_point_congr {N : List String} {σ σ' : Scope} (hR : Rel N σ σ') (id chans entries meas cons cm)
    (h : ∀ x ∈ parameterNames (.point id chans entries meas cons), x ∈ N) :
    buildWaveform (.point id chans entries meas cons) σ cm = buildWaveform (.point id chans entries meas cons) σ' cm := by
  rw [buildWaveform, buildWaveform]
  have hc : validateCons cons σ.look = validateCons cons σ'.look :=
    validateCons_congr (fun x hx => hR.look x (h x (by simp [parameterNames, hx])))
  have het : ∀ e ∈ entries, σ.eval e.t = σ'.eval e.t := fun e he =>
    hR.eval (fun x hx => h x (by simp only [parameterNames, List.mem_append]; exact Or.inl (Or.inl (pentry_t_mem he hx))))
  have hev : ∀ e ∈ entries, ∀ v ∈ e.vs, σ.eval v = σ'.eval v := fun e he v hv =>
    hR.eval (fun x hx => h x (by simp only [parameterNames, List.mem_append]; exact Or.inl (Or.inl (pentry_v_mem he hv hx))))
  have hlast : ∀ e, entries.getLast? = some e → σ.eval e.t = σ'.eval e.t := fun e he =>
    het e (List.mem_of_getLast? he)
  rw [hc]
  congr_auto
  all_goals first | exact hlast _ ‹_› | exact het _ ‹_› | exact hev _ ‹_› _ ‹_›

theorem mem_dedup {xs : List String} {x : String} : x ∈ dedup xs ↔ x ∈ xs := by
  unfold dedup
  have gen : ∀ (ys acc : List String), x ∈ ys.foldl (fun acc x => if acc.contains x then acc else acc ++ [x]) acc ↔
      x ∈ acc ∨ x ∈ ys := by
    intro ys
    induction ys with
    | nil => intro acc; simp
    | cons y ys ih =>
      intro acc
      simp only [List.foldl_cons, ih]
      by_cases hc : acc.contains y = true
      · have hy : y ∈ acc := by simpa using hc
        rw [if_pos hc]
        simp only [List.mem_cons]
        constructor
        · rintro (h | h)
          · exact Or.inl h
          · exact Or.inr (Or.inr h)
        · rintro (h | h | h)
          · exact Or.inl h
          · exact Or.inl (h ▸ hy)
          · exact Or.inr h
      · rw [if_neg hc]
        simp only [List.mem_append, List.mem_cons, List.not_mem_nil, or_false]
        exact or_assoc
  simpa using gen xs []

theorem func_env_mem {dur e : Expr} {x : String} (hx : x ∈ dedup (e.vars.filter (· ≠ "t"))) :
    x ∈ noT (dur.vars ++ e.vars) := by
  have := mem_dedup.mp hx
  simp only [List.mem_filter] at this
  simp only [noT, List.mem_filter, List.mem_append]
  exact ⟨Or.inr this.1, this.2⟩

theorem bw_func_avoid' (hE : EClass E) {N : List String} {σ : Scope} (hG : Good E N σ) (id ch dur e meas cons cm)
    (hcv : cons = [] ∨ ¬ E .constraintViolation)
    (hdN : ∀ x ∈ dur.vars, x ∈ N) (heN : ∀ x ∈ e.vars, x ≠ "t" → x ∈ N) (hcN : ∀ x ∈ consVars cons, x ∈ N) :
    Avoid E (buildWaveform (.func id ch dur e meas cons) σ cm) := by
  have hS : SubSc E := hE.sub
  rw [buildWaveform]
  have hc : Avoid E (validateCons cons σ.look) :=
    avoid_validateCons hS hcv (fun x hx => hG.look x (hcN x hx))
  have hf : Avoid E σ.forceAll := hG.forceAll
  have hd : Avoid E (σ.eval dur) := hG.eval hS hdN
  have hl : ∀ x ∈ dedup (e.vars.filter (· ≠ "t")), Avoid E (σ.look x) := fun x hx => by
    have := mem_dedup.mp hx
    simp only [List.mem_filter, decide_eq_true_eq] at this
    exact hG.look x (heN x this.1 this.2)
  have hev : ∀ (env : List (String × Rat)), Avoid E (e.eval (fun x => match env.lookup x with
      | some v => .ok v | none => .error .valueError)) := by
    intro env
    apply avoid_eval hS
    intro x _
    split
    · exact avoid_ok _
    · exact avoid_error (subSc_not hS notSc_valueError)
  avoid_auto
  · rename_i heq
    exact avoid_iff.mpr (fun e' he' => by cases he'; exact avoid_iff.mp (hl _ ‹_›) _ heq)
  · rename_i heq
    exact avoid_iff.mpr (fun e' he' => by cases he'; exact avoid_iff.mp (hev _) _ heq)

theorem bw_func_avoid (hE : EClass E) {N : List String} {σ : Scope} (hG : Good E N σ) (id ch dur e meas cons cm)
    (hcv : cons = [] ∨ ¬ E .constraintViolation) (ht : "t" ∉ dur.vars)
    (h : ∀ x ∈ parameterNames (.func id ch dur e meas cons), x ∈ N) :
    Avoid E (buildWaveform (.func id ch dur e meas cons) σ cm) :=
  bw_func_avoid' hE hG id ch dur e meas cons cm hcv
    (fun x hx => h x (by
      have : x ≠ "t" := fun hxt => ht (hxt ▸ hx)
      simp [parameterNames, noT, hx, this]))
    (fun x hx hne => h x (by simp [parameterNames, noT, hx, hne]))
    (fun x hx => h x (by simp [parameterNames, hx]))

theorem bw_func_congr {N : List String} {σ σ' : Scope} (hR : Rel N σ σ') (id ch dur e meas cons cm)
    (ht : "t" ∉ dur.vars)
    (h : ∀ x ∈ parameterNames (.func id ch dur e meas cons), x ∈ N) :
    buildWaveform (.func id ch dur e meas cons) σ cm = buildWaveform (.func id ch dur e meas cons) σ' cm := by
  rw [buildWaveform, buildWaveform]
  have hc : validateCons cons σ.look = validateCons cons σ'.look :=
    validateCons_congr (fun x hx => hR.look x (h x (by simp [parameterNames, hx])))
  have hf : σ.forceAll = σ'.forceAll := hR.forceAll
  have hd : σ.eval dur = σ'.eval dur := hR.eval (fun x hx => h x (by
    have : x ≠ "t" := fun hxt => ht (hxt ▸ hx)
    simp [parameterNames, noT, hx, this]))
  have hl : ∀ x ∈ dedup (e.vars.filter (· ≠ "t")), σ.look x = σ'.look x := fun x hx =>
    hR.look x (h x (by simp only [parameterNames, List.mem_append]; exact Or.inl (Or.inl (func_env_mem hx))))
  rw [hc, hf, hd]
  refine bind_congr' rfl (fun _ _ => bind_congr' rfl (fun o _ => ?_))
  split
  · rfl
  · refine bind_congr' rfl (fun _ _ => bind_congr' rfl (fun d _ => bind_congr' ?_ (fun _ _ => rfl)))
    apply mapM_congr'
    intro x hx
    rw [hl x hx]

end QP.C03
