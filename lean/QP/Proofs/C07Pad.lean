import QP.Proofs.C07Main
/-!
# C07: `pad_to` appends a constant piece that holds `final_values`; the top level channel mapping
-/
namespace QP.C07
open QP.PT

/-- the list of `(channel, literal final value)` pairs `pad_to` gives to the constant template -/
theorem padValues_spec {pt : PT} {σ : Scope} :
    ∀ (cs : List Chan) (fv : List (Chan × Expr)),
    cs.mapM (fun c => do let v ← finalOf pt σ c; pure (c, Expr.lit v)) = .ok fv →
    fv.map (·.1) = cs ∧ ∀ c v, finalOf pt σ c = .ok v → ∀ e, (c, e) ∈ fv → e = Expr.lit v := by
  intro cs
  induction cs with
  | nil =>
    intro fv h
    simp only [List.mapM_nil, pure_ok_iff] at h; subst h
    exact ⟨rfl, fun c v _ e he => nomatch he⟩
  | cons c0 rest ih =>
    intro fv h
    simp only [List.mapM_cons, bind_ok_iff, pure_ok_iff] at h
    obtain ⟨x, ⟨v0, hv0, rfl⟩, fv', hfv', rfl⟩ := h
    obtain ⟨h1, h2⟩ := ih fv' hfv'
    refine ⟨by simp [h1], ?_⟩
    intro c v hv e he
    rcases List.mem_cons.mp he with he | he
    · cases he
      rw [hv0] at hv; cases hv; rfl
    · exact h2 c v hv e he

/-- `pad_holds_final`, channel by channel: the padded template denotes the original pulse followed by the pulse of
the constant template, which on every kept channel is one piece of length `newDur - duration` holding the value
of `final_values` (and nothing if `newDur ≤ duration`) -/
theorem pad_denote {pt : PT} {σ : Scope} {mm cm} {newDur : Rat} {padded : PT} {P P' : Pulse}
    (hpad : padTo pt σ newDur = .ok padded) (hden : denote pt σ mm cm = .ok P)
    (hden' : denote padded σ mm cm = .ok P') :
    ∃ (D : Rat) (Pc : Pulse), templateDuration pt σ = .ok D ∧
      (∀ o, pulseVal P' o = pulseVal P o ++ pulseVal Pc o) ∧
      (hasDup pt.definedChannels = false → InjOn cm pt.definedChannels →
        ∀ c o v, c ∈ pt.definedChannels → cm.lookup c = some (some o) → finalOf pt σ c = .ok v →
          pulseVal Pc o = if newDur - D > 0 then [{ len := newDur - D, v0 := v, v1 := v }] else []) := by
  unfold padTo at hpad
  simp only [bind_ok_iff, pure_ok_iff] at hpad
  obtain ⟨D, hD, fv, hfv, rfl⟩ := hpad
  rw [denote] at hden'
  simp only [denoteList, bind_ok_iff, pure_ok_iff] at hden'
  obtain ⟨_, _, ms, _, parts, ⟨a, ha, b, ⟨Pc, hPc, nil', hnil, rfl⟩, rfl⟩, p, happ, rfl⟩ := hden'
  cases hnil
  rw [hden] at ha; cases ha
  refine ⟨D, Pc, hD, ?_, ?_⟩
  · intro o
    rw [pulseVal_withOwn, pulseVal_appendAll happ]
    simp
  · intro hnd hinj c o v hc hcm hv
    obtain ⟨hkeys, hvals⟩ := padValues_spec pt.definedChannels fv hfv
    have hnd' : hasDup (fv.map (·.1)) = false := by rw [hkeys]; exact hnd
    have hinj' : InjOn cm (dedup (fv.map (·.1))) := by
      intro c1 c2 o' h1 h2
      rw [hkeys, mem_dedup] at h1 h2
      exact hinj c1 c2 o' h1 h2
    have hc' : c ∈ fv.map (·.1) := by rw [hkeys]; exact hc
    obtain ⟨e, he⟩ := lookup_isSome_of_mem_keys fv c hc'
    have hel : e = Expr.lit v := hvals c v hv e (mem_of_lookup fv c e he)
    subst hel
    have hd : σ.eval (Expr.lit (newDur - D)) = .ok (newDur - D) := rfl
    have hve : σ.eval (Expr.lit v) = .ok v := rfl
    obtain ⟨k1, k2⟩ := const_pulseVal none _ fv [] hnd' hPc hinj' he hcm hd v hve
    split
    · rename_i h; exact k1 h
    · rename_i h; exact k2 h

/-! ### the top level channel mapping of `create_program` without user mappings -/

theorem lookup_identity (cs : List Chan) (c : Chan) (hc : c ∈ cs) :
    (cs.map (fun c => (c, some c))).lookup c = some (some c) := by
  induction cs with
  | nil => cases hc
  | cons x rest ih =>
    simp only [List.map_cons, List.lookup]
    cases h : c == x
    · simp only
      rcases List.mem_cons.mp hc with rfl | hc
      · simp at h
      · exact ih hc
    · have : c = x := by simpa using h
      rw [this]

theorem lookup_identity_eq (cs : List Chan) (c o : Chan)
    (h : (cs.map (fun c => (c, some c))).lookup c = some (some o)) : o = c := by
  induction cs with
  | nil => simp [List.lookup] at h
  | cons x rest ih =>
    simp only [List.map_cons, List.lookup] at h
    cases hx : c == x
    · rw [hx] at h; exact ih h
    · rw [hx] at h
      have : c = x := by simpa using hx
      cases h; exact this.symm

theorem injOn_identity (cs : List Chan) : InjOn (cs.map (fun c => (c, some c))) cs := by
  intro c1 c2 o _ _ h1 h2
  have e1 := lookup_identity_eq cs c1 o h1
  have e2 := lookup_identity_eq cs c2 o h2
  rw [← e1, ← e2]

theorem topCtx_plain {pt : PT} {params : List (String × Rat)} {ctx : Ctx}
    (h : topCtx pt params none [] [] = .ok ctx) :
    ctx.scope = .dict params ∧ ctx.cm = pt.definedChannels.map (fun c => (c, some c)) := by
  unfold topCtx at h
  simp [hasDup] at h
  subst h
  exact ⟨rfl, rfl⟩

end QP.C07
