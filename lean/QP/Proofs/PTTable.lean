import QP.Model.PT
import Mathlib.Tactic.NormNum
/-! `TableWaveform.from_table`: the constant detection (PF-01 repaired) is sound. -/
namespace QP.PT

/-- every pair of consecutive entries spans a segment of constant value `c` -/
def pairsConst (c : Rat) : List WEntry → Prop
  | e1 :: e2 :: rest => interpConst e2.interp e1.v e2.v = some c ∧ pairsConst c (e2 :: rest)
  | _ => True

theorem validateLoop_const (c : Rat) (rest : List WEntry) : ∀ (pt pv : Rat) (cur : WEntry) (cv : Option Rat)
    (out : List WEntry) (last : WEntry) (out' : List WEntry),
    validateLoop rest pt pv cur cv out = .ok (last, some c, out') →
    cv = some c ∧ pairsConst c (cur :: rest) := by
  induction rest with
  | nil =>
    intro pt pv cur cv out last out' h
    simp only [validateLoop, Except.ok.injEq, Prod.mk.injEq] at h
    exact ⟨h.2.1, trivial⟩
  | cons nx rest ih =>
    intro pt pv cur cv out last out' h
    simp only [validateLoop] at h
    by_cases hlt : nx.t < cur.t
    · simp [hlt] at h
    · simp only [hlt, if_false] at h
      cases cv with
      | none =>
        simp only at h
        split at h
        · exact absurd (ih _ _ _ _ _ _ _ h).1 (by simp)
        · exact absurd (ih _ _ _ _ _ _ _ h).1 (by simp)
      | some c0 =>
        simp only at h
        by_cases hb : (interpConst nx.interp cur.v nx.v == some c0) = true
        · simp only [hb, if_true] at h
          split at h
          · obtain ⟨hc, hp⟩ := ih _ _ _ _ _ _ _ h
            cases hc
            exact ⟨rfl, by simpa using hb, hp⟩
          · obtain ⟨hc, hp⟩ := ih _ _ _ _ _ _ _ h
            cases hc
            exact ⟨rfl, by simpa using hb, hp⟩
        · simp only [hb] at h
          split at h
          · exact absurd (ih _ _ _ _ _ _ _ h).1 (by simp)
          · exact absurd (ih _ _ _ _ _ _ _ h).1 (by simp)

theorem validateLoop_last (rest : List WEntry) : ∀ (pt pv : Rat) (cur : WEntry) (cv : Option Rat)
    (out : List WEntry) (last : WEntry) (cv' : Option Rat) (out' : List WEntry),
    validateLoop rest pt pv cur cv out = .ok (last, cv', out') → last.t = lastT (cur :: rest) := by
  induction rest with
  | nil =>
    intro pt pv cur cv out last cv' out' h
    simp only [validateLoop, Except.ok.injEq, Prod.mk.injEq] at h
    simp [lastT, h.1]
  | cons nx rest ih =>
    intro pt pv cur cv out last cv' out' h
    simp only [validateLoop] at h
    by_cases hlt : nx.t < cur.t
    · simp [hlt] at h
    · simp only [hlt, if_false] at h
      split at h
      · have := ih _ _ _ _ _ _ _ _ h
        simpa [lastT] using this
      · have := ih _ _ _ _ _ _ _ _ h
        simpa [lastT] using this

/-- **constant detection is sound**: when `from_table` folds a table into a constant waveform of value `c`, every
segment of the table has the constant value `c` under its own interpolation, and the duration is the last time -/
theorem fromTable_const_sound (ch ch' : Chan) (es : List WEntry) (d c : Rat)
    (h : fromTable ch es = .ok (.const d ch' c)) : pairsConst c es ∧ d = lastT es ∧ ch' = ch := by
  unfold fromTable at h
  cases es with
  | nil => simp at h
  | cons first rest =>
    simp only at h
    by_cases hf : first.t ≠ 0
    · simp [hf] at h
    · simp only [hf, if_false] at h
      cases rest with
      | nil => simp at h
      | cons second rest' =>
        simp only at h
        by_cases hs : second.t < 0
        · simp [hs] at h
        · simp only [hs, if_false] at h
          cases hv : validateLoop rest' 0 first.v second (interpConst second.interp first.v second.v)
              [{ first with t := 0 }] with
          | error e => simp [hv] at h
          | ok r =>
            obtain ⟨cur, cv, out⟩ := r
            simp only [hv] at h
            by_cases hz : cur.t = 0
            · simp [hz] at h
            · simp only [hz, if_false] at h
              cases cv with
              | none => simp at h
              | some c0 =>
                simp only [Except.ok.injEq, Wf.const.injEq] at h
                obtain ⟨hd, hch, hc⟩ := h
                subst hc
                obtain ⟨h1, h2⟩ := validateLoop_const c0 rest' _ _ second _ _ cur out hv
                have hl := validateLoop_last rest' _ _ second _ _ cur _ out hv
                refine ⟨⟨h1, h2⟩, ?_, hch.symm⟩
                rw [← hd, hl]
                simp [lastT]

/-- a table all of whose segments are constant `c` denotes the constant function `c` -/
theorem entriesToPL_const (c : Rat) (es : List WEntry) (h : pairsConst c es) :
    ∀ s ∈ entriesToPL es, s.v0 = c ∧ s.v1 = c := by
  induction es with
  | nil => intro s hs; simp [entriesToPL] at hs
  | cons e1 rest ih =>
    cases rest with
    | nil => intro s hs; simp [entriesToPL] at hs
    | cons e2 rest' =>
      simp only [pairsConst] at h
      intro s hs
      simp only [entriesToPL, List.mem_append] at hs
      rcases hs with hs | hs
      · by_cases hlt : e1.t < e2.t
        · simp only [hlt, if_true, List.mem_singleton] at hs
          subst hs
          have hc := h.1
          cases hi : e2.interp with
          | hold => simp only [hi, interpConst, Option.some.injEq] at hc; simp [hc]
          | jump => simp only [hi, interpConst, Option.some.injEq] at hc; simp [hc]
          | linear =>
            simp only [hi, interpConst] at hc
            by_cases hv : e1.v = e2.v
            · simp only [hv, if_true, Option.some.injEq] at hc; simp [hv, hc]
            · simp [hv] at hc
        · simp [hlt] at hs
      · exact ih h.2 s hs

/-! ### PF-01: the unrepaired constant detection -/

/-- `_validate_input` as it was before the repair: the segment ending in the next entry is judged with the
*current* entry's interpolation -/
def validateLoopOld : List WEntry → Rat → Rat → WEntry → Option Rat → List WEntry →
    Except Err (WEntry × Option Rat × List WEntry)
  | [], _, _, cur, cv, out => .ok (cur, cv, out)
  | nx :: rest, pt, pv, cur, cv, out =>
      if nx.t < cur.t then .error .valueError else
      let cv' := match cv with
        | some c => if interpConst cur.interp cur.v nx.v == some c then some c else none
        | none => none
      if (pt ≠ cur.t ∨ cur.t ≠ nx.t) ∧ (pv ≠ cur.v ∨ cur.v ≠ nx.v) then
        validateLoopOld rest cur.t cur.v nx cv' (out ++ [cur])
      else
        validateLoopOld rest pt pv nx cv' out

def pf01Table : List WEntry := [⟨0, 1, .hold⟩, ⟨1, 1, .hold⟩, ⟨2, 3, .linear⟩]

/-- the witness of PF-01: the old detection calls the table constant 1 although its last segment ramps from 1
to 3; the repaired detection does not -/
theorem pf01_witness :
    (validateLoopOld [⟨2, 3, .linear⟩] 0 1 ⟨1, 1, .hold⟩ (interpConst .hold 1 1) [⟨0, 1, .hold⟩]).map (·.2.1)
      = .ok (some 1) ∧
    (validateLoop [⟨2, 3, .linear⟩] 0 1 ⟨1, 1, .hold⟩ (interpConst .hold 1 1) [⟨0, 1, .hold⟩]).map (·.2.1)
      = .ok none ∧
    entriesToPL pf01Table = [{ len := 1, v0 := 1, v1 := 1 }, { len := 1, v0 := 1, v1 := 3 }] := by
  refine ⟨?_, ?_, ?_⟩
  · norm_num [validateLoopOld, interpConst, Except.map]
  · norm_num [validateLoop, interpConst, Except.map]
  · norm_num [entriesToPL, pf01Table]

end QP.PT
