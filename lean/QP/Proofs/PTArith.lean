import QP.Model.PT
import Mathlib.Tactic.Linarith
import Mathlib.Tactic.Ring
import Mathlib.Tactic.Push
/-! Arithmetic behind C04: Python's `range` and the closed form of `ForLoopPulseTemplate.duration`. -/
namespace QP.PT

/-- `⌈n / s⌉ = (n + s - 1) / s` (integer floor division) for a positive integer divisor -/
theorem ceil_div_pos (n s : Int) (hs : 0 < s) : (((n : Rat) / (s : Rat))).ceil = (n + s - 1) / s := by
  have hsq : (0 : Rat) < (s : Rat) := by exact_mod_cast hs
  have h1 := Int.mul_ediv_self_le (x := n + s - 1) (k := s) (by omega)
  have h2 := Int.lt_mul_ediv_self_add (x := n + s - 1) (k := s) hs
  apply Int.le_antisymm
  · rw [Rat.ceil_le_iff]
    rw [div_le_iff₀ hsq]
    have : n ≤ (n + s - 1) / s * s := by nlinarith
    exact_mod_cast this
  · have : ((n + s - 1) / s - 1 : Int) < ((n : Rat) / (s : Rat)).ceil := by
      rw [Rat.lt_ceil_iff, lt_div_iff₀ hsq]
      have : ((n + s - 1) / s - 1) * s < n := by nlinarith
      exact_mod_cast this
    omega

theorem ceil_div_neg (n s : Int) (hs : s < 0) : (((n : Rat) / (s : Rat))).ceil = (-n + (-s) - 1) / (-s) := by
  have := ceil_div_pos (-n) (-s) (by omega)
  rw [← this]
  congr 1
  push_cast
  rw [neg_div_neg_eq]

theorem pyRange_pos (a b s : Int) (hs : 0 < s) :
    pyRange a b s = (List.range ((b - a + s - 1) / s).toNat).map (fun (k : Nat) => a + s * (k : Int)) := by
  simp [pyRange, hs]

theorem pyRange_neg (a b s : Int) (hs : s < 0) :
    pyRange a b s = (List.range ((a - b + (-s) - 1) / (-s)).toNat).map (fun (k : Nat) => a + s * (k : Int)) := by
  have h1 : ¬ (0 < s) := by omega
  simp [pyRange, hs, h1]

/-- Python's `range(start, stop, step)`: exactly the values `start + step*k`, `k = 0, 1, …`, that lie
before `stop` -/
theorem mem_pyRange (a b s x : Int) (hs : s ≠ 0) :
    x ∈ pyRange a b s ↔ ∃ k : Nat, x = a + s * k ∧ (if 0 < s then x < b else b < x) := by
  rcases Int.lt_or_gt_of_ne hs with hneg | hpos
  · rw [pyRange_neg a b s hneg]
    have h1 : ¬ (0 < s) := by omega
    simp only [List.mem_map, List.mem_range, h1, if_false]
    constructor
    · rintro ⟨k, hk, rfl⟩
      refine ⟨k, rfl, ?_⟩
      have hk' : ((k : Int) + 1) ≤ (a - b + (-s) - 1) / (-s) := by omega
      rw [Int.le_ediv_iff_mul_le (by omega)] at hk'
      nlinarith
    · rintro ⟨k, rfl, hk⟩
      refine ⟨k, ?_, rfl⟩
      have : ((k : Int) + 1) ≤ (a - b + (-s) - 1) / (-s) := by
        rw [Int.le_ediv_iff_mul_le (by omega)]
        nlinarith
      omega
  · rw [pyRange_pos a b s hpos]
    simp only [List.mem_map, List.mem_range, hpos, if_true]
    constructor
    · rintro ⟨k, hk, rfl⟩
      refine ⟨k, rfl, ?_⟩
      have hk' : ((k : Int) + 1) ≤ (b - a + s - 1) / s := by omega
      rw [Int.le_ediv_iff_mul_le hpos] at hk'
      nlinarith
    · rintro ⟨k, rfl, hk⟩
      refine ⟨k, ?_, rfl⟩
      have : ((k : Int) + 1) ≤ (b - a + s - 1) / s := by
        rw [Int.le_ediv_iff_mul_le hpos]
        nlinarith
      omega

theorem closedForm_eq_range (g : Rat → Except Err Rat) (a b s : Int) (hs : s ≠ 0) :
    forLoopClosedForm g a b s =
      (do let ds ← (pyRange a b s).mapM (fun (i : Int) => g (i : Rat)); pure (sumList ds)) := by
  have hsq : (s : Rat) ≠ 0 := by exact_mod_cast hs
  have hcast : ((b : Rat) - (a : Rat)) = (((b - a : Int)) : Rat) := by push_cast; ring
  have key : ∀ N : Int, (List.range N.toNat).mapM (fun (k : Nat) => g ((a : Rat) + (k : Rat) * (s : Rat)))
      = ((List.range N.toNat).map (fun (k : Nat) => a + s * (k : Int))).mapM (fun (i : Int) => g (i : Rat)) := by
    intro N
    rw [List.mapM_map]
    congr 1
    funext k
    simp only [Function.comp]
    congr 1
    push_cast
    ring
  unfold forLoopClosedForm
  rw [if_neg hsq, hcast]
  rcases Int.lt_or_gt_of_ne hs with hneg | hpos
  · have hc : (((b - a : Int) : Rat) / (s : Rat)).ceil = (a - b + (-s) - 1) / (-s) := by
      rw [ceil_div_neg _ _ hneg]; congr 1; ring
    simp only [hc]
    rw [pyRange_neg a b s hneg]
    generalize (a - b + (-s) - 1) / (-s) = N
    by_cases hN : N ≤ 0
    · rw [if_pos hN, Int.toNat_of_nonpos hN]
      simp [sumList]
    · have hmax : max N 1 = N := by omega
      rw [if_neg hN, hmax, key]
  · have hc : (((b - a : Int) : Rat) / (s : Rat)).ceil = (b - a + s - 1) / s := ceil_div_pos _ _ hpos
    simp only [hc]
    rw [pyRange_pos a b s hpos]
    generalize (b - a + s - 1) / s = N
    by_cases hN : N ≤ 0
    · rw [if_pos hN, Int.toNat_of_nonpos hN]
      simp [sumList]
    · have hmax : max N 1 = N := by omega
      rw [if_neg hN, hmax, key]

theorem forLoop_templateDuration (id : Option String) (body : PT) (idx : String) (start stop step : Expr)
    (meas : List MeasDecl) (cons : List Expr) (σ : Scope) (a b s : Int) (hs : s ≠ 0)
    (ha : σ.eval start = .ok (a : Rat)) (hb : σ.eval stop = .ok (b : Rat)) (hst : σ.eval step = .ok (s : Rat)) :
    templateDuration (.forLoop id body idx start stop step meas cons) σ =
      (do let ds ← (pyRange a b s).mapM (fun (i : Int) => templateDuration body (.range σ idx (i : Rat)))
          pure (sumList ds)) := by
  simp only [templateDuration, ha, hb, hst, bind, Except.bind]
  exact closedForm_eq_range (fun v => templateDuration body (.range σ idx v)) a b s hs

end QP.PT
