import QP.Model.PT
import QP.Proofs.PTExist
import QP.Proofs.PTPoint
/-! Existence of the denotation for table and point templates: whatever `TableWaveform.from_table` accepts is a
well-formed channel table (starts at 0, times do not decrease, positive duration), and `from_parallel` succeeding
means the channel names are distinct. -/
namespace QP.PT

theorem ptValidate_sorted : ∀ (rest : List WEntry) (pt pv : Rat) (cur : WEntry) (cv : Option Rat)
    (out : List WEntry) (r : WEntry × Option Rat × List WEntry),
    validateLoop rest pt pv cur cv out = .ok r → sortedTimes (cur :: rest) = true := by
  intro rest
  induction rest with
  | nil => intro pt pv cur cv out r _; rfl
  | cons nx rest ih =>
    intro pt pv cur cv out r h
    simp only [validateLoop] at h
    by_cases hlt : nx.t < cur.t
    · simp [hlt] at h
    · simp only [hlt, if_false] at h
      have hle : cur.t ≤ nx.t := not_lt.mp hlt
      simp only [sortedTimes, hle, decide_true, Bool.true_and]
      split at h
      · exact ih _ _ _ _ _ _ h
      · exact ih _ _ _ _ _ _ h

/-- what `from_table` accepts, `tablePL` accepts; the result is a leaf on the channel -/
theorem ptFromTable_ok (ch : Chan) (es : List WEntry) (w : Wf) (h : fromTable ch es = .ok w) :
    (∃ pl, tablePL es = .ok pl) ∧ w.channels = [ch] ∧ LeafWf w := by
  unfold fromTable at h
  cases es with
  | nil => cases h
  | cons first rest =>
    simp only at h
    by_cases hf : first.t ≠ 0
    · simp [hf] at h
    · simp only [hf, if_false] at h
      cases rest with
      | nil => cases h
      | cons second rest' =>
        simp only at h
        by_cases hs : second.t < 0
        · simp [hs] at h
        · simp only [hs, if_false] at h
          cases hv : validateLoop rest' 0 first.v second (interpConst second.interp first.v second.v)
              [{ first with t := 0 }] with
          | error e => simp [hv] at h
          | ok r =>
            obtain ⟨cur, cv, out⟩ := r
            simp only [hv] at h
            have hsort := ptValidate_sorted _ _ _ _ _ _ _ hv
            have hlast := validateLoop_last rest' _ _ second _ _ cur _ out hv
            by_cases hz : cur.t = 0
            · simp [hz] at h
            · simp only [hz, if_false] at h
              have hf0 : first.t = 0 := by simpa using hf
              have hpl : ∃ pl, tablePL (first :: second :: rest') = .ok pl := by
                refine ⟨entriesToPL (first :: second :: rest'), ?_⟩
                have h1 : sortedTimes (first :: second :: rest') = true := by
                  simp only [sortedTimes, Bool.and_eq_true, decide_eq_true_eq]
                  exact ⟨by rw [hf0]; exact not_lt.mp hs, hsort⟩
                have h2 : lastT (first :: second :: rest') ≠ 0 := by
                  have : lastT (first :: second :: rest') = lastT (second :: rest') := by simp [lastT]
                  rw [this, ← hlast]; exact hz
                simp [tablePL, hf0, h1, h2]
              cases cv with
              | some c =>
                simp only [Except.ok.injEq] at h
                subst h
                exact ⟨hpl, rfl, LeafWf.const _ _ _⟩
              | none =>
                simp only [Except.ok.injEq] at h
                subst h
                exact ⟨hpl, rfl, LeafWf.table _ _⟩

/-- channel by channel: the tables `from_table` accepted denote piecewise linear functions -/
theorem ptTables_ex : ∀ (l l' : List (Chan × List WEntry)),
    List.Forall₂ (fun (a b : Chan × List WEntry) => a.1 = b.1 ∧ HeadEq a.2 b.2) l l' → ∀ wfs,
    l.mapM (fun (x : Chan × List WEntry) => fromTable x.1 x.2) = .ok wfs →
    ∃ chans, l'.mapM (fun (x : Chan × List WEntry) => do let pl ← tablePL x.2; pure (x.1, pl)) = .ok chans ∧
      chans.map (·.1) = l.map (·.1) ∧ Wf.channelsAll wfs = l.map (·.1) ∧ (∀ w ∈ wfs, LeafWf w) ∧
      wfs.length = l.length := by
  intro l l' hf
  induction hf with
  | nil =>
    intro wfs h
    simp only [List.mapM_nil, pure_ok] at h
    subst h
    exact ⟨[], rfl, rfl, rfl, by intro w hw; simp at hw, rfl⟩
  | @cons x x' xs xs' hq _ ih =>
    intro wfs h
    simp only [List.mapM_cons, bind_ok, pure_ok] at h
    obtain ⟨w, hw, ws, hws, rfl⟩ := h
    obtain ⟨⟨pl, hpl⟩, hch, hleaf⟩ := ptFromTable_ok x.1 x.2 w hw
    obtain ⟨chans, hchans, hn, hca, hl, hlen⟩ := ih ws hws
    rw [tablePL_headEq hq.2] at hpl
    refine ⟨(x'.1, pl) :: chans, ?_, ?_, ?_, ?_, ?_⟩
    · simp only [List.mapM_cons]
      exact bind_ok.mpr ⟨(x'.1, pl), bind_ok.mpr ⟨pl, hpl, rfl⟩, bind_ok.mpr ⟨chans, hchans, rfl⟩⟩
    · simp [hn, hq.1]
    · simp [Wf.channelsAll, hch, hca]
    · intro y hy
      rcases List.mem_cons.mp hy with rfl | hy
      · exact hleaf
      · exact hl y hy
    · simp [hlen]

/-- `from_parallel` of leaves on distinct… succeeds only if the channel names are distinct -/
theorem ptParallel_nodup (wfs : List Wf) (w : Wf) (hw : fromParallel wfs = .ok w) (hl : ∀ x ∈ wfs, LeafWf x)
    (names : List Chan) (hn : Wf.channelsAll wfs = names) (hlen : wfs.length = names.length) :
    hasDup names = false := by
  match wfs, hw, hl, hn, hlen with
  | [], hw, _, _, _ => simp [fromParallel] at hw
  | [w0], _, _, _, hlen =>
    match names, hlen with
    | [n], _ => simp [hasDup]
  | w0 :: w1 :: rest, hw, hl, hn, _ =>
    rw [fromParallel_leaves w0 w1 rest hl] at hw
    unfold mkMulti at hw
    simp only at hw
    split at hw
    · cases hw
    · rename_i hd
      rw [hn] at hd
      simpa using hd

theorem ptForall2_refl : ∀ (l : List (Chan × List WEntry)),
    List.Forall₂ (fun (a b : Chan × List WEntry) => a.1 = b.1 ∧ HeadEq a.2 b.2) l l
  | [] => List.Forall₂.nil
  | x :: xs => List.Forall₂.cons ⟨rfl, Or.inl rfl⟩ (ptForall2_refl xs)

theorem atomEx_table (id : Option String) (entries : List (Chan × List TEntry)) (meas : List MeasDecl)
    (cons : List Expr) : AtomEx (.table id entries meas cons) := by
  intro σ mm cm items h
  simp only [denote]
  rcases ptAtomItems_parts h with hw | ⟨w, ms, hw, hms⟩
  · rw [buildWaveform] at hw
    obtain ⟨u, hu, hw⟩ := bind_ok.mp hw
    obtain ⟨inst, hinst, hw⟩ := bind_ok.mp hw
    obtain ⟨mapped, hmapped, hw⟩ := bind_ok.mp hw
    apply ptBindEx hu
    apply ptBindEx hinst
    apply ptBindEx hmapped
    rcases Bool.eq_false_or_eq_true mapped.isEmpty with hemp | hemp
    · rw [if_pos hemp]; exact ⟨_, rfl⟩
    · rw [if_neg (by simp [hemp])] at hw
      obtain ⟨_, _, hw⟩ := bind_ok.mp hw
      obtain ⟨_, _, hw⟩ := bind_ok.mp hw
      cases pure_ok.mp hw
  · rw [buildWaveform] at hw
    obtain ⟨u, hu, hw⟩ := bind_ok.mp hw
    obtain ⟨inst, hinst, hw⟩ := bind_ok.mp hw
    obtain ⟨mapped, hmapped, hw⟩ := bind_ok.mp hw
    apply ptBindEx hu
    apply ptBindEx hinst
    apply ptBindEx hmapped
    rcases Bool.eq_false_or_eq_true mapped.isEmpty with hemp | hemp
    · rw [if_pos hemp] at hw; cases pure_ok.mp hw
    · rw [if_neg (by simp [hemp])] at hw ⊢
      obtain ⟨wfs, hwfs, hw⟩ := bind_ok.mp hw
      obtain ⟨w', hw', _⟩ := bind_ok.mp hw
      obtain ⟨chans, hchans, hn, hca, hl, hlen⟩ := ptTables_ex mapped mapped (ptForall2_refl mapped) wfs hwfs
      have hdup : hasDup (chans.map (·.1)) = false := by
        rw [hn]
        exact ptParallel_nodup wfs w' hw' hl _ hca (by simp [hlen])
      apply ptBindEx hchans
      rw [if_neg (by simp [hdup])]
      exact ptBindEx hms ⟨_, rfl⟩

end QP.PT

namespace QP.PT

theorem ptAtomItems_parts' {pt : PT} {σ : Scope} {mm : List (MName × Option MName)} {cm : List (Chan × Option Chan)}
    {items : List Item} (h : atomItems pt (ctx0 σ mm cm) = .ok items) :
    ∃ w?, buildWaveform pt σ cm = .ok w? ∧ (∀ w, w? = some w → ∃ ms, atomicMeas pt σ mm = .ok ms) := by
  rcases ptAtomItems_parts h with hw | ⟨w, ms, hw, hms⟩
  · exact ⟨none, hw, by intro w hw'; cases hw'⟩
  · exact ⟨some w, hw, fun _ _ => ⟨ms, hms⟩⟩

theorem atomEx_point (id : Option String) (chans : List Chan) (entries : List PEntry) (meas : List MeasDecl)
    (cons : List Expr) : AtomEx (.point id chans entries meas cons) := by
  intro σ mm cm items h
  obtain ⟨w?, h1, hmeas⟩ := ptAtomItems_parts' h
  simp only [denote]
  rw [buildWaveform] at h1
  obtain ⟨u, hu, h1⟩ := bind_ok.mp h1
  obtain ⟨mappedAll, hmA, h1⟩ := bind_ok.mp h1
  apply ptBindEx hu
  apply ptBindEx hmA
  rcases Bool.eq_false_or_eq_true (mappedAll.all Option.isNone) with hall | hall
  · rw [if_pos hall]; exact ⟨_, rfl⟩
  · rw [if_neg (by simp [hall])] at h1 ⊢
    cases hgl : entries.getLast? with
    | none => rw [hgl] at h1; cases h1
    | some elast =>
      rw [hgl] at h1
      obtain ⟨dur, hdur, h1⟩ := bind_ok.mp h1
      apply ptBindEx hdur
      dsimp only at h1 ⊢
      by_cases hd0 : dur = 0
      · rw [if_pos hd0]; exact ⟨_, rfl⟩
      · rw [if_neg hd0] at h1 ⊢
        obtain ⟨mapped, hmapped, h1⟩ := bind_ok.mp h1
        obtain ⟨inst, hinst, h1⟩ := bind_ok.mp h1
        apply ptBindEx hmapped
        apply ptBindEx hinst
        obtain ⟨wfs, hwfs, h1⟩ := bind_ok.mp h1
        obtain ⟨w, hw, h1⟩ := bind_ok.mp h1
        change (pointKept prefC mapped inst chans.length).mapM
          (fun (x : Chan × List WEntry) => fromTable x.1 x.2) = .ok wfs at hwfs
        obtain ⟨cs, hcs, hn, hca, hl, hlen⟩ := ptTables_ex _ _
          (kept_forall2 ((List.range chans.length).map (fun i => inst.filterMap (fun row => row[i]?))) mapped)
          wfs hwfs
        have hdup : hasDup (cs.map (·.1)) = false := by
          rw [hn]
          exact ptParallel_nodup wfs w hw hl _ hca (by simp [hlen])
        have hcs' : (pointKept prefD mapped inst chans.length).mapM
            (fun (x : Chan × List WEntry) => do let pl ← tablePL x.2; pure (x.1, pl)) = .ok cs := hcs
        apply ptBindEx hcs'
        rw [if_neg (by simp [hdup])]
        obtain ⟨ms, hms⟩ := hmeas w (pure_ok.mp h1).symm
        exact ptBindEx hms ⟨_, rfl⟩

end QP.PT
