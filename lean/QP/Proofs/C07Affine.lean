import QP.Proofs.C07Lemmas
/-!
# C07 helper lemmas: expressions affine in `t` (function templates)
-/
namespace QP.C07
open QP.PT


/-- the environment of a function template's expression: `t` is the time, everything else comes from `g` -/
def envT (g : String → Except Err Rat) (t : Rat) : String → Except Err Rat :=
  fun x => if x = "t" then .ok t else g x

theorem not_contains_append {a b : List String} {x : String} (h : (!(a ++ b).contains x) = true) :
    (!a.contains x) = true ∧ (!b.contains x) = true := by
  simp only [Bool.not_eq_true', List.contains_eq_mem, List.mem_append, decide_eq_false_iff_not, not_or] at h ⊢
  exact h

theorem eval_freeOf (g : String → Except Err Rat) (t t' : Rat) :
    ∀ e : Expr, e.freeOf "t" = true → e.eval (envT g t) = e.eval (envT g t') := by
  intro e
  induction e with
  | lit q => intro _; rfl
  | var y =>
    intro h
    simp only [Expr.freeOf, Expr.vars, Bool.not_eq_true', List.contains_eq_mem, List.mem_singleton,
      decide_eq_false_iff_not] at h
    have : y ≠ "t" := fun hy => h hy.symm
    simp [Expr.eval, envT, this]
  | add a b iha ihb | mul a b iha ihb | max a b iha ihb | min a b iha ihb =>
    intro h
    simp only [Expr.freeOf, Expr.vars] at h iha ihb
    obtain ⟨h1, h2⟩ := not_contains_append h
    simp only [Expr.eval, iha h1, ihb h2]
  | cmp c a b iha ihb =>
    intro h
    simp only [Expr.freeOf, Expr.vars] at h iha ihb
    obtain ⟨h1, h2⟩ := not_contains_append h
    simp only [Expr.eval, iha h1, ihb h2]
  | pow a n iha =>
    intro h
    simp only [Expr.freeOf, Expr.vars] at h iha
    simp only [Expr.eval, iha h]
  | floor a iha | ceil a iha | abs a iha =>
    intro h
    simp only [Expr.freeOf, Expr.vars] at h iha
    simp only [Expr.eval, iha h]
  | unsupported => intro _; rfl

theorem eval_const_of_freeOf (g : String → Except Err Rat) (e : Expr) (h : e.freeOf "t" = true)
    {t v0 v1 vt : Rat} (h0 : e.eval (envT g 0) = .ok v0) (h1 : e.eval (envT g 1) = .ok v1)
    (ht : e.eval (envT g t) = .ok vt) : vt = v0 + (v1 - v0) * t := by
  rw [eval_freeOf g 1 0 e h] at h1
  rw [eval_freeOf g t 0 e h] at ht
  rw [h0] at h1 ht
  cases h1; cases ht
  grind

theorem eval_affine (g : String → Except Err Rat) :
    ∀ e : Expr, e.affineIn "t" = true → ∀ t v0 v1 vt, e.eval (envT g 0) = .ok v0 → e.eval (envT g 1) = .ok v1 →
      e.eval (envT g t) = .ok vt → vt = v0 + (v1 - v0) * t := by
  intro e
  induction e with
  | lit q =>
    intro _ t v0 v1 vt h0 h1 ht
    simp only [Expr.eval] at h0 h1 ht
    cases h0; cases h1; cases ht; grind
  | var y =>
    intro _ t v0 v1 vt h0 h1 ht
    simp only [Expr.eval, envT] at h0 h1 ht
    by_cases hy : y = "t"
    · simp only [hy, if_true] at h0 h1 ht
      cases h0; cases h1; cases ht; grind
    · simp only [hy, if_false] at h0 h1 ht
      rw [h0] at h1 ht; cases h1; cases ht; grind
  | add a b iha ihb =>
    intro h t v0 v1 vt h0 h1 ht
    simp only [Expr.affineIn, Bool.and_eq_true] at h
    simp only [Expr.eval, bind_ok_iff, pure_ok_iff] at h0 h1 ht
    obtain ⟨a0, ha0, b0, hb0, rfl⟩ := h0
    obtain ⟨a1, ha1, b1, hb1, rfl⟩ := h1
    obtain ⟨at', hat, bt, hbt, rfl⟩ := ht
    have ea := iha h.1 t a0 a1 at' ha0 ha1 hat
    have eb := ihb h.2 t b0 b1 bt hb0 hb1 hbt
    subst ea eb; grind
  | mul a b iha ihb =>
    intro h t v0 v1 vt h0 h1 ht
    simp only [Expr.affineIn, Bool.or_eq_true, Bool.and_eq_true] at h
    simp only [Expr.eval, bind_ok_iff, pure_ok_iff] at h0 h1 ht
    obtain ⟨a0, ha0, b0, hb0, rfl⟩ := h0
    obtain ⟨a1, ha1, b1, hb1, rfl⟩ := h1
    obtain ⟨at', hat, bt, hbt, rfl⟩ := ht
    rcases h with ⟨hf, hb⟩ | ⟨ha, hf⟩
    · have eb := ihb hb t b0 b1 bt hb0 hb1 hbt
      rw [eval_freeOf g 1 0 a hf] at ha1
      rw [eval_freeOf g t 0 a hf] at hat
      rw [ha0] at ha1 hat; cases ha1; cases hat
      subst eb; grind
    · have ea := iha ha t a0 a1 at' ha0 ha1 hat
      rw [eval_freeOf g 1 0 b hf] at hb1
      rw [eval_freeOf g t 0 b hf] at hbt
      rw [hb0] at hb1 hbt; cases hb1; cases hbt
      subst ea; grind
  | pow a n _ => intro h t v0 v1 vt h0 h1 ht; exact eval_const_of_freeOf g _ (by simpa [Expr.affineIn] using h) h0 h1 ht
  | max a b _ _ => intro h t v0 v1 vt h0 h1 ht; exact eval_const_of_freeOf g _ (by simpa [Expr.affineIn] using h) h0 h1 ht
  | min a b _ _ => intro h t v0 v1 vt h0 h1 ht; exact eval_const_of_freeOf g _ (by simpa [Expr.affineIn] using h) h0 h1 ht
  | floor a _ => intro h t v0 v1 vt h0 h1 ht; exact eval_const_of_freeOf g _ (by simpa [Expr.affineIn] using h) h0 h1 ht
  | ceil a _ => intro h t v0 v1 vt h0 h1 ht; exact eval_const_of_freeOf g _ (by simpa [Expr.affineIn] using h) h0 h1 ht
  | abs a _ => intro h t v0 v1 vt h0 h1 ht; exact eval_const_of_freeOf g _ (by simpa [Expr.affineIn] using h) h0 h1 ht
  | cmp c a b _ _ => intro h t v0 v1 vt h0 h1 ht; exact eval_const_of_freeOf g _ (by simpa [Expr.affineIn] using h) h0 h1 ht
  | unsupported => intro h t v0 v1 vt h0 h1 ht; exact eval_const_of_freeOf g _ (by simpa [Expr.affineIn] using h) h0 h1 ht


end QP.C07
