import QP.Model.PT
import QP.Proofs.PTDur
import QP.Proofs.PTPoint
/-! `DurAtom` (the class' `duration` expression = duration of the denoted pulse) for `AtomicMultiChannelPT` and
`PointPT`, under the conditions that nothing vanishes. -/
namespace QP.PT

theorem ptMapM_forall {α β : Type} (f : α → Except Err β) : ∀ (l : List α) (bs : List β), l.mapM f = .ok bs →
    bs.length = l.length ∧ ∀ x ∈ l, ∃ b ∈ bs, f x = .ok b := by
  intro l
  induction l with
  | nil => intro bs h; simp only [List.mapM_nil, pure_ok] at h; subst h; simp
  | cons x xs ih =>
    intro bs h
    simp only [List.mapM_cons, bind_ok, pure_ok] at h
    obtain ⟨b0, hb0, bs', hbs, rfl⟩ := h
    obtain ⟨hl, hm⟩ := ih bs' hbs
    refine ⟨by simp [hl], ?_⟩
    intro y hy
    rcases List.mem_cons.mp hy with rfl | hy
    · exact ⟨b0, by simp, hb0⟩
    · obtain ⟨b, hb, hf⟩ := hm y hy
      exact ⟨b, by simp [hb], hf⟩

/-- `AtomicMultiChannelPT`: the first sub-template satisfies the statement and denotes a non-empty pulse -/
theorem durAtom_atomicMulti (id : Option String) (p1 : PT) (ps : List PT) (dur : Option Expr) (meas : List MeasDecl)
    (cons : List Expr) (σ : Scope) (cm : List (Chan × Option Chan))
    (h1 : DurAtom p1 σ cm) (hne : ∀ mm P1, denote p1 σ mm cm = .ok P1 → P1.chans ≠ []) :
    DurAtom (.atomicMulti id (p1 :: ps) dur meas cons) σ cm := by
  intro mm d P hd h2
  simp only [denote, bind_ok] at h2
  obtain ⟨_, _, parts, hparts, h2⟩ := h2
  simp only [denoteList, bind_ok, pure_ok] at hparts
  obtain ⟨P1, hP1, rest, _, rfl⟩ := hparts
  have hP1ne := hne mm P1 hP1
  have hf : (P1 :: rest).filter (fun p => !p.isEmpty) = P1 :: rest.filter (fun p => !p.isEmpty) := by
    have : P1.isEmpty = false := by simpa [Pulse.isEmpty] using hP1ne
    simp [List.filter_cons, this]
  rw [hf] at h2
  simp only at h2
  split at h2
  · cases h2
  · split at h2
    · cases h2
    · have hmne : mergeChans (P1 :: rest.filter (fun p => !p.isEmpty)) ≠ [] := by
        obtain ⟨x, xs, hx⟩ := List.exists_cons_of_ne_nil hP1ne
        simp [mergeChans, hx]
      cases dur with
      | none =>
        obtain ⟨ms, _, h2⟩ := bind_ok.mp h2
        cases pure_ok.mp h2
        simp only [templateDuration, templateDurationFirst] at hd
        exact ⟨(h1 mm d P1 hd hP1).1, fun h0 => absurd h0 hmne⟩
      | some de =>
        simp only [templateDuration] at hd
        obtain ⟨ex, hex, h2⟩ := bind_ok.mp h2
        rw [hd] at hex; cases hex
        split at h2
        · obtain ⟨_, h0, _⟩ := bind_ok.mp h2
          cases h0
        · rename_i heq
          obtain ⟨ms, _, h2⟩ := bind_ok.mp h2
          cases pure_ok.mp h2
          exact ⟨by simpa using heq, fun h0 => absurd h0 hmne⟩

/-- `PointPT` that keeps a channel -/
theorem durAtom_point (id : Option String) (chans : List Chan) (entries : List PEntry) (meas : List MeasDecl)
    (cons : List Expr) (σ : Scope) (cm : List (Chan × Option Chan))
    (hkeep : ∃ c o, c ∈ chans ∧ cm.lookup c = some (some o)) :
    DurAtom (.point id chans entries meas cons) σ cm := by
  intro mm d P hd h2
  obtain ⟨c, o, hc, hlook⟩ := hkeep
  have hcl : chanLookup cm c = .ok (some o) := by simp [chanLookup, hlook]
  rw [denote] at h2
  obtain ⟨_, _, h2⟩ := bind_ok.mp h2
  obtain ⟨mappedAll, hmA, h2⟩ := bind_ok.mp h2
  have hall : mappedAll.all Option.isNone = false := by
    obtain ⟨_, hm⟩ := ptMapM_forall _ _ _ hmA
    obtain ⟨b, hb, hf⟩ := hm c ((mem_dedup chans c).mpr hc)
    rw [hcl] at hf; cases hf
    rw [Bool.eq_false_iff]
    intro hcon
    have := List.all_eq_true.mp hcon _ hb
    simp at this
  rw [if_neg (by simp [hall])] at h2
  cases hgl : entries.getLast? with
  | none => rw [hgl] at h2; cases h2
  | some elast =>
    rw [hgl] at h2
    simp only [templateDuration, hgl] at hd
    obtain ⟨dur, hdur, h2⟩ := bind_ok.mp h2
    rw [hd] at hdur; cases hdur
    dsimp only at h2
    by_cases hd0 : d = 0
    · rw [if_pos hd0] at h2
      cases pure_ok.mp h2
      subst hd0
      exact durFact_empty
    · rw [if_neg hd0] at h2
      obtain ⟨mapped, hmapped, h2⟩ := bind_ok.mp h2
      obtain ⟨inst, _, h2⟩ := bind_ok.mp h2
      obtain ⟨cs, hcs, h2⟩ := bind_ok.mp h2
      change (pointKept prefD mapped inst chans.length).mapM
        (fun (x : Chan × List WEntry) => do let pl ← tablePL x.2; pure (x.1, pl)) = .ok cs at hcs
      split at h2
      · cases h2
      · obtain ⟨ms, _, h2⟩ := bind_ok.mp h2
        cases pure_ok.mp h2
        refine ⟨rfl, ?_⟩
        intro h0
        exfalso
        simp only at h0
        subst h0
        -- a kept channel gives a kept column
        obtain ⟨hlen, hm⟩ := ptMapM_forall _ _ _ hmapped
        obtain ⟨hlen', _⟩ := ptMapM_forall _ _ _ hcs
        simp only [List.length_nil] at hlen'
        have hk : pointKept prefD mapped inst chans.length = [] := by
          cases hh : pointKept prefD mapped inst chans.length with
          | nil => rfl
          | cons x xs => rw [hh] at hlen'; simp at hlen'
        obtain ⟨i, hi, hci⟩ := List.mem_iff_getElem.mp hc
        have hmi : mapped[i]'(by rw [hlen]; exact hi) = some o := by
          -- position-wise: `mapM` keeps positions
          have : ∀ (l : List Chan) (bs : List (Option Chan)), l.mapM (fun c => chanLookup cm c) = .ok bs →
              ∀ (i : Nat) (h1 : i < l.length) (h2 : i < bs.length), chanLookup cm l[i] = .ok bs[i] := by
            intro l
            induction l with
            | nil => intro bs _ i h1; simp at h1
            | cons x xs ih =>
              intro bs h i h1 h2
              simp only [List.mapM_cons, bind_ok, pure_ok] at h
              obtain ⟨b0, hb0, bs', hbs, rfl⟩ := h
              cases i with
              | zero => simpa using hb0
              | succ j =>
                simp only [List.getElem_cons_succ]
                exact ih bs' hbs j (by simpa using h1) (by simpa using h2)
          have := this chans mapped hmapped i hi (by rw [hlen]; exact hi)
          rw [hci, hcl] at this
          simp only [Except.ok.injEq] at this
          exact this.symm
        unfold pointKept at hk
        have hzlen : i < (mapped.zip (((List.range chans.length).map
            (fun i => inst.filterMap (fun row => row[i]?))).map prefD)).length := by
          simp [hlen, hi]
        have hmem := List.getElem_mem hzlen
        rw [List.getElem_zip] at hmem
        have : (o, (((List.range chans.length).map (fun i => inst.filterMap (fun row => row[i]?))).map prefD)[i]'(by
            simp [hi])) ∈ (mapped.zip (((List.range chans.length).map
            (fun i => inst.filterMap (fun row => row[i]?))).map prefD)).filterMap
              (fun (x : Option Chan × List WEntry) => match x with | (o, ws) => o.map (fun o => (o, ws))) := by
          rw [List.mem_filterMap]
          exact ⟨_, hmem, by simp [hmi]⟩
        rw [hk] at this
        simp at this

end QP.PT
