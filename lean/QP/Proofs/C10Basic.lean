import QP.Model.C10
/-! Helper lemmas for C10: association lists (`lookup`, `put`, `hasKey`). -/
namespace QP.C10
set_option linter.unusedSimpArgs false
set_option linter.unusedVariables false

variable {α : Type}

@[simp] theorem lookup_nil (k : String) : lookup k ([] : List (String × α)) = none := rfl

theorem lookup_cons (k k' : String) (v : α) (rest : List (String × α)) :
    lookup k ((k', v) :: rest) = if k' = k then some v else lookup k rest := rfl

@[simp] theorem lookup_cons_same (k : String) (v : α) (rest : List (String × α)) :
    lookup k ((k, v) :: rest) = some v := by simp [lookup_cons]

theorem lookup_cons_ne {k k' : String} (v : α) (rest : List (String × α)) (h : k' ≠ k) :
    lookup k ((k', v) :: rest) = lookup k rest := by simp [lookup_cons, h]

theorem lookup_append (k : String) (a b : List (String × α)) :
    lookup k (a ++ b) = match lookup k a with | some v => some v | none => lookup k b := by
  induction a with
  | nil => rfl
  | cons x xs ih =>
    obtain ⟨k', v⟩ := x
    by_cases h : k' = k
    · simp [lookup_cons, h]
    · simp [lookup_cons, h, ih]

theorem lookup_eq_none_iff (k : String) (s : List (String × α)) :
    lookup k s = none ↔ k ∉ s.map Prod.fst := by
  induction s with
  | nil => simp
  | cons x xs ih =>
    obtain ⟨k', v⟩ := x
    by_cases h : k' = k
    · subst h; simp
    · rw [lookup_cons_ne _ _ h, ih]
      simp only [List.map_cons, List.mem_cons, not_or]
      exact ⟨fun hx => ⟨fun e => h e.symm, hx⟩, fun hx => hx.2⟩

theorem lookup_mem {k : String} {v : α} {s : List (String × α)} (h : lookup k s = some v) : (k, v) ∈ s := by
  induction s with
  | nil => simp at h
  | cons x xs ih =>
    obtain ⟨k', v'⟩ := x
    by_cases hk : k' = k
    · simp [lookup_cons, hk] at h; simp [hk, h]
    · simp [lookup_cons, hk] at h; exact List.mem_cons_of_mem _ (ih h)

theorem lookup_of_mem_nodup {k : String} {v : α} {s : List (String × α)}
    (hn : (s.map Prod.fst).Nodup) (h : (k, v) ∈ s) : lookup k s = some v := by
  induction s with
  | nil => simp at h
  | cons x xs ih =>
    obtain ⟨k', v'⟩ := x
    simp only [List.map_cons, List.nodup_cons] at hn
    rcases List.mem_cons.mp h with h | h
    · cases h; simp
    · have : k' ≠ k := by
        intro e; subst e
        exact hn.1 (List.mem_map.mpr ⟨(k', v), h, rfl⟩)
      rw [lookup_cons_ne _ _ this]; exact ih hn.2 h

theorem hasKey_iff (i : Id) (s : List (Id × α)) : hasKey i s = true ↔ i ∈ s.map Prod.fst := by
  unfold hasKey
  cases h : lookup i s with
  | none => simp [(lookup_eq_none_iff i s).mp h]
  | some v =>
    simp
    exact ⟨v, lookup_mem h⟩

theorem hasKey_false_iff (i : Id) (s : List (Id × α)) : hasKey i s = false ↔ lookup i s = none := by
  unfold hasKey; cases lookup i s <;> simp

theorem hasKey_true_iff (i : Id) (s : List (Id × α)) : hasKey i s = true ↔ ∃ v, lookup i s = some v := by
  unfold hasKey; cases lookup i s <;> simp

/-! ### `put` -/

theorem lookup_put_same (i : Id) (d : α) (s : List (Id × α)) : lookup i (put i d s) = some d := by
  induction s with
  | nil => simp [put]
  | cons x xs ih =>
    obtain ⟨k, v⟩ := x
    by_cases h : k = i
    · simp [put, h]
    · simp [put, h, lookup_cons, ih]

theorem lookup_put_ne {i j : Id} (d : α) (s : List (Id × α)) (h : j ≠ i) :
    lookup j (put i d s) = lookup j s := by
  induction s with
  | nil => simp [put, lookup_cons, h.symm]
  | cons x xs ih =>
    obtain ⟨k, v⟩ := x
    by_cases hk : k = i
    · subst hk; simp [put, lookup_cons, h.symm]
    · by_cases hj : k = j
      · subst hj; simp [put, hk, lookup_cons]
      · simp [put, hk, lookup_cons, hj, ih]

theorem lookup_put (i j : Id) (d : α) (s : List (Id × α)) :
    lookup j (put i d s) = if j = i then some d else lookup j s := by
  by_cases h : j = i
  · subst h; simp [lookup_put_same]
  · simp [h, lookup_put_ne d s h]

theorem hasKey_put (i j : Id) (d : α) (s : List (Id × α)) :
    hasKey j (put i d s) = (decide (j = i) || hasKey j s) := by
  unfold hasKey; rw [lookup_put]; by_cases h : j = i <;> simp [h]

theorem put_self {i : Id} {d : α} {s : List (Id × α)} (h : lookup i s = some d) : put i d s = s := by
  induction s with
  | nil => simp at h
  | cons x xs ih =>
    obtain ⟨k, v⟩ := x
    by_cases hk : k = i
    · simp [lookup_cons, hk] at h; simp [put, hk, h]
    · simp [lookup_cons, hk] at h; simp [put, hk, ih h]

theorem put_of_not_has {i : Id} (d : α) {s : List (Id × α)} (h : lookup i s = none) :
    put i d s = s ++ [(i, d)] := by
  induction s with
  | nil => rfl
  | cons x xs ih =>
    obtain ⟨k, v⟩ := x
    by_cases hk : k = i
    · simp [lookup_cons, hk] at h
    · simp [lookup_cons, hk] at h; simp [put, hk, ih h]

theorem keys_put_of_has {i : Id} (d : α) {s : List (Id × α)} (h : hasKey i s = true) :
    (put i d s).map Prod.fst = s.map Prod.fst := by
  induction s with
  | nil => simp [hasKey] at h
  | cons x xs ih =>
    obtain ⟨k, v⟩ := x
    by_cases hk : k = i
    · simp [put, hk]
    · have : hasKey i xs = true := by
        simpa [hasKey, lookup_cons, hk] using h
      simp [put, hk, ih this]

theorem nodup_keys_put (i : Id) (d : α) {s : List (Id × α)} (hn : (s.map Prod.fst).Nodup) :
    ((put i d s).map Prod.fst).Nodup := by
  cases h : hasKey i s with
  | true => rw [keys_put_of_has d h]; exact hn
  | false =>
    have hl := (hasKey_false_iff i s).mp h
    rw [put_of_not_has d hl]
    simp only [List.map_append, List.map_cons, List.map_nil]
    refine List.nodup_append.mpr ⟨hn, by simp, ?_⟩
    intro a ha b hb
    simp at hb; subst hb
    intro e; subst e
    exact ((lookup_eq_none_iff _ s).mp hl) ha

end QP.C10
