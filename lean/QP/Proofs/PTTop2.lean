import QP.Model.PT
import QP.Proofs.PTTop
import QP.Proofs.PTMulti
import QP.Proofs.PTPoint
import QP.Proofs.PTAtomsP
/-! Stage 2 of compile correctness: table atoms and channel-parallel atomic composition in addition to stage 1. -/
namespace QP.PT

/-- atomic templates whose `build_waveform` is proved correct: constant, function, table, point, and
`AtomicMultiChannelPT` over such templates -/
inductive AtomTree : PT → Prop
  | const {id dur amps meas} : AtomTree (.const id dur amps meas)
  | func {id ch dur e meas cons} : AtomTree (.func id ch dur e meas cons)
  | table {id entries meas cons} : AtomTree (.table id entries meas cons)
  | point {id chans entries meas cons} : AtomTree (.point id chans entries meas cons)
  | atomicMulti {id subs dur meas cons} : (∀ p ∈ subs, AtomTree p) → AtomTree (.atomicMulti id subs dur meas cons)

theorem AtomTree.buildOK {pt : PT} (h : AtomTree pt) : BuildOK pt := by
  induction h with
  | const => exact buildOK_const _ _ _ _
  | func => exact buildOK_func _ _ _ _ _ _
  | table => exact buildOK_table _ _ _ _
  | point => exact buildOK_point _ _ _ _ _
  | atomicMulti _ ih => exact buildOK_atomicMulti _ _ _ _ _ ih

theorem AtomTree.denoteND {pt : PT} (h : AtomTree pt) : DenoteND pt := by
  cases h with
  | const => exact denoteND_const _ _ _ _
  | func => exact denoteND_func _ _ _ _ _ _
  | table => exact denoteND_table _ _ _ _
  | point => exact denoteND_point _ _ _ _ _
  | atomicMulti _ => exact denoteND_atomicMulti _ _ _ _ _

/-- the atoms of the sample theorems: the proved atoms and `ArithmeticAtomicPT`s of them (any nesting of
`ArithmeticAtomicPT` in `ArithmeticAtomicPT`) -/
inductive AtomTreeP : PT → Prop
  | base {pt} : AtomTree pt → AtomTreeP pt
  | arithAtomic {id lhs minus rhs meas} : AtomTreeP lhs → AtomTreeP rhs →
      AtomTreeP (.arithAtomic id lhs minus rhs meas)

theorem AtomTreeP.denoteND {pt : PT} (h : AtomTreeP pt) : DenoteND pt := by
  induction h with
  | base ha => exact ha.denoteND
  | arithAtomic _ _ ihl ihr => exact denoteND_arithAtomic _ _ _ _ _ ihl ihr

theorem AtomTreeP.buildOKP {pt : PT} (h : AtomTreeP pt) : BuildOKP pt := by
  induction h with
  | base ha => exact ha.buildOK.toP ha.denoteND
  | arithAtomic _ _ ihl ihr => exact buildOKP_arithAtomic _ _ _ _ _ ihl ihr

/-- the constructor subset of stage 2: `AtomTree` atoms composed by sequencing, repetition, indexed iteration and
parameter / channel / measurement mapping -/
inductive Stage2 : PT → Prop
  | atom {pt} : AtomTreeP pt → Stage2 pt
  | seq {id subs meas cons} : (∀ p ∈ subs, Stage2 p) → Stage2 (.seq id subs meas cons)
  | rep {id body count meas cons} : Stage2 body → Stage2 (.rep id body count meas cons)
  | forLoop {id body idx start stop step meas cons} : Stage2 body →
      Stage2 (.forLoop id body idx start stop step meas cons)
  | mapping {id body pm mm cm cons} : Stage2 body → Stage2 (.mapping id body pm mm cm cons)

theorem Stage2.basic {pt : PT} (h : Stage2 pt) : Basic pt := by
  induction h with
  | atom ha =>
    have hb := atomOK_of_buildOKP ha.buildOKP
    cases ha with
    | base ha' =>
      cases ha' with
      | const => exact Basic.const hb
      | func => exact Basic.func hb
      | table => exact Basic.table hb
      | point => exact Basic.point hb
      | atomicMulti _ => exact Basic.atomicMulti hb
    | arithAtomic _ _ => exact Basic.arithAtomic hb
  | seq _ ih => exact Basic.seq ih
  | rep _ ih => exact Basic.rep ih
  | forLoop _ ih => exact Basic.forLoop ih
  | mapping _ ih => exact Basic.mapping ih

theorem Stage1.stage2 {pt : PT} (h : Stage1 pt) : Stage2 pt := by
  induction h with
  | const => exact Stage2.atom (AtomTreeP.base AtomTree.const)
  | func => exact Stage2.atom (AtomTreeP.base AtomTree.func)
  | seq _ ih => exact Stage2.seq ih
  | rep _ ih => exact Stage2.rep ih
  | forLoop _ ih => exact Stage2.forLoop ih
  | mapping _ ih => exact Stage2.mapping ih

end QP.PT
